(* C06, the other ledgers.  In every reachable state of the repaired broker
   - Part 2 (amqp-rabbit dialect): the count of each consumer's own prefetch window equals the number of that consumer's
     unsettled deliveries on its channel (consumer_ledger_reachable; CL_step for one label);
   - Part 3 (amqp-0-9-1 dialect): the count of the connection-wide prefetch window equals the number of unsettled
     deliveries of all the connection's channels (conn_ledger_reachable; NL_step);
   - Part 4/5 (both dialects, any repair switches): the byte count of the channel window equals the body bytes of the
     channel's unsettled deliveries (byte_ledger_reachable; BL_step), because every message a delivery, a queue or the
     store refers to is complete (RCI_step);
   - Part 6 (amqp-rabbit): the byte count of each consumer's own window equals the body bytes of that consumer's unsettled
     deliveries (consumer_byte_ledger_reachable; YB_step) - Part 2 with sizes for counts, names prefixed y/Y;
   - Part 7 (amqp-0-9-1): the byte count of the connection-wide window equals the body bytes of all the connection's
     unsettled deliveries (conn_byte_ledger_reachable; ZB_step) - Part 3 with sizes, names prefixed z/Z; it needs the
     channel numbers of a connection to be distinct (KD_step);
   as long as no channel / connection is at the edge of the uint16 / uint32 counter (finding F32), for the repaired
   close-ok / channel-state / class checks (fx_closeok_releases, fx_chan_open, fx_stage: without them a channel
   number can be re-opened over live consumers or unsettled deliveries, see the _refuted examples in Props/C06_ledgers.v).
   Part 0 is one proof of "every label keeps I" (D2_step_any / D2_step / D_step) for any state predicate I that the broker's
   primitives keep; Part 1 the auxiliary invariant "a closed channel, and channel 0, hold nothing" (CB_step). *)
From Coq Require Import List String NArith ZArith Bool Lia ZifyBool ZifyN.
From RecordUpdate Require Import RecordUpdate.
Import ListNotations.
From GMQ Require Import Broker.Model Proofs.BrokerFrames Proofs.BrokerTags Proofs.BrokerChanInv Proofs.BrokerHeld Proofs.BrokerLedger.
Open Scope N_scope.

(* ------------------------------------------------------------------ *)
(* Part 0: reading a channel back after an update; one proof of "every label keeps I" for any state predicate I that
   the broker's primitives keep *)
Lemma get_chan_upd_chan s c h f c' h' :
  get_chan (upd_chan s c h f) c' h' = if (c' =? c) && (h' =? h) then option_map f (get_chan s c h) else get_chan s c' h'.
Proof.
  unfold upd_chan. destruct (get_chan s c h) as [ch|] eqn:E.
  - rewrite get_chan_set_chan. pose proof (get_chan_conn _ _ _ _ E). destruct (get_conn s c); [|congruence]. reflexivity.
  - destruct ((c' =? c) && (h' =? h)) eqn:Eb; auto.
    apply andb_prop in Eb. destruct Eb as [E1 E2]. apply N.eqb_eq in E1, E2. subst. rewrite E. reflexivity.
Qed.

Lemma allch_upd_chan2 (P : N -> N -> channel -> Prop) s c h f g :
  (forall ch, P c h ch -> P c h (g (f ch))) -> allch P s -> allch P (upd_chan (upd_chan s c h f) c h g).
Proof.
  intros Hf H c' h' ch' Hg. rewrite !get_chan_upd_chan in Hg. destruct ((c' =? c) && (h' =? h)) eqn:Eb; [|apply H; auto].
  apply andb_prop in Eb. destruct Eb as [E1 E2]. apply N.eqb_eq in E1, E2. subst. rewrite !N.eqb_refl in Hg. cbn [andb] in Hg.
  destruct (get_chan s c h) as [ch|] eqn:E; cbn in Hg; inversion Hg; subst. apply Hf. apply H; auto.
Qed.

Definition step_generic (cfg : config) (fx : fixes) (st : cstage) (s : state) (c h : N) (m : meth) : state * list event :=
  let opened := cstage_eqb st StOpen in
  let closing := match get_chan s c h with Some ch => match ch_status ch with ChClosing => true | _ => false end | None => false end in
  if fx_discard_closing fx && closing && negb (is_chan_close m) then (s, [])
  else if fx_stage fx && negb (Bool.eqb (is_conn_class m) (h =? 0))
       then apply_err_st cfg fx opened s c h (refuse s (ConnErr CommandInvalid (fst (meth_ids m)) (snd (meth_ids m))))
       else if fx_stage fx && negb (stage_allows st m)
            then apply_err_st cfg fx opened s c h (refuse s (ConnErr CommandInvalid (fst (meth_ids m)) (snd (meth_ids m))))
            else if fx_chan_open fx && negb (is_conn_class m) && negb (chan_usable s c h) && negb (match m with MChannelOpen => true | _ => false end)
                 then apply_err s c h (refuse s (ConnErr ChannelErr (fst (meth_ids m)) (snd (meth_ids m))))
                 else apply_err_st cfg fx opened s c h (handle_method cfg fx s c h m).

(* what the frame checks of the repaired broker guarantee when a method reaches its handler *)
Definition guard (s : state) (c h : N) (m : meth) : Prop :=
  Bool.eqb (is_conn_class m) (h =? 0) = true /\
  negb (is_conn_class m) && negb (chan_usable s c h) && negb (match m with MChannelOpen => true | _ => false end) = false.

(* the size of a stored message is read from the heap only *)
Lemma msg_size_same_heap s s' x : heap s' = heap s -> msg_size s' x = msg_size s x.
Proof. unfold msg_size, get_msg. intros ->. reflexivity. Qed.
Lemma msg_size_upd_msg s u F x : (forall m, m_size (F m) = m_size m) -> msg_size (upd_msg s u F) x = msg_size s x.
Proof.
  intros HF. unfold upd_msg. destruct (get_msg s u) as [m|] eqn:E; [|reflexivity].
  unfold msg_size, get_msg in *. cbn. rewrite (alookup_aset N.eqb Neqb_spec). destruct (x =? u) eqn:E1; [|reflexivity].
  apply N.eqb_eq in E1. subst. rewrite E. apply HF.
Qed.
Lemma heap_set_chan' s c h ch : heap (set_chan s c h ch) = heap s.
Proof. unfold set_chan. destruct (get_conn s c); reflexivity. Qed.
Lemma heap_upd_chan s c h f : heap (upd_chan s c h f) = heap s.
Proof. unfold upd_chan. destruct (get_chan s c h); [apply heap_set_chan'|reflexivity]. Qed.
Lemma heap_upd_queue s q f : heap (upd_queue s q f) = heap s.
Proof. unfold upd_queue. destruct (get_queue s q); reflexivity. Qed.
Lemma msg_size_queue_push s qn u x : msg_size (queue_push s qn u) x = msg_size s x.
Proof.
  unfold queue_push. destruct (get_queue s qn) as [qu|]; auto. destruct (get_msg s u) as [m|]; auto. destruct (negb _); auto.
  cbv zeta. match goal with |- msg_size (set_queue ?st _ _) x = _ => transitivity (msg_size st x); [apply msg_size_same_heap; reflexivity|] end.
  destruct (_ && _)%bool; [reflexivity|]. destruct (m_conf m); [|reflexivity].
  rewrite msg_size_upd_msg by reflexivity. reflexivity.
Qed.
Lemma msg_size_store_confirm s u x : msg_size (store_confirm s u) x = msg_size s x.
Proof.
  unfold store_confirm. destruct (get_msg s u) as [m|]; auto. destruct (m_conf m); auto.
  destruct (_ =? _)%Z; [change (msg_size (upd_msg s u (fun m => m <| m_actual ::= Z.succ |>)) x = msg_size s x)|];
    apply msg_size_upd_msg; reflexivity.
Qed.

(* ... each only if the corresponding check is switched on *)
Definition cguard (fx : fixes) (s : state) (c h : N) (m : meth) : Prop :=
  (fx_stage fx = true -> Bool.eqb (is_conn_class m) (h =? 0) = true) /\
  (fx_chan_open fx = true ->
   negb (is_conn_class m) && negb (chan_usable s c h) && negb (match m with MChannelOpen => true | _ => false end) = false).
Lemma cguard_guard fx s c h m : fx_stage fx = true -> fx_chan_open fx = true -> cguard fx s c h m -> guard s c h m.
Proof. intros A B [G1 G2]. split; auto. Qed.

Section Dispatch2.
Variables (cfg : config) (fx : fixes).
Variable I : state -> Prop.
Variable Gu : state -> N -> Prop.   (* what the message of a publish must satisfy when it is pushed *)
Hypothesis I_chan_close : forall s c h, I s -> I (channel_close cfg s c h).
Hypothesis I_del : forall b s qn iu ie, I s -> I (fst (fst (vhost_delete_queue b s qn iu ie))).
Hypothesis I_delconn : forall s c, I s -> I (s <| conns := adel N.eqb c (conns s) |>).
Hypothesis I_closing : forall s c h, I s -> I (upd_chan s c h (fun ch => ch <| ch_status := ChClosing |>)).
Hypothesis I_ensure : forall s c h, I s -> I (ensure_chan s c h).
Hypothesis I_cur : forall s c h, I s -> I (upd_chan s c h (fun ch => ch <| ch_cur := None |>)).
Hypothesis I_add_confirm : forall s c h t, I s -> I (add_confirm s c h t).
Hypothesis I_wake : forall s c h tag, I s -> I (fst (wake_consumer s c h tag)).
Hypothesis I_newconn : forall s c st, get_conn s c = None -> I s ->
  I (s <| conns := aset N.eqb c {| cn_chans := [(0, channel0 <| ch_status := ChNew |>)]; cn_qos := qos0; cn_stage := st |} (conns s) |>).
Hypothesis I_restart : forall s, I s -> I (fst (restart cfg s)).
Hypothesis I_tick : forall s c h ch, get_chan s c h = Some ch -> I s ->
  I (set_chan s c h (ch <| ch_ticker := false |>)) /\ I (set_chan s c h (ch <| ch_confirmq := [] |>)).
Hypothesis I_push : forall s qn u, Gu s u -> I s -> I (queue_push s qn u).
Hypothesis Gu_push : forall s qn u v, Gu s v -> Gu (queue_push s qn u) v.
Hypothesis Gu_addc : forall s c h t v, Gu s v -> Gu (add_confirm s c h t) v.
Hypothesis I_exp : forall s u z, I s -> I (upd_msg s u (fun m => m <| m_expected := z |>)).
Hypothesis Gu_exp : forall s u z v, Gu s v -> Gu (upd_msg s u (fun m => m <| m_expected := z |>)) v.
Hypothesis I_qmeta : forall s qn qu qu', get_queue s qn = Some qu -> q_ready qu' = q_ready qu -> I s -> I (set_queue s qn qu').
Hypothesis I_autodel : forall s rest, I s -> I (s <| autodel := rest |>).
Hypothesis I_relay : forall s rest, I s -> I (s <| relay := rest |>).
Hypothesis I_persist : forall s, I s -> I (fst (step cfg fx s LPersistTick)).

Lemma D_delete_fold b l : forall s evs, I s ->
  I (fst (fold_left (fun acc qn => let '(s, evs) := acc in
                                   let '(s', e, _) := vhost_delete_queue b s qn false false in (s', evs ++ e)) l (s, evs))).
Proof.
  induction l as [|x t IH]; intros s evs H; simpl; auto.
  pose proof (I_del b s x false false H) as Hd.
  destruct (vhost_delete_queue b s x false false) as [[s1 e1] r1]. cbn [fst] in Hd. apply IH. exact Hd.
Qed.

Lemma D_conn_close s c : I s -> I (fst (conn_close cfg fx s c)).
Proof.
  intros H. unfold conn_close. destruct (get_conn s c) as [cn|]; [|exact H].
  set (s1 := fold_left _ _ s).
  assert (H1 : I s1) by (subst s1; apply fold_left_preserves; auto).
  clearbody s1.
  pose proof (D_delete_fold (negb (fx_delete_checks_first fx))
                (map fst (filter (fun kv => q_excl (snd kv) && (q_owner (snd kv) =? c)) (queues s1))) s1 [] H1) as Hd.
  destruct (fold_left _ _ (s1, [])) as [s2 e2]. cbn [fst] in *. apply I_delconn. exact Hd.
Qed.

Lemma D_send_error s c h e : I s -> I (fst (send_error s c h e)).
Proof. intros H. destruct e; cbn [send_error fst]; auto. Qed.

Lemma D_apply_err s c h r : I (fst (fst r)) -> I (fst (apply_err s c h r)).
Proof.
  destruct r as [[s1 e1] [e|]]; cbn [fst]; auto.
  intros H. unfold apply_err. pose proof (D_send_error s1 c h e H) as Hs.
  destruct (send_error s1 c h e) as [s2 e2]. exact Hs.
Qed.

Lemma D_apply_err_st opened s c h r : I (fst (fst r)) -> I (fst (apply_err_st cfg fx opened s c h r)).
Proof.
  intros H. unfold apply_err_st. destruct opened; [apply D_apply_err; auto|].
  destruct (snd r) as [[| ]|]; try (apply D_apply_err; auto).
  pose proof (D_apply_err s c h r H) as H1. destruct (apply_err s c h r) as [s1 e1]. cbn [fst] in H1.
  pose proof (D_conn_close s1 c H1) as H2. destruct (conn_close cfg fx s1 c) as [s2 e2]. exact H2.
Qed.

Lemma D_route_and_push s c h u : Gu s u -> I s -> I (fst (route_and_push fx s c h u)).
Proof.
  intros Hu H. unfold route_and_push. destruct (get_msg s u) as [m|]; auto.
  destruct (alookup _ _ _) as [ex|]; cbn [fst]; [|apply I_add_confirm; auto].
  destruct (matched_queues _ _ _) as [|q1 qs]; cbn [fst]; [apply I_add_confirm; auto|].
  match goal with |- I (fold_left ?F ?l ?st) => assert (X : I (fold_left F l st) /\ Gu (fold_left F l st) u); [|exact (proj1 X)] end.
  apply (fold_left_preserves (fun st => I st /\ Gu st u)).
  - intros s0 qn [H0 G0]. assert (H1 : I (queue_push s0 qn u) /\ Gu (queue_push s0 qn u) u) by (split; auto).
    unfold push_one. destruct (get_msg (queue_push s0 qn u) u); [|exact H1]. destruct (_ && _)%bool; [|exact H1]. destruct H1 as [A B]. split; auto.
  - destruct (_ && _)%bool; split; auto.
Qed.

Lemma D_finish_publish s c h u : Gu s u -> I s -> I (fst (finish_publish fx s c h u)).
Proof.
  intros Hu H. unfold finish_publish. pose proof (D_route_and_push s c h u Hu H) as H1.
  destruct (route_and_push fx s c h u) as [s1 e1]. cbn [fst] in *. destruct (fx_clear_current fx); auto.
Qed.

Lemma D_queue_loop_turn s qn : I s -> I (queue_loop_turn s qn).
Proof.
  intros H. unfold queue_loop_turn. destruct (get_queue s qn) as [qu|] eqn:Eq; auto. destruct (negb (q_call qu)); auto.
  assert (H1 : I (set_queue s qn (qu <| q_call := false |>))) by (eapply I_qmeta; eauto).
  destruct (Nat.eqb _ 0); [exact H1|].
  set (s2 := fold_left _ (q_consumers qu) _).
  assert (H2 : I s2) by (subst s2; apply fold_left_preserves; auto; intros s0 [[c h] tag] H0; apply I_wake; auto).
  clearbody s2. unfold upd_queue. destruct (get_queue s2 qn) as [qu2|] eqn:E2; auto. eapply I_qmeta; eauto.
Qed.

Lemma D_generic st s c h m :
  (cguard fx s c h m -> I (fst (fst (handle_method cfg fx s c h m)))) ->
  I s -> I (fst (step_generic cfg fx st s c h m)).
Proof.
  intros Hm H. unfold step_generic.
  destruct (fx_discard_closing fx && _ && _)%bool; [exact H|].
  destruct (fx_stage fx && negb (Bool.eqb _ _))%bool eqn:E1; [apply D_apply_err_st; exact H|].
  destruct (fx_stage fx && negb (stage_allows _ _))%bool; [apply D_apply_err_st; exact H|].
  destruct (fx_chan_open fx && _ && _ && _)%bool eqn:E2; [apply D_apply_err; exact H|].
  apply D_apply_err_st. apply Hm. split.
  - intros Hs. rewrite Hs in E1. cbn [andb] in E1. apply Bool.negb_false_iff in E1. exact E1.
  - intros Hc. rewrite Hc in E2. cbn [andb] in E2. exact E2.
Qed.

Theorem D2_step_any s l :
  (forall c h m, cguard fx (ensure_chan s c h) c h m -> I (ensure_chan s c h) -> I (fst (fst (handle_method cfg fx (ensure_chan s c h) c h m)))) ->
  (forall c h tag, I (fst (consumer_turn cfg fx s c h tag))) ->
  (forall c h ch u m mid size pers, get_chan (ensure_chan s c h) c h = Some ch -> ch_cur ch = Some u -> get_msg (ensure_chan s c h) u = Some m ->
     m_has_header m = false -> I (ensure_chan s c h) ->
     I (upd_msg (ensure_chan s c h) u (fun m => m <| m_has_header := true |> <| m_hsize := size |> <| m_pers := pers |> <| m_mid := mid |>)) /\
     (size = 0 -> Gu (upd_msg (ensure_chan s c h) u (fun m => m <| m_has_header := true |> <| m_hsize := size |> <| m_pers := pers |> <| m_mid := mid |>)) u)) ->
  (forall c h ch u m len, get_chan (ensure_chan s c h) c h = Some ch -> ch_cur ch = Some u -> get_msg (ensure_chan s c h) u = Some m ->
     m_has_header m = true -> (m_hsize m <? m_size m + len) = false -> I (ensure_chan s c h) ->
     I (upd_msg (ensure_chan s c h) u (fun m => m <| m_body ::= fun b => b ++ [len] |> <| m_size ::= fun z => z + len |>)) /\
     ((m_size m + len <? m_hsize m) = false ->
      Gu (upd_msg (ensure_chan s c h) u (fun m => m <| m_body ::= fun b => b ++ [len] |> <| m_size ::= fun z => z + len |>)) u)) ->
  I s -> I (fst (step cfg fx s l)).
Proof.
  intros Hm Hturn Hhdr Hbody H. destruct l.
  2:{ (* LMethod *) cbn [step].
    destruct (get_conn s c) as [cn0|]; [|exact H].
    destruct (negb _ && negb _)%bool; [apply D_conn_close; auto|].
    pose proof (I_ensure s c h H) as H0.
    destruct m.
    all: try (apply (D_generic (cn_stage cn0) (ensure_chan s c h) c h); [intros Hgd; apply Hm; assumption|exact H0]).
    + destruct (fx_stage fx && negb (h =? 0)); [apply D_apply_err; exact H0|].
      pose proof (D_conn_close _ c H0) as Hc.
      destruct (conn_close cfg fx (ensure_chan s c h) c) as [s1 e1]. exact Hc.
    + destruct (fx_stage fx && negb (h =? 0)); [apply D_apply_err; exact H0|]. apply D_conn_close; auto. }
  7:{ (* LPersistTick *) apply I_persist. exact H. }
  all: cbn [step].
  - (* LConnect *) destruct (get_conn s c) eqn:Ec; cbn [fst]; auto.
  - (* LHeader *)
    destruct (get_conn s c) as [cn0|]; [|exact H].
    destruct (negb _ && negb _)%bool; [apply D_conn_close; auto|].
    pose proof (I_ensure s c h H) as H0.
    destruct (get_chan _ c h) as [ch|] eqn:Ech; [|exact H0].
    destruct (_ && _)%bool; [exact H0|].
    destruct (ch_cur ch) as [u|] eqn:Ecur; [|apply D_apply_err_st; auto].
    destruct (get_msg _ u) as [m|] eqn:Em; [|exact H0].
    destruct (m_has_header m) eqn:Ehh; [apply D_apply_err_st; auto|].
    destruct (Hhdr c h ch u m mid size pers Ech Ecur Em Ehh H0) as [H2 G2].
    destruct (fx_empty_body fx && (size =? 0))%bool eqn:Ee; [|exact H2].
    apply D_finish_publish; auto. apply G2. apply andb_prop in Ee. destruct Ee as [_ Ee]. apply N.eqb_eq in Ee. exact Ee.
  - (* LBody *)
    destruct (get_conn s c) as [cn0|]; [|exact H].
    destruct (negb _ && negb _)%bool; [apply D_conn_close; auto|].
    pose proof (I_ensure s c h H) as H0.
    destruct (get_chan _ c h) as [ch|] eqn:Ech; [|exact H0].
    destruct (_ && _)%bool; [exact H0|].
    destruct (ch_cur ch) as [u|] eqn:Ecur; [|apply D_apply_err_st; auto].
    destruct (get_msg _ u) as [m|] eqn:Em; [|exact H0].
    destruct (negb (m_has_header m)) eqn:Ehh; [apply D_apply_err_st; auto|]. apply Bool.negb_false_iff in Ehh.
    destruct (m_hsize m <? m_size m + len) eqn:Elt; [apply D_apply_err_st; cbn [fst]; apply I_cur; auto|].
    destruct (Hbody c h ch u m len Ech Ecur Em Ehh Elt H0) as [H2 G2].
    destruct (m_size m + len <? m_hsize m) eqn:Elt2; [exact H2|apply D_finish_publish; auto].
  - apply Hturn.
  - cbn [fst]. apply D_queue_loop_turn; auto.
  - destruct (autodel s) as [|qn rest]; [exact H|].
    pose proof (I_autodel s rest H) as H0.
    destruct (get_queue _ qn) as [qu0|]; [|exact H0]. destruct (q_autodel qu0); [|exact H0].
    pose proof (I_del (negb (fx_delete_checks_first fx)) _ qn true false H0) as Hd.
    destruct (vhost_delete_queue _ (s <| autodel := rest |>) qn true false) as [[s1 e1] r1]. exact Hd.
  - destruct (relay s) as [|u rest]; [exact H|].
    pose proof (I_relay s rest H) as H0.
    destruct (get_msg _ u) as [m|]; cbn [fst]; auto.
    destruct (m_conf m) as [[[? ?] ?]|]; cbn [fst]; auto.
  - destruct (get_chan s c h) as [ch|] eqn:Ech; [|exact H]. destruct (negb _); [exact H|].
    destruct (I_tick s c h ch Ech H) as [T1 T2].
    destruct (ch_status ch); cbn [fst]; auto.
  - pose proof (D_conn_close s c H) as Hc.
    destruct (conn_close cfg fx s c) as [s1 e1]. exact Hc.
  - (* LAccept *) destruct (get_conn s c) eqn:Ec; cbn [fst]; auto.
  - (* LBadMethod *)
    destruct (get_conn s c) as [cn0|]; [|exact H].
    destruct (negb _ && negb _)%bool; [apply D_conn_close; auto|].
    apply D_apply_err_st; cbn [fst]. apply I_ensure; auto.
  - (* LHeartbeat *)
    destruct (get_conn s c); [|exact H]. destruct (h =? 0); [exact H|apply D_conn_close; auto].
  - (* LRestart *) apply I_restart. exact H.
Qed.
End Dispatch2.


(* the same with both checks switched on (the form other developments use) *)
Theorem D2_step (cfg : config) (fx : fixes) (I : state -> Prop) (Gu : state -> N -> Prop)
  (Hst : fx_stage fx = true) (Hco : fx_chan_open fx = true)
  (I_chan_close : forall s c h, I s -> I (channel_close cfg s c h))
  (I_del : forall b s qn iu ie, I s -> I (fst (fst (vhost_delete_queue b s qn iu ie))))
  (I_delconn : forall s c, I s -> I (s <| conns := adel N.eqb c (conns s) |>))
  (I_closing : forall s c h, I s -> I (upd_chan s c h (fun ch => ch <| ch_status := ChClosing |>)))
  (I_ensure : forall s c h, I s -> I (ensure_chan s c h))
  (I_cur : forall s c h, I s -> I (upd_chan s c h (fun ch => ch <| ch_cur := None |>)))
  (I_add_confirm : forall s c h t, I s -> I (add_confirm s c h t))
  (I_wake : forall s c h tag, I s -> I (fst (wake_consumer s c h tag)))
  (I_newconn : forall s c st, get_conn s c = None -> I s ->
     I (s <| conns := aset N.eqb c {| cn_chans := [(0, channel0 <| ch_status := ChNew |>)]; cn_qos := qos0; cn_stage := st |} (conns s) |>))
  (I_restart : forall s, I s -> I (fst (restart cfg s)))
  (I_tick : forall s c h ch, get_chan s c h = Some ch -> I s ->
     I (set_chan s c h (ch <| ch_ticker := false |>)) /\ I (set_chan s c h (ch <| ch_confirmq := [] |>)))
  (I_push : forall s qn u, Gu s u -> I s -> I (queue_push s qn u))
  (Gu_push : forall s qn u v, Gu s v -> Gu (queue_push s qn u) v)
  (Gu_addc : forall s c h t v, Gu s v -> Gu (add_confirm s c h t) v)
  (I_exp : forall s u z, I s -> I (upd_msg s u (fun m => m <| m_expected := z |>)))
  (Gu_exp : forall s u z v, Gu s v -> Gu (upd_msg s u (fun m => m <| m_expected := z |>)) v)
  (I_qmeta : forall s qn qu qu', get_queue s qn = Some qu -> q_ready qu' = q_ready qu -> I s -> I (set_queue s qn qu'))
  (I_autodel : forall s rest, I s -> I (s <| autodel := rest |>))
  (I_relay : forall s rest, I s -> I (s <| relay := rest |>))
  (I_persist : forall s, I s -> I (fst (step cfg fx s LPersistTick)))
  s l :
  (forall c h m, guard (ensure_chan s c h) c h m -> I (ensure_chan s c h) -> I (fst (fst (handle_method cfg fx (ensure_chan s c h) c h m)))) ->
  (forall c h tag, I (fst (consumer_turn cfg fx s c h tag))) ->
  (forall c h ch u m mid size pers, get_chan (ensure_chan s c h) c h = Some ch -> ch_cur ch = Some u -> get_msg (ensure_chan s c h) u = Some m ->
     m_has_header m = false -> I (ensure_chan s c h) ->
     I (upd_msg (ensure_chan s c h) u (fun m => m <| m_has_header := true |> <| m_hsize := size |> <| m_pers := pers |> <| m_mid := mid |>)) /\
     (size = 0 -> Gu (upd_msg (ensure_chan s c h) u (fun m => m <| m_has_header := true |> <| m_hsize := size |> <| m_pers := pers |> <| m_mid := mid |>)) u)) ->
  (forall c h ch u m len, get_chan (ensure_chan s c h) c h = Some ch -> ch_cur ch = Some u -> get_msg (ensure_chan s c h) u = Some m ->
     m_has_header m = true -> (m_hsize m <? m_size m + len) = false -> I (ensure_chan s c h) ->
     I (upd_msg (ensure_chan s c h) u (fun m => m <| m_body ::= fun b => b ++ [len] |> <| m_size ::= fun z => z + len |>)) /\
     ((m_size m + len <? m_hsize m) = false ->
      Gu (upd_msg (ensure_chan s c h) u (fun m => m <| m_body ::= fun b => b ++ [len] |> <| m_size ::= fun z => z + len |>)) u)) ->
  I s -> I (fst (step cfg fx s l)).
Proof.
  intros Hm Hturn Hhdr Hbody H.
  apply (D2_step_any cfg fx I Gu I_chan_close I_del I_delconn I_closing I_ensure I_cur I_add_confirm I_wake I_newconn I_restart I_tick
           I_push Gu_push Gu_addc I_exp Gu_exp I_qmeta I_autodel I_relay I_persist); auto.
  intros c h m Hg. apply Hm. apply (cguard_guard fx); auto.
Qed.

(* the same for a predicate that reads the connections and the message sizes only *)
Section Dispatch.
Variables (cfg : config) (fx : fixes).
Variable I : state -> Prop.
Hypothesis I_frame : forall s s', conns s' = conns s -> (forall x, msg_size s' x = msg_size s x) -> I s -> I s'.
Hypothesis I_chan_close : forall s c h, I s -> I (channel_close cfg s c h).
Hypothesis I_del : forall b s qn iu ie, I s -> I (fst (fst (vhost_delete_queue b s qn iu ie))).
Hypothesis I_delconn : forall s c, I s -> I (s <| conns := adel N.eqb c (conns s) |>).
Hypothesis I_closing : forall s c h, I s -> I (upd_chan s c h (fun ch => ch <| ch_status := ChClosing |>)).
Hypothesis I_ensure : forall s c h, I s -> I (ensure_chan s c h).
Hypothesis I_cur : forall s c h, I s -> I (upd_chan s c h (fun ch => ch <| ch_cur := None |>)).
Hypothesis I_add_confirm : forall s c h t, I s -> I (add_confirm s c h t).
Hypothesis I_wake : forall s c h tag, I s -> I (fst (wake_consumer s c h tag)).
Hypothesis I_newconn : forall s c st, get_conn s c = None -> I s ->
  I (s <| conns := aset N.eqb c {| cn_chans := [(0, channel0 <| ch_status := ChNew |>)]; cn_qos := qos0; cn_stage := st |} (conns s) |>).
Hypothesis I_restart : forall s, I (fst (restart cfg s)).
Hypothesis I_tick : forall s c h ch, get_chan s c h = Some ch -> I s ->
  I (set_chan s c h (ch <| ch_ticker := false |>)) /\ I (set_chan s c h (ch <| ch_confirmq := [] |>)).

Theorem D_step s l :
  (forall c h m, cguard fx (ensure_chan s c h) c h m -> I (ensure_chan s c h) -> I (fst (fst (handle_method cfg fx (ensure_chan s c h) c h m)))) ->
  (forall c h tag, I (fst (consumer_turn cfg fx s c h tag))) ->
  (forall c h ch u m len, get_chan (ensure_chan s c h) c h = Some ch -> ch_cur ch = Some u -> get_msg (ensure_chan s c h) u = Some m ->
     (m_hsize m <? m_size m + len) = false -> I (ensure_chan s c h) ->
     I (upd_msg (ensure_chan s c h) u (fun m => m <| m_body ::= fun b => b ++ [len] |> <| m_size ::= fun z => z + len |>))) ->
  I s -> I (fst (step cfg fx s l)).
Proof.
  intros Hm Hturn Hbody H.
  apply (D2_step_any cfg fx I (fun _ _ => True) I_chan_close I_del I_delconn I_closing I_ensure I_cur I_add_confirm I_wake I_newconn
           (fun s0 _ => I_restart s0) I_tick); auto.
  - intros s0 qn u _ H0. eapply I_frame; [apply (proj1 conns_queue_ops)|intros; apply msg_size_queue_push|exact H0].
  - intros s0 u z H0. eapply I_frame; [apply conns_upd_msg|intros; apply msg_size_upd_msg; reflexivity|exact H0].
  - intros s0 qn qu qu' _ _ H0. eapply I_frame; [apply conns_set_queue|reflexivity|exact H0].
  - intros s0 rest H0. eapply I_frame; [| |exact H0]; reflexivity.
  - intros s0 rest H0. eapply I_frame; [| |exact H0]; reflexivity.
  - intros s0 H0. cbn [step fst]. apply fold_left_preserves.
    + intros s1 k H1. eapply I_frame; [apply conns_store_confirm|intros; apply msg_size_store_confirm|exact H1].
    + eapply I_frame; [| |exact H0]; reflexivity.
  - intros c h ch u m mid size pers _ _ _ _ H0. split; auto.
    eapply I_frame; [apply conns_upd_msg|intros; apply msg_size_upd_msg; reflexivity|exact H0].
  - intros c h ch u m len Ech Ecur Em _ Elt H0. split; auto. eapply Hbody; eauto.
Qed.
End Dispatch.

(* ------------------------------------------------------------------ *)
(* Part 1: a closed channel, and channel 0, hold no consumer and no unsettled delivery (repaired broker) *)
Definition Empty (ch : channel) : Prop := ch_unacked ch = [] /\ ch_consumers ch = [].
Definition bi (c h : N) (ch : channel) : Prop := (ch_status ch = ChClosed \/ h = 0) -> Empty ch.
Notation BI := (allch bi).

Lemma bi_keep3 : forall c h ch ch',
  ch_unacked ch' = ch_unacked ch -> ch_status ch' = ch_status ch ->
  (ch_consumers ch = [] -> ch_consumers ch' = []) -> bi c h ch -> bi c h ch'.
Proof. unfold bi, Empty. intros c h ch ch' E1 E2 E3 H Hp. rewrite E2 in Hp. destruct (H Hp) as [A B]. rewrite E1. auto. Qed.
Lemma bi_keep : forall c h ch ch',
  ch_unacked ch' = ch_unacked ch -> ch_status ch' = ch_status ch -> ch_dtag ch <= ch_dtag ch' ->
  (ch_consumers ch = [] -> ch_consumers ch' = []) -> bi c h ch -> bi c h ch'.
Proof. intros c h ch ch' E1 E2 _ E3. apply bi_keep3; auto. Qed.
Lemma bi_del : forall c h ch tag, bi c h ch -> bi c h (del_unacked ch tag).
Proof. unfold bi, Empty, del_unacked. cbn. intros c h ch tag H Hp. destruct (H Hp) as [A B]. rewrite A. auto. Qed.

(* the same with channel (c0,h0) known to be in use: not closed, not channel 0 *)
Definition biu (c0 h0 : N) (c h : N) (ch : channel) : Prop :=
  bi c h ch /\ (c = c0 -> h = h0 -> ch_status ch <> ChClosed /\ h <> 0).
Lemma biu_keep3 c0 h0 : forall c h ch ch',
  ch_unacked ch' = ch_unacked ch -> ch_status ch' = ch_status ch ->
  (ch_consumers ch = [] -> ch_consumers ch' = []) -> biu c0 h0 c h ch -> biu c0 h0 c h ch'.
Proof. unfold biu. intros c h ch ch' E1 E2 E4 [A B]. split; [eapply bi_keep3; eauto|]. rewrite E2. exact B. Qed.

Lemma allch_weaken (P Q : N -> N -> channel -> Prop) s : (forall c h ch, P c h ch -> Q c h ch) -> allch P s -> allch Q s.
Proof. intros Hw H c h ch Hg. apply Hw. apply H; auto. Qed.

Lemma filter_all_false {A} (p : A -> bool) l : (forall x, In x l -> p x = false) -> filter p l = [].
Proof. induction l as [|a t IH]; intros H; cbn; auto. rewrite (H a (or_introl eq_refl)). apply IH. intros x Hx. apply H. right. exact Hx. Qed.

(* channel.close leaves the channel without consumers and (channel 0 aside) without unsettled deliveries *)
Definition close_mid (cfg : config) (s : state) (c h : N) (ch : channel) : state :=
  let s2 := upd_chan (fold_left (fun s cm => consumer_stop s c h (c_tag cm)) (ch_consumers ch) s) c h (fun ch => ch <| ch_consumers := [] |>) in
  if 0 <? h then fst (handle_reject cfg s2 c h 0 true true 60 120) else s2.

Lemma channel_close_eq cfg s c h ch : get_chan s c h = Some ch ->
  channel_close cfg s c h = upd_chan (close_mid cfg s c h ch) c h (fun ch => ch <| ch_status := ChClosed |> <| ch_cur := None |>).
Proof. intros Ech. unfold channel_close, close_mid. rewrite Ech. reflexivity. Qed.

Lemma channel_close_shape cfg s c h ch :
  CI s -> get_chan s c h = Some ch ->
    (forall (P : N -> N -> channel -> Prop),
       (forall c h ch ch', ch_unacked ch' = ch_unacked ch -> ch_status ch' = ch_status ch -> ch_dtag ch <= ch_dtag ch' ->
                           (ch_consumers ch = [] -> ch_consumers ch' = []) -> P c h ch -> P c h ch') ->
       (forall c h ch tag, P c h ch -> P c h (del_unacked ch tag)) ->
       (forall ch, P c h ch -> P c h (ch <| ch_consumers := [] |>)) ->
       allch P s -> allch P (close_mid cfg s c h ch)) /\
    (forall ch3, get_chan (close_mid cfg s c h ch) c h = Some ch3 -> ch_consumers ch3 = [] /\ (0 <? h = true -> ch_unacked ch3 = []) /\
                                                (0 <? h = false -> ch_unacked ch3 = ch_unacked ch)).
Proof.
  intros Hci Ech. unfold close_mid.
  set (s1 := fold_left (fun s cm => consumer_stop s c h (c_tag cm)) (ch_consumers ch) s).
  set (s2 := upd_chan s1 c h (fun ch => ch <| ch_consumers := [] |>)).
  split.
  - intros P Pk Pd Pe H.
    assert (H2 : allch P s2).
    { subst s2. apply allch_upd_chan; auto. subst s1. apply fold_left_preserves; auto. intros; apply G_consumer_stop; auto. }
    destruct (0 <? h); auto. apply G_handle_reject; auto.
  - assert (E2 : allch (emptyat c h) s2).
    { subst s2. intros c' h' ch' Hg E1 E2. subst. rewrite get_chan_upd_chan, !N.eqb_refl in Hg. cbn [andb] in Hg.
      destruct (get_chan s1 c h); cbn in Hg; inversion Hg; subst. reflexivity. }
    assert (U2 : U s2 c h = ch_unacked ch).
    { subst s2. rewrite U_upd_chan_keep by reflexivity. subst s1.
      assert (Hf : forall l st, U (fold_left (fun s cm => consumer_stop s c h (c_tag cm)) l st) c h = U st c h).
      { induction l as [|a t IH]; intros st; cbn [fold_left]; auto. rewrite IH.
        unfold consumer_stop. destruct (get_chan st c h) as [ch1|] eqn:E1; auto. destruct (find_consumer ch1 (c_tag a)) as [cm|]; auto.
        destruct (c_status cm); auto; (erewrite U_same_conns; [|apply (proj2 (proj2 (proj2 conns_queue_ops)))]);
          (rewrite U_set_chan by (eapply get_chan_conn; eauto)); rewrite !N.eqb_refl; cbn [andb]; unfold U; rewrite E1; reflexivity. }
      rewrite Hf. unfold U. rewrite Ech. reflexivity. }
    assert (C2 : CI s2).
    { subst s2. apply allch_upd_chan; [intros ch0 Hc0; eapply chinvp_set; [..|exact Hc0]; reflexivity|].
      subst s1. apply fold_left_preserves; auto. intros; apply CI_consumer_stop; auto. }
    clearbody s2. intros ch3 Hg3. destruct (0 <? h).
    + destruct (handle_reject cfg s2 c h 0 true true 60 120) as [s3 e3] eqn:Er. cbn [fst] in Hg3.
      assert (Hnd : NoDup (map u_tag (U s2 c h))).
      { unfold U. destruct (get_chan s2 c h) as [ch2|] eqn:E; [exact (proj1 (C2 _ _ _ E))|constructor]. }
      destruct (reject_multiple_exact cfg s2 c h 0 true 60 120 s3 e3 Er Hnd) as (_ & Hu & _).
      pose proof (G_handle_reject (emptyat c h) (emptyat_keep c h) (emptyat_del c h) cfg s2 c h 0 true true 60 120 E2) as E3.
      rewrite Er in E3. cbn [fst] in E3. split; [exact (E3 _ _ _ Hg3 eq_refl eq_refl)|]. split; [|discriminate].
      intros _. unfold U in Hu at 1. rewrite Hg3 in Hu. rewrite Hu. apply filter_all_false. intros x _. reflexivity.
    + split; [exact (E2 _ _ _ Hg3 eq_refl eq_refl)|]. split; [discriminate|]. intros _. unfold U in U2. rewrite Hg3 in U2. exact U2.
Qed.

Lemma N_ltb_0 h : (0 <? h) = false -> h = 0.
Proof. intros E. apply N.ltb_ge in E. lia. Qed.

Lemma BI_channel_close cfg s c h : CI s -> BI s -> BI (channel_close cfg s c h).
Proof.
  intros Hci H. destruct (get_chan s c h) as [ch|] eqn:Ech; [|unfold channel_close; rewrite Ech; exact H].
  rewrite (channel_close_eq cfg s c h ch Ech). destruct (channel_close_shape cfg s c h ch Hci Ech) as (HP & Hsh).
  set (s3 := close_mid cfg s c h ch) in *.
  assert (H3 : BI s3).
  { apply HP; [exact bi_keep|exact bi_del| |exact H]. intros ch0 Hb Hp. destruct (Hb Hp) as [A B]. split; auto. }
  intros c' h' ch' Hg. rewrite get_chan_upd_chan in Hg. destruct ((c' =? c) && (h' =? h)) eqn:Eb; [|apply H3; auto].
  apply andb_prop in Eb. destruct Eb as [E1 E2]. apply N.eqb_eq in E1, E2. subst.
  destruct (get_chan s3 c h) as [ch3|] eqn:E3; cbn in Hg; inversion Hg; subst.
  destruct (Hsh _ eq_refl) as (A & B & C). intros _. split; cbn; auto.
  destruct (0 <? h) eqn:E0; [auto|]. rewrite C by reflexivity. apply N_ltb_0 in E0. exact (proj1 (H _ _ _ Ech (or_intror E0))).
Qed.

Definition BI_wake := G_wake bi bi_keep.
Definition BI_consumer_stop := G_consumer_stop bi bi_keep.
Definition BI_wake_consumers := G_wake_consumers bi bi_keep.
Definition BI_handle_reject := G_handle_reject bi bi_keep bi_del.
Definition BI_handle_ack := G_handle_ack bi bi_keep bi_del.

Ltac bkeep K := apply allch_upd_chan; [intros ch0 Hch0; eapply K; [..|exact Hch0]; cbn;
                                 first [reflexivity | apply map_nil_of_nil | apply filter_nil_of_nil' | auto]|].
Ltac bsc K := repeat (first [ assumption
                         | match goal with |- allch _ (if ?b then _ else _) => destruct b end
                         | match goal with |- allch _ (match ?x with _ => _ end) => destruct x eqn:? end
                         | same_conns | bkeep K | eapply allch_set_conn_qos; [eassumption|] ]).
Ltac bset K Ech H := apply allch_set_chan; [eapply K; [..|exact (H _ _ _ Ech)]; cbn;
                                 first [reflexivity | apply map_nil_of_nil | apply filter_nil_of_nil' | auto]|].

Lemma BI_cancel_fold l : forall s evs, BI s ->
  BI (fst (fold_left (fun acc x => let '(s, evs) := acc in let '(s', e) := consumer_cancel s x in (s', evs ++ e)) l (s, evs))).
Proof. induction l as [|[[c h] tag] t IH]; intros s evs H; simpl; auto. apply IH. apply BI_consumer_stop; auto. Qed.

Lemma BI_vhost_delete_queue b s qn iu ie : BI s -> BI (fst (fst (vhost_delete_queue b s qn iu ie))).
Proof.
  intros H. unfold vhost_delete_queue. destruct (get_queue s qn) as [qu|] eqn:Eq; auto.
  destruct (_ || _).
  - cbn [fst]. destruct b; [eapply allch_same_conns; [apply conns_set_queue|exact H]|exact H].
  - pose proof (BI_cancel_fold (q_consumers qu) s [] H) as Hf.
    destruct (fold_left _ (q_consumers qu) (s, [])) as [s1 e1]. cbn [fst] in *.
    repeat (first [ assumption | match goal with |- allch _ (if ?b then _ else _) => destruct b end | same_conns ]).
Qed.

Lemma BI_add_confirm s c h t : BI s -> BI (add_confirm s c h t).
Proof.
  intros H. unfold add_confirm. destruct (get_chan s c h) as [ch|] eqn:E; auto. destruct (negb _); auto.
  destruct (ch_status ch) eqn:Es; auto; destruct t as [[[? ?] ?]|]; auto; bset bi_keep3 E H; auto.
Qed.

Section BIU.
Variables (c0 h0 : N).
Notation P := (biu c0 h0).
Lemma BU_store_windows cfg s c h tag ws : allch P s -> allch P (store_windows cfg s c h tag ws).
Proof.
  intros H. unfold store_windows. destruct ws as [|w1 [|w2 [|]]]; auto.
  destruct (cfg_rabbit cfg); [bsc (biu_keep3 c0 h0)|]. destruct (get_conn _ c) eqn:Ec; bsc (biu_keep3 c0 h0).
Qed.
End BIU.

Lemma biu_intro s c h ch : BI s -> get_chan s c h = Some ch -> (ch_status ch <> ChClosed /\ h <> 0) -> allch (biu c h) s.
Proof.
  intros H Ech Hn c' h' ch' Hg. split; [apply H; auto|]. intros -> ->. rewrite Ech in Hg. inversion Hg; subst. exact Hn.
Qed.

Lemma find_consumer_in ch tag cm : find_consumer ch tag = Some cm -> In cm (ch_consumers ch) /\ c_tag cm = tag.
Proof. unfold find_consumer. intros H. apply find_some in H. destruct H as [A B]. apply seqb_spec in B. auto. Qed.

(* appending a delivery to a channel in use *)
Lemma BU_append s c h x : allch (biu c h) s -> BI (upd_chan s c h (fun ch => ch <| ch_unacked ::= fun l => l ++ [x] |>)).
Proof.
  intros H c' h' ch' Hg. rewrite get_chan_upd_chan in Hg. destruct ((c' =? c) && (h' =? h)) eqn:Eb; [|exact (proj1 (H _ _ _ Hg))].
  apply andb_prop in Eb. destruct Eb as [E1 E2]. apply N.eqb_eq in E1, E2. subst.
  destruct (get_chan s c h) as [ch|] eqn:E; cbn in Hg; inversion Hg; subst.
  destruct (H _ _ _ E) as [_ B]. destruct (B eq_refl eq_refl) as [B1 B2]. intros [Hc|H0]; [cbn in Hc; contradiction|contradiction].
Qed.

Lemma BI_consumer_turn cfg fx s c h tag : BI s -> BI (fst (consumer_turn cfg fx s c h tag)).
Proof.
  intros H. unfold consumer_turn.
  destruct (get_chan s c h) as [ch|] eqn:Ech; auto.
  destruct (find_consumer ch tag) as [cm|] eqn:Efc; auto.
  destruct (negb (c_token cm)); auto.
  assert (Hu : ch_status ch <> ChClosed /\ h <> 0).
  { apply find_consumer_in in Efc. destruct Efc as [Hin _]. pose proof (H _ _ _ Ech) as Hb.
    split; intros X; destruct (Hb (ltac:(auto))) as [_ B]; rewrite B in Hin; destruct Hin. }
  pose proof (biu_intro s c h ch H Ech Hu) as HU.
  set (s0 := set_chan s c h _).
  assert (H0 : allch (biu c h) s0).
  { subst s0. apply allch_set_chan; auto. eapply biu_keep3; [..|exact (HU _ _ _ Ech)]; cbn; try reflexivity. apply map_nil_of_nil. }
  clearbody s0.
  assert (W : forall st, allch (biu c h) st -> BI st) by (intros st; apply allch_weaken; intros ? ? ? [A _]; exact A).
  destruct (c_status cm); auto.
  all: destruct (get_queue s0 (c_queue cm)) as [qu|]; auto.
  all: destruct (negb (q_active qu)); auto.
  all: destruct (q_ready qu) as [|u rest]; auto.
  all: match goal with |- context [if c_noack ?cm0 then (Some [], []) else ?r] => destruct (if c_noack cm0 then (Some [], []) else r) as [okr ws] end.
  all: set (s1 := if c_noack cm then s0 else store_windows cfg s0 c h tag ws).
  all: assert (H1 : allch (biu c h) s1) by (subst s1; destruct (c_noack cm); auto; apply BU_store_windows; auto).
  all: clearbody s1.
  all: destruct okr; cbn [fst]; auto.
  all: match goal with |- context [wake_consumer ?st ?c0 ?h0 ?tag0] => destruct (wake_consumer st c0 h0 tag0) as [s9 b9] eqn:Ew;
         apply fst_pair in Ew; cbn [fst]; subst s9; apply BI_wake end.
  all: same_conns.
  all: set (s3 := if c_noack cm then queue_ackmsg (upd_queue s1 (c_queue cm) _) (c_queue cm) u else upd_queue s1 (c_queue cm) _).
  all: assert (H3 : allch (biu c h) s3) by (subst s3; destruct (c_noack cm); repeat same_conns; auto).
  all: clearbody s3.
  all: destruct (c_noack cm).
  all: repeat (first [ assumption | same_conns | match goal with |- allch _ (if ?b then _ else _) => destruct b end ]).
  all: first [ apply W; bkeep (biu_keep3 c h); assumption | apply BU_append; bkeep (biu_keep3 c h); assumption ].
Qed.

Lemma bi_weak c h ch ch' : ch_status ch' <> ChClosed -> (Empty ch -> Empty ch') -> bi c h ch -> bi c h ch'.
Proof. intros Hn He Hb [Hc|H0]; [contradiction|]. apply He, Hb. right. exact H0. Qed.
Lemma bi_inuse c h ch : ch_status ch <> ChClosed -> h <> 0 -> bi c h ch.
Proof. intros A B [X|X]; contradiction. Qed.

Lemma guard_inuse s c h m ch :
  guard s c h m -> is_conn_class m = false -> match m with MChannelOpen => true | _ => false end = false ->
  get_chan s c h = Some ch -> ch_status ch <> ChClosed /\ h <> 0.
Proof.
  intros [G1 G2] E1 E2 Ech. rewrite E1 in G1, G2. rewrite E2 in G2. cbn [negb andb] in G2. rewrite andb_true_r in G2.
  apply Bool.negb_false_iff in G2. unfold chan_usable in G2. rewrite Ech in G2. split.
  - intros X. rewrite X in G2. discriminate.
  - intros X. subst h. cbn in G1. discriminate.
Qed.

Lemma allch_newconn (P : N -> N -> channel -> Prop) s c st :
  (forall h, P c h (channel0 <| ch_status := ChNew |>)) -> allch P s ->
  allch P (s <| conns := aset N.eqb c {| cn_chans := [(0, channel0 <| ch_status := ChNew |>)]; cn_qos := qos0; cn_stage := st |} (conns s) |>).
Proof.
  intros Hn H c' h' ch' Hg. unfold get_chan, get_conn in Hg. cbn in Hg. rewrite (alookup_aset N.eqb Neqb_spec) in Hg.
  destruct (c' =? c) eqn:E1.
  - cbn in Hg. destruct (h' =? 0); inversion Hg; subst. apply N.eqb_eq in E1. subst. apply Hn.
  - apply H. unfold get_chan, get_conn. exact Hg.
Qed.
Lemma allch_restart (P : N -> N -> channel -> Prop) cfg s : allch P (fst (restart cfg s)).
Proof. unfold restart. cbn [fst]. intros c h ch Hg. unfold get_chan, get_conn in Hg. cbn in Hg. discriminate. Qed.
Lemma allch_ensure (P : N -> N -> channel -> Prop) s c h : (forall c h, P c h channel0) -> allch P s -> allch P (ensure_chan s c h).
Proof. intros H0 H c' h' ch' Hg. apply get_chan_ensure in Hg. destruct Hg as [Hg|Hg]; [apply H; auto|subst; apply H0]. Qed.

Lemma Empty_channel0 : Empty channel0. Proof. split; reflexivity. Qed.

Theorem BI_handle_method cfg fx s c h m :
  fx_closeok_releases fx = true -> guard s c h m -> CI s -> BI s -> BI (fst (fst (handle_method cfg fx s c h m))).
Proof.
  intros Hcr Hgd Hci H. unfold handle_method.
  destruct (get_chan s c h) as [ch|] eqn:Hch; [|exact H].
  destruct m; unfold ok, refuse.
  - (* MChannelOpen *)
    destruct (ch_status ch) eqn:Es; cbn [fst]; auto.
    + apply allch_set_chan; auto. eapply bi_weak; [..|exact (H _ _ _ Hch)]; [cbn; discriminate|auto].
    + apply allch_set_chan; auto. eapply bi_weak; [..|exact (H _ _ _ Hch)]; [cbn; discriminate|auto].
    + apply allch_set_chan; auto. eapply bi_weak; [..|exact (H _ _ _ Hch)]; [cbn; discriminate|].
      destruct (fx_reopen_resets fx); auto. intros [A B]. split; auto.
  - cbn [fst]. apply BI_channel_close; auto.
  - cbn [fst]. rewrite Hcr. apply BI_channel_close; auto.
  - cbn [fst]. destruct (Bool.eqb _ _); auto. destruct a; (bset bi_keep3 Hch H; auto).
  - destruct (extype_of type); [|exact H].
    repeat match goal with |- context [if ?b then _ else _] => destruct b end; cbn [fst]; auto.
    all: repeat match goal with |- context [match ?x with _ => _ end] => destruct x end; cbn [fst]; auto.
    all: try (same_conns; auto).
  - destruct (fx_not_impl fx); exact H.
  - destruct (seqb name ""); [exact H|].
    destruct (queue_found s name) as [qu|].
    + repeat match goal with |- context [if ?b then _ else _] => destruct b end; cbn [fst]; auto.
    + destruct passive; [destruct nowait; exact H|]. cbn [fst]. repeat same_conns. auto.
  - destruct (alookup _ _ _); [|exact H]. destruct (seqb ex ""); [exact H|].
    destruct (queue_found s q); [|exact H]. destruct (locked _ _); [exact H|]. destruct (bad_xmatch _); [exact H|]. destruct (extype_eqb _ ExTopic && bad_pattern _)%bool; [exact H|]. cbn [fst]. same_conns. auto.
  - destruct (alookup _ _ _); [|exact H]. destruct (queue_found s q); [|exact H]. destruct (locked _ _); [exact H|]. destruct (bad_xmatch _); [exact H|]. destruct (extype_eqb _ ExTopic && bad_pattern _)%bool; [exact H|]. cbn [fst]. same_conns. auto.
  - destruct (queue_found s q) as [qu|]; [|exact H]. destruct (locked _ _); [exact H|]. cbn [fst].
    repeat (first [assumption | same_conns | match goal with |- allch _ (if ?b then _ else _) => destruct b end]).
  - destruct (queue_found s q); [|exact H]. destruct (locked _ _); [exact H|].
    pose proof (BI_vhost_delete_queue (negb (fx_delete_checks_first fx)) s q ifunused ifempty H) as Hd.
    destruct (vhost_delete_queue _ s q ifunused ifempty) as [[s1 e1] r1]. cbn [fst] in *. destruct r1; exact Hd.
  - (* MQos *)
    cbn [fst]. apply BI_wake_consumers. destruct (cfg_rabbit cfg); [destruct glob; (bset bi_keep3 Hch H; auto)|].
    destruct glob; [|bset bi_keep3 Hch H; auto]. destruct (get_conn s c) eqn:Ec; auto. eapply allch_set_conn_qos; eauto.
  - destruct imm; [exact H|]. destruct (alookup _ _ _); [|exact H].
    destruct (ch_confirm ch); cbn [fst]; (bset bi_keep3 Hch H; repeat same_conns; auto).
  - (* MConsume *)
    destruct (queue_found s q) as [qu|]; [|exact H].
    destruct (fx_excl_owner fx && locked qu c); [exact H|].
    destruct (find_consumer ch _); [exact H|].
    destruct (_ && _)%bool; cbn [fst].
    + same_conns. auto.
    + destruct (guard_inuse s c h _ ch Hgd eq_refl eq_refl Hch) as [G1 G2].
      apply allch_set_chan; [apply bi_inuse; auto|]. destruct (seqb tag ""%string); repeat same_conns; auto.
  - (* MCancel *)
    destruct (find_consumer ch tag); [|exact H]. cbn [fst].
    apply allch_upd_chan; [intros ch0 Hb Hp; destruct (Hb Hp) as [A B]; split; cbn; [rewrite A; reflexivity|exact B]|].
    bkeep bi_keep3. apply BI_consumer_stop. exact H.
  - (* MGet *)
    destruct (queue_found s q) as [qu|]; [|exact H].
    destruct (fx_excl_owner fx && locked qu c); [exact H|].
    destruct (q_ready qu) as [|u rest]; [exact H|].
    pose proof (biu_intro s c h ch H Hch (guard_inuse s c h _ ch Hgd eq_refl eq_refl Hch)) as HU.
    assert (W : forall st, allch (biu c h) st -> BI st) by (intros st; apply allch_weaken; intros ? ? ? [A _]; exact A).
    match goal with |- context [if noack then (Some [], []) else ?r] => destruct (if noack then (Some [], []) else r) as [okr ws] end.
    set (s1 := match ws with [w1; w2] => _ | _ => s end).
    assert (H1 : allch (biu c h) s1).
    { subst s1. destruct ws as [|w1 [|w2 [|]]]; auto.
      destruct (get_conn _ c) eqn:Ec.
      - eapply allch_set_conn_qos; eauto. bset (biu_keep3 c h) Hch HU. auto.
      - bset (biu_keep3 c h) Hch HU. auto. }
    clearbody s1.
    destruct okr; cbn [fst]; [|apply W; exact H1].
    same_conns.
    set (s3 := upd_queue s1 q _). assert (H3 : allch (biu c h) s3) by (subst s3; same_conns; auto). clearbody s3.
    destruct noack.
    all: repeat (first [ assumption | same_conns | match goal with |- allch _ (if ?b then _ else _) => destruct b end ]).
    all: first [ apply W; bkeep (biu_keep3 c h); assumption | apply BU_append; bkeep (biu_keep3 c h); assumption ].
  - pose proof (BI_handle_ack cfg s c h tag mult H) as Ha.
    destruct (handle_ack cfg s c h tag mult) as [s1 e1]. exact Ha.
  - pose proof (BI_handle_reject cfg s c h tag mult requeue 60 120 H) as Ha.
    destruct (handle_reject cfg s c h tag mult requeue 60 120) as [s1 e1]. exact Ha.
  - pose proof (BI_handle_reject cfg s c h tag false requeue 60 90 H) as Ha.
    destruct (handle_reject cfg s c h tag false requeue 60 90) as [s1 e1]. exact Ha.
  - exact H.
  - cbn [fst]. bset bi_keep3 Hch H. auto.
  - destruct (fx_not_impl fx); exact H.
  - exact H.
  - exact H.
  - destruct good; [cbn [fst]; apply allch_set_stage; exact H|exact H].
  - destruct within; [cbn [fst]; apply allch_set_stage; exact H|exact H].
  - destruct vhost_ok; [cbn [fst]; apply allch_set_stage; exact H|exact H].
Qed.

(* the pair (distinct tags, closed channels empty) through every label *)
Definition CB (s : state) : Prop := CI s /\ BI s.

Section CBStep.
Variables (cfg : config) (fx : fixes).
Hypothesis Hst : fx_stage fx = true.
Hypothesis Hco : fx_chan_open fx = true.
Hypothesis Hcr : fx_closeok_releases fx = true.

Lemma CB_conns : forall s s', conns s' = conns s -> CB s -> CB s'.
Proof. intros s s' E [A B]. split; eapply allch_same_conns; eauto. Qed.
Lemma CB_chan_close : forall s c h, CB s -> CB (channel_close cfg s c h).
Proof. intros s c h [A B]. split; [apply CI_channel_close|apply BI_channel_close]; auto. Qed.
Lemma CB_del : forall b s qn iu ie, CB s -> CB (fst (fst (vhost_delete_queue b s qn iu ie))).
Proof. intros b s qn iu ie [A B]. split; [apply CI_vhost_delete_queue|apply BI_vhost_delete_queue]; auto. Qed.
Lemma CB_delconn : forall s c, CB s -> CB (s <| conns := adel N.eqb c (conns s) |>).
Proof. intros s c [A B]. split; apply allch_del_conn; auto. Qed.
Lemma CB_closing : forall s c h, CB s -> CB (upd_chan s c h (fun ch => ch <| ch_status := ChClosing |>)).
Proof.
  intros s c h [A B]. split; apply allch_upd_chan; auto.
  intros ch0 Hb. eapply bi_weak; [..|exact Hb]; [cbn; discriminate|auto].
Qed.
Lemma CB_ensure : forall s c h, CB s -> CB (ensure_chan s c h).
Proof. intros s c h [A B]. split; [apply CI_ensure_chan; auto|]. apply allch_ensure; auto. intros c' h' _. exact Empty_channel0. Qed.
Lemma CB_cur : forall s c h, CB s -> CB (upd_chan s c h (fun ch => ch <| ch_cur := None |>)).
Proof. intros s c h [A B]. split; apply allch_upd_chan; auto. Qed.
Lemma CB_add_confirm : forall s c h t, CB s -> CB (add_confirm s c h t).
Proof. intros s c h t [A B]. split; [apply CI_add_confirm|apply BI_add_confirm]; auto. Qed.
Lemma CB_wake : forall s c h tag, CB s -> CB (fst (wake_consumer s c h tag)).
Proof. intros s c h tag [A B]. split; [apply CI_wake|apply BI_wake]; auto. Qed.
Lemma CB_newconn : forall s c st, get_conn s c = None -> CB s ->
  CB (s <| conns := aset N.eqb c {| cn_chans := [(0, channel0 <| ch_status := ChNew |>)]; cn_qos := qos0; cn_stage := st |} (conns s) |>).
Proof.
  intros s c st _ [A B]. split; apply allch_newconn; auto.
  - intros h. apply chinv_channel0.
  - intros h _. exact Empty_channel0.
Qed.
Lemma CB_restart : forall s, CB (fst (restart cfg s)).
Proof. intros s. split; apply allch_restart. Qed.
Lemma CB_tick : forall s c h ch, get_chan s c h = Some ch -> CB s ->
  CB (set_chan s c h (ch <| ch_ticker := false |>)) /\ CB (set_chan s c h (ch <| ch_confirmq := [] |>)).
Proof.
  intros s c h ch E [A B]. split; split; apply allch_set_chan; auto;
    first [ eapply chinvp_set; [..|exact (A _ _ _ E)]; reflexivity | exact (B _ _ _ E) ].
Qed.

Theorem CB_step s l : CB s -> CB (fst (step cfg fx s l)).
Proof.
  intros H. apply (D_step cfg fx CB (fun s0 s' E _ => CB_conns s0 s' E) CB_chan_close CB_del CB_delconn CB_closing CB_ensure CB_cur
                     CB_add_confirm CB_wake CB_newconn CB_restart CB_tick); auto.
  - intros c h m Hg [A B]. apply (cguard_guard _ _ _ _ _ Hst Hco) in Hg. split; [apply CI_handle_method; auto|apply BI_handle_method; auto].
  - intros c h tag. destruct H as [A B]. split; [apply CI_consumer_turn; auto|apply BI_consumer_turn; auto].
  - intros c h ch u m len _ _ _ _. apply CB_conns. apply conns_upd_msg.
Qed.

Theorem CB_run ls : forall s, CB s -> CB (fst (run cfg fx s ls)).
Proof.
  induction ls as [|l t IH]; intros s H; simpl; auto.
  pose proof (CB_step s l H) as H1.
  destruct (step cfg fx s l) as [s1 e1]. cbn [fst] in H1.
  specialize (IH s1 H1). destruct (run cfg fx s1 t) as [s2 e2]. exact IH.
Qed.
End CBStep.

Lemma CB_init cfg : CB (init cfg).
Proof. split; [apply CI_init|]. intros c h ch Hg. unfold get_chan, get_conn in Hg. cbn in Hg. discriminate. Qed.

(* ------------------------------------------------------------------ *)
(* Part 2: the consumer's own window (amqp-rabbit dialect) *)
Definition cview (ch : channel) : list (string * N) := map (fun cm => (c_tag cm, cc (c_own cm))) (ch_consumers ch).
(* the unsettled deliveries of a list that were made to the consumer tag t *)
Definition cnt (l : list unacked) (t : string) : N := N.of_nat (List.length (filter (fun u => seqb (u_ctag u) t) l)).
Definition k0 : string -> N := fun _ => 0.
Definition k1 (tag : string) : string -> N := fun t => if seqb tag t then 1 else 0.
Definition kadd (k k' : string -> N) : string -> N := fun t => k t + k' t.

(* consumer tags of a channel are distinct and not empty; an unsettled delivery that carries a tag names a consumer of
   the channel; each consumer's window counts its own unsettled deliveries (+ k: charged / removed, counterpart still
   to come); the template the channel copies for a new consumer counts nothing *)
Definition cinv (k : string -> N) (ch : channel) : Prop :=
  NoDup (map fst (cview ch)) /\ ~ In ""%string (map fst (cview ch)) /\
  (forall u, In u (ch_unacked ch) -> u_ctag u <> ""%string -> In (u_ctag u) (map fst (cview ch))) /\
  (forall t n, In (t, n) (cview ch) -> n = cnt (ch_unacked ch) t + k t) /\
  cc (ch_cqos ch) = 0.

Lemma cnt_nil t : cnt [] t = 0. Proof. reflexivity. Qed.
Lemma cnt_cons a l t : cnt (a :: l) t = k1 (u_ctag a) t + cnt l t.
Proof. unfold cnt, k1. cbn [filter]. destruct (seqb (u_ctag a) t); cbn [List.length]; lia. Qed.
Lemma cnt_app l1 l2 t : cnt (l1 ++ l2) t = cnt l1 t + cnt l2 t.
Proof. induction l1 as [|a l IH]; cbn [app]; [rewrite cnt_nil; lia|]. rewrite !cnt_cons, IH. lia. Qed.
Lemma cnt_le l t : cnt l t <= N.of_nat (List.length l).
Proof. induction l as [|a l IH]; [cbn; lia|]. rewrite cnt_cons. unfold k1. cbn [List.length]. destruct (seqb _ _); lia. Qed.
Lemma cnt_zero l t : (forall u, In u l -> u_ctag u <> t) -> cnt l t = 0.
Proof.
  induction l as [|a l IH]; intros H; [reflexivity|]. rewrite cnt_cons, IH by (intros u Hu; apply H; right; exact Hu).
  unfold k1. destruct (seqb (u_ctag a) t) eqn:E; [|reflexivity]. apply seqb_spec in E. exfalso. apply (H a); [left; reflexivity|exact E].
Qed.
Lemma filter_all_true {A} (p : A -> bool) l : (forall x, In x l -> p x = true) -> filter p l = l.
Proof. induction l as [|a t IH]; intros H; cbn; auto. rewrite (H a (or_introl eq_refl)). f_equal. apply IH. intros x Hx. apply H. right. exact Hx. Qed.
Lemma cnt_del l u t : NoDup (map u_tag l) -> In u l ->
  cnt (filter (fun x => negb (u_tag x =? u_tag u)) l) t + k1 (u_ctag u) t = cnt l t.
Proof.
  induction l as [|a r IH]; intros Hnd Hin; [destruct Hin|].
  cbn in Hnd. inversion Hnd as [|? ? Hni Hnd']; subst. cbn [filter]. destruct (u_tag a =? u_tag u) eqn:E; cbn [negb].
  - apply N.eqb_eq in E. assert (a = u).
    { destruct Hin as [->|Hin]; auto. exfalso. apply Hni. rewrite E. apply in_map. exact Hin. }
    subst a. rewrite filter_all_true, cnt_cons; [lia|].
    intros x Hx. apply Bool.negb_true_iff. apply N.eqb_neq. intros Ex. apply Hni. rewrite <- Ex. apply in_map. exact Hx.
  - rewrite !cnt_cons. destruct Hin as [->|Hin]; [rewrite N.eqb_refl in E; discriminate|]. rewrite <- (IH Hnd' Hin). lia.
Qed.
Lemma cnt_orphan tag l t : t <> tag -> t <> ""%string -> cnt (map (orphan tag) l) t = cnt l t.
Proof.
  intros H1 H2. induction l as [|a r IH]; [reflexivity|]. cbn [map]. rewrite !cnt_cons, IH. f_equal.
  unfold k1, orphan. destruct (seqb (u_ctag a) tag) eqn:E; cbn [u_ctag]; [|reflexivity].
  apply seqb_spec in E. rewrite E.
  destruct (seqb "" t) eqn:E1; [apply seqb_spec in E1; congruence|]. destruct (seqb tag t) eqn:E2; [apply seqb_spec in E2; congruence|]. reflexivity.
Qed.

Lemma fst_cview ch : map fst (cview ch) = map c_tag (ch_consumers ch).
Proof. unfold cview. rewrite map_map. reflexivity. Qed.
Lemma in_cview ch cm : In cm (ch_consumers ch) -> In (c_tag cm, cc (c_own cm)) (cview ch).
Proof. intros H. unfold cview. apply (in_map (fun cm => (c_tag cm, cc (c_own cm)))). exact H. Qed.

Lemma cinv_keep k ch ch' :
  ch_unacked ch' = ch_unacked ch -> cview ch' = cview ch -> cc (ch_cqos ch') = cc (ch_cqos ch) -> cinv k ch -> cinv k ch'.
Proof. unfold cinv. intros -> -> ->. auto. Qed.
Lemma cinv_ext k k' ch : (forall t, k t = k' t) -> cinv k ch -> cinv k' ch.
Proof. unfold cinv. intros E (A & B & C & D & F). repeat split; auto. intros t n Hin. rewrite <- E. auto. Qed.
Lemma cinv_channel0 k : cinv k channel0.
Proof. unfold cinv. cbn. repeat split; auto; try constructor; intros; contradiction. Qed.

Lemma consume_msg_view cm : c_tag (fst (consume_msg cm)) = c_tag cm /\ c_own (fst (consume_msg cm)) = c_own cm.
Proof. unfold consume_msg. destruct (c_status cm); [destruct (c_token cm)|..]; cbn; auto. Qed.

Lemma cview_map f l :
  (forall cm, In cm l -> c_tag (f cm) = c_tag cm /\ cc (c_own (f cm)) = cc (c_own cm)) ->
  map (fun cm => (c_tag cm, cc (c_own cm))) (map f l) = map (fun cm => (c_tag cm, cc (c_own cm))) l.
Proof. intros H. rewrite map_map. apply map_ext_in. intros cm Hin. destruct (H cm Hin) as [-> ->]. reflexivity. Qed.
Lemma cview_upd_consumer ch tag f :
  (forall cm, In cm (ch_consumers ch) -> seqb (c_tag cm) tag = true -> c_tag (f cm) = c_tag cm /\ cc (c_own (f cm)) = cc (c_own cm)) ->
  cview (upd_consumer ch tag f) = cview ch.
Proof.
  intros H. unfold cview, upd_consumer. cbn. apply cview_map. intros cm Hin. destruct (seqb (c_tag cm) tag) eqn:E; auto.
Qed.

Lemma NoDup_map_inj {A B} (f : A -> B) l x y : NoDup (map f l) -> In x l -> In y l -> f x = f y -> x = y.
Proof.
  induction l as [|a t IH]; intros Hnd Hx Hy E; [destruct Hx|]. cbn in Hnd. inversion Hnd as [|? ? Hni Hnd']; subst.
  destruct Hx as [->|Hx]; destruct Hy as [->|Hy]; auto.
  - exfalso. apply Hni. rewrite E. apply in_map. exact Hy.
  - exfalso. apply Hni. rewrite <- E. apply in_map. exact Hx.
Qed.

(* primitives that keep every channel's unsettled list, consumer tags and own-window counts *)
Section VGen.
Variable P : N -> N -> channel -> Prop.
Hypothesis P_vkeep : forall c h ch ch',
  ch_unacked ch' = ch_unacked ch -> cview ch' = cview ch -> cc (ch_cqos ch') = cc (ch_cqos ch) -> P c h ch -> P c h ch'.
Hypothesis P_nodup : forall c h ch, P c h ch -> NoDup (map fst (cview ch)).

Ltac vkeep := apply allch_upd_chan; [intros ch0 Hch0; eapply P_vkeep; [..|exact Hch0]; try reflexivity|].
Ltac vset Ech H := apply allch_set_chan; [eapply P_vkeep; [..|exact (H _ _ _ Ech)]; try reflexivity|].

Lemma V_wake s c h tag : allch P s -> allch P (fst (wake_consumer s c h tag)).
Proof.
  intros H. unfold wake_consumer. destruct (get_chan s c h) as [ch|] eqn:E; auto.
  destruct (find_consumer ch tag) as [cm|] eqn:Ef; auto. destruct (consume_msg cm) as [cm' b] eqn:Ec. cbn [fst].
  vset E H; auto. apply cview_upd_consumer. intros x Hx Ex.
  apply find_consumer_in in Ef. destruct Ef as [Hin Et]. apply seqb_spec in Ex.
  assert (x = cm).
  { apply (NoDup_map_inj c_tag (ch_consumers ch)); auto; [|congruence]. rewrite <- fst_cview. eapply P_nodup. exact (H _ _ _ E). }
  subst x. pose proof (consume_msg_view cm) as Hv. rewrite Ec in Hv. cbn [fst] in Hv. destruct Hv as [-> ->]. auto.
Qed.

Lemma V_consumer_stop s c h tag : allch P s -> allch P (consumer_stop s c h tag).
Proof.
  intros H. unfold consumer_stop. destruct (get_chan s c h) as [ch|] eqn:E; auto.
  destruct (find_consumer ch tag) as [cm|]; auto.
  destruct (c_status cm); auto; (eapply allch_same_conns; [apply (proj2 (proj2 (proj2 conns_queue_ops)))|]);
    (vset E H; auto; apply cview_upd_consumer; intros; cbn; auto).
Qed.

Lemma V_wake_all s c h : allch P s -> allch P (wake_all_of_chan s c h).
Proof.
  intros H. unfold wake_all_of_chan. vkeep; auto. unfold cview. cbn. apply cview_map. intros cm _.
  destruct (consume_msg_view cm) as [-> ->]. auto.
Qed.

Lemma V_wake_consumers cfg s c h : allch P s -> allch P (wake_consumers cfg s c h).
Proof.
  intros H. unfold wake_consumers. pose proof (V_wake_all s c h H) as H1.
  destruct (cfg_rabbit cfg); auto. destruct (get_conn _ c) as [cn|]; auto.
  apply fold_left_preserves; auto. intros s0 x H0. destruct (fst x =? h); auto. apply V_wake_all; auto.
Qed.

Lemma V_chan_ackmsg s u : allch P s -> allch P (chan_ackmsg s u).
Proof. intros H. unfold chan_ackmsg. destruct (origin_queue s u); repeat same_conns; auto. Qed.
Lemma V_chan_rejectmsg s u r : allch P s -> allch P (chan_rejectmsg s u r).
Proof. intros H. unfold chan_rejectmsg. destruct (origin_queue s u); [destruct r|]; repeat same_conns; auto. Qed.

Lemma V_cancel_fold l : forall s evs, allch P s ->
  allch P (fst (fold_left (fun acc x => let '(s, evs) := acc in let '(s', e) := consumer_cancel s x in (s', evs ++ e)) l (s, evs))).
Proof. induction l as [|[[c h] tag] t IH]; intros s evs H; simpl; auto. apply IH. apply V_consumer_stop; auto. Qed.

Lemma V_vhost_delete_queue b s qn iu ie : allch P s -> allch P (fst (fst (vhost_delete_queue b s qn iu ie))).
Proof.
  intros H. unfold vhost_delete_queue. destruct (get_queue s qn) as [qu|] eqn:Eq; auto.
  destruct (_ || _).
  - cbn [fst]. destruct b; [eapply allch_same_conns; [apply conns_set_queue|exact H]|exact H].
  - pose proof (V_cancel_fold (q_consumers qu) s [] H) as Hf.
    destruct (fold_left _ (q_consumers qu) (s, [])) as [s1 e1]. cbn [fst] in *.
    repeat (first [ assumption | match goal with |- allch _ (if ?b then _ else _) => destruct b end | same_conns ]).
Qed.

Lemma V_add_confirm s c h t : allch P s -> allch P (add_confirm s c h t).
Proof.
  intros H. unfold add_confirm. destruct (get_chan s c h) as [ch|] eqn:E; auto. destruct (negb _); auto.
  destruct (ch_status ch) eqn:Es; auto; destruct t as [[[? ?] ?]|]; auto; vset E H; auto.
Qed.

Lemma V_closing s c h : allch P s -> allch P (upd_chan s c h (fun ch => ch <| ch_status := ChClosing |>)).
Proof. intros H. vkeep; auto. Qed.
Lemma V_cur s c h : allch P s -> allch P (upd_chan s c h (fun ch => ch <| ch_cur := None |>)).
Proof. intros H. vkeep; auto. Qed.
Lemma V_tick s c h ch : get_chan s c h = Some ch -> allch P s ->
  allch P (set_chan s c h (ch <| ch_ticker := false |>)) /\ allch P (set_chan s c h (ch <| ch_confirmq := [] |>)).
Proof. intros E H. split; vset E H; auto. Qed.

Section VSettle.
Variables (c0 h0 : N).
Hypothesis P_del0 : forall ch tag, P c0 h0 ch -> P c0 h0 (del_unacked ch tag).
Hypothesis P_dec0 : forall ch t sz, P c0 h0 ch -> P c0 h0 (upd_consumer ch t (fun cm => cm <| c_own ::= fun w => qos_dec w sz |>)).

Lemma V_dec_qos cfg s u : allch P s -> allch P (dec_qos_and_consume_next cfg s c0 h0 u).
Proof.
  intros H. unfold dec_qos_and_consume_next. destruct (get_chan s c0 h0) as [ch|]; auto.
  apply V_wake_consumers.
  assert (H1 : allch P (upd_chan s c0 h0 (fun ch => ch <| ch_qos ::= fun w => qos_dec w (msg_size s (u_msg u) mod two32) |>))) by (vkeep; auto).
  destruct (find_consumer ch (u_ctag u)).
  - destruct (cfg_rabbit cfg).
    + apply allch_upd_chan; auto.
    + destruct (get_conn _ c0) eqn:Ec; auto. eapply allch_set_conn_qos; eauto.
  - destruct (get_conn _ c0) eqn:Ec; auto. eapply allch_set_conn_qos; eauto.
Qed.

Lemma V_handle_reject cfg s tag mult requeue cls mth : allch P s -> allch P (fst (handle_reject cfg s c0 h0 tag mult requeue cls mth)).
Proof.
  intros H. unfold handle_reject. destruct (get_chan s c0 h0) as [ch|]; auto.
  destruct mult.
  - cbn [fst]. apply fold_left_preserves; [intros; apply V_dec_qos; auto|].
    apply fold_left_preserves; auto. intros s0 a H0. apply V_chan_rejectmsg. apply allch_upd_chan; auto.
  - destruct (find _ _); cbn [fst]; auto. apply V_dec_qos. apply V_chan_rejectmsg. apply allch_upd_chan; auto.
Qed.
End VSettle.
End VGen.

(* ---- what each primitive does to one channel's consumer ledger ---- *)
Definition kd (tag : string) (d : N) : string -> N := fun t => if seqb tag t then d else 0.
Definition vmap (t0 : string) (g : N -> N) (v : list (string * N)) : list (string * N) :=
  map (fun p => if seqb (fst p) t0 then (fst p, g (snd p)) else p) v.
Lemma fst_vmap t0 g v : map fst (vmap t0 g v) = map fst v.
Proof. unfold vmap. rewrite map_map. apply map_ext. intros p. destruct (seqb (fst p) t0); reflexivity. Qed.
Lemma in_vmap t0 g v t n' : In (t, n') (vmap t0 g v) -> exists n, In (t, n) v /\ n' = if seqb t t0 then g n else n.
Proof.
  unfold vmap. intros H. apply in_map_iff in H. destruct H as ([t1 n1] & E & Hin). cbn [fst snd] in E.
  exists n1. destruct (seqb t1 t0) eqn:Eb; injection E as E1 E2; rewrite <- E1, <- E2, Eb; auto.
Qed.
Lemma cview_dec ch t0 sz :
  cview (upd_consumer ch t0 (fun cm => cm <| c_own ::= fun w => qos_dec w sz |>)) = vmap t0 (fun n => if n <? 1 then 0 else n - 1) (cview ch).
Proof.
  unfold cview, vmap, upd_consumer. cbn. rewrite !map_map. apply map_ext. intros cm. cbn. destruct (seqb (c_tag cm) t0); reflexivity.
Qed.
Lemma cview_setown ch t0 b :
  cview (upd_consumer ch t0 (fun cm => cm <| c_own := b |>)) = vmap t0 (fun _ => cc b) (cview ch).
Proof.
  unfold cview, vmap, upd_consumer. cbn. rewrite !map_map. apply map_ext. intros cm. cbn. destruct (seqb (c_tag cm) t0); reflexivity.
Qed.

Lemma cinv_on_view k k' ch : (forall t, In t (map fst (cview ch)) -> k t = k' t) -> cinv k ch -> cinv k' ch.
Proof.
  unfold cinv. intros E (A & B & C & D & F). repeat split; auto. intros t n Hin. rewrite <- E; auto.
  apply (in_map fst) in Hin. exact Hin.
Qed.

Lemma cinv_del k ch u :
  NoDup (map u_tag (ch_unacked ch)) -> In u (ch_unacked ch) -> cinv k ch -> cinv (kadd k (k1 (u_ctag u))) (del_unacked ch (u_tag u)).
Proof.
  intros Hnd Hin (A & B & C & D & F). unfold cinv, del_unacked, kadd. change (cview (ch <| ch_unacked := _ |>)) with (cview ch). cbn [ch_unacked ch_cqos set].
  repeat split; auto.
  - intros x Hx. apply filter_In in Hx. apply C. tauto.
  - intros t n Ht. rewrite (D t n Ht). rewrite <- (cnt_del (ch_unacked ch) u t Hnd Hin). cbn. lia.
Qed.

Lemma seqb_sym a b : seqb a b = seqb b a. Proof. apply String.eqb_sym. Qed.
Lemma seqb_refl a : seqb a a = true. Proof. apply String.eqb_refl. Qed.

Lemma cinv_dec_consumer k ch t0 sz :
  cinv (kadd k (k1 t0)) ch -> cinv k (upd_consumer ch t0 (fun cm => cm <| c_own ::= fun w => qos_dec w sz |>)).
Proof.
  intros (A & B & C & D & F). unfold cinv. rewrite cview_dec, fst_vmap. change (ch_unacked (upd_consumer _ _ _)) with (ch_unacked ch).
  change (ch_cqos (upd_consumer _ _ _)) with (ch_cqos ch). repeat split; auto.
  intros t n' Hin. apply in_vmap in Hin. destruct Hin as (n & Hin & ->). pose proof (D t n Hin) as Hn. unfold kadd, k1 in Hn.
  rewrite (seqb_sym t0 t) in Hn. destruct (seqb t t0); [|lia].
  destruct (n <? 1) eqn:E; [apply N.ltb_lt in E; lia|lia].
Qed.

Lemma cinv_setown ch tag b d :
  cinv k0 ch -> (forall n, In (tag, n) (cview ch) -> cc b = n + d) -> cinv (kd tag d) (upd_consumer ch tag (fun cm => cm <| c_own := b |>)).
Proof.
  intros (A & B & C & D & F) Hb. unfold cinv. rewrite cview_setown, fst_vmap. change (ch_unacked (upd_consumer _ _ _)) with (ch_unacked ch).
  change (ch_cqos (upd_consumer _ _ _)) with (ch_cqos ch). repeat split; auto.
  intros t n' Hin. apply in_vmap in Hin. destruct Hin as (n & Hin & ->). pose proof (D t n Hin) as Hn. unfold k0 in Hn. unfold kd.
  rewrite (seqb_sym tag t). destruct (seqb t tag) eqn:E; [|lia]. apply seqb_spec in E. subst t. rewrite (Hb n Hin). lia.
Qed.

Lemma cinv_append k ch x :
  cinv (kadd k (k1 (u_ctag x))) ch -> (u_ctag x = ""%string \/ In (u_ctag x) (map fst (cview ch))) ->
  cinv k (ch <| ch_unacked ::= fun l => l ++ [x] |>).
Proof.
  intros (A & B & C & D & F) Hx. unfold cinv. change (cview (ch <| ch_unacked ::= _ |>)) with (cview ch). cbn [ch_unacked ch_cqos set].
  repeat split; auto.
  - intros u Hu Hne. apply in_app_or in Hu. destruct Hu as [Hu|[<-|[]]]; [apply C; auto|]. destruct Hx as [Hx|Hx]; [contradiction|exact Hx].
  - intros t n Ht. rewrite (D t n Ht). rewrite cnt_app, cnt_cons, cnt_nil. unfold kadd. lia.
Qed.

Lemma cinv_append_get ch x : u_ctag x = ""%string -> cinv k0 ch -> cinv k0 (ch <| ch_unacked ::= fun l => l ++ [x] |>).
Proof.
  intros Ex H. apply cinv_append; [|left; exact Ex]. eapply cinv_on_view; [|exact H].
  intros t Ht. unfold kadd, k0, k1. rewrite Ex. destruct (seqb "" t) eqn:E; [|reflexivity].
  apply seqb_spec in E. subst t. destruct H as (_ & B & _). contradiction.
Qed.

Lemma cinv_consume ch cm :
  cinv k0 ch -> ~ In (c_tag cm) (map c_tag (ch_consumers ch)) -> c_tag cm <> ""%string -> cc (c_own cm) = 0 ->
  cinv k0 (ch <| ch_consumers ::= fun l => l ++ [cm] |>).
Proof.
  intros (A & B & C & D & F) Hni Hne Hz. unfold cinv.
  assert (Ev : cview (ch <| ch_consumers ::= fun l => l ++ [cm] |>) = cview ch ++ [(c_tag cm, cc (c_own cm))]).
  { unfold cview. cbn. rewrite map_app. reflexivity. }
  rewrite Ev, map_app. cbn [map fst ch_unacked ch_cqos set]. rewrite fst_cview in *. repeat split; auto.
  - apply NoDup_snoc; auto.
  - intros X. apply in_app_or in X. destruct X as [X|[X|[]]]; [contradiction|]. apply Hne. exact X.
  - intros u Hu Hn. apply in_or_app. left. apply C; auto.
  - intros t n Ht. apply in_app_or in Ht. destruct Ht as [Ht|[Ht|[]]]; [apply D; auto|]. inversion Ht; subst. unfold k0.
    rewrite cnt_zero; [lia|]. intros u Hu Eu. apply Hni. rewrite <- Eu. apply C; auto. rewrite Eu. exact Hne.
Qed.

Lemma cview_filter ch tag :
  cview (ch <| ch_consumers ::= filter (fun cm => negb (seqb (c_tag cm) tag)) |>) = filter (fun p => negb (seqb (fst p) tag)) (cview ch).
Proof.
  unfold cview. cbn. induction (ch_consumers ch) as [|a l IH]; [reflexivity|]. cbn [filter map fst].
  destruct (seqb (c_tag a) tag); cbn [negb map]; [exact IH|]. f_equal. exact IH.
Qed.

Lemma cinv_cancel ch tag :
  cinv k0 ch -> cinv k0 (ch <| ch_consumers ::= filter (fun cm => negb (seqb (c_tag cm) tag)) |> <| ch_unacked ::= map (orphan tag) |>).
Proof.
  intros (A & B & C & D & F). unfold cinv.
  change (cview (ch <| ch_consumers ::= filter (fun cm => negb (seqb (c_tag cm) tag)) |> <| ch_unacked ::= map (orphan tag) |>))
    with (cview (ch <| ch_consumers ::= filter (fun cm => negb (seqb (c_tag cm) tag)) |>)).
  rewrite cview_filter. cbn [ch_unacked ch_cqos set]. repeat split; auto.
  - apply NoDup_map_filter. exact A.
  - intros X. apply in_map_iff in X. destruct X as (p & E & Hp). apply filter_In in Hp. apply B. rewrite <- E. apply in_map. tauto.
  - intros u' Hu Hne. apply in_map_iff in Hu. destruct Hu as (u & <- & Hu). unfold orphan in *.
    destruct (seqb (u_ctag u) tag) eqn:E; [cbn in Hne; contradiction|].
    pose proof (C u Hu Hne) as Hin. apply in_map_iff in Hin. destruct Hin as (p & Ep & Hp). apply in_map_iff. exists p. split; auto.
    apply filter_In. split; auto. rewrite Ep, E. reflexivity.
  - intros t n Ht. apply filter_In in Ht. destruct Ht as [Ht Hb]. cbn [fst] in Hb. rewrite (D t n Ht). f_equal.
    symmetry. apply cnt_orphan.
    + intros ->. rewrite seqb_refl in Hb. discriminate.
    + intros ->. apply B. apply (in_map fst) in Ht. exact Ht.
Qed.

Lemma cinv_empty k ch : ch_consumers ch = [] -> ch_unacked ch = [] -> cc (ch_cqos ch) = 0 -> cinv k ch.
Proof. intros E1 E2 E3. unfold cinv, cview. rewrite E1, E2. cbn. repeat split; auto; try constructor; intros; contradiction. Qed.

(* ---- the offset trick, per consumer tag ---- *)
Definition CLoff (c0 h0 : N) (k : string -> N) (c h : N) (ch : channel) : Prop :=
  cinv (if (c =? c0) && (h =? h0) then k else k0) ch.
Definition CLP (c h : N) (ch : channel) : Prop := cinv k0 ch.
Notation CL := (allch CLP).

Lemma CLoff_zero c0 h0 s : allch (CLoff c0 h0 k0) s <-> CL s.
Proof.
  unfold allch, CLoff, CLP. split; intros H c h ch Hg; specialize (H c h ch Hg); destruct ((c =? c0) && (h =? h0)); auto.
Qed.
Lemma CLoff_vkeep c0 h0 k : forall c h ch ch',
  ch_unacked ch' = ch_unacked ch -> cview ch' = cview ch -> cc (ch_cqos ch') = cc (ch_cqos ch) -> CLoff c0 h0 k c h ch -> CLoff c0 h0 k c h ch'.
Proof. unfold CLoff. intros. eapply cinv_keep; eauto. Qed.
Lemma CLoff_nodup c0 h0 k : forall c h ch, CLoff c0 h0 k c h ch -> NoDup (map fst (cview ch)).
Proof. unfold CLoff. intros c h ch H. exact (proj1 H). Qed.
Lemma CLP_vkeep : forall c h ch ch',
  ch_unacked ch' = ch_unacked ch -> cview ch' = cview ch -> cc (ch_cqos ch') = cc (ch_cqos ch) -> CLP c h ch -> CLP c h ch'.
Proof. unfold CLP. intros. eapply cinv_keep; eauto. Qed.
Lemma CLP_nodup : forall c h ch, CLP c h ch -> NoDup (map fst (cview ch)).
Proof. unfold CLP. intros c h ch H. exact (proj1 H). Qed.

Lemma at_other c0 h0 c h : (c =? c0) && (h =? h0) = true -> c = c0 /\ h = h0.
Proof. intros Eb. apply andb_prop in Eb. destruct Eb as [E1 E2]. apply N.eqb_eq in E1, E2. auto. Qed.

Lemma CLoff_ext c0 h0 k k' s : (forall t, k t = k' t) -> allch (CLoff c0 h0 k) s -> allch (CLoff c0 h0 k') s.
Proof.
  intros E H c h ch Hg. pose proof (H _ _ _ Hg) as H1. unfold CLoff in *. destruct ((c =? c0) && (h =? h0)); auto.
  eapply cinv_ext; eauto.
Qed.
Lemma CLoff_none c0 h0 k k' s : get_chan s c0 h0 = None -> allch (CLoff c0 h0 k) s -> allch (CLoff c0 h0 k') s.
Proof.
  intros En H c h ch Hg. pose proof (H _ _ _ Hg) as H1. unfold CLoff in *. destruct ((c =? c0) && (h =? h0)) eqn:Eb; auto.
  apply at_other in Eb. destruct Eb; subst. congruence.
Qed.
Lemma CLoff_shift_at s c0 h0 ka kb f ch :
  get_chan s c0 h0 = Some ch -> cinv kb (f ch) -> allch (CLoff c0 h0 ka) s -> allch (CLoff c0 h0 kb) (upd_chan s c0 h0 f).
Proof.
  intros Ech Hf H c h ch' Hg. rewrite get_chan_upd_chan in Hg. unfold CLoff. destruct ((c =? c0) && (h =? h0)) eqn:Eb.
  - rewrite Ech in Hg. cbn in Hg. inversion Hg; subst. exact Hf.
  - pose proof (H _ _ _ Hg) as H1. unfold CLoff in H1. rewrite Eb in H1. exact H1.
Qed.
Lemma CLoff_shift s c0 h0 ka kb f :
  (forall ch, cinv ka ch -> cinv kb (f ch)) -> allch (CLoff c0 h0 ka) s -> allch (CLoff c0 h0 kb) (upd_chan s c0 h0 f).
Proof.
  intros Hf H. destruct (get_chan s c0 h0) as [ch|] eqn:Ech.
  - eapply CLoff_shift_at; eauto. apply Hf. pose proof (H _ _ _ Ech) as H1. unfold CLoff in H1. rewrite !N.eqb_refl in H1. exact H1.
  - unfold upd_chan. rewrite Ech. eapply CLoff_none; eauto.
Qed.

Section CKeep.
Variables (c0 h0 : N) (k : string -> N).
Definition C_wake := V_wake (CLoff c0 h0 k) (CLoff_vkeep c0 h0 k) (CLoff_nodup c0 h0 k).
Definition C_wake_consumers := V_wake_consumers (CLoff c0 h0 k) (CLoff_vkeep c0 h0 k).
Definition C_chan_ackmsg := V_chan_ackmsg (CLoff c0 h0 k).
Definition C_chan_rejectmsg := V_chan_rejectmsg (CLoff c0 h0 k).
End CKeep.

(* removing the entry of one delivery puts its consumer one ahead *)
Lemma C_del s c0 h0 k u ch :
  get_chan s c0 h0 = Some ch -> NoDup (map u_tag (ch_unacked ch)) -> In u (ch_unacked ch) ->
  allch (CLoff c0 h0 k) s -> allch (CLoff c0 h0 (kadd k (k1 (u_ctag u)))) (upd_chan s c0 h0 (fun ch => del_unacked ch (u_tag u))).
Proof.
  intros Ech Hnd Hin H. eapply CLoff_shift_at; eauto. apply cinv_del; auto.
  pose proof (H _ _ _ Ech) as H1. unfold CLoff in H1. rewrite !N.eqb_refl in H1. exact H1.
Qed.

Lemma find_consumer_none ch tag : find_consumer ch tag = None -> ~ In tag (map fst (cview ch)).
Proof.
  unfold find_consumer. intros Hf Hin. rewrite fst_cview in Hin. apply in_map_iff in Hin. destruct Hin as (cm & E & Hin).
  pose proof (find_none _ _ Hf cm Hin) as Hn. cbn in Hn. rewrite E, seqb_refl in Hn. discriminate.
Qed.

(* releasing the windows takes it one back *)
Lemma C_dec cfg s c0 h0 k u :
  cfg_rabbit cfg = true ->
  allch (CLoff c0 h0 (kadd k (k1 (u_ctag u)))) s -> allch (CLoff c0 h0 k) (dec_qos_and_consume_next cfg s c0 h0 u).
Proof.
  intros Hrab H. unfold dec_qos_and_consume_next. destruct (get_chan s c0 h0) as [ch|] eqn:Ech; [|eapply CLoff_none; eauto].
  apply C_wake_consumers. rewrite Hrab.
  set (f := fun ch : channel => ch <| ch_qos ::= fun w => qos_dec w (msg_size s (u_msg u) mod two32) |>).
  assert (H1 : allch (CLoff c0 h0 (kadd k (k1 (u_ctag u)))) (upd_chan s c0 h0 f)).
  { apply allch_upd_chan; [|exact H]. intros ch1 Hc1. eapply CLoff_vkeep; [..|exact Hc1]; reflexivity. }
  destruct (find_consumer ch (u_ctag u)) eqn:Ef.
  - apply (CLoff_shift _ c0 h0 (kadd k (k1 (u_ctag u))) k); [|exact H1]. intros ch1. apply cinv_dec_consumer.
  - assert (H2 : allch (CLoff c0 h0 k) (upd_chan s c0 h0 f)).
    { eapply CLoff_shift_at; eauto. pose proof (H _ _ _ Ech) as H0. unfold CLoff in H0. rewrite !N.eqb_refl in H0. cbn [andb] in H0.
      eapply cinv_keep; [..|eapply cinv_on_view; [|exact H0]]; try reflexivity.
      intros t Ht. unfold kadd, k1. destruct (seqb (u_ctag u) t) eqn:E; [|lia]. apply seqb_spec in E. subst t.
      exfalso. exact (find_consumer_none _ _ Ef Ht). }
    destruct (get_conn _ c0) eqn:Ec; auto. eapply allch_set_conn_qos; eauto.
Qed.

Section CSettle.
Variables (c0 h0 : N).
Variable g : state -> unacked -> state.
Hypothesis g_eq : forall s u, exists s1, s1 = upd_chan s c0 h0 (fun ch => del_unacked ch (u_tag u)) /\
  (forall k, allch (CLoff c0 h0 k) s1 -> allch (CLoff c0 h0 k) (g s u)) /\ U (g s u) c0 h0 = U s1 c0 h0.

Lemma C_fold_del sel : forall s k,
  NoDup (map u_tag sel) -> (forall u, In u sel -> In u (U s c0 h0)) -> NoDup (map u_tag (U s c0 h0)) ->
  allch (CLoff c0 h0 k) s -> allch (CLoff c0 h0 (kadd k (cnt sel))) (fold_left g sel s).
Proof.
  induction sel as [|a t IH]; intros s k Hnd Hin Hu H; cbn [fold_left].
  - eapply CLoff_ext; [|exact H]. intros x. unfold kadd. rewrite cnt_nil. lia.
  - cbn in Hnd. inversion Hnd as [|? ? Hni Hnd']; subst.
    destruct (g_eq s a) as (s1 & Es1 & Hk & HU).
    assert (Ha : In a (U s c0 h0)) by (apply Hin; left; reflexivity).
    destruct (get_chan s c0 h0) as [ch|] eqn:Ech; [|unfold U in Ha; rewrite Ech in Ha; destruct Ha].
    rewrite (U_some _ _ _ _ Ech) in *.
    assert (H1 : allch (CLoff c0 h0 (kadd k (k1 (u_ctag a)))) (g s a)).
    { apply Hk. subst s1. eapply C_del; eauto. }
    assert (HU1 : U (g s a) c0 h0 = filter (fun u => negb (u_tag u =? u_tag a)) (ch_unacked ch)).
    { rewrite HU. subst s1. rewrite del_unacked_U. rewrite (U_some _ _ _ _ Ech). reflexivity. }
    eapply CLoff_ext; [|apply (IH (g s a) (kadd k (k1 (u_ctag a)))); auto].
    + intros x. unfold kadd. rewrite cnt_cons. lia.
    + intros u Hu'. rewrite HU1. apply filter_In. split; [apply Hin; right; exact Hu'|].
      apply Bool.negb_true_iff. apply N.eqb_neq. intros E. apply Hni. rewrite <- E. apply in_map. exact Hu'.
    + rewrite HU1. apply NoDup_map_filter. exact Hu.
Qed.
End CSettle.

Lemma C_fold_dec cfg c0 h0 sel : cfg_rabbit cfg = true -> forall s k,
  allch (CLoff c0 h0 (kadd k (cnt sel))) s ->
  allch (CLoff c0 h0 k) (fold_left (fun s u => dec_qos_and_consume_next cfg s c0 h0 u) sel s).
Proof.
  intros Hrab. induction sel as [|a t IH]; intros s k H; cbn [fold_left].
  - eapply CLoff_ext; [|exact H]. intros x. unfold kadd. rewrite cnt_nil. lia.
  - apply IH. apply C_dec; auto. eapply CLoff_ext; [|exact H]. intros x. unfold kadd. rewrite cnt_cons. lia.
Qed.

Theorem CL_handle_ack cfg s c h tag mult :
  cfg_rabbit cfg = true -> CI s -> CL s -> CL (fst (handle_ack cfg s c h tag mult)).
Proof.
  intros Hrab Hci H. unfold handle_ack. destruct (get_chan s c h) as [ch|] eqn:Ech; auto.
  pose proof (Hci _ _ _ Ech) as [Hnd _].
  destruct mult.
  - cbn [fst]. apply (CLoff_zero c h). apply (C_fold_dec cfg c h _ Hrab _ k0).
    apply (C_fold_del c h (fun s u => chan_ackmsg (upd_chan s c h (fun ch => del_unacked ch (u_tag u))) u)).
    + intros s0 u. eexists. split; [reflexivity|]. split; [intros k; apply C_chan_ackmsg|apply U_chan_ackmsg].
    + apply NoDup_map_filter. exact Hnd.
    + intros u Hu. rewrite (U_some _ _ _ _ Ech). apply filter_In in Hu. tauto.
    + rewrite (U_some _ _ _ _ Ech). exact Hnd.
    + apply CLoff_zero. exact H.
  - destruct (find _ (ch_unacked ch)) as [u|] eqn:Ef; cbn [fst]; auto.
    apply find_some in Ef. destruct Ef as [Hin Et]. apply N.eqb_eq in Et. subst tag.
    apply (CLoff_zero c h). apply C_dec; auto. apply C_chan_ackmsg.
    eapply C_del; eauto. apply CLoff_zero. exact H.
Qed.

Theorem CL_handle_reject cfg s c h tag mult requeue cls mth :
  cfg_rabbit cfg = true -> CI s -> CL s -> CL (fst (handle_reject cfg s c h tag mult requeue cls mth)).
Proof.
  intros Hrab Hci H. unfold handle_reject. destruct (get_chan s c h) as [ch|] eqn:Ech; auto.
  pose proof (Hci _ _ _ Ech) as [Hnd _].
  destruct mult.
  - cbn [fst]. apply (CLoff_zero c h). apply (C_fold_dec cfg c h _ Hrab _ k0).
    apply (C_fold_del c h (fun s u => chan_rejectmsg (upd_chan s c h (fun ch => del_unacked ch (u_tag u))) u requeue)).
    + intros s0 u. eexists. split; [reflexivity|]. split; [intros k; apply C_chan_rejectmsg|apply U_chan_rejectmsg].
    + apply NoDup_map_filter. apply NoDup_sort_desc. exact Hnd.
    + intros u Hu. rewrite (U_some _ _ _ _ Ech). apply filter_In in Hu. apply sort_desc_perm. tauto.
    + rewrite (U_some _ _ _ _ Ech). exact Hnd.
    + apply CLoff_zero. exact H.
  - destruct (find _ (ch_unacked ch)) as [u|] eqn:Ef; cbn [fst]; auto.
    apply find_some in Ef. destruct Ef as [Hin Et]. apply N.eqb_eq in Et. subst tag.
    apply (CLoff_zero c h). apply C_dec; auto. apply C_chan_rejectmsg.
    eapply C_del; eauto. apply CLoff_zero. exact H.
Qed.

(* ---- deliveries: the consumer's own window is charged, then the entry is appended ---- *)
Definition CLoffT (c0 h0 : N) (k : string -> N) (tag : string) (c h : N) (ch : channel) : Prop :=
  CLoff c0 h0 k c h ch /\ (c = c0 -> h = h0 -> In tag (map fst (cview ch))).
Lemma CLoffT_vkeep c0 h0 k tag : forall c h ch ch',
  ch_unacked ch' = ch_unacked ch -> cview ch' = cview ch -> cc (ch_cqos ch') = cc (ch_cqos ch) -> CLoffT c0 h0 k tag c h ch -> CLoffT c0 h0 k tag c h ch'.
Proof. unfold CLoffT. intros c h ch ch' E1 E2 E3 [A B]. split; [eapply CLoff_vkeep; eauto|]. rewrite E2. exact B. Qed.
Lemma CLoffT_to_CL c0 h0 k tag s : (forall t, k t = 0) -> allch (CLoffT c0 h0 k tag) s -> CL s.
Proof.
  intros Hk H c h ch Hg. destruct (H _ _ _ Hg) as [A _]. unfold CLoff in A. unfold CLP. destruct ((c =? c0) && (h =? h0)); auto.
  eapply cinv_ext; [|exact A]. intros t. rewrite Hk. reflexivity.
Qed.

(* the second window of a two-window reservation: charged once on success, untouched on refusal (with or without
   the roll-back of the first) *)
Lemma reserve2_second rb w1 w2 size r ws' :
  reserve rb [w1; w2] size = (r, ws') ->
  exists a b, ws' = [a; b] /\ match r with Some _ => cc b = (cc w2 + 1) mod two16 | None => b = w2 end.
Proof.
  intros H. cbn [reserve] in H. destruct (qos_inc w1 size) as [w1'|]; [|inversion H; subst; eauto].
  destruct (qos_inc w2 size) as [w2'|] eqn:E2; inversion H; subst; eexists _, _; (split; [reflexivity|]); auto.
  unfold qos_inc in E2. destruct (_ && _)%bool; inversion E2; subst. reflexivity.
Qed.

Lemma C_store_windows cfg s c h tag a b d ch :
  cfg_rabbit cfg = true -> get_chan s c h = Some ch -> In tag (map fst (cview ch)) ->
  (forall n, In (tag, n) (cview ch) -> cc b = n + d) -> CL s ->
  allch (CLoffT c h (kd tag d) tag) (store_windows cfg s c h tag [a; b]).
Proof.
  intros Hrab Ech Hin Hb H. unfold store_windows. rewrite Hrab.
  intros c' h' ch' Hg. rewrite !get_chan_upd_chan in Hg. destruct ((c' =? c) && (h' =? h)) eqn:Eb.
  - apply at_other in Eb. destruct Eb; subst. rewrite !N.eqb_refl, Ech in Hg. cbn in Hg. inversion Hg; subst. split.
    + unfold CLoff. rewrite !N.eqb_refl. cbn [andb]. apply cinv_setown; [|exact Hb].
      eapply cinv_keep; [..|exact (H _ _ _ Ech)]; reflexivity.
    + intros _ _. rewrite cview_setown, fst_vmap. exact Hin.
  - split; [unfold CLoff; rewrite Eb; exact (H _ _ _ Hg)|]. intros -> ->. rewrite !N.eqb_refl in Eb. discriminate.
Qed.

Lemma C_append s c h x : allch (CLoffT c h (k1 (u_ctag x)) (u_ctag x)) s -> CL (upd_chan s c h (fun ch => ch <| ch_unacked ::= fun l => l ++ [x] |>)).
Proof.
  intros H c' h' ch' Hg. rewrite get_chan_upd_chan in Hg. destruct ((c' =? c) && (h' =? h)) eqn:Eb.
  - apply at_other in Eb. destruct Eb; subst. destruct (get_chan s c h) as [ch|] eqn:E; cbn in Hg; inversion Hg; subst.
    destruct (H _ _ _ E) as [A B]. unfold CLoff in A. rewrite !N.eqb_refl in A. cbn [andb] in A. unfold CLP.
    apply cinv_append; [|right; apply B; auto]. eapply cinv_ext; [|exact A]. intros t. unfold kadd, k0. lia.
  - destruct (H _ _ _ Hg) as [A _]. unfold CLoff in A. rewrite Eb in A. exact A.
Qed.

Definition CL_wake := V_wake CLP CLP_vkeep CLP_nodup.
Definition CL_consumer_stop := V_consumer_stop CLP CLP_vkeep.
Definition CL_wake_consumers := V_wake_consumers CLP CLP_vkeep.

Theorem CL_consumer_turn cfg fx s c h tag :
  cfg_rabbit cfg = true -> Small s -> CL s -> CL (fst (consumer_turn cfg fx s c h tag)).
Proof.
  intros Hrab Hsm H. unfold consumer_turn.
  destruct (get_chan s c h) as [ch|] eqn:Ech; auto.
  destruct (find_consumer ch tag) as [cm|] eqn:Efc; auto.
  destruct (negb (c_token cm)); auto.
  set (s0 := set_chan s c h _).
  assert (Ev : cview (upd_consumer ch tag (fun cm => cm <| c_token := false |>)) = cview ch)
    by (apply cview_upd_consumer; intros; cbn; auto).
  assert (H0 : CL s0).
  { subst s0. apply allch_set_chan; auto. eapply CLP_vkeep; [..|exact (H _ _ _ Ech)]; try reflexivity. exact Ev. }
  assert (Ech0 : exists ch0, get_chan s0 c h = Some ch0 /\ cview ch0 = cview ch /\ ch_unacked ch0 = ch_unacked ch).
  { subst s0. rewrite get_chan_set_chan. pose proof (get_chan_conn _ _ _ _ Ech) as Hc. destruct (get_conn s c); [|congruence].
    rewrite !N.eqb_refl. cbn [andb]. eexists. split; [reflexivity|]. split; [exact Ev|reflexivity]. }
  destruct Ech0 as (ch0 & Ech0 & Ev0 & Eu0).
  assert (Ecn0 : exists cn0, get_conn s0 c = Some cn0).
  { pose proof (get_chan_conn _ _ _ _ Ech0) as Hc. destruct (get_conn s0 c); [eauto|congruence]. }
  destruct Ecn0 as (cn0 & Ecn0).
  clearbody s0. clear Ev.
  apply find_consumer_in in Efc. destruct Efc as [Hcm Etag].
  pose proof (H _ _ _ Ech) as (_ & _ & _ & Hd & _).
  assert (Hown : cc (c_own cm) = cnt (ch_unacked ch) tag).
  { rewrite (Hd tag (cc (c_own cm))); [unfold k0; lia|]. rewrite <- Etag. apply in_cview. exact Hcm. }
  assert (Hin0 : In tag (map fst (cview ch0))).
  { rewrite Ev0, fst_cview, <- Etag. apply in_map. exact Hcm. }
  assert (Hn0 : forall n, In (tag, n) (cview ch0) -> n = cc (c_own cm)).
  { intros n Hn. rewrite Ev0 in Hn. rewrite (Hd _ _ Hn), Hown. unfold k0. lia. }
  assert (Hs1 : cc (c_own cm) + 1 < two16).
  { rewrite Hown. pose proof (cnt_le (ch_unacked ch) tag). pose proof (Hsm _ _ _ Ech). lia. }
  destruct (c_status cm); auto.
  all: destruct (get_queue s0 (c_queue cm)) as [qu|]; auto.
  all: destruct (negb (q_active qu)); auto.
  all: destruct (q_ready qu) as [|u rest]; auto.
  all: destruct (c_noack cm) eqn:Ena.
  (* no-ack: no window, no entry *)
  all: try (cbn [fst];
            match goal with |- context [wake_consumer ?st ?c0 ?h0 ?tag0] => destruct (wake_consumer st c0 h0 tag0) as [s9 b9] eqn:Ew;
              apply fst_pair in Ew; cbn [fst]; subst s9; apply CL_wake end;
            repeat (first [ assumption | same_conns | match goal with |- allch _ (if ?b then _ else _) => destruct b end
                          | apply allch_upd_chan; [intros; assumption|] ]); fail).
  (* ack mode *)
  all: unfold window_list; rewrite Ech0, Ecn0, Hrab.
  all: destruct (reserve (cfg_rollback cfg) [ch_qos ch0; c_own cm] (msg_size s0 u mod two32)) as [okr ws] eqn:Er.
  all: destruct (reserve2_second _ _ _ _ _ _ Er) as (a & b & -> & Hb).
  all: destruct okr as [l|]; cbn [fst].
  all: try (apply (CLoffT_to_CL c h (kd tag 0) tag); [intros t; unfold kd; destruct (seqb tag t); reflexivity|];
            eapply C_store_windows; eauto; intros n Hn; rewrite (Hn0 n Hn), Hb; lia).
  all: match goal with |- context [wake_consumer ?st ?c0 ?h0 ?tag0] => destruct (wake_consumer st c0 h0 tag0) as [s9 b9] eqn:Ew;
         apply fst_pair in Ew; cbn [fst]; subst s9; apply CL_wake end.
  all: repeat same_conns.
  all: apply C_append.
  all: apply allch_upd_chan; [intros; assumption|].
  all: repeat same_conns.
  all: eapply C_store_windows; eauto; intros n Hn; rewrite (Hn0 n Hn), Hb; rewrite N.mod_small by exact Hs1; reflexivity.
Qed.

(* ---- channel.close: the consumers go first, then every unsettled delivery is requeued ---- *)
Definition clR (c0 h0 : N) (c h : N) (ch : channel) : Prop :=
  if (c =? c0) && (h =? h0) then ch_consumers ch = [] /\ cc (ch_cqos ch) = 0 else CLP c h ch.
Lemma cview_nil ch : cview ch = [] <-> ch_consumers ch = [].
Proof. unfold cview. split; intros H; [eapply map_eq_nil; eauto|rewrite H; reflexivity]. Qed.
Lemma clR_vkeep c0 h0 : forall c h ch ch',
  ch_unacked ch' = ch_unacked ch -> cview ch' = cview ch -> cc (ch_cqos ch') = cc (ch_cqos ch) -> clR c0 h0 c h ch -> clR c0 h0 c h ch'.
Proof.
  unfold clR. intros c h ch ch' E1 E2 E3. destruct ((c =? c0) && (h =? h0)); [|apply CLP_vkeep; auto].
  intros [A B]. split; [|congruence]. apply cview_nil. rewrite E2. apply cview_nil. exact A.
Qed.
Lemma clR_nodup c0 h0 : forall c h ch, clR c0 h0 c h ch -> NoDup (map fst (cview ch)).
Proof.
  unfold clR. intros c h ch. destruct ((c =? c0) && (h =? h0)); [|apply CLP_nodup].
  intros [A _]. apply cview_nil in A. rewrite A. constructor.
Qed.

Lemma CL_channel_close cfg s c h : CI s -> BI s -> CL s -> CL (channel_close cfg s c h).
Proof.
  intros Hci Hbi H. destruct (get_chan s c h) as [ch|] eqn:Ech; [|unfold channel_close; rewrite Ech; exact H].
  rewrite (channel_close_eq cfg s c h ch Ech). destruct (channel_close_shape cfg s c h ch Hci Ech) as (_ & Hsh).
  assert (H3 : allch (clR c h) (close_mid cfg s c h ch)).
  { unfold close_mid.
    set (s1 := fold_left (fun s cm => consumer_stop s c h (c_tag cm)) (ch_consumers ch) s).
    assert (H1 : CL s1) by (subst s1; apply fold_left_preserves; auto; intros; apply CL_consumer_stop; auto).
    clearbody s1.
    assert (H2 : allch (clR c h) (upd_chan s1 c h (fun ch => ch <| ch_consumers := [] |>))).
    { intros c' h' ch' Hg. rewrite get_chan_upd_chan in Hg. unfold clR. destruct ((c' =? c) && (h' =? h)) eqn:Eb; [|apply H1; auto].
      apply at_other in Eb. destruct Eb; subst. destruct (get_chan s1 c h) as [ch1|] eqn:E1; cbn in Hg; inversion Hg; subst.
      split; [reflexivity|]. pose proof (H1 _ _ _ E1) as (_ & _ & _ & _ & F). exact F. }
    destruct (0 <? h); auto.
    apply (V_handle_reject (clR c h) (clR_vkeep c h) c h); auto.
    - intros ch0 tag. unfold clR. rewrite !N.eqb_refl. cbn. auto.
    - intros ch0 t sz. unfold clR. rewrite !N.eqb_refl. cbn. intros [A B]. rewrite A. auto. }
  set (s3 := close_mid cfg s c h ch) in *. clearbody s3.
  intros c' h' ch' Hg. rewrite get_chan_upd_chan in Hg. destruct ((c' =? c) && (h' =? h)) eqn:Eb.
  - apply at_other in Eb. destruct Eb; subst. destruct (get_chan s3 c h) as [ch3|] eqn:E3; cbn in Hg; inversion Hg; subst.
    pose proof (H3 _ _ _ E3) as Hr. unfold clR in Hr. rewrite !N.eqb_refl in Hr. destruct Hr as [A B].
    destruct (Hsh _ eq_refl) as (_ & U1 & U2). apply cinv_empty; cbn; auto.
    destruct (0 <? h) eqn:E0; [auto|]. rewrite U2 by reflexivity. apply N_ltb_0 in E0. exact (proj1 (Hbi _ _ _ Ech (or_intror E0))).
  - pose proof (H3 _ _ _ Hg) as Hr. unfold clR in Hr. rewrite Eb in Hr. exact Hr.
Qed.

Lemma eff_tag_nonempty s t : eff_tag s t <> ""%string.
Proof.
  unfold eff_tag. destruct (seqb t "") eqn:E.
  - unfold gen_tag. cbn [String.append]. discriminate.
  - intros X. rewrite X in E. cbn in E. discriminate.
Qed.

Lemma cview_flow ch a f :
  cview (ch <| ch_flow := a |> <| ch_consumers ::= map f |>) = map (fun cm => (c_tag cm, cc (c_own cm))) (map f (ch_consumers ch)).
Proof. reflexivity. Qed.

Ltac cvkeep := apply allch_upd_chan; [intros ch0 Hch0; eapply CLP_vkeep; [..|exact Hch0]; try reflexivity|].
Ltac cvset Ech H := apply allch_set_chan; [eapply CLP_vkeep; [..|exact (H _ _ _ Ech)]; try reflexivity|].

Theorem CL_handle_method cfg fx s c h m :
  cfg_rabbit cfg = true -> fx_closeok_releases fx = true -> CI s -> BI s -> CL s -> CL (fst (fst (handle_method cfg fx s c h m))).
Proof.
  intros Hrab Hcr Hci Hbi H. unfold handle_method.
  destruct (get_chan s c h) as [ch|] eqn:Hch; [|exact H].
  destruct m; unfold ok, refuse.
  - (* MChannelOpen *)
    destruct (ch_status ch) eqn:Es; cbn [fst]; auto.
    + cvset Hch H. auto.
    + cvset Hch H. auto.
    + destruct (fx_reopen_resets fx); [|cvset Hch H; auto].
      apply allch_set_chan; auto. destruct (Hbi _ _ _ Hch (or_introl Es)) as [A B]. apply cinv_empty; cbn; auto.
  - cbn [fst]. apply CL_channel_close; auto.
  - cbn [fst]. rewrite Hcr. apply CL_channel_close; auto.
  - (* MChannelFlow *)
    cbn [fst]. destruct (Bool.eqb _ _); auto.
    destruct a; (cvset Hch H; auto; rewrite cview_flow; apply cview_map; intros cm _).
    + destruct (c_status cm); try (split; reflexivity);
        destruct (consume_msg_view (cm <| c_status := CStarted |>)) as [E1 E2]; rewrite E1, E2; split; reflexivity.
    + destruct (c_status cm); split; reflexivity.
  - destruct (extype_of type); [|exact H].
    repeat match goal with |- context [if ?b then _ else _] => destruct b end; cbn [fst]; auto.
    all: repeat match goal with |- context [match ?x with _ => _ end] => destruct x end; cbn [fst]; auto.
    all: try (same_conns; auto).
  - destruct (fx_not_impl fx); exact H.
  - destruct (seqb name ""); [exact H|].
    destruct (queue_found s name) as [qu|].
    + repeat match goal with |- context [if ?b then _ else _] => destruct b end; cbn [fst]; auto.
    + destruct passive; [destruct nowait; exact H|]. cbn [fst]. repeat same_conns. auto.
  - destruct (alookup _ _ _); [|exact H]. destruct (seqb ex ""); [exact H|].
    destruct (queue_found s q); [|exact H]. destruct (locked _ _); [exact H|]. destruct (bad_xmatch _); [exact H|]. destruct (extype_eqb _ ExTopic && bad_pattern _)%bool; [exact H|]. cbn [fst]. same_conns. auto.
  - destruct (alookup _ _ _); [|exact H]. destruct (queue_found s q); [|exact H]. destruct (locked _ _); [exact H|]. destruct (bad_xmatch _); [exact H|]. destruct (extype_eqb _ ExTopic && bad_pattern _)%bool; [exact H|]. cbn [fst]. same_conns. auto.
  - destruct (queue_found s q) as [qu|]; [|exact H]. destruct (locked _ _); [exact H|]. cbn [fst].
    repeat (first [assumption | same_conns | match goal with |- allch _ (if ?b then _ else _) => destruct b end]).
  - destruct (queue_found s q); [|exact H]. destruct (locked _ _); [exact H|].
    pose proof (V_vhost_delete_queue CLP CLP_vkeep (negb (fx_delete_checks_first fx)) s q ifunused ifempty H) as Hd.
    destruct (vhost_delete_queue _ s q ifunused ifempty) as [[s1 e1] r1]. cbn [fst] in *. destruct r1; exact Hd.
  - (* MQos: Update keeps the counts *)
    cbn [fst]. apply CL_wake_consumers. rewrite Hrab. destruct glob; (cvset Hch H; auto).
  - destruct imm; [exact H|]. destruct (alookup _ _ _); [|exact H].
    destruct (ch_confirm ch); cbn [fst]; (cvset Hch H; repeat same_conns; auto).
  - (* MConsume *)
    destruct (queue_found s q) as [qu|]; [|exact H].
    destruct (fx_excl_owner fx && locked qu c); [exact H|].
    destruct (find_consumer ch _) eqn:Ef; [exact H|].
    destruct (_ && _)%bool; cbn [fst].
    + same_conns. auto.
    + apply allch_set_chan; [|destruct (seqb tag ""%string); repeat same_conns; auto].
      pose proof (H _ _ _ Hch) as Hc. apply cinv_consume; auto.
      * cbn. rewrite <- fst_cview. apply find_consumer_none. exact Ef.
      * cbn. apply eff_tag_nonempty.
      * cbn. exact (proj2 (proj2 (proj2 (proj2 Hc)))).
  - (* MCancel *)
    destruct (find_consumer ch tag); [|exact H]. cbn [fst].
    apply allch_upd_chan2; [intros ch0 Hc0; apply cinv_cancel; exact Hc0|]. apply CL_consumer_stop. exact H.
  - (* MGet *)
    destruct (queue_found s q) as [qu|]; [|exact H].
    destruct (fx_excl_owner fx && locked qu c); [exact H|].
    destruct (q_ready qu) as [|u rest]; [exact H|].
    match goal with |- context [if noack then (Some [], []) else ?r] => destruct (if noack then (Some [], []) else r) as [okr ws] end.
    set (s1 := match ws with [w1; w2] => _ | _ => s end).
    assert (H1 : CL s1).
    { subst s1. destruct ws as [|w1 [|w2 [|]]]; auto.
      destruct (get_conn _ c) eqn:Ec.
      - eapply allch_set_conn_qos; eauto. cvset Hch H. auto.
      - cvset Hch H. auto. }
    clearbody s1.
    destruct okr; cbn [fst]; [|exact H1].
    same_conns.
    set (s3 := upd_queue s1 q _). assert (H3 : CL s3) by (subst s3; same_conns; auto). clearbody s3.
    destruct noack.
    all: repeat (first [ assumption | same_conns | match goal with |- allch _ (if ?b then _ else _) => destruct b end ]).
    all: first [ cvkeep; assumption
               | apply allch_upd_chan; [intros ch0 Hc0; apply cinv_append_get; [reflexivity|exact Hc0]|]; cvkeep; assumption ].
  - pose proof (CL_handle_ack cfg s c h tag mult Hrab Hci H) as Ha.
    destruct (handle_ack cfg s c h tag mult) as [s1 e1]. exact Ha.
  - pose proof (CL_handle_reject cfg s c h tag mult requeue 60 120 Hrab Hci H) as Ha.
    destruct (handle_reject cfg s c h tag mult requeue 60 120) as [s1 e1]. exact Ha.
  - pose proof (CL_handle_reject cfg s c h tag false requeue 60 90 Hrab Hci H) as Ha.
    destruct (handle_reject cfg s c h tag false requeue 60 90) as [s1 e1]. exact Ha.
  - exact H.
  - cbn [fst]. cvset Hch H. auto.
  - destruct (fx_not_impl fx); exact H.
  - exact H.
  - exact H.
  - destruct good; [cbn [fst]; apply allch_set_stage; exact H|exact H].
  - destruct within; [cbn [fst]; apply allch_set_stage; exact H|exact H].
  - destruct vhost_ok; [cbn [fst]; apply allch_set_stage; exact H|exact H].
Qed.

(* ---- every label ---- *)
Definition CBL (s : state) : Prop := CB s /\ CL s.

Section CLStep.
Variables (cfg : config) (fx : fixes).
Hypothesis Hrab : cfg_rabbit cfg = true.
Hypothesis Hst : fx_stage fx = true.
Hypothesis Hco : fx_chan_open fx = true.
Hypothesis Hcr : fx_closeok_releases fx = true.

Lemma cinv_new k : cinv k (channel0 <| ch_status := ChNew |>).
Proof. apply cinv_empty; reflexivity. Qed.

Theorem CL_step s l : CB s -> Small s -> CL s -> CL (fst (step cfg fx s l)).
Proof.
  intros Hcb Hsm H.
  assert (X : CBL (fst (step cfg fx s l))); [|exact (proj2 X)].
  apply (D_step cfg fx CBL).
  - intros s0 s' E _ [A B]. split; [eapply CB_conns; eauto|eapply allch_same_conns; eauto].
  - intros s0 c h [A B]. split; [apply CB_chan_close; auto|]. destruct A. apply CL_channel_close; auto.
  - intros b s0 qn iu ie [A B]. split; [apply CB_del; auto|apply (V_vhost_delete_queue CLP CLP_vkeep); auto].
  - intros s0 c [A B]. split; [apply CB_delconn; auto|apply allch_del_conn; auto].
  - intros s0 c h [A B]. split; [apply CB_closing; auto|apply (V_closing CLP CLP_vkeep); auto].
  - intros s0 c h [A B]. split; [apply CB_ensure; auto|apply allch_ensure; auto]. intros ? ?. apply cinv_channel0.
  - intros s0 c h [A B]. split; [apply CB_cur; auto|apply (V_cur CLP CLP_vkeep); auto].
  - intros s0 c h t [A B]. split; [apply CB_add_confirm; auto|apply (V_add_confirm CLP CLP_vkeep); auto].
  - intros s0 c h tag [A B]. split; [apply CB_wake; auto|apply CL_wake; auto].
  - intros s0 c st En [A B]. split; [apply CB_newconn; auto|apply allch_newconn; auto]. intros ?. apply cinv_new.
  - intros s0. split; [apply CB_restart|apply allch_restart].
  - intros s0 c h ch E [A B]. destruct (CB_tick s0 c h ch E A) as [T1 T2]. destruct (V_tick CLP CLP_vkeep s0 c h ch E B) as [T3 T4].
    split; split; auto.
  - intros c h m Hg [[A B] C]. apply (cguard_guard _ _ _ _ _ Hst Hco) in Hg. split; [split; [apply CI_handle_method; auto|apply BI_handle_method; auto]|apply CL_handle_method; auto].
  - intros c h tag. destruct Hcb as [A B]. split; [split; [apply CI_consumer_turn; auto|apply BI_consumer_turn; auto]|apply CL_consumer_turn; auto].
  - intros c h ch u m len _ _ _ _ [A B]. split; [eapply CB_conns; [apply conns_upd_msg|exact A]|eapply allch_same_conns; [apply conns_upd_msg|exact B]].
  - split; auto.
Qed.

Theorem CL_run ls : forall s, CB s -> CL s -> small_along cfg fx s ls -> CL (fst (run cfg fx s ls)).
Proof.
  induction ls as [|l t IH]; intros s Hcb H Hs; cbn [run]; auto.
  destruct Hs as [Hs Ht]. pose proof (CL_step s l Hcb Hs H) as H1. pose proof (CB_step cfg fx Hst Hco Hcr s l Hcb) as C1.
  destruct (step cfg fx s l) as [s1 e1]. cbn [fst] in *. specialize (IH s1 C1 H1 Ht).
  destruct (run cfg fx s1 t) as [s2 e2]. exact IH.
Qed.
End CLStep.

Lemma CL_init cfg : CL (init cfg).
Proof. intros c h ch Hg. unfold get_chan, get_conn in Hg. cbn in Hg. discriminate. Qed.

Lemma small_along_last cfg fx ls : forall s, small_along cfg fx s ls -> Small (fst (run cfg fx s ls)).
Proof.
  induction ls as [|l t IH]; intros s Hs; cbn [run]; [exact (proj1 Hs)|].
  destruct Hs as [_ Ht]. specialize (IH _ Ht). destruct (step cfg fx s l) as [s1 e1]. cbn [fst] in *.
  destruct (run cfg fx s1 t) as [s2 e2]. exact IH.
Qed.

(* every reachable state of the repaired broker in the amqp-rabbit dialect: tags distinct and not empty, every tagged
   unsettled delivery names a live consumer, every consumer's own window counts exactly its own unsettled deliveries *)
Theorem consumer_invariant_reachable cfg fx ls c h ch :
  cfg_rabbit cfg = true -> fx_stage fx = true -> fx_chan_open fx = true -> fx_closeok_releases fx = true ->
  small_along cfg fx (init cfg) ls ->
  get_chan (fst (run cfg fx (init cfg) ls)) c h = Some ch ->
  NoDup (map c_tag (ch_consumers ch)) /\ (forall cm, In cm (ch_consumers ch) -> c_tag cm <> ""%string) /\
  (forall u, In u (ch_unacked ch) -> u_ctag u <> ""%string -> exists cm, In cm (ch_consumers ch) /\ c_tag cm = u_ctag u) /\
  (forall cm, In cm (ch_consumers ch) ->
     cc (c_own cm) = N.of_nat (List.length (filter (fun u => seqb (u_ctag u) (c_tag cm)) (ch_unacked ch)))) /\
  cc (ch_cqos ch) = 0.
Proof.
  intros Hrab Hst Hco Hcr Hs Hg.
  pose proof (CL_run cfg fx Hrab Hst Hco Hcr ls (init cfg) (CB_init cfg) (CL_init cfg) Hs _ _ _ Hg) as (A & B & C & D & F).
  rewrite fst_cview in *. repeat split; auto.
  - intros cm Hin E. apply B. rewrite <- E. apply in_map. exact Hin.
  - intros u Hu Hne. pose proof (C u Hu Hne) as Hin. apply in_map_iff in Hin. destruct Hin as (cm & E & Hin). eauto.
  - intros cm Hin. rewrite (D _ _ (in_cview ch cm Hin)). unfold k0, cnt. lia.
Qed.

Theorem consumer_ledger_reachable cfg fx ls c h ch cm :
  cfg_rabbit cfg = true -> fx_stage fx = true -> fx_chan_open fx = true -> fx_closeok_releases fx = true ->
  small_along cfg fx (init cfg) ls ->
  get_chan (fst (run cfg fx (init cfg) ls)) c h = Some ch -> In cm (ch_consumers ch) ->
  cc (c_own cm) = N.of_nat (List.length (filter (fun u => seqb (u_ctag u) (c_tag cm)) (ch_unacked ch))).
Proof.
  intros Hrab Hst Hco Hcr Hs Hg Hin.
  destruct (consumer_invariant_reachable cfg fx ls c h ch Hrab Hst Hco Hcr Hs Hg) as (_ & _ & _ & D & _). auto.
Qed.

(* the property itself: under a per-consumer prefetch-count N > 0 the consumer's window accepts a delivery only while
   fewer than N of ITS deliveries are unsettled, and afterwards counts exactly one more *)
Theorem consumer_delivery_only_below_limit ch cm size w' :
  cinv k0 ch -> In cm (ch_consumers ch) -> N.of_nat (List.length (ch_unacked ch)) + 1 < two16 ->
  qos_inc (c_own cm) size = Some w' -> pc (c_own cm) <> 0 ->
  cnt (ch_unacked ch) (c_tag cm) + 1 <= pc (c_own cm) /\ cc w' = cnt (ch_unacked ch) (c_tag cm) + 1.
Proof.
  intros (_ & _ & _ & D & _) Hin Hsm Hi Hp. pose proof (D _ _ (in_cview ch cm Hin)) as Hl. unfold k0 in Hl. rewrite N.add_0_r in Hl.
  pose proof (cnt_le (ch_unacked ch) (c_tag cm)) as Hle.
  unfold qos_inc in Hi.
  destruct (((pc (c_own cm) =? 0) || ((cc (c_own cm) + 1) mod two16 <=? pc (c_own cm))) && _) eqn:E; [|discriminate].
  inversion Hi; subst. cbn. apply andb_prop in E. destruct E as [E _].
  rewrite N.mod_small in * by lia.
  apply orb_prop in E. destruct E as [E|E]; [apply N.eqb_eq in E; contradiction|]. apply N.leb_le in E. rewrite Hl in *. split; [exact E|reflexivity].
Qed.

(* a delivery that a consumer turn actually makes was accepted by the consumer's own window *)
Lemma reserve2_success rb w1 w2 size l ws' :
  reserve rb [w1; w2] size = (Some l, ws') -> exists w1' w2', qos_inc w1 size = Some w1' /\ qos_inc w2 size = Some w2'.
Proof.
  intros H. cbn [reserve] in H. destruct (qos_inc w1 size) as [w1'|]; [|inversion H].
  destruct (qos_inc w2 size) as [w2'|]; inversion H. eauto.
Qed.

Theorem ack_turn_charges_own_window cfg fx s c h tag ch cm d r ex k :
  cfg_rabbit cfg = true ->
  get_chan s c h = Some ch -> find_consumer ch tag = Some cm -> c_noack cm = false ->
  In (c, h, SDeliver tag d r ex k) (snd (consumer_turn cfg fx s c h tag)) ->
  exists size w', qos_inc (c_own cm) size = Some w'.
Proof.
  intros Hrab Ech Efc Ena. unfold consumer_turn. rewrite Ech, Efc.
  destruct (negb (c_token cm)); [intros []|].
  set (s0 := set_chan s c h _).
  assert (G0 : get_chan s0 c h = Some (upd_consumer ch tag (fun cm => cm <| c_token := false |>))).
  { subst s0. rewrite get_chan_set_chan. pose proof (get_chan_conn _ _ _ _ Ech). destruct (get_conn s c); [|congruence]. rewrite !N.eqb_refl. reflexivity. }
  clearbody s0.
  destruct (c_status cm); try (intros []).
  all: destruct (get_queue s0 (c_queue cm)) as [qu|]; [|intros []].
  all: destruct (negb (q_active qu)); [intros []|].
  all: destruct (q_ready qu) as [|u rest]; [intros []|].
  all: rewrite Ena.
  all: unfold window_list; rewrite G0, Hrab.
  all: destruct (get_conn s0 c) as [cn|] eqn:Ecn; [|pose proof (get_chan_conn _ _ _ _ G0); congruence].
  all: match goal with |- context [reserve ?rb ?ws ?sz] => destruct (reserve rb ws sz) as [okr ws'] eqn:Er end.
  all: destruct okr as [l|]; [|intros []].
  all: apply reserve2_success in Er; destruct Er as (w1' & w2' & _ & Hinc).
  all: intros _; eauto.
Qed.

Theorem consumer_delivery_bounded_reachable cfg fx ls c h tag ch cm d r ex k :
  cfg_rabbit cfg = true -> fx_stage fx = true -> fx_chan_open fx = true -> fx_closeok_releases fx = true ->
  small_along cfg fx (init cfg) ls ->
  let s := fst (run cfg fx (init cfg) ls) in
  get_chan s c h = Some ch -> find_consumer ch tag = Some cm -> c_noack cm = false -> pc (c_own cm) <> 0 ->
  In (c, h, SDeliver tag d r ex k) (snd (consumer_turn cfg fx s c h tag)) ->
  N.of_nat (List.length (filter (fun u => seqb (u_ctag u) (c_tag cm)) (ch_unacked ch))) + 1 <= pc (c_own cm).
Proof.
  intros Hrab Hst Hco Hcr Hs s Ech Efc Ena Hp Hev.
  destruct (ack_turn_charges_own_window cfg fx s c h tag ch cm d r ex k Hrab Ech Efc Ena Hev) as (size & w' & Hi).
  pose proof (CL_run cfg fx Hrab Hst Hco Hcr ls (init cfg) (CB_init cfg) (CL_init cfg) Hs _ _ _ Ech) as Hc.
  pose proof (small_along_last cfg fx ls _ Hs _ _ _ Ech) as Hsm.
  apply find_consumer_in in Efc. destruct Efc as [Hin _].
  exact (proj1 (consumer_delivery_only_below_limit ch cm size w' Hc Hin Hsm Hi Hp)).
Qed.

(* ------------------------------------------------------------------ *)
(* Part 3: the connection-wide window (amqp-0-9-1 dialect) *)
Definition tot (cn : conn) : N := N.of_nat (List.length (chan_unacked_all cn)).
Definition nl (k : N) (cn : conn) : Prop := cc (cn_qos cn) = tot cn + k.
Definition allcn (Q : N -> conn -> Prop) (s : state) : Prop := forall c cn, get_conn s c = Some cn -> Q c cn.
Definition has_chan (h : N) (cn : conn) : bool := match alookup N.eqb h (cn_chans cn) with Some _ => true | None => false end.
(* connection c0 is k ahead while its channel h0 exists *)
Definition NLoff (c0 h0 : N) (k : N) (c : N) (cn : conn) : Prop := nl (if (c =? c0) && has_chan h0 cn then k else 0) cn.
Definition NLP (c : N) (cn : conn) : Prop := nl 0 cn.
Notation NL := (allcn NLP).
Definition SmallCP (c : N) (cn : conn) : Prop := tot cn + 1 < two16.
Notation SmallC := (allcn SmallCP).

Definition ulen (chans : list (N * channel)) : nat := List.length (flat_map (fun kh : N * channel => ch_unacked (snd kh)) chans).
Lemma ulen_aset chans h ch' :
  (ulen (aset N.eqb h ch' chans) + match alookup N.eqb h chans with Some ch => List.length (ch_unacked ch) | None => O end
   = ulen chans + List.length (ch_unacked ch'))%nat.
Proof.
  unfold ulen. induction chans as [|[k v] t IH]; cbn [aset alookup flat_map snd].
  - rewrite !app_length. cbn. lia.
  - destruct (h =? k); cbn [flat_map snd]; rewrite !app_length; lia.
Qed.
Lemma tot_aset cn h ch' ch : alookup N.eqb h (cn_chans cn) = Some ch ->
  tot (cn <| cn_chans := aset N.eqb h ch' (cn_chans cn) |>) + N.of_nat (List.length (ch_unacked ch)) = tot cn + N.of_nat (List.length (ch_unacked ch')).
Proof.
  intros E. unfold tot, chan_unacked_all. cbn [cn_chans set]. pose proof (ulen_aset (cn_chans cn) h ch') as Hl. rewrite E in Hl.
  unfold ulen in Hl. cbn. lia.
Qed.
Lemma has_chan_aset cn h ch' ch h0 : alookup N.eqb h (cn_chans cn) = Some ch ->
  has_chan h0 (cn <| cn_chans := aset N.eqb h ch' (cn_chans cn) |>) = has_chan h0 cn.
Proof.
  intros E. unfold has_chan. cbn. rewrite (alookup_aset N.eqb Neqb_spec). destruct (h0 =? h) eqn:E1; [|reflexivity].
  apply N.eqb_eq in E1. subst. rewrite E. reflexivity.
Qed.

Lemma get_conn_set_chan s c h ch c' :
  get_conn (set_chan s c h ch) c' =
  match get_conn s c with
  | Some cn => if c' =? c then Some (cn <| cn_chans := aset N.eqb h ch (cn_chans cn) |>) else get_conn s c'
  | None => get_conn s c'
  end.
Proof.
  unfold set_chan. destruct (get_conn s c) as [cn|] eqn:Ec; [|reflexivity].
  unfold get_conn. cbn. rewrite (alookup_aset N.eqb Neqb_spec). reflexivity.
Qed.
Lemma get_conn_set_conn s c cn' c' :
  get_conn (s <| conns := aset N.eqb c cn' (conns s) |>) c' = if c' =? c then Some cn' else get_conn s c'.
Proof. unfold get_conn. cbn. rewrite (alookup_aset N.eqb Neqb_spec). reflexivity. Qed.
Lemma get_chan_parts s c h ch : get_chan s c h = Some ch -> exists cn, get_conn s c = Some cn /\ alookup N.eqb h (cn_chans cn) = Some ch.
Proof. unfold get_chan. destruct (get_conn s c) as [cn|]; [eauto|discriminate]. Qed.
Lemma get_chan_none_has s c h cn : get_chan s c h = None -> get_conn s c = Some cn -> has_chan h cn = false.
Proof. unfold get_chan, has_chan. intros H E. rewrite E in H. rewrite H. reflexivity. Qed.

Lemma allcn_same_conns (Q : N -> conn -> Prop) s s' : conns s' = conns s -> allcn Q s -> allcn Q s'.
Proof. unfold allcn, get_conn. intros E H c cn Hg. apply H. rewrite <- E. exact Hg. Qed.
Lemma allcn_del_conn (Q : N -> conn -> Prop) s c : allcn Q s -> allcn Q (s <| conns := adel N.eqb c (conns s) |>).
Proof.
  intros H c' cn Hg. unfold get_conn in Hg. cbn in Hg. rewrite (alookup_adel N.eqb Neqb_spec) in Hg.
  destruct (c' =? c); [discriminate|]. apply H. exact Hg.
Qed.
Lemma allcn_restart (Q : N -> conn -> Prop) cfg s : allcn Q (fst (restart cfg s)).
Proof. unfold restart. cbn [fst]. intros c cn Hg. unfold get_conn in Hg. cbn in Hg. discriminate. Qed.

Ltac nsame := first
  [ eapply allcn_same_conns; [first
      [ apply conns_set_queue | apply conns_upd_queue | apply conns_upd_msg
      | apply (proj1 conns_queue_ops) | apply (proj1 (proj2 conns_queue_ops))
      | apply (proj1 (proj2 (proj2 conns_queue_ops))) | apply (proj2 (proj2 (proj2 conns_queue_ops))) ] | ]
  | match goal with |- allcn _ (@set _ _ _ _ _ ?s) => apply (allcn_same_conns _ s); [reflexivity|] end ].

(* primitives that keep, for every connection, the total of unsettled deliveries, the window count and the set of channels *)
Section NGen.
Variable Q : N -> conn -> Prop.
Hypothesis Q_keep : forall c cn cn', tot cn' = tot cn -> cc (cn_qos cn') = cc (cn_qos cn) ->
  (forall h, has_chan h cn' = has_chan h cn) -> Q c cn -> Q c cn'.

Lemma N_set_keep s c h ch ch' :
  get_chan s c h = Some ch -> List.length (ch_unacked ch') = List.length (ch_unacked ch) -> allcn Q s -> allcn Q (set_chan s c h ch').
Proof.
  intros Ech El H c' cn' Hg. rewrite get_conn_set_chan in Hg. destruct (get_chan_parts _ _ _ _ Ech) as (cn & Ec & Eh). rewrite Ec in Hg.
  destruct (c' =? c) eqn:E1; [|apply H; auto]. apply N.eqb_eq in E1. subst. inversion Hg; subst.
  eapply Q_keep; [..|exact (H _ _ Ec)].
  - pose proof (tot_aset cn h ch' ch Eh). lia.
  - reflexivity.
  - intros h1. eapply has_chan_aset; eauto.
Qed.
Lemma N_upd_keep s c h f : (forall ch, List.length (ch_unacked (f ch)) = List.length (ch_unacked ch)) -> allcn Q s -> allcn Q (upd_chan s c h f).
Proof. intros Hf H. unfold upd_chan. destruct (get_chan s c h) as [ch|] eqn:E; auto. eapply N_set_keep; eauto. Qed.
Lemma N_conn_keep s c cn g : get_conn s c = Some cn -> cc (g (cn_qos cn)) = cc (cn_qos cn) -> allcn Q s ->
  allcn Q (s <| conns := aset N.eqb c (cn <| cn_qos ::= g |>) (conns s) |>).
Proof.
  intros Ec Eg H c' cn' Hg. rewrite get_conn_set_conn in Hg. destruct (c' =? c) eqn:E1; [|apply H; auto].
  apply N.eqb_eq in E1. subst. inversion Hg; subst. eapply Q_keep; [..|exact (H _ _ Ec)]; auto.
Qed.
Lemma N_set_stage s c st : allcn Q s -> allcn Q (set_stage s c st).
Proof.
  intros H. unfold set_stage. destruct (get_conn s c) as [cn|] eqn:Ec; auto.
  intros c' cn' Hg. rewrite get_conn_set_conn in Hg. destruct (c' =? c) eqn:E1; [|apply H; auto].
  apply N.eqb_eq in E1. subst. inversion Hg; subst. eapply Q_keep; [..|exact (H _ _ Ec)]; auto.
Qed.

Ltac nkeep := apply N_upd_keep; [intros; reflexivity|].
Ltac nset Ech := eapply N_set_keep; [exact Ech|reflexivity|].

Lemma N_wake s c h tag : allcn Q s -> allcn Q (fst (wake_consumer s c h tag)).
Proof.
  intros H. unfold wake_consumer. destruct (get_chan s c h) as [ch|] eqn:E; auto.
  destruct (find_consumer ch tag) as [cm|]; auto. destruct (consume_msg cm) as [cm' b]. cbn [fst]. nset E. exact H.
Qed.
Lemma N_consumer_stop s c h tag : allcn Q s -> allcn Q (consumer_stop s c h tag).
Proof.
  intros H. unfold consumer_stop. destruct (get_chan s c h) as [ch|] eqn:E; auto.
  destruct (find_consumer ch tag) as [cm|]; auto.
  destruct (c_status cm); auto; (eapply allcn_same_conns; [apply (proj2 (proj2 (proj2 conns_queue_ops)))|]); (nset E; exact H).
Qed.
Lemma N_wake_all s c h : allcn Q s -> allcn Q (wake_all_of_chan s c h).
Proof. intros H. unfold wake_all_of_chan. nkeep. exact H. Qed.
Lemma N_wake_consumers cfg s c h : allcn Q s -> allcn Q (wake_consumers cfg s c h).
Proof.
  intros H. unfold wake_consumers. pose proof (N_wake_all s c h H) as H1.
  destruct (cfg_rabbit cfg); auto. destruct (get_conn _ c) as [cn|]; auto.
  apply fold_left_preserves; auto. intros s0 x H0. destruct (fst x =? h); auto. apply N_wake_all; auto.
Qed.
Lemma N_chan_ackmsg s u : allcn Q s -> allcn Q (chan_ackmsg s u).
Proof. intros H. unfold chan_ackmsg. destruct (origin_queue s u); repeat nsame; auto. Qed.
Lemma N_chan_rejectmsg s u r : allcn Q s -> allcn Q (chan_rejectmsg s u r).
Proof. intros H. unfold chan_rejectmsg. destruct (origin_queue s u); [destruct r|]; repeat nsame; auto. Qed.
Lemma N_cancel_fold l : forall s evs, allcn Q s ->
  allcn Q (fst (fold_left (fun acc x => let '(s, evs) := acc in let '(s', e) := consumer_cancel s x in (s', evs ++ e)) l (s, evs))).
Proof. induction l as [|[[c h] tag] t IH]; intros s evs H; simpl; auto. apply IH. apply N_consumer_stop; auto. Qed.
Lemma N_vhost_delete_queue b s qn iu ie : allcn Q s -> allcn Q (fst (fst (vhost_delete_queue b s qn iu ie))).
Proof.
  intros H. unfold vhost_delete_queue. destruct (get_queue s qn) as [qu|] eqn:Eq; auto.
  destruct (_ || _).
  - cbn [fst]. destruct b; [eapply allcn_same_conns; [apply conns_set_queue|exact H]|exact H].
  - pose proof (N_cancel_fold (q_consumers qu) s [] H) as Hf.
    destruct (fold_left _ (q_consumers qu) (s, [])) as [s1 e1]. cbn [fst] in *.
    repeat (first [ assumption | match goal with |- allcn _ (if ?b then _ else _) => destruct b end | nsame ]).
Qed.
Lemma N_add_confirm s c h t : allcn Q s -> allcn Q (add_confirm s c h t).
Proof.
  intros H. unfold add_confirm. destruct (get_chan s c h) as [ch|] eqn:E; auto. destruct (negb _); auto.
  destruct (ch_status ch) eqn:Es; auto; destruct t as [[[? ?] ?]|]; auto; (nset E; exact H).
Qed.
Lemma N_closing s c h : allcn Q s -> allcn Q (upd_chan s c h (fun ch => ch <| ch_status := ChClosing |>)).
Proof. intros H. nkeep. exact H. Qed.
Lemma N_cur s c h : allcn Q s -> allcn Q (upd_chan s c h (fun ch => ch <| ch_cur := None |>)).
Proof. intros H. nkeep. exact H. Qed.
Lemma N_tick s c h ch : get_chan s c h = Some ch -> allcn Q s ->
  allcn Q (set_chan s c h (ch <| ch_ticker := false |>)) /\ allcn Q (set_chan s c h (ch <| ch_confirmq := [] |>)).
Proof. intros E H. split; (nset E; exact H). Qed.
End NGen.

Lemma NLoff_keep c0 h0 k : forall c cn cn', tot cn' = tot cn -> cc (cn_qos cn') = cc (cn_qos cn) ->
  (forall h, has_chan h cn' = has_chan h cn) -> NLoff c0 h0 k c cn -> NLoff c0 h0 k c cn'.
Proof. unfold NLoff, nl. intros c cn cn' E1 E2 E3. rewrite E1, E2, E3. auto. Qed.
Lemma NLP_keep : forall c cn cn', tot cn' = tot cn -> cc (cn_qos cn') = cc (cn_qos cn) ->
  (forall h, has_chan h cn' = has_chan h cn) -> NLP c cn -> NLP c cn'.
Proof. unfold NLP, nl. intros c cn cn' E1 E2 _. rewrite E1, E2. auto. Qed.
Lemma SmallCP_keep : forall c cn cn', tot cn' = tot cn -> cc (cn_qos cn') = cc (cn_qos cn) ->
  (forall h, has_chan h cn' = has_chan h cn) -> SmallCP c cn -> SmallCP c cn'.
Proof. unfold SmallCP. intros c cn cn' E1 _ _. rewrite E1. auto. Qed.

Lemma NLoff_zero c0 h0 s : allcn (NLoff c0 h0 0) s <-> NL s.
Proof.
  unfold allcn, NLoff, NLP. split; intros H c cn Hg; specialize (H c cn Hg); destruct ((c =? c0) && has_chan h0 cn); auto.
Qed.
Lemma NLoff_none c0 h0 k k' s : get_chan s c0 h0 = None -> allcn (NLoff c0 h0 k) s -> allcn (NLoff c0 h0 k') s.
Proof.
  intros En H c cn Hg. pose proof (H _ _ Hg) as H1. unfold NLoff in *. destruct (c =? c0) eqn:E1; [|exact H1].
  apply N.eqb_eq in E1. subst. rewrite (get_chan_none_has _ _ _ _ En Hg) in *. exact H1.
Qed.

(* an update of channel (c0,h0) that changes the number of its unsettled deliveries moves the connection's offset *)
Lemma N_upd_shift s c0 h0 ka kb f ch :
  get_chan s c0 h0 = Some ch ->
  N.of_nat (List.length (ch_unacked (f ch))) + kb = N.of_nat (List.length (ch_unacked ch)) + ka ->
  allcn (NLoff c0 h0 ka) s -> allcn (NLoff c0 h0 kb) (upd_chan s c0 h0 f).
Proof.
  intros Ech El H c cn' Hg. unfold upd_chan in Hg. rewrite Ech in Hg. rewrite get_conn_set_chan in Hg.
  destruct (get_chan_parts _ _ _ _ Ech) as (cn & Ec & Eh). rewrite Ec in Hg.
  destruct (c =? c0) eqn:E1.
  - apply N.eqb_eq in E1. subst. inversion Hg; subst. pose proof (H _ _ Ec) as H1. unfold NLoff, nl in *. rewrite N.eqb_refl in *.
    rewrite (has_chan_aset cn h0 (f ch) ch h0 Eh). assert (Hh : has_chan h0 cn = true) by (unfold has_chan; rewrite Eh; reflexivity).
    rewrite Hh in *. cbn [andb] in *. pose proof (tot_aset cn h0 (f ch) ch Eh). cbn [cn_qos set] in *. change (cn_qos (cn <| cn_chans := _ |>)) with (cn_qos cn). lia.
  - pose proof (H _ _ Hg) as H1. unfold NLoff in *. rewrite E1 in *. exact H1.
Qed.

(* a change of the connection's window count moves the offset *)
Lemma N_conn_shift s c0 h0 ka kb cn g :
  get_conn s c0 = Some cn -> has_chan h0 cn = true ->
  (cc (cn_qos cn) = tot cn + ka -> cc (g (cn_qos cn)) = tot cn + kb) ->
  allcn (NLoff c0 h0 ka) s -> allcn (NLoff c0 h0 kb) (s <| conns := aset N.eqb c0 (cn <| cn_qos ::= g |>) (conns s) |>).
Proof.
  intros Ec Hh Hg H c cn' Hgc. rewrite get_conn_set_conn in Hgc. destruct (c =? c0) eqn:E1.
  - apply N.eqb_eq in E1. subst. inversion Hgc; subst. pose proof (H _ _ Ec) as H1. unfold NLoff, nl in *. rewrite N.eqb_refl in *.
    change (has_chan h0 (cn <| cn_qos ::= g |>)) with (has_chan h0 cn). rewrite Hh in *. cbn [andb] in *.
    change (tot (cn <| cn_qos ::= g |>)) with (tot cn). cbn [cn_qos set]. apply Hg. exact H1.
  - pose proof (H _ _ Hgc) as H1. unfold NLoff in *. rewrite E1 in *. exact H1.
Qed.

Section NKeep.
Variables (c0 h0 : N) (k : N).
Definition NO_wake := N_wake (NLoff c0 h0 k) (NLoff_keep c0 h0 k).
Definition NO_wake_consumers := N_wake_consumers (NLoff c0 h0 k) (NLoff_keep c0 h0 k).
Definition NO_chan_ackmsg := N_chan_ackmsg (NLoff c0 h0 k).
Definition NO_chan_rejectmsg := N_chan_rejectmsg (NLoff c0 h0 k).
Definition NO_upd_keep := N_upd_keep (NLoff c0 h0 k) (NLoff_keep c0 h0 k).
End NKeep.

Lemma get_chan_has s c h ch cn : get_chan s c h = Some ch -> get_conn s c = Some cn -> has_chan h cn = true.
Proof. unfold get_chan, has_chan. intros H E. rewrite E in H. rewrite H. reflexivity. Qed.

Lemma N_del s c0 h0 k tag ch :
  get_chan s c0 h0 = Some ch -> NoDup (map u_tag (ch_unacked ch)) -> (exists u, In u (ch_unacked ch) /\ u_tag u = tag) ->
  allcn (NLoff c0 h0 k) s -> allcn (NLoff c0 h0 (k + 1)) (upd_chan s c0 h0 (fun ch => del_unacked ch tag)).
Proof.
  intros Ech Hnd Hin H. eapply N_upd_shift; eauto. unfold del_unacked. cbn [ch_unacked set].
  pose proof (length_filter_one (ch_unacked ch) tag Hnd Hin) as Hl. cbn. lia.
Qed.

Lemma N_dec cfg s c0 h0 k u :
  cfg_rabbit cfg = false ->
  allcn (NLoff c0 h0 (k + 1)) s -> allcn (NLoff c0 h0 k) (dec_qos_and_consume_next cfg s c0 h0 u).
Proof.
  intros Hrab H. unfold dec_qos_and_consume_next. destruct (get_chan s c0 h0) as [ch|] eqn:Ech; [|eapply NLoff_none; eauto].
  apply NO_wake_consumers. rewrite Hrab.
  set (f := fun ch : channel => ch <| ch_qos ::= fun w => qos_dec w (msg_size s (u_msg u) mod two32) |>).
  assert (H1 : allcn (NLoff c0 h0 (k + 1)) (upd_chan s c0 h0 f)) by (apply NO_upd_keep; [intros; reflexivity|exact H]).
  assert (E1 : get_chan (upd_chan s c0 h0 f) c0 h0 = Some (f ch)) by (rewrite get_chan_upd_chan, !N.eqb_refl, Ech; reflexivity).
  assert (X : allcn (NLoff c0 h0 k)
                (match get_conn (upd_chan s c0 h0 f) c0 with
                 | Some cn => upd_chan s c0 h0 f <| conns := aset N.eqb c0 (cn <| cn_qos ::= fun w => qos_dec w (msg_size s (u_msg u) mod two32) |>) (conns (upd_chan s c0 h0 f)) |>
                 | None => upd_chan s c0 h0 f end)).
  { destruct (get_conn (upd_chan s c0 h0 f) c0) as [cn|] eqn:Ec; [|pose proof (get_chan_conn _ _ _ _ E1); congruence].
    eapply N_conn_shift; eauto; [eapply get_chan_has; eauto|].
    intros Hc. cbn. rewrite Hc. destruct (tot cn + (k + 1) <? 1) eqn:E; [apply N.ltb_lt in E; lia|lia]. }
  destruct (find_consumer ch (u_ctag u)); exact X.
Qed.

Section NSettle.
Variables (c0 h0 : N).
Variable g : state -> unacked -> state.
Hypothesis g_eq : forall s u, exists s1, s1 = upd_chan s c0 h0 (fun ch => del_unacked ch (u_tag u)) /\
  (forall k, allcn (NLoff c0 h0 k) s1 -> allcn (NLoff c0 h0 k) (g s u)) /\ U (g s u) c0 h0 = U s1 c0 h0.

Lemma N_fold_del sel : forall s k,
  NoDup (map u_tag sel) -> (forall u, In u sel -> In u (U s c0 h0)) -> NoDup (map u_tag (U s c0 h0)) ->
  allcn (NLoff c0 h0 k) s -> allcn (NLoff c0 h0 (k + N.of_nat (List.length sel))) (fold_left g sel s).
Proof.
  induction sel as [|a t IH]; intros s k Hnd Hin Hu H; cbn [fold_left List.length].
  - rewrite N.add_0_r. exact H.
  - cbn in Hnd. inversion Hnd as [|? ? Hni Hnd']; subst.
    destruct (g_eq s a) as (s1 & Es1 & Hk & HU).
    assert (Ha : In a (U s c0 h0)) by (apply Hin; left; reflexivity).
    destruct (get_chan s c0 h0) as [ch|] eqn:Ech; [|unfold U in Ha; rewrite Ech in Ha; destruct Ha].
    rewrite (U_some _ _ _ _ Ech) in *.
    assert (H1 : allcn (NLoff c0 h0 (k + 1)) (g s a)).
    { apply Hk. subst s1. eapply N_del; eauto. }
    assert (HU1 : U (g s a) c0 h0 = filter (fun u => negb (u_tag u =? u_tag a)) (ch_unacked ch)).
    { rewrite HU. subst s1. rewrite del_unacked_U. rewrite (U_some _ _ _ _ Ech). reflexivity. }
    replace (k + N.of_nat (S (List.length t))) with ((k + 1) + N.of_nat (List.length t)) by lia.
    apply IH; auto.
    + intros u Hu'. rewrite HU1. apply filter_In. split; [apply Hin; right; exact Hu'|].
      apply Bool.negb_true_iff. apply N.eqb_neq. intros E. apply Hni. rewrite <- E. apply in_map. exact Hu'.
    + rewrite HU1. apply NoDup_map_filter. exact Hu.
Qed.
End NSettle.

Lemma N_fold_dec cfg c0 h0 sel : cfg_rabbit cfg = false -> forall s k,
  allcn (NLoff c0 h0 (k + N.of_nat (List.length sel))) s ->
  allcn (NLoff c0 h0 k) (fold_left (fun s u => dec_qos_and_consume_next cfg s c0 h0 u) sel s).
Proof.
  intros Hrab. induction sel as [|a t IH]; intros s k H; cbn [fold_left List.length] in *.
  - rewrite N.add_0_r in H. exact H.
  - apply IH. apply N_dec; auto. replace (k + N.of_nat (List.length t) + 1) with (k + N.of_nat (S (List.length t))) by lia. exact H.
Qed.

Theorem NL_handle_ack cfg s c h tag mult :
  cfg_rabbit cfg = false -> CI s -> NL s -> NL (fst (handle_ack cfg s c h tag mult)).
Proof.
  intros Hrab Hci H. unfold handle_ack. destruct (get_chan s c h) as [ch|] eqn:Ech; auto.
  pose proof (Hci _ _ _ Ech) as [Hnd _].
  destruct mult.
  - cbn [fst]. apply (NLoff_zero c h). apply (N_fold_dec cfg c h _ Hrab _ 0). rewrite N.add_0_l.
    set (sel := filter _ (ch_unacked ch)).
    replace (N.of_nat (List.length sel)) with (0 + N.of_nat (List.length sel)) by lia.
    apply (N_fold_del c h (fun s u => chan_ackmsg (upd_chan s c h (fun ch => del_unacked ch (u_tag u))) u)).
    + intros s0 u. eexists. split; [reflexivity|]. split; [intros k; apply NO_chan_ackmsg|apply U_chan_ackmsg].
    + apply NoDup_map_filter. exact Hnd.
    + intros u Hu. rewrite (U_some _ _ _ _ Ech). apply filter_In in Hu. tauto.
    + rewrite (U_some _ _ _ _ Ech). exact Hnd.
    + apply NLoff_zero. exact H.
  - destruct (find _ (ch_unacked ch)) as [u|] eqn:Ef; cbn [fst]; auto.
    apply find_some in Ef. destruct Ef as [Hin Et]. apply N.eqb_eq in Et.
    apply (NLoff_zero c h). apply N_dec; auto. apply NO_chan_ackmsg. rewrite N.add_0_l.
    replace 1 with (0 + 1) by lia. eapply N_del; eauto. apply NLoff_zero. exact H.
Qed.

Theorem NL_handle_reject cfg s c h tag mult requeue cls mth :
  cfg_rabbit cfg = false -> CI s -> NL s -> NL (fst (handle_reject cfg s c h tag mult requeue cls mth)).
Proof.
  intros Hrab Hci H. unfold handle_reject. destruct (get_chan s c h) as [ch|] eqn:Ech; auto.
  pose proof (Hci _ _ _ Ech) as [Hnd _].
  destruct mult.
  - cbn [fst]. apply (NLoff_zero c h). apply (N_fold_dec cfg c h _ Hrab _ 0). rewrite N.add_0_l.
    set (sel := filter _ (sort_desc (ch_unacked ch))).
    replace (N.of_nat (List.length sel)) with (0 + N.of_nat (List.length sel)) by lia.
    apply (N_fold_del c h (fun s u => chan_rejectmsg (upd_chan s c h (fun ch => del_unacked ch (u_tag u))) u requeue)).
    + intros s0 u. eexists. split; [reflexivity|]. split; [intros k; apply NO_chan_rejectmsg|apply U_chan_rejectmsg].
    + apply NoDup_map_filter. apply NoDup_sort_desc. exact Hnd.
    + intros u Hu. rewrite (U_some _ _ _ _ Ech). apply filter_In in Hu. apply sort_desc_perm. tauto.
    + rewrite (U_some _ _ _ _ Ech). exact Hnd.
    + apply NLoff_zero. exact H.
  - destruct (find _ (ch_unacked ch)) as [u|] eqn:Ef; cbn [fst]; auto.
    apply find_some in Ef. destruct Ef as [Hin Et]. apply N.eqb_eq in Et.
    apply (NLoff_zero c h). apply N_dec; auto. apply NO_chan_rejectmsg. rewrite N.add_0_l.
    replace 1 with (0 + 1) by lia. eapply N_del; eauto. apply NLoff_zero. exact H.
Qed.

(* ---- deliveries ---- *)
(* channel window := a (any), connection window := b, where b counts d more than before *)
Lemma N_charge s c h a b d ch cn :
  get_chan s c h = Some ch -> get_conn s c = Some cn -> cc b = cc (cn_qos cn) + d -> NL s ->
  allcn (NLoff c h d)
    (match get_conn (upd_chan s c h (fun ch => ch <| ch_qos := a |>)) c with
     | Some cn => upd_chan s c h (fun ch => ch <| ch_qos := a |>) <| conns := aset N.eqb c (cn <| cn_qos := b |>) (conns (upd_chan s c h (fun ch => ch <| ch_qos := a |>))) |>
     | None => upd_chan s c h (fun ch => ch <| ch_qos := a |>) end).
Proof.
  intros Ech Ec Hb H.
  set (s1 := upd_chan s c h (fun ch => ch <| ch_qos := a |>)).
  assert (H1 : allcn (NLoff c h 0) s1) by (subst s1; apply NO_upd_keep; [intros; reflexivity|apply NLoff_zero; exact H]).
  assert (E1 : get_chan s1 c h = Some (ch <| ch_qos := a |>)) by (subst s1; rewrite get_chan_upd_chan, !N.eqb_refl, Ech; reflexivity).
  assert (Eq : forall cn1, get_conn s1 c = Some cn1 -> cn_qos cn1 = cn_qos cn).
  { subst s1. unfold upd_chan. rewrite Ech. intros cn1 Hg. rewrite get_conn_set_chan, Ec, N.eqb_refl in Hg. inversion Hg; subst. reflexivity. }
  clearbody s1.
  destruct (get_conn s1 c) as [cn1|] eqn:Ec1; [|pose proof (get_chan_conn _ _ _ _ E1); congruence].
  apply (N_conn_shift s1 c h 0 d cn1 (fun _ => b)); auto; [eapply get_chan_has; eauto|].
  intros Hc. rewrite Hb, <- (Eq _ eq_refl), Hc. lia.
Qed.

Lemma N_store_windows cfg s c h tag a b d ch cn :
  cfg_rabbit cfg = false -> get_chan s c h = Some ch -> get_conn s c = Some cn -> cc b = cc (cn_qos cn) + d -> NL s ->
  allcn (NLoff c h d) (store_windows cfg s c h tag [a; b]).
Proof. intros Hrab Ech Ec Hb H. unfold store_windows. rewrite Hrab. eapply N_charge; eauto. Qed.

Lemma N_append s c h x : allcn (NLoff c h 1) s -> NL (upd_chan s c h (fun ch => ch <| ch_unacked ::= fun l => l ++ [x] |>)).
Proof.
  intros H. apply (NLoff_zero c h). destruct (get_chan s c h) as [ch|] eqn:Ech.
  - eapply N_upd_shift; eauto. cbn [ch_unacked set]. rewrite app_length. cbn. lia.
  - unfold upd_chan. rewrite Ech. eapply NLoff_none; eauto.
Qed.

Definition NL_wake := N_wake NLP NLP_keep.
Definition NL_consumer_stop := N_consumer_stop NLP NLP_keep.
Definition NL_wake_consumers := N_wake_consumers NLP NLP_keep.

Theorem NL_consumer_turn cfg fx s c h tag :
  cfg_rabbit cfg = false -> SmallC s -> NL s -> NL (fst (consumer_turn cfg fx s c h tag)).
Proof.
  intros Hrab Hsm H. unfold consumer_turn.
  destruct (get_chan s c h) as [ch|] eqn:Ech; auto.
  destruct (find_consumer ch tag) as [cm|] eqn:Efc; auto.
  destruct (negb (c_token cm)); auto.
  set (s0 := set_chan s c h _).
  assert (H0 : NL s0) by (subst s0; eapply (N_set_keep NLP NLP_keep); eauto).
  assert (S0 : SmallC s0) by (subst s0; eapply (N_set_keep SmallCP SmallCP_keep); eauto).
  assert (Ech0 : exists ch0, get_chan s0 c h = Some ch0).
  { subst s0. rewrite get_chan_set_chan. pose proof (get_chan_conn _ _ _ _ Ech) as Hc. destruct (get_conn s c); [|congruence].
    rewrite !N.eqb_refl. cbn. eauto. }
  destruct Ech0 as (ch0 & Ech0).
  assert (Ecn0 : exists cn0, get_conn s0 c = Some cn0).
  { pose proof (get_chan_conn _ _ _ _ Ech0) as Hc. destruct (get_conn s0 c); [eauto|congruence]. }
  destruct Ecn0 as (cn0 & Ecn0).
  clearbody s0.
  assert (Hs1 : cc (cn_qos cn0) + 1 < two16).
  { pose proof (H0 _ _ Ecn0) as Hl. pose proof (S0 _ _ Ecn0) as Hs. unfold NLP, nl, SmallCP in *. lia. }
  destruct (c_status cm); auto.
  all: destruct (get_queue s0 (c_queue cm)) as [qu|]; auto.
  all: destruct (negb (q_active qu)); auto.
  all: destruct (q_ready qu) as [|u rest]; auto.
  all: destruct (c_noack cm) eqn:Ena.
  all: try (cbn [fst];
            match goal with |- context [wake_consumer ?st ?c0 ?h0 ?tag0] => destruct (wake_consumer st c0 h0 tag0) as [s9 b9] eqn:Ew;
              apply fst_pair in Ew; cbn [fst]; subst s9; apply NL_wake end;
            repeat (first [ assumption | nsame | match goal with |- allcn _ (if ?b then _ else _) => destruct b end
                          | apply (N_upd_keep NLP NLP_keep); [intros; reflexivity|] ]); fail).
  all: unfold window_list; rewrite Ech0, Ecn0, Hrab.
  all: destruct (reserve (cfg_rollback cfg) [ch_qos ch0; cn_qos cn0] (msg_size s0 u mod two32)) as [okr ws] eqn:Er.
  all: destruct (reserve2_second _ _ _ _ _ _ Er) as (a & b & -> & Hb).
  all: destruct okr as [l|]; cbn [fst].
  all: try (apply (NLoff_zero c h); eapply N_store_windows; eauto; rewrite Hb; lia).
  all: match goal with |- context [wake_consumer ?st ?c0 ?h0 ?tag0] => destruct (wake_consumer st c0 h0 tag0) as [s9 b9] eqn:Ew;
         apply fst_pair in Ew; cbn [fst]; subst s9; apply NL_wake end.
  all: repeat nsame.
  all: apply N_append.
  all: apply NO_upd_keep; [intros; reflexivity|].
  all: repeat nsame.
  all: eapply N_store_windows; eauto; rewrite Hb; rewrite N.mod_small by exact Hs1; reflexivity.
Qed.

Lemma NL_channel_close cfg s c h : cfg_rabbit cfg = false -> CI s -> NL s -> NL (channel_close cfg s c h).
Proof.
  intros Hrab Hci H. unfold channel_close. destruct (get_chan s c h) as [ch|] eqn:Ech; auto.
  apply (N_upd_keep NLP NLP_keep); [intros; reflexivity|].
  set (s2 := upd_chan (fold_left (fun s cm => consumer_stop s c h (c_tag cm)) (ch_consumers ch) s) c h (fun ch => ch <| ch_consumers := [] |>)).
  assert (H2 : NL s2).
  { subst s2. apply (N_upd_keep NLP NLP_keep); [intros; reflexivity|]. apply fold_left_preserves; auto. intros; apply NL_consumer_stop; auto. }
  assert (C2 : CI s2).
  { subst s2. apply allch_upd_chan; [intros ch0 Hc0; eapply chinvp_set; [..|exact Hc0]; reflexivity|].
    apply fold_left_preserves; auto. intros; apply CI_consumer_stop; auto. }
  clearbody s2. destruct (0 <? h); auto. apply NL_handle_reject; auto.
Qed.

Ltac nlkeep := apply (N_upd_keep NLP NLP_keep); [intros; reflexivity|].
Ltac nlset Ech := eapply (N_set_keep NLP NLP_keep); [first [exact Ech|erewrite get_chan_same_conns; [exact Ech|reflexivity]]|reflexivity|].

Theorem NL_handle_method cfg fx s c h m :
  cfg_rabbit cfg = false -> fx_closeok_releases fx = true -> CI s -> BI s -> SmallC s -> NL s -> NL (fst (fst (handle_method cfg fx s c h m))).
Proof.
  intros Hrab Hcr Hci Hbi Hsm H. unfold handle_method.
  destruct (get_chan s c h) as [ch|] eqn:Hch; [|exact H].
  destruct m; unfold ok, refuse.
  - (* MChannelOpen *)
    destruct (ch_status ch) eqn:Es; cbn [fst]; auto.
    + nlset Hch. exact H.
    + nlset Hch. exact H.
    + destruct (fx_reopen_resets fx); [|nlset Hch; exact H].
      eapply (N_set_keep NLP NLP_keep); [exact Hch| |exact H]. destruct (Hbi _ _ _ Hch (or_introl Es)) as [A B]. rewrite A. reflexivity.
  - cbn [fst]. apply NL_channel_close; auto.
  - cbn [fst]. rewrite Hcr. apply NL_channel_close; auto.
  - cbn [fst]. destruct (Bool.eqb _ _); auto. destruct a; (nlset Hch; exact H).
  - destruct (extype_of type); [|exact H].
    repeat match goal with |- context [if ?b then _ else _] => destruct b end; cbn [fst]; auto.
    all: repeat match goal with |- context [match ?x with _ => _ end] => destruct x end; cbn [fst]; auto.
    all: try (nsame; auto).
  - destruct (fx_not_impl fx); exact H.
  - destruct (seqb name ""); [exact H|].
    destruct (queue_found s name) as [qu|].
    + repeat match goal with |- context [if ?b then _ else _] => destruct b end; cbn [fst]; auto.
    + destruct passive; [destruct nowait; exact H|]. cbn [fst]. repeat nsame. auto.
  - destruct (alookup _ _ _); [|exact H]. destruct (seqb ex ""); [exact H|].
    destruct (queue_found s q); [|exact H]. destruct (locked _ _); [exact H|]. destruct (bad_xmatch _); [exact H|]. destruct (extype_eqb _ ExTopic && bad_pattern _)%bool; [exact H|]. cbn [fst]. nsame. auto.
  - destruct (alookup _ _ _); [|exact H]. destruct (queue_found s q); [|exact H]. destruct (locked _ _); [exact H|]. destruct (bad_xmatch _); [exact H|]. destruct (extype_eqb _ ExTopic && bad_pattern _)%bool; [exact H|]. cbn [fst]. nsame. auto.
  - destruct (queue_found s q) as [qu|]; [|exact H]. destruct (locked _ _); [exact H|]. cbn [fst].
    repeat (first [assumption | nsame | match goal with |- allcn _ (if ?b then _ else _) => destruct b end]).
  - destruct (queue_found s q); [|exact H]. destruct (locked _ _); [exact H|].
    pose proof (N_vhost_delete_queue NLP NLP_keep (negb (fx_delete_checks_first fx)) s q ifunused ifempty H) as Hd.
    destruct (vhost_delete_queue _ s q ifunused ifempty) as [[s1 e1] r1]. cbn [fst] in *. destruct r1; exact Hd.
  - (* MQos: Update keeps the counts *)
    cbn [fst]. apply NL_wake_consumers. rewrite Hrab. destruct glob; [|nlset Hch; exact H].
    destruct (get_conn s c) eqn:Ec; auto. eapply (N_conn_keep NLP NLP_keep); eauto.
  - destruct imm; [exact H|]. destruct (alookup _ _ _); [|exact H].
    destruct (ch_confirm ch); cbn [fst]; (nlset Hch; repeat nsame; exact H).
  - (* MConsume *)
    destruct (queue_found s q) as [qu|]; [|exact H].
    destruct (fx_excl_owner fx && locked qu c); [exact H|].
    destruct (find_consumer ch _); [exact H|].
    destruct (_ && _)%bool; cbn [fst].
    + nsame. auto.
    + destruct (seqb tag ""%string); (nlset Hch; repeat nsame; auto).
  - (* MCancel *)
    destruct (find_consumer ch tag); [|exact H]. cbn [fst].
    apply (N_upd_keep NLP NLP_keep); [intros; cbn; apply map_length|]. nlkeep. apply NL_consumer_stop. exact H.
  - (* MGet *)
    destruct (queue_found s q) as [qu|]; [|exact H].
    destruct (fx_excl_owner fx && locked qu c); [exact H|].
    destruct (q_ready qu) as [|u rest]; [exact H|].
    destruct noack.
    + cbn [fst]. repeat (first [ assumption | nsame | match goal with |- allcn _ (if ?b then _ else _) => destruct b end | nlkeep ]).
    + destruct (get_chan_parts _ _ _ _ Hch) as (cn & Ec & _). rewrite Ec.
      destruct (reserve (cfg_rollback cfg) [ch_qos ch; cn_qos cn] (msg_size s u mod two32)) as [okr ws] eqn:Er.
      destruct (reserve2_second _ _ _ _ _ _ Er) as (a & b & -> & Hb).
      assert (Hs1 : cc (cn_qos cn) + 1 < two16).
      { pose proof (H _ _ Ec) as Hl. pose proof (Hsm _ _ Ec) as Hs. unfold NLP, nl, SmallCP in *. lia. }
      assert (H1 : allcn (NLoff c h (match okr with Some _ => 1 | None => 0 end))
                     (match get_conn (set_chan s c h (ch <| ch_qos := a |>)) c with
                      | Some cn => set_chan s c h (ch <| ch_qos := a |>) <| conns := aset N.eqb c (cn <| cn_qos := b |>) (conns (set_chan s c h (ch <| ch_qos := a |>))) |>
                      | None => set_chan s c h (ch <| ch_qos := a |>) end)).
      { pose proof (N_charge s c h a b (match okr with Some _ => 1 | None => 0 end) ch cn Hch Ec) as X.
        unfold upd_chan in X. rewrite Hch in X. apply X; auto. destruct okr; [rewrite Hb, N.mod_small by exact Hs1; reflexivity|rewrite Hb; lia]. }
      match goal with H1 : allcn _ ?st |- _ => set (s1 := st) in * end. clearbody s1.
      destruct okr; cbn [fst]; [|apply (NLoff_zero c h); exact H1].
      nsame. nsame.
      apply N_append. repeat nsame. apply NO_upd_keep; [intros; reflexivity|]. nsame. exact H1.
  - pose proof (NL_handle_ack cfg s c h tag mult Hrab Hci H) as Ha.
    destruct (handle_ack cfg s c h tag mult) as [s1 e1]. exact Ha.
  - pose proof (NL_handle_reject cfg s c h tag mult requeue 60 120 Hrab Hci H) as Ha.
    destruct (handle_reject cfg s c h tag mult requeue 60 120) as [s1 e1]. exact Ha.
  - pose proof (NL_handle_reject cfg s c h tag false requeue 60 90 Hrab Hci H) as Ha.
    destruct (handle_reject cfg s c h tag false requeue 60 90) as [s1 e1]. exact Ha.
  - exact H.
  - cbn [fst]. nlset Hch. exact H.
  - destruct (fx_not_impl fx); exact H.
  - exact H.
  - exact H.
  - destruct good; [cbn [fst]; apply (N_set_stage NLP NLP_keep); exact H|exact H].
  - destruct within; [cbn [fst]; apply (N_set_stage NLP NLP_keep); exact H|exact H].
  - destruct vhost_ok; [cbn [fst]; apply (N_set_stage NLP NLP_keep); exact H|exact H].
Qed.

Lemma NL_ensure s c h : NL s -> NL (ensure_chan s c h).
Proof.
  intros H. unfold ensure_chan. destruct (get_conn s c) as [cn|] eqn:Ec; auto.
  destruct (alookup N.eqb h (cn_chans cn)) eqn:Eh; auto.
  intros c' cn' Hg. rewrite get_conn_set_conn in Hg. destruct (c' =? c) eqn:E1; [|apply H; auto].
  apply N.eqb_eq in E1. subst. inversion Hg; subst. pose proof (H _ _ Ec) as H1. unfold NLP, nl, tot, chan_unacked_all in *. cbn [cn_qos cn_chans set].
  pose proof (ulen_aset (cn_chans cn) h channel0) as Hl. rewrite Eh in Hl. unfold ulen in Hl. cbn in Hl. lia.
Qed.
Lemma NL_newconn s c st : NL s ->
  NL (s <| conns := aset N.eqb c {| cn_chans := [(0, channel0 <| ch_status := ChNew |>)]; cn_qos := qos0; cn_stage := st |} (conns s) |>).
Proof.
  intros H c' cn' Hg. rewrite get_conn_set_conn in Hg. destruct (c' =? c); [|apply H; auto]. inversion Hg; subst. reflexivity.
Qed.

Definition CBN (s : state) : Prop := CB s /\ NL s.

Section NLStep.
Variables (cfg : config) (fx : fixes).
Hypothesis Hrab : cfg_rabbit cfg = false.
Hypothesis Hst : fx_stage fx = true.
Hypothesis Hco : fx_chan_open fx = true.
Hypothesis Hcr : fx_closeok_releases fx = true.

Lemma SmallC_ensure s c h : SmallC s -> SmallC (ensure_chan s c h).
Proof.
  intros H. unfold ensure_chan. destruct (get_conn s c) as [cn|] eqn:Ec; auto.
  destruct (alookup N.eqb h (cn_chans cn)) eqn:Eh; auto.
  intros c' cn' Hg. rewrite get_conn_set_conn in Hg. destruct (c' =? c) eqn:E1; [|apply H; auto].
  apply N.eqb_eq in E1. subst. inversion Hg; subst. pose proof (H _ _ Ec) as H1. unfold SmallCP, tot, chan_unacked_all in *. cbn [cn_chans set].
  pose proof (ulen_aset (cn_chans cn) h channel0) as Hl. rewrite Eh in Hl. unfold ulen in Hl. cbn in Hl. lia.
Qed.

Theorem NL_step s l : CB s -> SmallC s -> NL s -> NL (fst (step cfg fx s l)).
Proof.
  intros Hcb Hsm H.
  assert (X : CBN (fst (step cfg fx s l))); [|exact (proj2 X)].
  apply (D_step cfg fx CBN).
  - intros s0 s' E _ [A B]. split; [eapply CB_conns; eauto|eapply allcn_same_conns; eauto].
  - intros s0 c h [A B]. split; [apply CB_chan_close; auto|]. destruct A. apply NL_channel_close; auto.
  - intros b s0 qn iu ie [A B]. split; [apply CB_del; auto|apply (N_vhost_delete_queue NLP NLP_keep); auto].
  - intros s0 c [A B]. split; [apply CB_delconn; auto|apply allcn_del_conn; auto].
  - intros s0 c h [A B]. split; [apply CB_closing; auto|apply (N_closing NLP NLP_keep); auto].
  - intros s0 c h [A B]. split; [apply CB_ensure; auto|apply NL_ensure; auto].
  - intros s0 c h [A B]. split; [apply CB_cur; auto|apply (N_cur NLP NLP_keep); auto].
  - intros s0 c h t [A B]. split; [apply CB_add_confirm; auto|apply (N_add_confirm NLP NLP_keep); auto].
  - intros s0 c h tag [A B]. split; [apply CB_wake; auto|apply NL_wake; auto].
  - intros s0 c st En [A B]. split; [apply CB_newconn; auto|apply NL_newconn; auto].
  - intros s0. split; [apply CB_restart|apply allcn_restart].
  - intros s0 c h ch E [A B]. destruct (CB_tick s0 c h ch E A) as [T1 T2]. destruct (N_tick NLP NLP_keep s0 c h ch E B) as [T3 T4].
    split; split; auto.
  - intros c h m Hg [[A B] C]. apply (cguard_guard _ _ _ _ _ Hst Hco) in Hg. split; [split; [apply CI_handle_method; auto|apply BI_handle_method; auto]|].
    apply NL_handle_method; auto. apply SmallC_ensure. exact Hsm.
  - intros c h tag. destruct Hcb as [A B]. split; [split; [apply CI_consumer_turn; auto|apply BI_consumer_turn; auto]|apply NL_consumer_turn; auto].
  - intros c h ch u m len _ _ _ _ [A B]. split; [eapply CB_conns; [apply conns_upd_msg|exact A]|eapply allcn_same_conns; [apply conns_upd_msg|exact B]].
  - split; auto.
Qed.

Fixpoint smallc_along (s : state) (ls : list label) : Prop :=
  SmallC s /\ match ls with [] => True | l :: t => smallc_along (fst (step cfg fx s l)) t end.

Theorem NL_run ls : forall s, CB s -> NL s -> smallc_along s ls -> NL (fst (run cfg fx s ls)).
Proof.
  induction ls as [|l t IH]; intros s Hcb H Hs; cbn [run]; auto.
  destruct Hs as [Hs Ht]. pose proof (NL_step s l Hcb Hs H) as H1. pose proof (CB_step cfg fx Hst Hco Hcr s l Hcb) as C1.
  destruct (step cfg fx s l) as [s1 e1]. cbn [fst] in *. specialize (IH s1 C1 H1 Ht).
  destruct (run cfg fx s1 t) as [s2 e2]. exact IH.
Qed.

Lemma smallc_along_last ls : forall s, smallc_along s ls -> SmallC (fst (run cfg fx s ls)).
Proof.
  induction ls as [|l t IH]; intros s Hs; cbn [run]; [exact (proj1 Hs)|].
  destruct Hs as [_ Ht]. specialize (IH _ Ht). destruct (step cfg fx s l) as [s1 e1]. cbn [fst] in *.
  destruct (run cfg fx s1 t) as [s2 e2]. exact IH.
Qed.
End NLStep.

Lemma NL_init cfg : NL (init cfg).
Proof. intros c cn Hg. unfold get_conn in Hg. cbn in Hg. discriminate. Qed.

(* every reachable state of the repaired broker in the amqp-0-9-1 dialect: the connection-wide window counts exactly the
   unsettled deliveries of all the connection's channels *)
Theorem conn_ledger_reachable cfg fx ls c cn :
  cfg_rabbit cfg = false -> fx_stage fx = true -> fx_chan_open fx = true -> fx_closeok_releases fx = true ->
  smallc_along cfg fx (init cfg) ls ->
  get_conn (fst (run cfg fx (init cfg) ls)) c = Some cn ->
  cc (cn_qos cn) = N.of_nat (List.length (chan_unacked_all cn)).
Proof.
  intros Hrab Hst Hco Hcr Hs Hg.
  pose proof (NL_run cfg fx Hrab Hst Hco Hcr ls (init cfg) (CB_init cfg) (NL_init cfg) Hs _ _ Hg) as Hl.
  unfold NLP, nl, tot in Hl. lia.
Qed.

Theorem conn_delivery_only_below_limit cn size w' :
  nl 0 cn -> tot cn + 1 < two16 -> qos_inc (cn_qos cn) size = Some w' -> pc (cn_qos cn) <> 0 ->
  tot cn + 1 <= pc (cn_qos cn) /\ cc w' = tot cn + 1.
Proof.
  intros Hl Hsm Hi Hp. unfold nl in Hl. rewrite N.add_0_r in Hl. unfold qos_inc in Hi.
  destruct (((pc (cn_qos cn) =? 0) || ((cc (cn_qos cn) + 1) mod two16 <=? pc (cn_qos cn))) && _) eqn:E; [|discriminate].
  inversion Hi; subst. cbn. apply andb_prop in E. destruct E as [E _].
  rewrite N.mod_small in * by (rewrite Hl; exact Hsm).
  apply orb_prop in E. destruct E as [E|E]; [apply N.eqb_eq in E; contradiction|]. apply N.leb_le in E. rewrite Hl in *. split; [exact E|reflexivity].
Qed.

(* a delivery that a consumer turn makes, and a message that basic.get (with ack) hands out, were accepted by the
   connection-wide window *)
Theorem ack_turn_charges_conn_window cfg fx s c h tag ch cm cn d r ex k :
  cfg_rabbit cfg = false ->
  get_chan s c h = Some ch -> get_conn s c = Some cn -> find_consumer ch tag = Some cm -> c_noack cm = false ->
  In (c, h, SDeliver tag d r ex k) (snd (consumer_turn cfg fx s c h tag)) ->
  exists size w', qos_inc (cn_qos cn) size = Some w'.
Proof.
  intros Hrab Ech Ec Efc Ena. unfold consumer_turn. rewrite Ech, Efc.
  destruct (negb (c_token cm)); [intros []|].
  set (s0 := set_chan s c h _).
  assert (G0 : get_chan s0 c h = Some (upd_consumer ch tag (fun cm => cm <| c_token := false |>))).
  { subst s0. rewrite get_chan_set_chan. rewrite Ec. rewrite !N.eqb_refl. reflexivity. }
  assert (G1 : exists cn0, get_conn s0 c = Some cn0 /\ cn_qos cn0 = cn_qos cn).
  { subst s0. rewrite get_conn_set_chan, Ec, N.eqb_refl. eexists. split; reflexivity. }
  destruct G1 as (cn0 & Ecn & Eq).
  clearbody s0.
  destruct (c_status cm); try (intros []).
  all: destruct (get_queue s0 (c_queue cm)) as [qu|]; [|intros []].
  all: destruct (negb (q_active qu)); [intros []|].
  all: destruct (q_ready qu) as [|u rest]; [intros []|].
  all: rewrite Ena.
  all: unfold window_list; rewrite G0, Ecn, Hrab.
  all: match goal with |- context [reserve ?rb ?ws ?sz] => destruct (reserve rb ws sz) as [okr ws'] eqn:Er end.
  all: destruct okr as [l|]; [|intros []].
  all: apply reserve2_success in Er; destruct Er as (w1' & w2' & _ & Hinc).
  all: intros _; rewrite Eq in Hinc; eauto.
Qed.

Theorem conn_delivery_bounded_reachable cfg fx ls c h tag ch cm cn d r ex k :
  cfg_rabbit cfg = false -> fx_stage fx = true -> fx_chan_open fx = true -> fx_closeok_releases fx = true ->
  smallc_along cfg fx (init cfg) ls ->
  let s := fst (run cfg fx (init cfg) ls) in
  get_chan s c h = Some ch -> get_conn s c = Some cn -> find_consumer ch tag = Some cm -> c_noack cm = false -> pc (cn_qos cn) <> 0 ->
  In (c, h, SDeliver tag d r ex k) (snd (consumer_turn cfg fx s c h tag)) ->
  N.of_nat (List.length (chan_unacked_all cn)) + 1 <= pc (cn_qos cn).
Proof.
  intros Hrab Hst Hco Hcr Hs s Ech Ec Efc Ena Hp Hev.
  destruct (ack_turn_charges_conn_window cfg fx s c h tag ch cm cn d r ex k Hrab Ech Ec Efc Ena Hev) as (size & w' & Hi).
  pose proof (NL_run cfg fx Hrab Hst Hco Hcr ls (init cfg) (CB_init cfg) (NL_init cfg) Hs _ _ Ec) as Hc.
  pose proof (smallc_along_last cfg fx ls _ Hs _ _ Ec) as Hsm.
  exact (proj1 (conn_delivery_only_below_limit cn size w' Hc Hsm Hi Hp)).
Qed.

Theorem get_charges_windows cfg fx s c h q ch cn dt r ex k mc :
  get_chan s c h = Some ch -> get_conn s c = Some cn ->
  In (c, h, SGetOk dt r ex k mc) (snd (fst (handle_method cfg fx s c h (MGet q false)))) ->
  exists size w1 w2, qos_inc (ch_qos ch) size = Some w1 /\ qos_inc (cn_qos cn) size = Some w2.
Proof.
  intros Ech Ec. unfold handle_method. rewrite Ech. unfold ok, refuse.
  destruct (queue_found s q) as [qu|]; [|intros []].
  destruct (fx_excl_owner fx && locked qu c); [intros []|].
  destruct (q_ready qu) as [|u rest]; [cbn; intros [X|[]]; inversion X|].
  rewrite Ec. cbv beta iota zeta.
  destruct (reserve (cfg_rollback cfg) [ch_qos ch; cn_qos cn] (msg_size s u mod two32)) as [okr ws] eqn:Er.
  destruct okr as [l|]; [|cbn; intros [X|[]]; inversion X].
  apply reserve2_success in Er. destruct Er as (w1 & w2 & A & B). intros _. eauto.
Qed.

Theorem conn_get_bounded_reachable cfg fx ls c h q ch cn dt r ex k mc :
  cfg_rabbit cfg = false -> fx_stage fx = true -> fx_chan_open fx = true -> fx_closeok_releases fx = true ->
  smallc_along cfg fx (init cfg) ls ->
  let s := fst (run cfg fx (init cfg) ls) in
  get_chan s c h = Some ch -> get_conn s c = Some cn -> pc (cn_qos cn) <> 0 ->
  In (c, h, SGetOk dt r ex k mc) (snd (fst (handle_method cfg fx s c h (MGet q false)))) ->
  N.of_nat (List.length (chan_unacked_all cn)) + 1 <= pc (cn_qos cn).
Proof.
  intros Hrab Hst Hco Hcr Hs s Ech Ec Hp Hev.
  destruct (get_charges_windows cfg fx s c h q ch cn dt r ex k mc Ech Ec Hev) as (size & w1 & w2 & _ & Hi).
  pose proof (NL_run cfg fx Hrab Hst Hco Hcr ls (init cfg) (CB_init cfg) (NL_init cfg) Hs _ _ Ec) as Hc.
  pose proof (smallc_along_last cfg fx ls _ Hs _ _ Ec) as Hsm.
  exact (proj1 (conn_delivery_only_below_limit cn size w2 Hc Hsm Hi Hp)).
Qed.

(* ------------------------------------------------------------------ *)
(* decidable forms of the side conditions, and the labels a drain executes (for the examples of Props/C06_ledgers.v) *)
Definition smallb (s : state) : bool :=
  forallb (fun kc : N * conn => forallb (fun kh : N * channel => N.of_nat (List.length (ch_unacked (snd kh))) + 1 <? two16) (cn_chans (snd kc))) (conns s).
Lemma smallb_spec s : smallb s = true -> Small s.
Proof.
  intros H c h ch Hg. unfold get_chan, get_conn in Hg. destruct (alookup N.eqb c (conns s)) as [cn|] eqn:Ec; [|discriminate].
  apply (alookup_in N.eqb Neqb_spec) in Ec, Hg. unfold smallb in H. rewrite forallb_forall in H. specialize (H _ Ec). cbn in H.
  rewrite forallb_forall in H. specialize (H _ Hg). cbn in H. apply N.ltb_lt in H. exact H.
Qed.
Fixpoint small_alongb (cfg : config) (fx : fixes) (s : state) (ls : list label) : bool :=
  smallb s && match ls with [] => true | l :: t => small_alongb cfg fx (fst (step cfg fx s l)) t end.
Lemma small_alongb_spec cfg fx ls : forall s, small_alongb cfg fx s ls = true -> small_along cfg fx s ls.
Proof.
  induction ls as [|l t IH]; intros s H; cbn [small_alongb small_along] in *; apply andb_prop in H; destruct H as [A B];
    (split; [apply smallb_spec; exact A|auto]).
Qed.
Definition smallcb (s : state) : bool := forallb (fun kc : N * conn => tot (snd kc) + 1 <? two16) (conns s).
Lemma smallcb_spec s : smallcb s = true -> SmallC s.
Proof.
  intros H c cn Hg. unfold get_conn in Hg. apply (alookup_in N.eqb Neqb_spec) in Hg. unfold smallcb in H. rewrite forallb_forall in H.
  specialize (H _ Hg). cbn in H. apply N.ltb_lt in H. exact H.
Qed.
Fixpoint smallc_alongb (cfg : config) (fx : fixes) (s : state) (ls : list label) : bool :=
  smallcb s && match ls with [] => true | l :: t => smallc_alongb cfg fx (fst (step cfg fx s l)) t end.
Lemma smallc_alongb_spec cfg fx ls : forall s, smallc_alongb cfg fx s ls = true -> smallc_along cfg fx s ls.
Proof.
  induction ls as [|l t IH]; intros s H; cbn [smallc_alongb smallc_along] in *; apply andb_prop in H; destruct H as [A B];
    (split; [apply smallcb_spec; exact A|auto]).
Qed.

Fixpoint drain_labels (cfg : config) (fx : fixes) (fuel : nat) (s : state) : list label :=
  match fuel with
  | O => []
  | S f => match enabled_internal s with [] => [] | l :: _ => l :: drain_labels cfg fx f (fst (step cfg fx s l)) end
  end.
Lemma run_drain_labels cfg fx fuel : forall s, fst (run cfg fx s (drain_labels cfg fx fuel s)) = fst (drain cfg fx fuel s).
Proof.
  induction fuel as [|f IH]; intros s; cbn [drain_labels drain]; [reflexivity|].
  destruct (enabled_internal s) as [|l r]; [reflexivity|]. cbn [run]. specialize (IH (fst (step cfg fx s l))).
  destruct (step cfg fx s l) as [s1 e1]. cbn [fst] in *.
  destruct (run cfg fx s1 (drain_labels cfg fx f s1)) as [s2 e2]. destruct (drain cfg fx f s1) as [s3 e3]. exact IH.
Qed.
Lemma run_app cfg fx l1 : forall s l2, fst (run cfg fx s (l1 ++ l2)) = fst (run cfg fx (fst (run cfg fx s l1)) l2).
Proof.
  induction l1 as [|l t IH]; intros s l2; cbn [app run]; [reflexivity|].
  specialize (IH (fst (step cfg fx s l)) l2). destruct (step cfg fx s l) as [s1 e1]. cbn [fst] in *.
  destruct (run cfg fx s1 (t ++ l2)) as [s2 e2]. destruct (run cfg fx s1 t) as [s3 e3]. exact IH.
Qed.
(* the labels one script step executes: the client's, then the internal turns to quiescence *)
Definition step_labels (cfg : config) (fx : fixes) (s : state) (ls : list label) : list label :=
  ls ++ drain_labels cfg fx 2000 (fst (run cfg fx s ls)).

From GMQ Require Import Run.BrokerRun.
Open Scope list_scope.
Open Scope N_scope.
Lemma run_step_labels cfg fx s ls : fst (run_step cfg fx s ls) = fst (run cfg fx s (step_labels cfg fx s ls)).
Proof.
  unfold run_step, step_labels. rewrite run_app, run_drain_labels.
  destruct (run cfg fx s ls) as [s1 e1]. cbn [fst]. destruct (drain cfg fx 2000 s1) as [s2 e2]. reflexivity.
Qed.

(* ------------------------------------------------------------------ *)
(* Part 4: the byte count of the channel window *)
Definition msz (s : state) (u : N) : N := msg_size s u mod two32.
Fixpoint bsum (f : N -> N) (l : list unacked) : N := match l with [] => 0 | x :: t => f (u_msg x) + bsum f t end.
(* window bytes = body bytes of the unsettled deliveries (+ k) *)
Definition bl (f : N -> N) (k : N) (ch : channel) : Prop := cs (ch_qos ch) = bsum f (ch_unacked ch) + k.
Definition BLoff (f : N -> N) (c0 h0 : N) (k : N) (c h : N) (ch : channel) : Prop := bl f (if (c =? c0) && (h =? h0) then k else 0) ch.
Definition BLP (f : N -> N) (c h : N) (ch : channel) : Prop := bl f 0 ch.
Definition BL (s : state) : Prop := allch (BLP (msz s)) s.
Definition szeq (s s' : state) : Prop := forall x, msg_size s' x = msg_size s x.

Lemma szeq_refl s : szeq s s. Proof. intros x. reflexivity. Qed.
Lemma szeq_trans s1 s2 s3 : szeq s1 s2 -> szeq s2 s3 -> szeq s1 s3.
Proof. intros A B x. rewrite B, A. reflexivity. Qed.
Lemma szeq_heap s s' : heap s' = heap s -> szeq s s'.
Proof. intros E x. apply msg_size_same_heap. exact E. Qed.

Lemma bsum_app f l1 l2 : bsum f (l1 ++ l2) = bsum f l1 + bsum f l2.
Proof. induction l1 as [|a l IH]; cbn [app bsum]; [lia|]. rewrite IH. lia. Qed.
Lemma bsum_ext_in f g l : (forall x, In x l -> f (u_msg x) = g (u_msg x)) -> bsum f l = bsum g l.
Proof.
  induction l as [|a l IH]; intros H; cbn [bsum]; [reflexivity|]. rewrite (H a (or_introl eq_refl)), IH; [reflexivity|].
  intros x Hx. apply H. right. exact Hx.
Qed.
Lemma bsum_del f l u : NoDup (map u_tag l) -> In u l -> bsum f (filter (fun x => negb (u_tag x =? u_tag u)) l) + f (u_msg u) = bsum f l.
Proof.
  induction l as [|a r IH]; intros Hnd Hin; [destruct Hin|].
  cbn in Hnd. inversion Hnd as [|? ? Hni Hnd']; subst. cbn [filter]. destruct (u_tag a =? u_tag u) eqn:E; cbn [negb].
  - apply N.eqb_eq in E. assert (a = u).
    { destruct Hin as [->|Hin]; auto. exfalso. apply Hni. rewrite E. apply in_map. exact Hin. }
    subst a. rewrite filter_all_true; [cbn [bsum]; lia|].
    intros x Hx. apply Bool.negb_true_iff. apply N.eqb_neq. intros Ex. apply Hni. rewrite <- Ex. apply in_map. exact Hx.
  - cbn [bsum]. destruct Hin as [->|Hin]; [rewrite N.eqb_refl in E; discriminate|]. rewrite <- (IH Hnd' Hin). lia.
Qed.
Lemma bsum_orphan f tag l : bsum f (map (orphan tag) l) = bsum f l.
Proof. induction l as [|a r IH]; cbn [map bsum]; [reflexivity|]. rewrite IH. destruct (orphan_fields tag a) as (_ & -> & _). reflexivity. Qed.

Lemma bl_keep f k ch ch' : ch_unacked ch' = ch_unacked ch -> cs (ch_qos ch') = cs (ch_qos ch) -> bl f k ch -> bl f k ch'.
Proof. unfold bl. intros -> ->. auto. Qed.
Lemma bl_ext_in f g k ch : (forall x, In x (ch_unacked ch) -> f (u_msg x) = g (u_msg x)) -> bl f k ch -> bl g k ch.
Proof. unfold bl. intros E H. rewrite <- (bsum_ext_in f g _ E). exact H. Qed.

Lemma BLoff_zero f c0 h0 s : allch (BLoff f c0 h0 0) s <-> allch (BLP f) s.
Proof.
  unfold allch, BLoff, BLP. split; intros H c h ch Hg; specialize (H c h ch Hg); destruct ((c =? c0) && (h =? h0)); auto.
Qed.
Lemma BLoff_qkeep f c0 h0 k : forall c h ch ch',
  ch_unacked ch' = ch_unacked ch -> cs (ch_qos ch') = cs (ch_qos ch) -> BLoff f c0 h0 k c h ch -> BLoff f c0 h0 k c h ch'.
Proof. unfold BLoff. intros. eapply bl_keep; eauto. Qed.
Lemma BLoff_none f c0 h0 k k' s : get_chan s c0 h0 = None -> allch (BLoff f c0 h0 k) s -> allch (BLoff f c0 h0 k') s.
Proof.
  intros En H c h ch Hg. pose proof (H _ _ _ Hg) as H1. unfold BLoff in *. destruct ((c =? c0) && (h =? h0)) eqn:Eb; auto.
  apply at_other in Eb. destruct Eb; subst. congruence.
Qed.
Lemma BLoff_shift_at f s c0 h0 ka kb g ch :
  get_chan s c0 h0 = Some ch -> bl f kb (g ch) -> allch (BLoff f c0 h0 ka) s -> allch (BLoff f c0 h0 kb) (upd_chan s c0 h0 g).
Proof.
  intros Ech Hf H c h ch' Hg. rewrite get_chan_upd_chan in Hg. unfold BLoff. destruct ((c =? c0) && (h =? h0)) eqn:Eb.
  - rewrite Ech in Hg. cbn in Hg. inversion Hg; subst. exact Hf.
  - pose proof (H _ _ _ Hg) as H1. unfold BLoff in H1. rewrite Eb in H1. exact H1.
Qed.
Lemma BLoff_shift f s c0 h0 ka kb g :
  (forall ch, bl f ka ch -> bl f kb (g ch)) -> allch (BLoff f c0 h0 ka) s -> allch (BLoff f c0 h0 kb) (upd_chan s c0 h0 g).
Proof.
  intros Hf H. destruct (get_chan s c0 h0) as [ch|] eqn:Ech.
  - eapply BLoff_shift_at; eauto. apply Hf. pose proof (H _ _ _ Ech) as H1. unfold BLoff in H1. rewrite !N.eqb_refl in H1. exact H1.
  - unfold upd_chan. rewrite Ech. eapply BLoff_none; eauto.
Qed.

(* primitives that keep every channel's unsettled list and window bytes *)
Section QGen.
Variable P : N -> N -> channel -> Prop.
Hypothesis P_qkeep : forall c h ch ch', ch_unacked ch' = ch_unacked ch -> cs (ch_qos ch') = cs (ch_qos ch) -> P c h ch -> P c h ch'.

Ltac qkeep := apply allch_upd_chan; [intros ch0 Hch0; eapply P_qkeep; [..|exact Hch0]; reflexivity|].
Ltac qset Ech H := apply allch_set_chan; [eapply P_qkeep; [..|exact (H _ _ _ Ech)]; reflexivity|].

Lemma Q_wake s c h tag : allch P s -> allch P (fst (wake_consumer s c h tag)).
Proof.
  intros H. unfold wake_consumer. destruct (get_chan s c h) as [ch|] eqn:E; auto.
  destruct (find_consumer ch tag) as [cm|]; auto. destruct (consume_msg cm) as [cm' b]. cbn [fst]. qset E H. exact H.
Qed.
Lemma Q_consumer_stop s c h tag : allch P s -> allch P (consumer_stop s c h tag).
Proof.
  intros H. unfold consumer_stop. destruct (get_chan s c h) as [ch|] eqn:E; auto.
  destruct (find_consumer ch tag) as [cm|]; auto.
  destruct (c_status cm); auto; (eapply allch_same_conns; [apply (proj2 (proj2 (proj2 conns_queue_ops)))|]); (qset E H; exact H).
Qed.
Lemma Q_wake_all s c h : allch P s -> allch P (wake_all_of_chan s c h).
Proof. intros H. unfold wake_all_of_chan. qkeep. exact H. Qed.
Lemma Q_wake_consumers cfg s c h : allch P s -> allch P (wake_consumers cfg s c h).
Proof.
  intros H. unfold wake_consumers. pose proof (Q_wake_all s c h H) as H1.
  destruct (cfg_rabbit cfg); auto. destruct (get_conn _ c) as [cn|]; auto.
  apply fold_left_preserves; auto. intros s0 x H0. destruct (fst x =? h); auto. apply Q_wake_all; auto.
Qed.
Lemma Q_chan_ackmsg s u : allch P s -> allch P (chan_ackmsg s u).
Proof. intros H. unfold chan_ackmsg. destruct (origin_queue s u); repeat same_conns; auto. Qed.
Lemma Q_chan_rejectmsg s u r : allch P s -> allch P (chan_rejectmsg s u r).
Proof. intros H. unfold chan_rejectmsg. destruct (origin_queue s u); [destruct r|]; repeat same_conns; auto. Qed.
Lemma Q_cancel_fold l : forall s evs, allch P s ->
  allch P (fst (fold_left (fun acc x => let '(s, evs) := acc in let '(s', e) := consumer_cancel s x in (s', evs ++ e)) l (s, evs))).
Proof. induction l as [|[[c h] tag] t IH]; intros s evs H; simpl; auto. apply IH. apply Q_consumer_stop; auto. Qed.
Lemma Q_vhost_delete_queue b s qn iu ie : allch P s -> allch P (fst (fst (vhost_delete_queue b s qn iu ie))).
Proof.
  intros H. unfold vhost_delete_queue. destruct (get_queue s qn) as [qu|] eqn:Eq; auto.
  destruct (_ || _).
  - cbn [fst]. destruct b; [eapply allch_same_conns; [apply conns_set_queue|exact H]|exact H].
  - pose proof (Q_cancel_fold (q_consumers qu) s [] H) as Hf.
    destruct (fold_left _ (q_consumers qu) (s, [])) as [s1 e1]. cbn [fst] in *.
    repeat (first [ assumption | match goal with |- allch _ (if ?b then _ else _) => destruct b end | same_conns ]).
Qed.
Lemma Q_add_confirm s c h t : allch P s -> allch P (add_confirm s c h t).
Proof.
  intros H. unfold add_confirm. destruct (get_chan s c h) as [ch|] eqn:E; auto. destruct (negb _); auto.
  destruct (ch_status ch) eqn:Es; auto; destruct t as [[[? ?] ?]|]; auto; (qset E H; exact H).
Qed.
Lemma Q_tick s c h ch : get_chan s c h = Some ch -> allch P s ->
  allch P (set_chan s c h (ch <| ch_ticker := false |>)) /\ allch P (set_chan s c h (ch <| ch_confirmq := [] |>)).
Proof. intros E H. split; (qset E H; exact H). Qed.
End QGen.

(* ... and the sizes in the heap *)
Lemma heap_wake_consumer s c h tag : heap (fst (wake_consumer s c h tag)) = heap s.
Proof.
  unfold wake_consumer. destruct (get_chan s c h) as [ch|]; auto. destruct (find_consumer ch tag) as [cm|]; auto.
  destruct (consume_msg cm). cbn [fst]. apply heap_set_chan'.
Qed.
Lemma heap_queue_remove_consumer s qn c h tag : heap (queue_remove_consumer s qn c h tag) = heap s.
Proof.
  unfold queue_remove_consumer. destruct (get_queue s qn); auto. cbv zeta.
  repeat match goal with |- context [if ?b then _ else _] => destruct b end; reflexivity.
Qed.
Lemma heap_consumer_stop s c h tag : heap (consumer_stop s c h tag) = heap s.
Proof.
  unfold consumer_stop. destruct (get_chan s c h) as [ch|]; auto. destruct (find_consumer ch tag) as [cm|]; auto.
  destruct (c_status cm); auto; rewrite heap_queue_remove_consumer; apply heap_set_chan'.
Qed.
Lemma heap_wake_consumers cfg s c h : heap (wake_consumers cfg s c h) = heap s.
Proof.
  unfold wake_consumers, wake_all_of_chan. destruct (cfg_rabbit cfg); [apply heap_upd_chan|].
  destruct (get_conn _ c) as [cn|]; [|apply heap_upd_chan].
  match goal with |- heap (fold_left ?F ?l ?st) = _ => assert (H : forall l0 st0, heap (fold_left F l0 st0) = heap st0) end.
  { induction l0 as [|x t IH]; intros st0; simpl; auto. rewrite IH. destruct (fst x =? h); auto. apply heap_upd_chan. }
  rewrite H. apply heap_upd_chan.
Qed.
Lemma heap_queue_ackmsg s qn u : heap (queue_ackmsg s qn u) = heap s.
Proof.
  unfold queue_ackmsg. destruct (get_queue s qn); auto. destruct (get_msg s u); auto. destruct (negb _); auto.
  cbv zeta. destruct (_ && _)%bool; reflexivity.
Qed.
Lemma szeq_queue_requeue s qn u : szeq s (queue_requeue s qn u).
Proof.
  intros x. unfold queue_requeue. destruct (get_queue s qn) as [qu|]; auto. destruct (negb _); auto. cbv zeta.
  match goal with |- msg_size (set_queue ?st _ _) x = _ => transitivity (msg_size st x); [apply msg_size_same_heap; reflexivity|] end.
  match goal with |- msg_size (?st <| srv_ready ::= _ |> <| srv_unacked ::= _ |>) x = _ => transitivity (msg_size st x); [apply msg_size_same_heap; reflexivity|] end.
  rewrite msg_size_upd_msg by reflexivity. apply msg_size_same_heap. apply store_writeback_frame.
Qed.
Lemma szeq_chan_ackmsg s u : szeq s (chan_ackmsg s u).
Proof. unfold chan_ackmsg. destruct (origin_queue s u); apply szeq_heap; [apply heap_queue_ackmsg|reflexivity]. Qed.
Lemma szeq_chan_rejectmsg s u r : szeq s (chan_rejectmsg s u r).
Proof.
  unfold chan_rejectmsg. destruct (origin_queue s u); [destruct r|]; [apply szeq_queue_requeue|apply szeq_heap, heap_queue_ackmsg|apply szeq_heap; reflexivity].
Qed.
Lemma heap_dec_qos cfg s c h u : heap (dec_qos_and_consume_next cfg s c h u) = heap s.
Proof.
  unfold dec_qos_and_consume_next. destruct (get_chan s c h) as [ch|]; auto. rewrite heap_wake_consumers.
  destruct (find_consumer ch (u_ctag u)); [destruct (cfg_rabbit cfg)|]; rewrite ?heap_upd_chan; auto;
    (destruct (get_conn _ c); cbn [heap set]; rewrite ?heap_upd_chan; reflexivity).
Qed.
Lemma heap_store_windows cfg s c h tag ws : heap (store_windows cfg s c h tag ws) = heap s.
Proof.
  unfold store_windows. destruct ws as [|w1 [|w2 [|]]]; auto.
  destruct (cfg_rabbit cfg); rewrite ?heap_upd_chan; auto. destruct (get_conn _ c); cbn [heap set]; rewrite ?heap_upd_chan; reflexivity.
Qed.

Definition SZ (f : N -> N) (s : state) : Prop := forall x, msz s x = f x.
Lemma SZ_szeq f s s' : szeq s s' -> SZ f s -> SZ f s'.
Proof. intros E H x. unfold msz. rewrite E. apply H. Qed.
Lemma SZ_self s : SZ (msz s) s. Proof. intros x. reflexivity. Qed.

Lemma szeq_fold {A} (g : state -> A -> state) l : (forall s u, szeq s (g s u)) -> forall s, szeq s (fold_left g l s).
Proof. intros Hg. induction l as [|a t IH]; intros s; cbn [fold_left]; [apply szeq_refl|]. eapply szeq_trans; [apply Hg|apply IH]. Qed.
Lemma szeq_upd_chan s c h f : szeq s (upd_chan s c h f).
Proof. apply szeq_heap, heap_upd_chan. Qed.

Lemma szeq_handle_ack cfg s c h tag mult : szeq s (fst (handle_ack cfg s c h tag mult)).
Proof.
  unfold handle_ack. destruct (get_chan s c h) as [ch|]; [|apply szeq_refl]. destruct mult.
  - cbn [fst]. eapply szeq_trans; [|apply szeq_fold; intros; apply szeq_heap, heap_dec_qos].
    apply szeq_fold. intros s0 u. eapply szeq_trans; [apply szeq_upd_chan|apply szeq_chan_ackmsg].
  - destruct (find _ _); cbn [fst]; [|apply szeq_refl].
    eapply szeq_trans; [|apply szeq_heap, heap_dec_qos]. eapply szeq_trans; [apply szeq_upd_chan|apply szeq_chan_ackmsg].
Qed.
Lemma szeq_handle_reject cfg s c h tag mult requeue cls mth : szeq s (fst (handle_reject cfg s c h tag mult requeue cls mth)).
Proof.
  unfold handle_reject. destruct (get_chan s c h) as [ch|]; [|apply szeq_refl]. destruct mult.
  - cbn [fst]. eapply szeq_trans; [|apply szeq_fold; intros; apply szeq_heap, heap_dec_qos].
    apply szeq_fold. intros s0 u. eapply szeq_trans; [apply szeq_upd_chan|apply szeq_chan_rejectmsg].
  - destruct (find _ _); cbn [fst]; [|apply szeq_refl].
    eapply szeq_trans; [|apply szeq_heap, heap_dec_qos]. eapply szeq_trans; [apply szeq_upd_chan|apply szeq_chan_rejectmsg].
Qed.

Section BKeep.
Variables (f : N -> N) (c0 h0 : N) (k : N).
Definition BO_wake := Q_wake (BLoff f c0 h0 k) (BLoff_qkeep f c0 h0 k).
Definition BO_wake_consumers := Q_wake_consumers (BLoff f c0 h0 k) (BLoff_qkeep f c0 h0 k).
Definition BO_chan_ackmsg := Q_chan_ackmsg (BLoff f c0 h0 k).
Definition BO_chan_rejectmsg := Q_chan_rejectmsg (BLoff f c0 h0 k).
End BKeep.

Lemma B_del f s c0 h0 k u ch :
  get_chan s c0 h0 = Some ch -> NoDup (map u_tag (ch_unacked ch)) -> In u (ch_unacked ch) ->
  allch (BLoff f c0 h0 k) s -> allch (BLoff f c0 h0 (k + f (u_msg u))) (upd_chan s c0 h0 (fun ch => del_unacked ch (u_tag u))).
Proof.
  intros Ech Hnd Hin H. eapply BLoff_shift_at; eauto.
  pose proof (H _ _ _ Ech) as H1. unfold BLoff in H1. rewrite !N.eqb_refl in H1. cbn [andb] in H1.
  unfold bl, del_unacked in *. cbn [ch_unacked ch_qos set]. pose proof (bsum_del f (ch_unacked ch) u Hnd Hin). lia.
Qed.

Lemma B_dec cfg f s c0 h0 k u :
  msz s (u_msg u) = f (u_msg u) ->
  allch (BLoff f c0 h0 (k + f (u_msg u))) s -> allch (BLoff f c0 h0 k) (dec_qos_and_consume_next cfg s c0 h0 u).
Proof.
  intros Hsz H. unfold dec_qos_and_consume_next. destruct (get_chan s c0 h0) as [ch|] eqn:Ech; [|eapply BLoff_none; eauto].
  apply BO_wake_consumers.
  assert (H1 : allch (BLoff f c0 h0 k) (upd_chan s c0 h0 (fun ch => ch <| ch_qos ::= fun w => qos_dec w (msg_size s (u_msg u) mod two32) |>))).
  { apply (BLoff_shift f s c0 h0 (k + f (u_msg u)) k); auto. intros ch1 Hl. unfold bl in *. cbn. rewrite Hl.
    change (msg_size s (u_msg u) mod two32) with (msz s (u_msg u)). rewrite Hsz.
    destruct (bsum f (ch_unacked ch1) + (k + f (u_msg u)) <? f (u_msg u)) eqn:E; [apply N.ltb_lt in E; lia|lia]. }
  destruct (find_consumer ch (u_ctag u)).
  - destruct (cfg_rabbit cfg).
    + apply allch_upd_chan; auto.
    + destruct (get_conn _ c0) eqn:Ec; auto. eapply allch_set_conn_qos; eauto.
  - destruct (get_conn _ c0) eqn:Ec; auto. eapply allch_set_conn_qos; eauto.
Qed.

Section BSettle.
Variables (f : N -> N) (c0 h0 : N).
Variable g : state -> unacked -> state.
Hypothesis g_eq : forall s u, exists s1, s1 = upd_chan s c0 h0 (fun ch => del_unacked ch (u_tag u)) /\
  (forall k, allch (BLoff f c0 h0 k) s1 -> allch (BLoff f c0 h0 k) (g s u)) /\ U (g s u) c0 h0 = U s1 c0 h0.

Lemma B_fold_del sel : forall s k,
  NoDup (map u_tag sel) -> (forall u, In u sel -> In u (U s c0 h0)) -> NoDup (map u_tag (U s c0 h0)) ->
  allch (BLoff f c0 h0 k) s -> allch (BLoff f c0 h0 (k + bsum f sel)) (fold_left g sel s).
Proof.
  induction sel as [|a t IH]; intros s k Hnd Hin Hu H; cbn [fold_left bsum].
  - rewrite N.add_0_r. exact H.
  - cbn in Hnd. inversion Hnd as [|? ? Hni Hnd']; subst.
    destruct (g_eq s a) as (s1 & Es1 & Hk & HU).
    assert (Ha : In a (U s c0 h0)) by (apply Hin; left; reflexivity).
    destruct (get_chan s c0 h0) as [ch|] eqn:Ech; [|unfold U in Ha; rewrite Ech in Ha; destruct Ha].
    rewrite (U_some _ _ _ _ Ech) in *.
    assert (H1 : allch (BLoff f c0 h0 (k + f (u_msg a))) (g s a)).
    { apply Hk. subst s1. eapply B_del; eauto. }
    assert (HU1 : U (g s a) c0 h0 = filter (fun u => negb (u_tag u =? u_tag a)) (ch_unacked ch)).
    { rewrite HU. subst s1. rewrite del_unacked_U. rewrite (U_some _ _ _ _ Ech). reflexivity. }
    replace (k + (f (u_msg a) + bsum f t)) with ((k + f (u_msg a)) + bsum f t) by lia.
    apply IH; auto.
    + intros u Hu'. rewrite HU1. apply filter_In. split; [apply Hin; right; exact Hu'|].
      apply Bool.negb_true_iff. apply N.eqb_neq. intros E. apply Hni. rewrite <- E. apply in_map. exact Hu'.
    + rewrite HU1. apply NoDup_map_filter. exact Hu.
Qed.
End BSettle.

Lemma B_fold_dec cfg f c0 h0 sel : forall s k,
  SZ f s -> allch (BLoff f c0 h0 (k + bsum f sel)) s ->
  allch (BLoff f c0 h0 k) (fold_left (fun s u => dec_qos_and_consume_next cfg s c0 h0 u) sel s).
Proof.
  induction sel as [|a t IH]; intros s k Hs H; cbn [fold_left bsum] in *.
  - rewrite N.add_0_r in H. exact H.
  - apply IH; [eapply SZ_szeq; [apply szeq_heap, heap_dec_qos|exact Hs]|]. apply B_dec; [apply Hs|].
    replace (k + bsum f t + f (u_msg a)) with (k + (f (u_msg a) + bsum f t)) by lia. exact H.
Qed.

Theorem B_handle_ack cfg f s c h tag mult :
  SZ f s -> CI s -> allch (BLP f) s -> allch (BLP f) (fst (handle_ack cfg s c h tag mult)).
Proof.
  intros Hs Hci H. unfold handle_ack. destruct (get_chan s c h) as [ch|] eqn:Ech; auto.
  pose proof (Hci _ _ _ Ech) as [Hnd _].
  destruct mult.
  - cbn [fst]. apply (BLoff_zero f c h). apply (B_fold_dec cfg f c h _ _ 0).
    + eapply SZ_szeq; [|exact Hs]. apply szeq_fold. intros s0 u. eapply szeq_trans; [apply szeq_upd_chan|apply szeq_chan_ackmsg].
    + apply (B_fold_del f c h (fun s u => chan_ackmsg (upd_chan s c h (fun ch => del_unacked ch (u_tag u))) u)).
      * intros s0 u. eexists. split; [reflexivity|]. split; [intros k; apply BO_chan_ackmsg|apply U_chan_ackmsg].
      * apply NoDup_map_filter. exact Hnd.
      * intros u Hu. rewrite (U_some _ _ _ _ Ech). apply filter_In in Hu. tauto.
      * rewrite (U_some _ _ _ _ Ech). exact Hnd.
      * apply BLoff_zero. exact H.
  - destruct (find _ (ch_unacked ch)) as [u|] eqn:Ef; cbn [fst]; auto.
    apply find_some in Ef. destruct Ef as [Hin Et]. apply N.eqb_eq in Et. subst tag.
    apply (BLoff_zero f c h). apply B_dec.
    + rewrite <- (Hs (u_msg u)). unfold msz. f_equal. exact (szeq_trans _ _ _ (szeq_upd_chan s c h _) (szeq_chan_ackmsg _ u) (u_msg u)).
    + apply BO_chan_ackmsg. rewrite N.add_0_l. replace (f (u_msg u)) with (0 + f (u_msg u)) by lia.
      eapply B_del; eauto. apply BLoff_zero. exact H.
Qed.

Theorem B_handle_reject cfg f s c h tag mult requeue cls mth :
  SZ f s -> CI s -> allch (BLP f) s -> allch (BLP f) (fst (handle_reject cfg s c h tag mult requeue cls mth)).
Proof.
  intros Hs Hci H. unfold handle_reject. destruct (get_chan s c h) as [ch|] eqn:Ech; auto.
  pose proof (Hci _ _ _ Ech) as [Hnd _].
  destruct mult.
  - cbn [fst]. apply (BLoff_zero f c h). apply (B_fold_dec cfg f c h _ _ 0).
    + eapply SZ_szeq; [|exact Hs]. apply szeq_fold. intros s0 u. eapply szeq_trans; [apply szeq_upd_chan|apply szeq_chan_rejectmsg].
    + apply (B_fold_del f c h (fun s u => chan_rejectmsg (upd_chan s c h (fun ch => del_unacked ch (u_tag u))) u requeue)).
      * intros s0 u. eexists. split; [reflexivity|]. split; [intros k; apply BO_chan_rejectmsg|apply U_chan_rejectmsg].
      * apply NoDup_map_filter. apply NoDup_sort_desc. exact Hnd.
      * intros u Hu. rewrite (U_some _ _ _ _ Ech). apply filter_In in Hu. apply sort_desc_perm. tauto.
      * rewrite (U_some _ _ _ _ Ech). exact Hnd.
      * apply BLoff_zero. exact H.
  - destruct (find _ (ch_unacked ch)) as [u|] eqn:Ef; cbn [fst]; auto.
    apply find_some in Ef. destruct Ef as [Hin Et]. apply N.eqb_eq in Et. subst tag.
    apply (BLoff_zero f c h). apply B_dec.
    + rewrite <- (Hs (u_msg u)). unfold msz. f_equal. exact (szeq_trans _ _ _ (szeq_upd_chan s c h _) (szeq_chan_rejectmsg _ u requeue) (u_msg u)).
    + apply BO_chan_rejectmsg. rewrite N.add_0_l. replace (f (u_msg u)) with (0 + f (u_msg u)) by lia.
      eapply B_del; eauto. apply BLoff_zero. exact H.
Qed.

(* ---- deliveries ---- *)
Lemma reserve2_cs w1 w2 size r ws' :
  reserve true [w1; w2] size = (r, ws') -> cs w1 + size < two32 ->
  exists a b, ws' = [a; b] /\ cs a = match r with Some _ => cs w1 + size | None => cs w1 end.
Proof.
  intros H Hs. cbn in H. unfold qos_inc in H at 1.
  destruct (((pc w1 =? 0) || ((cc w1 + 1) mod two16 <=? pc w1)) && ((ps w1 =? 0) || ((cs w1 + size) mod two32 <=? ps w1))).
  - destruct (qos_inc w2 size) as [w2'|]; inversion H; subst; eexists _, _; (split; [reflexivity|]); cbn.
    + apply N.mod_small. exact Hs.
    + rewrite (N.mod_small _ _ Hs). destruct (cs w1 + size <? size) eqn:E; [apply N.ltb_lt in E; lia|lia].
  - inversion H; subst. eexists _, _. split; reflexivity.
Qed.

Lemma B_store_windows cfg f s c h tag a b k :
  (forall ch, get_chan s c h = Some ch -> cs a = cs (ch_qos ch) + k) ->
  allch (BLP f) s -> allch (BLoff f c h k) (store_windows cfg s c h tag [a; b]).
Proof.
  intros Ha H. unfold store_windows.
  assert (H1 : allch (BLoff f c h k) (upd_chan s c h (fun ch => ch <| ch_qos := a |>))).
  { destruct (get_chan s c h) as [ch|] eqn:Ech.
    - eapply BLoff_shift_at; eauto; [|apply BLoff_zero; exact H]. pose proof (H _ _ _ Ech) as H0. unfold BLP, bl in *. cbn. rewrite (Ha _ eq_refl). lia.
    - unfold upd_chan. rewrite Ech. apply (BLoff_none f c h 0); auto. apply BLoff_zero. exact H. }
  destruct (cfg_rabbit cfg).
  - apply allch_upd_chan; auto.
  - destruct (get_conn _ c) eqn:Ec; auto. eapply allch_set_conn_qos; eauto.
Qed.

Lemma B_append f s c h x : allch (BLoff f c h (f (u_msg x))) s -> allch (BLP f) (upd_chan s c h (fun ch => ch <| ch_unacked ::= fun l => l ++ [x] |>)).
Proof.
  intros H. apply (BLoff_zero f c h). apply (BLoff_shift f s c h (f (u_msg x)) 0); auto.
  intros ch1 Hl. unfold bl in *. cbn. rewrite bsum_app. cbn [bsum]. lia.
Qed.

Definition SmallBf (f : N -> N) (s : state) : Prop :=
  forall c h ch q qu u rest, get_chan s c h = Some ch -> get_queue s q = Some qu -> q_ready qu = u :: rest ->
    bsum f (ch_unacked ch) + f u < two32.

Definition BP_wake f := Q_wake (BLP f) (fun c h => bl_keep f 0).
Definition BP_consumer_stop f := Q_consumer_stop (BLP f) (fun c h => bl_keep f 0).
Definition BP_wake_consumers f := Q_wake_consumers (BLP f) (fun c h => bl_keep f 0).

Theorem B_consumer_turn cfg fx f s c h tag :
  cfg_rollback cfg = true -> SZ f s -> SmallBf f s -> allch (BLP f) s -> allch (BLP f) (fst (consumer_turn cfg fx s c h tag)).
Proof.
  intros Hrb Hsz Hsm H. unfold consumer_turn.
  destruct (get_chan s c h) as [ch|] eqn:Ech; auto.
  destruct (find_consumer ch tag) as [cm|] eqn:Efc; auto.
  destruct (negb (c_token cm)); auto.
  set (s0 := set_chan s c h _).
  assert (H0 : allch (BLP f) s0) by (subst s0; apply allch_set_chan; auto; exact (H _ _ _ Ech)).
  assert (Ech0 : exists ch0, get_chan s0 c h = Some ch0 /\ ch_qos ch0 = ch_qos ch /\ ch_unacked ch0 = ch_unacked ch).
  { subst s0. rewrite get_chan_set_chan. pose proof (get_chan_conn _ _ _ _ Ech) as Hc. destruct (get_conn s c); [|congruence].
    rewrite !N.eqb_refl. cbn. eexists. split; [reflexivity|]. split; reflexivity. }
  destruct Ech0 as (ch0 & Ech0 & Eq0 & Eu0).
  assert (Ecn0 : exists cn0, get_conn s0 c = Some cn0).
  { pose proof (get_chan_conn _ _ _ _ Ech0) as Hc. destruct (get_conn s0 c); [eauto|congruence]. }
  destruct Ecn0 as (cn0 & Ecn0).
  assert (Hsz0 : SZ f s0) by (subst s0; eapply SZ_szeq; [apply szeq_heap, heap_set_chan'|exact Hsz]).
  assert (Hq0 : forall q, get_queue s0 q = get_queue s q) by (intros q; subst s0; unfold get_queue; rewrite queues_set_chan; reflexivity).
  clearbody s0.
  destruct (c_status cm); auto.
  all: destruct (get_queue s0 (c_queue cm)) as [qu|] eqn:Eqq; auto.
  all: destruct (negb (q_active qu)); auto.
  all: destruct (q_ready qu) as [|u rest] eqn:Erd; auto.
  all: destruct (c_noack cm) eqn:Ena.
  all: try (cbn [fst];
            match goal with |- context [wake_consumer ?st ?c0 ?h0 ?tag0] => destruct (wake_consumer st c0 h0 tag0) as [s9 b9] eqn:Ew;
              apply fst_pair in Ew; cbn [fst]; subst s9; apply BP_wake end;
            repeat (first [ assumption | same_conns | match goal with |- allch _ (if ?b then _ else _) => destruct b end
                          | apply allch_upd_chan; [intros; assumption|] ]); fail).
  all: destruct (window_list_first cfg s0 c h cm ch0 cn0 Ech0 Ecn0) as (w2 & Ewl); rewrite Ewl, Hrb.
  all: change (msg_size s0 u mod two32) with (msz s0 u); rewrite (Hsz0 u).
  all: destruct (reserve true [ch_qos ch0; w2] (f u)) as [okr ws] eqn:Er.
  all: assert (Hcs : cs (ch_qos ch0) + f u < two32)
         by (pose proof (H0 _ _ _ Ech0) as Hl; unfold BLP, bl in Hl; rewrite Hl, Eu0, N.add_0_r; rewrite Hq0 in Eqq; exact (Hsm _ _ _ _ _ _ _ Ech Eqq Erd)).
  all: destruct (reserve2_cs _ _ _ _ _ Er Hcs) as (a & b & -> & Ha).
  all: destruct okr as [l|]; cbn [fst].
  all: try (apply (BLoff_zero f c h); apply B_store_windows; auto; intros chx Hx; rewrite Ech0 in Hx; inversion Hx; subst; rewrite Ha; lia).
  all: match goal with |- context [wake_consumer ?st ?c0 ?h0 ?tag0] => destruct (wake_consumer st c0 h0 tag0) as [s9 b9] eqn:Ew;
         apply fst_pair in Ew; cbn [fst]; subst s9; apply BP_wake end.
  all: repeat same_conns.
  all: apply B_append.
  all: apply allch_upd_chan; [intros; assumption|].
  all: repeat same_conns.
  all: apply B_store_windows; auto; intros chx Hx; rewrite Ech0 in Hx; inversion Hx; subst; rewrite Ha; reflexivity.
Qed.

Lemma heap_consumer_turn cfg fx s c h tag : heap (fst (consumer_turn cfg fx s c h tag)) = heap s.
Proof.
  unfold consumer_turn. destruct (get_chan s c h) as [ch|]; auto. destruct (find_consumer ch tag) as [cm|]; auto.
  destruct (negb (c_token cm)); auto.
  set (s0 := set_chan s c h _). assert (E0 : heap s0 = heap s) by (subst s0; apply heap_set_chan'). clearbody s0.
  destruct (c_status cm); auto.
  all: destruct (get_queue s0 (c_queue cm)) as [qu|]; auto.
  all: destruct (negb (q_active qu)); auto.
  all: destruct (q_ready qu) as [|u rest]; auto.
  all: match goal with |- context [if c_noack ?cm0 then (Some [], []) else ?r] => destruct (if c_noack cm0 then (Some [], []) else r) as [okr ws] end.
  all: destruct okr; cbn [fst]; [|destruct (c_noack cm); rewrite ?heap_store_windows; exact E0].
  all: match goal with |- context [wake_consumer ?st ?c0 ?h0 ?tag0] => destruct (wake_consumer st c0 h0 tag0) as [s9 b9] eqn:Ew;
         apply fst_pair in Ew; cbn [fst]; subst s9; rewrite heap_wake_consumer end.
  all: destruct (c_noack cm); try destruct (fx_noack_total_once fx).
  all: repeat first [ rewrite heap_upd_queue | rewrite heap_upd_chan | rewrite heap_queue_ackmsg | rewrite heap_store_windows | progress cbn [heap set] ].
  all: exact E0.
Qed.

Lemma B_channel_close cfg f s c h : SZ f s -> CI s -> allch (BLP f) s -> allch (BLP f) (channel_close cfg s c h).
Proof.
  intros Hs Hci H. unfold channel_close. destruct (get_chan s c h) as [ch|] eqn:Ech; auto.
  apply allch_upd_chan; [intros; assumption|].
  set (s2 := upd_chan (fold_left (fun s cm => consumer_stop s c h (c_tag cm)) (ch_consumers ch) s) c h (fun ch => ch <| ch_consumers := [] |>)).
  assert (H2 : allch (BLP f) s2).
  { subst s2. apply allch_upd_chan; [intros; assumption|]. apply fold_left_preserves; auto. intros; apply BP_consumer_stop; auto. }
  assert (C2 : CI s2).
  { subst s2. apply allch_upd_chan; [intros ch0 Hc0; eapply chinvp_set; [..|exact Hc0]; reflexivity|].
    apply fold_left_preserves; auto. intros; apply CI_consumer_stop; auto. }
  assert (S2 : SZ f s2).
  { subst s2. eapply SZ_szeq; [|exact Hs]. eapply szeq_trans; [|apply szeq_upd_chan].
    apply szeq_fold. intros s0 cm. apply szeq_heap, heap_consumer_stop. }
  clearbody s2. destruct (0 <? h); auto. apply B_handle_reject; auto.
Qed.
Lemma szeq_channel_close cfg s c h : szeq s (channel_close cfg s c h).
Proof.
  unfold channel_close. destruct (get_chan s c h) as [ch|]; [|apply szeq_refl].
  eapply szeq_trans; [|apply szeq_upd_chan].
  assert (E2 : szeq s (upd_chan (fold_left (fun s cm => consumer_stop s c h (c_tag cm)) (ch_consumers ch) s) c h (fun ch => ch <| ch_consumers := [] |>))).
  { eapply szeq_trans; [|apply szeq_upd_chan]. apply szeq_fold. intros s0 cm. apply szeq_heap, heap_consumer_stop. }
  destruct (0 <? h); [|exact E2]. eapply szeq_trans; [exact E2|apply szeq_handle_reject].
Qed.

Lemma heap_cancel_fold l : forall s evs,
  heap (fst (fold_left (fun acc x => let '(s, evs) := acc in let '(s', e) := consumer_cancel s x in (s', evs ++ e)) l (s, evs))) = heap s.
Proof. induction l as [|[[c h] tag] t IH]; intros s evs; simpl; auto. rewrite IH. apply heap_consumer_stop. Qed.
Lemma heap_vhost_delete_queue b s qn iu ie : heap (fst (fst (vhost_delete_queue b s qn iu ie))) = heap s.
Proof.
  unfold vhost_delete_queue. destruct (get_queue s qn) as [qu|]; auto. destruct (_ || _).
  - cbn [fst]. destruct b; reflexivity.
  - pose proof (heap_cancel_fold (q_consumers qu) s []) as Hf.
    destruct (fold_left _ (q_consumers qu) (s, [])) as [s1 e1]. cbn [fst] in *. destruct (q_durable qu); cbn [heap set]; exact Hf.
Qed.
Lemma heap_add_confirm s c h t : heap (add_confirm s c h t) = heap s.
Proof.
  unfold add_confirm. destruct (get_chan s c h) as [ch|]; auto. destruct (negb _); auto.
  destruct (ch_status ch); auto; destruct t as [[[? ?] ?]|]; auto; apply heap_set_chan'.
Qed.
Lemma heap_ensure_chan s c h : heap (ensure_chan s c h) = heap s /\ next_uid (ensure_chan s c h) = next_uid s.
Proof. unfold ensure_chan. destruct (get_conn s c) as [cn|]; auto. destruct (alookup _ _ _); auto. Qed.
Lemma heap_set_stage s c st : heap (set_stage s c st) = heap s.
Proof. unfold set_stage. destruct (get_conn s c); reflexivity. Qed.

Lemma BL_lift s s' : szeq s s' -> allch (BLP (msz s)) s' -> BL s'.
Proof.
  intros E H c h ch Hg. apply (bl_ext_in (msz s)); [|exact (H _ _ _ Hg)]. intros x _. unfold msz. rewrite E. reflexivity.
Qed.
Lemma bl_channel0 f : bl f 0 channel0. Proof. reflexivity. Qed.

(* every unsettled delivery names a message that was allocated earlier and, if it is (still) in the heap, is complete *)
Definition UC (s : state) : Prop := forall c h ch x, get_chan s c h = Some ch -> In x (ch_unacked ch) ->
  u_msg x < next_uid s /\ (forall m, get_msg s (u_msg x) = Some m -> m_size m = m_hsize m).
Definition SmallB (s : state) : Prop := SmallBf (msz s) s.

Ltac bkeepq := apply allch_upd_chan; [intros; assumption|].
Ltac bsetq Ech H := apply allch_set_chan; [exact (H _ _ _ Ech)|].

(* with the sizes of the state before the handler *)
Theorem Bf_handle_method cfg fx f s c h m :
  cfg_rollback cfg = true -> SZ f s -> SmallBf f s -> CI s -> allch (BLP f) s -> allch (BLP f) (fst (fst (handle_method cfg fx s c h m))).
Proof.
  intros Hrb Hsz Hsm Hci H. unfold handle_method.
  destruct (get_chan s c h) as [ch|] eqn:Hch; [|exact H].
  destruct m; unfold ok, refuse.
  - destruct (ch_status ch); cbn [fst]; auto.
    + bsetq Hch H. auto.
    + bsetq Hch H. auto.
    + apply allch_set_chan; auto. destruct (fx_reopen_resets fx); [reflexivity|exact (H _ _ _ Hch)].
  - cbn [fst]. apply B_channel_close; auto.
  - cbn [fst]. destruct (fx_closeok_releases fx); [apply B_channel_close; auto|bsetq Hch H; auto].
  - cbn [fst]. destruct (Bool.eqb _ _); auto. destruct a; (bsetq Hch H; auto).
  - destruct (extype_of type); [|exact H].
    repeat match goal with |- context [if ?b then _ else _] => destruct b end; cbn [fst]; auto.
    all: repeat match goal with |- context [match ?x with _ => _ end] => destruct x end; cbn [fst]; auto.
    all: try (same_conns; auto).
  - destruct (fx_not_impl fx); exact H.
  - destruct (seqb name ""); [exact H|].
    destruct (queue_found s name) as [qu|].
    + repeat match goal with |- context [if ?b then _ else _] => destruct b end; cbn [fst]; auto.
    + destruct passive; [destruct nowait; exact H|]. cbn [fst]. repeat same_conns. auto.
  - destruct (alookup _ _ _); [|exact H]. destruct (seqb ex ""); [exact H|].
    destruct (queue_found s q); [|exact H]. destruct (locked _ _); [exact H|]. destruct (bad_xmatch _); [exact H|]. destruct (extype_eqb _ ExTopic && bad_pattern _)%bool; [exact H|]. cbn [fst]. same_conns. auto.
  - destruct (alookup _ _ _); [|exact H]. destruct (queue_found s q); [|exact H]. destruct (locked _ _); [exact H|]. destruct (bad_xmatch _); [exact H|]. destruct (extype_eqb _ ExTopic && bad_pattern _)%bool; [exact H|]. cbn [fst]. same_conns. auto.
  - destruct (queue_found s q) as [qu|]; [|exact H]. destruct (locked _ _); [exact H|]. cbn [fst].
    repeat (first [assumption | same_conns | match goal with |- allch _ (if ?b then _ else _) => destruct b end]).
  - destruct (queue_found s q); [|exact H]. destruct (locked _ _); [exact H|].
    pose proof (Q_vhost_delete_queue (BLP f) (fun c h => bl_keep f 0) (negb (fx_delete_checks_first fx)) s q ifunused ifempty H) as Hd.
    destruct (vhost_delete_queue _ s q ifunused ifempty) as [[s1 e1] r1]. cbn [fst] in *. destruct r1; exact Hd.
  - (* MQos: Update keeps the counts *)
    cbn [fst]. apply BP_wake_consumers. destruct (cfg_rabbit cfg); [destruct glob; (bsetq Hch H; auto)|].
    destruct glob; [|bsetq Hch H; auto]. destruct (get_conn s c) eqn:Ec; auto. eapply allch_set_conn_qos; eauto.
  - destruct imm; [exact H|]. destruct (alookup _ _ _); [|exact H].
    destruct (ch_confirm ch); cbn [fst]; (bsetq Hch H; repeat same_conns; auto).
  - destruct (queue_found s q) as [qu|]; [|exact H].
    destruct (fx_excl_owner fx && locked qu c); [exact H|].
    destruct (find_consumer ch _); [exact H|].
    destruct (_ && _)%bool; cbn [fst].
    + same_conns. auto.
    + bsetq Hch H. destruct (seqb tag ""%string); repeat same_conns; auto.
  - destruct (find_consumer ch tag); [|exact H]. cbn [fst].
    apply allch_upd_chan; [intros ch0 Hc0; unfold BLP, bl in *; cbn; rewrite bsum_orphan; exact Hc0|].
    bkeepq. apply BP_consumer_stop. exact H.
  - (* MGet *)
    destruct (queue_found s q) as [qu|] eqn:Eqf; [|exact H].
    destruct (fx_excl_owner fx && locked qu c); [exact H|].
    destruct (q_ready qu) as [|u rest] eqn:Erd; [exact H|].
    destruct noack.
    + cbn [fst]. repeat (first [ assumption | same_conns | match goal with |- allch _ (if ?b then _ else _) => destruct b end | bkeepq ]).
    + rewrite Hrb. change (msg_size s u mod two32) with (msz s u). rewrite (Hsz u).
      destruct (reserve true [ch_qos ch; match get_conn s c with Some cn => cn_qos cn | None => qos0 end] (f u)) as [okr ws] eqn:Er.
      assert (Hcs : cs (ch_qos ch) + f u < two32).
      { pose proof (H _ _ _ Hch) as Hl. unfold BLP, bl in Hl. rewrite Hl, N.add_0_r. apply (Hsm _ _ _ q qu u rest Hch); auto.
        unfold queue_found in Eqf. destruct (get_queue s q) as [qu0|]; [|discriminate]. destruct (q_active qu0); inversion Eqf; subst. reflexivity. }
      destruct (reserve2_cs _ _ _ _ _ Er Hcs) as (a & b & -> & Ha).
      set (s1 := let s0 := set_chan s c h (ch <| ch_qos := a |>) in match get_conn s0 c with Some cn => s0 <| conns := aset N.eqb c (cn <| cn_qos := b |>) (conns s0) |> | None => s0 end).
      assert (H1 : allch (BLoff f c h (match okr with Some _ => f u | None => 0 end)) s1).
      { assert (Hs0 : allch (BLoff f c h (match okr with Some _ => f u | None => 0 end)) (set_chan s c h (ch <| ch_qos := a |>))).
        { intros c' h' ch' Hg. rewrite get_chan_set_chan in Hg. pose proof (get_chan_conn _ _ _ _ Hch) as Hc. destruct (get_conn s c); [|congruence].
          unfold BLoff. destruct ((c' =? c) && (h' =? h)) eqn:Eb.
          - inversion Hg; subst. unfold bl. cbn. pose proof (H _ _ _ Hch) as Hl. unfold BLP, bl in Hl. rewrite Ha. destruct okr; lia.
          - apply (H _ _ _ Hg). }
        subst s1. cbv zeta. destruct (get_conn (set_chan s c h (ch <| ch_qos := a |>)) c) as [cn1|] eqn:Ec; [|exact Hs0].
        exact (allch_set_conn_qos _ _ c cn1 (fun _ => b) Ec Hs0). }
      fold s1. clearbody s1.
      destruct okr; cbn [fst]; [|apply (BLoff_zero f c h); exact H1].
      same_conns. same_conns.
      apply B_append. repeat same_conns. apply allch_upd_chan; [intros; assumption|]. same_conns. exact H1.
  - apply B_handle_ack with (cfg := cfg) (c := c) (h := h) (tag := tag) (mult := mult) in H; auto.
    destruct (handle_ack cfg s c h tag mult) as [s1 e1]. exact H.
  - apply B_handle_reject with (cfg := cfg) (c := c) (h := h) (tag := tag) (mult := mult) (requeue := requeue) (cls := 60) (mth := 120) in H; auto.
    destruct (handle_reject cfg s c h tag mult requeue 60 120) as [s1 e1]. exact H.
  - apply B_handle_reject with (cfg := cfg) (c := c) (h := h) (tag := tag) (mult := false) (requeue := requeue) (cls := 60) (mth := 90) in H; auto.
    destruct (handle_reject cfg s c h tag false requeue 60 90) as [s1 e1]. exact H.
  - exact H.
  - cbn [fst]. bsetq Hch H. auto.
  - destruct (fx_not_impl fx); exact H.
  - exact H.
  - exact H.
  - destruct good; [cbn [fst]; apply allch_set_stage; exact H|exact H].
  - destruct within; [cbn [fst]; apply allch_set_stage; exact H|exact H].
  - destruct vhost_ok; [cbn [fst]; apply allch_set_stage; exact H|exact H].
Qed.

Definition is_publish (m : meth) : bool := match m with MPublish _ _ _ _ => true | _ => false end.

Ltac hp := repeat first [ rewrite heap_upd_queue | rewrite heap_upd_chan | rewrite heap_queue_ackmsg | rewrite heap_set_chan'
                        | rewrite heap_store_windows | rewrite heap_wake_consumer | rewrite heap_wake_consumers
                        | rewrite heap_consumer_stop | rewrite heap_set_stage | rewrite heap_vhost_delete_queue
                        | progress cbn [heap set fst] ]; try reflexivity.

Lemma szeq_handle_method cfg fx s c h m : is_publish m = false -> szeq s (fst (fst (handle_method cfg fx s c h m))).
Proof.
  intros Hp. unfold handle_method.
  destruct (get_chan s c h) as [ch|] eqn:Hch; [|apply szeq_refl].
  destruct m; unfold ok, refuse; try discriminate Hp.
  - destruct (ch_status ch); cbn [fst]; try apply szeq_refl; apply szeq_heap; hp.
  - cbn [fst]. apply szeq_channel_close.
  - cbn [fst]. destruct (fx_closeok_releases fx); [apply szeq_channel_close|apply szeq_heap; hp].
  - cbn [fst]. destruct (Bool.eqb _ _); [apply szeq_refl|]. destruct a; apply szeq_heap; hp.
  - destruct (extype_of type); [|apply szeq_refl].
    repeat match goal with |- context [if ?b then _ else _] => destruct b end; cbn [fst]; try apply szeq_refl.
    all: repeat match goal with |- context [match ?x with _ => _ end] => destruct x end; cbn [fst]; try apply szeq_refl.
    all: apply szeq_heap; reflexivity.
  - destruct (fx_not_impl fx); apply szeq_refl.
  - destruct (seqb name ""); [apply szeq_refl|].
    destruct (queue_found s name) as [qu|].
    + repeat match goal with |- context [if ?b then _ else _] => destruct b end; cbn [fst]; apply szeq_refl.
    + destruct passive; [destruct nowait; apply szeq_refl|]. cbn [fst]. apply szeq_heap. reflexivity.
  - destruct (alookup _ _ _); [|apply szeq_refl]. destruct (seqb ex ""); [apply szeq_refl|].
    destruct (queue_found s q); [|apply szeq_refl]. destruct (locked _ _); [apply szeq_refl|]. destruct (bad_xmatch _); [apply szeq_refl|]. destruct (extype_eqb _ ExTopic && bad_pattern _)%bool; [apply szeq_refl|]. apply szeq_heap; reflexivity.
  - destruct (alookup _ _ _); [|apply szeq_refl]. destruct (queue_found s q); [|apply szeq_refl]. destruct (locked _ _); [apply szeq_refl|].
    destruct (bad_xmatch _); [apply szeq_refl|]. destruct (extype_eqb _ ExTopic && bad_pattern _)%bool; [apply szeq_refl|]. apply szeq_heap; reflexivity.
  - destruct (queue_found s q) as [qu|]; [|apply szeq_refl]. destruct (locked _ _); [apply szeq_refl|]. cbn [fst].
    apply szeq_heap. destruct (q_durable qu); reflexivity.
  - destruct (queue_found s q); [|apply szeq_refl]. destruct (locked _ _); [apply szeq_refl|].
    pose proof (heap_vhost_delete_queue (negb (fx_delete_checks_first fx)) s q ifunused ifempty) as Hd.
    destruct (vhost_delete_queue _ s q ifunused ifempty) as [[s1 e1] r1]. cbn [fst] in *. destruct r1; apply szeq_heap; exact Hd.
  - cbn [fst]. apply szeq_heap. rewrite heap_wake_consumers.
    destruct (cfg_rabbit cfg); [destruct glob; hp|]. destruct glob; [|hp]. destruct (get_conn s c); reflexivity.
  - destruct (queue_found s q) as [qu|]; [|apply szeq_refl].
    destruct (fx_excl_owner fx && locked qu c); [apply szeq_refl|].
    destruct (find_consumer ch _); [apply szeq_refl|].
    destruct (_ && _)%bool; cbn [fst]; apply szeq_heap; [reflexivity|]. rewrite heap_set_chan'. destruct (seqb tag ""%string); reflexivity.
  - destruct (find_consumer ch tag); [|apply szeq_refl]. cbn [fst]. apply szeq_heap. hp.
  - (* MGet *)
    destruct (queue_found s q) as [qu|]; [|apply szeq_refl].
    destruct (fx_excl_owner fx && locked qu c); [apply szeq_refl|].
    destruct (q_ready qu) as [|u rest]; [apply szeq_refl|].
    match goal with |- context [if noack then (Some [], []) else ?r] => destruct (if noack then (Some [], []) else r) as [okr ws] end.
    set (s1 := match ws with [w1; w2] => _ | _ => s end).
    assert (E1 : heap s1 = heap s).
    { subst s1. destruct ws as [|w1 [|w2 [|]]]; auto. destruct (get_conn _ c); hp. }
    clearbody s1. apply szeq_heap.
    destruct okr; cbn [fst]; [|exact E1].
    destruct noack; [destruct (fx_noack_total_once fx)|]; hp; exact E1.
  - pose proof (szeq_handle_ack cfg s c h tag mult) as Ha.
    destruct (handle_ack cfg s c h tag mult) as [s1 e1]. exact Ha.
  - pose proof (szeq_handle_reject cfg s c h tag mult requeue 60 120) as Ha.
    destruct (handle_reject cfg s c h tag mult requeue 60 120) as [s1 e1]. exact Ha.
  - pose proof (szeq_handle_reject cfg s c h tag false requeue 60 90) as Ha.
    destruct (handle_reject cfg s c h tag false requeue 60 90) as [s1 e1]. exact Ha.
  - apply szeq_refl.
  - cbn [fst]. apply szeq_heap. hp.
  - destruct (fx_not_impl fx); apply szeq_refl.
  - apply szeq_refl.
  - apply szeq_refl.
  - destruct good; [cbn [fst]; apply szeq_heap; hp|apply szeq_refl].
  - destruct within; [cbn [fst]; apply szeq_heap; hp|apply szeq_refl].
  - destruct vhost_ok; [cbn [fst]; apply szeq_heap; hp|apply szeq_refl].
Qed.

(* basic.publish allocates the next message id: no other size changes, no unsettled list changes *)
Lemma publish_frame cfg fx s c h ex key mand imm :
  let s' := fst (fst (handle_method cfg fx s c h (MPublish ex key mand imm))) in
  (forall x, x <> next_uid s -> msg_size s' x = msg_size s x) /\ (forall c' h', U s' c' h' = U s c' h').
Proof.
  cbv zeta. unfold handle_method. destruct (get_chan s c h) as [ch|] eqn:Hch; [|split; reflexivity]. unfold ok, refuse.
  destruct imm; [split; reflexivity|]. destruct (alookup _ _ _); [|split; reflexivity].
  destruct (ch_confirm ch); cbn [fst]; split.
  all: try (intros x Hx; rewrite (msg_size_same_heap _ _ x (heap_set_chan' _ c h _)); unfold msg_size, get_msg; cbn;
            rewrite (alookup_aset N.eqb Neqb_spec); destruct (x =? next_uid s) eqn:E; [apply N.eqb_eq in E; contradiction|reflexivity]).
  all: intros c' h'; rewrite U_set_chan by exact (get_chan_conn s _ _ _ Hch);
       destruct ((c' =? _) && (h' =? _)) eqn:Eb; [apply at_other in Eb; destruct Eb; subst; unfold U; rewrite Hch; reflexivity|reflexivity].
Qed.

Lemma U_in s c h x : In x (U s c h) -> exists ch, get_chan s c h = Some ch /\ In x (ch_unacked ch).
Proof. unfold U. destruct (get_chan s c h) as [ch|]; [eauto|intros []]. Qed.

Theorem BL_handle_method cfg fx s c h m :
  cfg_rollback cfg = true -> CI s -> UC s -> SmallB s -> BL s -> BL (fst (fst (handle_method cfg fx s c h m))).
Proof.
  intros Hrb Hci Huc Hsm H.
  pose proof (Bf_handle_method cfg fx (msz s) s c h m Hrb (SZ_self s) Hsm Hci H) as Hf.
  destruct (is_publish m) eqn:Ep; [|eapply BL_lift; [apply szeq_handle_method; exact Ep|exact Hf]].
  destruct m; try discriminate Ep.
  destruct (publish_frame cfg fx s c h ex key mand imm) as [Hsz HU]. cbv zeta in Hsz, HU.
  intros c' h' ch' Hg. apply (bl_ext_in (msz s)); [|exact (Hf _ _ _ Hg)].
  intros x Hx. assert (Hx' : In x (U s c' h')) by (rewrite <- HU; unfold U; rewrite Hg; exact Hx).
  apply U_in in Hx'. destruct Hx' as (ch0 & Eg0 & Hx0). destruct (Huc _ _ _ _ Eg0 Hx0) as [Hlt _].
  unfold msz. rewrite Hsz; [reflexivity|lia].
Qed.

Lemma BL_body s u F m :
  get_msg s u = Some m ->
  (forall c h ch x, get_chan s c h = Some ch -> In x (ch_unacked ch) -> u_msg x = u -> m_size (F m) = m_size m) ->
  BL s -> BL (upd_msg s u F).
Proof.
  intros Em HF H c h ch Hg. rewrite (get_chan_same_conns s _ c h (conns_upd_msg s u F)) in Hg.
  apply (bl_ext_in (msz s)); [|exact (H _ _ _ Hg)]. intros x Hx. unfold msz. f_equal.
  unfold upd_msg. rewrite Em. unfold msg_size, get_msg in *. cbn. rewrite (alookup_aset N.eqb Neqb_spec).
  destruct (u_msg x =? u) eqn:E; [|reflexivity]. apply N.eqb_eq in E. rewrite E, Em. symmetry. eapply HF; eauto.
Qed.

Lemma UC_ensure s c h : UC s -> UC (ensure_chan s c h).
Proof.
  intros H c' h' ch' x Hg Hx. destruct (heap_ensure_chan s c h) as [Eh En]. unfold get_msg. rewrite Eh, En.
  apply get_chan_ensure in Hg. destruct Hg as [Hg| ->]; [exact (H _ _ _ _ Hg Hx)|destruct Hx].
Qed.
Lemma SmallB_ensure s c h : SmallB s -> SmallB (ensure_chan s c h).
Proof.
  intros H c' h' ch' q qu u rest Hg Hq Hr. destruct (heap_ensure_chan s c h) as [Eh _].
  assert (E : forall x, msz (ensure_chan s c h) x = msz s x) by (intros x; unfold msz; rewrite (msg_size_same_heap _ _ x Eh); reflexivity).
  rewrite (bsum_ext_in _ (msz s)) by (intros; apply E). rewrite E.
  unfold get_queue in Hq. rewrite queues_ensure_chan in Hq.
  apply get_chan_ensure in Hg. destruct Hg as [Hg| ->]; [exact (H _ _ _ _ _ _ _ Hg Hq Hr)|].
  cbn. unfold msz. apply N.mod_lt. unfold two32. lia.
Qed.

Definition CBY (s : state) : Prop := CI s /\ BL s.

(* one step: the byte count of every channel window equals the body bytes of the channel's unsettled deliveries *)
Theorem BL_step cfg fx s l :
  cfg_rollback cfg = true -> CI s -> UC s -> SmallB s -> BL s -> BL (fst (step cfg fx s l)).
Proof.
  intros Hrb Hci Huc Hsm H.
  assert (X : CBY (fst (step cfg fx s l))); [|exact (proj2 X)].
  apply (D_step cfg fx CBY).
  - intros s0 s' E Esz [A B]. split; [eapply allch_same_conns; eauto|]. eapply BL_lift; [exact Esz|eapply allch_same_conns; eauto].
  - intros s0 c h [A B]. split; [apply CI_channel_close; auto|].
    eapply BL_lift; [apply szeq_channel_close|apply B_channel_close; auto; apply SZ_self].
  - intros b s0 qn iu ie [A B]. split; [apply CI_vhost_delete_queue; auto|].
    eapply BL_lift; [apply szeq_heap, heap_vhost_delete_queue|apply (Q_vhost_delete_queue _ (fun c h => bl_keep (msz s0) 0)); exact B].
  - intros s0 c [A B]. split; [apply allch_del_conn; auto|]. eapply BL_lift; [apply szeq_heap; reflexivity|apply allch_del_conn; exact B].
  - intros s0 c h [A B]. split; [apply allch_upd_chan; auto|]. eapply BL_lift; [apply szeq_upd_chan|apply allch_upd_chan; auto].
  - intros s0 c h [A B]. split; [apply CI_ensure_chan; auto|].
    eapply BL_lift; [apply szeq_heap, heap_ensure_chan|apply allch_ensure; auto; intros ? ?; apply bl_channel0].
  - intros s0 c h [A B]. split; [apply allch_upd_chan; auto|]. eapply BL_lift; [apply szeq_upd_chan|apply allch_upd_chan; auto].
  - intros s0 c h t [A B]. split; [apply CI_add_confirm; auto|].
    eapply BL_lift; [apply szeq_heap, heap_add_confirm|apply (Q_add_confirm _ (fun c h => bl_keep (msz s0) 0)); exact B].
  - intros s0 c h tag [A B]. split; [apply CI_wake; auto|]. eapply BL_lift; [apply szeq_heap, heap_wake_consumer|apply BP_wake; exact B].
  - intros s0 c st En [A B]. split; [apply allch_newconn; auto; intros ?; apply chinv_channel0|].
    eapply BL_lift; [apply szeq_heap; reflexivity|apply allch_newconn; auto; intros ?; reflexivity].
  - intros s0. split; apply allch_restart.
  - intros s0 c h ch E [A B]. destruct (Q_tick _ (fun c h => bl_keep (msz s0) 0) s0 c h ch E B) as [T3 T4].
    split; (split; [apply allch_set_chan; auto; eapply chinvp_set; [..|exact (A _ _ _ E)]; reflexivity|]);
      (eapply BL_lift; [apply szeq_heap, heap_set_chan'|assumption]).
  - intros c h m Hg [A B]. split; [apply CI_handle_method; auto|].
    apply BL_handle_method; auto; [apply UC_ensure; auto|apply SmallB_ensure; auto].
  - intros c h tag. split; [apply CI_consumer_turn; auto|].
    eapply BL_lift; [apply szeq_heap, heap_consumer_turn|apply B_consumer_turn; auto; apply SZ_self].
  - intros c h ch u m len Ech Ecur Em Elt [A B]. split; [eapply allch_same_conns; [apply conns_upd_msg|exact A]|].
    eapply BL_body; eauto. intros c' h' ch' x Hg Hx Ex. cbn.
    destruct (UC_ensure s c h Huc _ _ _ _ Hg Hx) as [_ Hc]. rewrite Ex in Hc. specialize (Hc _ Em).
    apply N.ltb_ge in Elt. lia.
  - split; auto.
Qed.

Fixpoint bytes_along (cfg : config) (fx : fixes) (s : state) (ls : list label) : Prop :=
  (UC s /\ SmallB s) /\ match ls with [] => True | l :: t => bytes_along cfg fx (fst (step cfg fx s l)) t end.

Theorem BL_run cfg fx ls : cfg_rollback cfg = true ->
  forall s, CI s -> BL s -> bytes_along cfg fx s ls -> BL (fst (run cfg fx s ls)).
Proof.
  intros Hrb. induction ls as [|l t IH]; intros s Hci H Hs; cbn [run]; auto.
  destruct Hs as [[Hu Hs] Ht]. pose proof (BL_step cfg fx s l Hrb Hci Hu Hs H) as H1. pose proof (CI_step cfg fx s l Hci) as C1.
  destruct (step cfg fx s l) as [s1 e1]. cbn [fst] in *. specialize (IH s1 C1 H1 Ht).
  destruct (run cfg fx s1 t) as [s2 e2]. exact IH.
Qed.
Lemma BL_init cfg : BL (init cfg).
Proof. intros c h ch Hg. unfold get_chan, get_conn in Hg. cbn in Hg. discriminate. Qed.

(* the byte ledger in every state of a run along which every unsettled delivery names a complete message (UC) and no
   delivery would wrap the uint32 byte counter (SmallB); Part 5 shows that UC always holds (byte_ledger_reachable) *)
Theorem byte_ledger_reachable_partial cfg fx ls c h ch :
  cfg_rollback cfg = true ->
  bytes_along cfg fx (init cfg) ls ->
  get_chan (fst (run cfg fx (init cfg) ls)) c h = Some ch ->
  cs (ch_qos ch) = bsum (msz (fst (run cfg fx (init cfg) ls))) (ch_unacked ch).
Proof.
  intros Hrb Hs Hg. pose proof (BL_run cfg fx ls Hrb (init cfg) (CI_init cfg) (BL_init cfg) Hs _ _ _ Hg) as Hl.
  unfold BLP, bl in Hl. lia.
Qed.

(* ------------------------------------------------------------------ *)
(* Part 5: every message a delivery, a queue or the store refers to is complete - so its size is final (this closes
   the hypothesis UC of the byte ledger).  First: which primitives leave the heap and the id counter alone. *)
Definition hn (s : state) : list (N * msg) * N := (heap s, next_uid s).
Definition mview (m : msg) : bool * N * N := (m_has_header m, m_size m, m_hsize m).
Definition veq (s s' : state) : Prop :=
  next_uid s' = next_uid s /\ forall x, option_map mview (get_msg s' x) = option_map mview (get_msg s x).
Lemma veq_refl s : veq s s. Proof. split; reflexivity. Qed.
Lemma veq_trans s1 s2 s3 : veq s1 s2 -> veq s2 s3 -> veq s1 s3.
Proof. intros [A1 A2] [B1 B2]. split; [congruence|]. intros x. rewrite B2, A2. reflexivity. Qed.
Lemma veq_hn s s' : hn s' = hn s -> veq s s'.
Proof. unfold hn, veq, get_msg. intros E. inversion E as [[E1 E2]]. rewrite E1. split; reflexivity. Qed.
Lemma veq_upd_msg s u F : (forall m, mview (F m) = mview m) -> veq s (upd_msg s u F).
Proof.
  intros HF. unfold upd_msg. destruct (get_msg s u) as [m|] eqn:E; [|apply veq_refl]. split; [reflexivity|].
  intros x. unfold get_msg in *. cbn. rewrite (alookup_aset N.eqb Neqb_spec). destruct (x =? u) eqn:E1; [|reflexivity].
  apply N.eqb_eq in E1. subst. rewrite E. cbn. rewrite HF. reflexivity.
Qed.
Lemma veq_szeq s s' : veq s s' -> szeq s s'.
Proof.
  intros [_ E] x. specialize (E x). unfold msg_size. destruct (get_msg s' x) as [m'|]; destruct (get_msg s x) as [m|]; cbn in E; try discriminate; auto.
  inversion E. reflexivity.
Qed.
Ltac hnset := repeat match goal with |- context [hn (set ?proj ?f ?st)] => change (hn (set proj f st)) with (hn st) end.
Lemma hn_set_chan s c h ch : hn (set_chan s c h ch) = hn s.
Proof. unfold set_chan. destruct (get_conn s c); reflexivity. Qed.
Lemma hn_upd_chan s c h f : hn (upd_chan s c h f) = hn s.
Proof. unfold upd_chan. destruct (get_chan s c h); [apply hn_set_chan|reflexivity]. Qed.
Lemma hn_upd_queue s q f : hn (upd_queue s q f) = hn s.
Proof. unfold upd_queue. destruct (get_queue s q); reflexivity. Qed.
Lemma hn_store_writeback s qn u d : hn (store_writeback s qn u d) = hn s.
Proof. unfold store_writeback. destruct (_ && _ && _)%bool; reflexivity. Qed.
Lemma veq_queue_requeue s qn u : veq s (queue_requeue s qn u).
Proof.
  unfold queue_requeue. destruct (get_queue s qn) as [qu|]; [|apply veq_refl]. destruct (negb _); [apply veq_refl|]. cbv zeta.
  eapply veq_trans; [apply veq_hn, (hn_store_writeback s qn u (q_durable qu))|].
  eapply veq_trans; [apply (veq_upd_msg _ u (fun m => m <| m_dc ::= N.succ |>)); reflexivity|]. apply veq_hn. reflexivity.
Qed.
Lemma hn_wake_consumer s c h tag : hn (fst (wake_consumer s c h tag)) = hn s.
Proof.
  unfold wake_consumer. destruct (get_chan s c h) as [ch|]; auto. destruct (find_consumer ch tag) as [cm|]; auto.
  destruct (consume_msg cm). cbn [fst]. apply hn_set_chan.
Qed.
Lemma hn_queue_remove_consumer s qn c h tag : hn (queue_remove_consumer s qn c h tag) = hn s.
Proof.
  unfold queue_remove_consumer. destruct (get_queue s qn); auto. cbv zeta.
  repeat match goal with |- context [if ?b then _ else _] => destruct b end; reflexivity.
Qed.
Lemma hn_consumer_stop s c h tag : hn (consumer_stop s c h tag) = hn s.
Proof.
  unfold consumer_stop. destruct (get_chan s c h) as [ch|]; auto. destruct (find_consumer ch tag) as [cm|]; auto.
  destruct (c_status cm); auto; rewrite hn_queue_remove_consumer; apply hn_set_chan.
Qed.
Lemma hn_wake_consumers cfg s c h : hn (wake_consumers cfg s c h) = hn s.
Proof.
  unfold wake_consumers, wake_all_of_chan. destruct (cfg_rabbit cfg); [apply hn_upd_chan|].
  destruct (get_conn _ c) as [cn|]; [|apply hn_upd_chan].
  match goal with |- hn (fold_left ?F ?l ?st) = _ => assert (H : forall l0 st0, hn (fold_left F l0 st0) = hn st0) end.
  { induction l0 as [|x t IH]; intros st0; simpl; auto. rewrite IH. destruct (fst x =? h); auto. apply hn_upd_chan. }
  rewrite H. apply hn_upd_chan.
Qed.
Lemma hn_queue_ackmsg s qn u : hn (queue_ackmsg s qn u) = hn s.
Proof.
  unfold queue_ackmsg. destruct (get_queue s qn); auto. destruct (get_msg s u); auto. destruct (negb _); auto.
  cbv zeta. destruct (_ && _)%bool; reflexivity.
Qed.

Lemma veq_chan_ackmsg s u : veq s (chan_ackmsg s u).
Proof. unfold chan_ackmsg. destruct (origin_queue s u); apply veq_hn; [apply hn_queue_ackmsg|reflexivity]. Qed.
Lemma veq_chan_rejectmsg s u r : veq s (chan_rejectmsg s u r).
Proof.
  unfold chan_rejectmsg. destruct (origin_queue s u); [destruct r|]; [apply veq_queue_requeue|apply veq_hn, hn_queue_ackmsg|apply veq_hn; reflexivity].
Qed.
Lemma hn_dec_qos cfg s c h u : hn (dec_qos_and_consume_next cfg s c h u) = hn s.
Proof.
  unfold dec_qos_and_consume_next. destruct (get_chan s c h) as [ch|]; auto. rewrite hn_wake_consumers.
  destruct (find_consumer ch (u_ctag u)); [destruct (cfg_rabbit cfg)|]; rewrite ?hn_upd_chan; auto;
    (destruct (get_conn _ c); hnset; rewrite ?hn_upd_chan; reflexivity).
Qed.
Lemma hn_store_windows cfg s c h tag ws : hn (store_windows cfg s c h tag ws) = hn s.
Proof.
  unfold store_windows. destruct ws as [|w1 [|w2 [|]]]; auto.
  destruct (cfg_rabbit cfg); rewrite ?hn_upd_chan; auto. destruct (get_conn _ c); hnset; rewrite ?hn_upd_chan; reflexivity.
Qed.


Lemma veq_fold {A} (g : state -> A -> state) l : (forall s u, veq s (g s u)) -> forall s, veq s (fold_left g l s).
Proof. intros Hg. induction l as [|a t IH]; intros s; cbn [fold_left]; [apply veq_refl|]. eapply veq_trans; [apply Hg|apply IH]. Qed.
Lemma veq_upd_chan s c h f : veq s (upd_chan s c h f).
Proof. apply veq_hn, hn_upd_chan. Qed.

Lemma veq_handle_ack cfg s c h tag mult : veq s (fst (handle_ack cfg s c h tag mult)).
Proof.
  unfold handle_ack. destruct (get_chan s c h) as [ch|]; [|apply veq_refl]. destruct mult.
  - cbn [fst]. eapply veq_trans; [|apply veq_fold; intros; apply veq_hn, hn_dec_qos].
    apply veq_fold. intros s0 u. eapply veq_trans; [apply veq_upd_chan|apply veq_chan_ackmsg].
  - destruct (find _ _); cbn [fst]; [|apply veq_refl].
    eapply veq_trans; [|apply veq_hn, hn_dec_qos]. eapply veq_trans; [apply veq_upd_chan|apply veq_chan_ackmsg].
Qed.
Lemma veq_handle_reject cfg s c h tag mult requeue cls mth : veq s (fst (handle_reject cfg s c h tag mult requeue cls mth)).
Proof.
  unfold handle_reject. destruct (get_chan s c h) as [ch|]; [|apply veq_refl]. destruct mult.
  - cbn [fst]. eapply veq_trans; [|apply veq_fold; intros; apply veq_hn, hn_dec_qos].
    apply veq_fold. intros s0 u. eapply veq_trans; [apply veq_upd_chan|apply veq_chan_rejectmsg].
  - destruct (find _ _); cbn [fst]; [|apply veq_refl].
    eapply veq_trans; [|apply veq_hn, hn_dec_qos]. eapply veq_trans; [apply veq_upd_chan|apply veq_chan_rejectmsg].
Qed.


Lemma hn_consumer_turn cfg fx s c h tag : hn (fst (consumer_turn cfg fx s c h tag)) = hn s.
Proof.
  unfold consumer_turn. destruct (get_chan s c h) as [ch|]; auto. destruct (find_consumer ch tag) as [cm|]; auto.
  destruct (negb (c_token cm)); auto.
  set (s0 := set_chan s c h _). assert (E0 : hn s0 = hn s) by (subst s0; apply hn_set_chan). clearbody s0.
  destruct (c_status cm); auto.
  all: destruct (get_queue s0 (c_queue cm)) as [qu|]; auto.
  all: destruct (negb (q_active qu)); auto.
  all: destruct (q_ready qu) as [|u rest]; auto.
  all: match goal with |- context [if c_noack ?cm0 then (Some [], []) else ?r] => destruct (if c_noack cm0 then (Some [], []) else r) as [okr ws] end.
  all: destruct okr; cbn [fst]; [|destruct (c_noack cm); rewrite ?hn_store_windows; exact E0].
  all: match goal with |- context [wake_consumer ?st ?c0 ?h0 ?tag0] => destruct (wake_consumer st c0 h0 tag0) as [s9 b9] eqn:Ew;
         apply fst_pair in Ew; cbn [fst]; subst s9; rewrite hn_wake_consumer end.
  all: destruct (c_noack cm); try destruct (fx_noack_total_once fx).
  all: repeat first [ rewrite hn_upd_queue | rewrite hn_upd_chan | rewrite hn_queue_ackmsg | rewrite hn_store_windows | progress hnset ].
  all: exact E0.
Qed.


Lemma veq_channel_close cfg s c h : veq s (channel_close cfg s c h).
Proof.
  unfold channel_close. destruct (get_chan s c h) as [ch|]; [|apply veq_refl].
  eapply veq_trans; [|apply veq_upd_chan].
  assert (E2 : veq s (upd_chan (fold_left (fun s cm => consumer_stop s c h (c_tag cm)) (ch_consumers ch) s) c h (fun ch => ch <| ch_consumers := [] |>))).
  { eapply veq_trans; [|apply veq_upd_chan]. apply veq_fold. intros s0 cm. apply veq_hn, hn_consumer_stop. }
  destruct (0 <? h); [|exact E2]. eapply veq_trans; [exact E2|apply veq_handle_reject].
Qed.

Lemma hn_cancel_fold l : forall s evs,
  hn (fst (fold_left (fun acc x => let '(s, evs) := acc in let '(s', e) := consumer_cancel s x in (s', evs ++ e)) l (s, evs))) = hn s.
Proof. induction l as [|[[c h] tag] t IH]; intros s evs; simpl; auto. rewrite IH. apply hn_consumer_stop. Qed.
Lemma hn_vhost_delete_queue b s qn iu ie : hn (fst (fst (vhost_delete_queue b s qn iu ie))) = hn s.
Proof.
  unfold vhost_delete_queue. destruct (get_queue s qn) as [qu|]; auto. destruct (_ || _).
  - cbn [fst]. destruct b; reflexivity.
  - pose proof (hn_cancel_fold (q_consumers qu) s []) as Hf.
    destruct (fold_left _ (q_consumers qu) (s, [])) as [s1 e1]. cbn [fst] in *. destruct (q_durable qu); hnset; exact Hf.
Qed.
Lemma hn_add_confirm s c h t : hn (add_confirm s c h t) = hn s.
Proof.
  unfold add_confirm. destruct (get_chan s c h) as [ch|]; auto. destruct (negb _); auto.
  destruct (ch_status ch); auto; destruct t as [[[? ?] ?]|]; auto; apply hn_set_chan.
Qed.
Lemma hn_ensure_chan s c h : hn (ensure_chan s c h) = hn s.
Proof. unfold ensure_chan. destruct (get_conn s c) as [cn|]; auto. destruct (alookup _ _ _); auto. Qed.
Lemma hn_set_stage s c st : hn (set_stage s c st) = hn s.
Proof. unfold set_stage. destruct (get_conn s c); reflexivity. Qed.


Ltac hpn := repeat first [ rewrite hn_upd_queue | rewrite hn_upd_chan | rewrite hn_queue_ackmsg | rewrite hn_set_chan
                        | rewrite hn_store_windows | rewrite hn_wake_consumer | rewrite hn_wake_consumers
                        | rewrite hn_consumer_stop | rewrite hn_set_stage | rewrite hn_vhost_delete_queue
                        | progress hnset | progress cbn [fst] ]; try reflexivity.

Lemma veq_handle_method cfg fx s c h m : is_publish m = false -> veq s (fst (fst (handle_method cfg fx s c h m))).
Proof.
  intros Hp. unfold handle_method.
  destruct (get_chan s c h) as [ch|] eqn:Hch; [|apply veq_refl].
  destruct m; unfold ok, refuse; try discriminate Hp.
  - destruct (ch_status ch); cbn [fst]; try apply veq_refl; apply veq_hn; hpn.
  - cbn [fst]. apply veq_channel_close.
  - cbn [fst]. destruct (fx_closeok_releases fx); [apply veq_channel_close|apply veq_hn; hpn].
  - cbn [fst]. destruct (Bool.eqb _ _); [apply veq_refl|]. destruct a; apply veq_hn; hpn.
  - destruct (extype_of type); [|apply veq_refl].
    repeat match goal with |- context [if ?b then _ else _] => destruct b end; cbn [fst]; try apply veq_refl.
    all: repeat match goal with |- context [match ?x with _ => _ end] => destruct x end; cbn [fst]; try apply veq_refl.
    all: apply veq_hn; reflexivity.
  - destruct (fx_not_impl fx); apply veq_refl.
  - destruct (seqb name ""); [apply veq_refl|].
    destruct (queue_found s name) as [qu|].
    + repeat match goal with |- context [if ?b then _ else _] => destruct b end; cbn [fst]; apply veq_refl.
    + destruct passive; [destruct nowait; apply veq_refl|]. cbn [fst]. apply veq_hn. reflexivity.
  - destruct (alookup _ _ _); [|apply veq_refl]. destruct (seqb ex ""); [apply veq_refl|].
    destruct (queue_found s q); [|apply veq_refl]. destruct (locked _ _); [apply veq_refl|]. destruct (bad_xmatch _); [apply veq_refl|]. destruct (extype_eqb _ ExTopic && bad_pattern _)%bool; [apply veq_refl|]. apply veq_hn; reflexivity.
  - destruct (alookup _ _ _); [|apply veq_refl]. destruct (queue_found s q); [|apply veq_refl]. destruct (locked _ _); [apply veq_refl|].
    destruct (bad_xmatch _); [apply veq_refl|]. destruct (extype_eqb _ ExTopic && bad_pattern _)%bool; [apply veq_refl|]. apply veq_hn; reflexivity.
  - destruct (queue_found s q) as [qu|]; [|apply veq_refl]. destruct (locked _ _); [apply veq_refl|]. cbn [fst].
    apply veq_hn. destruct (q_durable qu); reflexivity.
  - destruct (queue_found s q); [|apply veq_refl]. destruct (locked _ _); [apply veq_refl|].
    pose proof (hn_vhost_delete_queue (negb (fx_delete_checks_first fx)) s q ifunused ifempty) as Hd.
    destruct (vhost_delete_queue _ s q ifunused ifempty) as [[s1 e1] r1]. cbn [fst] in *. destruct r1; apply veq_hn; exact Hd.
  - cbn [fst]. apply veq_hn. rewrite hn_wake_consumers.
    destruct (cfg_rabbit cfg); [destruct glob; hpn|]. destruct glob; [|hpn]. destruct (get_conn s c); reflexivity.
  - destruct (queue_found s q) as [qu|]; [|apply veq_refl].
    destruct (fx_excl_owner fx && locked qu c); [apply veq_refl|].
    destruct (find_consumer ch _); [apply veq_refl|].
    destruct (_ && _)%bool; cbn [fst]; apply veq_hn; [reflexivity|]. rewrite hn_set_chan. destruct (seqb tag ""%string); reflexivity.
  - destruct (find_consumer ch tag); [|apply veq_refl]. cbn [fst]. apply veq_hn. hpn.
  - (* MGet *)
    destruct (queue_found s q) as [qu|]; [|apply veq_refl].
    destruct (fx_excl_owner fx && locked qu c); [apply veq_refl|].
    destruct (q_ready qu) as [|u rest]; [apply veq_refl|].
    match goal with |- context [if noack then (Some [], []) else ?r] => destruct (if noack then (Some [], []) else r) as [okr ws] end.
    set (s1 := match ws with [w1; w2] => _ | _ => s end).
    assert (E1 : hn s1 = hn s).
    { subst s1. destruct ws as [|w1 [|w2 [|]]]; auto. destruct (get_conn _ c); hpn. }
    clearbody s1. apply veq_hn.
    destruct okr; cbn [fst]; [|exact E1].
    destruct noack; [destruct (fx_noack_total_once fx)|]; hpn; exact E1.
  - pose proof (veq_handle_ack cfg s c h tag mult) as Ha.
    destruct (handle_ack cfg s c h tag mult) as [s1 e1]. exact Ha.
  - pose proof (veq_handle_reject cfg s c h tag mult requeue 60 120) as Ha.
    destruct (handle_reject cfg s c h tag mult requeue 60 120) as [s1 e1]. exact Ha.
  - pose proof (veq_handle_reject cfg s c h tag false requeue 60 90) as Ha.
    destruct (handle_reject cfg s c h tag false requeue 60 90) as [s1 e1]. exact Ha.
  - apply veq_refl.
  - cbn [fst]. apply veq_hn. hpn.
  - destruct (fx_not_impl fx); apply veq_refl.
  - apply veq_refl.
  - apply veq_refl.
  - destruct good; [cbn [fst]; apply veq_hn; hpn|apply veq_refl].
  - destruct within; [cbn [fst]; apply veq_hn; hpn|apply veq_refl].
  - destruct vhost_ok; [cbn [fst]; apply veq_hn; hpn|apply veq_refl].
Qed.


(* ---- membership: relative to a set G of "good" message ids, independent of the heap ---- *)
Definition PG (G : N -> Prop) (c h : N) (ch : channel) : Prop := forall x, In x (ch_unacked ch) -> G (u_msg x).
Definition QG (G : N -> Prop) (qu : queue) : Prop := forall u, In u (q_ready qu) -> G u.
Definition SG (G : N -> Prop) (s : state) : Prop := (forall k, In k (st_add s) -> G (fst k)) /\ (forall k, In k (st_db s) -> G (fst k)).
Definition IG (G : N -> Prop) (s : state) : Prop := allch (PG G) s /\ allq (QG G) s /\ SG G s.
Definition qst (s : state) : list (string * queue) * list (N * string) * list (N * string) := (queues s, st_add s, st_db s).

Lemma PG_keep G : forall c h ch ch',
  ch_unacked ch' = ch_unacked ch -> ch_status ch' = ch_status ch -> ch_dtag ch <= ch_dtag ch' ->
  (ch_consumers ch = [] -> ch_consumers ch' = []) -> PG G c h ch -> PG G c h ch'.
Proof. unfold PG. intros c h ch ch' E _ _ _ H. rewrite E. exact H. Qed.
Lemma PG_del G : forall c h ch tag, PG G c h ch -> PG G c h (del_unacked ch tag).
Proof. unfold PG, del_unacked. cbn. intros c h ch tag H x Hx. apply filter_In in Hx. apply H. tauto. Qed.
Lemma PG_same G c h ch ch' : ch_unacked ch' = ch_unacked ch -> PG G c h ch -> PG G c h ch'.
Proof. unfold PG. intros ->. auto. Qed.

Lemma IG_of_chan G s s' : qst s' = qst s -> allch (PG G) s' -> IG G s -> IG G s'.
Proof.
  unfold qst. intros E Hc (_ & Hq & Ha & Hd). inversion E as [[E1 E2 E3]]. split; [exact Hc|]. split.
  - eapply allq_same_queues; eauto.
  - split; [rewrite E2|rewrite E3]; auto.
Qed.
Lemma IG_of_queue G s s' : conns s' = conns s -> allq (QG G) s' -> SG G s' -> IG G s -> IG G s'.
Proof. intros E Hq Hs (Hc & _ & _). split; [eapply allch_same_conns; eauto|]. split; auto. Qed.
Lemma IG_same G s s' : conns s' = conns s -> qst s' = qst s -> IG G s -> IG G s'.
Proof. intros E1 E2 H. eapply IG_of_chan; eauto. eapply allch_same_conns; eauto. exact (proj1 H). Qed.

Lemma IG_sub G s s' : conns s' = conns s -> (forall kq, In kq (queues s') -> In kq (queues s)) ->
  (forall k, In k (st_add s') -> In k (st_add s)) -> (forall k, In k (st_db s') -> In k (st_db s)) -> IG G s -> IG G s'.
Proof.
  intros E Hq Ha Hd (Hc & Hqq & Haa & Hdd). split; [eapply allch_same_conns; eauto|]. split; [|split].
  - intros qn qu Hin. apply (Hqq qn qu). apply Hq. exact Hin.
  - intros k Hk. apply Haa, Ha, Hk.
  - intros k Hk. apply Hdd, Hd, Hk.
Qed.

Lemma qst_set_chan s c h ch : qst (set_chan s c h ch) = qst s.
Proof. unfold set_chan. destruct (get_conn s c); reflexivity. Qed.
Lemma qst_upd_chan s c h f : qst (upd_chan s c h f) = qst s.
Proof. unfold upd_chan. destruct (get_chan s c h); [apply qst_set_chan|reflexivity]. Qed.
Lemma qst_upd_msg s u F : qst (upd_msg s u F) = qst s.
Proof. unfold upd_msg. destruct (get_msg s u); reflexivity. Qed.
Lemma qst_wake_consumer s c h tag : qst (fst (wake_consumer s c h tag)) = qst s.
Proof.
  unfold wake_consumer. destruct (get_chan s c h) as [ch|]; auto. destruct (find_consumer ch tag) as [cm|]; auto.
  destruct (consume_msg cm). cbn [fst]. apply qst_set_chan.
Qed.
Lemma qst_wake_consumers cfg s c h : qst (wake_consumers cfg s c h) = qst s.
Proof.
  unfold wake_consumers, wake_all_of_chan. destruct (cfg_rabbit cfg); [apply qst_upd_chan|].
  destruct (get_conn _ c) as [cn|]; [|apply qst_upd_chan].
  match goal with |- qst (fold_left ?F ?l ?st) = _ => assert (H : forall l0 st0, qst (fold_left F l0 st0) = qst st0) end.
  { induction l0 as [|x t IH]; intros st0; simpl; auto. rewrite IH. destruct (fst x =? h); auto. apply qst_upd_chan. }
  rewrite H. apply qst_upd_chan.
Qed.
Ltac qstset := repeat match goal with |- context [qst (set ?proj ?f ?st)] => change (qst (set proj f st)) with (qst st) end.
Lemma qst_dec_qos cfg s c h u : qst (dec_qos_and_consume_next cfg s c h u) = qst s.
Proof.
  unfold dec_qos_and_consume_next. destruct (get_chan s c h) as [ch|]; auto. rewrite qst_wake_consumers.
  destruct (find_consumer ch (u_ctag u)); [destruct (cfg_rabbit cfg)|]; rewrite ?qst_upd_chan; auto;
    (destruct (get_conn _ c); qstset; rewrite ?qst_upd_chan; reflexivity).
Qed.
Lemma qst_store_windows cfg s c h tag ws : qst (store_windows cfg s c h tag ws) = qst s.
Proof.
  unfold store_windows. destruct ws as [|w1 [|w2 [|]]]; auto.
  destruct (cfg_rabbit cfg); rewrite ?qst_upd_chan; auto. destruct (get_conn _ c); qstset; rewrite ?qst_upd_chan; reflexivity.
Qed.
Lemma qst_add_confirm s c h t : qst (add_confirm s c h t) = qst s.
Proof.
  unfold add_confirm. destruct (get_chan s c h) as [ch|]; auto. destruct (negb _); auto.
  destruct (ch_status ch); auto; destruct t as [[[? ?] ?]|]; auto; apply qst_set_chan.
Qed.
Lemma qst_ensure_chan s c h : qst (ensure_chan s c h) = qst s.
Proof. unfold ensure_chan. destruct (get_conn s c) as [cn|]; auto. destruct (alookup _ _ _); auto. Qed.
Lemma qst_set_stage s c st : qst (set_stage s c st) = qst s.
Proof. unfold set_stage. destruct (get_conn s c); reflexivity. Qed.

Section IGen.
Variable G : N -> Prop.

Lemma IG_set_chan s c h ch : PG G c h ch -> IG G s -> IG G (set_chan s c h ch).
Proof. intros Hp H. eapply IG_of_chan; [apply qst_set_chan| |exact H]. apply allch_set_chan; auto. exact (proj1 H). Qed.
Lemma IG_upd_chan s c h f : (forall ch, PG G c h ch -> PG G c h (f ch)) -> IG G s -> IG G (upd_chan s c h f).
Proof. intros Hf H. eapply IG_of_chan; [apply qst_upd_chan| |exact H]. apply allch_upd_chan; auto. exact (proj1 H). Qed.
Lemma IG_upd_chan_same s c h f : (forall ch, ch_unacked (f ch) = ch_unacked ch) -> IG G s -> IG G (upd_chan s c h f).
Proof. intros Hf. apply IG_upd_chan. intros ch. apply PG_same. apply Hf. Qed.
Lemma IG_set_chan_same s c h ch ch' : get_chan s c h = Some ch -> ch_unacked ch' = ch_unacked ch -> IG G s -> IG G (set_chan s c h ch').
Proof. intros Ech E H. apply IG_set_chan; auto. eapply PG_same; eauto. exact (proj1 H _ _ _ Ech). Qed.
Lemma IG_conn_qos s c cn f : get_conn s c = Some cn -> IG G s -> IG G (s <| conns := aset N.eqb c (cn <| cn_qos ::= f |>) (conns s) |>).
Proof. intros Ec H. apply (IG_of_chan G s); [reflexivity| |exact H]. eapply allch_set_conn_qos; eauto. exact (proj1 H). Qed.
Lemma IG_set_queue s q qu : QG G qu -> IG G s -> IG G (set_queue s q qu).
Proof.
  intros Hq H. eapply IG_of_queue; [apply conns_set_queue| | |exact H].
  - apply allq_set_queue; auto. exact (proj1 (proj2 H)).
  - exact (proj2 (proj2 H)).
Qed.
Lemma IG_set_queue_same s q qu qu' : get_queue s q = Some qu -> q_ready qu' = q_ready qu -> IG G s -> IG G (set_queue s q qu').
Proof.
  intros Eq E H. apply IG_set_queue; auto. unfold QG. rewrite E. exact (allq_get _ _ _ _ (proj1 (proj2 H)) Eq).
Qed.
Lemma IG_upd_queue s q f : (forall qu, QG G qu -> QG G (f qu)) -> IG G s -> IG G (upd_queue s q f).
Proof.
  intros Hf H. unfold upd_queue. destruct (get_queue s q) as [qu|] eqn:E; auto. apply IG_set_queue; auto.
  apply Hf. exact (allq_get _ _ _ _ (proj1 (proj2 H)) E).
Qed.
Lemma IG_upd_queue_same s q f : (forall qu, q_ready (f qu) = q_ready qu) -> IG G s -> IG G (upd_queue s q f).
Proof. intros Hf. apply IG_upd_queue. intros qu Hq. unfold QG. rewrite Hf. exact Hq. Qed.

Definition IG_wake s c h tag (H : IG G s) : IG G (fst (wake_consumer s c h tag)) :=
  IG_of_chan G s _ (qst_wake_consumer s c h tag) (G_wake (PG G) (PG_keep G) s c h tag (proj1 H)) H.
Definition IG_wake_consumers cfg s c h (H : IG G s) : IG G (wake_consumers cfg s c h) :=
  IG_of_chan G s _ (qst_wake_consumers cfg s c h) (G_wake_consumers (PG G) (PG_keep G) cfg s c h (proj1 H)) H.
Definition IG_dec_qos cfg s c h u (H : IG G s) : IG G (dec_qos_and_consume_next cfg s c h u) :=
  IG_of_chan G s _ (qst_dec_qos cfg s c h u) (G_dec_qos (PG G) (PG_keep G) cfg s c h u (proj1 H)) H.

Lemma IG_queue_remove_consumer s qn c h tag : IG G s -> IG G (queue_remove_consumer s qn c h tag).
Proof.
  intros H. unfold queue_remove_consumer. destruct (get_queue s qn) as [qu|] eqn:Eq; auto. cbv zeta.
  match goal with |- IG G (if ?b then ?a <| autodel ::= _ |> else ?a') =>
    assert (X : IG G a'); [|destruct b; [eapply IG_same; [| |exact X]; reflexivity|exact X]] end.
  eapply IG_set_queue_same; eauto. destruct (Nat.eqb _ 0); reflexivity.
Qed.
Lemma IG_consumer_stop s c h tag : IG G s -> IG G (consumer_stop s c h tag).
Proof.
  intros H. unfold consumer_stop. destruct (get_chan s c h) as [ch|] eqn:E; auto.
  destruct (find_consumer ch tag) as [cm|]; auto.
  destruct (c_status cm); auto; apply IG_queue_remove_consumer; (eapply IG_set_chan_same; eauto).
Qed.
Lemma IG_queue_ackmsg s qn u : IG G s -> IG G (queue_ackmsg s qn u).
Proof.
  intros H. unfold queue_ackmsg. destruct (get_queue s qn) as [qu|] eqn:Eq; auto. destruct (get_msg s u); auto. destruct (negb _); auto.
  cbv zeta. eapply IG_set_queue_same; [| |].
  - destruct (_ && _)%bool; exact Eq.
  - reflexivity.
  - destruct (_ && _)%bool; (eapply IG_same; [| |exact H]; reflexivity).
Qed.
Lemma IG_queue_requeue s qn u : G u -> IG G s -> IG G (queue_requeue s qn u).
Proof.
  intros Hu H. unfold queue_requeue. destruct (get_queue s qn) as [qu|] eqn:Eq; auto. destruct (negb _); auto. cbv zeta.
  apply IG_set_queue.
  - pose proof (allq_get _ _ _ _ (proj1 (proj2 H)) Eq) as Hq. unfold QG, call_consumers in *.
    intros x Hx. assert (Hx' : u = x \/ In x (q_ready qu)) by (destruct (q_active _); cbn in Hx; exact Hx).
    destruct Hx' as [<-|Hx']; auto.
  - eapply IG_same; [reflexivity|reflexivity|]. eapply IG_same; [apply conns_upd_msg|apply qst_upd_msg|].
    unfold store_writeback. destruct (_ && _ && _)%bool; [|exact H].
    destruct H as (Hc & Hq & Ha & Hd). split; [exact Hc|]. split; [exact Hq|]. split; [exact Ha|].
    intros k Hk. cbn in Hk. apply in_app_or in Hk. destruct Hk as [Hk|[<-|[]]]; auto.
Qed.
Lemma IG_chan_ackmsg s u : IG G s -> IG G (chan_ackmsg s u).
Proof. intros H. unfold chan_ackmsg. destruct (origin_queue s u); [apply IG_queue_ackmsg; auto|]. eapply IG_same; [| |exact H]; reflexivity. Qed.
Lemma IG_chan_rejectmsg s u r : G (u_msg u) -> IG G s -> IG G (chan_rejectmsg s u r).
Proof.
  intros Hu H. unfold chan_rejectmsg. destruct (origin_queue s u); [destruct r; [apply IG_queue_requeue|apply IG_queue_ackmsg]; auto|].
  eapply IG_same; [| |exact H]; reflexivity.
Qed.

Lemma fold_left_preserves_in {A S} (Inv : S -> Prop) (f : S -> A -> S) l :
  (forall s a, In a l -> Inv s -> Inv (f s a)) -> forall s, Inv s -> Inv (fold_left f l s).
Proof.
  induction l as [|a t IH]; intros Hf s H; cbn [fold_left]; auto. apply IH.
  - intros s0 a0 Hin. apply Hf. right. exact Hin.
  - apply Hf; [left; reflexivity|exact H].
Qed.

Lemma IG_handle_reject cfg s c h tag mult requeue cls mth : IG G s -> IG G (fst (handle_reject cfg s c h tag mult requeue cls mth)).
Proof.
  intros H. unfold handle_reject. destruct (get_chan s c h) as [ch|] eqn:Ech; auto.
  pose proof (proj1 H _ _ _ Ech) as Hp.
  destruct mult.
  - cbn [fst]. apply fold_left_preserves; [intros; apply IG_dec_qos; auto|].
    apply fold_left_preserves_in; auto. intros s0 a Ha H0. apply IG_chan_rejectmsg.
    + apply Hp. apply filter_In in Ha. apply sort_desc_perm. tauto.
    + apply IG_upd_chan; auto. intros ch0. apply PG_del.
  - destruct (find _ _) as [u|] eqn:Ef; cbn [fst]; auto. apply find_some in Ef. apply IG_dec_qos. apply IG_chan_rejectmsg; [apply Hp; tauto|].
    apply IG_upd_chan; auto. intros ch0. apply PG_del.
Qed.
Lemma IG_handle_ack cfg s c h tag mult : IG G s -> IG G (fst (handle_ack cfg s c h tag mult)).
Proof.
  intros H. unfold handle_ack. destruct (get_chan s c h) as [ch|] eqn:Ech; auto.
  destruct mult.
  - cbn [fst]. apply fold_left_preserves; [intros; apply IG_dec_qos; auto|].
    apply fold_left_preserves; auto. intros s0 a H0. apply IG_chan_ackmsg. apply IG_upd_chan; auto. intros ch0. apply PG_del.
  - destruct (find _ _) as [u|]; cbn [fst]; auto. apply IG_dec_qos. apply IG_chan_ackmsg. apply IG_upd_chan; auto. intros ch0. apply PG_del.
Qed.

Lemma IG_channel_close cfg s c h : IG G s -> IG G (channel_close cfg s c h).
Proof.
  intros H. unfold channel_close. destruct (get_chan s c h) as [ch|] eqn:Ech; auto.
  apply IG_upd_chan_same; [reflexivity|].
  assert (H2 : IG G (upd_chan (fold_left (fun s cm => consumer_stop s c h (c_tag cm)) (ch_consumers ch) s) c h (fun ch => ch <| ch_consumers := [] |>))).
  { apply IG_upd_chan_same; [reflexivity|]. apply fold_left_preserves; auto. intros; apply IG_consumer_stop; auto. }
  destruct (0 <? h); auto. apply IG_handle_reject; auto.
Qed.

Lemma IG_cancel_fold l : forall s evs, IG G s ->
  IG G (fst (fold_left (fun acc x => let '(s, evs) := acc in let '(s', e) := consumer_cancel s x in (s', evs ++ e)) l (s, evs))).
Proof. induction l as [|[[c h] tag] t IH]; intros s evs H; simpl; auto. apply IH. apply IG_consumer_stop; auto. Qed.

Lemma IG_vhost_delete_queue b s qn iu ie : IG G s -> IG G (fst (fst (vhost_delete_queue b s qn iu ie))).
Proof.
  intros H. unfold vhost_delete_queue. destruct (get_queue s qn) as [qu|] eqn:Eq; auto.
  destruct (_ || _).
  - cbn [fst]. destruct b; [|exact H]. eapply IG_set_queue_same; eauto.
  - pose proof (IG_cancel_fold (q_consumers qu) s [] H) as Hf.
    destruct (fold_left _ (q_consumers qu) (s, [])) as [s1 e1]. cbn [fst] in *.
    apply (IG_sub G s1); [| | | |exact Hf].
    + destruct (q_durable qu); reflexivity.
    + intros kq Hk. cbn [queues set] in Hk. apply in_adel in Hk. destruct (q_durable qu); exact Hk.
    + intros k Hk. destruct (q_durable qu); exact Hk.
    + intros k Hk. destruct (q_durable qu); [|exact Hk]. apply (filter_In (fun k0 : N * string => negb (seqb (snd k0) qn))) in Hk. tauto.
Qed.

Lemma IG_store_windows cfg s c h tag ws : IG G s -> IG G (store_windows cfg s c h tag ws).
Proof.
  intros H. eapply IG_of_chan; [apply qst_store_windows| |exact H]. unfold store_windows. destruct ws as [|w1 [|w2 [|]]]; try exact (proj1 H).
  assert (H1 : allch (PG G) (upd_chan s c h (fun ch => ch <| ch_qos := w1 |>))) by (apply allch_upd_chan; [intros ch0; apply PG_same; reflexivity|exact (proj1 H)]).
  destruct (cfg_rabbit cfg); [apply allch_upd_chan; [intros ch0; apply PG_same; reflexivity|exact H1]|].
  destruct (get_conn _ c) eqn:Ec; auto. eapply allch_set_conn_qos; eauto.
Qed.
Lemma IG_add_confirm s c h t : IG G s -> IG G (add_confirm s c h t).
Proof.
  intros H. unfold add_confirm. destruct (get_chan s c h) as [ch|] eqn:E; auto. destruct (negb _); auto.
  destruct (ch_status ch) eqn:Es; auto; destruct t as [[[? ?] ?]|]; auto; (eapply IG_set_chan_same; eauto).
Qed.
Lemma IG_queue_push s qn u : G u -> IG G s -> IG G (queue_push s qn u).
Proof.
  intros Hu H. unfold queue_push. destruct (get_queue s qn) as [qu|] eqn:Eq; auto. destruct (get_msg s u) as [m|]; auto. destruct (negb _); auto.
  cbv zeta. apply IG_set_queue.
  - pose proof (allq_get _ _ _ _ (proj1 (proj2 H)) Eq) as Hq. unfold QG, call_consumers in *.
    intros x Hx. assert (Hx' : In x (q_ready qu ++ [u])) by (destruct (q_active _); cbn in Hx; exact Hx).
    apply in_app_or in Hx'. destruct Hx' as [Hx'|[<-|[]]]; auto.
  - destruct (_ && _)%bool.
    + destruct H as (Hc & Hq & Ha & Hd). split; [exact Hc|]. split; [exact Hq|]. split; [|exact Hd].
      intros k Hk. cbn in Hk. apply in_app_or in Hk. destruct Hk as [Hk|[<-|[]]]; auto.
    + destruct (m_conf m); [eapply IG_same; [apply conns_upd_msg|apply qst_upd_msg|]|]; (eapply IG_same; [| |exact H]; reflexivity).
Qed.
End IGen.

Ltac igstep Hu := first
 [ assumption
 | match goal with |- IG _ (if ?b then _ else _) => destruct b end
 | match goal with |- IG ?G (set ?proj ?f ?st) => apply (IG_same G st); [reflexivity|reflexivity|] end
 | apply IG_queue_ackmsg
 | apply IG_upd_queue_same; [intros; reflexivity|]
 | apply IG_upd_chan_same; [intros; reflexivity|]
 | apply IG_upd_queue; [intros qu0 _; unfold QG; rewrite q_ready_popped; exact (proj2 Hu)|]
 | apply IG_upd_chan; [intros ch0 Hp x Hx; cbn in Hx; apply in_app_or in Hx; destruct Hx as [Hx|[<-|[]]]; [apply Hp; exact Hx|cbn; exact (proj1 Hu)]|] ].

Lemma IG_consumer_turn G cfg fx s c h tag : IG G s -> IG G (fst (consumer_turn cfg fx s c h tag)).
Proof.
  intros H. unfold consumer_turn.
  destruct (get_chan s c h) as [ch|] eqn:Ech; auto.
  destruct (find_consumer ch tag) as [cm|] eqn:Efc; auto.
  destruct (negb (c_token cm)); auto.
  set (s0 := set_chan s c h _).
  assert (H0 : IG G s0) by (subst s0; eapply IG_set_chan_same; eauto).
  clearbody s0.
  destruct (c_status cm); auto.
  all: destruct (get_queue s0 (c_queue cm)) as [qu|] eqn:Eq; auto.
  all: destruct (negb (q_active qu)); auto.
  all: destruct (q_ready qu) as [|u rest] eqn:Erd; auto.
  all: assert (Hu : G u /\ forall x, In x rest -> G x)
         by (pose proof (allq_get _ _ _ _ (proj1 (proj2 H0)) Eq) as Hq; unfold QG in Hq; rewrite Erd in Hq;
             split; [apply Hq; left; reflexivity|intros x Hx; apply Hq; right; exact Hx]).
  all: match goal with |- context [if c_noack ?cm0 then (Some [], []) else ?r] => destruct (if c_noack cm0 then (Some [], []) else r) as [okr ws] end.
  all: set (s1 := if c_noack cm then s0 else store_windows cfg s0 c h tag ws).
  all: assert (H1 : IG G s1) by (subst s1; destruct (c_noack cm); auto; apply IG_store_windows; auto).
  all: clearbody s1.
  all: destruct okr; cbn [fst]; auto.
  all: match goal with |- context [wake_consumer ?st ?c0 ?h0 ?tag0] => destruct (wake_consumer st c0 h0 tag0) as [s9 b9] eqn:Ew;
         apply fst_pair in Ew; cbn [fst]; subst s9; apply IG_wake end.
  all: repeat igstep Hu.
Qed.

Lemma PG_orphan G c h ch tag : PG G c h ch -> PG G c h (ch <| ch_unacked ::= map (orphan tag) |>).
Proof.
  unfold PG. cbn. intros H x Hx. apply in_map_iff in Hx. destruct Hx as (x0 & <- & Hx0).
  destruct (orphan_fields tag x0) as (_ & -> & _). auto.
Qed.

Lemma queue_found_get s qn qu : queue_found s qn = Some qu -> get_queue s qn = Some qu.
Proof. unfold queue_found. destruct (get_queue s qn) as [q0|]; [|discriminate]. destruct (q_active q0); intros E; inversion E; reflexivity. Qed.

Theorem IG_handle_method G cfg fx s c h m : IG G s -> IG G (fst (fst (handle_method cfg fx s c h m))).
Proof.
  intros H. unfold handle_method.
  destruct (get_chan s c h) as [ch|] eqn:Hch; [|exact H].
  destruct m; unfold ok, refuse.
  - destruct (ch_status ch); cbn [fst]; auto.
    + eapply IG_set_chan_same; eauto.
    + eapply IG_set_chan_same; eauto.
    + apply IG_set_chan; auto. destruct (fx_reopen_resets fx); [intros x []|]. eapply PG_same; [|exact (proj1 H _ _ _ Hch)]. reflexivity.
  - cbn [fst]. apply IG_channel_close; auto.
  - cbn [fst]. destruct (fx_closeok_releases fx); [apply IG_channel_close; auto|eapply IG_set_chan_same; eauto].
  - cbn [fst]. destruct (Bool.eqb _ _); auto. destruct a; (eapply IG_set_chan_same; eauto).
  - destruct (extype_of type); [|exact H].
    repeat match goal with |- context [if ?b then _ else _] => destruct b end; cbn [fst]; auto.
    all: repeat match goal with |- context [match ?x with _ => _ end] => destruct x end; cbn [fst]; auto.
    all: try (eapply IG_same; [| |exact H]; reflexivity).
  - destruct (fx_not_impl fx); exact H.
  - destruct (seqb name ""); [exact H|].
    destruct (queue_found s name) as [qu|].
    + repeat match goal with |- context [if ?b then _ else _] => destruct b end; cbn [fst]; auto.
    + destruct passive; [destruct nowait; exact H|]. cbn [fst].
      match goal with |- IG ?G0 (set ?proj ?f ?st) => apply (IG_same G0 st); [reflexivity|reflexivity|] end.
      apply IG_set_queue; [intros x []|]. eapply IG_same; [| |exact H]; reflexivity.
  - destruct (alookup _ _ _); [|exact H]. destruct (seqb ex ""); [exact H|].
    destruct (queue_found s q); [|exact H]. destruct (locked _ _); [exact H|]. destruct (bad_xmatch _); [exact H|]. destruct (extype_eqb _ ExTopic && bad_pattern _)%bool; [exact H|]. cbn [fst].
    eapply IG_same; [| |exact H]; reflexivity.
  - destruct (alookup _ _ _); [|exact H]. destruct (queue_found s q); [|exact H]. destruct (locked _ _); [exact H|]. destruct (bad_xmatch _); [exact H|]. destruct (extype_eqb _ ExTopic && bad_pattern _)%bool; [exact H|]. cbn [fst].
    eapply IG_same; [| |exact H]; reflexivity.
  - (* MQPurge *)
    destruct (queue_found s q) as [qu|]; [|exact H]. destruct (locked _ _); [exact H|]. cbn [fst].
    apply IG_set_queue; [intros x []|].
    apply (IG_sub G s); [| | | |exact H].
    + destruct (q_durable qu); reflexivity.
    + intros kq Hk. destruct (q_durable qu); exact Hk.
    + intros k Hk. destruct (q_durable qu); exact Hk.
    + intros k Hk. destruct (q_durable qu); [|exact Hk]. apply (filter_In (fun k0 : N * string => negb (seqb (snd k0) q))) in Hk. tauto.
  - destruct (queue_found s q); [|exact H]. destruct (locked _ _); [exact H|].
    pose proof (IG_vhost_delete_queue G (negb (fx_delete_checks_first fx)) s q ifunused ifempty H) as Hd.
    destruct (vhost_delete_queue _ s q ifunused ifempty) as [[s1 e1] r1]. cbn [fst] in *. destruct r1; exact Hd.
  - (* MQos *)
    cbn [fst]. apply IG_wake_consumers. destruct (cfg_rabbit cfg); [destruct glob; (eapply IG_set_chan_same; eauto)|].
    destruct glob; [|eapply IG_set_chan_same; eauto]. destruct (get_conn s c) eqn:Ec; auto. apply IG_conn_qos; auto.
  - (* MPublish *)
    destruct imm; [exact H|]. destruct (alookup _ _ _); [|exact H].
    destruct (ch_confirm ch); cbn [fst]; (apply IG_set_chan; [eapply PG_same; [|exact (proj1 H _ _ _ Hch)]; reflexivity|]);
      (eapply IG_same; [| |exact H]; reflexivity).
  - (* MConsume *)
    destruct (queue_found s q) as [qu|] eqn:Eqf; [|exact H]. apply queue_found_get in Eqf.
    destruct (fx_excl_owner fx && locked qu c); [exact H|].
    destruct (find_consumer ch _); [exact H|].
    destruct (_ && _)%bool; cbn [fst].
    + eapply IG_set_queue_same; eauto.
    + apply IG_set_chan; [eapply PG_same; [|exact (proj1 H _ _ _ Hch)]; reflexivity|].
      assert (X : IG G (set_queue s q (call_consumers ((if excl then qu <| q_wasconsumed := true |> <| q_cexcl := true |> else qu <| q_wasconsumed := true |>)
                                                        <| q_consumers ::= fun l => l ++ [(c, h, eff_tag s tag)] |>)))).
      { eapply IG_set_queue_same; eauto. unfold call_consumers. destruct excl; destruct (q_active _); reflexivity. }
      destruct (seqb tag ""%string); (eapply IG_same; [| |exact X]; reflexivity).
  - (* MCancel *)
    destruct (find_consumer ch tag); [|exact H]. cbn [fst].
    apply IG_upd_chan; [intros ch0; apply PG_orphan|]. apply IG_upd_chan_same; [reflexivity|]. apply IG_consumer_stop. exact H.
  - (* MGet *)
    destruct (queue_found s q) as [qu|] eqn:Eqf; [|exact H]. apply queue_found_get in Eqf.
    destruct (fx_excl_owner fx && locked qu c); [exact H|].
    destruct (q_ready qu) as [|u rest] eqn:Erd; [exact H|].
    assert (Hu : G u /\ forall x, In x rest -> G x)
      by (pose proof (allq_get _ _ _ _ (proj1 (proj2 H)) Eqf) as Hq; unfold QG in Hq; rewrite Erd in Hq;
          split; [apply Hq; left; reflexivity|intros x Hx; apply Hq; right; exact Hx]).
    match goal with |- context [if noack then (Some [], []) else ?r] => destruct (if noack then (Some [], []) else r) as [okr ws] end.
    set (s1 := match ws with [w1; w2] => _ | _ => s end).
    assert (H1 : IG G s1).
    { subst s1. destruct ws as [|w1 [|w2 [|]]]; auto.
      destruct (get_conn _ c) eqn:Ec; [apply IG_conn_qos; auto|]; (eapply IG_set_chan_same; eauto). }
    clearbody s1.
    destruct okr; cbn [fst]; [|exact H1].
    destruct noack; repeat igstep Hu.
  - pose proof (IG_handle_ack G cfg s c h tag mult H) as Ha.
    destruct (handle_ack cfg s c h tag mult) as [s1 e1]. exact Ha.
  - pose proof (IG_handle_reject G cfg s c h tag mult requeue 60 120 H) as Ha.
    destruct (handle_reject cfg s c h tag mult requeue 60 120) as [s1 e1]. exact Ha.
  - pose proof (IG_handle_reject G cfg s c h tag false requeue 60 90 H) as Ha.
    destruct (handle_reject cfg s c h tag false requeue 60 90) as [s1 e1]. exact Ha.
  - exact H.
  - cbn [fst]. eapply IG_set_chan_same; eauto.
  - destruct (fx_not_impl fx); exact H.
  - exact H.
  - exact H.
  - destruct good; [cbn [fst]|exact H]. eapply IG_of_chan; [apply qst_set_stage|apply allch_set_stage; exact (proj1 H)|exact H].
  - destruct within; [cbn [fst]|exact H]. eapply IG_of_chan; [apply qst_set_stage|apply allch_set_stage; exact (proj1 H)|exact H].
  - destruct vhost_ok; [cbn [fst]|exact H]. eapply IG_of_chan; [apply qst_set_stage|apply allch_set_stage; exact (proj1 H)|exact H].
Qed.

(* ---- the invariant ---- *)
Definition mcomplete (m : msg) : Prop := m_has_header m = true /\ m_size m = m_hsize m.
Definition Ref (s : state) (u : N) : Prop := u < next_uid s /\ (forall m, get_msg s u = Some m -> mcomplete m).
Definition HP (s : state) : Prop := forall u m, get_msg s u = Some m -> u < next_uid s /\ (m_has_header m = false -> m_size m = 0).
Definition RCI (s : state) : Prop := HP s /\ IG (Ref s) s.

Lemma veq_view s s' x m' : veq s s' -> get_msg s' x = Some m' -> exists m, get_msg s x = Some m /\ mview m' = mview m.
Proof.
  intros [_ E] Hg. specialize (E x). rewrite Hg in E. destruct (get_msg s x) as [m|]; cbn in E; [|discriminate]. exists m. split; [reflexivity|congruence].
Qed.
Lemma Ref_veq s s' u : veq s s' -> Ref s u -> Ref s' u.
Proof.
  intros Hv [A B]. split; [rewrite (proj1 Hv); exact A|]. intros m' Hg. destruct (veq_view _ _ _ _ Hv Hg) as (m & Hm & Ev).
  destruct (B m Hm) as [C D]. unfold mview in Ev. inversion Ev. split; congruence.
Qed.
Lemma HP_veq s s' : veq s s' -> HP s -> HP s'.
Proof.
  intros Hv H u m' Hg. destruct (veq_view _ _ _ _ Hv Hg) as (m & Hm & Ev). destruct (H u m Hm) as [A B].
  unfold mview in Ev. inversion Ev. split; [rewrite (proj1 Hv); exact A|]. intros X. rewrite X in *. rewrite H2. apply B. congruence.
Qed.
Lemma IG_mono (G G' : N -> Prop) s : (forall u, G u -> G' u) -> IG G s -> IG G' s.
Proof.
  intros Hg (Hc & Hq & Ha & Hd). split; [|split; [|split]].
  - intros c h ch Hgc x Hx. apply Hg. exact (Hc _ _ _ Hgc x Hx).
  - intros qn qu Hin u Hu. apply Hg. exact (Hq _ _ Hin u Hu).
  - intros k Hk. apply Hg. auto.
  - intros k Hk. apply Hg. auto.
Qed.
Lemma RCI_lift s s' : veq s s' -> HP s -> IG (Ref s) s' -> RCI s'.
Proof. intros Hv Hp Hi. split; [eapply HP_veq; eauto|]. eapply IG_mono; [|exact Hi]. intros u. apply Ref_veq. exact Hv. Qed.

Lemma get_msg_upd_msg s u F m x : get_msg s u = Some m -> get_msg (upd_msg s u F) x = if x =? u then Some (F m) else get_msg s x.
Proof. intros E. unfold upd_msg. rewrite E. unfold get_msg. cbn. rewrite (alookup_aset N.eqb Neqb_spec). reflexivity. Qed.
Lemma next_uid_upd_msg s u F : next_uid (upd_msg s u F) = next_uid s.
Proof. unfold upd_msg. destruct (get_msg s u); reflexivity. Qed.

Lemma veq_queue_push s qn u : veq s (queue_push s qn u).
Proof.
  unfold queue_push. destruct (get_queue s qn) as [qu|]; [|apply veq_refl]. destruct (get_msg s u) as [m|]; [|apply veq_refl].
  destruct (negb _); [apply veq_refl|]. cbv zeta. destruct (_ && _)%bool; [apply veq_hn; reflexivity|].
  destruct (m_conf m); [|apply veq_hn; reflexivity].
  eapply veq_trans; [|apply veq_hn; reflexivity].
  eapply veq_trans; [|apply (veq_upd_msg _ u (fun m => m <| m_actual ::= Z.succ |>)); reflexivity]. apply veq_hn. reflexivity.
Qed.
Lemma veq_store_confirm s u : veq s (store_confirm s u).
Proof.
  unfold store_confirm. destruct (get_msg s u) as [m|]; [|apply veq_refl]. destruct (m_conf m); [|apply veq_refl].
  destruct (_ =? _)%Z; [eapply veq_trans; [|apply veq_hn; reflexivity]|]; apply (veq_upd_msg _ u (fun m => m <| m_actual ::= Z.succ |>)); reflexivity.
Qed.
Lemma qst_store_confirm s u : qst (store_confirm s u) = qst s.
Proof.
  unfold store_confirm. destruct (get_msg s u) as [m|]; auto. destruct (m_conf m); auto.
  destruct (_ =? _)%Z; qstset; apply qst_upd_msg.
Qed.

Lemma in_sort_desc_N x l : In x (sort_desc_N l) -> In x l.
Proof.
  unfold sort_desc_N. induction l as [|a t IH]; cbn [fold_right]; auto. intros H.
  assert (Hins : forall acc, In x ((fix ins (l : list N) : list N := match l with [] => [a] | y :: t => if y <? a then a :: l else y :: ins t end) acc) -> a = x \/ In x acc).
  { induction acc as [|y r IHr]; cbn; [tauto|]. destruct (y <? a); cbn; [tauto|]. intros [Hy|Hr]; [tauto|]. destruct (IHr Hr); tauto. }
  apply Hins in H. destruct H as [->|H]; [left; reflexivity|right; apply IH; exact H].
Qed.
Lemma alookup_map_snd {V W} (f : V -> W) k (l : list (N * V)) :
  alookup N.eqb k (map (fun kv => (fst kv, f (snd kv))) l) = option_map f (alookup N.eqb k l).
Proof. induction l as [|[k0 v0] t IH]; cbn; [reflexivity|]. destruct (k =? k0); [reflexivity|exact IH]. Qed.

Lemma RCI_restart cfg s : RCI s -> RCI (fst (restart cfg s)).
Proof.
  intros [Hp Hi]. apply (RCI_lift s).
  - unfold restart. cbn [fst]. split; [reflexivity|]. intros x. unfold get_msg. cbn [heap].
    rewrite (alookup_map_snd (fun m => m <| m_conf := None |>)). destruct (alookup N.eqb x (heap s)); reflexivity.
  - exact Hp.
  - destruct Hi as (_ & _ & _ & Hd). unfold restart. cbn [fst]. split; [|split; [|split]].
    + intros c h ch Hg. unfold get_chan, get_conn in Hg. cbn in Hg. discriminate.
    + intros qn qu Hin u Hu. cbn [queues] in Hin. apply in_map_iff in Hin. destruct Hin as ([q0 qu0] & E & _). inversion E; subst. clear E.
      cbn in Hu. unfold stored_of, sort_asc_N in Hu. apply in_rev in Hu. apply in_sort_desc_N in Hu. apply in_map_iff in Hu.
      destruct Hu as (k & <- & Hk). apply filter_In in Hk. apply Hd. tauto.
    + intros k [].
    + intros k Hk. cbn in Hk. apply filter_In in Hk. apply Hd. tauto.
Qed.

Lemma RCI_persist cfg fx s : RCI s -> RCI (fst (step cfg fx s LPersistTick)).
Proof.
  intros [Hp Hi]. cbn [step fst].
  set (add := filter _ (st_add s)). set (settled := filter _ (st_add s)). set (del := filter _ (st_del s)).
  set (fresh := filter _ add). set (db := filter _ (st_db s ++ fresh)).
  set (s1 := s <| st_db := db |> <| st_add := [] |> <| st_del := [] |>).
  assert (V1 : veq s s1) by (apply veq_hn; reflexivity).
  assert (I1 : IG (Ref s) s1).
  { destruct Hi as (Hc & Hq & Ha & Hd). split; [exact Hc|]. split; [exact Hq|]. split; [intros k []|].
    intros k Hk. change (st_db s1) with db in Hk. subst db. apply filter_In in Hk. destruct Hk as [Hk _]. apply in_app_or in Hk.
    destruct Hk as [Hk|Hk]; [auto|]. subst fresh add. apply filter_In in Hk. destruct Hk as [Hk _]. apply filter_In in Hk. apply Ha. tauto. }
  clearbody s1.
  assert (X : veq s (fold_left (fun s k => store_confirm s (fst k)) (add ++ settled) s1) /\ IG (Ref s) (fold_left (fun s k => store_confirm s (fst k)) (add ++ settled) s1)).
  { apply (fold_left_preserves (fun st => veq s st /\ IG (Ref s) st)); [|split; auto].
    intros s0 k [A B]. split; [eapply veq_trans; [exact A|apply veq_store_confirm]|eapply IG_same; [apply conns_store_confirm|apply qst_store_confirm|exact B]]. }
  destruct X as [A B]. eapply RCI_lift; eauto.
Qed.

(* basic.publish: one fresh message, without a header and without content *)
Lemma publish_heap cfg fx s c h ex key mand imm :
  let s' := fst (fst (handle_method cfg fx s c h (MPublish ex key mand imm))) in
  hn s' = hn s \/
  (next_uid s' = next_uid s + 1 /\ exists m0, m_has_header m0 = false /\ m_size m0 = 0 /\
     forall x, get_msg s' x = if x =? next_uid s then Some m0 else get_msg s x).
Proof.
  cbv zeta. unfold handle_method. destruct (get_chan s c h) as [ch|] eqn:Hch; [|left; reflexivity]. unfold ok, refuse.
  destruct imm; [left; reflexivity|]. destruct (alookup _ _ _); [|left; reflexivity].
  right. destruct (ch_confirm ch); cbn [fst].
  all: match goal with |- context [set_chan ?st ?c0 ?h0 ?chx] =>
         pose proof (f_equal fst (hn_set_chan st c0 h0 chx)) as E1; pose proof (f_equal snd (hn_set_chan st c0 h0 chx)) as E2;
         cbn [hn fst snd] in E1, E2; set (s' := set_chan st c0 h0 chx) in * end.
  all: split; [rewrite E2; reflexivity|]; eexists; split; [|split; [|intros x; unfold get_msg; rewrite E1; cbn; rewrite (alookup_aset N.eqb Neqb_spec); reflexivity]]; reflexivity.
Qed.

Lemma RCI_handle_method cfg fx s c h m : RCI s -> RCI (fst (fst (handle_method cfg fx s c h m))).
Proof.
  intros [Hp Hi]. pose proof (IG_handle_method (Ref s) cfg fx s c h m Hi) as Hi'.
  destruct (is_publish m) eqn:Ep; [|eapply RCI_lift; [apply veq_handle_method; exact Ep|exact Hp|exact Hi']].
  destruct m; try discriminate Ep.
  destruct (publish_heap cfg fx s c h ex key mand imm) as [E|(En & m0 & Eh & Ez & Eg)]; cbv zeta in *.
  - eapply RCI_lift; [apply veq_hn; exact E|exact Hp|exact Hi'].
  - set (s' := fst (fst (handle_method cfg fx s c h (MPublish ex key mand imm)))) in *. clearbody s'. split.
    + intros x m' Hg. rewrite Eg in Hg. destruct (x =? next_uid s) eqn:E1.
      * apply N.eqb_eq in E1. inversion Hg; subst. split; [lia|auto].
      * destruct (Hp x m' Hg) as [A B]. split; [lia|exact B].
    + eapply IG_mono; [|exact Hi']. intros x [A B]. split; [lia|]. intros m' Hg. rewrite Eg in Hg.
      destruct (x =? next_uid s) eqn:E1; [apply N.eqb_eq in E1; lia|]. apply B. exact Hg.
Qed.

Theorem RCI_step cfg fx s l : RCI s -> RCI (fst (step cfg fx s l)).
Proof.
  intros H.
  apply (D2_step_any cfg fx RCI Ref).
  - intros s0 c h [A B]. eapply RCI_lift; [apply veq_channel_close|exact A|apply IG_channel_close; exact B].
  - intros b s0 qn iu ie [A B]. eapply RCI_lift; [apply veq_hn, hn_vhost_delete_queue|exact A|apply IG_vhost_delete_queue; exact B].
  - intros s0 c [A B]. eapply RCI_lift; [apply veq_hn; reflexivity|exact A|].
    apply (IG_of_chan _ s0); [reflexivity|apply allch_del_conn; exact (proj1 B)|exact B].
  - intros s0 c h [A B]. eapply RCI_lift; [apply veq_hn, hn_upd_chan|exact A|apply IG_upd_chan_same; [reflexivity|exact B]].
  - intros s0 c h [A B]. eapply RCI_lift; [apply veq_hn, hn_ensure_chan|exact A|].
    apply (IG_of_chan _ s0); [apply qst_ensure_chan| |exact B]. apply allch_ensure; [|exact (proj1 B)]. intros ? ? x [].
  - intros s0 c h [A B]. eapply RCI_lift; [apply veq_hn, hn_upd_chan|exact A|apply IG_upd_chan_same; [reflexivity|exact B]].
  - intros s0 c h t [A B]. eapply RCI_lift; [apply veq_hn, hn_add_confirm|exact A|apply IG_add_confirm; exact B].
  - intros s0 c h tag [A B]. eapply RCI_lift; [apply veq_hn, hn_wake_consumer|exact A|apply IG_wake; exact B].
  - intros s0 c st En [A B]. eapply RCI_lift; [apply veq_hn; reflexivity|exact A|].
    apply (IG_of_chan _ s0); [reflexivity| |exact B]. apply allch_newconn; [|exact (proj1 B)]. intros ? x [].
  - intros s0. apply RCI_restart.
  - intros s0 c h ch E [A B]. split; (eapply RCI_lift; [apply veq_hn, hn_set_chan|exact A|eapply IG_set_chan_same; eauto]).
  - intros s0 qn u Hu [A B]. eapply RCI_lift; [apply veq_queue_push|exact A|apply IG_queue_push; auto].
  - intros s0 qn u v Hv. eapply Ref_veq; [apply veq_queue_push|exact Hv].
  - intros s0 c h t v Hv. eapply Ref_veq; [apply veq_hn, hn_add_confirm|exact Hv].
  - intros s0 u z [A B]. eapply RCI_lift; [apply (veq_upd_msg _ u (fun m => m <| m_expected := z |>)); reflexivity|exact A|].
    eapply IG_same; [apply conns_upd_msg|apply qst_upd_msg|exact B].
  - intros s0 u z v Hv. eapply Ref_veq; [apply (veq_upd_msg _ u (fun m => m <| m_expected := z |>)); reflexivity|exact Hv].
  - intros s0 qn qu qu' Eq Er [A B]. eapply RCI_lift; [apply veq_hn; reflexivity|exact A|eapply IG_set_queue_same; eauto].
  - intros s0 rest [A B]. eapply RCI_lift; [apply veq_hn; reflexivity|exact A|eapply IG_same; [| |exact B]; reflexivity].
  - intros s0 rest [A B]. eapply RCI_lift; [apply veq_hn; reflexivity|exact A|eapply IG_same; [| |exact B]; reflexivity].
  - intros s0. apply RCI_persist.
  - intros c h m Hg. apply RCI_handle_method.
  - intros c h tag. destruct H as [A B]. eapply RCI_lift; [apply veq_hn, hn_consumer_turn|exact A|apply IG_consumer_turn; exact B].
  - (* header *)
    intros c h ch u m mid size pers Ech Ecur Em Ehh [A B].
    set (F := fun m : msg => m <| m_has_header := true |> <| m_hsize := size |> <| m_pers := pers |> <| m_mid := mid |>).
    set (s1 := ensure_chan s c h) in *. clearbody s1.
    assert (Hr : forall x, Ref s1 x -> Ref (upd_msg s1 u F) x).
    { intros x [X Y]. split; [rewrite next_uid_upd_msg; exact X|]. intros m' Hg. rewrite (get_msg_upd_msg _ _ F m x Em) in Hg.
      destruct (x =? u) eqn:E1; [|apply Y; exact Hg]. apply N.eqb_eq in E1. subst x. destruct (Y m Em) as [Z _]. congruence. }
    split; [split|].
    + intros x m' Hg. rewrite next_uid_upd_msg. rewrite (get_msg_upd_msg _ _ F m x Em) in Hg. destruct (x =? u) eqn:E1; [|apply A; exact Hg].
      apply N.eqb_eq in E1. subst x. inversion Hg; subst. split; [exact (proj1 (A u m Em))|]. cbn. discriminate.
    + eapply IG_mono; [exact Hr|]. eapply IG_same; [apply conns_upd_msg|apply qst_upd_msg|exact B].
    + intros Ez. split; [rewrite next_uid_upd_msg; exact (proj1 (A u m Em))|]. intros m' Hg. rewrite (get_msg_upd_msg _ _ F m u Em), N.eqb_refl in Hg.
      inversion Hg; subst. split; [reflexivity|]. cbn. exact (proj2 (A u m Em) Ehh).
  - (* body *)
    intros c h ch u m len Ech Ecur Em Ehh Elt [A B].
    set (F := fun m : msg => m <| m_body ::= fun b => b ++ [len] |> <| m_size ::= fun z => z + len |>).
    set (s1 := ensure_chan s c h) in *. clearbody s1. apply N.ltb_ge in Elt.
    assert (Hr : forall x, Ref s1 x -> Ref (upd_msg s1 u F) x).
    { intros x [X Y]. split; [rewrite next_uid_upd_msg; exact X|]. intros m' Hg. rewrite (get_msg_upd_msg _ _ F m x Em) in Hg.
      destruct (x =? u) eqn:E1; [|apply Y; exact Hg]. apply N.eqb_eq in E1. subst x. destruct (Y m Em) as [Z1 Z2].
      inversion Hg; subst. split; [exact Z1|]. cbn. lia. }
    split; [split|].
    + intros x m' Hg. rewrite next_uid_upd_msg. rewrite (get_msg_upd_msg _ _ F m x Em) in Hg. destruct (x =? u) eqn:E1; [|apply A; exact Hg].
      apply N.eqb_eq in E1. subst x. inversion Hg; subst. split; [exact (proj1 (A u m Em))|]. cbn. congruence.
    + eapply IG_mono; [exact Hr|]. eapply IG_same; [apply conns_upd_msg|apply qst_upd_msg|exact B].
    + intros E2. apply N.ltb_ge in E2. split; [rewrite next_uid_upd_msg; exact (proj1 (A u m Em))|]. intros m' Hg.
      rewrite (get_msg_upd_msg _ _ F m u Em), N.eqb_refl in Hg. inversion Hg; subst. split; [exact Ehh|]. cbn. lia.
  - exact H.
Qed.

Theorem RCI_run cfg fx ls : forall s, RCI s -> RCI (fst (run cfg fx s ls)).
Proof.
  induction ls as [|l t IH]; intros s H; simpl; auto.
  pose proof (RCI_step cfg fx s l H) as H1.
  destruct (step cfg fx s l) as [s1 e1]. cbn [fst] in H1.
  specialize (IH s1 H1). destruct (run cfg fx s1 t) as [s2 e2]. exact IH.
Qed.
Lemma RCI_init cfg : RCI (init cfg).
Proof.
  split; [intros u m Hg; unfold get_msg in Hg; cbn in Hg; discriminate|]. split; [|split; [|split]].
  - intros c h ch Hg. unfold get_chan, get_conn in Hg. cbn in Hg. discriminate.
  - intros qn qu [].
  - intros k [].
  - intros k [].
Qed.
Lemma RCI_UC s : RCI s -> UC s.
Proof.
  intros [_ (Hc & _)] c h ch x Hg Hx. destruct (Hc _ _ _ Hg x Hx) as [A B]. split; [exact A|]. intros m Hm. exact (proj2 (B m Hm)).
Qed.

(* ---- the byte ledger in every reachable state ---- *)
Fixpoint smallb_along (cfg : config) (fx : fixes) (s : state) (ls : list label) : Prop :=
  SmallB s /\ match ls with [] => True | l :: t => smallb_along cfg fx (fst (step cfg fx s l)) t end.

Lemma bytes_along_of_small cfg fx ls :
  forall s, RCI s -> smallb_along cfg fx s ls -> bytes_along cfg fx s ls.
Proof.
  induction ls as [|l t IH]; intros s Hr Hs; cbn [smallb_along bytes_along] in *.
  - split; auto. split; [apply RCI_UC; exact Hr|exact (proj1 Hs)].
  - destruct Hs as [Hs Ht]. split; [split; [apply RCI_UC; exact Hr|exact Hs]|]. apply IH; auto. apply RCI_step; auto.
Qed.

Lemma bsum_fold f l : bsum f l = fold_right (fun x acc => f (u_msg x) + acc) 0 l.
Proof. induction l as [|a t IH]; cbn; [reflexivity|]. rewrite IH. reflexivity. Qed.

Theorem byte_ledger_reachable cfg fx ls c h ch :
  cfg_rollback cfg = true ->
  smallb_along cfg fx (init cfg) ls ->
  let s := fst (run cfg fx (init cfg) ls) in
  get_chan s c h = Some ch ->
  cs (ch_qos ch) = fold_right (fun x acc => msg_size s (u_msg x) mod two32 + acc) 0 (ch_unacked ch).
Proof.
  intros Hrb Hs s Hg.
  pose proof (byte_ledger_reachable_partial cfg fx ls c h ch Hrb
                (bytes_along_of_small cfg fx ls (init cfg) (RCI_init cfg) Hs) Hg) as Hl.
  rewrite Hl. apply bsum_fold.
Qed.

(* every message that an unsettled delivery, a queue or the persistent store refers to was allocated, and - if the heap
   holds it - has its header and all of its announced content: its size no longer changes *)
Theorem references_complete_reachable cfg fx ls : RCI (fst (run cfg fx (init cfg) ls)).
Proof. apply RCI_run. apply RCI_init. Qed.

(* under a prefetch-size N > 0 the channel window accepts a delivery only while the unsettled bytes plus its own stay
   within N *)
Theorem delivery_only_below_size_limit f ch size w' :
  bl f 0 ch -> bsum f (ch_unacked ch) + size < two32 ->
  qos_inc (ch_qos ch) size = Some w' -> ps (ch_qos ch) <> 0 ->
  bsum f (ch_unacked ch) + size <= ps (ch_qos ch) /\ cs w' = bsum f (ch_unacked ch) + size.
Proof.
  intros Hl Hsm Hi Hp. unfold bl in Hl. rewrite N.add_0_r in Hl. unfold qos_inc in Hi.
  destruct (_ && ((ps (ch_qos ch) =? 0) || ((cs (ch_qos ch) + size) mod two32 <=? ps (ch_qos ch)))) eqn:E; [|discriminate].
  inversion Hi; subst. cbn. apply andb_prop in E. destruct E as [_ E].
  rewrite N.mod_small in * by (rewrite Hl; exact Hsm).
  apply orb_prop in E. destruct E as [E|E]; [apply N.eqb_eq in E; contradiction|]. apply N.leb_le in E. rewrite Hl in *. split; [exact E|reflexivity].
Qed.

Definition smallbb (s : state) : bool :=
  forallb (fun kc : N * conn => forallb (fun kh : N * channel =>
    forallb (fun kq : string * queue => match q_ready (snd kq) with [] => true | u :: _ => bsum (msz s) (ch_unacked (snd kh)) + msz s u <? two32 end) (queues s))
    (cn_chans (snd kc))) (conns s).
Lemma smallbb_spec s : smallbb s = true -> SmallB s.
Proof.
  intros H c h ch q qu u rest Hg Hq Hr. unfold get_chan, get_conn in Hg. destruct (alookup N.eqb c (conns s)) as [cn|] eqn:Ec; [|discriminate].
  apply (alookup_in N.eqb Neqb_spec) in Ec, Hg. unfold get_queue in Hq. apply (alookup_in seqb seqb_spec) in Hq.
  unfold smallbb in H. rewrite forallb_forall in H. specialize (H _ Ec). cbn in H. rewrite forallb_forall in H. specialize (H _ Hg). cbn in H.
  rewrite forallb_forall in H. specialize (H _ Hq). cbn in H. rewrite Hr in H. apply N.ltb_lt in H. exact H.
Qed.
Fixpoint smallb_alongb (cfg : config) (fx : fixes) (s : state) (ls : list label) : bool :=
  smallbb s && match ls with [] => true | l :: t => smallb_alongb cfg fx (fst (step cfg fx s l)) t end.
Lemma smallb_alongb_spec cfg fx ls : forall s, smallb_alongb cfg fx s ls = true -> smallb_along cfg fx s ls.
Proof.
  induction ls as [|l t IH]; intros s H; cbn [smallb_alongb smallb_along] in *; apply andb_prop in H; destruct H as [A B];
    (split; [apply smallbb_spec; exact A|auto]).
Qed.

(* ------------------------------------------------------------------ *)
(* Part 6: the byte count of the consumer's own window (amqp-rabbit dialect); wf gives the size of a message *)
Section YBytes.
Variable wf : N -> N.
Definition ycview (ch : channel) : list (string * N) := map (fun cm => (c_tag cm, cs (c_own cm))) (ch_consumers ch).
(* the body bytes of the unsettled deliveries of a list that were made to the consumer tag t *)
Definition ycnt (l : list unacked) (t : string) : N := bsum wf (filter (fun u => seqb (u_ctag u) t) l).
Definition ykd (tag : string) (d : N) : string -> N := fun t => if seqb tag t then d else 0.
Definition yw (x : unacked) : string -> N := ykd (u_ctag x) (wf (u_msg x)).
Definition yk0 : string -> N := fun _ => 0.
Definition yk1 (tag : string) : string -> N := fun t => if seqb tag t then 1 else 0.
Definition ykadd (k k' : string -> N) : string -> N := fun t => k t + k' t.

(* as cinv, with the bytes of each consumer's own window against the body bytes of its own unsettled deliveries *)
Definition ycinv (k : string -> N) (ch : channel) : Prop :=
  NoDup (map fst (ycview ch)) /\ ~ In ""%string (map fst (ycview ch)) /\
  (forall u, In u (ch_unacked ch) -> u_ctag u <> ""%string -> In (u_ctag u) (map fst (ycview ch))) /\
  (forall t n, In (t, n) (ycview ch) -> n = ycnt (ch_unacked ch) t + k t) /\
  cs (ch_cqos ch) = 0.

Lemma ycnt_nil t : ycnt [] t = 0. Proof. reflexivity. Qed.
Lemma ycnt_cons a l t : ycnt (a :: l) t = yw a t + ycnt l t.
Proof. unfold ycnt, yw, ykd. cbn [filter]. destruct (seqb (u_ctag a) t); cbn [bsum]; lia. Qed.
Lemma ycnt_app l1 l2 t : ycnt (l1 ++ l2) t = ycnt l1 t + ycnt l2 t.
Proof. induction l1 as [|a l IH]; cbn [app]; [rewrite ycnt_nil; lia|]. rewrite !ycnt_cons, IH. lia. Qed.
Lemma ycnt_le l t : ycnt l t <= bsum wf l.
Proof. induction l as [|a l IH]; [cbn; lia|]. rewrite ycnt_cons. unfold yw, ykd. cbn [bsum]. destruct (seqb _ _); lia. Qed.
Lemma ycnt_zero l t : (forall u, In u l -> u_ctag u <> t) -> ycnt l t = 0.
Proof.
  induction l as [|a l IH]; intros H; [reflexivity|]. rewrite ycnt_cons, IH by (intros u Hu; apply H; right; exact Hu).
  unfold yw, ykd. destruct (seqb (u_ctag a) t) eqn:E; [|reflexivity]. apply seqb_spec in E. exfalso. apply (H a); [left; reflexivity|exact E].
Qed.
Lemma yfilter_all_true {A} (p : A -> bool) l : (forall x, In x l -> p x = true) -> filter p l = l.
Proof. induction l as [|a t IH]; intros H; cbn; auto. rewrite (H a (or_introl eq_refl)). f_equal. apply IH. intros x Hx. apply H. right. exact Hx. Qed.
Lemma ycnt_del l u t : NoDup (map u_tag l) -> In u l ->
  ycnt (filter (fun x => negb (u_tag x =? u_tag u)) l) t + yw u t = ycnt l t.
Proof.
  induction l as [|a r IH]; intros Hnd Hin; [destruct Hin|].
  cbn in Hnd. inversion Hnd as [|? ? Hni Hnd']; subst. cbn [filter]. destruct (u_tag a =? u_tag u) eqn:E; cbn [negb].
  - apply N.eqb_eq in E. assert (a = u).
    { destruct Hin as [->|Hin]; auto. exfalso. apply Hni. rewrite E. apply in_map. exact Hin. }
    subst a. rewrite yfilter_all_true, ycnt_cons; [lia|].
    intros x Hx. apply Bool.negb_true_iff. apply N.eqb_neq. intros Ex. apply Hni. rewrite <- Ex. apply in_map. exact Hx.
  - rewrite !ycnt_cons. destruct Hin as [->|Hin]; [rewrite N.eqb_refl in E; discriminate|]. rewrite <- (IH Hnd' Hin). lia.
Qed.
Lemma ycnt_orphan tag l t : t <> tag -> t <> ""%string -> ycnt (map (orphan tag) l) t = ycnt l t.
Proof.
  intros H1 H2. induction l as [|a r IH]; [reflexivity|]. cbn [map]. rewrite !ycnt_cons, IH. f_equal.
  unfold yw, ykd, orphan. destruct (seqb (u_ctag a) tag) eqn:E; cbn [u_ctag u_msg]; [|reflexivity].
  apply seqb_spec in E. rewrite E.
  destruct (seqb "" t) eqn:E1; [apply seqb_spec in E1; congruence|]. destruct (seqb tag t) eqn:E2; [apply seqb_spec in E2; congruence|]. reflexivity.
Qed.

Lemma yfst_cview ch : map fst (ycview ch) = map c_tag (ch_consumers ch).
Proof. unfold ycview. rewrite map_map. reflexivity. Qed.
Lemma yin_cview ch cm : In cm (ch_consumers ch) -> In (c_tag cm, cs (c_own cm)) (ycview ch).
Proof. intros H. unfold ycview. apply (in_map (fun cm => (c_tag cm, cs (c_own cm)))). exact H. Qed.

Lemma ycinv_keep k ch ch' :
  ch_unacked ch' = ch_unacked ch -> ycview ch' = ycview ch -> cs (ch_cqos ch') = cs (ch_cqos ch) -> ycinv k ch -> ycinv k ch'.
Proof. unfold ycinv. intros -> -> ->. auto. Qed.
Lemma ycinv_ext k k' ch : (forall t, k t = k' t) -> ycinv k ch -> ycinv k' ch.
Proof. unfold ycinv. intros E (A & B & C & D & F). repeat split; auto. intros t n Hin. rewrite <- E. auto. Qed.
Lemma ycinv_channel0 k : ycinv k channel0.
Proof. unfold ycinv. cbn. repeat split; auto; try constructor; intros; contradiction. Qed.

Lemma yconsume_msg_view cm : c_tag (fst (consume_msg cm)) = c_tag cm /\ c_own (fst (consume_msg cm)) = c_own cm.
Proof. unfold consume_msg. destruct (c_status cm); [destruct (c_token cm)|..]; cbn; auto. Qed.

Lemma ycview_map f l :
  (forall cm, In cm l -> c_tag (f cm) = c_tag cm /\ cs (c_own (f cm)) = cs (c_own cm)) ->
  map (fun cm => (c_tag cm, cs (c_own cm))) (map f l) = map (fun cm => (c_tag cm, cs (c_own cm))) l.
Proof. intros H. rewrite map_map. apply map_ext_in. intros cm Hin. destruct (H cm Hin) as [-> ->]. reflexivity. Qed.
Lemma ycview_upd_consumer ch tag f :
  (forall cm, In cm (ch_consumers ch) -> seqb (c_tag cm) tag = true -> c_tag (f cm) = c_tag cm /\ cs (c_own (f cm)) = cs (c_own cm)) ->
  ycview (upd_consumer ch tag f) = ycview ch.
Proof.
  intros H. unfold ycview, upd_consumer. cbn. apply ycview_map. intros cm Hin. destruct (seqb (c_tag cm) tag) eqn:E; auto.
Qed.

Lemma YNoDup_map_inj {A B} (f : A -> B) l x y : NoDup (map f l) -> In x l -> In y l -> f x = f y -> x = y.
Proof.
  induction l as [|a t IH]; intros Hnd Hx Hy E; [destruct Hx|]. cbn in Hnd. inversion Hnd as [|? ? Hni Hnd']; subst.
  destruct Hx as [->|Hx]; destruct Hy as [->|Hy]; auto.
  - exfalso. apply Hni. rewrite E. apply in_map. exact Hy.
  - exfalso. apply Hni. rewrite <- E. apply in_map. exact Hx.
Qed.

(* primitives that keep every channel's unsettled list, consumer tags and own-window counts *)
Section YVGen.
Variable P : N -> N -> channel -> Prop.
Hypothesis P_vkeep : forall c h ch ch',
  ch_unacked ch' = ch_unacked ch -> ycview ch' = ycview ch -> cs (ch_cqos ch') = cs (ch_cqos ch) -> P c h ch -> P c h ch'.
Hypothesis P_nodup : forall c h ch, P c h ch -> NoDup (map fst (ycview ch)).

Ltac yvkeep := apply allch_upd_chan; [intros ch0 Hch0; eapply P_vkeep; [..|exact Hch0]; try reflexivity|].
Ltac yvset Ech H := apply allch_set_chan; [eapply P_vkeep; [..|exact (H _ _ _ Ech)]; try reflexivity|].

Lemma YV_wake s c h tag : allch P s -> allch P (fst (wake_consumer s c h tag)).
Proof.
  intros H. unfold wake_consumer. destruct (get_chan s c h) as [ch|] eqn:E; auto.
  destruct (find_consumer ch tag) as [cm|] eqn:Ef; auto. destruct (consume_msg cm) as [cm' b] eqn:Ec. cbn [fst].
  yvset E H; auto. apply ycview_upd_consumer. intros x Hx Ex.
  apply find_consumer_in in Ef. destruct Ef as [Hin Et]. apply seqb_spec in Ex.
  assert (x = cm).
  { apply (YNoDup_map_inj c_tag (ch_consumers ch)); auto; [|congruence]. rewrite <- yfst_cview. eapply P_nodup. exact (H _ _ _ E). }
  subst x. pose proof (yconsume_msg_view cm) as Hv. rewrite Ec in Hv. cbn [fst] in Hv. destruct Hv as [-> ->]. auto.
Qed.

Lemma YV_consumer_stop s c h tag : allch P s -> allch P (consumer_stop s c h tag).
Proof.
  intros H. unfold consumer_stop. destruct (get_chan s c h) as [ch|] eqn:E; auto.
  destruct (find_consumer ch tag) as [cm|]; auto.
  destruct (c_status cm); auto; (eapply allch_same_conns; [apply (proj2 (proj2 (proj2 conns_queue_ops)))|]);
    (yvset E H; auto; apply ycview_upd_consumer; intros; cbn; auto).
Qed.

Lemma YV_wake_all s c h : allch P s -> allch P (wake_all_of_chan s c h).
Proof.
  intros H. unfold wake_all_of_chan. yvkeep; auto. unfold ycview. cbn. apply ycview_map. intros cm _.
  destruct (yconsume_msg_view cm) as [-> ->]. auto.
Qed.

Lemma YV_wake_consumers cfg s c h : allch P s -> allch P (wake_consumers cfg s c h).
Proof.
  intros H. unfold wake_consumers. pose proof (YV_wake_all s c h H) as H1.
  destruct (cfg_rabbit cfg); auto. destruct (get_conn _ c) as [cn|]; auto.
  apply fold_left_preserves; auto. intros s0 x H0. destruct (fst x =? h); auto. apply YV_wake_all; auto.
Qed.

Lemma YV_chan_ackmsg s u : allch P s -> allch P (chan_ackmsg s u).
Proof. intros H. unfold chan_ackmsg. destruct (origin_queue s u); repeat same_conns; auto. Qed.
Lemma YV_chan_rejectmsg s u r : allch P s -> allch P (chan_rejectmsg s u r).
Proof. intros H. unfold chan_rejectmsg. destruct (origin_queue s u); [destruct r|]; repeat same_conns; auto. Qed.

Lemma YV_cancel_fold l : forall s evs, allch P s ->
  allch P (fst (fold_left (fun acc x => let '(s, evs) := acc in let '(s', e) := consumer_cancel s x in (s', evs ++ e)) l (s, evs))).
Proof. induction l as [|[[c h] tag] t IH]; intros s evs H; simpl; auto. apply IH. apply YV_consumer_stop; auto. Qed.

Lemma YV_vhost_delete_queue b s qn iu ie : allch P s -> allch P (fst (fst (vhost_delete_queue b s qn iu ie))).
Proof.
  intros H. unfold vhost_delete_queue. destruct (get_queue s qn) as [qu|] eqn:Eq; auto.
  destruct (_ || _).
  - cbn [fst]. destruct b; [eapply allch_same_conns; [apply conns_set_queue|exact H]|exact H].
  - pose proof (YV_cancel_fold (q_consumers qu) s [] H) as Hf.
    destruct (fold_left _ (q_consumers qu) (s, [])) as [s1 e1]. cbn [fst] in *.
    repeat (first [ assumption | match goal with |- allch _ (if ?b then _ else _) => destruct b end | same_conns ]).
Qed.

Lemma YV_add_confirm s c h t : allch P s -> allch P (add_confirm s c h t).
Proof.
  intros H. unfold add_confirm. destruct (get_chan s c h) as [ch|] eqn:E; auto. destruct (negb _); auto.
  destruct (ch_status ch) eqn:Es; auto; destruct t as [[[? ?] ?]|]; auto; yvset E H; auto.
Qed.

Lemma YV_closing s c h : allch P s -> allch P (upd_chan s c h (fun ch => ch <| ch_status := ChClosing |>)).
Proof. intros H. yvkeep; auto. Qed.
Lemma YV_cur s c h : allch P s -> allch P (upd_chan s c h (fun ch => ch <| ch_cur := None |>)).
Proof. intros H. yvkeep; auto. Qed.
Lemma YV_tick s c h ch : get_chan s c h = Some ch -> allch P s ->
  allch P (set_chan s c h (ch <| ch_ticker := false |>)) /\ allch P (set_chan s c h (ch <| ch_confirmq := [] |>)).
Proof. intros E H. split; yvset E H; auto. Qed.

Section YVSettle.
Variables (c0 h0 : N).
Hypothesis P_del0 : forall ch tag, P c0 h0 ch -> P c0 h0 (del_unacked ch tag).
Hypothesis P_dec0 : forall ch t sz, P c0 h0 ch -> P c0 h0 (upd_consumer ch t (fun cm => cm <| c_own ::= fun w => qos_dec w sz |>)).

Lemma YV_dec_qos cfg s u : allch P s -> allch P (dec_qos_and_consume_next cfg s c0 h0 u).
Proof.
  intros H. unfold dec_qos_and_consume_next. destruct (get_chan s c0 h0) as [ch|]; auto.
  apply YV_wake_consumers.
  assert (H1 : allch P (upd_chan s c0 h0 (fun ch => ch <| ch_qos ::= fun w => qos_dec w (msg_size s (u_msg u) mod two32) |>))) by (yvkeep; auto).
  destruct (find_consumer ch (u_ctag u)).
  - destruct (cfg_rabbit cfg).
    + apply allch_upd_chan; auto.
    + destruct (get_conn _ c0) eqn:Ec; auto. eapply allch_set_conn_qos; eauto.
  - destruct (get_conn _ c0) eqn:Ec; auto. eapply allch_set_conn_qos; eauto.
Qed.

Lemma YV_handle_reject cfg s tag mult requeue cls mth : allch P s -> allch P (fst (handle_reject cfg s c0 h0 tag mult requeue cls mth)).
Proof.
  intros H. unfold handle_reject. destruct (get_chan s c0 h0) as [ch|]; auto.
  destruct mult.
  - cbn [fst]. apply fold_left_preserves; [intros; apply YV_dec_qos; auto|].
    apply fold_left_preserves; auto. intros s0 a H0. apply YV_chan_rejectmsg. apply allch_upd_chan; auto.
  - destruct (find _ _); cbn [fst]; auto. apply YV_dec_qos. apply YV_chan_rejectmsg. apply allch_upd_chan; auto.
Qed.
End YVSettle.
End YVGen.

(* ---- what each primitive does to one channel's consumer ledger ---- *)
Definition yvmap (t0 : string) (g : N -> N) (v : list (string * N)) : list (string * N) :=
  map (fun p => if seqb (fst p) t0 then (fst p, g (snd p)) else p) v.
Lemma yfst_vmap t0 g v : map fst (yvmap t0 g v) = map fst v.
Proof. unfold yvmap. rewrite map_map. apply map_ext. intros p. destruct (seqb (fst p) t0); reflexivity. Qed.
Lemma yin_vmap t0 g v t n' : In (t, n') (yvmap t0 g v) -> exists n, In (t, n) v /\ n' = if seqb t t0 then g n else n.
Proof.
  unfold yvmap. intros H. apply in_map_iff in H. destruct H as ([t1 n1] & E & Hin). cbn [fst snd] in E.
  exists n1. destruct (seqb t1 t0) eqn:Eb; injection E as E1 E2; rewrite <- E1, <- E2, Eb; auto.
Qed.
Lemma ycview_dec ch t0 sz :
  ycview (upd_consumer ch t0 (fun cm => cm <| c_own ::= fun w => qos_dec w sz |>)) = yvmap t0 (fun n => if n <? sz then 0 else n - sz) (ycview ch).
Proof.
  unfold ycview, yvmap, upd_consumer. cbn. rewrite !map_map. apply map_ext. intros cm. cbn. destruct (seqb (c_tag cm) t0); reflexivity.
Qed.
Lemma ycview_setown ch t0 b :
  ycview (upd_consumer ch t0 (fun cm => cm <| c_own := b |>)) = yvmap t0 (fun _ => cs b) (ycview ch).
Proof.
  unfold ycview, yvmap, upd_consumer. cbn. rewrite !map_map. apply map_ext. intros cm. cbn. destruct (seqb (c_tag cm) t0); reflexivity.
Qed.

Lemma ycinv_on_view k k' ch : (forall t, In t (map fst (ycview ch)) -> k t = k' t) -> ycinv k ch -> ycinv k' ch.
Proof.
  unfold ycinv. intros E (A & B & C & D & F). repeat split; auto. intros t n Hin. rewrite <- E; auto.
  apply (in_map fst) in Hin. exact Hin.
Qed.

Lemma ycinv_del k ch u :
  NoDup (map u_tag (ch_unacked ch)) -> In u (ch_unacked ch) -> ycinv k ch -> ycinv (ykadd k (yw u)) (del_unacked ch (u_tag u)).
Proof.
  intros Hnd Hin (A & B & C & D & F). unfold ycinv, del_unacked, ykadd. change (ycview (ch <| ch_unacked := _ |>)) with (ycview ch). cbn [ch_unacked ch_cqos set].
  repeat split; auto.
  - intros x Hx. apply filter_In in Hx. apply C. tauto.
  - intros t n Ht. rewrite (D t n Ht). rewrite <- (ycnt_del (ch_unacked ch) u t Hnd Hin). cbn. lia.
Qed.

Lemma yseqb_sym a b : seqb a b = seqb b a. Proof. apply String.eqb_sym. Qed.
Lemma yseqb_refl a : seqb a a = true. Proof. apply String.eqb_refl. Qed.

Lemma ycinv_dec_consumer k ch t0 sz :
  ycinv (ykadd k (ykd t0 sz)) ch -> ycinv k (upd_consumer ch t0 (fun cm => cm <| c_own ::= fun w => qos_dec w sz |>)).
Proof.
  intros (A & B & C & D & F). unfold ycinv. rewrite ycview_dec, yfst_vmap. change (ch_unacked (upd_consumer _ _ _)) with (ch_unacked ch).
  change (ch_cqos (upd_consumer _ _ _)) with (ch_cqos ch). repeat split; auto.
  intros t n' Hin. apply yin_vmap in Hin. destruct Hin as (n & Hin & ->). pose proof (D t n Hin) as Hn. unfold ykadd, ykd in Hn.
  rewrite (yseqb_sym t0 t) in Hn. destruct (seqb t t0); [|lia].
  destruct (n <? sz) eqn:E; [apply N.ltb_lt in E; lia|lia].
Qed.

Lemma ycinv_setown ch tag b d :
  ycinv yk0 ch -> (forall n, In (tag, n) (ycview ch) -> cs b = n + d) -> ycinv (ykd tag d) (upd_consumer ch tag (fun cm => cm <| c_own := b |>)).
Proof.
  intros (A & B & C & D & F) Hb. unfold ycinv. rewrite ycview_setown, yfst_vmap. change (ch_unacked (upd_consumer _ _ _)) with (ch_unacked ch).
  change (ch_cqos (upd_consumer _ _ _)) with (ch_cqos ch). repeat split; auto.
  intros t n' Hin. apply yin_vmap in Hin. destruct Hin as (n & Hin & ->). pose proof (D t n Hin) as Hn. unfold yk0 in Hn. unfold ykd.
  rewrite (yseqb_sym tag t). destruct (seqb t tag) eqn:E; [|lia]. apply seqb_spec in E. subst t. rewrite (Hb n Hin). lia.
Qed.

Lemma ycinv_append k ch x :
  ycinv (ykadd k (yw x)) ch -> (u_ctag x = ""%string \/ In (u_ctag x) (map fst (ycview ch))) ->
  ycinv k (ch <| ch_unacked ::= fun l => l ++ [x] |>).
Proof.
  intros (A & B & C & D & F) Hx. unfold ycinv. change (ycview (ch <| ch_unacked ::= _ |>)) with (ycview ch). cbn [ch_unacked ch_cqos set].
  repeat split; auto.
  - intros u Hu Hne. apply in_app_or in Hu. destruct Hu as [Hu|[<-|[]]]; [apply C; auto|]. destruct Hx as [Hx|Hx]; [contradiction|exact Hx].
  - intros t n Ht. rewrite (D t n Ht). rewrite ycnt_app, ycnt_cons, ycnt_nil. unfold ykadd. lia.
Qed.

Lemma ycinv_append_get ch x : u_ctag x = ""%string -> ycinv yk0 ch -> ycinv yk0 (ch <| ch_unacked ::= fun l => l ++ [x] |>).
Proof.
  intros Ex H. apply ycinv_append; [|left; exact Ex]. eapply ycinv_on_view; [|exact H].
  intros t Ht. unfold ykadd, yk0, yw, ykd. rewrite Ex. destruct (seqb "" t) eqn:E; [|reflexivity].
  apply seqb_spec in E. subst t. destruct H as (_ & B & _). contradiction.
Qed.

Lemma ycinv_consume ch cm :
  ycinv yk0 ch -> ~ In (c_tag cm) (map c_tag (ch_consumers ch)) -> c_tag cm <> ""%string -> cs (c_own cm) = 0 ->
  ycinv yk0 (ch <| ch_consumers ::= fun l => l ++ [cm] |>).
Proof.
  intros (A & B & C & D & F) Hni Hne Hz. unfold ycinv.
  assert (Ev : ycview (ch <| ch_consumers ::= fun l => l ++ [cm] |>) = ycview ch ++ [(c_tag cm, cs (c_own cm))]).
  { unfold ycview. cbn. rewrite map_app. reflexivity. }
  rewrite Ev, map_app. cbn [map fst ch_unacked ch_cqos set]. rewrite yfst_cview in *. repeat split; auto.
  - apply NoDup_snoc; auto.
  - intros X. apply in_app_or in X. destruct X as [X|[X|[]]]; [contradiction|]. apply Hne. exact X.
  - intros u Hu Hn. apply in_or_app. left. apply C; auto.
  - intros t n Ht. apply in_app_or in Ht. destruct Ht as [Ht|[Ht|[]]]; [apply D; auto|]. inversion Ht; subst. unfold yk0.
    rewrite ycnt_zero; [lia|]. intros u Hu Eu. apply Hni. rewrite <- Eu. apply C; auto. rewrite Eu. exact Hne.
Qed.

Lemma ycview_filter ch tag :
  ycview (ch <| ch_consumers ::= filter (fun cm => negb (seqb (c_tag cm) tag)) |>) = filter (fun p => negb (seqb (fst p) tag)) (ycview ch).
Proof.
  unfold ycview. cbn. induction (ch_consumers ch) as [|a l IH]; [reflexivity|]. cbn [filter map fst].
  destruct (seqb (c_tag a) tag); cbn [negb map]; [exact IH|]. f_equal. exact IH.
Qed.

Lemma ycinv_cancel ch tag :
  ycinv yk0 ch -> ycinv yk0 (ch <| ch_consumers ::= filter (fun cm => negb (seqb (c_tag cm) tag)) |> <| ch_unacked ::= map (orphan tag) |>).
Proof.
  intros (A & B & C & D & F). unfold ycinv.
  change (ycview (ch <| ch_consumers ::= filter (fun cm => negb (seqb (c_tag cm) tag)) |> <| ch_unacked ::= map (orphan tag) |>))
    with (ycview (ch <| ch_consumers ::= filter (fun cm => negb (seqb (c_tag cm) tag)) |>)).
  rewrite ycview_filter. cbn [ch_unacked ch_cqos set]. repeat split; auto.
  - apply NoDup_map_filter. exact A.
  - intros X. apply in_map_iff in X. destruct X as (p & E & Hp). apply filter_In in Hp. apply B. rewrite <- E. apply in_map. tauto.
  - intros u' Hu Hne. apply in_map_iff in Hu. destruct Hu as (u & <- & Hu). unfold orphan in *.
    destruct (seqb (u_ctag u) tag) eqn:E; [cbn in Hne; contradiction|].
    pose proof (C u Hu Hne) as Hin. apply in_map_iff in Hin. destruct Hin as (p & Ep & Hp). apply in_map_iff. exists p. split; auto.
    apply filter_In. split; auto. rewrite Ep, E. reflexivity.
  - intros t n Ht. apply filter_In in Ht. destruct Ht as [Ht Hb]. cbn [fst] in Hb. rewrite (D t n Ht). f_equal.
    symmetry. apply ycnt_orphan.
    + intros ->. rewrite yseqb_refl in Hb. discriminate.
    + intros ->. apply B. apply (in_map fst) in Ht. exact Ht.
Qed.

Lemma ycinv_empty k ch : ch_consumers ch = [] -> ch_unacked ch = [] -> cs (ch_cqos ch) = 0 -> ycinv k ch.
Proof. intros E1 E2 E3. unfold ycinv, ycview. rewrite E1, E2. cbn. repeat split; auto; try constructor; intros; contradiction. Qed.

(* ---- the offset trick, per consumer tag ---- *)
Definition YCLoff (c0 h0 : N) (k : string -> N) (c h : N) (ch : channel) : Prop :=
  ycinv (if (c =? c0) && (h =? h0) then k else yk0) ch.
Definition YCLP (c h : N) (ch : channel) : Prop := ycinv yk0 ch.
Notation YCL := (allch YCLP).

Lemma YCLoff_zero c0 h0 s : allch (YCLoff c0 h0 yk0) s <-> YCL s.
Proof.
  unfold allch, YCLoff, YCLP. split; intros H c h ch Hg; specialize (H c h ch Hg); destruct ((c =? c0) && (h =? h0)); auto.
Qed.
Lemma YCLoff_vkeep c0 h0 k : forall c h ch ch',
  ch_unacked ch' = ch_unacked ch -> ycview ch' = ycview ch -> cs (ch_cqos ch') = cs (ch_cqos ch) -> YCLoff c0 h0 k c h ch -> YCLoff c0 h0 k c h ch'.
Proof. unfold YCLoff. intros. eapply ycinv_keep; eauto. Qed.
Lemma YCLoff_nodup c0 h0 k : forall c h ch, YCLoff c0 h0 k c h ch -> NoDup (map fst (ycview ch)).
Proof. unfold YCLoff. intros c h ch H. exact (proj1 H). Qed.
Lemma YCLP_vkeep : forall c h ch ch',
  ch_unacked ch' = ch_unacked ch -> ycview ch' = ycview ch -> cs (ch_cqos ch') = cs (ch_cqos ch) -> YCLP c h ch -> YCLP c h ch'.
Proof. unfold YCLP. intros. eapply ycinv_keep; eauto. Qed.
Lemma YCLP_nodup : forall c h ch, YCLP c h ch -> NoDup (map fst (ycview ch)).
Proof. unfold YCLP. intros c h ch H. exact (proj1 H). Qed.

Lemma yat_other c0 h0 c h : (c =? c0) && (h =? h0) = true -> c = c0 /\ h = h0.
Proof. intros Eb. apply andb_prop in Eb. destruct Eb as [E1 E2]. apply N.eqb_eq in E1, E2. auto. Qed.

Lemma YCLoff_ext c0 h0 k k' s : (forall t, k t = k' t) -> allch (YCLoff c0 h0 k) s -> allch (YCLoff c0 h0 k') s.
Proof.
  intros E H c h ch Hg. pose proof (H _ _ _ Hg) as H1. unfold YCLoff in *. destruct ((c =? c0) && (h =? h0)); auto.
  eapply ycinv_ext; eauto.
Qed.
Lemma YCLoff_none c0 h0 k k' s : get_chan s c0 h0 = None -> allch (YCLoff c0 h0 k) s -> allch (YCLoff c0 h0 k') s.
Proof.
  intros En H c h ch Hg. pose proof (H _ _ _ Hg) as H1. unfold YCLoff in *. destruct ((c =? c0) && (h =? h0)) eqn:Eb; auto.
  apply yat_other in Eb. destruct Eb; subst. congruence.
Qed.
Lemma YCLoff_shift_at s c0 h0 ka kb f ch :
  get_chan s c0 h0 = Some ch -> ycinv kb (f ch) -> allch (YCLoff c0 h0 ka) s -> allch (YCLoff c0 h0 kb) (upd_chan s c0 h0 f).
Proof.
  intros Ech Hf H c h ch' Hg. rewrite get_chan_upd_chan in Hg. unfold YCLoff. destruct ((c =? c0) && (h =? h0)) eqn:Eb.
  - rewrite Ech in Hg. cbn in Hg. inversion Hg; subst. exact Hf.
  - pose proof (H _ _ _ Hg) as H1. unfold YCLoff in H1. rewrite Eb in H1. exact H1.
Qed.
Lemma YCLoff_shift s c0 h0 ka kb f :
  (forall ch, ycinv ka ch -> ycinv kb (f ch)) -> allch (YCLoff c0 h0 ka) s -> allch (YCLoff c0 h0 kb) (upd_chan s c0 h0 f).
Proof.
  intros Hf H. destruct (get_chan s c0 h0) as [ch|] eqn:Ech.
  - eapply YCLoff_shift_at; eauto. apply Hf. pose proof (H _ _ _ Ech) as H1. unfold YCLoff in H1. rewrite !N.eqb_refl in H1. exact H1.
  - unfold upd_chan. rewrite Ech. eapply YCLoff_none; eauto.
Qed.

Section YCKeep.
Variables (c0 h0 : N) (k : string -> N).
Definition YC_wake := YV_wake (YCLoff c0 h0 k) (YCLoff_vkeep c0 h0 k) (YCLoff_nodup c0 h0 k).
Definition YC_wake_consumers := YV_wake_consumers (YCLoff c0 h0 k) (YCLoff_vkeep c0 h0 k).
Definition YC_chan_ackmsg := YV_chan_ackmsg (YCLoff c0 h0 k).
Definition YC_chan_rejectmsg := YV_chan_rejectmsg (YCLoff c0 h0 k).
End YCKeep.

(* removing the entry of one delivery puts its consumer one ahead *)
Lemma YC_del s c0 h0 k u ch :
  get_chan s c0 h0 = Some ch -> NoDup (map u_tag (ch_unacked ch)) -> In u (ch_unacked ch) ->
  allch (YCLoff c0 h0 k) s -> allch (YCLoff c0 h0 (ykadd k (yw u))) (upd_chan s c0 h0 (fun ch => del_unacked ch (u_tag u))).
Proof.
  intros Ech Hnd Hin H. eapply YCLoff_shift_at; eauto. apply ycinv_del; auto.
  pose proof (H _ _ _ Ech) as H1. unfold YCLoff in H1. rewrite !N.eqb_refl in H1. exact H1.
Qed.

Lemma yfind_consumer_none ch tag : find_consumer ch tag = None -> ~ In tag (map fst (ycview ch)).
Proof.
  unfold find_consumer. intros Hf Hin. rewrite yfst_cview in Hin. apply in_map_iff in Hin. destruct Hin as (cm & E & Hin).
  pose proof (find_none _ _ Hf cm Hin) as Hn. cbn in Hn. rewrite E, yseqb_refl in Hn. discriminate.
Qed.

(* releasing the windows takes it one back *)
Lemma YC_dec cfg s c0 h0 k u :
  cfg_rabbit cfg = true -> msz s (u_msg u) = wf (u_msg u) ->
  allch (YCLoff c0 h0 (ykadd k (yw u))) s -> allch (YCLoff c0 h0 k) (dec_qos_and_consume_next cfg s c0 h0 u).
Proof.
  intros Hrab Hsz H. unfold dec_qos_and_consume_next. destruct (get_chan s c0 h0) as [ch|] eqn:Ech; [|eapply YCLoff_none; eauto].
  apply YC_wake_consumers. rewrite Hrab. change (msg_size s (u_msg u) mod two32) with (msz s (u_msg u)). rewrite Hsz.
  set (f := fun ch : channel => ch <| ch_qos ::= fun w => qos_dec w (wf (u_msg u)) |>).
  assert (H1 : allch (YCLoff c0 h0 (ykadd k (yw u))) (upd_chan s c0 h0 f)).
  { apply allch_upd_chan; [|exact H]. intros ch1 Hc1. eapply YCLoff_vkeep; [..|exact Hc1]; reflexivity. }
  destruct (find_consumer ch (u_ctag u)) eqn:Ef.
  - apply (YCLoff_shift _ c0 h0 (ykadd k (yw u)) k); [|exact H1]. intros ch1. apply ycinv_dec_consumer.
  - assert (H2 : allch (YCLoff c0 h0 k) (upd_chan s c0 h0 f)).
    { eapply YCLoff_shift_at; eauto. pose proof (H _ _ _ Ech) as H0. unfold YCLoff in H0. rewrite !N.eqb_refl in H0. cbn [andb] in H0.
      eapply ycinv_keep; [..|eapply ycinv_on_view; [|exact H0]]; try reflexivity.
      intros t Ht. unfold ykadd, yw, ykd. destruct (seqb (u_ctag u) t) eqn:E; [|lia]. apply seqb_spec in E. subst t.
      exfalso. exact (yfind_consumer_none _ _ Ef Ht). }
    destruct (get_conn _ c0) eqn:Ec; auto. eapply allch_set_conn_qos; eauto.
Qed.

Section YCSettle.
Variables (c0 h0 : N).
Variable g : state -> unacked -> state.
Hypothesis g_eq : forall s u, exists s1, s1 = upd_chan s c0 h0 (fun ch => del_unacked ch (u_tag u)) /\
  (forall k, allch (YCLoff c0 h0 k) s1 -> allch (YCLoff c0 h0 k) (g s u)) /\ U (g s u) c0 h0 = U s1 c0 h0.

Lemma YC_fold_del sel : forall s k,
  NoDup (map u_tag sel) -> (forall u, In u sel -> In u (U s c0 h0)) -> NoDup (map u_tag (U s c0 h0)) ->
  allch (YCLoff c0 h0 k) s -> allch (YCLoff c0 h0 (ykadd k (ycnt sel))) (fold_left g sel s).
Proof.
  induction sel as [|a t IH]; intros s k Hnd Hin Hu H; cbn [fold_left].
  - eapply YCLoff_ext; [|exact H]. intros x. unfold ykadd. rewrite ycnt_nil. lia.
  - cbn in Hnd. inversion Hnd as [|? ? Hni Hnd']; subst.
    destruct (g_eq s a) as (s1 & Es1 & Hk & HU).
    assert (Ha : In a (U s c0 h0)) by (apply Hin; left; reflexivity).
    destruct (get_chan s c0 h0) as [ch|] eqn:Ech; [|unfold U in Ha; rewrite Ech in Ha; destruct Ha].
    rewrite (U_some _ _ _ _ Ech) in *.
    assert (H1 : allch (YCLoff c0 h0 (ykadd k (yw a))) (g s a)).
    { apply Hk. subst s1. eapply YC_del; eauto. }
    assert (HU1 : U (g s a) c0 h0 = filter (fun u => negb (u_tag u =? u_tag a)) (ch_unacked ch)).
    { rewrite HU. subst s1. rewrite del_unacked_U. rewrite (U_some _ _ _ _ Ech). reflexivity. }
    eapply YCLoff_ext; [|apply (IH (g s a) (ykadd k (yw a))); auto].
    + intros x. unfold ykadd. rewrite ycnt_cons. lia.
    + intros u Hu'. rewrite HU1. apply filter_In. split; [apply Hin; right; exact Hu'|].
      apply Bool.negb_true_iff. apply N.eqb_neq. intros E. apply Hni. rewrite <- E. apply in_map. exact Hu'.
    + rewrite HU1. apply NoDup_map_filter. exact Hu.
Qed.
End YCSettle.

Lemma YC_fold_dec cfg c0 h0 sel : cfg_rabbit cfg = true -> forall s k,
  SZ wf s -> allch (YCLoff c0 h0 (ykadd k (ycnt sel))) s ->
  allch (YCLoff c0 h0 k) (fold_left (fun s u => dec_qos_and_consume_next cfg s c0 h0 u) sel s).
Proof.
  intros Hrab. induction sel as [|a t IH]; intros s k Hs H; cbn [fold_left].
  - eapply YCLoff_ext; [|exact H]. intros x. unfold ykadd. rewrite ycnt_nil. lia.
  - apply IH; [eapply SZ_szeq; [apply szeq_heap, heap_dec_qos|exact Hs]|]. apply YC_dec; auto. eapply YCLoff_ext; [|exact H]. intros x. unfold ykadd. rewrite ycnt_cons. lia.
Qed.

Theorem YCL_handle_ack cfg s c h tag mult :
  cfg_rabbit cfg = true -> SZ wf s -> CI s -> YCL s -> YCL (fst (handle_ack cfg s c h tag mult)).
Proof.
  intros Hrab Hs Hci H. unfold handle_ack. destruct (get_chan s c h) as [ch|] eqn:Ech; auto.
  pose proof (Hci _ _ _ Ech) as [Hnd _].
  destruct mult.
  - cbn [fst]. apply (YCLoff_zero c h). apply (YC_fold_dec cfg c h _ Hrab _ yk0).
    { eapply SZ_szeq; [|exact Hs]. apply szeq_fold. intros s0 u. eapply szeq_trans; [apply szeq_upd_chan|apply szeq_chan_ackmsg]. }
    apply (YC_fold_del c h (fun s u => chan_ackmsg (upd_chan s c h (fun ch => del_unacked ch (u_tag u))) u)).
    + intros s0 u. eexists. split; [reflexivity|]. split; [intros k; apply YC_chan_ackmsg|apply U_chan_ackmsg].
    + apply NoDup_map_filter. exact Hnd.
    + intros u Hu. rewrite (U_some _ _ _ _ Ech). apply filter_In in Hu. tauto.
    + rewrite (U_some _ _ _ _ Ech). exact Hnd.
    + apply YCLoff_zero. exact H.
  - destruct (find _ (ch_unacked ch)) as [u|] eqn:Ef; cbn [fst]; auto.
    apply find_some in Ef. destruct Ef as [Hin Et]. apply N.eqb_eq in Et. subst tag.
    apply (YCLoff_zero c h). apply YC_dec; auto.
    { rewrite <- (Hs (u_msg u)). unfold msz. f_equal. exact (szeq_trans _ _ _ (szeq_upd_chan s c h _) (szeq_chan_ackmsg _ u) (u_msg u)). }
    apply YC_chan_ackmsg.
    eapply YC_del; eauto. apply YCLoff_zero. exact H.
Qed.

Theorem YCL_handle_reject cfg s c h tag mult requeue cls mth :
  cfg_rabbit cfg = true -> SZ wf s -> CI s -> YCL s -> YCL (fst (handle_reject cfg s c h tag mult requeue cls mth)).
Proof.
  intros Hrab Hs Hci H. unfold handle_reject. destruct (get_chan s c h) as [ch|] eqn:Ech; auto.
  pose proof (Hci _ _ _ Ech) as [Hnd _].
  destruct mult.
  - cbn [fst]. apply (YCLoff_zero c h). apply (YC_fold_dec cfg c h _ Hrab _ yk0).
    { eapply SZ_szeq; [|exact Hs]. apply szeq_fold. intros s0 u. eapply szeq_trans; [apply szeq_upd_chan|apply szeq_chan_rejectmsg]. }
    apply (YC_fold_del c h (fun s u => chan_rejectmsg (upd_chan s c h (fun ch => del_unacked ch (u_tag u))) u requeue)).
    + intros s0 u. eexists. split; [reflexivity|]. split; [intros k; apply YC_chan_rejectmsg|apply U_chan_rejectmsg].
    + apply NoDup_map_filter. apply NoDup_sort_desc. exact Hnd.
    + intros u Hu. rewrite (U_some _ _ _ _ Ech). apply filter_In in Hu. apply sort_desc_perm. tauto.
    + rewrite (U_some _ _ _ _ Ech). exact Hnd.
    + apply YCLoff_zero. exact H.
  - destruct (find _ (ch_unacked ch)) as [u|] eqn:Ef; cbn [fst]; auto.
    apply find_some in Ef. destruct Ef as [Hin Et]. apply N.eqb_eq in Et. subst tag.
    apply (YCLoff_zero c h). apply YC_dec; auto.
    { rewrite <- (Hs (u_msg u)). unfold msz. f_equal. exact (szeq_trans _ _ _ (szeq_upd_chan s c h _) (szeq_chan_rejectmsg _ u requeue) (u_msg u)). }
    apply YC_chan_rejectmsg.
    eapply YC_del; eauto. apply YCLoff_zero. exact H.
Qed.

(* ---- deliveries: the consumer's own window is charged, then the entry is appended ---- *)
Definition YCLoffT (c0 h0 : N) (k : string -> N) (tag : string) (c h : N) (ch : channel) : Prop :=
  YCLoff c0 h0 k c h ch /\ (c = c0 -> h = h0 -> In tag (map fst (ycview ch))).
Lemma YCLoffT_vkeep c0 h0 k tag : forall c h ch ch',
  ch_unacked ch' = ch_unacked ch -> ycview ch' = ycview ch -> cs (ch_cqos ch') = cs (ch_cqos ch) -> YCLoffT c0 h0 k tag c h ch -> YCLoffT c0 h0 k tag c h ch'.
Proof. unfold YCLoffT. intros c h ch ch' E1 E2 E3 [A B]. split; [eapply YCLoff_vkeep; eauto|]. rewrite E2. exact B. Qed.
Lemma YCLoffT_to_CL c0 h0 k tag s : (forall t, k t = 0) -> allch (YCLoffT c0 h0 k tag) s -> YCL s.
Proof.
  intros Hk H c h ch Hg. destruct (H _ _ _ Hg) as [A _]. unfold YCLoff in A. unfold YCLP. destruct ((c =? c0) && (h =? h0)); auto.
  eapply ycinv_ext; [|exact A]. intros t. rewrite Hk. reflexivity.
Qed.

(* the second window of a two-window reservation: charged once on success, untouched on refusal (with or without
   the roll-back of the first) *)
Lemma yreserve2_second rb w1 w2 size r ws' :
  reserve rb [w1; w2] size = (r, ws') ->
  exists a b, ws' = [a; b] /\ match r with Some _ => cs b = (cs w2 + size) mod two32 | None => b = w2 end.
Proof.
  intros H. cbn [reserve] in H. destruct (qos_inc w1 size) as [w1'|]; [|inversion H; subst; eauto].
  destruct (qos_inc w2 size) as [w2'|] eqn:E2; inversion H; subst; eexists _, _; (split; [reflexivity|]); auto.
  unfold qos_inc in E2. destruct (_ && _)%bool; inversion E2; subst. reflexivity.
Qed.

Lemma YC_store_windows cfg s c h tag a b d ch :
  cfg_rabbit cfg = true -> get_chan s c h = Some ch -> In tag (map fst (ycview ch)) ->
  (forall n, In (tag, n) (ycview ch) -> cs b = n + d) -> YCL s ->
  allch (YCLoffT c h (ykd tag d) tag) (store_windows cfg s c h tag [a; b]).
Proof.
  intros Hrab Ech Hin Hb H. unfold store_windows. rewrite Hrab.
  intros c' h' ch' Hg. rewrite !get_chan_upd_chan in Hg. destruct ((c' =? c) && (h' =? h)) eqn:Eb.
  - apply yat_other in Eb. destruct Eb; subst. rewrite !N.eqb_refl, Ech in Hg. cbn in Hg. inversion Hg; subst. split.
    + unfold YCLoff. rewrite !N.eqb_refl. cbn [andb]. apply ycinv_setown; [|exact Hb].
      eapply ycinv_keep; [..|exact (H _ _ _ Ech)]; reflexivity.
    + intros _ _. rewrite ycview_setown, yfst_vmap. exact Hin.
  - split; [unfold YCLoff; rewrite Eb; exact (H _ _ _ Hg)|]. intros -> ->. rewrite !N.eqb_refl in Eb. discriminate.
Qed.

Lemma YC_append s c h x : allch (YCLoffT c h (yw x) (u_ctag x)) s -> YCL (upd_chan s c h (fun ch => ch <| ch_unacked ::= fun l => l ++ [x] |>)).
Proof.
  intros H c' h' ch' Hg. rewrite get_chan_upd_chan in Hg. destruct ((c' =? c) && (h' =? h)) eqn:Eb.
  - apply yat_other in Eb. destruct Eb; subst. destruct (get_chan s c h) as [ch|] eqn:E; cbn in Hg; inversion Hg; subst.
    destruct (H _ _ _ E) as [A B]. unfold YCLoff in A. rewrite !N.eqb_refl in A. cbn [andb] in A. unfold YCLP.
    apply ycinv_append; [|right; apply B; auto]. eapply ycinv_ext; [|exact A]. intros t. unfold ykadd, yk0. lia.
  - destruct (H _ _ _ Hg) as [A _]. unfold YCLoff in A. rewrite Eb in A. exact A.
Qed.

Definition YCL_wake := YV_wake YCLP YCLP_vkeep YCLP_nodup.
Definition YCL_consumer_stop := YV_consumer_stop YCLP YCLP_vkeep.
Definition YCL_wake_consumers := YV_wake_consumers YCLP YCLP_vkeep.

Theorem YCL_consumer_turn cfg fx s c h tag :
  cfg_rabbit cfg = true -> SZ wf s -> SmallBf wf s -> YCL s -> YCL (fst (consumer_turn cfg fx s c h tag)).
Proof.
  intros Hrab Hsz Hsm H. unfold consumer_turn.
  destruct (get_chan s c h) as [ch|] eqn:Ech; auto.
  destruct (find_consumer ch tag) as [cm|] eqn:Efc; auto.
  destruct (negb (c_token cm)); auto.
  set (s0 := set_chan s c h _).
  assert (Ev : ycview (upd_consumer ch tag (fun cm => cm <| c_token := false |>)) = ycview ch)
    by (apply ycview_upd_consumer; intros; cbn; auto).
  assert (H0 : YCL s0).
  { subst s0. apply allch_set_chan; auto. eapply YCLP_vkeep; [..|exact (H _ _ _ Ech)]; try reflexivity. exact Ev. }
  assert (Ech0 : exists ch0, get_chan s0 c h = Some ch0 /\ ycview ch0 = ycview ch /\ ch_unacked ch0 = ch_unacked ch).
  { subst s0. rewrite get_chan_set_chan. pose proof (get_chan_conn _ _ _ _ Ech) as Hc. destruct (get_conn s c); [|congruence].
    rewrite !N.eqb_refl. cbn [andb]. eexists. split; [reflexivity|]. split; [exact Ev|reflexivity]. }
  destruct Ech0 as (ch0 & Ech0 & Ev0 & Eu0).
  assert (Ecn0 : exists cn0, get_conn s0 c = Some cn0).
  { pose proof (get_chan_conn _ _ _ _ Ech0) as Hc. destruct (get_conn s0 c); [eauto|congruence]. }
  destruct Ecn0 as (cn0 & Ecn0).
  assert (Hsz0 : SZ wf s0) by (subst s0; eapply SZ_szeq; [apply szeq_heap, heap_set_chan'|exact Hsz]).
  assert (Hq0 : forall q, get_queue s0 q = get_queue s q) by (intros q; subst s0; unfold get_queue; rewrite queues_set_chan; reflexivity).
  clearbody s0. clear Ev.
  apply find_consumer_in in Efc. destruct Efc as [Hcm Etag].
  pose proof (H _ _ _ Ech) as (_ & _ & _ & Hd & _).
  assert (Hown : cs (c_own cm) = ycnt (ch_unacked ch) tag).
  { rewrite (Hd tag (cs (c_own cm))); [unfold yk0; lia|]. rewrite <- Etag. apply yin_cview. exact Hcm. }
  assert (Hin0 : In tag (map fst (ycview ch0))).
  { rewrite Ev0, yfst_cview, <- Etag. apply in_map. exact Hcm. }
  assert (Hn0 : forall n, In (tag, n) (ycview ch0) -> n = cs (c_own cm)).
  { intros n Hn. rewrite Ev0 in Hn. rewrite (Hd _ _ Hn), Hown. unfold yk0. lia. }
  destruct (c_status cm); auto.
  all: destruct (get_queue s0 (c_queue cm)) as [qu|] eqn:Eqq; auto.
  all: destruct (negb (q_active qu)); auto.
  all: destruct (q_ready qu) as [|u rest] eqn:Erd; auto.
  all: destruct (c_noack cm) eqn:Ena.
  (* no-ack: no window, no entry *)
  all: try (cbn [fst];
            match goal with |- context [wake_consumer ?st ?c0 ?h0 ?tag0] => destruct (wake_consumer st c0 h0 tag0) as [s9 b9] eqn:Ew;
              apply fst_pair in Ew; cbn [fst]; subst s9; apply YCL_wake end;
            repeat (first [ assumption | same_conns | match goal with |- allch _ (if ?b then _ else _) => destruct b end
                          | apply allch_upd_chan; [intros; assumption|] ]); fail).
  (* ack mode *)
  all: unfold window_list; rewrite Ech0, Ecn0, Hrab.
  all: change (msg_size s0 u mod two32) with (msz s0 u); rewrite (Hsz0 u).
  all: assert (Hs1 : cs (c_own cm) + wf u < two32)
         by (rewrite Hown; pose proof (ycnt_le (ch_unacked ch) tag); rewrite Hq0 in Eqq; pose proof (Hsm _ _ _ _ _ _ _ Ech Eqq Erd); lia).
  all: destruct (reserve (cfg_rollback cfg) [ch_qos ch0; c_own cm] (wf u)) as [okr ws] eqn:Er.
  all: destruct (yreserve2_second _ _ _ _ _ _ Er) as (a & b & -> & Hb).
  all: destruct okr as [l|]; cbn [fst].
  all: try (apply (YCLoffT_to_CL c h (ykd tag 0) tag); [intros t; unfold ykd; destruct (seqb tag t); reflexivity|];
            eapply YC_store_windows; eauto; intros n Hn; rewrite (Hn0 n Hn), Hb; lia).
  all: match goal with |- context [wake_consumer ?st ?c0 ?h0 ?tag0] => destruct (wake_consumer st c0 h0 tag0) as [s9 b9] eqn:Ew;
         apply fst_pair in Ew; cbn [fst]; subst s9; apply YCL_wake end.
  all: repeat same_conns.
  all: apply YC_append.
  all: apply allch_upd_chan; [intros; assumption|].
  all: repeat same_conns.
  all: eapply YC_store_windows; eauto; intros n Hn; rewrite (Hn0 n Hn), Hb; rewrite N.mod_small by exact Hs1; reflexivity.
Qed.

(* ---- channel.close: the consumers go first, then every unsettled delivery is requeued ---- *)
Definition yclR (c0 h0 : N) (c h : N) (ch : channel) : Prop :=
  if (c =? c0) && (h =? h0) then ch_consumers ch = [] /\ cs (ch_cqos ch) = 0 else YCLP c h ch.
Lemma ycview_nil ch : ycview ch = [] <-> ch_consumers ch = [].
Proof. unfold ycview. split; intros H; [eapply map_eq_nil; eauto|rewrite H; reflexivity]. Qed.
Lemma yclR_vkeep c0 h0 : forall c h ch ch',
  ch_unacked ch' = ch_unacked ch -> ycview ch' = ycview ch -> cs (ch_cqos ch') = cs (ch_cqos ch) -> yclR c0 h0 c h ch -> yclR c0 h0 c h ch'.
Proof.
  unfold yclR. intros c h ch ch' E1 E2 E3. destruct ((c =? c0) && (h =? h0)); [|apply YCLP_vkeep; auto].
  intros [A B]. split; [|congruence]. apply ycview_nil. rewrite E2. apply ycview_nil. exact A.
Qed.
Lemma yclR_nodup c0 h0 : forall c h ch, yclR c0 h0 c h ch -> NoDup (map fst (ycview ch)).
Proof.
  unfold yclR. intros c h ch. destruct ((c =? c0) && (h =? h0)); [|apply YCLP_nodup].
  intros [A _]. apply ycview_nil in A. rewrite A. constructor.
Qed.

Lemma YCL_channel_close cfg s c h : CI s -> BI s -> YCL s -> YCL (channel_close cfg s c h).
Proof.
  intros Hci Hbi H. destruct (get_chan s c h) as [ch|] eqn:Ech; [|unfold channel_close; rewrite Ech; exact H].
  rewrite (channel_close_eq cfg s c h ch Ech). destruct (channel_close_shape cfg s c h ch Hci Ech) as (_ & Hsh).
  assert (H3 : allch (yclR c h) (close_mid cfg s c h ch)).
  { unfold close_mid.
    set (s1 := fold_left (fun s cm => consumer_stop s c h (c_tag cm)) (ch_consumers ch) s).
    assert (H1 : YCL s1) by (subst s1; apply fold_left_preserves; auto; intros; apply YCL_consumer_stop; auto).
    clearbody s1.
    assert (H2 : allch (yclR c h) (upd_chan s1 c h (fun ch => ch <| ch_consumers := [] |>))).
    { intros c' h' ch' Hg. rewrite get_chan_upd_chan in Hg. unfold yclR. destruct ((c' =? c) && (h' =? h)) eqn:Eb; [|apply H1; auto].
      apply yat_other in Eb. destruct Eb; subst. destruct (get_chan s1 c h) as [ch1|] eqn:E1; cbn in Hg; inversion Hg; subst.
      split; [reflexivity|]. pose proof (H1 _ _ _ E1) as (_ & _ & _ & _ & F). exact F. }
    destruct (0 <? h); auto.
    apply (YV_handle_reject (yclR c h) (yclR_vkeep c h) c h); auto.
    - intros ch0 tag. unfold yclR. rewrite !N.eqb_refl. cbn. auto.
    - intros ch0 t sz. unfold yclR. rewrite !N.eqb_refl. cbn. intros [A B]. rewrite A. auto. }
  set (s3 := close_mid cfg s c h ch) in *. clearbody s3.
  intros c' h' ch' Hg. rewrite get_chan_upd_chan in Hg. destruct ((c' =? c) && (h' =? h)) eqn:Eb.
  - apply yat_other in Eb. destruct Eb; subst. destruct (get_chan s3 c h) as [ch3|] eqn:E3; cbn in Hg; inversion Hg; subst.
    pose proof (H3 _ _ _ E3) as Hr. unfold yclR in Hr. rewrite !N.eqb_refl in Hr. destruct Hr as [A B].
    destruct (Hsh _ eq_refl) as (_ & U1 & U2). apply ycinv_empty; cbn; auto.
    destruct (0 <? h) eqn:E0; [auto|]. rewrite U2 by reflexivity. apply N_ltb_0 in E0. exact (proj1 (Hbi _ _ _ Ech (or_intror E0))).
  - pose proof (H3 _ _ _ Hg) as Hr. unfold yclR in Hr. rewrite Eb in Hr. exact Hr.
Qed.

Lemma yeff_tag_nonempty s t : eff_tag s t <> ""%string.
Proof.
  unfold eff_tag. destruct (seqb t "") eqn:E.
  - unfold gen_tag. cbn [String.append]. discriminate.
  - intros X. rewrite X in E. cbn in E. discriminate.
Qed.

Lemma ycview_flow ch a f :
  ycview (ch <| ch_flow := a |> <| ch_consumers ::= map f |>) = map (fun cm => (c_tag cm, cs (c_own cm))) (map f (ch_consumers ch)).
Proof. reflexivity. Qed.

Ltac ycvkeep := apply allch_upd_chan; [intros ch0 Hch0; eapply YCLP_vkeep; [..|exact Hch0]; try reflexivity|].
Ltac ycvset Ech H := apply allch_set_chan; [eapply YCLP_vkeep; [..|exact (H _ _ _ Ech)]; try reflexivity|].

Theorem YCL_handle_method cfg fx s c h m :
  cfg_rabbit cfg = true -> fx_closeok_releases fx = true -> SZ wf s -> CI s -> BI s -> YCL s -> YCL (fst (fst (handle_method cfg fx s c h m))).
Proof.
  intros Hrab Hcr Hsz Hci Hbi H. unfold handle_method.
  destruct (get_chan s c h) as [ch|] eqn:Hch; [|exact H].
  destruct m; unfold ok, refuse.
  - (* MChannelOpen *)
    destruct (ch_status ch) eqn:Es; cbn [fst]; auto.
    + ycvset Hch H. auto.
    + ycvset Hch H. auto.
    + destruct (fx_reopen_resets fx); [|ycvset Hch H; auto].
      apply allch_set_chan; auto. destruct (Hbi _ _ _ Hch (or_introl Es)) as [A B]. apply ycinv_empty; cbn; auto.
  - cbn [fst]. apply YCL_channel_close; auto.
  - cbn [fst]. rewrite Hcr. apply YCL_channel_close; auto.
  - (* MChannelFlow *)
    cbn [fst]. destruct (Bool.eqb _ _); auto.
    destruct a; (ycvset Hch H; auto; rewrite ycview_flow; apply ycview_map; intros cm _).
    + destruct (c_status cm); try (split; reflexivity);
        destruct (yconsume_msg_view (cm <| c_status := CStarted |>)) as [E1 E2]; rewrite E1, E2; split; reflexivity.
    + destruct (c_status cm); split; reflexivity.
  - destruct (extype_of type); [|exact H].
    repeat match goal with |- context [if ?b then _ else _] => destruct b end; cbn [fst]; auto.
    all: repeat match goal with |- context [match ?x with _ => _ end] => destruct x end; cbn [fst]; auto.
    all: try (same_conns; auto).
  - destruct (fx_not_impl fx); exact H.
  - destruct (seqb name ""); [exact H|].
    destruct (queue_found s name) as [qu|].
    + repeat match goal with |- context [if ?b then _ else _] => destruct b end; cbn [fst]; auto.
    + destruct passive; [destruct nowait; exact H|]. cbn [fst]. repeat same_conns. auto.
  - destruct (alookup _ _ _); [|exact H]. destruct (seqb ex ""); [exact H|].
    destruct (queue_found s q); [|exact H]. destruct (locked _ _); [exact H|]. destruct (bad_xmatch _); [exact H|]. destruct (extype_eqb _ ExTopic && bad_pattern _)%bool; [exact H|]. cbn [fst]. same_conns. auto.
  - destruct (alookup _ _ _); [|exact H]. destruct (queue_found s q); [|exact H]. destruct (locked _ _); [exact H|]. destruct (bad_xmatch _); [exact H|]. destruct (extype_eqb _ ExTopic && bad_pattern _)%bool; [exact H|]. cbn [fst]. same_conns. auto.
  - destruct (queue_found s q) as [qu|]; [|exact H]. destruct (locked _ _); [exact H|]. cbn [fst].
    repeat (first [assumption | same_conns | match goal with |- allch _ (if ?b then _ else _) => destruct b end]).
  - destruct (queue_found s q); [|exact H]. destruct (locked _ _); [exact H|].
    pose proof (YV_vhost_delete_queue YCLP YCLP_vkeep (negb (fx_delete_checks_first fx)) s q ifunused ifempty H) as Hd.
    destruct (vhost_delete_queue _ s q ifunused ifempty) as [[s1 e1] r1]. cbn [fst] in *. destruct r1; exact Hd.
  - (* MQos: Update keeps the counts *)
    cbn [fst]. apply YCL_wake_consumers. rewrite Hrab. destruct glob; (ycvset Hch H; auto).
  - destruct imm; [exact H|]. destruct (alookup _ _ _); [|exact H].
    destruct (ch_confirm ch); cbn [fst]; (ycvset Hch H; repeat same_conns; auto).
  - (* MConsume *)
    destruct (queue_found s q) as [qu|]; [|exact H].
    destruct (fx_excl_owner fx && locked qu c); [exact H|].
    destruct (find_consumer ch _) eqn:Ef; [exact H|].
    destruct (_ && _)%bool; cbn [fst].
    + same_conns. auto.
    + apply allch_set_chan; [|destruct (seqb tag ""%string); repeat same_conns; auto].
      pose proof (H _ _ _ Hch) as Hc. apply ycinv_consume; auto.
      * cbn. rewrite <- yfst_cview. apply yfind_consumer_none. exact Ef.
      * cbn. apply yeff_tag_nonempty.
      * cbn. exact (proj2 (proj2 (proj2 (proj2 Hc)))).
  - (* MCancel *)
    destruct (find_consumer ch tag); [|exact H]. cbn [fst].
    apply allch_upd_chan2; [intros ch0 Hc0; apply ycinv_cancel; exact Hc0|]. apply YCL_consumer_stop. exact H.
  - (* MGet *)
    destruct (queue_found s q) as [qu|]; [|exact H].
    destruct (fx_excl_owner fx && locked qu c); [exact H|].
    destruct (q_ready qu) as [|u rest]; [exact H|].
    match goal with |- context [if noack then (Some [], []) else ?r] => destruct (if noack then (Some [], []) else r) as [okr ws] end.
    set (s1 := match ws with [w1; w2] => _ | _ => s end).
    assert (H1 : YCL s1).
    { subst s1. destruct ws as [|w1 [|w2 [|]]]; auto.
      destruct (get_conn _ c) eqn:Ec.
      - eapply allch_set_conn_qos; eauto. ycvset Hch H. auto.
      - ycvset Hch H. auto. }
    clearbody s1.
    destruct okr; cbn [fst]; [|exact H1].
    same_conns.
    set (s3 := upd_queue s1 q _). assert (H3 : YCL s3) by (subst s3; same_conns; auto). clearbody s3.
    destruct noack.
    all: repeat (first [ assumption | same_conns | match goal with |- allch _ (if ?b then _ else _) => destruct b end ]).
    all: first [ ycvkeep; assumption
               | apply allch_upd_chan; [intros ch0 Hc0; apply ycinv_append_get; [reflexivity|exact Hc0]|]; ycvkeep; assumption ].
  - pose proof (YCL_handle_ack cfg s c h tag mult Hrab Hsz Hci H) as Ha.
    destruct (handle_ack cfg s c h tag mult) as [s1 e1]. exact Ha.
  - pose proof (YCL_handle_reject cfg s c h tag mult requeue 60 120 Hrab Hsz Hci H) as Ha.
    destruct (handle_reject cfg s c h tag mult requeue 60 120) as [s1 e1]. exact Ha.
  - pose proof (YCL_handle_reject cfg s c h tag false requeue 60 90 Hrab Hsz Hci H) as Ha.
    destruct (handle_reject cfg s c h tag false requeue 60 90) as [s1 e1]. exact Ha.
  - exact H.
  - cbn [fst]. ycvset Hch H. auto.
  - destruct (fx_not_impl fx); exact H.
  - exact H.
  - exact H.
  - destruct good; [cbn [fst]; apply allch_set_stage; exact H|exact H].
  - destruct within; [cbn [fst]; apply allch_set_stage; exact H|exact H].
  - destruct vhost_ok; [cbn [fst]; apply allch_set_stage; exact H|exact H].
Qed.


End YBytes.

(* ---- with the sizes of the state itself: every label ---- *)
Definition YB (s : state) : Prop := allch (YCLP (msz s)) s.

Lemma ycnt_ext_in wf wf' l t : (forall x, In x l -> wf (u_msg x) = wf' (u_msg x)) -> ycnt wf l t = ycnt wf' l t.
Proof. intros H. unfold ycnt. apply bsum_ext_in. intros x Hx. apply filter_In in Hx. apply H. tauto. Qed.
Lemma ycinv_wf_ext wf wf' k ch : (forall x, In x (ch_unacked ch) -> wf (u_msg x) = wf' (u_msg x)) -> ycinv wf k ch -> ycinv wf' k ch.
Proof.
  unfold ycinv. intros E (A & B & C & D & F). repeat split; auto. intros t n Hin. rewrite <- (ycnt_ext_in wf wf' _ t E). auto.
Qed.
Lemma YB_rebase wf s' :
  (forall c h ch x, get_chan s' c h = Some ch -> In x (ch_unacked ch) -> wf (u_msg x) = msz s' (u_msg x)) ->
  allch (YCLP wf) s' -> YB s'.
Proof. intros E H c h ch Hg. apply (ycinv_wf_ext wf); [intros x Hx; eapply E; eauto|exact (H _ _ _ Hg)]. Qed.
Lemma YB_lift s s' : szeq s s' -> allch (YCLP (msz s)) s' -> YB s'.
Proof. intros E. apply YB_rebase. intros c h ch x _ _. unfold msz. rewrite E. reflexivity. Qed.

Theorem YB_handle_method cfg fx s c h m :
  cfg_rabbit cfg = true -> fx_closeok_releases fx = true -> CI s -> BI s -> UC s -> YB s -> YB (fst (fst (handle_method cfg fx s c h m))).
Proof.
  intros Hrab Hcr Hci Hbi Huc H.
  pose proof (YCL_handle_method (msz s) cfg fx s c h m Hrab Hcr (SZ_self s) Hci Hbi H) as Hf.
  destruct (is_publish m) eqn:Ep; [|eapply YB_lift; [apply szeq_handle_method; exact Ep|exact Hf]].
  destruct m; try discriminate Ep.
  destruct (publish_frame cfg fx s c h ex key mand imm) as [Hsz HU]. cbv zeta in Hsz, HU.
  apply (YB_rebase (msz s)); [|exact Hf]. intros c' h' ch' x Hg Hx.
  assert (Hx' : In x (U s c' h')) by (rewrite <- HU; unfold U; rewrite Hg; exact Hx).
  apply U_in in Hx'. destruct Hx' as (ch0 & Eg0 & Hx0). destruct (Huc _ _ _ _ Eg0 Hx0) as [Hlt _].
  unfold msz. rewrite Hsz; [reflexivity|lia].
Qed.

Lemma YB_body s u F m :
  get_msg s u = Some m ->
  (forall c h ch x, get_chan s c h = Some ch -> In x (ch_unacked ch) -> u_msg x = u -> m_size (F m) = m_size m) ->
  YB s -> YB (upd_msg s u F).
Proof.
  intros Em HF H. apply (YB_rebase (msz s)); [|eapply allch_same_conns; [apply conns_upd_msg|exact H]].
  intros c h ch x Hg Hx. rewrite (get_chan_same_conns s _ c h (conns_upd_msg s u F)) in Hg. unfold msz. f_equal.
  unfold upd_msg. rewrite Em. unfold msg_size, get_msg in *. cbn. rewrite (alookup_aset N.eqb Neqb_spec).
  destruct (u_msg x =? u) eqn:E; [|reflexivity]. apply N.eqb_eq in E. rewrite E, Em. symmetry. eapply HF; eauto.
Qed.

Definition CBYB (s : state) : Prop := CB s /\ YB s.

Section YBStep.
Variables (cfg : config) (fx : fixes).
Hypothesis Hrab : cfg_rabbit cfg = true.
Hypothesis Hst : fx_stage fx = true.
Hypothesis Hco : fx_chan_open fx = true.
Hypothesis Hcr : fx_closeok_releases fx = true.

(* one step: the byte count of every consumer's own window equals the body bytes of that consumer's unsettled deliveries *)
Theorem YB_step s l : CB s -> UC s -> SmallB s -> YB s -> YB (fst (step cfg fx s l)).
Proof.
  intros Hcb Huc Hsm H.
  assert (X : CBYB (fst (step cfg fx s l))); [|exact (proj2 X)].
  apply (D_step cfg fx CBYB).
  - intros s0 s' E Esz [A B]. split; [eapply CB_conns; eauto|]. eapply YB_lift; [exact Esz|eapply allch_same_conns; eauto].
  - intros s0 c h [A B]. split; [apply CB_chan_close; auto|]. destruct A as [A1 A2].
    eapply YB_lift; [apply szeq_channel_close|apply YCL_channel_close; auto].
  - intros b s0 qn iu ie [A B]. split; [apply CB_del; auto|].
    eapply YB_lift; [apply szeq_heap, heap_vhost_delete_queue|apply (YV_vhost_delete_queue _ (YCLP_vkeep (msz s0))); exact B].
  - intros s0 c [A B]. split; [apply CB_delconn; auto|]. eapply YB_lift; [apply szeq_heap; reflexivity|apply allch_del_conn; exact B].
  - intros s0 c h [A B]. split; [apply CB_closing; auto|]. eapply YB_lift; [apply szeq_upd_chan|apply (YV_closing _ (YCLP_vkeep (msz s0))); exact B].
  - intros s0 c h [A B]. split; [apply CB_ensure; auto|].
    eapply YB_lift; [apply szeq_heap, heap_ensure_chan|apply allch_ensure; auto; intros ? ?; apply ycinv_channel0].
  - intros s0 c h [A B]. split; [apply CB_cur; auto|]. eapply YB_lift; [apply szeq_upd_chan|apply (YV_cur _ (YCLP_vkeep (msz s0))); exact B].
  - intros s0 c h t [A B]. split; [apply CB_add_confirm; auto|].
    eapply YB_lift; [apply szeq_heap, heap_add_confirm|apply (YV_add_confirm _ (YCLP_vkeep (msz s0))); exact B].
  - intros s0 c h tag [A B]. split; [apply CB_wake; auto|]. eapply YB_lift; [apply szeq_heap, heap_wake_consumer|apply YCL_wake; exact B].
  - intros s0 c st En [A B]. split; [apply CB_newconn; auto|].
    eapply YB_lift; [apply szeq_heap; reflexivity|apply allch_newconn; auto; intros ?; apply ycinv_empty; reflexivity].
  - intros s0. split; [apply CB_restart|apply allch_restart].
  - intros s0 c h ch E [A B]. destruct (CB_tick s0 c h ch E A) as [T1 T2]. destruct (YV_tick _ (YCLP_vkeep (msz s0)) s0 c h ch E B) as [T3 T4].
    split; (split; [assumption|]); (eapply YB_lift; [apply szeq_heap, heap_set_chan'|assumption]).
  - intros c h m Hg [[A B] C]. apply (cguard_guard _ _ _ _ _ Hst Hco) in Hg.
    split; [split; [apply CI_handle_method; auto|apply BI_handle_method; auto]|].
    apply YB_handle_method; auto. apply UC_ensure; auto.
  - intros c h tag. destruct Hcb as [A B]. split; [split; [apply CI_consumer_turn; auto|apply BI_consumer_turn; auto]|].
    eapply YB_lift; [apply szeq_heap, heap_consumer_turn|apply YCL_consumer_turn; auto; apply SZ_self].
  - intros c h ch u m len Ech Ecur Em Elt [A B]. split; [eapply CB_conns; [apply conns_upd_msg|exact A]|].
    eapply YB_body; eauto. intros c' h' ch' x Hg Hx Ex. cbn.
    destruct (UC_ensure s c h Huc _ _ _ _ Hg Hx) as [_ Hc]. rewrite Ex in Hc. specialize (Hc _ Em).
    apply N.ltb_ge in Elt. lia.
  - split; auto.
Qed.

Theorem YB_run ls : forall s, CB s -> RCI s -> YB s -> smallb_along cfg fx s ls -> YB (fst (run cfg fx s ls)).
Proof.
  induction ls as [|l t IH]; intros s Hcb Hr H Hs; cbn [run]; auto.
  destruct Hs as [Hs Ht]. pose proof (YB_step s l Hcb (RCI_UC s Hr) Hs H) as H1. pose proof (CB_step cfg fx Hst Hco Hcr s l Hcb) as C1.
  pose proof (RCI_step cfg fx s l Hr) as R1.
  destruct (step cfg fx s l) as [s1 e1]. cbn [fst] in *. specialize (IH s1 C1 R1 H1 Ht).
  destruct (run cfg fx s1 t) as [s2 e2]. exact IH.
Qed.
End YBStep.

Lemma YB_init cfg : YB (init cfg).
Proof. intros c h ch Hg. unfold get_chan, get_conn in Hg. cbn in Hg. discriminate. Qed.

Lemma smallb_along_last cfg fx ls : forall s, smallb_along cfg fx s ls -> SmallB (fst (run cfg fx s ls)).
Proof.
  induction ls as [|l t IH]; intros s Hs; cbn [run]; [exact (proj1 Hs)|].
  destruct Hs as [_ Ht]. specialize (IH _ Ht). destruct (step cfg fx s l) as [s1 e1]. cbn [fst] in *.
  destruct (run cfg fx s1 t) as [s2 e2]. exact IH.
Qed.

Theorem consumer_byte_ledger_reachable cfg fx ls c h ch cm :
  cfg_rabbit cfg = true -> fx_stage fx = true -> fx_chan_open fx = true -> fx_closeok_releases fx = true ->
  smallb_along cfg fx (init cfg) ls ->
  let s := fst (run cfg fx (init cfg) ls) in
  get_chan s c h = Some ch -> In cm (ch_consumers ch) ->
  cs (c_own cm) = fold_right (fun x acc => msg_size s (u_msg x) mod two32 + acc) 0
                    (filter (fun u => seqb (u_ctag u) (c_tag cm)) (ch_unacked ch)).
Proof.
  intros Hrab Hst Hco Hcr Hs s Hg Hin.
  pose proof (YB_run cfg fx Hrab Hst Hco Hcr ls (init cfg) (CB_init cfg) (RCI_init cfg) (YB_init cfg) Hs _ _ _ Hg) as (_ & _ & _ & D & _).
  rewrite (D _ _ (yin_cview ch cm Hin)). unfold yk0, ycnt. rewrite N.add_0_r. apply bsum_fold.
Qed.

(* under a per-consumer prefetch-size N > 0 the consumer's window accepts a delivery only while its own unsettled
   bytes plus the delivery's stay within N *)
Theorem consumer_delivery_only_below_size_limit wf ch cm size w' :
  ycinv wf yk0 ch -> In cm (ch_consumers ch) -> ycnt wf (ch_unacked ch) (c_tag cm) + size < two32 ->
  qos_inc (c_own cm) size = Some w' -> ps (c_own cm) <> 0 ->
  ycnt wf (ch_unacked ch) (c_tag cm) + size <= ps (c_own cm) /\ cs w' = ycnt wf (ch_unacked ch) (c_tag cm) + size.
Proof.
  intros (_ & _ & _ & D & _) Hin Hsm Hi Hp. pose proof (D _ _ (yin_cview ch cm Hin)) as Hl. unfold yk0 in Hl. rewrite N.add_0_r in Hl.
  unfold qos_inc in Hi.
  destruct (_ && ((ps (c_own cm) =? 0) || ((cs (c_own cm) + size) mod two32 <=? ps (c_own cm)))) eqn:E; [|discriminate].
  inversion Hi; subst. cbn. apply andb_prop in E. destruct E as [_ E].
  rewrite N.mod_small in * by (rewrite Hl; exact Hsm).
  apply orb_prop in E. destruct E as [E|E]; [apply N.eqb_eq in E; contradiction|]. apply N.leb_le in E. rewrite Hl in *. split; [exact E|reflexivity].
Qed.

(* a delivery a consumer turn makes is the head of the consumer's queue, and both of its windows accepted that
   message's size *)
Theorem ack_turn_charges_sized cfg fx s c h tag ch cm d r ex k :
  get_chan s c h = Some ch -> find_consumer ch tag = Some cm -> c_noack cm = false ->
  In (c, h, SDeliver tag d r ex k) (snd (consumer_turn cfg fx s c h tag)) ->
  exists qu u rest cn w1 w2, get_queue s (c_queue cm) = Some qu /\ q_ready qu = u :: rest /\ get_conn s c = Some cn /\
    qos_inc (ch_qos ch) (msz s u) = Some w1 /\
    qos_inc (if cfg_rabbit cfg then c_own cm else cn_qos cn) (msz s u) = Some w2.
Proof.
  intros Ech Efc Ena. unfold consumer_turn. rewrite Ech, Efc.
  destruct (negb (c_token cm)); [intros []|].
  destruct (get_chan_parts _ _ _ _ Ech) as (cn & Ec & _).
  set (s0 := set_chan s c h _).
  assert (G0 : get_chan s0 c h = Some (upd_consumer ch tag (fun cm => cm <| c_token := false |>))).
  { subst s0. rewrite get_chan_set_chan. rewrite Ec. rewrite !N.eqb_refl. reflexivity. }
  assert (G1 : exists cn0, get_conn s0 c = Some cn0 /\ cn_qos cn0 = cn_qos cn).
  { subst s0. rewrite get_conn_set_chan, Ec, N.eqb_refl. eexists. split; reflexivity. }
  destruct G1 as (cn0 & Ecn & Eq).
  assert (Hq0 : forall q, get_queue s0 q = get_queue s q) by (intros q; subst s0; unfold get_queue; rewrite queues_set_chan; reflexivity).
  assert (Hz0 : forall x, msz s0 x = msz s x) by (intros x; subst s0; unfold msz; rewrite (msg_size_same_heap _ _ x (heap_set_chan' s c h _)); reflexivity).
  clearbody s0.
  destruct (c_status cm); try (intros []).
  all: destruct (get_queue s0 (c_queue cm)) as [qu|] eqn:Eqq; [|intros []].
  all: destruct (negb (q_active qu)); [intros []|].
  all: destruct (q_ready qu) as [|u rest] eqn:Erd; [intros []|].
  all: rewrite Ena.
  all: unfold window_list; rewrite G0, Ecn.
  all: change (msg_size s0 u mod two32) with (msz s0 u); rewrite (Hz0 u).
  all: match goal with |- context [reserve ?rb ?ws ?sz] => destruct (reserve rb ws sz) as [okr ws'] eqn:Er end.
  all: destruct okr as [l|]; [|intros []].
  all: intros _; rewrite Hq0 in Eqq; exists qu, u, rest, cn.
  all: destruct (cfg_rabbit cfg); apply reserve2_success in Er; destruct Er as (w1' & w2' & Hi1 & Hi2); cbn [ch_qos upd_consumer] in Hi1;
       rewrite ?Eq in Hi2; eauto 10.
Qed.

Theorem consumer_delivery_size_bounded_reachable cfg fx ls c h tag ch cm d r ex k :
  cfg_rabbit cfg = true -> fx_stage fx = true -> fx_chan_open fx = true -> fx_closeok_releases fx = true ->
  smallb_along cfg fx (init cfg) ls ->
  let s := fst (run cfg fx (init cfg) ls) in
  get_chan s c h = Some ch -> find_consumer ch tag = Some cm -> c_noack cm = false -> ps (c_own cm) <> 0 ->
  In (c, h, SDeliver tag d r ex k) (snd (consumer_turn cfg fx s c h tag)) ->
  exists qu u rest, get_queue s (c_queue cm) = Some qu /\ q_ready qu = u :: rest /\
    fold_right (fun x acc => msg_size s (u_msg x) mod two32 + acc) 0 (filter (fun u => seqb (u_ctag u) (c_tag cm)) (ch_unacked ch))
    + msg_size s u mod two32 <= ps (c_own cm).
Proof.
  intros Hrab Hst Hco Hcr Hs s Ech Efc Ena Hp Hev. subst s. set (s := fst (run cfg fx (init cfg) ls)) in *.
  destruct (ack_turn_charges_sized cfg fx s c h tag ch cm d r ex k Ech Efc Ena Hev) as (qu & u & rest & cn & w1 & w2 & Eq & Er & _ & _ & Hi).
  rewrite Hrab in Hi. exists qu, u, rest. split; [exact Eq|]. split; [exact Er|].
  pose proof (YB_run cfg fx Hrab Hst Hco Hcr ls (init cfg) (CB_init cfg) (RCI_init cfg) (YB_init cfg) Hs _ _ _ Ech) as Hc.
  pose proof (smallb_along_last cfg fx ls _ Hs _ _ _ _ _ _ _ Ech Eq Er) as Hsm. fold s in Hsm.
  apply find_consumer_in in Efc. destruct Efc as [Hin _].
  assert (Hsm' : ycnt (msz s) (ch_unacked ch) (c_tag cm) + msz s u < two32) by (pose proof (ycnt_le (msz s) (ch_unacked ch) (c_tag cm)); lia).
  destruct (consumer_delivery_only_below_size_limit (msz s) ch cm (msz s u) w2 Hc Hin Hsm' Hi Hp) as [Hle _].
  unfold ycnt in Hle. rewrite bsum_fold in Hle. exact Hle.
Qed.

(* ------------------------------------------------------------------ *)
(* Part 7: the byte count of the connection-wide window (amqp-0-9-1 dialect); wf gives the size of a message *)
Section ZBytes.
Variable wf : N -> N.
Definition ztot (cn : conn) : N := bsum wf (chan_unacked_all cn).
Definition znl (k : N) (cn : conn) : Prop := cs (cn_qos cn) = ztot cn + k.
(* connection c0 is k ahead while its channel h0 exists *)
Definition ZNLoff (c0 h0 : N) (k : N) (c : N) (cn : conn) : Prop := znl (if (c =? c0) && has_chan h0 cn then k else 0) cn.
Definition ZNLP (c : N) (cn : conn) : Prop := znl 0 cn.
Notation ZNL := (allcn ZNLP).

Definition zulen (chans : list (N * channel)) : N := bsum wf (flat_map (fun kh : N * channel => ch_unacked (snd kh)) chans).
Lemma zulen_aset chans h ch' :
  zulen (aset N.eqb h ch' chans) + match alookup N.eqb h chans with Some ch => bsum wf (ch_unacked ch) | None => 0 end
  = zulen chans + bsum wf (ch_unacked ch').
Proof.
  unfold zulen. induction chans as [|[k v] t IH]; cbn [aset alookup flat_map snd].
  - rewrite !bsum_app. cbn. lia.
  - destruct (h =? k); cbn [flat_map snd]; rewrite !bsum_app; lia.
Qed.
Lemma ztot_aset cn h ch' ch : alookup N.eqb h (cn_chans cn) = Some ch ->
  ztot (cn <| cn_chans := aset N.eqb h ch' (cn_chans cn) |>) + bsum wf (ch_unacked ch) = ztot cn + bsum wf (ch_unacked ch').
Proof.
  intros E. unfold ztot, chan_unacked_all. cbn [cn_chans set]. pose proof (zulen_aset (cn_chans cn) h ch') as Hl. rewrite E in Hl.
  unfold zulen in Hl. exact Hl.
Qed.
Lemma zhas_chan_aset cn h ch' ch h0 : alookup N.eqb h (cn_chans cn) = Some ch ->
  has_chan h0 (cn <| cn_chans := aset N.eqb h ch' (cn_chans cn) |>) = has_chan h0 cn.
Proof.
  intros E. unfold has_chan. cbn. rewrite (alookup_aset N.eqb Neqb_spec). destruct (h0 =? h) eqn:E1; [|reflexivity].
  apply N.eqb_eq in E1. subst. rewrite E. reflexivity.
Qed.

Lemma zget_conn_set_chan s c h ch c' :
  get_conn (set_chan s c h ch) c' =
  match get_conn s c with
  | Some cn => if c' =? c then Some (cn <| cn_chans := aset N.eqb h ch (cn_chans cn) |>) else get_conn s c'
  | None => get_conn s c'
  end.
Proof.
  unfold set_chan. destruct (get_conn s c) as [cn|] eqn:Ec; [|reflexivity].
  unfold get_conn. cbn. rewrite (alookup_aset N.eqb Neqb_spec). reflexivity.
Qed.
Lemma zget_conn_set_conn s c cn' c' :
  get_conn (s <| conns := aset N.eqb c cn' (conns s) |>) c' = if c' =? c then Some cn' else get_conn s c'.
Proof. unfold get_conn. cbn. rewrite (alookup_aset N.eqb Neqb_spec). reflexivity. Qed.
Lemma zget_chan_parts s c h ch : get_chan s c h = Some ch -> exists cn, get_conn s c = Some cn /\ alookup N.eqb h (cn_chans cn) = Some ch.
Proof. unfold get_chan. destruct (get_conn s c) as [cn|]; [eauto|discriminate]. Qed.
Lemma zget_chan_none_has s c h cn : get_chan s c h = None -> get_conn s c = Some cn -> has_chan h cn = false.
Proof. unfold get_chan, has_chan. intros H E. rewrite E in H. rewrite H. reflexivity. Qed.

Lemma zallcn_same_conns (Q : N -> conn -> Prop) s s' : conns s' = conns s -> allcn Q s -> allcn Q s'.
Proof. unfold allcn, get_conn. intros E H c cn Hg. apply H. rewrite <- E. exact Hg. Qed.
Lemma zallcn_del_conn (Q : N -> conn -> Prop) s c : allcn Q s -> allcn Q (s <| conns := adel N.eqb c (conns s) |>).
Proof.
  intros H c' cn Hg. unfold get_conn in Hg. cbn in Hg. rewrite (alookup_adel N.eqb Neqb_spec) in Hg.
  destruct (c' =? c); [discriminate|]. apply H. exact Hg.
Qed.
Lemma zallcn_restart (Q : N -> conn -> Prop) cfg s : allcn Q (fst (restart cfg s)).
Proof. unfold restart. cbn [fst]. intros c cn Hg. unfold get_conn in Hg. cbn in Hg. discriminate. Qed.

Ltac znsame := first
  [ eapply zallcn_same_conns; [first
      [ apply conns_set_queue | apply conns_upd_queue | apply conns_upd_msg
      | apply (proj1 conns_queue_ops) | apply (proj1 (proj2 conns_queue_ops))
      | apply (proj1 (proj2 (proj2 conns_queue_ops))) | apply (proj2 (proj2 (proj2 conns_queue_ops))) ] | ]
  | match goal with |- allcn _ (@set _ _ _ _ _ ?s) => apply (zallcn_same_conns _ s); [reflexivity|] end ].

(* primitives that keep, for every connection, the total of unsettled deliveries, the window count and the set of channels *)
Section ZNGen.
Variable Q : N -> conn -> Prop.
Hypothesis Q_keep : forall c cn cn', ztot cn' = ztot cn -> cs (cn_qos cn') = cs (cn_qos cn) ->
  (forall h, has_chan h cn' = has_chan h cn) -> Q c cn -> Q c cn'.

Lemma ZN_set_keep s c h ch ch' :
  get_chan s c h = Some ch -> bsum wf (ch_unacked ch') = bsum wf (ch_unacked ch) -> allcn Q s -> allcn Q (set_chan s c h ch').
Proof.
  intros Ech El H c' cn' Hg. rewrite zget_conn_set_chan in Hg. destruct (zget_chan_parts _ _ _ _ Ech) as (cn & Ec & Eh). rewrite Ec in Hg.
  destruct (c' =? c) eqn:E1; [|apply H; auto]. apply N.eqb_eq in E1. subst. inversion Hg; subst.
  eapply Q_keep; [..|exact (H _ _ Ec)].
  - pose proof (ztot_aset cn h ch' ch Eh). lia.
  - reflexivity.
  - intros h1. eapply zhas_chan_aset; eauto.
Qed.
Lemma ZN_upd_keep s c h f : (forall ch, bsum wf (ch_unacked (f ch)) = bsum wf (ch_unacked ch)) -> allcn Q s -> allcn Q (upd_chan s c h f).
Proof. intros Hf H. unfold upd_chan. destruct (get_chan s c h) as [ch|] eqn:E; auto. eapply ZN_set_keep; eauto. Qed.
Lemma ZN_conn_keep s c cn g : get_conn s c = Some cn -> cs (g (cn_qos cn)) = cs (cn_qos cn) -> allcn Q s ->
  allcn Q (s <| conns := aset N.eqb c (cn <| cn_qos ::= g |>) (conns s) |>).
Proof.
  intros Ec Eg H c' cn' Hg. rewrite zget_conn_set_conn in Hg. destruct (c' =? c) eqn:E1; [|apply H; auto].
  apply N.eqb_eq in E1. subst. inversion Hg; subst. eapply Q_keep; [..|exact (H _ _ Ec)]; auto.
Qed.
Lemma ZN_set_stage s c st : allcn Q s -> allcn Q (set_stage s c st).
Proof.
  intros H. unfold set_stage. destruct (get_conn s c) as [cn|] eqn:Ec; auto.
  intros c' cn' Hg. rewrite zget_conn_set_conn in Hg. destruct (c' =? c) eqn:E1; [|apply H; auto].
  apply N.eqb_eq in E1. subst. inversion Hg; subst. eapply Q_keep; [..|exact (H _ _ Ec)]; auto.
Qed.

Ltac znkeep := apply ZN_upd_keep; [intros; reflexivity|].
Ltac znset Ech := eapply ZN_set_keep; [exact Ech|reflexivity|].

Lemma ZN_wake s c h tag : allcn Q s -> allcn Q (fst (wake_consumer s c h tag)).
Proof.
  intros H. unfold wake_consumer. destruct (get_chan s c h) as [ch|] eqn:E; auto.
  destruct (find_consumer ch tag) as [cm|]; auto. destruct (consume_msg cm) as [cm' b]. cbn [fst]. znset E. exact H.
Qed.
Lemma ZN_consumer_stop s c h tag : allcn Q s -> allcn Q (consumer_stop s c h tag).
Proof.
  intros H. unfold consumer_stop. destruct (get_chan s c h) as [ch|] eqn:E; auto.
  destruct (find_consumer ch tag) as [cm|]; auto.
  destruct (c_status cm); auto; (eapply zallcn_same_conns; [apply (proj2 (proj2 (proj2 conns_queue_ops)))|]); (znset E; exact H).
Qed.
Lemma ZN_wake_all s c h : allcn Q s -> allcn Q (wake_all_of_chan s c h).
Proof. intros H. unfold wake_all_of_chan. znkeep. exact H. Qed.
Lemma ZN_wake_consumers cfg s c h : allcn Q s -> allcn Q (wake_consumers cfg s c h).
Proof.
  intros H. unfold wake_consumers. pose proof (ZN_wake_all s c h H) as H1.
  destruct (cfg_rabbit cfg); auto. destruct (get_conn _ c) as [cn|]; auto.
  apply fold_left_preserves; auto. intros s0 x H0. destruct (fst x =? h); auto. apply ZN_wake_all; auto.
Qed.
Lemma ZN_chan_ackmsg s u : allcn Q s -> allcn Q (chan_ackmsg s u).
Proof. intros H. unfold chan_ackmsg. destruct (origin_queue s u); repeat znsame; auto. Qed.
Lemma ZN_chan_rejectmsg s u r : allcn Q s -> allcn Q (chan_rejectmsg s u r).
Proof. intros H. unfold chan_rejectmsg. destruct (origin_queue s u); [destruct r|]; repeat znsame; auto. Qed.
Lemma ZN_cancel_fold l : forall s evs, allcn Q s ->
  allcn Q (fst (fold_left (fun acc x => let '(s, evs) := acc in let '(s', e) := consumer_cancel s x in (s', evs ++ e)) l (s, evs))).
Proof. induction l as [|[[c h] tag] t IH]; intros s evs H; simpl; auto. apply IH. apply ZN_consumer_stop; auto. Qed.
Lemma ZN_vhost_delete_queue b s qn iu ie : allcn Q s -> allcn Q (fst (fst (vhost_delete_queue b s qn iu ie))).
Proof.
  intros H. unfold vhost_delete_queue. destruct (get_queue s qn) as [qu|] eqn:Eq; auto.
  destruct (_ || _).
  - cbn [fst]. destruct b; [eapply zallcn_same_conns; [apply conns_set_queue|exact H]|exact H].
  - pose proof (ZN_cancel_fold (q_consumers qu) s [] H) as Hf.
    destruct (fold_left _ (q_consumers qu) (s, [])) as [s1 e1]. cbn [fst] in *.
    repeat (first [ assumption | match goal with |- allcn _ (if ?b then _ else _) => destruct b end | znsame ]).
Qed.
Lemma ZN_add_confirm s c h t : allcn Q s -> allcn Q (add_confirm s c h t).
Proof.
  intros H. unfold add_confirm. destruct (get_chan s c h) as [ch|] eqn:E; auto. destruct (negb _); auto.
  destruct (ch_status ch) eqn:Es; auto; destruct t as [[[? ?] ?]|]; auto; (znset E; exact H).
Qed.
Lemma ZN_closing s c h : allcn Q s -> allcn Q (upd_chan s c h (fun ch => ch <| ch_status := ChClosing |>)).
Proof. intros H. znkeep. exact H. Qed.
Lemma ZN_cur s c h : allcn Q s -> allcn Q (upd_chan s c h (fun ch => ch <| ch_cur := None |>)).
Proof. intros H. znkeep. exact H. Qed.
Lemma ZN_tick s c h ch : get_chan s c h = Some ch -> allcn Q s ->
  allcn Q (set_chan s c h (ch <| ch_ticker := false |>)) /\ allcn Q (set_chan s c h (ch <| ch_confirmq := [] |>)).
Proof. intros E H. split; (znset E; exact H). Qed.
End ZNGen.

Lemma ZNLoff_keep c0 h0 k : forall c cn cn', ztot cn' = ztot cn -> cs (cn_qos cn') = cs (cn_qos cn) ->
  (forall h, has_chan h cn' = has_chan h cn) -> ZNLoff c0 h0 k c cn -> ZNLoff c0 h0 k c cn'.
Proof. unfold ZNLoff, znl. intros c cn cn' E1 E2 E3. rewrite E1, E2, E3. auto. Qed.
Lemma ZNLP_keep : forall c cn cn', ztot cn' = ztot cn -> cs (cn_qos cn') = cs (cn_qos cn) ->
  (forall h, has_chan h cn' = has_chan h cn) -> ZNLP c cn -> ZNLP c cn'.
Proof. unfold ZNLP, znl. intros c cn cn' E1 E2 _. rewrite E1, E2. auto. Qed.
Lemma ZNLoff_zero c0 h0 s : allcn (ZNLoff c0 h0 0) s <-> ZNL s.
Proof.
  unfold allcn, ZNLoff, ZNLP. split; intros H c cn Hg; specialize (H c cn Hg); destruct ((c =? c0) && has_chan h0 cn); auto.
Qed.
Lemma ZNLoff_none c0 h0 k k' s : get_chan s c0 h0 = None -> allcn (ZNLoff c0 h0 k) s -> allcn (ZNLoff c0 h0 k') s.
Proof.
  intros En H c cn Hg. pose proof (H _ _ Hg) as H1. unfold ZNLoff in *. destruct (c =? c0) eqn:E1; [|exact H1].
  apply N.eqb_eq in E1. subst. rewrite (zget_chan_none_has _ _ _ _ En Hg) in *. exact H1.
Qed.

(* an update of channel (c0,h0) that changes the number of its unsettled deliveries moves the connection's offset *)
Lemma ZN_upd_shift s c0 h0 ka kb f ch :
  get_chan s c0 h0 = Some ch ->
  bsum wf (ch_unacked (f ch)) + kb = bsum wf (ch_unacked ch) + ka ->
  allcn (ZNLoff c0 h0 ka) s -> allcn (ZNLoff c0 h0 kb) (upd_chan s c0 h0 f).
Proof.
  intros Ech El H c cn' Hg. unfold upd_chan in Hg. rewrite Ech in Hg. rewrite get_conn_set_chan in Hg.
  destruct (get_chan_parts _ _ _ _ Ech) as (cn & Ec & Eh). rewrite Ec in Hg.
  destruct (c =? c0) eqn:E1.
  - apply N.eqb_eq in E1. subst. inversion Hg; subst. pose proof (H _ _ Ec) as H1. unfold ZNLoff, znl in *. rewrite N.eqb_refl in *.
    rewrite (has_chan_aset cn h0 (f ch) ch h0 Eh). assert (Hh : has_chan h0 cn = true) by (unfold has_chan; rewrite Eh; reflexivity).
    rewrite Hh in *. cbn [andb] in *. pose proof (ztot_aset cn h0 (f ch) ch Eh). cbn [cn_qos set] in *. change (cn_qos (cn <| cn_chans := _ |>)) with (cn_qos cn). lia.
  - pose proof (H _ _ Hg) as H1. unfold ZNLoff in *. rewrite E1 in *. exact H1.
Qed.

Lemma ZN_conn_shift s c0 h0 ka kb cn g :
  get_conn s c0 = Some cn -> has_chan h0 cn = true ->
  (cs (cn_qos cn) = ztot cn + ka -> cs (g (cn_qos cn)) = ztot cn + kb) ->
  allcn (ZNLoff c0 h0 ka) s -> allcn (ZNLoff c0 h0 kb) (s <| conns := aset N.eqb c0 (cn <| cn_qos ::= g |>) (conns s) |>).
Proof.
  intros Ec Hh Hg H c cn' Hgc. rewrite get_conn_set_conn in Hgc. destruct (c =? c0) eqn:E1.
  - apply N.eqb_eq in E1. subst. inversion Hgc; subst. pose proof (H _ _ Ec) as H1. unfold ZNLoff, znl in *. rewrite N.eqb_refl in *.
    change (has_chan h0 (cn <| cn_qos ::= g |>)) with (has_chan h0 cn). rewrite Hh in *. cbn [andb] in *.
    change (ztot (cn <| cn_qos ::= g |>)) with (ztot cn). cbn [cn_qos set]. apply Hg. exact H1.
  - pose proof (H _ _ Hgc) as H1. unfold ZNLoff in *. rewrite E1 in *. exact H1.
Qed.

Section ZNKeep.
Variables (c0 h0 : N) (k : N).
Definition ZNO_wake_consumers := ZN_wake_consumers (ZNLoff c0 h0 k) (ZNLoff_keep c0 h0 k).
Definition ZNO_chan_ackmsg := ZN_chan_ackmsg (ZNLoff c0 h0 k).
Definition ZNO_chan_rejectmsg := ZN_chan_rejectmsg (ZNLoff c0 h0 k).
Definition ZNO_upd_keep := ZN_upd_keep (ZNLoff c0 h0 k) (ZNLoff_keep c0 h0 k).
End ZNKeep.

Lemma ZN_del s c0 h0 k u ch :
  get_chan s c0 h0 = Some ch -> NoDup (map u_tag (ch_unacked ch)) -> In u (ch_unacked ch) ->
  allcn (ZNLoff c0 h0 k) s -> allcn (ZNLoff c0 h0 (k + wf (u_msg u))) (upd_chan s c0 h0 (fun ch => del_unacked ch (u_tag u))).
Proof.
  intros Ech Hnd Hin H. eapply ZN_upd_shift; eauto. unfold del_unacked. cbn [ch_unacked set].
  pose proof (bsum_del wf (ch_unacked ch) u Hnd Hin) as Hl. lia.
Qed.

Lemma ZN_dec cfg s c0 h0 k u :
  cfg_rabbit cfg = false -> msz s (u_msg u) = wf (u_msg u) ->
  allcn (ZNLoff c0 h0 (k + wf (u_msg u))) s -> allcn (ZNLoff c0 h0 k) (dec_qos_and_consume_next cfg s c0 h0 u).
Proof.
  intros Hrab Hsz H. unfold dec_qos_and_consume_next. destruct (get_chan s c0 h0) as [ch|] eqn:Ech; [|eapply ZNLoff_none; eauto].
  apply ZNO_wake_consumers. rewrite Hrab. change (msg_size s (u_msg u) mod two32) with (msz s (u_msg u)). rewrite Hsz.
  set (f := fun ch : channel => ch <| ch_qos ::= fun w => qos_dec w (wf (u_msg u)) |>).
  assert (H1 : allcn (ZNLoff c0 h0 (k + wf (u_msg u))) (upd_chan s c0 h0 f)) by (apply ZNO_upd_keep; [intros; reflexivity|exact H]).
  assert (E1 : get_chan (upd_chan s c0 h0 f) c0 h0 = Some (f ch)) by (rewrite get_chan_upd_chan, !N.eqb_refl, Ech; reflexivity).
  assert (X : allcn (ZNLoff c0 h0 k)
                (match get_conn (upd_chan s c0 h0 f) c0 with
                 | Some cn => upd_chan s c0 h0 f <| conns := aset N.eqb c0 (cn <| cn_qos ::= fun w => qos_dec w (wf (u_msg u)) |>) (conns (upd_chan s c0 h0 f)) |>
                 | None => upd_chan s c0 h0 f end)).
  { destruct (get_conn (upd_chan s c0 h0 f) c0) as [cn|] eqn:Ec; [|pose proof (get_chan_conn _ _ _ _ E1); congruence].
    eapply ZN_conn_shift; eauto; [eapply get_chan_has; eauto|].
    intros Hc. cbn. rewrite Hc. destruct (ztot cn + (k + wf (u_msg u)) <? wf (u_msg u)) eqn:E; [apply N.ltb_lt in E; lia|lia]. }
  destruct (find_consumer ch (u_ctag u)); exact X.
Qed.

Section ZNSettle.
Variables (c0 h0 : N).
Variable g : state -> unacked -> state.
Hypothesis g_eq : forall s u, exists s1, s1 = upd_chan s c0 h0 (fun ch => del_unacked ch (u_tag u)) /\
  (forall k, allcn (ZNLoff c0 h0 k) s1 -> allcn (ZNLoff c0 h0 k) (g s u)) /\ U (g s u) c0 h0 = U s1 c0 h0.

Lemma ZN_fold_del sel : forall s k,
  NoDup (map u_tag sel) -> (forall u, In u sel -> In u (U s c0 h0)) -> NoDup (map u_tag (U s c0 h0)) ->
  allcn (ZNLoff c0 h0 k) s -> allcn (ZNLoff c0 h0 (k + bsum wf sel)) (fold_left g sel s).
Proof.
  induction sel as [|a t IH]; intros s k Hnd Hin Hu H; cbn [fold_left bsum].
  - rewrite N.add_0_r. exact H.
  - cbn in Hnd. inversion Hnd as [|? ? Hni Hnd']; subst.
    destruct (g_eq s a) as (s1 & Es1 & Hk & HU).
    assert (Ha : In a (U s c0 h0)) by (apply Hin; left; reflexivity).
    destruct (get_chan s c0 h0) as [ch|] eqn:Ech; [|unfold U in Ha; rewrite Ech in Ha; destruct Ha].
    rewrite (U_some _ _ _ _ Ech) in *.
    assert (H1 : allcn (ZNLoff c0 h0 (k + wf (u_msg a))) (g s a)).
    { apply Hk. subst s1. eapply ZN_del; eauto. }
    assert (HU1 : U (g s a) c0 h0 = filter (fun u => negb (u_tag u =? u_tag a)) (ch_unacked ch)).
    { rewrite HU. subst s1. rewrite del_unacked_U. rewrite (U_some _ _ _ _ Ech). reflexivity. }
    replace (k + (wf (u_msg a) + bsum wf t)) with ((k + wf (u_msg a)) + bsum wf t) by lia.
    apply IH; auto.
    + intros u Hu'. rewrite HU1. apply filter_In. split; [apply Hin; right; exact Hu'|].
      apply Bool.negb_true_iff. apply N.eqb_neq. intros E. apply Hni. rewrite <- E. apply in_map. exact Hu'.
    + rewrite HU1. apply NoDup_map_filter. exact Hu.
Qed.
End ZNSettle.

Lemma ZN_fold_dec cfg c0 h0 sel : cfg_rabbit cfg = false -> forall s k,
  SZ wf s -> allcn (ZNLoff c0 h0 (k + bsum wf sel)) s ->
  allcn (ZNLoff c0 h0 k) (fold_left (fun s u => dec_qos_and_consume_next cfg s c0 h0 u) sel s).
Proof.
  intros Hrab. induction sel as [|a t IH]; intros s k Hs H; cbn [fold_left bsum] in *.
  - rewrite N.add_0_r in H. exact H.
  - apply IH; [eapply SZ_szeq; [apply szeq_heap, heap_dec_qos|exact Hs]|]. apply ZN_dec; auto.
    replace (k + bsum wf t + wf (u_msg a)) with (k + (wf (u_msg a) + bsum wf t)) by lia. exact H.
Qed.

Theorem ZNL_handle_ack cfg s c h tag mult :
  cfg_rabbit cfg = false -> SZ wf s -> CI s -> ZNL s -> ZNL (fst (handle_ack cfg s c h tag mult)).
Proof.
  intros Hrab Hs Hci H. unfold handle_ack. destruct (get_chan s c h) as [ch|] eqn:Ech; auto.
  pose proof (Hci _ _ _ Ech) as [Hnd _].
  destruct mult.
  - cbn [fst]. apply (ZNLoff_zero c h). apply (ZN_fold_dec cfg c h _ Hrab _ 0).
    + eapply SZ_szeq; [|exact Hs]. apply szeq_fold. intros s0 u. eapply szeq_trans; [apply szeq_upd_chan|apply szeq_chan_ackmsg].
    + apply (ZN_fold_del c h (fun s u => chan_ackmsg (upd_chan s c h (fun ch => del_unacked ch (u_tag u))) u)).
      * intros s0 u. eexists. split; [reflexivity|]. split; [intros k; apply ZNO_chan_ackmsg|apply U_chan_ackmsg].
      * apply NoDup_map_filter. exact Hnd.
      * intros u Hu. rewrite (U_some _ _ _ _ Ech). apply filter_In in Hu. tauto.
      * rewrite (U_some _ _ _ _ Ech). exact Hnd.
      * apply ZNLoff_zero. exact H.
  - destruct (find _ (ch_unacked ch)) as [u|] eqn:Ef; cbn [fst]; auto.
    apply find_some in Ef. destruct Ef as [Hin Et]. apply N.eqb_eq in Et. subst tag.
    apply (ZNLoff_zero c h). apply ZN_dec; auto.
    + rewrite <- (Hs (u_msg u)). unfold msz. f_equal. exact (szeq_trans _ _ _ (szeq_upd_chan s c h _) (szeq_chan_ackmsg _ u) (u_msg u)).
    + apply ZNO_chan_ackmsg. rewrite N.add_0_l. replace (wf (u_msg u)) with (0 + wf (u_msg u)) by lia.
      eapply ZN_del; eauto. apply ZNLoff_zero. exact H.
Qed.

Theorem ZNL_handle_reject cfg s c h tag mult requeue cls mth :
  cfg_rabbit cfg = false -> SZ wf s -> CI s -> ZNL s -> ZNL (fst (handle_reject cfg s c h tag mult requeue cls mth)).
Proof.
  intros Hrab Hs Hci H. unfold handle_reject. destruct (get_chan s c h) as [ch|] eqn:Ech; auto.
  pose proof (Hci _ _ _ Ech) as [Hnd _].
  destruct mult.
  - cbn [fst]. apply (ZNLoff_zero c h). apply (ZN_fold_dec cfg c h _ Hrab _ 0).
    + eapply SZ_szeq; [|exact Hs]. apply szeq_fold. intros s0 u. eapply szeq_trans; [apply szeq_upd_chan|apply szeq_chan_rejectmsg].
    + apply (ZN_fold_del c h (fun s u => chan_rejectmsg (upd_chan s c h (fun ch => del_unacked ch (u_tag u))) u requeue)).
      * intros s0 u. eexists. split; [reflexivity|]. split; [intros k; apply ZNO_chan_rejectmsg|apply U_chan_rejectmsg].
      * apply NoDup_map_filter. apply NoDup_sort_desc. exact Hnd.
      * intros u Hu. rewrite (U_some _ _ _ _ Ech). apply filter_In in Hu. apply sort_desc_perm. tauto.
      * rewrite (U_some _ _ _ _ Ech). exact Hnd.
      * apply ZNLoff_zero. exact H.
  - destruct (find _ (ch_unacked ch)) as [u|] eqn:Ef; cbn [fst]; auto.
    apply find_some in Ef. destruct Ef as [Hin Et]. apply N.eqb_eq in Et. subst tag.
    apply (ZNLoff_zero c h). apply ZN_dec; auto.
    + rewrite <- (Hs (u_msg u)). unfold msz. f_equal. exact (szeq_trans _ _ _ (szeq_upd_chan s c h _) (szeq_chan_rejectmsg _ u requeue) (u_msg u)).
    + apply ZNO_chan_rejectmsg. rewrite N.add_0_l. replace (wf (u_msg u)) with (0 + wf (u_msg u)) by lia.
      eapply ZN_del; eauto. apply ZNLoff_zero. exact H.
Qed.

(* ---- deliveries ---- *)
Lemma ZN_charge s c h a b d ch cn :
  get_chan s c h = Some ch -> get_conn s c = Some cn -> cs b = cs (cn_qos cn) + d -> ZNL s ->
  allcn (ZNLoff c h d)
    (match get_conn (upd_chan s c h (fun ch => ch <| ch_qos := a |>)) c with
     | Some cn => upd_chan s c h (fun ch => ch <| ch_qos := a |>) <| conns := aset N.eqb c (cn <| cn_qos := b |>) (conns (upd_chan s c h (fun ch => ch <| ch_qos := a |>))) |>
     | None => upd_chan s c h (fun ch => ch <| ch_qos := a |>) end).
Proof.
  intros Ech Ec Hb H.
  set (s1 := upd_chan s c h (fun ch => ch <| ch_qos := a |>)).
  assert (H1 : allcn (ZNLoff c h 0) s1) by (subst s1; apply ZNO_upd_keep; [intros; reflexivity|apply ZNLoff_zero; exact H]).
  assert (E1 : get_chan s1 c h = Some (ch <| ch_qos := a |>)) by (subst s1; rewrite get_chan_upd_chan, !N.eqb_refl, Ech; reflexivity).
  assert (Eq : forall cn1, get_conn s1 c = Some cn1 -> cn_qos cn1 = cn_qos cn).
  { subst s1. unfold upd_chan. rewrite Ech. intros cn1 Hg. rewrite get_conn_set_chan, Ec, N.eqb_refl in Hg. inversion Hg; subst. reflexivity. }
  clearbody s1.
  destruct (get_conn s1 c) as [cn1|] eqn:Ec1; [|pose proof (get_chan_conn _ _ _ _ E1); congruence].
  apply (ZN_conn_shift s1 c h 0 d cn1 (fun _ => b)); auto; [eapply get_chan_has; eauto|].
  intros Hc. rewrite Hb, <- (Eq _ eq_refl), Hc. lia.
Qed.

Lemma ZN_store_windows cfg s c h tag a b d ch cn :
  cfg_rabbit cfg = false -> get_chan s c h = Some ch -> get_conn s c = Some cn -> cs b = cs (cn_qos cn) + d -> ZNL s ->
  allcn (ZNLoff c h d) (store_windows cfg s c h tag [a; b]).
Proof. intros Hrab Ech Ec Hb H. unfold store_windows. rewrite Hrab. eapply ZN_charge; eauto. Qed.

Lemma ZN_append s c h x : allcn (ZNLoff c h (wf (u_msg x))) s -> ZNL (upd_chan s c h (fun ch => ch <| ch_unacked ::= fun l => l ++ [x] |>)).
Proof.
  intros H. apply (ZNLoff_zero c h). destruct (get_chan s c h) as [ch|] eqn:Ech.
  - eapply ZN_upd_shift; eauto. cbn [ch_unacked set]. rewrite bsum_app. cbn [bsum]. lia.
  - unfold upd_chan. rewrite Ech. eapply ZNLoff_none; eauto.
Qed.

Definition ZNL_wake := ZN_wake ZNLP ZNLP_keep.
Definition ZNL_consumer_stop := ZN_consumer_stop ZNLP ZNLP_keep.
Definition ZNL_wake_consumers := ZN_wake_consumers ZNLP ZNLP_keep.

Definition SmallCBf (s : state) : Prop :=
  forall c cn q qu u rest, get_conn s c = Some cn -> get_queue s q = Some qu -> q_ready qu = u :: rest -> ztot cn + wf u < two32.

Theorem ZNL_consumer_turn cfg fx s c h tag :
  cfg_rabbit cfg = false -> SZ wf s -> SmallCBf s -> ZNL s -> ZNL (fst (consumer_turn cfg fx s c h tag)).
Proof.
  intros Hrab Hsz Hsm H. unfold consumer_turn.
  destruct (get_chan s c h) as [ch|] eqn:Ech; auto.
  destruct (find_consumer ch tag) as [cm|] eqn:Efc; auto.
  destruct (negb (c_token cm)); auto.
  destruct (get_chan_parts _ _ _ _ Ech) as (cn & Ec & Eh).
  set (s0 := set_chan s c h _).
  assert (H0 : ZNL s0) by (subst s0; eapply (ZN_set_keep ZNLP ZNLP_keep); eauto).
  assert (Ech0 : exists ch0, get_chan s0 c h = Some ch0).
  { subst s0. rewrite get_chan_set_chan. rewrite Ec. rewrite !N.eqb_refl. cbn. eauto. }
  destruct Ech0 as (ch0 & Ech0).
  assert (Ecn0 : exists cn0, get_conn s0 c = Some cn0 /\ ztot cn0 = ztot cn).
  { subst s0. rewrite get_conn_set_chan, Ec, N.eqb_refl. eexists. split; [reflexivity|].
    pose proof (ztot_aset cn h (upd_consumer ch tag (fun cm => cm <| c_token := false |>)) ch Eh) as X.
    change (ch_unacked (upd_consumer ch tag _)) with (ch_unacked ch) in X. lia. }
  destruct Ecn0 as (cn0 & Ecn0 & Et0).
  assert (Hsz0 : SZ wf s0) by (subst s0; eapply SZ_szeq; [apply szeq_heap, heap_set_chan'|exact Hsz]).
  assert (Hq0 : forall q, get_queue s0 q = get_queue s q) by (intros q; subst s0; unfold get_queue; rewrite queues_set_chan; reflexivity).
  clearbody s0.
  destruct (c_status cm); auto.
  all: destruct (get_queue s0 (c_queue cm)) as [qu|] eqn:Eqq; auto.
  all: destruct (negb (q_active qu)); auto.
  all: destruct (q_ready qu) as [|u rest] eqn:Erd; auto.
  all: destruct (c_noack cm) eqn:Ena.
  all: try (cbn [fst];
            match goal with |- context [wake_consumer ?st ?c0 ?h0 ?tag0] => destruct (wake_consumer st c0 h0 tag0) as [s9 b9] eqn:Ew;
              apply fst_pair in Ew; cbn [fst]; subst s9; apply ZNL_wake end;
            repeat (first [ assumption | znsame | match goal with |- allcn _ (if ?b then _ else _) => destruct b end
                          | apply (ZN_upd_keep ZNLP ZNLP_keep); [intros; reflexivity|] ]); fail).
  all: unfold window_list; rewrite Ech0, Ecn0, Hrab.
  all: change (msg_size s0 u mod two32) with (msz s0 u); rewrite (Hsz0 u).
  all: assert (Hs1 : cs (cn_qos cn0) + wf u < two32)
         by (pose proof (H0 _ _ Ecn0) as Hl; unfold ZNLP, znl in Hl; rewrite Hq0 in Eqq; pose proof (Hsm _ _ _ _ _ _ Ec Eqq Erd); lia).
  all: destruct (reserve (cfg_rollback cfg) [ch_qos ch0; cn_qos cn0] (wf u)) as [okr ws] eqn:Er.
  all: destruct (yreserve2_second _ _ _ _ _ _ Er) as (a & b & -> & Hb).
  all: destruct okr as [l|]; cbn [fst].
  all: try (apply (ZNLoff_zero c h); eapply ZN_store_windows; eauto; rewrite Hb; lia).
  all: match goal with |- context [wake_consumer ?st ?c0 ?h0 ?tag0] => destruct (wake_consumer st c0 h0 tag0) as [s9 b9] eqn:Ew;
         apply fst_pair in Ew; cbn [fst]; subst s9; apply ZNL_wake end.
  all: repeat znsame.
  all: apply ZN_append.
  all: apply ZNO_upd_keep; [intros; reflexivity|].
  all: repeat znsame.
  all: eapply ZN_store_windows; eauto; rewrite Hb; rewrite N.mod_small by exact Hs1; reflexivity.
Qed.

Lemma ZNL_channel_close cfg s c h : cfg_rabbit cfg = false -> SZ wf s -> CI s -> ZNL s -> ZNL (channel_close cfg s c h).
Proof.
  intros Hrab Hs Hci H. unfold channel_close. destruct (get_chan s c h) as [ch|] eqn:Ech; auto.
  apply (ZN_upd_keep ZNLP ZNLP_keep); [intros; reflexivity|].
  set (s2 := upd_chan (fold_left (fun s cm => consumer_stop s c h (c_tag cm)) (ch_consumers ch) s) c h (fun ch => ch <| ch_consumers := [] |>)).
  assert (H2 : ZNL s2).
  { subst s2. apply (ZN_upd_keep ZNLP ZNLP_keep); [intros; reflexivity|]. apply fold_left_preserves; auto. intros; apply ZNL_consumer_stop; auto. }
  assert (C2 : CI s2).
  { subst s2. apply allch_upd_chan; [intros ch0 Hc0; eapply chinvp_set; [..|exact Hc0]; reflexivity|].
    apply fold_left_preserves; auto. intros; apply CI_consumer_stop; auto. }
  assert (S2 : SZ wf s2).
  { subst s2. eapply SZ_szeq; [|exact Hs]. eapply szeq_trans; [|apply szeq_upd_chan].
    apply szeq_fold. intros s0 cm. apply szeq_heap, heap_consumer_stop. }
  clearbody s2. destruct (0 <? h); auto. apply ZNL_handle_reject; auto.
Qed.

Ltac znlkeep := apply (ZN_upd_keep ZNLP ZNLP_keep); [intros; reflexivity|].
Ltac znlset Ech := eapply (ZN_set_keep ZNLP ZNLP_keep); [first [exact Ech|erewrite get_chan_same_conns; [exact Ech|reflexivity]]|reflexivity|].

Theorem ZNL_handle_method cfg fx s c h m :
  cfg_rabbit cfg = false -> fx_closeok_releases fx = true -> SZ wf s -> CI s -> BI s -> SmallCBf s -> ZNL s -> ZNL (fst (fst (handle_method cfg fx s c h m))).
Proof.
  intros Hrab Hcr Hs Hci Hbi Hsm H. unfold handle_method.
  destruct (get_chan s c h) as [ch|] eqn:Hch; [|exact H].
  destruct m; unfold ok, refuse.
  - (* MChannelOpen *)
    destruct (ch_status ch) eqn:Es; cbn [fst]; auto.
    + znlset Hch. exact H.
    + znlset Hch. exact H.
    + destruct (fx_reopen_resets fx); [|znlset Hch; exact H].
      eapply (ZN_set_keep ZNLP ZNLP_keep); [exact Hch| |exact H]. destruct (Hbi _ _ _ Hch (or_introl Es)) as [A B]. rewrite A. reflexivity.
  - cbn [fst]. apply ZNL_channel_close; auto.
  - cbn [fst]. rewrite Hcr. apply ZNL_channel_close; auto.
  - cbn [fst]. destruct (Bool.eqb _ _); auto. destruct a; (znlset Hch; exact H).
  - destruct (extype_of type); [|exact H].
    repeat match goal with |- context [if ?b then _ else _] => destruct b end; cbn [fst]; auto.
    all: repeat match goal with |- context [match ?x with _ => _ end] => destruct x end; cbn [fst]; auto.
    all: try (znsame; auto).
  - destruct (fx_not_impl fx); exact H.
  - destruct (seqb name ""); [exact H|].
    destruct (queue_found s name) as [qu|].
    + repeat match goal with |- context [if ?b then _ else _] => destruct b end; cbn [fst]; auto.
    + destruct passive; [destruct nowait; exact H|]. cbn [fst]. repeat znsame. auto.
  - destruct (alookup _ _ _); [|exact H]. destruct (seqb ex ""); [exact H|].
    destruct (queue_found s q); [|exact H]. destruct (locked _ _); [exact H|]. destruct (bad_xmatch _); [exact H|]. destruct (extype_eqb _ ExTopic && bad_pattern _)%bool; [exact H|]. cbn [fst]. znsame. auto.
  - destruct (alookup _ _ _); [|exact H]. destruct (queue_found s q); [|exact H]. destruct (locked _ _); [exact H|]. destruct (bad_xmatch _); [exact H|]. destruct (extype_eqb _ ExTopic && bad_pattern _)%bool; [exact H|]. cbn [fst]. znsame. auto.
  - destruct (queue_found s q) as [qu|]; [|exact H]. destruct (locked _ _); [exact H|]. cbn [fst].
    repeat (first [assumption | znsame | match goal with |- allcn _ (if ?b then _ else _) => destruct b end]).
  - destruct (queue_found s q); [|exact H]. destruct (locked _ _); [exact H|].
    pose proof (ZN_vhost_delete_queue ZNLP ZNLP_keep (negb (fx_delete_checks_first fx)) s q ifunused ifempty H) as Hd.
    destruct (vhost_delete_queue _ s q ifunused ifempty) as [[s1 e1] r1]. cbn [fst] in *. destruct r1; exact Hd.
  - (* MQos: Update keeps the counts *)
    cbn [fst]. apply ZNL_wake_consumers. rewrite Hrab. destruct glob; [|znlset Hch; exact H].
    destruct (get_conn s c) eqn:Ec; auto. eapply (ZN_conn_keep ZNLP ZNLP_keep); eauto.
  - destruct imm; [exact H|]. destruct (alookup _ _ _); [|exact H].
    destruct (ch_confirm ch); cbn [fst]; (znlset Hch; repeat znsame; exact H).
  - (* MConsume *)
    destruct (queue_found s q) as [qu|]; [|exact H].
    destruct (fx_excl_owner fx && locked qu c); [exact H|].
    destruct (find_consumer ch _); [exact H|].
    destruct (_ && _)%bool; cbn [fst].
    + znsame. auto.
    + destruct (seqb tag ""%string); (znlset Hch; repeat znsame; auto).
  - (* MCancel *)
    destruct (find_consumer ch tag); [|exact H]. cbn [fst].
    apply (ZN_upd_keep ZNLP ZNLP_keep); [intros; cbn; apply bsum_orphan|]. znlkeep. apply ZNL_consumer_stop. exact H.
  - (* MGet *)
    destruct (queue_found s q) as [qu|] eqn:Eqf; [|exact H]. apply queue_found_get in Eqf.
    destruct (fx_excl_owner fx && locked qu c); [exact H|].
    destruct (q_ready qu) as [|u rest] eqn:Erd; [exact H|].
    destruct noack.
    + cbn [fst]. repeat (first [ assumption | znsame | match goal with |- allcn _ (if ?b then _ else _) => destruct b end | znlkeep ]).
    + destruct (zget_chan_parts _ _ _ _ Hch) as (cn & Ec & _). rewrite Ec.
      change (msg_size s u mod two32) with (msz s u). rewrite (Hs u).
      destruct (reserve (cfg_rollback cfg) [ch_qos ch; cn_qos cn] (wf u)) as [okr ws] eqn:Er.
      destruct (yreserve2_second _ _ _ _ _ _ Er) as (a & b & -> & Hb).
      assert (Hs1 : cs (cn_qos cn) + wf u < two32).
      { pose proof (H _ _ Ec) as Hl. pose proof (Hsm _ _ _ _ _ _ Ec Eqf Erd) as Hs0. unfold ZNLP, znl in *. lia. }
      assert (H1 : allcn (ZNLoff c h (match okr with Some _ => wf u | None => 0 end))
                     (match get_conn (set_chan s c h (ch <| ch_qos := a |>)) c with
                      | Some cn => set_chan s c h (ch <| ch_qos := a |>) <| conns := aset N.eqb c (cn <| cn_qos := b |>) (conns (set_chan s c h (ch <| ch_qos := a |>))) |>
                      | None => set_chan s c h (ch <| ch_qos := a |>) end)).
      { pose proof (ZN_charge s c h a b (match okr with Some _ => wf u | None => 0 end) ch cn Hch Ec) as X.
        unfold upd_chan in X. rewrite Hch in X. apply X; auto. destruct okr; [rewrite Hb, N.mod_small by exact Hs1; reflexivity|rewrite Hb; lia]. }
      match goal with H1 : allcn _ ?st |- _ => set (s1 := st) in * end. clearbody s1.
      destruct okr; cbn [fst]; [|apply (ZNLoff_zero c h); exact H1].
      znsame. znsame.
      apply ZN_append. repeat znsame. apply ZNO_upd_keep; [intros; reflexivity|]. znsame. exact H1.
  - pose proof (ZNL_handle_ack cfg s c h tag mult Hrab Hs Hci H) as Ha.
    destruct (handle_ack cfg s c h tag mult) as [s1 e1]. exact Ha.
  - pose proof (ZNL_handle_reject cfg s c h tag mult requeue 60 120 Hrab Hs Hci H) as Ha.
    destruct (handle_reject cfg s c h tag mult requeue 60 120) as [s1 e1]. exact Ha.
  - pose proof (ZNL_handle_reject cfg s c h tag false requeue 60 90 Hrab Hs Hci H) as Ha.
    destruct (handle_reject cfg s c h tag false requeue 60 90) as [s1 e1]. exact Ha.
  - exact H.
  - cbn [fst]. znlset Hch. exact H.
  - destruct (fx_not_impl fx); exact H.
  - exact H.
  - exact H.
  - destruct good; [cbn [fst]; apply (ZN_set_stage ZNLP ZNLP_keep); exact H|exact H].
  - destruct within; [cbn [fst]; apply (ZN_set_stage ZNLP ZNLP_keep); exact H|exact H].
  - destruct vhost_ok; [cbn [fst]; apply (ZN_set_stage ZNLP ZNLP_keep); exact H|exact H].
Qed.


End ZBytes.

(* ---- the channel numbers of a connection are distinct (every label): so every entry of chan_unacked_all is the
   unsettled delivery of a channel that get_chan finds ---- *)
Definition KD (c : N) (cn : conn) : Prop := NoDup (map fst (cn_chans cn)).

Lemma in_keys_aset {V} k (v : V) l x : In x (map fst (aset N.eqb k v l)) -> k = x \/ In x (map fst l).
Proof.
  induction l as [|[k0 v0] t IH]; cbn; [tauto|]. destruct (k =? k0) eqn:E; cbn.
  - apply N.eqb_eq in E. subst. tauto.
  - intros [H|H]; [tauto|]. destruct (IH H); tauto.
Qed.
Lemma NoDup_keys_aset {V} k (v : V) l : NoDup (map fst l) -> NoDup (map fst (aset N.eqb k v l)).
Proof.
  induction l as [|[k0 v0] t IH]; cbn; intros H; [constructor; [tauto|constructor]|].
  inversion H as [|? ? Hni Hnd]; subst. destruct (k =? k0) eqn:E; cbn.
  - apply N.eqb_eq in E. subst. constructor; auto.
  - constructor; auto. intros Hin. apply in_keys_aset in Hin. destruct Hin as [<-|Hin]; [rewrite N.eqb_refl in E; discriminate|contradiction].
Qed.

Section KGen.
Variable Q : N -> conn -> Prop.
Hypothesis K_chan : forall c cn h ch', Q c cn -> Q c (cn <| cn_chans := aset N.eqb h ch' (cn_chans cn) |>).
Hypothesis K_qos : forall c cn g, Q c cn -> Q c (cn <| cn_qos ::= g |>).
Hypothesis K_stage : forall c cn st, Q c cn -> Q c (cn <| cn_stage := st |>).

Lemma K_set_chan s c h ch : allcn Q s -> allcn Q (set_chan s c h ch).
Proof.
  intros H c' cn' Hg. rewrite get_conn_set_chan in Hg. destruct (get_conn s c) as [cn|] eqn:Ec; [|apply H; auto].
  destruct (c' =? c) eqn:E1; [|apply H; auto]. apply N.eqb_eq in E1. subst. inversion Hg; subst. apply K_chan. apply H. exact Ec.
Qed.
Lemma K_upd_chan s c h f : allcn Q s -> allcn Q (upd_chan s c h f).
Proof. intros H. unfold upd_chan. destruct (get_chan s c h); auto. apply K_set_chan. exact H. Qed.
Lemma K_conn_qos s c cn g : get_conn s c = Some cn -> allcn Q s -> allcn Q (s <| conns := aset N.eqb c (cn <| cn_qos ::= g |>) (conns s) |>).
Proof.
  intros Ec H c' cn' Hg. rewrite get_conn_set_conn in Hg. destruct (c' =? c) eqn:E1; [|apply H; auto].
  apply N.eqb_eq in E1. subst. inversion Hg; subst. apply K_qos. apply H. exact Ec.
Qed.
Lemma K_set_stage s c st : allcn Q s -> allcn Q (set_stage s c st).
Proof.
  intros H. unfold set_stage. destruct (get_conn s c) as [cn|] eqn:Ec; auto.
  intros c' cn' Hg. rewrite get_conn_set_conn in Hg. destruct (c' =? c) eqn:E1; [|apply H; auto].
  apply N.eqb_eq in E1. subst. inversion Hg; subst. apply K_stage. apply H. exact Ec.
Qed.

Ltac kk := repeat first
  [ assumption | nsame
  | match goal with |- allcn _ (if ?b then _ else _) => destruct b end
  | apply K_upd_chan | apply K_set_chan | apply K_set_stage
  | match goal with |- allcn _ (match get_conn ?st ?c with _ => _ end) => let E := fresh "Ec" in destruct (get_conn st c) eqn:E; [eapply K_conn_qos; [exact E|]|] end ].

Lemma K_wake s c h tag : allcn Q s -> allcn Q (fst (wake_consumer s c h tag)).
Proof.
  intros H. unfold wake_consumer. destruct (get_chan s c h) as [ch|]; auto.
  destruct (find_consumer ch tag) as [cm|]; auto. destruct (consume_msg cm) as [cm' b]. cbn [fst]. kk.
Qed.
Lemma K_consumer_stop s c h tag : allcn Q s -> allcn Q (consumer_stop s c h tag).
Proof.
  intros H. unfold consumer_stop. destruct (get_chan s c h) as [ch|]; auto. destruct (find_consumer ch tag) as [cm|]; auto.
  destruct (c_status cm); auto; (eapply allcn_same_conns; [apply (proj2 (proj2 (proj2 conns_queue_ops)))|]); kk.
Qed.
Lemma K_wake_consumers cfg s c h : allcn Q s -> allcn Q (wake_consumers cfg s c h).
Proof.
  intros H. unfold wake_consumers, wake_all_of_chan. assert (H1 : allcn Q (upd_chan s c h (fun ch => ch <| ch_consumers ::= map (fun cm => fst (consume_msg cm)) |>))) by kk.
  destruct (cfg_rabbit cfg); auto. destruct (get_conn _ c) as [cn|]; auto.
  apply fold_left_preserves; auto. intros s0 x H0. destruct (fst x =? h); auto. kk.
Qed.
Lemma K_dec_qos cfg s c h u : allcn Q s -> allcn Q (dec_qos_and_consume_next cfg s c h u).
Proof.
  intros H. unfold dec_qos_and_consume_next. destruct (get_chan s c h) as [ch|]; auto. apply K_wake_consumers.
  destruct (find_consumer ch (u_ctag u)); [destruct (cfg_rabbit cfg)|]; kk.
Qed.
Lemma K_chan_ackmsg s u : allcn Q s -> allcn Q (chan_ackmsg s u).
Proof. intros H. unfold chan_ackmsg. destruct (origin_queue s u); repeat nsame; auto. Qed.
Lemma K_chan_rejectmsg s u r : allcn Q s -> allcn Q (chan_rejectmsg s u r).
Proof. intros H. unfold chan_rejectmsg. destruct (origin_queue s u); [destruct r|]; repeat nsame; auto. Qed.
Lemma K_handle_reject cfg s c h tag mult requeue cls mth : allcn Q s -> allcn Q (fst (handle_reject cfg s c h tag mult requeue cls mth)).
Proof.
  intros H. unfold handle_reject. destruct (get_chan s c h) as [ch|]; auto. destruct mult.
  - cbn [fst]. apply fold_left_preserves; [intros; apply K_dec_qos; auto|].
    apply fold_left_preserves; auto. intros s0 a H0. apply K_chan_rejectmsg. kk.
  - destruct (find _ _); cbn [fst]; auto. apply K_dec_qos. apply K_chan_rejectmsg. kk.
Qed.
Lemma K_handle_ack cfg s c h tag mult : allcn Q s -> allcn Q (fst (handle_ack cfg s c h tag mult)).
Proof.
  intros H. unfold handle_ack. destruct (get_chan s c h) as [ch|]; auto. destruct mult.
  - cbn [fst]. apply fold_left_preserves; [intros; apply K_dec_qos; auto|].
    apply fold_left_preserves; auto. intros s0 a H0. apply K_chan_ackmsg. kk.
  - destruct (find _ _); cbn [fst]; auto. apply K_dec_qos. apply K_chan_ackmsg. kk.
Qed.
Lemma K_channel_close cfg s c h : allcn Q s -> allcn Q (channel_close cfg s c h).
Proof.
  intros H. unfold channel_close. destruct (get_chan s c h) as [ch|]; auto. apply K_upd_chan.
  assert (H2 : allcn Q (upd_chan (fold_left (fun s cm => consumer_stop s c h (c_tag cm)) (ch_consumers ch) s) c h (fun ch => ch <| ch_consumers := [] |>))).
  { apply K_upd_chan. apply fold_left_preserves; auto. intros; apply K_consumer_stop; auto. }
  destruct (0 <? h); auto. apply K_handle_reject; auto.
Qed.
Lemma K_cancel_fold l : forall s evs, allcn Q s ->
  allcn Q (fst (fold_left (fun acc x => let '(s, evs) := acc in let '(s', e) := consumer_cancel s x in (s', evs ++ e)) l (s, evs))).
Proof. induction l as [|[[c h] tag] t IH]; intros s evs H; simpl; auto. apply IH. apply K_consumer_stop; auto. Qed.
Lemma K_vhost_delete_queue b s qn iu ie : allcn Q s -> allcn Q (fst (fst (vhost_delete_queue b s qn iu ie))).
Proof.
  intros H. unfold vhost_delete_queue. destruct (get_queue s qn) as [qu|]; auto. destruct (_ || _).
  - cbn [fst]. destruct b; [eapply allcn_same_conns; [apply conns_set_queue|exact H]|exact H].
  - pose proof (K_cancel_fold (q_consumers qu) s [] H) as Hf.
    destruct (fold_left _ (q_consumers qu) (s, [])) as [s1 e1]. cbn [fst] in *.
    eapply allcn_same_conns; [|exact Hf]. destruct (q_durable qu); reflexivity.
Qed.
Lemma K_add_confirm s c h t : allcn Q s -> allcn Q (add_confirm s c h t).
Proof.
  intros H. unfold add_confirm. destruct (get_chan s c h) as [ch|]; auto. destruct (negb _); auto.
  destruct (ch_status ch); auto; destruct t as [[[? ?] ?]|]; auto; kk.
Qed.
Lemma K_store_windows cfg s c h tag ws : allcn Q s -> allcn Q (store_windows cfg s c h tag ws).
Proof. intros H. unfold store_windows. destruct ws as [|w1 [|w2 [|]]]; auto. destruct (cfg_rabbit cfg); kk. Qed.

Lemma K_consumer_turn cfg fx s c h tag : allcn Q s -> allcn Q (fst (consumer_turn cfg fx s c h tag)).
Proof.
  intros H. unfold consumer_turn.
  destruct (get_chan s c h) as [ch|]; auto. destruct (find_consumer ch tag) as [cm|]; auto. destruct (negb (c_token cm)); auto.
  set (s0 := set_chan s c h _). assert (H0 : allcn Q s0) by (subst s0; kk). clearbody s0.
  destruct (c_status cm); auto.
  all: destruct (get_queue s0 (c_queue cm)) as [qu|]; auto.
  all: destruct (negb (q_active qu)); auto.
  all: destruct (q_ready qu) as [|u rest]; auto.
  all: match goal with |- context [if c_noack ?cm0 then (Some [], []) else ?r] => destruct (if c_noack cm0 then (Some [], []) else r) as [okr ws] end.
  all: set (s1 := if c_noack cm then s0 else store_windows cfg s0 c h tag ws).
  all: assert (H1 : allcn Q s1) by (subst s1; destruct (c_noack cm); auto; apply K_store_windows; auto).
  all: clearbody s1.
  all: destruct okr; cbn [fst]; auto.
  all: match goal with |- context [wake_consumer ?st ?c0 ?h0 ?tag0] => destruct (wake_consumer st c0 h0 tag0) as [s9 b9] eqn:Ew;
         apply fst_pair in Ew; cbn [fst]; subst s9; apply K_wake end.
  all: kk.
Qed.

Lemma K_handle_method cfg fx s c h m : allcn Q s -> allcn Q (fst (fst (handle_method cfg fx s c h m))).
Proof.
  intros H. unfold handle_method. destruct (get_chan s c h) as [ch|] eqn:Hch; [|exact H].
  destruct m; unfold ok, refuse.
  - destruct (ch_status ch); cbn [fst]; auto; kk.
  - cbn [fst]. apply K_channel_close; auto.
  - cbn [fst]. destruct (fx_closeok_releases fx); [apply K_channel_close; auto|kk].
  - cbn [fst]. destruct (Bool.eqb _ _); auto. destruct a; kk.
  - destruct (extype_of type); [|exact H].
    repeat match goal with |- context [if ?b then _ else _] => destruct b end; cbn [fst]; auto.
    all: repeat match goal with |- context [match ?x with _ => _ end] => destruct x end; cbn [fst]; auto.
    all: try (nsame; auto).
  - destruct (fx_not_impl fx); exact H.
  - destruct (seqb name ""); [exact H|].
    destruct (queue_found s name) as [qu|].
    + repeat match goal with |- context [if ?b then _ else _] => destruct b end; cbn [fst]; auto.
    + destruct passive; [destruct nowait; exact H|]. cbn [fst]. repeat nsame. auto.
  - destruct (alookup _ _ _); [|exact H]. destruct (seqb ex ""); [exact H|].
    destruct (queue_found s q); [|exact H]. destruct (locked _ _); [exact H|]. destruct (bad_xmatch _); [exact H|]. destruct (extype_eqb _ ExTopic && bad_pattern _)%bool; [exact H|]. cbn [fst]. nsame. auto.
  - destruct (alookup _ _ _); [|exact H]. destruct (queue_found s q); [|exact H]. destruct (locked _ _); [exact H|]. destruct (bad_xmatch _); [exact H|]. destruct (extype_eqb _ ExTopic && bad_pattern _)%bool; [exact H|]. cbn [fst]. nsame. auto.
  - destruct (queue_found s q) as [qu|]; [|exact H]. destruct (locked _ _); [exact H|]. cbn [fst].
    eapply allcn_same_conns; [|exact H]. destruct (q_durable qu); reflexivity.
  - destruct (queue_found s q); [|exact H]. destruct (locked _ _); [exact H|].
    pose proof (K_vhost_delete_queue (negb (fx_delete_checks_first fx)) s q ifunused ifempty H) as Hd.
    destruct (vhost_delete_queue _ s q ifunused ifempty) as [[s1 e1] r1]. cbn [fst] in *. destruct r1; exact Hd.
  - cbn [fst]. apply K_wake_consumers. destruct (cfg_rabbit cfg); [destruct glob; kk|]. destruct glob; kk.
  - destruct imm; [exact H|]. destruct (alookup _ _ _); [|exact H]. destruct (ch_confirm ch); cbn [fst]; kk.
  - destruct (queue_found s q) as [qu|]; [|exact H].
    destruct (fx_excl_owner fx && locked qu c); [exact H|]. destruct (find_consumer ch _); [exact H|].
    destruct (_ && _)%bool; cbn [fst]; [nsame; auto|]. apply K_set_chan. destruct (seqb tag ""%string); repeat nsame; auto.
  - destruct (find_consumer ch tag); [|exact H]. cbn [fst]. apply K_upd_chan. apply K_upd_chan. apply K_consumer_stop. exact H.
  - destruct (queue_found s q) as [qu|]; [|exact H].
    destruct (fx_excl_owner fx && locked qu c); [exact H|].
    destruct (q_ready qu) as [|u rest]; [exact H|].
    match goal with |- context [if noack then (Some [], []) else ?r] => destruct (if noack then (Some [], []) else r) as [okr ws] end.
    set (s1 := match ws with [w1; w2] => _ | _ => s end).
    assert (H1 : allcn Q s1) by (subst s1; destruct ws as [|w1 [|w2 [|]]]; auto; kk).
    clearbody s1. destruct okr; cbn [fst]; [|exact H1]. destruct noack; kk.
  - pose proof (K_handle_ack cfg s c h tag mult H) as Ha. destruct (handle_ack cfg s c h tag mult) as [s1 e1]. exact Ha.
  - pose proof (K_handle_reject cfg s c h tag mult requeue 60 120 H) as Ha. destruct (handle_reject cfg s c h tag mult requeue 60 120) as [s1 e1]. exact Ha.
  - pose proof (K_handle_reject cfg s c h tag false requeue 60 90 H) as Ha. destruct (handle_reject cfg s c h tag false requeue 60 90) as [s1 e1]. exact Ha.
  - exact H.
  - cbn [fst]. kk.
  - destruct (fx_not_impl fx); exact H.
  - exact H.
  - exact H.
  - destruct good; [cbn [fst]; kk|exact H].
  - destruct within; [cbn [fst]; kk|exact H].
  - destruct vhost_ok; [cbn [fst]; kk|exact H].
Qed.

Hypothesis K_new : forall c st, Q c {| cn_chans := [(0, channel0 <| ch_status := ChNew |>)]; cn_qos := qos0; cn_stage := st |}.

Theorem K_step cfg fx s l : allcn Q s -> allcn Q (fst (step cfg fx s l)).
Proof.
  intros H. apply (D_step cfg fx (allcn Q)); auto.
  - intros s0 s' E _ H0. eapply allcn_same_conns; eauto.
  - intros. apply K_channel_close; auto.
  - intros. apply K_vhost_delete_queue; auto.
  - intros. apply allcn_del_conn; auto.
  - intros. apply K_upd_chan; auto.
  - intros s0 c h H0. unfold ensure_chan. destruct (get_conn s0 c) as [cn|] eqn:Ec; auto. destruct (alookup _ _ _); auto.
    intros c' cn' Hg. rewrite get_conn_set_conn in Hg. destruct (c' =? c) eqn:E1; [|apply H0; auto].
    apply N.eqb_eq in E1. subst. inversion Hg; subst. apply K_chan. apply H0. exact Ec.
  - intros. apply K_upd_chan; auto.
  - intros. apply K_add_confirm; auto.
  - intros. apply K_wake; auto.
  - intros s0 c st _ H0 c' cn' Hg. rewrite get_conn_set_conn in Hg. destruct (c' =? c) eqn:E1; [|apply H0; auto].
    apply N.eqb_eq in E1. subst. inversion Hg; subst. apply K_new.
  - intros. apply allcn_restart.
  - intros s0 c h ch _ H0. split; apply K_set_chan; auto.
  - intros. apply K_handle_method; auto.
  - intros. apply K_consumer_turn; auto.
  - intros c h ch u m len _ _ _ _ H0. eapply allcn_same_conns; [apply conns_upd_msg|exact H0].
Qed.
End KGen.

Theorem KD_step cfg fx s l : allcn KD s -> allcn KD (fst (step cfg fx s l)).
Proof.
  apply K_step; unfold KD; cbn; intros.
  - apply NoDup_keys_aset. assumption.
  - assumption.
  - assumption.
  - constructor; [tauto|constructor].
Qed.
Theorem KD_run cfg fx ls : forall s, allcn KD s -> allcn KD (fst (run cfg fx s ls)).
Proof.
  induction ls as [|l t IH]; intros s H; simpl; auto.
  pose proof (KD_step cfg fx s l H) as H1. destruct (step cfg fx s l) as [s1 e1]. cbn [fst] in H1.
  specialize (IH s1 H1). destruct (run cfg fx s1 t) as [s2 e2]. exact IH.
Qed.
Lemma KD_init cfg : allcn KD (init cfg).
Proof. intros c cn Hg. unfold get_conn in Hg. cbn in Hg. discriminate. Qed.

(* an entry of chan_unacked_all belongs to a channel that get_chan finds *)
Lemma chan_unacked_all_visible s c cn x : get_conn s c = Some cn -> KD c cn -> In x (chan_unacked_all cn) ->
  exists h ch, get_chan s c h = Some ch /\ In x (ch_unacked ch).
Proof.
  intros Ec Hk Hx. unfold chan_unacked_all in Hx. apply in_flat_map in Hx. destruct Hx as ([h ch] & Hin & Hx). cbn in Hx.
  exists h, ch. split; [|exact Hx]. unfold get_chan. rewrite Ec. unfold KD in Hk. clear Ec.
  induction (cn_chans cn) as [|[k v] t IH]; [destruct Hin|]. cbn in Hk. inversion Hk as [|? ? Hni Hnd]; subst. cbn.
  destruct Hin as [E|Hin].
  - inversion E; subst. rewrite N.eqb_refl. reflexivity.
  - destruct (h =? k) eqn:E1; [|apply IH; auto]. apply N.eqb_eq in E1. subst. exfalso. apply Hni. apply (in_map fst) in Hin. exact Hin.
Qed.

(* ---- the connection window's bytes, with the sizes of the state itself: every label ---- *)
Definition ZB (s : state) : Prop := allcn (ZNLP (msz s)) s.
Definition SmallCB (s : state) : Prop := SmallCBf (msz s) s.

Lemma znl_wf_ext wf wf' k cn : (forall x, In x (chan_unacked_all cn) -> wf (u_msg x) = wf' (u_msg x)) -> znl wf k cn -> znl wf' k cn.
Proof. unfold znl, ztot. intros E H. rewrite <- (bsum_ext_in wf wf' _ E). exact H. Qed.
Lemma ZB_rebase wf s' :
  (forall c cn x, get_conn s' c = Some cn -> In x (chan_unacked_all cn) -> wf (u_msg x) = msz s' (u_msg x)) ->
  allcn (ZNLP wf) s' -> ZB s'.
Proof. intros E H c cn Hg. apply (znl_wf_ext wf); [intros x Hx; eapply E; eauto|exact (H _ _ Hg)]. Qed.
Lemma ZB_lift s s' : szeq s s' -> allcn (ZNLP (msz s)) s' -> ZB s'.
Proof. intros E. apply ZB_rebase. intros c cn x _ _. unfold msz. rewrite E. reflexivity. Qed.

Theorem ZB_handle_method cfg fx s c h m :
  cfg_rabbit cfg = false -> fx_closeok_releases fx = true -> CI s -> BI s -> UC s -> allcn KD s -> SmallCB s -> ZB s ->
  ZB (fst (fst (handle_method cfg fx s c h m))).
Proof.
  intros Hrab Hcr Hci Hbi Huc Hkd Hsm H.
  pose proof (ZNL_handle_method (msz s) cfg fx s c h m Hrab Hcr (SZ_self s) Hci Hbi Hsm H) as Hf.
  destruct (is_publish m) eqn:Ep; [|eapply ZB_lift; [apply szeq_handle_method; exact Ep|exact Hf]].
  destruct m; try discriminate Ep.
  pose proof (K_handle_method KD (fun c cn h ch' Hq => NoDup_keys_aset h ch' _ Hq) (fun _ _ _ Hq => Hq) (fun _ _ _ Hq => Hq)
                cfg fx s c h (MPublish ex key mand imm) Hkd) as Hkd'.
  destruct (publish_frame cfg fx s c h ex key mand imm) as [Hsz HU]. cbv zeta in Hsz, HU.
  apply (ZB_rebase (msz s)); [|exact Hf]. intros c' cn' x Hg Hx.
  destruct (chan_unacked_all_visible _ _ _ _ Hg (Hkd' _ _ Hg) Hx) as (h' & ch' & Hgc & Hxc).
  assert (Hx' : In x (U s c' h')) by (rewrite <- HU; unfold U; rewrite Hgc; exact Hxc).
  apply U_in in Hx'. destruct Hx' as (ch0 & Eg0 & Hx0). destruct (Huc _ _ _ _ Eg0 Hx0) as [Hlt _].
  unfold msz. rewrite Hsz; [reflexivity|lia].
Qed.

Lemma ZB_body s u F m :
  get_msg s u = Some m -> allcn KD s ->
  (forall c h ch x, get_chan s c h = Some ch -> In x (ch_unacked ch) -> u_msg x = u -> m_size (F m) = m_size m) ->
  ZB s -> ZB (upd_msg s u F).
Proof.
  intros Em Hkd HF H. apply (ZB_rebase (msz s)); [|eapply allcn_same_conns; [apply conns_upd_msg|exact H]].
  intros c cn x Hg Hx. assert (Hg0 : get_conn s c = Some cn) by (unfold get_conn in *; rewrite conns_upd_msg in Hg; exact Hg).
  destruct (chan_unacked_all_visible _ _ _ _ Hg0 (Hkd _ _ Hg0) Hx) as (h & ch & Hgc & Hxc).
  unfold msz. f_equal. unfold upd_msg. rewrite Em. unfold msg_size, get_msg in *. cbn. rewrite (alookup_aset N.eqb Neqb_spec).
  destruct (u_msg x =? u) eqn:E; [|reflexivity]. apply N.eqb_eq in E. rewrite E, Em. symmetry. eapply HF; eauto.
Qed.

Lemma ZNL_ensure wf s c h : allcn (ZNLP wf) s -> allcn (ZNLP wf) (ensure_chan s c h).
Proof.
  intros H. unfold ensure_chan. destruct (get_conn s c) as [cn|] eqn:Ec; auto.
  destruct (alookup N.eqb h (cn_chans cn)) eqn:Eh; auto.
  intros c' cn' Hg. rewrite get_conn_set_conn in Hg. destruct (c' =? c) eqn:E1; [|apply H; auto].
  apply N.eqb_eq in E1. subst. inversion Hg; subst. pose proof (H _ _ Ec) as H1. unfold ZNLP, znl, ztot, chan_unacked_all in *. cbn [cn_qos cn_chans set].
  pose proof (zulen_aset wf (cn_chans cn) h channel0) as Hl. rewrite Eh in Hl. unfold zulen in Hl. cbn in Hl. lia.
Qed.
Lemma SmallCB_ensure s c h : SmallCB s -> SmallCB (ensure_chan s c h).
Proof.
  intros H c' cn' q qu u rest Hg Hq Hr. destruct (heap_ensure_chan s c h) as [Eh _].
  assert (E : forall x, msz (ensure_chan s c h) x = msz s x) by (intros x; unfold msz; rewrite (msg_size_same_heap _ _ x Eh); reflexivity).
  unfold ztot. rewrite (bsum_ext_in _ (msz s)) by (intros; apply E). rewrite E.
  unfold get_queue in Hq. rewrite queues_ensure_chan in Hq.
  unfold ensure_chan in Hg. destruct (get_conn s c) as [cn|] eqn:Ec; [|exact (H _ _ _ _ _ _ Hg Hq Hr)].
  destruct (alookup N.eqb h (cn_chans cn)) eqn:Eha; [exact (H _ _ _ _ _ _ Hg Hq Hr)|].
  rewrite get_conn_set_conn in Hg. destruct (c' =? c) eqn:E1; [|exact (H _ _ _ _ _ _ Hg Hq Hr)].
  apply N.eqb_eq in E1. subst. inversion Hg; subst. pose proof (H _ _ _ _ _ _ Ec Hq Hr) as H1. unfold ztot, chan_unacked_all in *. cbn [cn_chans set].
  pose proof (zulen_aset (msz s) (cn_chans cn) h channel0) as Hl. rewrite Eha in Hl. unfold zulen in Hl. cbn in Hl. lia.
Qed.

Definition CBZB (s : state) : Prop := CB s /\ ZB s.

Section ZBStep.
Variables (cfg : config) (fx : fixes).
Hypothesis Hrab : cfg_rabbit cfg = false.
Hypothesis Hst : fx_stage fx = true.
Hypothesis Hco : fx_chan_open fx = true.
Hypothesis Hcr : fx_closeok_releases fx = true.

(* one step: the byte count of every connection-wide window equals the body bytes of the connection's unsettled deliveries *)
Theorem ZB_step s l : CB s -> UC s -> allcn KD s -> SmallCB s -> ZB s -> ZB (fst (step cfg fx s l)).
Proof.
  intros Hcb Huc Hkd Hsm H.
  assert (X : CBZB (fst (step cfg fx s l))); [|exact (proj2 X)].
  apply (D_step cfg fx CBZB).
  - intros s0 s' E Esz [A B]. split; [eapply CB_conns; eauto|]. eapply ZB_lift; [exact Esz|eapply allcn_same_conns; eauto].
  - intros s0 c h [A B]. split; [apply CB_chan_close; auto|]. destruct A as [A1 A2].
    eapply ZB_lift; [apply szeq_channel_close|apply ZNL_channel_close; auto; apply SZ_self].
  - intros b s0 qn iu ie [A B]. split; [apply CB_del; auto|].
    eapply ZB_lift; [apply szeq_heap, heap_vhost_delete_queue|apply (ZN_vhost_delete_queue _ _ (ZNLP_keep (msz s0))); exact B].
  - intros s0 c [A B]. split; [apply CB_delconn; auto|]. eapply ZB_lift; [apply szeq_heap; reflexivity|apply allcn_del_conn; exact B].
  - intros s0 c h [A B]. split; [apply CB_closing; auto|]. eapply ZB_lift; [apply szeq_upd_chan|apply (ZN_closing _ _ (ZNLP_keep (msz s0))); exact B].
  - intros s0 c h [A B]. split; [apply CB_ensure; auto|]. eapply ZB_lift; [apply szeq_heap, heap_ensure_chan|apply ZNL_ensure; exact B].
  - intros s0 c h [A B]. split; [apply CB_cur; auto|]. eapply ZB_lift; [apply szeq_upd_chan|apply (ZN_cur _ _ (ZNLP_keep (msz s0))); exact B].
  - intros s0 c h t [A B]. split; [apply CB_add_confirm; auto|].
    eapply ZB_lift; [apply szeq_heap, heap_add_confirm|apply (ZN_add_confirm _ _ (ZNLP_keep (msz s0))); exact B].
  - intros s0 c h tag [A B]. split; [apply CB_wake; auto|]. eapply ZB_lift; [apply szeq_heap, heap_wake_consumer|apply ZNL_wake; exact B].
  - intros s0 c st En [A B]. split; [apply CB_newconn; auto|]. eapply ZB_lift; [apply szeq_heap; reflexivity|].
    intros c' cn' Hg. rewrite get_conn_set_conn in Hg. destruct (c' =? c); [|apply B; auto]. inversion Hg; subst. reflexivity.
  - intros s0. split; [apply CB_restart|apply allcn_restart].
  - intros s0 c h ch E [A B]. destruct (CB_tick s0 c h ch E A) as [T1 T2]. destruct (ZN_tick _ _ (ZNLP_keep (msz s0)) s0 c h ch E B) as [T3 T4].
    split; (split; [assumption|]); (eapply ZB_lift; [apply szeq_heap, heap_set_chan'|assumption]).
  - intros c h m Hg [[A B] C]. apply (cguard_guard _ _ _ _ _ Hst Hco) in Hg.
    split; [split; [apply CI_handle_method; auto|apply BI_handle_method; auto]|].
    apply ZB_handle_method; auto; [apply UC_ensure; auto| |apply SmallCB_ensure; auto].

    intros c' cn' Hg'. unfold ensure_chan in Hg'. destruct (get_conn s c) as [cn|] eqn:Ec; [|exact (Hkd _ _ Hg')].
    destruct (alookup N.eqb h (cn_chans cn)) eqn:Eh; [exact (Hkd _ _ Hg')|].
    rewrite get_conn_set_conn in Hg'. destruct (c' =? c) eqn:E1; [|exact (Hkd _ _ Hg')].
    apply N.eqb_eq in E1. subst. inversion Hg'; subst. unfold KD. cbn. apply NoDup_keys_aset. exact (Hkd _ _ Ec).
  - intros c h tag. destruct Hcb as [A B]. split; [split; [apply CI_consumer_turn; auto|apply BI_consumer_turn; auto]|].
    eapply ZB_lift; [apply szeq_heap, heap_consumer_turn|apply ZNL_consumer_turn; auto; apply SZ_self].
  - intros c h ch u m len Ech Ecur Em Elt [A B]. split; [eapply CB_conns; [apply conns_upd_msg|exact A]|].
    eapply ZB_body; eauto.
    + intros c' cn' Hg'. unfold ensure_chan in Hg'. destruct (get_conn s c) as [cn|] eqn:Ec; [|exact (Hkd _ _ Hg')].
      destruct (alookup N.eqb h (cn_chans cn)) eqn:Eh; [exact (Hkd _ _ Hg')|].
      rewrite get_conn_set_conn in Hg'. destruct (c' =? c) eqn:E1; [|exact (Hkd _ _ Hg')].
      apply N.eqb_eq in E1. subst. inversion Hg'; subst. unfold KD. cbn. apply NoDup_keys_aset. exact (Hkd _ _ Ec).
    + intros c' h' ch' x Hg Hx Ex. cbn.
      destruct (UC_ensure s c h Huc _ _ _ _ Hg Hx) as [_ Hc]. rewrite Ex in Hc. specialize (Hc _ Em).
      apply N.ltb_ge in Elt. lia.
  - split; auto.
Qed.

Fixpoint smallcb_along (s : state) (ls : list label) : Prop :=
  SmallCB s /\ match ls with [] => True | l :: t => smallcb_along (fst (step cfg fx s l)) t end.

Theorem ZB_run ls : forall s, CB s -> RCI s -> allcn KD s -> ZB s -> smallcb_along s ls -> ZB (fst (run cfg fx s ls)).
Proof.
  induction ls as [|l t IH]; intros s Hcb Hr Hk H Hs; cbn [run]; auto.
  destruct Hs as [Hs Ht]. pose proof (ZB_step s l Hcb (RCI_UC s Hr) Hk Hs H) as H1. pose proof (CB_step cfg fx Hst Hco Hcr s l Hcb) as C1.
  pose proof (RCI_step cfg fx s l Hr) as R1. pose proof (KD_step cfg fx s l Hk) as K1.
  destruct (step cfg fx s l) as [s1 e1]. cbn [fst] in *. specialize (IH s1 C1 R1 K1 H1 Ht).
  destruct (run cfg fx s1 t) as [s2 e2]. exact IH.
Qed.
Lemma smallcb_along_last ls : forall s, smallcb_along s ls -> SmallCB (fst (run cfg fx s ls)).
Proof.
  induction ls as [|l t IH]; intros s Hs; cbn [run]; [exact (proj1 Hs)|].
  destruct Hs as [_ Ht]. specialize (IH _ Ht). destruct (step cfg fx s l) as [s1 e1]. cbn [fst] in *.
  destruct (run cfg fx s1 t) as [s2 e2]. exact IH.
Qed.
End ZBStep.

Lemma ZB_init cfg : ZB (init cfg).
Proof. intros c cn Hg. unfold get_conn in Hg. cbn in Hg. discriminate. Qed.

Theorem conn_byte_ledger_reachable cfg fx ls c cn :
  cfg_rabbit cfg = false -> fx_stage fx = true -> fx_chan_open fx = true -> fx_closeok_releases fx = true ->
  smallcb_along cfg fx (init cfg) ls ->
  let s := fst (run cfg fx (init cfg) ls) in
  get_conn s c = Some cn ->
  cs (cn_qos cn) = fold_right (fun x acc => msg_size s (u_msg x) mod two32 + acc) 0 (chan_unacked_all cn).
Proof.
  intros Hrab Hst Hco Hcr Hs s Hg.
  pose proof (ZB_run cfg fx Hrab Hst Hco Hcr ls (init cfg) (CB_init cfg) (RCI_init cfg) (KD_init cfg) (ZB_init cfg) Hs _ _ Hg) as Hl.
  unfold ZNLP, znl, ztot in Hl. rewrite N.add_0_r in Hl. rewrite Hl. apply bsum_fold.
Qed.

Theorem conn_delivery_only_below_size_limit wf cn size w' :
  znl wf 0 cn -> ztot wf cn + size < two32 -> qos_inc (cn_qos cn) size = Some w' -> ps (cn_qos cn) <> 0 ->
  ztot wf cn + size <= ps (cn_qos cn) /\ cs w' = ztot wf cn + size.
Proof.
  intros Hl Hsm Hi Hp. unfold znl in Hl. rewrite N.add_0_r in Hl. unfold qos_inc in Hi.
  destruct (_ && ((ps (cn_qos cn) =? 0) || ((cs (cn_qos cn) + size) mod two32 <=? ps (cn_qos cn)))) eqn:E; [|discriminate].
  inversion Hi; subst. cbn. apply andb_prop in E. destruct E as [_ E].
  rewrite N.mod_small in * by (rewrite Hl; exact Hsm).
  apply orb_prop in E. destruct E as [E|E]; [apply N.eqb_eq in E; contradiction|]. apply N.leb_le in E. rewrite Hl in *. split; [exact E|reflexivity].
Qed.

Theorem conn_delivery_size_bounded_reachable cfg fx ls c h tag ch cm cn d r ex k :
  cfg_rabbit cfg = false -> fx_stage fx = true -> fx_chan_open fx = true -> fx_closeok_releases fx = true ->
  smallcb_along cfg fx (init cfg) ls ->
  let s := fst (run cfg fx (init cfg) ls) in
  get_chan s c h = Some ch -> get_conn s c = Some cn -> find_consumer ch tag = Some cm -> c_noack cm = false -> ps (cn_qos cn) <> 0 ->
  In (c, h, SDeliver tag d r ex k) (snd (consumer_turn cfg fx s c h tag)) ->
  exists qu u rest, get_queue s (c_queue cm) = Some qu /\ q_ready qu = u :: rest /\
    fold_right (fun x acc => msg_size s (u_msg x) mod two32 + acc) 0 (chan_unacked_all cn) + msg_size s u mod two32 <= ps (cn_qos cn).
Proof.
  intros Hrab Hst Hco Hcr Hs s Ech Ec Efc Ena Hp Hev. subst s. set (s := fst (run cfg fx (init cfg) ls)) in *.
  destruct (ack_turn_charges_sized cfg fx s c h tag ch cm d r ex k Ech Efc Ena Hev) as (qu & u & rest & cn1 & w1 & w2 & Eq & Er & Ec1 & _ & Hi).
  rewrite Ec in Ec1. inversion Ec1; subst cn1. rewrite Hrab in Hi. exists qu, u, rest. split; [exact Eq|]. split; [exact Er|].
  pose proof (ZB_run cfg fx Hrab Hst Hco Hcr ls (init cfg) (CB_init cfg) (RCI_init cfg) (KD_init cfg) (ZB_init cfg) Hs _ _ Ec) as Hc.
  pose proof (smallcb_along_last cfg fx ls _ Hs _ _ _ _ _ _ Ec Eq Er) as Hsm. fold s in Hsm, Hc.
  destruct (conn_delivery_only_below_size_limit (msz s) cn (msz s u) w2 Hc Hsm Hi Hp) as [Hle _].
  unfold ztot in Hle. rewrite bsum_fold in Hle. exact Hle.
Qed.

(* basic.get (with ack) hands out the head of the queue, and both windows accepted that message's size *)
Theorem get_charges_sized cfg fx s c h q ch cn dt r ex k mc :
  get_chan s c h = Some ch -> get_conn s c = Some cn ->
  In (c, h, SGetOk dt r ex k mc) (snd (fst (handle_method cfg fx s c h (MGet q false)))) ->
  exists qu u rest w1 w2, get_queue s q = Some qu /\ q_ready qu = u :: rest /\
    qos_inc (ch_qos ch) (msz s u) = Some w1 /\ qos_inc (cn_qos cn) (msz s u) = Some w2.
Proof.
  intros Ech Ec. unfold handle_method. rewrite Ech. unfold ok, refuse.
  destruct (queue_found s q) as [qu|] eqn:Eqf; [|intros []]. apply queue_found_get in Eqf.
  destruct (fx_excl_owner fx && locked qu c); [intros []|].
  destruct (q_ready qu) as [|u rest] eqn:Erd; [cbn; intros [X|[]]; inversion X|].
  rewrite Ec. cbv beta iota zeta. change (msg_size s u mod two32) with (msz s u).
  destruct (reserve (cfg_rollback cfg) [ch_qos ch; cn_qos cn] (msz s u)) as [okr ws] eqn:Er.
  destruct okr as [l|]; [|cbn; intros [X|[]]; inversion X].
  apply reserve2_success in Er. destruct Er as (w1 & w2 & A & B). intros _. exists qu, u, rest, w1, w2. auto.
Qed.

Theorem conn_get_size_bounded_reachable cfg fx ls c h q ch cn dt r ex k mc :
  cfg_rabbit cfg = false -> fx_stage fx = true -> fx_chan_open fx = true -> fx_closeok_releases fx = true ->
  smallcb_along cfg fx (init cfg) ls ->
  let s := fst (run cfg fx (init cfg) ls) in
  get_chan s c h = Some ch -> get_conn s c = Some cn -> ps (cn_qos cn) <> 0 ->
  In (c, h, SGetOk dt r ex k mc) (snd (fst (handle_method cfg fx s c h (MGet q false)))) ->
  exists qu u rest, get_queue s q = Some qu /\ q_ready qu = u :: rest /\
    fold_right (fun x acc => msg_size s (u_msg x) mod two32 + acc) 0 (chan_unacked_all cn) + msg_size s u mod two32 <= ps (cn_qos cn).
Proof.
  intros Hrab Hst Hco Hcr Hs s Ech Ec Hp Hev. subst s. set (s := fst (run cfg fx (init cfg) ls)) in *.
  destruct (get_charges_sized cfg fx s c h q ch cn dt r ex k mc Ech Ec Hev) as (qu & u & rest & w1 & w2 & Eq & Er & _ & Hi).
  exists qu, u, rest. split; [exact Eq|]. split; [exact Er|].
  pose proof (ZB_run cfg fx Hrab Hst Hco Hcr ls (init cfg) (CB_init cfg) (RCI_init cfg) (KD_init cfg) (ZB_init cfg) Hs _ _ Ec) as Hc.
  pose proof (smallcb_along_last cfg fx ls _ Hs _ _ _ _ _ _ Ec Eq Er) as Hsm. fold s in Hsm, Hc.
  destruct (conn_delivery_only_below_size_limit (msz s) cn (msz s u) w2 Hc Hsm Hi Hp) as [Hle _].
  unfold ztot in Hle. rewrite bsum_fold in Hle. exact Hle.
Qed.

Definition smallcbb (s : state) : bool :=
  forallb (fun kc : N * conn =>
    forallb (fun kq : string * queue => match q_ready (snd kq) with [] => true | u :: _ => ztot (msz s) (snd kc) + msz s u <? two32 end) (queues s))
    (conns s).
Lemma smallcbb_spec s : smallcbb s = true -> SmallCB s.
Proof.
  intros H c cn q qu u rest Hg Hq Hr. unfold get_conn in Hg. apply (alookup_in N.eqb Neqb_spec) in Hg.
  unfold get_queue in Hq. apply (alookup_in seqb seqb_spec) in Hq.
  unfold smallcbb in H. rewrite forallb_forall in H. specialize (H _ Hg). cbn in H.
  rewrite forallb_forall in H. specialize (H _ Hq). cbn in H. rewrite Hr in H. apply N.ltb_lt in H. exact H.
Qed.
Fixpoint smallcb_alongb (cfg : config) (fx : fixes) (s : state) (ls : list label) : bool :=
  smallcbb s && match ls with [] => true | l :: t => smallcb_alongb cfg fx (fst (step cfg fx s l)) t end.
Lemma smallcb_alongb_spec cfg fx ls : forall s, smallcb_alongb cfg fx s ls = true -> smallcb_along cfg fx s ls.
Proof.
  induction ls as [|l t IH]; intros s H; cbn [smallcb_alongb smallcb_along] in *; apply andb_prop in H; destruct H as [A B];
    (split; [apply smallcbb_spec; exact A|auto]).
Qed.
