(* C04 at broker level: a persistent message on a durable queue that the broker has confirmed survives a kill.

   SC  (store completeness): every persistent message held (waiting or delivered and unsettled) by a durable queue
       object has its key in the store - flushed (st_db) or pending (st_add) - and no pending delete;
   DF  pending deletes name published messages only.
   J = HI /\ SC /\ DF is kept by EVERY label (also LRestart: after a restart a queue holds exactly its stored keys),
   provided no queue.purge hits a durable queue while a persistent delivery of that queue is unsettled
   (purge_ok; open finding F41-unsettled: store_purge deletes the keys of the unsettled deliveries too).

   Method (as in BrokerHolder.v): relations between the state before and after an operation -
     XS  the part of the view FR does not cover is unchanged (pending deletes, persistence bits, durability bits);
     D   "held below" (HB) plus: keys of what is still held are kept, no delete is recorded for them;
   each proved primitive by primitive and composed; publish, declare, header, delivery and restart by hand. *)
From Coq Require Import List String NArith ZArith Bool Lia ZifyBool ZifyN Permutation Sorted.
From RecordUpdate Require Import RecordUpdate.
Import ListNotations.
From GMQ Require Import Broker.Model Proofs.BrokerFrames Proofs.BrokerTags Proofs.BrokerChanInv Proofs.BrokerReady
  Proofs.BrokerRestart Proofs.BrokerLedger Proofs.BrokerHeld Proofs.BrokerWake Proofs.BrokerHolder.
(* not imported: BrokerConfirmHist has its own cnt / hview *)
From GMQ Require Proofs.BrokerConfirm Proofs.BrokerConfirmHist.
Open Scope N_scope.

(* ================================================================== *)
(* 0. definitions *)
Definition persb (s : state) (u : N) : bool := match get_msg s u with Some m => m_pers m | None => false end.
Definition durb (s : state) (qn : string) : bool := match get_queue s qn with Some qu => q_durable qu | None => false end.

(* store completeness *)
Definition SC (s : state) : Prop :=
  forall qn qid u, In (qn, qid) (nmv s) -> durb s qn = true -> persb s u = true -> In u (held s qid) ->
    In (u, qn) (store s) /\ ~ In (u, qn) (st_del s).
(* pending deletes name published messages *)
Definition DF (s : state) : Prop := forall k, In k (st_del s) -> fst k < next_uid s /\ ~ In (fst k) (all_cur s).

(* ================================================================== *)
(* 1. XS: pending deletes, persistence bits and durability bits unchanged *)
Definition XS (s s' : state) : Prop :=
  st_del s' = st_del s /\ (forall u, persb s' u = persb s u) /\ (forall qn, durb s' qn = durb s qn).

Lemma XS_refl s : XS s s. Proof. repeat split. Qed.
Lemma XS_trans s1 s2 s3 : XS s1 s2 -> XS s2 s3 -> XS s1 s3.
Proof. intros (A & B & C) (A' & B' & C'). split; [congruence|]. split; intros x; [rewrite B', B|rewrite C', C]; reflexivity. Qed.
Lemma XS_same s s' : queues s' = queues s -> heap s' = heap s -> st_del s' = st_del s -> XS s s'.
Proof.
  intros A B C. split; [exact C|]. split; intros x.
  - unfold persb. rewrite (get_msg_same_heap _ _ _ B). reflexivity.
  - unfold durb. rewrite (get_queue_same_queues _ _ _ A). reflexivity.
Qed.
Lemma XS_set_chan s c h ch : XS s (set_chan s c h ch).
Proof. apply XS_same; [apply queues_set_chan|apply heap_set_chan|apply st_del_set_chan]. Qed.
Lemma XS_upd_chan s c h f : XS s (upd_chan s c h f).
Proof. unfold upd_chan. destruct (get_chan s c h); [apply XS_set_chan|apply XS_refl]. Qed.
Lemma XS_set_queue s qn qu qu' : get_queue s qn = Some qu -> q_durable qu' = q_durable qu -> XS s (set_queue s qn qu').
Proof.
  intros Hg E. split; [reflexivity|]. split; intros x; [reflexivity|]. unfold durb. rewrite get_queue_set_queue.
  destruct (seqb x qn) eqn:Ex; [|reflexivity]. apply seqb_spec in Ex. subst x. rewrite Hg, E. reflexivity.
Qed.
Lemma XS_upd_queue s qn f : (forall qu, q_durable (f qu) = q_durable qu) -> XS s (upd_queue s qn f).
Proof. intros Hf. unfold upd_queue. destruct (get_queue s qn) as [qu|] eqn:E; [|apply XS_refl]. eapply XS_set_queue; [exact E|apply Hf]. Qed.
Lemma persb_upd_msg s u f x : (forall m, m_pers (f m) = m_pers m) -> persb (upd_msg s u f) x = persb s x.
Proof.
  intros Hf. unfold persb, upd_msg. destruct (get_msg s u) as [m|] eqn:E; [|reflexivity].
  unfold get_msg in *. cbn [heap set].
  induction (heap s) as [|[k v] t IH]; cbn [alookup aset] in *; [discriminate|].
  destruct (u =? k) eqn:Ek.
  - inversion E; subst v. cbn [alookup]. destruct (x =? u) eqn:Ex.
    + apply N.eqb_eq in Ex. subst x. rewrite Ek. apply Hf.
    + apply N.eqb_eq in Ek. subst k. rewrite Ex. reflexivity.
  - cbn [alookup]. destruct (x =? k); [reflexivity|]. apply IH. exact E.
Qed.
Lemma XS_upd_msg s u f : (forall m, m_pers (f m) = m_pers m) -> XS s (upd_msg s u f).
Proof.
  intros Hf. split; [unfold upd_msg; destruct (get_msg s u); reflexivity|]. split; intros x; [apply persb_upd_msg; exact Hf|].
  unfold durb. rewrite (get_queue_same_queues _ _ _ (queues_upd_msg s u f)). reflexivity.
Qed.
Lemma XS_fold {A} (f : state -> A -> state) l : (forall s a, XS s (f s a)) -> forall s, XS s (fold_left f l s).
Proof. intros Hf. induction l as [|a t IH]; intros s; cbn [fold_left]; [apply XS_refl|]. eapply XS_trans; [apply Hf|apply IH]. Qed.

Lemma XS_wake_consumer s c h tag : XS s (fst (wake_consumer s c h tag)).
Proof.
  unfold wake_consumer. destruct (get_chan s c h) as [ch|]; [|apply XS_refl].
  destruct (find_consumer ch tag) as [cm|]; [|apply XS_refl]. destruct (consume_msg cm). cbn [fst]. apply XS_set_chan.
Qed.
Lemma XS_wake_all s c h : XS s (wake_all_of_chan s c h).
Proof. apply XS_upd_chan. Qed.
Lemma XS_wake_consumers cfg s c h : XS s (wake_consumers cfg s c h).
Proof.
  unfold wake_consumers. destruct (cfg_rabbit cfg); [apply XS_wake_all|].
  destruct (get_conn _ c) as [cn|]; [|apply XS_wake_all].
  eapply XS_trans; [apply XS_wake_all|]. apply XS_fold. intros s0 x. destruct (fst x =? h); [apply XS_refl|apply XS_wake_all].
Qed.
Lemma XS_queue_remove_consumer s qn c h tag : XS s (queue_remove_consumer s qn c h tag).
Proof.
  unfold queue_remove_consumer. destruct (get_queue s qn) as [qu|] eqn:E; [|apply XS_refl]. cbv zeta.
  match goal with |- XS s (if ?b then set autodel ?f ?s1 else _) => assert (H1 : XS s s1) end.
  { eapply XS_set_queue; [exact E|]. destruct (Nat.eqb _ 0); reflexivity. }
  destruct (_ && _ && _); [|exact H1]. eapply XS_trans; [exact H1|]. apply XS_same; reflexivity.
Qed.
Lemma XS_consumer_stop s c h tag : XS s (consumer_stop s c h tag).
Proof.
  unfold consumer_stop. destruct (get_chan s c h) as [ch|]; [|apply XS_refl].
  destruct (find_consumer ch tag) as [cm|]; [|apply XS_refl].
  destruct (c_status cm); try apply XS_refl.
  all: eapply XS_trans; [|apply XS_queue_remove_consumer]; apply XS_set_chan.
Qed.
Lemma XS_set_conn s c cn' : XS s (s <| conns := aset N.eqb c cn' (conns s) |>).
Proof. apply XS_same; reflexivity. Qed.
Lemma XS_dec_qos cfg s c h u : XS s (dec_qos_and_consume_next cfg s c h u).
Proof.
  unfold dec_qos_and_consume_next. destruct (get_chan s c h) as [ch|]; [|apply XS_refl].
  eapply XS_trans; [|apply XS_wake_consumers].
  destruct (find_consumer ch (u_ctag u)); cbv zeta.
  - destruct (cfg_rabbit cfg).
    + eapply XS_trans; [|apply XS_upd_chan]. apply XS_upd_chan.
    + destruct (get_conn _ c) as [cn|]; [|apply XS_upd_chan].
      eapply XS_trans; [|apply XS_set_conn]. apply XS_upd_chan.
  - destruct (get_conn _ c) as [cn|]; [|apply XS_upd_chan].
    eapply XS_trans; [|apply XS_set_conn]. apply XS_upd_chan.
Qed.
Lemma XS_store_windows cfg s c h tag ws : XS s (store_windows cfg s c h tag ws).
Proof.
  unfold store_windows. destruct ws as [|w1 [|w2 [|]]]; try apply XS_refl. cbv zeta.
  destruct (cfg_rabbit cfg).
  - eapply XS_trans; [|apply XS_upd_chan]. apply XS_upd_chan.
  - destruct (get_conn _ c) as [cn|]; [|apply XS_upd_chan].
    eapply XS_trans; [|apply XS_set_conn]. apply XS_upd_chan.
Qed.
Lemma XS_add_confirm s c h t : XS s (add_confirm s c h t).
Proof.
  unfold add_confirm. destruct (get_chan s c h) as [ch|]; [|apply XS_refl]. destruct (negb _); [apply XS_refl|].
  destruct (ch_status ch); try apply XS_refl; destruct t as [[[? ?] ?]|]; try apply XS_refl; apply XS_set_chan.
Qed.
Lemma XS_store_confirm s u : XS s (store_confirm s u).
Proof.
  unfold store_confirm. destruct (get_msg s u) as [m|]; [|apply XS_refl]. destruct (m_conf m); [|apply XS_refl].
  destruct (_ =? _)%Z; [|apply XS_upd_msg; reflexivity].
  apply (XS_trans _ (upd_msg s u (fun m0 => m0 <| m_actual ::= Z.succ |>))); [apply XS_upd_msg; reflexivity|]. apply XS_same; reflexivity.
Qed.
Lemma XS_queue_loop_turn s qn : XS s (queue_loop_turn s qn).
Proof.
  unfold queue_loop_turn. destruct (get_queue s qn) as [qu|] eqn:E; [|apply XS_refl]. destruct (negb (q_call qu)); [apply XS_refl|].
  cbv zeta. assert (H1 : XS s (set_queue s qn (qu <| q_call := false |>))) by (eapply XS_set_queue; [exact E|reflexivity]).
  destruct (Nat.eqb _ 0); [exact H1|]. eapply XS_trans; [|apply XS_upd_queue; reflexivity].
  eapply XS_trans; [exact H1|]. apply XS_fold. intros s0 [[c h] tag]. apply XS_wake_consumer.
Qed.
Lemma XS_send_error s c h e : XS s (fst (send_error s c h e)).
Proof. destruct e; cbn [send_error fst]; [apply XS_upd_chan|apply XS_refl]. Qed.
Lemma XS_ensure_chan s c h : XS s (ensure_chan s c h).
Proof.
  unfold ensure_chan. destruct (get_conn s c) as [cn|]; [|apply XS_refl]. destruct (alookup _ _ _); [apply XS_refl|apply XS_set_conn].
Qed.
Lemma XS_set_stage s c st : XS s (set_stage s c st).
Proof. unfold set_stage. destruct (get_conn s c); [apply XS_set_conn|apply XS_refl]. Qed.

(* ================================================================== *)
(* 2. D: held below, and the keys of what is still held are kept *)
Record DRx (s s' : state) : Prop := {
  dr_pers : forall u, persb s' u = persb s u;
  dr_dur : forall qn qid, In (qn, qid) (nmv s') -> durb s' qn = durb s qn;
  dr_keep : forall qn qid u, In (qn, qid) (nmv s') -> In u (held s' qid) -> durb s qn = true -> persb s u = true ->
    In (u, qn) (store s) -> ~ In (u, qn) (st_del s) -> In (u, qn) (store s') /\ ~ In (u, qn) (st_del s');
  dr_del : forall k, In k (st_del s') -> In k (st_del s) \/ In k (store s) \/ exists qid, In (fst k) (held s qid) }.
Definition D (s s' : state) : Prop := HB s s' /\ DRx s s'.

Lemma D_refl s : D s s.
Proof. split; [apply HB_refl|]. constructor; auto. Qed.
Lemma D_trans s1 s2 s3 : D s1 s2 -> D s2 s3 -> D s1 s3.
Proof.
  intros [A A'] [B B']. split; [eapply HB_trans; eauto|]. destruct A as (A0 & _ & AS). destruct B as (B0 & _ & BS). constructor.
  - intros u. rewrite (dr_pers _ _ B'), (dr_pers _ _ A'). reflexivity.
  - intros qn qid Hin. rewrite (dr_dur _ _ B' qn qid Hin). apply (dr_dur _ _ A' qn qid). apply (sb_q _ _ BS). exact Hin.
  - intros qn qid u Hin Hh Hd Hp Hs Hn.
    assert (Hin2 : In (qn, qid) (nmv s2)) by (apply (sb_q _ _ BS); exact Hin).
    assert (Hh2 : In u (held s2 qid)) by (eapply le_ms_In; [apply (hb_held _ _ B0)|exact Hh]).
    destruct (dr_keep _ _ A' qn qid u Hin2 Hh2 Hd Hp Hs Hn) as [K1 K2].
    apply (dr_keep _ _ B' qn qid u Hin Hh); auto.
    + rewrite (dr_dur _ _ A' qn qid Hin2). exact Hd.
    + rewrite (dr_pers _ _ A'). exact Hp.
  - intros k Hk. apply (dr_del _ _ B') in Hk. destruct Hk as [Hk|[Hk|(qid & Hk)]].
    + apply (dr_del _ _ A'). exact Hk.
    + apply (hb_store _ _ A0) in Hk. tauto.
    + right. right. exists qid. eapply le_ms_In; [apply (hb_held _ _ A0)|exact Hk].
Qed.

(* the invariant.  g is a ghost: a key (message id, queue name) and a bit; when given, the invariant also says that the
   message has been routed (it is no longer being assembled), that the key is not a pending add, and that the bit is the
   message's persistence bit *)
Section Tracked.
Variable g : option (N * string * bool).
Record J (s : state) : Prop := {
  j_hi : HI s; j_sc : SC s; j_df : DF s;
  j_tr : forall u qn p, g = Some (u, qn, p) ->
           u < next_uid s /\ ~ In u (all_cur s) /\ ~ In (u, qn) (st_add s) /\ persb s u = p }.

Lemma J_D s s' : J s -> D s s' -> J s'.
Proof.
  intros [H Hsc Hdf Htr] [B B']. pose proof (HI_HB s s' H B) as H'. destruct B as (B0 & _ & BS). constructor; [exact H'| | |].
  3:{ intros u qn0 p Eg. destruct (Htr u qn0 p Eg) as (T1 & T2 & T3 & T4). pose proof (hb_uid _ _ B0). split; [lia|].
      split; [intros Hx; apply T2; eapply le_ms_In; [apply (hb_cur _ _ B0)|exact Hx]|].
      split; [intros Hin; apply T3; apply (hb_add _ _ B0); exact Hin|rewrite (dr_pers _ _ B'); exact T4]. }
  - intros qn qid u Hin Hd Hp Hh.
    assert (Hin0 : In (qn, qid) (nmv s)) by (apply (sb_q _ _ BS); exact Hin).
    assert (Hh0 : In u (held s qid)) by (eapply le_ms_In; [apply (hb_held _ _ B0)|exact Hh]).
    rewrite (dr_dur _ _ B' qn qid Hin) in Hd. rewrite (dr_pers _ _ B') in Hp.
    destruct (Hsc qn qid u Hin0 Hd Hp Hh0) as [K1 K2]. apply (dr_keep _ _ B' qn qid u); auto.
  - intros k Hk. pose proof (hb_uid _ _ B0) as Hu. apply (dr_del _ _ B') in Hk. destruct Hk as [Hk|[Hk|(qid & Hk)]].
    + destruct (Hdf k Hk) as [K1 K2]. split; [lia|]. intros Hx. apply K2. eapply le_ms_In; [apply (hb_cur _ _ B0)|exact Hx].
    + pose proof (hi_store_lt _ H k Hk). split; [lia|]. intros Hx. apply (hi_cur_add _ H (fst k) k); [eapply le_ms_In; [apply (hb_cur _ _ B0)|exact Hx]|exact Hk|reflexivity].
    + pose proof (hi_held_lt _ H qid _ Hk). split; [lia|]. intros Hx. apply (hi_cur_fresh _ H (fst k) qid); [eapply le_ms_In; [apply (hb_cur _ _ B0)|exact Hx]|exact Hk].
Qed.

(* same pending deletes, same store: nothing to show beyond HB *)
Lemma D_HB_same s s' : HB s s' -> st_add s' = st_add s -> st_db s' = st_db s -> st_del s' = st_del s ->
  (forall u, persb s' u = persb s u) -> (forall qn qid, In (qn, qid) (nmv s') -> durb s' qn = durb s qn) -> D s s'.
Proof.
  intros B E1 E2 E3 Hp Hd. split; [exact B|]. constructor; auto.
  - intros qn qid u _ _ _ _ Hs Hn. unfold store in *. rewrite E1, E2, E3. auto.
  - intros k Hk. left. rewrite <- E3. exact Hk.
Qed.
Lemma D_HB_XS s s' : HB s s' -> XS s s' -> st_add s' = st_add s -> st_db s' = st_db s -> D s s'.
Proof. intros B (X1 & X2 & X3) E1 E2. apply D_HB_same; auto. Qed.
Lemma D_FX s s' : FR s s' -> XS s s' -> D s s'.
Proof. intros E X. destruct (nexts_FR _ _ E) as (_ & _ & _ & E1 & E2). apply D_HB_XS; auto. apply HB_FR. exact E. Qed.
Lemma J_FX s s' : J s -> FR s s' -> XS s s' -> J s'.
Proof. intros Hj E X. eapply J_D; [exact Hj|apply D_FX; auto]. Qed.

(* ---- giving up a delivery entry / a queue / a connection ---- *)
Lemma D_del_unacked s c h tag : D s (upd_chan s c h (fun ch => del_unacked ch tag)).
Proof.
  apply D_HB_XS; [apply HB_del_unacked|apply XS_upd_chan| |];
    unfold upd_chan; destruct (get_chan s c h); try reflexivity; apply next_set_chan.
Qed.
Lemma D_upd_chan s c h f :
  (forall ch, le_ms (cur_l (f ch)) (cur_l ch)) -> (forall ch qid, le_ms (uq qid (f ch)) (uq qid ch)) -> D s (upd_chan s c h f).
Proof.
  intros A B. apply D_HB_XS; [apply HB_upd_chan; auto|apply XS_upd_chan| |];
    unfold upd_chan; destruct (get_chan s c h); try reflexivity; apply next_set_chan.
Qed.
Lemma D_set_chan s c h ch ch' :
  get_chan s c h = Some ch -> le_ms (cur_l ch') (cur_l ch) -> (forall qid, le_ms (uq qid ch') (uq qid ch)) -> D s (set_chan s c h ch').
Proof. intros A B C. apply D_HB_XS; [eapply HB_set_chan; eauto|apply XS_set_chan|apply next_set_chan|apply next_set_chan]. Qed.
Lemma D_del_conn s c : D s (s <| conns := adel N.eqb c (conns s) |>).
Proof. apply D_HB_XS; [apply HB_del_conn|apply XS_same; reflexivity|reflexivity|reflexivity]. Qed.

Lemma durb_adel s qn q : q <> qn -> durb (s <| queues := adel seqb qn (queues s) |>) q = durb s q.
Proof.
  intros Hne. unfold durb, get_queue. cbn [queues set]. induction (queues s) as [|[k v] t IH]; cbn [adel alookup]; [reflexivity|].
  destruct (seqb qn k) eqn:E1.
  - apply seqb_spec in E1. subst k. destruct (seqb q qn) eqn:E2; [apply seqb_spec in E2; contradiction|exact IH].
  - cbn [alookup]. destruct (seqb q k); [reflexivity|exact IH].
Qed.
Lemma nmv_adel s qn p : In p (nmv (s <| queues := adel seqb qn (queues s) |>)) -> In p (nmv s) /\ fst p <> qn.
Proof.
  unfold nmv. cbn [queues set]. rewrite adel_filter. intros Hp. apply in_map_iff in Hp. destruct Hp as (kq & <- & Hk).
  apply filter_In in Hk. destruct Hk as [Hk Hne]. split; [apply (in_map (fun kq : string * queue => (fst kq, q_id (snd kq)))); exact Hk|].
  cbn [fst]. intros E. rewrite E in Hne. rewrite (proj2 (seqb_spec qn qn) eq_refl) in Hne. discriminate.
Qed.

(* ---- settling one delivery ---- *)
Lemma queue_ackmsg_view s qn u :
  st_add (queue_ackmsg s qn u) = st_add s /\ st_db (queue_ackmsg s qn u) = st_db s /\
  (forall x, persb (queue_ackmsg s qn u) x = persb s x) /\ (forall q, durb (queue_ackmsg s qn u) q = durb s q) /\
  (st_del (queue_ackmsg s qn u) = st_del s \/ st_del (queue_ackmsg s qn u) = st_del s ++ [(u, qn)]).
Proof.
  unfold queue_ackmsg. destruct (get_queue s qn) as [qu|] eqn:E; [|repeat split; auto]. destruct (get_msg s u) as [m|]; [|repeat split; auto].
  destruct (negb (q_active qu)); [repeat split; auto|]. cbv zeta.
  assert (Hd : forall s1 : state, queues s1 = queues s -> forall q,
            durb (set_queue (s1 <| srv_total ::= Z.pred |> <| srv_unacked ::= Z.pred |>) qn (qu <| q_mtotal ::= Z.pred |> <| q_munacked ::= Z.pred |>)) q = durb s q).
  { intros s1 Q q. unfold durb. rewrite get_queue_set_queue. destruct (seqb q qn) eqn:Eq.
    - apply seqb_spec in Eq. subst q. rewrite E. reflexivity.
    - apply (f_equal (fun o => match o with Some qu0 => q_durable qu0 | None => false end)). apply get_queue_same_queues. exact Q. }
  destruct (q_durable qu && m_pers m); repeat split; auto; try (intros q; apply Hd; reflexivity).
Qed.

Lemma In_U_held s c h e : In e (U s c h) -> In (u_msg e) (held s (u_qid e)).
Proof. unfold U. destruct (get_chan s c h) as [ch|] eqn:Hg; [|intros []]. intros Hin. eapply In_uq_held; eauto. Qed.

Lemma D_ack_one s c h e : HI s -> In e (U s c h) -> D s (chan_ackmsg (upd_chan s c h (fun ch => del_unacked ch (u_tag e))) e).
Proof.
  intros H Hin. pose proof (ack_settles s c h e (hi_nodup _ H) Hin) as Hout. pose proof (HB_ack_one s c h e) as B.
  set (s1 := upd_chan s c h (fun ch => del_unacked ch (u_tag e))) in *.
  destruct (D_del_unacked s c h (u_tag e)) as [_ D1]. fold s1 in D1.
  assert (X1 : XS s s1) by apply XS_upd_chan.
  assert (S1 : st_add s1 = st_add s /\ st_db s1 = st_db s).
  { subst s1. unfold upd_chan. destruct (get_chan s c h); [|auto]. split; apply next_set_chan. }
  assert (Q1 : queues s1 = queues s) by apply queues_upd_chan.
  destruct X1 as (X1 & X2 & X3). destruct S1 as [S1 S2].
  unfold chan_ackmsg in *. destruct (origin_queue s1 e) as [qu|] eqn:Eo.
  - apply origin_queue_some in Eo. destruct Eo as [Hq Eid]. rewrite (get_queue_same_queues _ _ _ Q1) in Hq.
    destruct (queue_ackmsg_view s1 (u_queue e) (u_msg e)) as (A1 & A2 & A3 & A4 & A5).
    set (s' := queue_ackmsg s1 (u_queue e) (u_msg e)) in *.
    split; [exact B|]. constructor.
    + intros x. rewrite A3. apply X2.
    + intros qn qid _. rewrite A4. apply X3.
    + intros qn qid u Hn Hh _ _ Hs Hnd. split; [unfold store in *; rewrite A1, A2, S1, S2; exact Hs|].
      intros Hdel. destruct A5 as [A5|A5]; rewrite A5, X1 in Hdel; [exact (Hnd Hdel)|].
      apply in_app_or in Hdel. destruct Hdel as [Hdel|[Hdel|[]]]; [exact (Hnd Hdel)|]. inversion Hdel; subst u qn.
      destruct B as (_ & _ & BS). apply (sb_q _ _ BS) in Hn.
      pose proof (nmv_name_unique s (u_queue e) qid (q_id qu) (hi_names _ H) Hn (get_queue_nmv s _ _ Hq)) as Ei.
      apply Hout. rewrite <- Eid, <- Ei. exact Hh.
    + intros k Hk. destruct A5 as [A5|A5]; rewrite A5, X1 in Hk; [auto|].
      apply in_app_or in Hk. destruct Hk as [Hk|[<-|[]]]; [auto|]. right. right. exists (u_qid e). cbn [fst]. apply In_U_held with (c := c) (h := h). exact Hin.
  - apply D_HB_same; [exact B|exact S1|exact S2|exact X1|exact X2|].
    intros qn qid _. exact (X3 qn).
Qed.

Lemma D_reject_one_drop s c h e : HI s -> In e (U s c h) -> D s (chan_rejectmsg (upd_chan s c h (fun ch => del_unacked ch (u_tag e))) e false).
Proof. intros H Hin. rewrite chan_reject_drop_eq. apply D_ack_one; auto. Qed.

Lemma store_writeback_view s qn u d :
  st_add (store_writeback s qn u d) = st_add s /\ incl (st_db s) (st_db (store_writeback s qn u d)) /\
  st_del (store_writeback s qn u d) = st_del s /\ heap (store_writeback s qn u d) = heap s /\ queues (store_writeback s qn u d) = queues s.
Proof.
  unfold store_writeback. destruct (_ && _ && _); repeat split; auto; try apply incl_refl. cbn [st_db set]. apply incl_appl. apply incl_refl.
Qed.

Lemma queue_requeue_view s qn u :
  st_add (queue_requeue s qn u) = st_add s /\ incl (st_db s) (st_db (queue_requeue s qn u)) /\
  st_del (queue_requeue s qn u) = st_del s /\
  (forall x, persb (queue_requeue s qn u) x = persb s x) /\ (forall q, durb (queue_requeue s qn u) q = durb s q).
Proof.
  unfold queue_requeue. destruct (get_queue s qn) as [qu|] eqn:E; [|repeat split; auto; apply incl_refl].
  destruct (negb (q_active qu)); [repeat split; auto; apply incl_refl|]. cbv zeta.
  destruct (store_writeback_view s qn u (q_durable qu)) as (W1 & W2 & W3 & W4 & W5).
  set (s1 := store_writeback s qn u (q_durable qu)) in *.
  set (s2 := upd_msg s1 u (fun m => m <| m_dc ::= N.succ |>)).
  assert (E2 : st_add s2 = st_add s1 /\ st_db s2 = st_db s1 /\ st_del s2 = st_del s1).
  { subst s2. unfold upd_msg. destruct (get_msg s1 u); repeat split; reflexivity. }
  destruct E2 as (E21 & E22 & E23).
  assert (P2 : forall x, persb s2 x = persb s x).
  { intros x. subst s2. rewrite persb_upd_msg by reflexivity. unfold persb. rewrite (get_msg_same_heap _ _ _ W4). reflexivity. }
  assert (Q2 : queues s2 = queues s) by (subst s2; rewrite queues_upd_msg; exact W5).
  repeat split.
  - cbn [st_add set set_queue]. rewrite E21. exact W1.
  - cbn [st_db set set_queue]. rewrite E22. exact W2.
  - cbn [st_del set set_queue]. rewrite E23. exact W3.
  - intros x. rewrite <- P2. unfold persb. apply (f_equal (fun o => match o with Some m => m_pers m | None => false end)). apply get_msg_same_heap. reflexivity.
  - intros q. unfold durb. rewrite get_queue_set_queue. destruct (seqb q qn) eqn:Eq.
    + apply seqb_spec in Eq. subst q. rewrite E. unfold call_consumers. destruct (q_active _); reflexivity.
    + apply (f_equal (fun o => match o with Some qu0 => q_durable qu0 | None => false end)). apply get_queue_same_queues. exact Q2.
Qed.

Lemma D_requeue_one s c h e : HI s -> In e (U s c h) -> D s (chan_rejectmsg (upd_chan s c h (fun ch => del_unacked ch (u_tag e))) e true).
Proof.
  intros H Hin. pose proof (HB_reject_one_requeue s c h e Hin) as B. split; [exact B|].
  set (s1 := upd_chan s c h (fun ch => del_unacked ch (u_tag e))) in *.
  assert (X1 : XS s s1) by apply XS_upd_chan. destruct X1 as (X1 & X2 & X3).
  assert (S1 : st_add s1 = st_add s /\ st_db s1 = st_db s).
  { subst s1. unfold upd_chan. destruct (get_chan s c h); [|auto]. split; apply next_set_chan. }
  destruct S1 as [S1 S2].
  unfold chan_rejectmsg in *. destruct (origin_queue s1 e) as [qu|].
  - destruct (queue_requeue_view s1 (u_queue e) (u_msg e)) as (A1 & A2 & A3 & A4 & A5).
    constructor.
    + intros x. rewrite A4. apply X2.
    + intros qn qid _. rewrite A5. apply X3.
    + intros qn qid u _ _ _ _ Hs Hnd. split; [|rewrite A3, X1; exact Hnd]. unfold store in *. rewrite A1, S1.
      apply in_app_or in Hs. apply in_or_app. destruct Hs as [Hs|Hs]; [auto|right; apply A2; rewrite S2; exact Hs].
    + intros k Hk. left. rewrite A3, X1 in Hk. exact Hk.
  - constructor; cbn [st_del set]; unfold store; cbn [st_add st_db set].
    + intros x. rewrite <- X2. reflexivity.
    + intros qn qid _. rewrite <- X3. reflexivity.
    + intros qn qid u _ _ _ _ Hs Hnd. rewrite S1, S2, X1. auto.
    + intros k Hk. left. rewrite X1 in Hk. exact Hk.
Qed.

Lemma D_fold_settle (f : state -> unacked -> state) c h :
  (forall s e, HI s -> In e (U s c h) -> D s (f s e)) ->
  (forall s e, U (f s e) c h = filter (fun u => negb (u_tag u =? u_tag e)) (U s c h)) ->
  forall sel s, HI s -> NoDup (map u_tag sel) -> (forall e, In e sel -> In e (U s c h)) -> D s (fold_left f sel s).
Proof.
  intros Hf HU. induction sel as [|a t IH]; intros s H Hnd Hin; cbn [fold_left]; [apply D_refl|].
  cbn [map] in Hnd. inversion Hnd as [|? ? Hni Hnd']; subst.
  assert (Da : D s (f s a)) by (apply Hf; [exact H|apply Hin; left; reflexivity]).
  eapply D_trans; [exact Da|]. apply IH; [eapply HI_HB; [exact H|apply Da]|exact Hnd'|].
  intros e He. rewrite HU. apply filter_In. split; [apply Hin; right; exact He|].
  apply Bool.negb_true_iff. apply N.eqb_neq. intros E. apply Hni. rewrite <- E. apply in_map. exact He.
Qed.

Lemma D_fold_dec cfg c h sel : forall s, D s (fold_left (fun s u => dec_qos_and_consume_next cfg s c h u) sel s).
Proof.
  induction sel as [|a t IH]; intros s; cbn [fold_left]; [apply D_refl|].
  eapply D_trans; [apply D_FX; [apply FR_dec_qos|apply XS_dec_qos]|apply IH].
Qed.

Lemma D_handle_ack cfg s c h tag mult : CI s -> HI s -> D s (fst (handle_ack cfg s c h tag mult)).
Proof.
  intros Hci H. unfold handle_ack. destruct (get_chan s c h) as [ch|] eqn:Ech; [|apply D_refl].
  pose proof (Hci _ _ _ Ech) as [Hnd _]. destruct mult.
  - cbn [fst]. eapply D_trans; [|apply D_fold_dec].
    apply (D_fold_settle (fun s u => chan_ackmsg (upd_chan s c h (fun ch => del_unacked ch (u_tag u))) u) c h).
    + intros s0 e. apply D_ack_one.
    + intros s0 e. rewrite U_chan_ackmsg. apply del_unacked_U.
    + exact H.
    + apply NoDup_map_filter. exact Hnd.
    + intros e He. apply filter_In in He. unfold U. rewrite Ech. tauto.
  - destruct (find _ _) as [u|] eqn:Ef; cbn [fst]; [|apply D_refl].
    apply find_some in Ef. destruct Ef as [Hin Et]. apply N.eqb_eq in Et. subst tag.
    eapply D_trans; [apply (D_ack_one s c h u H); unfold U; rewrite Ech; exact Hin|]. apply D_FX; [apply FR_dec_qos|apply XS_dec_qos].
Qed.

Lemma D_handle_reject cfg s c h tag mult requeue cls mth :
  CI s -> HI s -> D s (fst (handle_reject cfg s c h tag mult requeue cls mth)).
Proof.
  intros Hci H. unfold handle_reject. destruct (get_chan s c h) as [ch|] eqn:Ech; [|apply D_refl].
  pose proof (Hci _ _ _ Ech) as [Hnd _]. destruct mult.
  - cbn [fst]. eapply D_trans; [|apply D_fold_dec].
    apply (D_fold_settle (fun s u => chan_rejectmsg (upd_chan s c h (fun ch => del_unacked ch (u_tag u))) u requeue) c h).
    + intros s0 e. destruct requeue; [apply D_requeue_one|apply D_reject_one_drop].
    + intros s0 e. rewrite U_chan_rejectmsg. apply del_unacked_U.
    + exact H.
    + apply NoDup_map_filter. apply BrokerLedger.NoDup_sort_desc. exact Hnd.
    + intros e He. apply filter_In in He. unfold U. rewrite Ech. apply sort_desc_perm. tauto.
  - destruct (find _ _) as [u|] eqn:Ef; cbn [fst]; [|apply D_refl].
    apply find_some in Ef. destruct Ef as [Hin Et]. apply N.eqb_eq in Et. subst tag.
    assert (HinU : In u (U s c h)) by (unfold U; rewrite Ech; exact Hin).
    eapply D_trans; [|apply D_FX; [apply FR_dec_qos|apply XS_dec_qos]]. destruct requeue; [apply D_requeue_one|apply D_reject_one_drop]; auto.
Qed.

Lemma D_channel_close cfg s c h : CI s -> HI s -> D s (channel_close cfg s c h).
Proof.
  intros Hci H. unfold channel_close. destruct (get_chan s c h) as [ch|] eqn:Ech; [|apply D_refl].
  (* the message being assembled is dropped: it has no key yet *)
  eapply D_trans; [|apply D_upd_chan; intros; [apply le_ms_nil|apply le_ms_refl]].
  set (s2 := upd_chan (fold_left (fun s cm => consumer_stop s c h (c_tag cm)) (ch_consumers ch) s) c h (fun ch => ch <| ch_consumers := [] |>)).
  assert (F2 : FR s s2).
  { subst s2. eapply FR_trans; [|apply FR_upd_chan; reflexivity]. apply FR_fold. intros; apply FR_consumer_stop. }
  assert (X2 : XS s s2).
  { subst s2. eapply XS_trans; [|apply XS_upd_chan]. apply XS_fold. intros; apply XS_consumer_stop. }
  assert (C2 : CI s2).
  { subst s2. apply allch_upd_chan; [intros ch0 Hc0; eapply chinvp_set; [..|exact Hc0]; reflexivity|].
    apply fold_left_preserves; auto. intros; apply CI_consumer_stop; auto. }
  assert (H2 : HI s2) by (eapply HI_FR; eauto).
  clearbody s2. destruct (0 <? h); [|apply D_FX; auto]. eapply D_trans; [apply D_FX; eauto|]. apply D_handle_reject; auto.
Qed.

(* ---- purging a queue's keys ---- *)
Lemma store_purge_other s qn u q : q <> qn ->
  (In (u, q) (store s) -> In (u, q) (store (store_purge s qn))) /\ (In (u, q) (st_del (store_purge s qn)) -> In (u, q) (st_del s)).
Proof.
  intros Hne. unfold store_purge, store. cbn [st_add st_db st_del set]. split.
  - intros Hs. apply in_app_or in Hs. apply in_or_app. destruct Hs as [Hs|Hs]; [auto|right]. apply filter_In. split; [exact Hs|]. cbn [snd].
    destruct (seqb q qn) eqn:E; [apply seqb_spec in E; contradiction|reflexivity].
  - intros Hd. apply in_app_or in Hd. destruct Hd as [Hd|Hd]; [exact Hd|]. apply filter_In in Hd. destruct Hd as [_ Hd]. cbn [snd] in Hd.
    apply seqb_spec in Hd. contradiction.
Qed.
Lemma store_purge_del s qn k : In k (st_del (store_purge s qn)) -> In k (st_del s) \/ In k (store s).
Proof.
  unfold store_purge, store. cbn [st_del set]. intros Hd. apply in_app_or in Hd. destruct Hd as [Hd|Hd]; [auto|].
  apply filter_In in Hd. right. apply in_or_app. tauto.
Qed.

Lemma XS_cancel_fold l : forall s evs,
  XS s (fst (fold_left (fun acc x => let '(s, evs) := acc in let '(s', e) := consumer_cancel s x in (s', evs ++ e)) l (s, evs))).
Proof.
  induction l as [|[[c h] tag] t IH]; intros s evs; cbn [fold_left]; [apply XS_refl|].
  cbn [consumer_cancel]. eapply XS_trans; [apply XS_consumer_stop|apply IH].
Qed.

(* queue deletion: the keys go, and so does the name *)
Lemma D_vhost_delete_queue b s qn iu ie : D s (fst (fst (vhost_delete_queue b s qn iu ie))).
Proof.
  pose proof (HB_vhost_delete_queue b s qn iu ie) as B. split; [exact B|]. clear B.
  unfold vhost_delete_queue. destruct (get_queue s qn) as [qu|] eqn:Eq; [|apply D_refl].
  destruct (_ || _).
  - cbn [fst]. destruct b; [|apply D_refl]. apply D_FX; [eapply FR_set_queue; [exact Eq|reflexivity]|eapply XS_set_queue; [exact Eq|reflexivity]].
  - pose proof (FR_cancel_fold (q_consumers qu) s []) as Hf. pose proof (XS_cancel_fold (q_consumers qu) s []) as Hx.
    destruct (fold_left _ (q_consumers qu) (s, [])) as [s1 e1]. cbn [fst] in *.
    destruct (nexts_FR _ _ Hf) as (_ & _ & ES & EA & ED). destruct Hx as (X1 & X2 & X3). destruct Hf as (_ & Nm & _).
    set (s2 := if q_durable qu then store_purge s1 qn else s1).
    assert (Q2 : queues s2 = queues s1 /\ heap s2 = heap s1) by (subst s2; destruct (q_durable qu); split; reflexivity).
    destruct Q2 as [Q2 P2].
    constructor.
    + intros x. rewrite <- X2. unfold persb, get_msg. cbn [heap set]. rewrite P2. reflexivity.
    + intros q qid Hin. apply nmv_adel in Hin. destruct Hin as [_ Hne]. cbn [fst] in Hne. rewrite durb_adel by exact Hne.
      rewrite <- X3. unfold durb, get_queue. cbn [queues set]. rewrite Q2. reflexivity.
    + intros q qid u Hin _ _ _ Hs Hnd. apply nmv_adel in Hin. destruct Hin as [_ Hne]. cbn [fst] in Hne.
      rewrite <- ES in Hs. rewrite <- X1 in Hnd. unfold store. cbn [st_add st_db st_del set]. fold (store s2). subst s2.
      destruct (q_durable qu); [|auto]. destruct (store_purge_other s1 qn u q Hne) as [K1 K2]. auto.
    + intros k Hk. cbn [st_del set] in Hk. subst s2. rewrite <- X1, <- ES. destruct (q_durable qu); [|auto].
      apply store_purge_del in Hk. tauto.
Qed.

Lemma D_delete_fold b l : forall s evs, CI s ->
  D s (fst (fold_left (fun acc qn => let '(s, evs) := acc in
                                    let '(s', e, _) := vhost_delete_queue b s qn false false in (s', evs ++ e)) l (s, evs))).
Proof.
  induction l as [|x t IH]; intros s evs Hci; cbn [fold_left]; [apply D_refl|].
  pose proof (D_vhost_delete_queue b s x false false) as Hd. pose proof (CI_vhost_delete_queue b s x false false Hci) as Cd.
  destruct (vhost_delete_queue b s x false false) as [[s1 e1] r1]. cbn [fst] in *. eapply D_trans; [exact Hd|apply IH; exact Cd].
Qed.

Lemma D_conn_close cfg fx s c : CI s -> HI s -> D s (fst (conn_close cfg fx s c)).
Proof.
  intros Hci H. unfold conn_close. destruct (get_conn s c) as [cn|]; [|apply D_refl].
  set (s1 := fold_left _ _ s).
  assert (H1 : CI s1 /\ HI s1 /\ D s s1).
  { subst s1. apply (fold_left_preserves (fun st => CI st /\ HI st /\ D s st)); [|split; [exact Hci|split; [exact H|apply D_refl]]].
    intros st hh (A & A' & B). pose proof (D_channel_close cfg st c hh A A') as Dc.
    split; [apply CI_channel_close; auto|]. split; [eapply HI_HB; [exact A'|apply Dc]|eapply D_trans; eauto]. }
  destruct H1 as (C1 & _ & H1). clearbody s1.
  pose proof (D_delete_fold (negb (fx_delete_checks_first fx))
                (map fst (filter (fun kv => q_excl (snd kv) && (q_owner (snd kv) =? c)) (queues s1))) s1 [] C1) as Hd.
  destruct (fold_left _ _ (s1, [])) as [s2 e2]. cbn [fst] in *.
  eapply D_trans; [exact H1|]. eapply D_trans; [exact Hd|]. apply D_del_conn.
Qed.

(* ---- queue.purge: hypothesis - no persistent delivery of the (durable) queue is unsettled (F41-unsettled) ---- *)
Definition purge_clean (s : state) (q : string) : bool :=
  match get_queue s q with
  | Some qu => negb (q_durable qu) || forallb (fun e => negb (u_qid e =? q_id qu) || negb (persb s (u_msg e))) (all_unacked s)
  | None => true
  end.

Lemma ready_of_named s q qu x : NoDup (qids s) -> get_queue s q = Some qu -> In x (ready_of s (q_id qu)) -> In x (q_ready qu).
Proof.
  intros Hn Hg Hx. unfold ready_of in Hx. apply in_flat_map in Hx. destruct Hx as (kq & Hk & Hx).
  destruct (q_id (snd kq) =? q_id qu) eqn:E; [|destruct Hx]. apply N.eqb_eq in E.
  apply (alookup_in seqb seqb_spec) in Hg. rewrite qids_map in Hn.
  pose proof (NoDup_map_inj _ _ _ _ Hn Hk Hg E) as Ek. subst kq. exact Hx.
Qed.

Lemma D_purge s q qu (len : Z) (qu' : queue) :
  HI s -> get_queue s q = Some qu -> purge_clean s q = true ->
  q_id qu' = q_id qu -> q_durable qu' = q_durable qu -> q_ready qu' = [] ->
  D s (set_queue ((if q_durable qu then store_purge s q else s) <| srv_total ::= fun z => (z - len)%Z |> <| srv_ready ::= fun z => (z - len)%Z |>) q qu').
Proof.
  intros H Hg Hpc Eid Edur Erd.
  set (s2 := if q_durable qu then store_purge s q else s).
  assert (Q2 : queues s2 = queues s /\ heap s2 = heap s /\ conns s2 = conns s) by (subst s2; destruct (q_durable qu); repeat split; reflexivity).
  destruct Q2 as (Q2 & P2 & C2).
  set (s3 := s2 <| srv_total ::= fun z => (z - len)%Z |> <| srv_ready ::= fun z => (z - len)%Z |>).
  assert (Hg3 : get_queue s3 q = Some qu) by (unfold get_queue; cbn [queues set s3]; rewrite Q2; exact Hg).
  assert (B : HB s (set_queue s3 q qu')).
  { apply (HB_trans s s3).
    - apply (HB_trans s s2); [subst s2; destruct (q_durable qu); [apply HB_store_purge|apply HB_refl]|apply HB_FR; apply FR_same; reflexivity].
    - apply (HB_set_queue _ q qu); [exact Hg3|exact Eid|rewrite Erd; apply le_ms_nil]. }
  split; [exact B|]. constructor.
  - intros x. unfold persb, get_msg. cbn [heap set set_queue s3]. rewrite P2. reflexivity.
  - intros qn qid _. unfold durb. rewrite get_queue_set_queue. destruct (seqb qn q) eqn:E.
    + apply seqb_spec in E. subst qn. rewrite Hg, Edur. reflexivity.
    + unfold get_queue. cbn [queues set s3]. rewrite Q2. reflexivity.
  - intros qn qid u Hin Hh Hd Hp Hs Hnd.
    assert (Nm : nmv (set_queue s3 q qu') = nmv s).
    { rewrite (nmv_set_queue_keep s3 q qu qu' Hg3 Eid). apply nmv_same_queues. exact Q2. }
    rewrite Nm in Hin. unfold store. cbn [st_add st_db st_del set set_queue s3]. fold (store s2).
    destruct (string_dec qn q) as [->|Hne].
    + exfalso. pose proof (nmv_name_unique s q qid (q_id qu) (hi_names _ H) Hin (get_queue_nmv s q qu Hg)) as Ei. subst qid.
      unfold durb in Hd. rewrite Hg in Hd.
      pose proof (cnt_held_set_queue s3 q qu qu' Hg3 Eid (q_id qu) u) as Hc. rewrite N.eqb_refl, Erd, cnt_nil in Hc.
      rewrite (held_same s s3 (q_id qu)) in Hc by (cbn [conns queues set s3]; auto).
      pose proof (proj1 (NoDup_cnt _) (hi_nodup _ H (q_id qu)) u) as Hn1. apply In_cnt in Hh.
      assert (Hnr : ~ In u (q_ready qu)) by (apply notIn_cnt; lia).
      assert (Hh0 : In u (held s (q_id qu))) by (apply In_cnt; lia).
      unfold held in Hh0. apply in_app_or in Hh0. destruct Hh0 as [Hh0|Hh0]; [apply Hnr; exact (ready_of_named s q qu u (hi_qids_nodup _ H) Hg Hh0)|].
      unfold unacked_of in Hh0. apply in_map_iff in Hh0. destruct Hh0 as (e & Em & He). apply filter_In in He. destruct He as [He Eq].
      unfold purge_clean in Hpc. rewrite Hg, Hd in Hpc. cbn [negb orb] in Hpc. rewrite forallb_forall in Hpc. specialize (Hpc e He).
      rewrite Eq, Em, Hp in Hpc. discriminate.
    + subst s2. destruct (q_durable qu); [|auto]. destruct (store_purge_other s q u qn Hne) as [K1 K2]. auto.
  - intros k Hk. cbn [st_del set set_queue s3] in Hk. subst s2. destruct (q_durable qu); [|auto]. apply store_purge_del in Hk. tauto.
Qed.

(* ---- the store tick ---- *)
Lemma D_persist_tick cfg fx s : D s (fst (step cfg fx s LPersistTick)).
Proof.
  pose proof (HB_persist_tick cfg fx s) as B. pose proof (tick_nothing_pending cfg fx s) as [TA TD]. split; [exact B|].
  assert (TX : forall k, In k (store s) -> ~ In k (st_del s) -> In k (st_db (fst (step cfg fx s LPersistTick)))).
  { intros k Hs Hnd. cbn [step fst].
    match goal with |- In k (st_db (fold_left ?F ?L ?S1)) => set (s1 := S1);
      assert (E : st_db (fold_left F L s1) = st_db s1) by (apply (nexts_FR s1); apply FR_fold; intros; apply FR_store_confirm); rewrite E end.
    subst s1. cbn [st_db set]. apply filter_In. split.
    - unfold store in Hs. apply in_app_or in Hs. apply in_or_app. destruct Hs as [Hs|Hs]; [|auto].
      destruct (existsb (fun d : N * string => (fst d =? fst k) && seqb (snd d) (snd k)) (st_db s)) eqn:Edb; [left; apply kin_spec; exact Edb|].
      right. apply filter_In. split; [|rewrite Edb; reflexivity]. apply filter_In. split; [exact Hs|].
      apply Bool.negb_true_iff. destruct (existsb _ (st_del s)) eqn:Ed; [|reflexivity]. apply kin_spec in Ed. contradiction.
    - apply Bool.negb_true_iff. match goal with |- existsb ?P ?L = false => destruct (existsb P L) eqn:Ed; [|reflexivity] end.
      apply kin_spec in Ed. apply filter_In in Ed. tauto. }
  assert (X : (forall x, persb (fst (step cfg fx s LPersistTick)) x = persb s x) /\ (forall q, durb (fst (step cfg fx s LPersistTick)) q = durb s q)).
  { cbn [step fst].
    match goal with |- (forall x, persb (fold_left ?F ?L ?S1) x = _) /\ _ => set (s1 := S1);
      assert (E : XS s1 (fold_left F L s1)) by (apply XS_fold; intros; apply XS_store_confirm) end.
    destruct E as (_ & E2 & E3). split; intros x; [rewrite E2|rewrite E3]; reflexivity. }
  destruct X as [X2 X3]. constructor; auto.
  - intros qn qid u _ _ _ _ Hs Hnd. rewrite TD. split; [|intros []]. unfold store. rewrite TA. cbn [app]. apply TX; auto.
  - intros k Hk. rewrite TD in Hk. destruct Hk.
Qed.

(* ---- deliveries ---- *)
Lemma app_snoc_neq {A} (l : list A) x : l ++ [x] <> l.
Proof. intros E. apply (f_equal (@List.length A)) in E. rewrite app_length in E. cbn in E. lia. Qed.
Lemma queue_ackmsg_no_msg s qn u : get_msg s u = None -> queue_ackmsg s qn u = s.
Proof. intros E. unfold queue_ackmsg. destruct (get_queue s qn); [rewrite E|]; reflexivity. Qed.

(* what a delivery attempt does to the pending deletes and the bits: nothing, or (no-ack mode) the delete of the head's key *)
Definition DV (s : state) (qn : string) (ohead : option N) (noack : bool) (r : state * list event) : Prop :=
  (forall x, persb (fst r) x = persb s x) /\ (forall q, durb (fst r) q = durb s q) /\
  (st_del (fst r) = st_del s \/
   exists u, ohead = Some u /\ noack = true /\ st_del (fst r) = st_del s ++ [(u, qn)] /\ exists e, In e (snd r) /\ is_delivery e = true).
Lemma DV_XS s qn oh na s' evs : XS s s' -> DV s qn oh na (s', evs).
Proof. intros (A & B & C). split; [exact B|]. split; [exact C|]. left. exact A. Qed.

Lemma consumer_turn_view cfg fx s c h tag :
  exists qn oh na, DV s qn oh na (consumer_turn cfg fx s c h tag) /\
    forall ch cm qu, get_chan s c h = Some ch -> find_consumer ch tag = Some cm -> get_queue s (c_queue cm) = Some qu ->
      qn = c_queue cm /\ oh = hd_error (q_ready qu) /\ na = c_noack cm.
Proof.
  unfold consumer_turn.
  destruct (get_chan s c h) as [ch|] eqn:Ech.
  2:{ exists ""%string, None, false. split; [apply DV_XS; apply XS_refl|intros; discriminate]. }
  destruct (find_consumer ch tag) as [cm|] eqn:Efc.
  2:{ exists ""%string, None, false. split; [apply DV_XS; apply XS_refl|intros; congruence]. }
  destruct (get_queue s (c_queue cm)) as [qu0|] eqn:Eq0.
  2:{ exists ""%string, None, false. split; [|intros; congruence].
      destruct (negb (c_token cm)); [apply DV_XS; apply XS_refl|].
      set (s0 := set_chan s c h _). assert (X0 : XS s s0) by apply XS_set_chan.
      assert (Q0 : get_queue s0 (c_queue cm) = None) by (rewrite (get_queue_same_queues s s0); [exact Eq0|subst s0; apply queues_set_chan]).
      destruct (c_status cm); rewrite ?Q0; apply DV_XS; exact X0. }
  exists (c_queue cm), (hd_error (q_ready qu0)), (c_noack cm).
  split; [|intros ch' cm' qu' A B C; assert (ch' = ch) by congruence; subst ch'; assert (cm' = cm) by congruence; subst cm'; assert (qu' = qu0) by congruence; subst; auto].
  destruct (negb (c_token cm)); [apply DV_XS; apply XS_refl|].
  set (s0 := set_chan s c h _).
  assert (X0 : XS s s0) by apply XS_set_chan.
  assert (Q0 : queues s0 = queues s) by (subst s0; apply queues_set_chan).
  clearbody s0.
  destruct (c_status cm); try (apply DV_XS; exact X0).
  all: rewrite (get_queue_same_queues _ _ _ Q0), Eq0.
  all: destruct (negb (q_active qu0)); [apply DV_XS; exact X0|].
  all: destruct (q_ready qu0) as [|u rest] eqn:Er; [apply DV_XS; exact X0|].
  all: match goal with |- context [if c_noack ?cm0 then (Some [], []) else ?r] => destruct (if c_noack cm0 then (Some [], []) else r) as [okr ws] end.
  all: set (s1 := if c_noack cm then s0 else store_windows cfg s0 c h tag ws).
  all: assert (X1 : XS s s1) by (subst s1; destruct (c_noack cm); [exact X0|eapply XS_trans; [exact X0|apply XS_store_windows]]).
  all: assert (Q1 : queues s1 = queues s) by (subst s1; destruct (c_noack cm); [exact Q0|rewrite queues_store_windows; exact Q0]).
  all: clearbody s1.
  all: destruct okr; [|apply DV_XS; exact X1].
  all: set (sP := upd_queue s1 (c_queue cm) (popped rest)).
  all: assert (XP : XS s sP) by (eapply XS_trans; [exact X1|apply XS_upd_queue; intros; apply popped_keeps]).
  all: set (sA := if c_noack cm then queue_ackmsg sP (c_queue cm) u else sP).
  all: set (dtag := match get_chan sA c h with Some ch => ch_dtag ch + 1 | None => 0 end).
  all: set (sB := upd_chan sA c h (fun ch => ch <| ch_dtag := dtag |>)).
  all: match goal with |- context [wake_consumer ?st ?c0 ?h0 ?tag0] => set (sD := st);
         pose proof (XS_wake_consumer sD c0 h0 tag0) as XW; destruct (wake_consumer sD c0 h0 tag0) as [s9 b9]; cbn [fst] in XW end.
  all: assert (XD : XS sA sD /\ heap sD = heap sA).
  all: try (subst sD sB; destruct (c_noack cm); [destruct (fx_noack_total_once fx)|];
            (split; [eapply XS_trans; [|apply XS_same; reflexivity]; eapply XS_trans; [|apply XS_upd_queue; reflexivity];
                     eapply XS_trans; [|apply XS_same; reflexivity]; repeat (eapply XS_trans; [|apply XS_upd_chan]); apply XS_refl
                    |cbn [heap set]; rewrite heap_upd_queue; cbn [heap set]; rewrite ?BrokerWake.heap_upd_chan; reflexivity])).
  all: destruct XD as [XD HD].
  all: assert (X9 : XS sA s9) by (eapply XS_trans; [exact XD|exact XW]).
  all: destruct X9 as (Y1 & Y2 & Y3); destruct XP as (P1 & P2 & P3).
  all: subst sA; destruct (c_noack cm) eqn:Ena.
  all: try (split; [intros x; cbn [fst]; rewrite Y2; apply P2|split; [intros q; cbn [fst]; rewrite Y3; apply P3|left; cbn [fst]; rewrite Y1; exact P1]]).
  all: destruct (queue_ackmsg_view sP (c_queue cm) u) as (_ & _ & A3 & A4 & A5).
  all: split; [intros x; cbn [fst]; rewrite Y2, A3; apply P2|split; [intros q; cbn [fst]; rewrite Y3, A4; apply P3|]].
  all: destruct A5 as [A5|A5]; [left; cbn [fst]; rewrite Y1, A5; exact P1|right].
  all: exists u; split; [reflexivity|split; [reflexivity|split; [cbn [fst]; rewrite Y1, A5, P1; reflexivity|]]].
  all: cbn [snd]; destruct (get_msg sD u) as [m|] eqn:Em; [eexists; split; [left; reflexivity|reflexivity]|].
  all: exfalso; rewrite (get_msg_same_heap _ _ _ HD) in Em; rewrite (get_msg_same_heap _ _ u (BrokerWake.heap_queue_ackmsg sP (c_queue cm) u)) in Em.
  all: rewrite (queue_ackmsg_no_msg _ _ _ Em) in A5; exact (app_snoc_neq _ _ (eq_sym A5)).
Qed.

Lemma get_view cfg fx s c h q noack :
  DV s q (match get_queue s q with Some qu => hd_error (q_ready qu) | None => None end) noack (fst (handle_method cfg fx s c h (MGet q noack))).
Proof.
  unfold handle_method.
  destruct (get_chan s c h) as [ch|] eqn:Hch; [|apply DV_XS; apply XS_refl].
  unfold ok, refuse.
  destruct (queue_found s q) as [qu|] eqn:Eqf; [|apply DV_XS; apply XS_refl].
  apply queue_found_get' in Eqf. rewrite Eqf.
  destruct (fx_excl_owner fx && locked qu c); [apply DV_XS; apply XS_refl|].
  destruct (q_ready qu) as [|u rest] eqn:Er; [apply DV_XS; apply XS_refl|].
  match goal with |- context [if noack then (Some [], []) else ?r] => destruct (if noack then (Some [], []) else r) as [okr ws] end.
  set (s1 := match ws with [w1; w2] => _ | _ => s end).
  assert (X1 : XS s s1).
  { subst s1. destruct ws as [|w1 [|w2 [|]]]; try apply XS_refl.
    destruct (get_conn _ c) as [cn|]; [eapply XS_trans; [apply XS_set_chan|apply XS_set_conn]|apply XS_set_chan]. }
  clearbody s1.
  destruct okr; cbn [fst snd]; [|apply DV_XS; exact X1].
  set (sP := upd_queue s1 q (popped rest)).
  assert (XP : XS s sP) by (eapply XS_trans; [exact X1|apply XS_upd_queue; intros; apply popped_keeps]).
  set (dtag := match get_chan sP c h with Some ch => ch_dtag ch + 1 | None => 0 end).
  set (sB := upd_chan sP c h (fun ch => ch <| ch_dtag := dtag |>)).
  assert (XB : XS s sB) by (eapply XS_trans; [exact XP|apply XS_upd_chan]).
  assert (HB' : heap sB = heap sP) by apply BrokerWake.heap_upd_chan.
  pose proof XB as (B1 & B2 & B3).
  destruct noack; [destruct (fx_noack_total_once fx)|].
  2,3: apply DV_XS; (eapply XS_trans; [|apply XS_same; reflexivity]); (eapply XS_trans; [|apply XS_upd_queue; reflexivity]);
       (eapply XS_trans; [|apply XS_same; reflexivity]); try exact XB; (eapply XS_trans; [exact XB|apply XS_upd_chan]).
  destruct (queue_ackmsg_view sB q u) as (_ & _ & A3 & A4 & A5).
  set (sA := queue_ackmsg sB q u) in *.
  assert (XF : XS sA (upd_queue (sA <| srv_unacked ::= Z.succ |>) q (fun qu0 => qu0 <| q_munacked ::= Z.succ |>) <| srv_ready ::= Z.pred |>)).
  { eapply XS_trans; [|apply XS_same; reflexivity]. eapply XS_trans; [|apply XS_upd_queue; reflexivity]. apply XS_same; reflexivity. }
  destruct XF as (F1 & F2 & F3).
  split; [intros x; cbn [fst]; rewrite F2, A3; apply B2|]. split; [intros x; cbn [fst]; rewrite F3, A4; apply B3|].
  destruct A5 as [A5|A5]; [left; cbn [fst]; rewrite F1, A5; exact B1|right].
  exists u. split; [reflexivity|]. split; [reflexivity|]. split; [cbn [fst]; rewrite F1, A5, B1; reflexivity|].
  cbn [snd]. match goal with |- context [get_msg ?sx u] => destruct (get_msg sx u) end; eexists; (split; [left; reflexivity|reflexivity]).
Qed.

Lemma D_delivery s r c h qn qu u rest dtag noack :
  HI s -> get_queue s qn = Some qu -> q_ready qu = u :: rest ->
  DV s qn (Some u) noack r -> delivered s (fst r) c h (q_id qu) u dtag noack -> D s (fst r).
Proof.
  intros H Hq Er (V1 & V2 & V3) Dl. split; [eapply HB_delivered; exact Dl|].
  destruct (delivered_facts _ _ _ _ _ _ _ _ (hi_nodup _ H) Dl) as (F1 & _).
  constructor.
  - exact V1.
  - intros q qid _. apply V2.
  - intros q qid x Hin Hh _ _ Hs Hnd.
    split; [unfold store in *; rewrite (dv_add _ _ _ _ _ _ _ _ Dl), (dv_db _ _ _ _ _ _ _ _ Dl); exact Hs|].
    intros Hdel. destruct V3 as [V3|(u' & Eu & En & V3 & _)]; [rewrite V3 in Hdel; auto|]. inversion Eu; subst u' noack.
    rewrite V3 in Hdel. apply in_app_or in Hdel. destruct Hdel as [Hdel|[Hdel|[]]]; [auto|]. inversion Hdel; subst x q.
    rewrite (dv_nmv _ _ _ _ _ _ _ _ Dl) in Hin.
    pose proof (nmv_name_unique s qn qid (q_id qu) (hi_names _ H) Hin (get_queue_nmv s qn qu Hq)). subst qid.
    exact (noack_delivery_settles s (fst r) c h (q_id qu) u dtag (hi_nodup _ H) Dl Hh).
  - intros k Hk. destruct V3 as [V3|(u' & Eu & En & V3 & _)]; rewrite V3 in Hk; [auto|].
    apply in_app_or in Hk. destruct Hk as [Hk|[<-|[]]]; [auto|]. inversion Eu; subst.
    right. right. exists (q_id qu). cbn [fst]. unfold held. apply in_or_app. left. exact F1.
Qed.

Lemma D_consumer_turn cfg fx s c h tag : HI s -> D s (fst (consumer_turn cfg fx s c h tag)).
Proof.
  intros H. destruct (consumer_turn_view cfg fx s c h tag) as (qn & oh & na & V & Hw).
  destruct (consumer_turn_effect cfg fx s c h tag) as [[E Ev]|(ch & cm & qu & u & rest & dtag & Hch & Hfc & Hq & Er & Dl & _)].
  - apply D_FX; [exact E|]. destruct V as (V1 & V2 & [V3|(u & _ & _ & _ & e & He & _)]); [repeat split; auto|]. rewrite Ev in He. destruct He.
  - destruct (Hw ch cm qu Hch Hfc Hq) as (-> & -> & ->). rewrite Er in V. cbn [hd_error] in V. eapply D_delivery; eauto.
Qed.

Lemma D_get cfg fx s c h q noack : HI s -> D s (fst (fst (handle_method cfg fx s c h (MGet q noack)))).
Proof.
  intros H. pose proof (get_view cfg fx s c h q noack) as V.
  destruct (get_effect cfg fx s c h q noack) as [[E Ev]|(qu & u & rest & dtag & Hq & Er & _ & Dl & _)].
  - apply D_FX; [exact E|]. destruct V as (V1 & V2 & [V3|(u & _ & _ & _ & e & He & Hd)]); [repeat split; auto|]. rewrite (Ev e He) in Hd. discriminate.
  - rewrite Hq, Er in V. cbn [hd_error] in V. eapply D_delivery; eauto.
Qed.

(* ================================================================== *)
(* 3. FX = FR and XS together *)
Definition FX (s s' : state) : Prop := FR s s' /\ XS s s'.
Lemma FX_refl s : FX s s. Proof. split; [apply FR_refl|apply XS_refl]. Qed.
Lemma FX_trans s1 s2 s3 : FX s1 s2 -> FX s2 s3 -> FX s1 s3.
Proof. intros [A A'] [B B']. split; [eapply FR_trans; eauto|eapply XS_trans; eauto]. Qed.
Lemma FX_same s s' : conns s' = conns s -> queues s' = queues s -> next_uid s' = next_uid s -> next_qid s' = next_qid s ->
  st_add s' = st_add s -> st_db s' = st_db s -> st_del s' = st_del s -> heap s' = heap s -> FX s s'.
Proof. intros. split; [apply FR_same; auto|apply XS_same; auto]. Qed.
Lemma FX_set_chan s c h ch ch' : get_chan s c h = Some ch -> chk ch' = chk ch -> FX s (set_chan s c h ch').
Proof. intros A B. split; [eapply FR_set_chan; eauto|apply XS_set_chan]. Qed.
Lemma FX_upd_chan s c h f : (forall ch, chk (f ch) = chk ch) -> FX s (upd_chan s c h f).
Proof. intros A. split; [apply FR_upd_chan; auto|apply XS_upd_chan]. Qed.
Lemma FX_set_queue s qn qu qu' : get_queue s qn = Some qu -> qk qu' = qk qu -> q_durable qu' = q_durable qu -> FX s (set_queue s qn qu').
Proof. intros A B C. split; [eapply FR_set_queue; eauto|eapply XS_set_queue; eauto]. Qed.
Lemma FX_set_conn s c cn cn' : get_conn s c = Some cn -> cn_chans cn' = cn_chans cn -> FX s (s <| conns := aset N.eqb c cn' (conns s) |>).
Proof. intros A B. split; [eapply FR_set_conn; eauto|apply XS_set_conn]. Qed.
Lemma FX_set_stage s c st : FX s (set_stage s c st).
Proof. split; [apply FR_set_stage|apply XS_set_stage]. Qed.
Lemma FX_ensure_chan s c h : FX s (ensure_chan s c h).
Proof. split; [apply FR_ensure_chan|apply XS_ensure_chan]. Qed.
Lemma FX_wake_consumers cfg s c h : FX s (wake_consumers cfg s c h).
Proof. split; [apply FR_wake_consumers|apply XS_wake_consumers]. Qed.
Lemma FX_consumer_stop s c h tag : FX s (consumer_stop s c h tag).
Proof. split; [apply FR_consumer_stop|apply XS_consumer_stop]. Qed.
Lemma FX_add_confirm s c h t : FX s (add_confirm s c h t).
Proof. split; [apply FR_add_confirm|apply XS_add_confirm]. Qed.
Lemma FX_queue_loop_turn s qn : FX s (queue_loop_turn s qn).
Proof. split; [apply FR_queue_loop_turn|apply XS_queue_loop_turn]. Qed.
Lemma FX_send_error s c h e : FX s (fst (send_error s c h e)).
Proof. split; [apply FR_send_error|apply XS_send_error]. Qed.
Lemma FX_new_conn s c ch0 st :
  get_conn s c = None -> chk1 ch0 = [] ->
  FX s (s <| conns := aset N.eqb c {| cn_chans := [(0, ch0)]; cn_qos := qos0; cn_stage := st |} (conns s) |>).
Proof. intros A B. split; [apply FR_new_conn; auto|apply XS_set_conn]. Qed.
Lemma D_FX' s s' : FX s s' -> D s s'. Proof. intros [A B]. apply D_FX; auto. Qed.
Lemma J_FX' s s' : J s -> FX s s' -> J s'. Proof. intros Hj [A B]. eapply J_FX; eauto. Qed.

(* ================================================================== *)
(* 4. the steps that are not "held below" *)
Lemma persb_aset_other s u m x : x <> u -> persb (s <| heap := aset N.eqb u m (heap s) |>) x = persb s x.
Proof.
  intros Hne. unfold persb, get_msg. cbn [heap set]. rewrite (alookup_aset N.eqb Neqb_spec).
  destruct (x =? u) eqn:E; [apply N.eqb_eq in E; contradiction|reflexivity].
Qed.
Lemma persb_upd_msg_other s u f x : x <> u -> persb (upd_msg s u f) x = persb s x.
Proof. intros Hne. unfold upd_msg. destruct (get_msg s u); [apply persb_aset_other; exact Hne|reflexivity]. Qed.

(* basic.publish: a fresh id becomes the channel's current message *)
Lemma J_publish s c h ch ch' m :
  J s -> get_chan s c h = Some ch -> ch_unacked ch' = ch_unacked ch ->
  J (set_chan (s <| heap := aset N.eqb (next_uid s) m (heap s) |> <| next_uid := next_uid s + 1 |>) c h (ch' <| ch_cur := Some (next_uid s) |>)).
Proof.
  intros [H Hsc Hdf Htr] Hg Eu. pose proof (HI_publish s c h ch ch' m H Hg Eu) as H'. pose proof (GR_publish s c h ch ch' m Hg Eu) as [G _].
  set (s0 := s <| heap := aset N.eqb (next_uid s) m (heap s) |> <| next_uid := next_uid s + 1 |>) in *.
  assert (Hg0 : get_chan s0 c h = Some ch) by exact Hg.
  set (s' := set_chan s0 c h _) in *.
  destruct (next_set_chan s0 c h (ch' <| ch_cur := Some (next_uid s) |>)) as (N1 & N2 & N3 & N4 & NQ). fold s' in N1, N2, N3, N4, NQ.
  assert (Hh : forall qid x, cnt x (held s' qid) = cnt x (held s qid)).
  { intros qid x. pose proof (cnt_held_set_chan s0 c h ch (ch' <| ch_cur := Some (next_uid s) |>) Hg0 qid x) as Hc. fold s' in Hc.
    unfold uq in Hc. cbn [ch_unacked set] in Hc. rewrite Eu in Hc. rewrite (held_same s s0 qid) in Hc by reflexivity. lia. }
  assert (Ed : st_del s' = st_del s) by (unfold s'; rewrite st_del_set_chan; reflexivity).
  constructor; [exact H'| | |].
  3:{ intros u0 qn0 p Eg. destruct (Htr u0 qn0 p Eg) as (T1 & T2 & T3 & T4). rewrite N1. cbn [next_uid set s0]. split; [lia|].
      split; [intros Hx; apply (gr_cur _ _ G) in Hx; destruct Hx as [Hx|Hx]; [contradiction|lia]|].
      split; [rewrite N3; exact T3|]. unfold persb. rewrite (get_msg_same_heap s0 s') by apply heap_set_chan. fold (persb s0 u0).
      rewrite <- T4. apply (persb_aset_other s (next_uid s) m u0). lia. }
  - intros qn qid u Hin Hd Hp Hx.
    assert (Hx0 : In u (held s qid)) by (apply In_cnt; rewrite <- Hh; apply In_cnt; exact Hx).
    pose proof (hi_held_lt _ H qid u Hx0) as Hlt.
    rewrite (nmv_same_queues _ _ NQ) in Hin. change (nmv s0) with (nmv s) in Hin.
    assert (Hd0 : durb s qn = true) by (unfold durb in *; rewrite (get_queue_same_queues s s') in Hd; [exact Hd|exact NQ]).
    assert (Hp0 : persb s u = true).
    { unfold persb in Hp. rewrite (get_msg_same_heap s0 s') in Hp by apply heap_set_chan. fold (persb s0 u) in Hp.
      rewrite <- Hp. symmetry. apply (persb_aset_other s (next_uid s) m u). lia. }
    destruct (Hsc qn qid u Hin Hd0 Hp0 Hx0) as [K1 K2]. unfold store. rewrite N3, N4, Ed. auto.
  - intros k Hk. rewrite Ed in Hk. destruct (Hdf k Hk) as [K1 K2]. rewrite N1. cbn [next_uid set s0]. split; [lia|].
    intros Hx. apply (gr_cur _ _ G) in Hx. destruct Hx as [Hx|Hx]; [contradiction|lia].
Qed.

(* the header of the message being assembled sets its persistence bit: nobody holds that message yet *)
Lemma J_upd_msg_cur s u f : J s -> In u (all_cur s) -> J (upd_msg s u f).
Proof.
  intros [H Hsc Hdf Htr] Hu. pose proof (FR_upd_msg s u f) as E. pose proof (HI_FR _ _ H E) as H'.
  destruct (nexts_FR _ _ E) as (E1 & _ & ES & _ & _).
  assert (Ed : st_del (upd_msg s u f) = st_del s) by (unfold upd_msg; destruct (get_msg s u); reflexivity).
  constructor; [exact H'| | |].
  3:{ intros u0 qn0 p Eg. destruct (Htr u0 qn0 p Eg) as (T1 & T2 & T3 & T4). rewrite E1, (all_cur_FR _ _ E). split; [exact T1|]. split; [exact T2|].
      split; [destruct (nexts_FR _ _ E) as (_ & _ & _ & EA & _); rewrite EA; exact T3|].
      rewrite persb_upd_msg_other; [exact T4|]. intros ->. exact (T2 Hu). }
  - intros qn qid x Hin Hd Hp Hx. rewrite (held_FR _ _ qid E) in Hx. destruct E as (_ & Nm & _). rewrite Nm in Hin.
    assert (Hne : x <> u) by (intros ->; exact (hi_cur_fresh _ H u qid Hu Hx)).
    rewrite (persb_upd_msg_other s u f x Hne) in Hp.
    assert (Hd0 : durb s qn = true) by (unfold durb in *; rewrite (get_queue_same_queues s (upd_msg s u f)) in Hd; [exact Hd|apply queues_upd_msg]).
    rewrite ES, Ed. apply (Hsc qn qid x); auto.
  - intros k Hk. rewrite Ed in Hk. rewrite E1, (all_cur_FR _ _ E). apply Hdf. exact Hk.
Qed.

(* queue.declare of a new queue: a fresh object that holds nothing *)
Lemma J_declare s name qu' :
  J s -> q_id qu' = next_qid s -> q_ready qu' = [] -> J (set_queue (s <| next_qid ::= N.succ |>) name qu').
Proof.
  intros [H Hsc Hdf Htr] Eid Erd. pose proof (HI_declare s name qu' H Eid Erd (fun _ _ => I)) as H'.
  pose proof (GR_declare s name qu' Eid Erd) as [G _].
  set (s' := set_queue (s <| next_qid ::= N.succ |>) name qu') in *.
  assert (Hheld : forall qid x, In x (held s' qid) -> In x (held s qid)).
  { intros qid x Hx. destruct (gr_held _ _ G qid x Hx) as [K|[K|K]]; [exact K| |].
    - exfalso. apply (hi_cur_fresh _ H' x qid); [|exact Hx]. rewrite (all_cur_same s s') by reflexivity. exact K.
    - pose proof (hi_held_lt _ H' qid x Hx) as Hl. change (next_uid s') with (next_uid s) in Hl. lia. }
  assert (Hq' : get_queue s' name = Some qu') by (unfold s'; rewrite get_queue_set_queue, (proj2 (seqb_spec name name) eq_refl); reflexivity).
  constructor; [exact H'| | |].
  3:{ intros u0 qn0 p Eg. exact (Htr u0 qn0 p Eg). }
  - intros qn qid u Hin Hd Hp Hx. apply Hheld in Hx.
    destruct (string_dec qn name) as [->|Hne].
    + exfalso. pose proof (nmv_name_unique s' name qid (q_id qu') (hi_names _ H') Hin (get_queue_nmv s' name qu' Hq')) as Ei.
      pose proof (hi_held_qid _ H qid u Hx). lia.
    + assert (Hin0 : In (qn, qid) (nmv s)).
      { unfold nmv, s', set_queue in Hin. cbn [queues set] in Hin. apply in_map_iff in Hin. destruct Hin as (kq & E & Hk).
        apply in_aset in Hk. destruct Hk as [->|Hk]; [cbn [fst snd] in E; inversion E; subst; contradiction|].
        rewrite <- E. apply (in_map (fun kq : string * queue => (fst kq, q_id (snd kq)))). exact Hk. }
      assert (Hd0 : durb s qn = true).
      { unfold durb in *. unfold s' in Hd. rewrite get_queue_set_queue in Hd. destruct (seqb qn name) eqn:E; [apply seqb_spec in E; contradiction|exact Hd]. }
      exact (Hsc qn qid u Hin0 Hd0 Hp Hx).
  - intros k Hk. exact (Hdf k Hk).
Qed.

(* restart: every surviving queue holds exactly its stored keys, nothing is pending *)
Lemma persb_restart cfg s u : persb (fst (restart cfg s)) u = persb s u.
Proof.
  unfold persb, get_msg, restart. cbn [fst heap]. induction (heap s) as [|[k v] t IH]; cbn [map alookup fst snd]; [reflexivity|].
  destruct (u =? k); [reflexivity|exact IH].
Qed.
Lemma SC_restart cfg s : HI s -> SC (fst (restart cfg s)).
Proof.
  intros H.
  intros qn qid u Hin _ _ Hx. apply restart_held in Hx. destruct Hx as (qn2 & qu2 & Hkv & Hd2 & Ei & Hk).
    assert (Hin0 : In (qn, qid) (nmv s)).
    { unfold nmv, restart in Hin. cbn [fst queues] in Hin. rewrite map_map in Hin. cbn [fst snd] in Hin.
      apply in_map_iff in Hin. destruct Hin as (kq & E & Hf). apply filter_In in Hf. rewrite <- E.
      apply (in_map (fun kq : string * queue => (fst kq, q_id (snd kq)))). tauto. }
    assert (Hin2 : In (qn2, qid) (nmv s)) by (rewrite <- Ei; apply (in_map (fun kq : string * queue => (fst kq, q_id (snd kq))) _ _ Hkv)).
    pose proof (nmv_id_unique s qid qn qn2 (hi_qids_nodup _ H) Hin0 Hin2) as En. subst qn2.
    split; [|unfold restart; cbn [fst st_del]; intros []].
    unfold store, restart. cbn [fst st_add st_db app]. apply filter_In. split; [exact Hk|]. cbn [snd].
    apply existsb_exists. exists (qn, qu2). split; [apply filter_In; auto|]. cbn [fst]. apply seqb_spec. reflexivity.
Qed.
Lemma J_restart cfg s : J s -> J (fst (restart cfg s)).
Proof.
  intros [H _ _ Htr]. pose proof (HI_restart cfg s H) as H'. constructor; [exact H'| | |].
  3:{ intros u0 qn0 p Eg. destruct (Htr u0 qn0 p Eg) as (T1 & T2 & T3 & T4). split; [exact T1|]. split; [intros []|]. split; [intros []|].
      rewrite persb_restart. exact T4. }
  - apply SC_restart. exact H.
  - unfold restart. cbn [fst st_del]. intros k [].
Qed.

(* ---- publish: the copies of the message are placed ---- *)
Lemma queue_push_view s qn u :
  (forall x, persb (queue_push s qn u) x = persb s x) /\ (forall q, durb (queue_push s qn u) q = durb s q) /\
  incl (st_add s) (st_add (queue_push s qn u)) /\
  (queue_push s qn u = s \/ (durb s qn = true -> persb s u = true -> In (u, qn) (st_add (queue_push s qn u)))).
Proof.
  unfold queue_push. destruct (get_queue s qn) as [qu|] eqn:Eq; [|repeat split; auto; apply incl_refl].
  destruct (get_msg s u) as [m|] eqn:Em; [|repeat split; auto; apply incl_refl].
  destruct (negb (q_active qu)); [repeat split; auto; apply incl_refl|]. cbv zeta.
  set (s1 := s <| srv_total ::= Z.succ |> <| srv_ready ::= Z.succ |>).
  set (s2 := if q_durable qu && m_pers m then _ else _).
  assert (V2 : (forall x, persb s2 x = persb s x) /\ queues s2 = queues s /\ incl (st_add s) (st_add s2) /\
               (durb s qn = true -> persb s u = true -> In (u, qn) (st_add s2))).
  { subst s2. destruct (q_durable qu && m_pers m) eqn:Edp.
    - split; [reflexivity|]. split; [reflexivity|]. cbn [st_add set s1]. split; [apply incl_appl; apply incl_refl|].
      intros _ _. apply in_or_app. right. left. reflexivity.
    - assert (Hno : durb s qn = true -> persb s u = true -> False).
      { unfold durb, persb. rewrite Eq, Em. intros A B. rewrite A, B in Edp. discriminate. }
      destruct (m_conf m).
      + split; [intros x; rewrite persb_upd_msg by reflexivity; reflexivity|]. split; [rewrite queues_upd_msg; reflexivity|].
        assert (Ea : st_add (upd_msg s1 u (fun m0 => m0 <| m_actual ::= Z.succ |>)) = st_add s) by (unfold upd_msg; destruct (get_msg s1 u); reflexivity).
        rewrite Ea. split; [apply incl_refl|]. intros A B. destruct (Hno A B).
      + split; [reflexivity|]. split; [reflexivity|]. split; [apply incl_refl|]. intros A B. destruct (Hno A B). }
  destruct V2 as (V1 & VQ & V3 & V4). clearbody s2.
  split; [exact V1|]. split; [|split; [exact V3|right; exact V4]].
  intros q. unfold durb. rewrite get_queue_set_queue. destruct (seqb q qn) eqn:E.
  - apply seqb_spec in E. subst q. rewrite Eq. unfold call_consumers. destruct (q_active _); reflexivity.
  - rewrite (get_queue_same_queues _ _ _ VQ). reflexivity.
Qed.

Record PK2 (u : N) (s0 s : state) : Prop := {
  p2_pers : forall x, persb s x = persb s0 x;
  p2_dur : forall q, durb s q = durb s0 q;
  p2_add : incl (st_add s0) (st_add s);
  p2_new : forall qn qid, In (qn, qid) (nmv s) -> durb s qn = true -> persb s u = true -> In u (held s qid) ->
             In u (held s0 qid) \/ In (u, qn) (st_add s) }.

Lemma PK2_init u s0 : PK2 u s0 s0.
Proof. constructor; auto. apply incl_refl. Qed.
Lemma PK2_FX u s0 s s' : FX s s' -> PK2 u s0 s -> PK2 u s0 s'.
Proof.
  intros [E (X1 & X2 & X3)] P. destruct (nexts_FR _ _ E) as (_ & _ & _ & EA & _). constructor.
  - intros x. rewrite X2. apply P.
  - intros q. rewrite X3. apply P.
  - rewrite EA. apply P.
  - intros qn qid Hin Hd Hp Hx. rewrite (held_FR _ _ qid E) in Hx. destruct E as (_ & Nm & _). rewrite Nm in Hin. rewrite X3 in Hd. rewrite X2 in Hp.
    rewrite EA. apply (p2_new _ _ _ P); auto.
Qed.
Lemma PK2_push u s0 s qn : NoDup (qids s) -> PK2 u s0 s -> PK2 u s0 (queue_push s qn u).
Proof.
  intros Hn P. destruct (queue_push_view s qn u) as (V1 & V2 & V3 & V4).
  destruct (queue_push_effect s qn u) as [E|(qu & Hq & Hc & _ & _ & _ & _ & _ & _ & _ & Nm & _)]; [rewrite E; exact P|].
  constructor.
  - intros x. rewrite V1. apply P.
  - intros q. rewrite V2. apply P.
  - eapply incl_tran; [apply P|exact V3].
  - intros qn' qid Hin Hd Hp Hx. rewrite Nm in Hin. rewrite V2 in Hd. rewrite V1 in Hp. apply In_cnt in Hx. rewrite Hc in Hx.
    destruct (q_id qu =? qid) eqn:E.
    + apply N.eqb_eq in E. subst qid.
      pose proof (nmv_id_unique s (q_id qu) qn' qn Hn Hin (get_queue_nmv s qn qu Hq)) as En. subst qn'.
      destruct V4 as [V4|V4]; [|right; apply V4; auto].
      exfalso. specialize (Hc (q_id qu) u). rewrite V4, N.eqb_refl, cnt_one in Hc. destruct (N.eq_dec u u); [lia|congruence].
    + assert (Hx0 : In u (held s qid)) by (apply In_cnt; lia).
      destruct (p2_new _ _ _ P qn' qid Hin Hd Hp Hx0) as [K|K]; [left; exact K|right; apply V3; exact K].
Qed.

Lemma PK2_fold c h u s0 (H0 : HI s0) (Hu0 : In u (all_cur s0)) pers hm qs : forall s,
  NoDup qs -> PK u s0 qs s -> PK2 u s0 s -> PK2 u s0 (fold_left (fun s qn => push_one s c h u pers hm qn) qs s).
Proof.
  induction qs as [|qn t IH]; intros s Hn P P2; cbn [fold_left]; [exact P2|]. inversion Hn as [|? ? Hni Hn']; subst.
  apply IH; [exact Hn'|apply (PK_push_one c h u s0 H0 Hu0); assumption|].
  unfold push_one.
  assert (P1 : PK2 u s0 (queue_push s qn u)).
  { apply PK2_push; [|exact P2]. rewrite (pk_qids _ _ _ _ P). apply H0. }
  destruct (get_msg (queue_push s qn u) u) as [m|]; [|exact P1]. destruct (_ && _ && _); [|exact P1].
  eapply PK2_FX; [apply FX_add_confirm|exact P1].
Qed.

Lemma PK2_route fx c h u s0 : HI s0 -> In u (all_cur s0) -> PK2 u s0 (fst (route_and_push fx s0 c h u)).
Proof.
  intros H0 Hu0. unfold route_and_push. destruct (get_msg s0 u) as [m|]; [|apply PK2_init].
  destruct (alookup _ _ _) as [ex|]; cbn [fst].
  2:{ eapply PK2_FX; [apply FX_add_confirm|apply PK2_init]. }
  pose proof (matched_queues_nodup (negb (fx_direct_all fx)) ex (m_key m)) as Hnd.
  destruct (matched_queues _ _ _) as [|q1 qs] eqn:Em; cbn [fst].
  { eapply PK2_FX; [apply FX_add_confirm|apply PK2_init]. }
  apply (PK2_fold c h u s0 H0 Hu0); [exact Hnd| |].
  - destruct (_ && _)%bool; [|apply PK_init; auto].
    eapply PK_FR; [intros q; apply get_queue_same_queues; apply queues_upd_msg|apply FR_upd_msg|apply PK_init; auto].
  - destruct (_ && _)%bool; [|apply PK2_init].
    eapply PK2_FX; [split; [apply FR_upd_msg|apply XS_upd_msg; reflexivity]|apply PK2_init].
Qed.

Lemma J_finish_publish fx s c h u :
  fx_clear_current fx = true -> J s -> curat c h (Some u) s -> J (fst (finish_publish fx s c h u)).
Proof.
  intros Hfx [H Hsc Hdf Htr] Hcur. pose proof (HI_finish_publish fx s c h u Hfx H Hcur) as H'.
  destruct Hcur as (ch & Hg & Ecur). pose proof (In_cur_of_chan s c h ch u Hg Ecur) as Hu.
  unfold finish_publish in *. pose proof (PK_route c h u s H Hu fx) as P. pose proof (PK2_route fx c h u s H Hu) as P2.
  pose proof (route_keeps fx s c h u) as [RK1 RK2].
  destruct (route_and_push fx s c h u) as [s1 e1]. cbn [fst] in *. rewrite Hfx in *.
  set (s' := upd_chan s1 c h (fun ch => ch <| ch_cur := None |>)) in *.
  assert (B : HB s1 s') by (apply HB_upd_chan; [intros; apply le_ms_nil|intros; apply le_ms_refl]).
  assert (X : XS s1 s') by apply XS_upd_chan.
  assert (ES : st_add s' = st_add s1 /\ st_db s' = st_db s1 /\ next_uid s' = next_uid s1).
  { unfold s', upd_chan. destruct (get_chan s1 c h); [|auto]. repeat split; apply next_set_chan. }
  destruct ES as (EA & EB & EU). destruct X as (X1 & X2 & X3). destruct B as (B0 & _ & BS).
  constructor; [exact H'| | |].
  3:{ intros u0 qn0 p Eg. destruct (Htr u0 qn0 p Eg) as (T1 & T2 & T3 & T4). rewrite EU, (pk_uid _ _ _ _ P). split; [exact T1|].
      split; [intros Hx; apply T2; rewrite <- (pk_cur _ _ _ _ P); eapply le_ms_In; [apply (hb_cur _ _ B0)|exact Hx]|].
      split; [intros Hin; rewrite EA in Hin; apply (pk_add _ _ _ _ P) in Hin; destruct Hin as [Hin|Hin];
              [exact (T3 Hin)|cbn [fst] in Hin; subst u0; exact (T2 Hu)]|].
      rewrite X2, (p2_pers _ _ _ P2). exact T4. }
  - intros qn qid x Hin Hd Hp Hx.
    apply (sb_q _ _ BS) in Hin. rewrite X3 in Hd. rewrite X2 in Hp.
    assert (Hx1 : In x (held s1 qid)) by (eapply le_ms_In; [apply (hb_held _ _ B0)|exact Hx]).
    assert (Hold : In x (held s qid) -> In (x, qn) (store s') /\ ~ In (x, qn) (st_del s')).
    { intros Hx0. rewrite RK1 in Hin. rewrite (p2_dur _ _ _ P2) in Hd. rewrite (p2_pers _ _ _ P2) in Hp.
      destruct (Hsc qn qid x Hin Hd Hp Hx0) as [K1 K2]. rewrite X1, RK2. split; [|exact K2].
      unfold store in *. rewrite EA, EB, (pk_db _ _ _ _ P). apply in_app_or in K1. apply in_or_app.
      destruct K1 as [K1|K1]; [left; apply (p2_add _ _ _ P2); exact K1|right; exact K1]. }
    destruct (pk_held _ _ _ _ P qid x Hx1) as [Hx0|[-> _]]; [apply Hold; exact Hx0|].
    destruct (p2_new _ _ _ P2 qn qid Hin Hd Hp Hx1) as [Hx0|Ka]; [apply Hold; exact Hx0|].
    split; [unfold store; rewrite EA; apply in_or_app; left; exact Ka|].
    rewrite X1, RK2. intros Hdel. destruct (Hdf _ Hdel) as [_ K]. apply K. exact Hu.
  - intros k Hk. rewrite X1, RK2 in Hk. destruct (Hdf k Hk) as [K1 K2]. rewrite EU, (pk_uid _ _ _ _ P). split; [exact K1|].
    intros Hx. apply K2. rewrite <- (pk_cur _ _ _ _ P). eapply le_ms_In; [apply (hb_cur _ _ B0)|exact Hx].
Qed.

(* ================================================================== *)
(* 5. every handler, every label *)
Lemma purge_clean_ensure s c h q : purge_clean (ensure_chan s c h) q = purge_clean s q.
Proof.
  unfold purge_clean. rewrite (get_queue_same_queues _ _ _ (queues_ensure_chan s c h)).
  destruct (get_queue s q) as [qu|]; [|reflexivity]. apply (f_equal (orb (negb (q_durable qu)))).
  assert (EU : all_unacked (ensure_chan s c h) = all_unacked s) by (rewrite !all_unacked_all_ch; apply all_ch_ensure_chan; reflexivity).
  rewrite EU. clear EU. destruct (XS_ensure_chan s c h) as (_ & X2 & _).
  induction (all_unacked s) as [|e t IH]; cbn [forallb]; [reflexivity|]. rewrite IH, X2. reflexivity.
Qed.

Lemma J_handle_method cfg fx s c h m :
  CI s -> (forall q nw, m = MQPurge q nw -> purge_clean s q = true) -> J s -> J (fst (fst (handle_method cfg fx s c h m))).
Proof.
  intros Hci Hpc Hj. pose proof (j_hi _ Hj) as H.
  destruct m; try (eapply J_D; [exact Hj|apply D_get; exact H]; fail).
  all: unfold handle_method.
  all: destruct (get_chan s c h) as [ch|] eqn:Hch; [|exact Hj].
  all: unfold ok, refuse.
  - (* MChannelOpen *)
    destruct (ch_status ch); cbn [fst]; auto.
    + eapply J_FX'; [exact Hj|]. eapply FX_set_chan; [exact Hch|reflexivity].
    + eapply J_FX'; [exact Hj|]. eapply FX_set_chan; [exact Hch|reflexivity].
    + eapply J_D; [exact Hj|]. apply (D_set_chan s c h ch); [exact Hch| |].
      * destruct (fx_reopen_resets fx); [apply le_ms_nil|apply le_ms_refl].
      * intros qid. destruct (fx_reopen_resets fx); [apply le_ms_nil|apply le_ms_refl].
  - cbn [fst]. eapply J_D; [exact Hj|apply D_channel_close; auto].
  - cbn [fst]. destruct (fx_closeok_releases fx); [eapply J_D; [exact Hj|apply D_channel_close; auto]|].
    eapply J_FX'; [exact Hj|]. eapply FX_set_chan; [exact Hch|reflexivity].
  - cbn [fst]. destruct (Bool.eqb _ _); auto. destruct a; (eapply J_FX'; [exact Hj|]; eapply FX_set_chan; [exact Hch|reflexivity]).
  - destruct (extype_of type); [|exact Hj].
    repeat match goal with |- context [if ?b then _ else _] => destruct b end; cbn [fst]; auto.
    all: repeat match goal with |- context [match ?x with _ => _ end] => destruct x end; cbn [fst]; auto.
    all: try (eapply J_FX'; [exact Hj|apply FX_same; reflexivity]).
  - destruct (fx_not_impl fx); exact Hj.
  - (* MQDeclare *)
    destruct (seqb name ""); [exact Hj|].
    destruct (queue_found s name) as [qu|].
    + repeat match goal with |- context [if ?b then _ else _] => destruct b end; cbn [fst]; auto.
    + destruct passive; [destruct nowait; exact Hj|]. cbn [fst].
      match goal with |- J (@set _ _ _ _ _ ?s1) => apply (J_FX' s1); [|apply FX_same; reflexivity] end. apply J_declare; auto.
  - destruct (alookup _ _ _); [|exact Hj]. destruct (seqb ex ""); [exact Hj|].
    destruct (queue_found s q); [|exact Hj]. destruct (locked _ _); [exact Hj|]. destruct (bad_xmatch _); [exact Hj|]. destruct (extype_eqb _ ExTopic && bad_pattern _)%bool; [exact Hj|]. cbn [fst].
    eapply J_FX'; [exact Hj|apply FX_same; reflexivity].
  - destruct (alookup _ _ _); [|exact Hj]. destruct (queue_found s q); [|exact Hj]. destruct (locked _ _); [exact Hj|]. destruct (bad_xmatch _); [exact Hj|]. destruct (extype_eqb _ ExTopic && bad_pattern _)%bool; [exact Hj|]. cbn [fst].
    eapply J_FX'; [exact Hj|apply FX_same; reflexivity].
  - (* MQPurge *)
    destruct (queue_found s q) as [qu|] eqn:Eqf; [|exact Hj]. apply queue_found_get' in Eqf. destruct (locked _ _); [exact Hj|]. cbn [fst].
    eapply J_D; [exact Hj|]. apply (D_purge s q qu); auto. eapply Hpc. reflexivity.
  - (* MQDelete *)
    destruct (queue_found s q); [|exact Hj]. destruct (locked _ _); [exact Hj|].
    pose proof (D_vhost_delete_queue (negb (fx_delete_checks_first fx)) s q ifunused ifempty) as Hd.
    destruct (vhost_delete_queue _ s q ifunused ifempty) as [[s1 e1] r1]. cbn [fst] in *.
    destruct r1; cbn [fst]; (eapply J_D; [exact Hj|exact Hd]).
  - (* MQos *)
    cbn [fst]. eapply J_FX'; [exact Hj|]. eapply FX_trans; [|apply FX_wake_consumers].
    destruct (cfg_rabbit cfg); [destruct glob; (eapply FX_set_chan; [exact Hch|reflexivity])|].
    destruct glob; [|eapply FX_set_chan; [exact Hch|reflexivity]].
    destruct (get_conn s c) eqn:Ec; [|apply FX_refl]. eapply FX_set_conn; [exact Ec|reflexivity].
  - (* MPublish *)
    destruct imm; [exact Hj|]. destruct (alookup _ _ _); [|exact Hj].
    destruct (ch_confirm ch); cbn [fst]; (apply (J_publish s c h ch); [exact Hj|exact Hch|reflexivity]).
  - (* MConsume *)
    destruct (queue_found s q) as [qu|] eqn:Eqf; [|exact Hj]. apply queue_found_get' in Eqf.
    destruct (fx_excl_owner fx && locked qu c); [exact Hj|].
    destruct (find_consumer ch _); [exact Hj|].
    destruct (_ && _)%bool; cbn [fst].
    + eapply J_FX'; [exact Hj|]. eapply FX_set_queue; [exact Eqf|reflexivity|reflexivity].
    + eapply J_FX'; [exact Hj|].
      match goal with |- FX s (set_chan ?s3 c h ?ch') => assert (E3 : FX s s3 /\ conns s3 = conns s) end.
      { match goal with |- FX s (if ?b then @set _ _ _ _ _ ?s2 else _) /\ _ => assert (E2 : FX s s2 /\ conns s2 = conns s) end.
        { split; [|reflexivity]. eapply FX_trans; [|apply FX_same; reflexivity]. eapply FX_set_queue; [exact Eqf| |].
          - rewrite q_call_consumers. destruct excl; reflexivity.
          - unfold call_consumers. destruct excl; cbn; destruct (q_active qu); reflexivity. }
        destruct E2 as [E2 C2]. destruct (seqb tag ""%string); [split; [eapply FX_trans; [exact E2|apply FX_same; reflexivity]|exact C2]|split; [exact E2|exact C2]]. }
      destruct E3 as [E3 C3]. eapply FX_trans; [exact E3|]. eapply FX_set_chan; [rewrite (get_chan_same_conns _ _ _ _ C3); exact Hch|reflexivity].
  - (* MCancel *)
    destruct (find_consumer ch tag); [|exact Hj]. cbn [fst]. eapply J_D; [exact Hj|].
    eapply D_trans; [|apply D_upd_chan; [intros; apply le_ms_refl|intros ch0 qid; rewrite uq_orphan; apply le_ms_refl]].
    eapply D_trans; [|apply D_FX'; apply FX_upd_chan; reflexivity].
    apply D_FX'. apply FX_consumer_stop.
  - (* MAck *)
    pose proof (D_handle_ack cfg s c h tag mult Hci H) as Ha.
    destruct (handle_ack cfg s c h tag mult) as [s1 e1]. cbn [fst] in *. eapply J_D; eauto.
  - pose proof (D_handle_reject cfg s c h tag mult requeue 60 120 Hci H) as Ha.
    destruct (handle_reject cfg s c h tag mult requeue 60 120) as [s1 e1]. cbn [fst] in *. eapply J_D; eauto.
  - pose proof (D_handle_reject cfg s c h tag false requeue 60 90 Hci H) as Ha.
    destruct (handle_reject cfg s c h tag false requeue 60 90) as [s1 e1]. cbn [fst] in *. eapply J_D; eauto.
  - exact Hj.
  - cbn [fst]. eapply J_FX'; [exact Hj|]. eapply FX_set_chan; [exact Hch|reflexivity].
  - destruct (fx_not_impl fx); exact Hj.
  - exact Hj.
  - exact Hj.
  - destruct good; [cbn [fst]; eapply J_FX'; [exact Hj|apply FX_set_stage]|exact Hj].
  - destruct within; [cbn [fst]; eapply J_FX'; [exact Hj|apply FX_set_stage]|exact Hj].
  - destruct vhost_ok; [cbn [fst]; eapply J_FX'; [exact Hj|apply FX_set_stage]|exact Hj].
Qed.

Lemma J_conn_close cfg fx s c : CI s -> J s -> J (fst (conn_close cfg fx s c)).
Proof. intros Hci Hj. eapply J_D; [exact Hj|apply D_conn_close; [exact Hci|apply Hj]]. Qed.

Lemma J_apply_err s c h r : J (fst (fst r)) -> J (fst (apply_err s c h r)).
Proof.
  destruct r as [[s1 e1] [e|]]; cbn [fst]; auto.
  intros Hj. unfold apply_err. pose proof (FX_send_error s1 c h e) as Hs.
  destruct (send_error s1 c h e) as [s2 e2]. cbn [fst] in *. eapply J_FX'; eauto.
Qed.

Lemma J_apply_err_st cfg fx opened s c h r :
  CI (fst (fst r)) -> J (fst (fst r)) -> J (fst (apply_err_st cfg fx opened s c h r)).
Proof.
  intros Hci Hj. unfold apply_err_st. destruct opened; [apply J_apply_err; auto|].
  destruct (snd r) as [[| ]|]; try (apply J_apply_err; auto).
  pose proof (J_apply_err s c h r Hj) as H1. pose proof (CI_apply_err s c h r Hci) as C1.
  destruct (apply_err s c h r) as [s1 e1]. cbn [fst] in *.
  pose proof (J_conn_close cfg fx s1 c C1 H1) as H2. destruct (conn_close cfg fx s1 c) as [s2 e2]. exact H2.
Qed.

(* the excluded step: queue.purge of a durable queue while a persistent delivery of it is unsettled *)
Definition purge_ok (s : state) (l : label) : bool :=
  match l with LMethod _ _ (MQPurge q _) => purge_clean s q | _ => true end.

Theorem J_step cfg fx s l :
  fx_clear_current fx = true -> CI s -> purge_ok s l = true -> J s -> J (fst (step cfg fx s l)).
Proof.
  intros Hfx Hci Hpo Hj. pose proof (j_hi _ Hj) as H. destruct l; cbn [step].
  - (* LConnect *)
    destruct (get_conn s c) eqn:Ec; cbn [fst]; auto. eapply J_FX'; [exact Hj|]. apply FX_new_conn; [exact Ec|reflexivity].
  - (* LMethod *)
    destruct (get_conn s c) as [cn0|]; [|exact Hj].
    destruct (negb _ && negb _)%bool; [apply J_conn_close; auto|].
    assert (H0 : J (ensure_chan s c h)) by (eapply J_FX'; [exact Hj|apply FX_ensure_chan]).
    assert (C0 : CI (ensure_chan s c h)) by (apply CI_ensure_chan; auto).
    assert (Hp0 : forall q nw, m = MQPurge q nw -> purge_clean (ensure_chan s c h) q = true).
    { intros q nw ->. rewrite purge_clean_ensure. exact Hpo. }
    destruct m.
    all: try (repeat match goal with |- context [if ?b then _ else _] => destruct b end;
              first [ exact H0
                    | apply J_apply_err; first [ apply J_handle_method; auto | exact H0 ]
                    | apply J_apply_err_st; first [ apply CI_handle_method; auto | exact C0 | apply J_handle_method; auto | exact H0 ] ]).
    + destruct (fx_stage fx && negb (h =? 0)); [apply J_apply_err; exact H0|].
      pose proof (J_conn_close cfg fx _ c C0 H0) as Hc.
      destruct (conn_close cfg fx (ensure_chan s c h) c) as [s1 e1]. exact Hc.
    + destruct (fx_stage fx && negb (h =? 0)); [apply J_apply_err; exact H0|]. apply J_conn_close; auto.
  - (* LHeader *)
    destruct (get_conn s c) as [cn0|]; [|exact Hj].
    destruct (negb _ && negb _)%bool; [apply J_conn_close; auto|].
    assert (H0 : J (ensure_chan s c h)) by (eapply J_FX'; [exact Hj|apply FX_ensure_chan]).
    assert (C0 : CI (ensure_chan s c h)) by (apply CI_ensure_chan; auto).
    destruct (get_chan _ c h) as [ch|] eqn:Ech; [|exact H0].
    destruct (_ && _)%bool; [exact H0|].
    destruct (ch_cur ch) as [u|] eqn:Ecur; [|apply J_apply_err_st; auto].
    destruct (get_msg _ u) as [m|]; [|exact H0].
    destruct (m_has_header m); [apply J_apply_err_st; auto|].
    assert (H1 : forall f, J (upd_msg (ensure_chan s c h) u f)).
    { intros f. apply J_upd_msg_cur; [exact H0|]. eapply In_cur_of_chan; eauto. }
    destruct (_ && _)%bool; [|apply H1].
    apply J_finish_publish; [exact Hfx|apply H1|]. eapply curat_same_conns; [apply conns_upd_msg|]. exists ch. auto.
  - (* LBody *)
    destruct (get_conn s c) as [cn0|]; [|exact Hj].
    destruct (negb _ && negb _)%bool; [apply J_conn_close; auto|].
    assert (H0 : J (ensure_chan s c h)) by (eapply J_FX'; [exact Hj|apply FX_ensure_chan]).
    assert (C0 : CI (ensure_chan s c h)) by (apply CI_ensure_chan; auto).
    destruct (get_chan _ c h) as [ch|] eqn:Ech; [|exact H0].
    destruct (_ && _)%bool; [exact H0|].
    destruct (ch_cur ch) as [u|] eqn:Ecur; [|apply J_apply_err_st; auto].
    destruct (get_msg _ u) as [m|]; [|exact H0].
    destruct (negb (m_has_header m)); [apply J_apply_err_st; auto|].
    destruct (_ <? _).
    { apply J_apply_err_st; cbn [fst].
      - apply allch_upd_chan; auto.
      - eapply J_D; [exact H0|]. apply D_upd_chan; [intros; apply le_ms_nil|intros; apply le_ms_refl]. }
    assert (H1 : forall f, J (upd_msg (ensure_chan s c h) u f)).
    { intros f. apply J_upd_msg_cur; [exact H0|]. eapply In_cur_of_chan; eauto. }
    destruct (_ <? _); [apply H1|].
    apply J_finish_publish; [exact Hfx|apply H1|]. eapply curat_same_conns; [apply conns_upd_msg|]. exists ch. auto.
  - (* LConsumerTurn *) eapply J_D; [exact Hj|apply D_consumer_turn; exact H].
  - (* LQueueLoop *) cbn [fst]. eapply J_FX'; [exact Hj|apply FX_queue_loop_turn].
  - (* LAutoDelete *)
    destruct (autodel s) as [|qn rest]; [exact Hj|].
    assert (H0 : J (s <| autodel := rest |>)) by (eapply J_FX'; [exact Hj|apply FX_same; reflexivity]).
    destruct (get_queue _ qn) as [qu0|]; [|exact H0]. destruct (q_autodel qu0); [|exact H0].
    pose proof (D_vhost_delete_queue (negb (fx_delete_checks_first fx)) (s <| autodel := rest |>) qn true false) as Hd.
    destruct (vhost_delete_queue _ (s <| autodel := rest |>) qn true false) as [[s1 e1] r1]. cbn [fst] in *. eapply J_D; eauto.
  - (* LPersistTick *) eapply J_D; [exact Hj|exact (D_persist_tick cfg fx s)].
  - (* LRelay *)
    destruct (relay s) as [|u rest]; [exact Hj|].
    assert (H0 : J (s <| relay := rest |>)) by (eapply J_FX'; [exact Hj|apply FX_same; reflexivity]).
    destruct (get_msg _ u) as [m|]; cbn [fst]; auto.
    destruct (m_conf m) as [[[? ?] ?]|]; cbn [fst]; auto. eapply J_FX'; [exact H0|apply FX_add_confirm].
  - (* LConfirmTick *)
    destruct (get_chan s c h) as [ch|] eqn:Ech; [|exact Hj]. destruct (negb _); [exact Hj|].
    destruct (ch_status ch); cbn [fst]; (eapply J_FX'; [exact Hj|]; eapply FX_set_chan; [exact Ech|reflexivity]).
  - (* LSocketLoss *)
    pose proof (J_conn_close cfg fx s c Hci Hj) as Hc. destruct (conn_close cfg fx s c) as [s1 e1]. exact Hc.
  - (* LAccept *)
    destruct (get_conn s c) eqn:Ec; cbn [fst]; auto. eapply J_FX'; [exact Hj|]. apply FX_new_conn; [exact Ec|reflexivity].
  - (* LBadMethod *)
    destruct (get_conn s c) as [cn0|]; [|exact Hj].
    destruct (negb _ && negb _)%bool; [apply J_conn_close; auto|].
    apply J_apply_err_st; cbn [fst]; [apply CI_ensure_chan; auto|eapply J_FX'; [exact Hj|apply FX_ensure_chan]].
  - (* LHeartbeat *)
    destruct (get_conn s c); [|exact Hj]. destruct (h =? 0); [exact Hj|apply J_conn_close; auto].
  - (* LRestart *) apply J_restart. exact Hj.
Qed.
End Tracked.

(* ================================================================== *)
(* 6. whole histories *)
(* no queue.purge of a durable queue while a persistent delivery of that queue is unsettled (F41-unsettled), along a run *)
Fixpoint no_purge_while_unsettled (cfg : config) (fx : fixes) (s : state) (ls : list label) : bool :=
  match ls with
  | [] => true
  | l :: t => purge_ok s l && no_purge_while_unsettled cfg fx (fst (step cfg fx s l)) t
  end.

Lemma run_cons' cfg fx s l t : fst (run cfg fx s (l :: t)) = fst (run cfg fx (fst (step cfg fx s l)) t).
Proof. cbn [run]. destruct (step cfg fx s l) as [s1 e1]. cbn [fst]. destruct (run cfg fx s1 t) as [s2 e2]. reflexivity. Qed.

Lemma npwu_app cfg fx l1 : forall s l2,
  no_purge_while_unsettled cfg fx s (l1 ++ l2) =
  no_purge_while_unsettled cfg fx s l1 && no_purge_while_unsettled cfg fx (fst (run cfg fx s l1)) l2.
Proof.
  induction l1 as [|l t IH]; intros s l2; [reflexivity|]. cbn [app no_purge_while_unsettled]. rewrite IH, run_cons', andb_assoc. reflexivity.
Qed.

Theorem J_run g cfg fx ls : forall s,
  fx_clear_current fx = true -> CI s -> no_purge_while_unsettled cfg fx s ls = true -> J g s -> J g (fst (run cfg fx s ls)).
Proof.
  induction ls as [|l t IH]; intros s Hfx Hci Hnp Hj; [exact Hj|]. cbn [no_purge_while_unsettled] in Hnp. apply andb_prop in Hnp. destruct Hnp as [Hp1 Hp2].
  rewrite run_cons'. apply IH; auto; [apply CI_step; exact Hci|apply J_step; auto].
Qed.

Lemma J_init cfg : J None (init cfg).
Proof.
  constructor; [apply HI_init| | |].
  - intros qn qid u Hin. destruct Hin.
  - intros k Hk. destruct Hk.
  - intros u qn p E. discriminate.
Qed.

Theorem J_reachable cfg fx ls :
  fx_clear_current fx = true -> no_purge_while_unsettled cfg fx (init cfg) ls = true -> J None (fst (run cfg fx (init cfg) ls)).
Proof. intros Hfx Hnp. apply J_run; auto; [apply CI_init|apply J_init]. Qed.

(* the invariant in plain terms *)
Definition store_complete (s : state) : Prop :=
  forall qn qu u m, get_queue s qn = Some qu -> q_durable qu = true -> get_msg s u = Some m -> m_pers m = true ->
    In u (held s (q_id qu)) ->
    (In (u, qn) (st_db s) \/ In (u, qn) (st_add s)) /\ ~ In (u, qn) (st_del s).

Lemma SC_store_complete s : SC s -> store_complete s.
Proof.
  intros Hsc qn qu u m Hq Hd Hm Hp Hx.
  destruct (Hsc qn (q_id qu) u (get_queue_nmv s qn qu Hq)) as [K1 K2]; auto.
  - unfold durb. rewrite Hq. exact Hd.
  - unfold persb. rewrite Hm. exact Hp.
  - split; [|exact K2]. unfold store in K1. apply in_app_or in K1. tauto.
Qed.

Lemma store_complete_SC s : NoDup (map fst (nmv s)) -> store_complete s -> SC s.
Proof.
  intros Hn Hsc qn qid u Hin Hd Hp Hx. unfold durb in Hd. destruct (get_queue s qn) as [qu|] eqn:Hq; [|discriminate].
  unfold persb in Hp. destruct (get_msg s u) as [m|] eqn:Hm; [|discriminate].
  pose proof (nmv_name_unique s qn qid (q_id qu) Hn Hin (get_queue_nmv s qn qu Hq)) as Ei. subst qid.
  destruct (Hsc qn qu u m Hq Hd Hm Hp Hx) as [K1 K2]. split; [|exact K2]. unfold store. apply in_or_app. tauto.
Qed.

(* the store completeness invariant: initially, along every label, after a restart (from ANY state satisfying HI), in every
   reachable state *)
Theorem store_complete_init cfg : store_complete (init cfg).
Proof. apply SC_store_complete. apply J_init. Qed.

Theorem store_complete_step cfg fx s l :
  fx_clear_current fx = true -> CI s -> HI s -> DF s -> store_complete s -> purge_ok s l = true ->
  store_complete (fst (step cfg fx s l)) /\ DF (fst (step cfg fx s l)).
Proof.
  intros Hfx Hci H Hdf Hsc Hpo.
  assert (Hj : J None s) by (constructor; auto; [apply store_complete_SC; [apply H|exact Hsc]|intros u qn p E; discriminate]).
  pose proof (J_step None cfg fx s l Hfx Hci Hpo Hj) as Hj'. split; [apply SC_store_complete|]; apply Hj'.
Qed.

Theorem store_complete_restart cfg s : HI s -> store_complete (fst (restart cfg s)).
Proof. intros H. apply SC_store_complete. apply SC_restart. exact H. Qed.

Theorem store_complete_reachable cfg fx ls :
  fx_clear_current fx = true -> no_purge_while_unsettled cfg fx (init cfg) ls = true ->
  store_complete (fst (run cfg fx (init cfg) ls)).
Proof. intros Hfx Hnp. apply SC_store_complete. apply (J_reachable cfg fx ls Hfx Hnp). Qed.

(* ---- a key that is flushed stays until the message is settled or purged ---- *)
Lemma J_track s u qn p qid0 :
  J None s -> In u (held s qid0) -> ~ In (u, qn) (st_add s) -> persb s u = p -> J (Some (u, qn, p)) s.
Proof.
  intros [H Hsc Hdf _] Hx Hna Hp. constructor; auto. intros u' qn' p' E. inversion E; subst u' qn' p'.
  split; [apply (hi_held_lt _ H qid0); exact Hx|]. split; [intros Hc; exact (hi_cur_fresh _ H u qid0 Hc Hx)|]. split; [exact Hna|exact Hp].
Qed.

Lemma J_tracked_stored g s u qn qu :
  J g s -> g = Some (u, qn, true) -> get_queue s qn = Some qu -> q_durable qu = true -> In u (held s (q_id qu)) ->
  In (u, qn) (st_db s) /\ ~ In (u, qn) (st_add s) /\ ~ In (u, qn) (st_del s).
Proof.
  intros [H Hsc Hdf Htr] Eg Hq Hd Hx. destruct (Htr u qn true Eg) as (_ & _ & T3 & T4).
  destruct (Hsc qn (q_id qu) u (get_queue_nmv s qn qu Hq)) as [K1 K2]; auto.
  - unfold durb. rewrite Hq. exact Hd.
  - unfold store in K1. apply in_app_or in K1. destruct K1 as [K1|K1]; [contradiction|]. auto.
Qed.

Theorem stored_stays cfg fx s l qn qu u m :
  fx_clear_current fx = true -> CI s -> J None s -> purge_ok s l = true ->
  get_queue s qn = Some qu -> get_msg s u = Some m -> m_pers m = true ->
  In (u, qn) (st_db s) -> In u (held s (q_id qu)) ->
  let s' := fst (step cfg fx s l) in
  forall qu', get_queue s' qn = Some qu' -> q_durable qu' = true -> In u (held s' (q_id qu')) ->
    In (u, qn) (st_db s') /\ ~ In (u, qn) (st_add s') /\ ~ In (u, qn) (st_del s').
Proof.
  intros Hfx Hci Hj Hpo Hq Hm Hp Hdb Hx s' qu' Hq' Hd' Hx'.
  assert (Hjt : J (Some (u, qn, true)) s).
  { apply (J_track s u qn true (q_id qu)); auto; [apply (hi_db_add _ (j_hi _ _ Hj)); exact Hdb|unfold persb; rewrite Hm; exact Hp]. }
  pose proof (J_step _ cfg fx s l Hfx Hci Hpo Hjt) as Hj'. fold s' in Hj'.
  exact (J_tracked_stored _ s' u qn qu' Hj' eq_refl Hq' Hd' Hx').
Qed.

(* ---- after a kill ---- *)
Lemma restart_brings_back cfg fx s u qn qu :
  HI s -> get_queue s qn = Some qu -> q_durable qu = true -> In (u, qn) (st_db s) ->
  let s3 := fst (step cfg fx s LRestart) in
  exists qu', get_queue s3 qn = Some qu' /\ q_id qu' = q_id qu /\ q_durable qu' = true /\
    In u (q_ready qu') /\ NoDup (q_ready qu') /\ StronglySorted N.le (q_ready qu') /\
    In u (held s3 (q_id qu)) /\ NoDup (held s3 (q_id qu)) /\ In (u, qn) (st_db s3) /\ st_add s3 = [] /\ st_del s3 = [].
Proof.
  intros H Hq Hd Hk. cbn [step]. pose proof (HI_restart cfg s H) as H'.
  assert (Hnd : NoDup (map fst (queues s))) by (rewrite <- names_nmv; apply H).
  pose proof (restart_queues cfg s qn Hnd) as Eq. rewrite Hq, Hd in Eq.
  destruct (restart_messages s qn) as [Pm Ps].
  eexists. split; [exact Eq|]. cbn [q_id q_durable q_ready set new_queue].
  split; [reflexivity|]. split; [reflexivity|].
  assert (Hin : In u (stored_of s qn)).
  { apply (Permutation_in _ (Permutation_sym Pm)). apply in_map_iff. exists (u, qn). split; [reflexivity|]. apply filter_In. split; [exact Hk|].
    cbn [snd]. apply seqb_spec. reflexivity. }
  split; [exact Hin|]. split; [eapply Permutation_NoDup; [apply Permutation_sym; exact Pm|apply NoDup_stored; apply H]|]. split; [exact Ps|].
  split; [apply restart_held; exists qn, qu; split; [apply (alookup_in seqb seqb_spec); exact Hq|auto]|].
  split; [apply H'|]. split; [|split; reflexivity].
  unfold restart. cbn [fst st_db]. apply filter_In. split; [exact Hk|]. cbn [snd]. apply existsb_exists. exists (qn, qu).
  split; [apply filter_In; split; [apply (alookup_in seqb seqb_spec); exact Hq|exact Hd]|]. cbn [fst]. apply seqb_spec. reflexivity.
Qed.

(* ---- confirmed means stored ---- *)
Lemma pending_zero_not_add s u qn : BrokerConfirm.pending s u = 0%nat -> ~ In (u, qn) (st_add s).
Proof.
  unfold BrokerConfirm.pending. intros E Hin.
  assert (Hf : In (u, qn) (filter (fun k : N * string => fst k =? u) (st_add s))) by (apply filter_In; split; [exact Hin|apply N.eqb_refl]).
  destruct (filter _ (st_add s)); [destruct Hf|discriminate E].
Qed.

(* when the broker writes basic.ack t on (c,h): the message carrying the number has, in every durable queue that (still)
   holds it, its key in the FLUSHED store - not pending, no delete pending *)
Theorem confirmed_is_stored cfg fx ls l c h t b :
  fx_clear_current fx = true -> BrokerConfirmHist.fresh_along cfg fx (init cfg) ls ->
  no_purge_while_unsettled cfg fx (init cfg) ls = true ->
  let s := fst (run cfg fx (init cfg) ls) in
  In (c, h, SAck t b) (snd (step cfg fx s l)) ->
  l = LConfirmTick c h /\
  exists ch u m, get_chan s c h = Some ch /\ get_msg s u = Some m /\ m_conf m = Some (c, h, t) /\ m_inst m = ch_inst ch /\
    (forall qn, ~ In (u, qn) (st_add s)) /\
    forall qn qu, get_queue s qn = Some qu -> q_durable qu = true -> m_pers m = true -> In u (held s (q_id qu)) ->
      In (u, qn) (st_db s) /\ ~ In (u, qn) (st_del s).
Proof.
  intros Hfx Hfr Hnp s Hin.
  destruct (BrokerConfirmHist.confirm_never_early cfg fx ls l c h t b Hfx Hfr Hin) as (El & ch & u & m & Hg & _ & Hh & Hc & Hi & _ & Hpz).
  fold s in Hg, Hh, Hpz. split; [exact El|]. exists ch, u, m.
  destruct (BrokerConfirmHist.UW_run cfg fx ls (init cfg) Hfx (BrokerConfirmHist.UW_init cfg) Hfr) as [Hu _]. fold s in Hu.
  pose proof (BrokerConfirmHist.keys_lookup s u m (BrokerConfirmHist.un_keys _ Hu) Hh) as Hm.
  split; [exact Hg|]. split; [exact Hm|]. split; [exact Hc|]. split; [exact Hi|].
  split; [intros qn; apply pending_zero_not_add; exact Hpz|].
  intros qn qu Hq Hd Hp Hx. pose proof (store_complete_reachable cfg fx ls Hfx Hnp qn qu u m Hq Hd Hm Hp Hx) as [[K|K] K2]; [auto|].
  exfalso. exact (pending_zero_not_add s u qn Hpz K).
Qed.

(* ---- survives a kill at any later instant ---- *)
(* s1: any reachable state in which message u is held by some queue object and has no add pending for queue name qn (e.g.
   the state in which its basic.ack is written).  Whatever happens next (ls2: any labels, restarts and kills included),
   if the durable queue object named qn holds u at the end (it was not settled, purged, its queue not deleted) then the key
   is flushed, and a kill at that instant brings u back: once, in ascending id position *)
Theorem flushed_survives_kill cfg fx ls1 ls2 u qid0 qn :
  fx_clear_current fx = true ->
  no_purge_while_unsettled cfg fx (init cfg) (ls1 ++ ls2) = true ->
  let s1 := fst (run cfg fx (init cfg) ls1) in
  In u (held s1 qid0) -> ~ In (u, qn) (st_add s1) -> persb s1 u = true ->
  let s2 := fst (run cfg fx s1 ls2) in
  forall qu, get_queue s2 qn = Some qu -> q_durable qu = true -> In u (held s2 (q_id qu)) ->
    (In (u, qn) (st_db s2) /\ ~ In (u, qn) (st_add s2) /\ ~ In (u, qn) (st_del s2)) /\
    let s3 := fst (step cfg fx s2 LRestart) in
    exists qu', get_queue s3 qn = Some qu' /\ q_id qu' = q_id qu /\ q_durable qu' = true /\
      In u (q_ready qu') /\ NoDup (q_ready qu') /\ StronglySorted N.le (q_ready qu') /\
      In u (held s3 (q_id qu)) /\ NoDup (held s3 (q_id qu)) /\ In (u, qn) (st_db s3) /\ st_add s3 = [] /\ st_del s3 = [].
Proof.
  intros Hfx Hnp s1 Hx1 Hna Hp s2 qu Hq Hd Hx2.
  rewrite npwu_app in Hnp. apply andb_prop in Hnp. destruct Hnp as [Hnp1 Hnp2]. fold s1 in Hnp2.
  pose proof (J_reachable cfg fx ls1 Hfx Hnp1) as Hj1. fold s1 in Hj1.
  pose proof (J_track s1 u qn true qid0 Hj1 Hx1 Hna Hp) as Hjt.
  assert (C1 : CI s1) by (apply CI_run; apply CI_init).
  pose proof (J_run _ cfg fx ls2 s1 Hfx C1 Hnp2 Hjt) as Hj2. fold s2 in Hj2.
  pose proof (J_tracked_stored _ s2 u qn qu Hj2 eq_refl Hq Hd Hx2) as K. split; [exact K|].
  exact (restart_brings_back cfg fx s2 u qn qu (j_hi _ _ Hj2) Hq Hd (proj1 K)).
Qed.

Theorem confirmed_survives_kill cfg fx ls1 ls2 l c h t b :
  fx_clear_current fx = true -> BrokerConfirmHist.fresh_along cfg fx (init cfg) ls1 ->
  no_purge_while_unsettled cfg fx (init cfg) (ls1 ++ l :: ls2) = true ->
  let s1 := fst (run cfg fx (init cfg) ls1) in
  In (c, h, SAck t b) (snd (step cfg fx s1 l)) ->
  l = LConfirmTick c h /\
  exists ch u m, get_chan s1 c h = Some ch /\ get_msg s1 u = Some m /\ m_conf m = Some (c, h, t) /\ m_inst m = ch_inst ch /\
    forall qid0, In u (held s1 qid0) -> m_pers m = true ->
    let s2 := fst (run cfg fx s1 (l :: ls2)) in
    forall qn qu, get_queue s2 qn = Some qu -> q_durable qu = true -> In u (held s2 (q_id qu)) ->
      (In (u, qn) (st_db s2) /\ ~ In (u, qn) (st_add s2) /\ ~ In (u, qn) (st_del s2)) /\
      let s3 := fst (step cfg fx s2 LRestart) in
      exists qu', get_queue s3 qn = Some qu' /\ q_id qu' = q_id qu /\ q_durable qu' = true /\
        In u (q_ready qu') /\ NoDup (q_ready qu') /\ StronglySorted N.le (q_ready qu') /\
        In u (held s3 (q_id qu)) /\ NoDup (held s3 (q_id qu)) /\ In (u, qn) (st_db s3) /\ st_add s3 = [] /\ st_del s3 = [].
Proof.
  intros Hfx Hfr Hnp s1 Hin.
  assert (Hnp1 : no_purge_while_unsettled cfg fx (init cfg) ls1 = true) by (rewrite npwu_app in Hnp; apply andb_prop in Hnp; tauto).
  destruct (confirmed_is_stored cfg fx ls1 l c h t b Hfx Hfr Hnp1 Hin) as (El & ch & u & m & Hg & Hm & Hc & Hi & Hna & _).
  fold s1 in Hg, Hm, Hna. split; [exact El|]. exists ch, u, m. split; [exact Hg|]. split; [exact Hm|]. split; [exact Hc|]. split; [exact Hi|].
  intros qid0 Hx1 Hp s2 qn qu Hq Hd Hx2.
  apply (flushed_survives_kill cfg fx ls1 (l :: ls2) u qid0 qn Hfx Hnp Hx1 (Hna qn)); auto.
  unfold persb. fold s1. rewrite Hm. exact Hp.
Qed.

(* ================================================================== *)
(* 7. an executable check of store completeness, and example runs *)
Definition keyb (k : N * string) (l : list (N * string)) : bool :=
  existsb (fun d : N * string => (fst d =? fst k) && seqb (snd d) (snd k)) l.
Definition store_completeb (s : state) : bool :=
  forallb (fun kq : string * queue => negb (q_durable (snd kq)) ||
     forallb (fun u => negb (persb s u) ||
                       ((keyb (u, fst kq) (st_db s) || keyb (u, fst kq) (st_add s)) && negb (keyb (u, fst kq) (st_del s))))
             (held s (q_id (snd kq)))) (queues s).

Lemma store_completeb_ok s : store_completeb s = true -> store_complete s.
Proof.
  unfold store_completeb. intros Hb qn qu u m Hq Hd Hm Hp Hx. rewrite forallb_forall in Hb.
  specialize (Hb (qn, qu) (alookup_in seqb seqb_spec _ _ _ Hq)). cbn [fst snd] in Hb. rewrite Hd in Hb. cbn [negb orb] in Hb.
  rewrite forallb_forall in Hb. specialize (Hb u Hx). unfold persb in Hb. rewrite Hm, Hp in Hb. cbn [negb orb] in Hb.
  apply andb_prop in Hb. destruct Hb as [Hb1 Hb2]. apply Bool.negb_true_iff in Hb2. apply Bool.orb_prop in Hb1. unfold keyb in *. split.
  - destruct Hb1 as [Hb1|Hb1]; apply kin_spec in Hb1; auto.
  - intros Hdel. apply kin_spec in Hdel. congruence.
Qed.

Definition ex_cfg : config := {| cfg_rabbit := true; cfg_rollback := true; cfg_release_first := false |}.
Definition ex_pub (c h : N) (ex key : string) (k : N) (pers : bool) : list label :=
  [LMethod c h (MPublish ex key false false); LHeader c h k 3 pers; LBody c h 3].
(* connection 1, channel 1 in confirm mode; durable queues d1 d2 and transient queue t1 bound to amq.fanout *)
Definition ex_setup : list label :=
  [LConnect 1; LMethod 1 1 MChannelOpen; LMethod 1 1 (MConfirmSelect false);
   LMethod 1 1 (MQDeclare "d1" true false false false false); LMethod 1 1 (MQDeclare "d2" true false false false false);
   LMethod 1 1 (MQDeclare "t1" false false false false false);
   LMethod 1 1 (MQBind "d1" "amq.fanout" "" [] false); LMethod 1 1 (MQBind "d2" "amq.fanout" "" [] false);
   LMethod 1 1 (MQBind "t1" "amq.fanout" "" [] false)].
(* the store tick, the relay of the completed confirmation, the channel's confirm tick *)
Definition ex_flush : list label := [LPersistTick; LRelay; LConfirmTick 1 1].
Definition ex_acks (ls : list label) : list event :=
  filter (fun e : event => match snd e with SAck _ _ => true | _ => false end) (snd (run ex_cfg all_fixed (init ex_cfg) ls)).
Definition ex_ready (s : state) (qn : string) : list N := match get_queue s qn with Some qu => q_ready qu | None => [] end.
Fixpoint store_complete_alongb (cfg : config) (fx : fixes) (s : state) (ls : list label) : bool :=
  store_completeb s && match ls with [] => true | l :: t => store_complete_alongb cfg fx (fst (step cfg fx s l)) t end.
