(* C06, the ledger: in every reachable state the count of a channel's prefetch window equals the number of its
   unsettled deliveries - as long as no channel holds 65535 of them (the uint16 counter wraps there: finding F32). *)
From Coq Require Import List String NArith ZArith Bool Lia.
From RecordUpdate Require Import RecordUpdate.
Import ListNotations.
From GMQ Require Import Broker.Model Proofs.BrokerFrames Proofs.BrokerTags Proofs.BrokerChanInv.
Open Scope N_scope.

(* window count = unsettled deliveries + k   (k = charges made / entries removed whose counterpart is still to come) *)
Definition ledger (k : N) (ch : channel) : Prop := cc (ch_qos ch) = N.of_nat (List.length (ch_unacked ch)) + k.
(* channel (c0,h0) is k ahead, every other channel is balanced *)
Definition LPoff (c0 h0 : N) (k : N) (c h : N) (ch : channel) : Prop :=
  if (c =? c0) && (h =? h0) then ledger k ch else ledger 0 ch.
Definition LP (c h : N) (ch : channel) : Prop := ledger 0 ch.
Notation LI := (allch LP).

Lemma LPoff_zero c0 h0 s : allch (LPoff c0 h0 0) s <-> LI s.
Proof.
  unfold allch, LPoff, LP. split; intros H c h ch Hg; specialize (H c h ch Hg); destruct ((c =? c0) && (h =? h0)); auto.
Qed.

(* an update that keeps the unsettled list and the window's count keeps every ledger *)
Lemma LPoff_keep c0 h0 k c h ch ch' :
  ch_unacked ch' = ch_unacked ch -> cc (ch_qos ch') = cc (ch_qos ch) -> LPoff c0 h0 k c h ch -> LPoff c0 h0 k c h ch'.
Proof. unfold LPoff, ledger. intros -> ->. auto. Qed.

Section Keep.
Variables (c0 h0 k : N).
Notation P := (LPoff c0 h0 k).

Ltac keepq := match goal with Hx : LPoff _ _ _ ?c ?h ?ch |- LPoff _ _ _ ?c ?h _ => apply (LPoff_keep _ _ _ c h ch); [cbn; reflexivity|cbn; reflexivity|exact Hx] end.

Lemma L_wake s c h tag : allch P s -> allch P (fst (wake_consumer s c h tag)).
Proof.
  intros H. unfold wake_consumer. destruct (get_chan s c h) as [ch|] eqn:E; auto.
  destruct (find_consumer ch tag) as [cm|]; auto. destruct (consume_msg cm) as [cm' b]. cbn [fst].
  pose proof (H _ _ _ E). apply allch_set_chan; [keepq|exact H].
Qed.

Lemma L_queue_remove_consumer s qn c h tag : allch P s -> allch P (queue_remove_consumer s qn c h tag).
Proof. intros H. same_conns. exact H. Qed.

Lemma L_consumer_stop s c h tag : allch P s -> allch P (consumer_stop s c h tag).
Proof.
  intros H. unfold consumer_stop. destruct (get_chan s c h) as [ch|] eqn:E; auto.
  destruct (find_consumer ch tag) as [cm|]; auto. pose proof (H _ _ _ E).
  destruct (c_status cm); auto; apply L_queue_remove_consumer; (apply allch_set_chan; [keepq|exact H]).
Qed.

Lemma L_wake_all s c h : allch P s -> allch P (wake_all_of_chan s c h).
Proof. intros H. unfold wake_all_of_chan. apply allch_upd_chan; auto. Qed.

Lemma L_wake_consumers cfg s c h : allch P s -> allch P (wake_consumers cfg s c h).
Proof.
  intros H. unfold wake_consumers. pose proof (L_wake_all s c h H) as H1.
  destruct (cfg_rabbit cfg); auto. destruct (get_conn _ c) as [cn|]; auto.
  apply fold_left_preserves; auto. intros s0 x H0. destruct (fst x =? h); auto. apply L_wake_all; auto.
Qed.

Lemma L_chan_ackmsg s u : allch P s -> allch P (chan_ackmsg s u).
Proof. intros H. unfold chan_ackmsg. destruct (origin_queue s u); repeat same_conns; auto. Qed.
Lemma L_chan_rejectmsg s u r : allch P s -> allch P (chan_rejectmsg s u r).
Proof. intros H. unfold chan_rejectmsg. destruct (origin_queue s u); [destruct r|]; repeat same_conns; auto. Qed.
End Keep.

(* moving channel (c0,h0) from offset k1 to offset k2 by an update of that channel *)
Lemma LPoff_shift s c0 h0 k1 k2 f :
  (forall ch, ledger k1 ch -> ledger k2 (f ch)) ->
  allch (LPoff c0 h0 k1) s -> allch (LPoff c0 h0 k2) (upd_chan s c0 h0 f).
Proof.
  intros Hf H. unfold upd_chan. destruct (get_chan s c0 h0) as [ch0|] eqn:E0.
  - intros c h ch Hg. rewrite get_chan_set_chan in Hg. pose proof (get_chan_conn _ _ _ _ E0) as Hc.
    destruct (get_conn s c0); [|congruence]. unfold LPoff. destruct ((c =? c0) && (h =? h0)) eqn:Eb.
    + inversion Hg; subst. apply Hf. pose proof (H _ _ _ E0) as H0. unfold LPoff in H0. rewrite !N.eqb_refl in H0. exact H0.
    + pose proof (H _ _ _ Hg) as H1. unfold LPoff in H1. rewrite Eb in H1. exact H1.
  - intros c h ch Hg. pose proof (H _ _ _ Hg) as H1. unfold LPoff in *. destruct ((c =? c0) && (h =? h0)) eqn:Eb; auto.
    apply andb_prop in Eb. destruct Eb as [E1 E2]. apply N.eqb_eq in E1, E2. subst. congruence.
Qed.

Lemma length_filter_one (l : list unacked) tag :
  NoDup (map u_tag l) -> (exists u, In u l /\ u_tag u = tag) ->
  S (List.length (filter (fun u => negb (u_tag u =? tag)) l)) = List.length l.
Proof.
  induction l as [|a t IH]; intros Hnd (u & Hin & Ht); [destruct Hin|].
  cbn in Hnd. inversion Hnd as [|? ? Hni Hnd']; subst. cbn [filter]. destruct (u_tag a =? u_tag u) eqn:E; cbn [negb].
  - cbn [List.length]. f_equal. apply N.eqb_eq in E.
    assert (Hall : forall x, In x t -> negb (u_tag x =? u_tag u) = true).
    { intros x Hx. apply Bool.negb_true_iff. apply N.eqb_neq. intros Ex. apply Hni. rewrite E, <- Ex. apply in_map. exact Hx. }
    clear -Hall. induction t as [|b r IHr]; cbn; auto. rewrite (Hall b (or_introl eq_refl)). cbn. f_equal. apply IHr. intros x Hx. apply Hall. right. exact Hx.
  - cbn [List.length]. f_equal. apply IH; auto. destruct Hin as [Hin|Hin]; [subst; rewrite N.eqb_refl in E; discriminate|]. eauto.
Qed.

(* removing the entry of one delivery puts the channel one ahead *)
Lemma L_del s c0 h0 k tag ch :
  get_chan s c0 h0 = Some ch -> NoDup (map u_tag (ch_unacked ch)) -> (exists u, In u (ch_unacked ch) /\ u_tag u = tag) ->
  allch (LPoff c0 h0 k) s -> allch (LPoff c0 h0 (k + 1)) (upd_chan s c0 h0 (fun ch => del_unacked ch tag)).
Proof.
  intros Ech Hnd Hin H. intros c h ch' Hg. unfold upd_chan in Hg. rewrite Ech in Hg. rewrite get_chan_set_chan in Hg.
  pose proof (get_chan_conn _ _ _ _ Ech) as Hc. destruct (get_conn s c0); [|congruence].
  unfold LPoff. destruct ((c =? c0) && (h =? h0)) eqn:Eb.
  - inversion Hg; subst. pose proof (H _ _ _ Ech) as H0. unfold LPoff in H0. rewrite !N.eqb_refl in H0. cbn in H0.
    unfold ledger in *. unfold del_unacked. cbn. pose proof (length_filter_one (ch_unacked ch) tag Hnd Hin) as Hl. lia.
  - pose proof (H _ _ _ Hg) as H1. unfold LPoff in H1. rewrite Eb in H1. exact H1.
Qed.

(* releasing the window takes the channel one back *)
Lemma L_dec cfg s c0 h0 k u : allch (LPoff c0 h0 (k + 1)) s -> allch (LPoff c0 h0 k) (dec_qos_and_consume_next cfg s c0 h0 u).
Proof.
  intros H. unfold dec_qos_and_consume_next. destruct (get_chan s c0 h0) as [ch|] eqn:Ech.
  2:{ intros c h ch' Hg. pose proof (H _ _ _ Hg) as H1. unfold LPoff in *. destruct ((c =? c0) && (h =? h0)) eqn:Eb; auto.
      apply andb_prop in Eb. destruct Eb as [E1 E2]. apply N.eqb_eq in E1, E2. subst. congruence. }
  apply L_wake_consumers.
  assert (Hs : allch (LPoff c0 h0 k) (upd_chan s c0 h0 (fun ch => ch <| ch_qos ::= fun w => qos_dec w (msg_size s (u_msg u) mod two32) |>))).
  { apply (LPoff_shift s c0 h0 (k + 1) k); auto. intros ch1 Hl. unfold ledger in *. cbn. rewrite Hl.
    destruct (N.of_nat (List.length (ch_unacked ch1)) + (k + 1) <? 1) eqn:E; [apply N.ltb_lt in E; lia|lia]. }
  destruct (find_consumer ch (u_ctag u)).
  - destruct (cfg_rabbit cfg).
    + apply allch_upd_chan; auto.
    + destruct (get_conn _ c0) eqn:Ec; auto. eapply allch_set_conn_qos; eauto.
  - destruct (get_conn _ c0) eqn:Ec; auto. eapply allch_set_conn_qos; eauto.
Qed.

(* ---- ack / nack / reject: entries leave, then the window is released once per entry ---- *)
Lemma U_some s c h ch : get_chan s c h = Some ch -> U s c h = ch_unacked ch.
Proof. unfold U. intros ->. reflexivity. Qed.

Section Settle.
Variables (c0 h0 : N).
(* g: remove the entry of u, then ack / reject the message (the latter touches no channel's list or window) *)
Variable g : state -> unacked -> state.
Hypothesis g_eq : forall s u, exists s1, s1 = upd_chan s c0 h0 (fun ch => del_unacked ch (u_tag u)) /\
  (forall k, allch (LPoff c0 h0 k) s1 -> allch (LPoff c0 h0 k) (g s u)) /\ U (g s u) c0 h0 = U s1 c0 h0.

Lemma L_fold_del sel : forall s k,
  NoDup (map u_tag sel) -> (forall u, In u sel -> In u (U s c0 h0)) -> NoDup (map u_tag (U s c0 h0)) ->
  allch (LPoff c0 h0 k) s -> allch (LPoff c0 h0 (k + N.of_nat (List.length sel))) (fold_left g sel s).
Proof.
  induction sel as [|a t IH]; intros s k Hnd Hin Hu H; cbn [fold_left List.length].
  - rewrite N.add_0_r. exact H.
  - cbn in Hnd. inversion Hnd as [|? ? Hni Hnd']; subst.
    destruct (g_eq s a) as (s1 & Es1 & Hk & HU).
    assert (Ha : In a (U s c0 h0)) by (apply Hin; left; reflexivity).
    destruct (get_chan s c0 h0) as [ch|] eqn:Ech; [|unfold U in Ha; rewrite Ech in Ha; destruct Ha].
    rewrite (U_some _ _ _ _ Ech) in *.
    assert (H1 : allch (LPoff c0 h0 (k + 1)) (g s a)).
    { apply Hk. subst s1. eapply L_del; eauto. }
    assert (HU1 : U (g s a) c0 h0 = filter (fun u => negb (u_tag u =? u_tag a)) (ch_unacked ch)).
    { rewrite HU. subst s1. rewrite del_unacked_U. rewrite (U_some _ _ _ _ Ech). reflexivity. }
    replace (k + N.of_nat (S (List.length t))) with ((k + 1) + N.of_nat (List.length t)) by lia.
    apply IH; auto.
    + intros u Hu'. rewrite HU1. apply filter_In. split; [apply Hin; right; exact Hu'|].
      apply Bool.negb_true_iff. apply N.eqb_neq. intros E. apply Hni. rewrite <- E. apply in_map. exact Hu'.
    + rewrite HU1. apply NoDup_map_filter. exact Hu.
Qed.
End Settle.

Lemma L_fold_dec cfg c0 h0 sel : forall s k,
  allch (LPoff c0 h0 (k + N.of_nat (List.length sel))) s ->
  allch (LPoff c0 h0 k) (fold_left (fun s u => dec_qos_and_consume_next cfg s c0 h0 u) sel s).
Proof.
  induction sel as [|a t IH]; intros s k H; cbn [fold_left List.length] in *.
  - rewrite N.add_0_r in H. exact H.
  - apply IH. apply L_dec. replace (k + N.of_nat (List.length t) + 1) with (k + N.of_nat (S (List.length t))) by lia. exact H.
Qed.

Lemma g_ack_ok c0 h0 : forall s u, exists s1, s1 = upd_chan s c0 h0 (fun ch => del_unacked ch (u_tag u)) /\
  (forall k, allch (LPoff c0 h0 k) s1 -> allch (LPoff c0 h0 k) (chan_ackmsg s1 u)) /\ U (chan_ackmsg s1 u) c0 h0 = U s1 c0 h0.
Proof. intros s u. eexists. split; [reflexivity|]. split; [intros k; apply L_chan_ackmsg|apply U_chan_ackmsg]. Qed.
Lemma g_rej_ok c0 h0 r : forall s u, exists s1, s1 = upd_chan s c0 h0 (fun ch => del_unacked ch (u_tag u)) /\
  (forall k, allch (LPoff c0 h0 k) s1 -> allch (LPoff c0 h0 k) (chan_rejectmsg s1 u r)) /\ U (chan_rejectmsg s1 u r) c0 h0 = U s1 c0 h0.
Proof. intros s u. eexists. split; [reflexivity|]. split; [intros k; apply L_chan_rejectmsg|apply U_chan_rejectmsg]. Qed.

Lemma NoDup_insert_desc u l : ~ In (u_tag u) (map u_tag l) -> NoDup (map u_tag l) -> NoDup (map u_tag (insert_desc u l)).
Proof.
  induction l as [|x t IH]; intros Hni Hnd; cbn.
  - constructor; auto.
  - destruct (u_tag x <? u_tag u); cbn; [constructor; auto|].
    cbn in Hnd, Hni. inversion Hnd as [|? ? Hx Ht]; subst. constructor.
    + intros Hin. apply in_map_iff in Hin. destruct Hin as (y & Ey & Hy).
      assert (Hperm : In y (u :: t)).
      { clear -Hy. induction t as [|z r IHr]; cbn in *; [tauto|]. destruct (u_tag z <? u_tag u); cbn in *; tauto. }
      destruct Hperm as [->|Hy']; [apply Hni; left; auto|apply Hx; rewrite <- Ey; apply in_map; exact Hy'].
    + apply IH; auto.
Qed.
Lemma NoDup_sort_desc l : NoDup (map u_tag l) -> NoDup (map u_tag (sort_desc l)).
Proof.
  induction l as [|a t IH]; intros H; cbn; [constructor|]. cbn in H. inversion H as [|? ? Hni Hnd]; subst.
  apply NoDup_insert_desc; auto. intros Hin. apply Hni. apply in_map_iff in Hin. destruct Hin as (y & Ey & Hy).
  rewrite <- Ey. apply in_map. apply sort_desc_perm. exact Hy.
Qed.

Theorem L_handle_ack cfg s c h tag mult :
  CI s -> LI s -> LI (fst (handle_ack cfg s c h tag mult)).
Proof.
  intros Hci H. unfold handle_ack. destruct (get_chan s c h) as [ch|] eqn:Ech; auto.
  pose proof (Hci _ _ _ Ech) as [Hnd _].
  destruct mult.
  - cbn [fst]. apply (LPoff_zero c h). apply (L_fold_dec cfg c h _ _ 0). rewrite N.add_0_l.
    set (sel := filter _ (ch_unacked ch)).
    replace (N.of_nat (List.length sel)) with (0 + N.of_nat (List.length sel)) by lia.
    apply (L_fold_del c h (fun s u => chan_ackmsg (upd_chan s c h (fun ch => del_unacked ch (u_tag u))) u)).
    + intros s0 u. eexists. split; [reflexivity|]. split; [intros k; apply L_chan_ackmsg|apply U_chan_ackmsg].
    + apply NoDup_map_filter. exact Hnd.
    + intros u Hu. rewrite (U_some _ _ _ _ Ech). apply filter_In in Hu. tauto.
    + rewrite (U_some _ _ _ _ Ech). exact Hnd.
    + apply LPoff_zero. exact H.
  - destruct (find _ (ch_unacked ch)) as [u|] eqn:Ef; cbn [fst]; auto.
    apply find_some in Ef. destruct Ef as [Hin Et]. apply N.eqb_eq in Et.
    apply (LPoff_zero c h). apply L_dec. apply L_chan_ackmsg. rewrite N.add_0_l.
    replace 1 with (0 + 1) by lia. eapply L_del; eauto. apply LPoff_zero. exact H.
Qed.

Theorem L_handle_reject cfg s c h tag mult requeue cls mth :
  CI s -> LI s -> LI (fst (handle_reject cfg s c h tag mult requeue cls mth)).
Proof.
  intros Hci H. unfold handle_reject. destruct (get_chan s c h) as [ch|] eqn:Ech; auto.
  pose proof (Hci _ _ _ Ech) as [Hnd _].
  destruct mult.
  - cbn [fst]. apply (LPoff_zero c h). apply (L_fold_dec cfg c h _ _ 0). rewrite N.add_0_l.
    set (sel := filter _ (sort_desc (ch_unacked ch))).
    replace (N.of_nat (List.length sel)) with (0 + N.of_nat (List.length sel)) by lia.
    apply (L_fold_del c h (fun s u => chan_rejectmsg (upd_chan s c h (fun ch => del_unacked ch (u_tag u))) u requeue)).
    + intros s0 u. eexists. split; [reflexivity|]. split; [intros k; apply L_chan_rejectmsg|apply U_chan_rejectmsg].
    + apply NoDup_map_filter. apply NoDup_sort_desc. exact Hnd.
    + intros u Hu. rewrite (U_some _ _ _ _ Ech). apply filter_In in Hu. apply sort_desc_perm. tauto.
    + rewrite (U_some _ _ _ _ Ech). exact Hnd.
    + apply LPoff_zero. exact H.
  - destruct (find _ (ch_unacked ch)) as [u|] eqn:Ef; cbn [fst]; auto.
    apply find_some in Ef. destruct Ef as [Hin Et]. apply N.eqb_eq in Et.
    apply (LPoff_zero c h). apply L_dec. apply L_chan_rejectmsg. rewrite N.add_0_l.
    replace 1 with (0 + 1) by lia. eapply L_del; eauto. apply LPoff_zero. exact H.
Qed.

(* ---- deliveries: the window is charged, then the entry is appended ---- *)
Definition Small (s : state) : Prop := forall c h ch, get_chan s c h = Some ch -> N.of_nat (List.length (ch_unacked ch)) + 1 < two16.

Lemma reserve2_cc w1 w2 size r ws' :
  reserve true [w1; w2] size = (r, ws') -> cc w1 + 1 < two16 ->
  exists a b, ws' = [a; b] /\ cc a = match r with Some _ => cc w1 + 1 | None => cc w1 end.
Proof.
  intros H Hs. cbn in H. unfold qos_inc in H at 1.
  destruct (((pc w1 =? 0) || ((cc w1 + 1) mod two16 <=? pc w1)) && ((ps w1 =? 0) || ((cs w1 + size) mod two32 <=? ps w1))).
  - destruct (qos_inc w2 size) as [w2'|]; inversion H; subst; eexists _, _; (split; [reflexivity|]); cbn.
    + apply N.mod_small. exact Hs.
    + rewrite (N.mod_small _ _ Hs). destruct (cc w1 + 1 <? 1) eqn:E; [apply N.ltb_lt in E; lia|lia].
  - inversion H; subst. eexists _, _. split; reflexivity.
Qed.

Lemma L_store_windows cfg s c h tag a b k :
  (forall ch, get_chan s c h = Some ch -> cc a = cc (ch_qos ch) + k) ->
  LI s -> allch (LPoff c h k) (store_windows cfg s c h tag [a; b]).
Proof.
  intros Ha H. unfold store_windows.
  assert (H1 : allch (LPoff c h k) (upd_chan s c h (fun ch => ch <| ch_qos := a |>))).
  { intros c' h' ch' Hg. unfold upd_chan in Hg. destruct (get_chan s c h) as [ch|] eqn:Ech.
    - rewrite get_chan_set_chan in Hg. pose proof (get_chan_conn _ _ _ _ Ech) as Hc. destruct (get_conn s c); [|congruence].
      unfold LPoff. destruct ((c' =? c) && (h' =? h)) eqn:Eb.
      + inversion Hg; subst. unfold ledger. cbn. rewrite (Ha _ eq_refl). pose proof (H _ _ _ Ech) as H0. unfold LP, ledger in H0. lia.
      + apply (H _ _ _ Hg).
    - pose proof (H _ _ _ Hg) as H0. unfold LPoff. destruct ((c' =? c) && (h' =? h)) eqn:Eb; auto.
      apply andb_prop in Eb. destruct Eb as [E1 E2]. apply N.eqb_eq in E1, E2. subst. congruence. }
  destruct (cfg_rabbit cfg).
  - apply allch_upd_chan; auto.
  - destruct (get_conn _ c) eqn:Ec; auto. eapply allch_set_conn_qos; eauto.
Qed.

(* appending the delivery's entry brings the channel back into balance *)
Lemma L_append s c h x : allch (LPoff c h 1) s -> LI (upd_chan s c h (fun ch => ch <| ch_unacked ::= fun l => l ++ [x] |>)).
Proof.
  intros H. destruct (get_chan s c h) as [ch|] eqn:Ech.
  - apply (LPoff_zero c h). apply (LPoff_shift s c h 1 0); auto. intros ch1 Hl. unfold ledger in *. cbn. rewrite app_length. cbn. lia.
  - unfold upd_chan. rewrite Ech. intros c' h' ch' Hg. pose proof (H _ _ _ Hg) as H0. unfold LPoff in H0.
    destruct ((c' =? c) && (h' =? h)) eqn:Eb; auto. apply andb_prop in Eb. destruct Eb as [E1 E2]. apply N.eqb_eq in E1, E2. subst. congruence.
Qed.

Lemma window_list_first cfg s c h cm ch cn : get_chan s c h = Some ch -> get_conn s c = Some cn ->
  exists w2, window_list cfg s c h cm = [ch_qos ch; w2].
Proof. intros E1 E2. unfold window_list. rewrite E1, E2. destruct (cfg_rabbit cfg); eauto. Qed.

Theorem L_consumer_turn cfg fx s c h tag :
  cfg_rollback cfg = true -> Small s -> LI s -> LI (fst (consumer_turn cfg fx s c h tag)).
Proof.
  intros Hrb Hsm H. unfold consumer_turn.
  destruct (get_chan s c h) as [ch|] eqn:Ech; auto.
  destruct (find_consumer ch tag) as [cm|] eqn:Efc; auto.
  destruct (negb (c_token cm)); auto.
  set (s0 := set_chan s c h _).
  assert (H0 : LI s0) by (subst s0; apply allch_set_chan; auto; exact (H _ _ _ Ech)).
  assert (Ech0 : exists ch0, get_chan s0 c h = Some ch0 /\ ch_qos ch0 = ch_qos ch /\ ch_unacked ch0 = ch_unacked ch).
  { subst s0. rewrite get_chan_set_chan. pose proof (get_chan_conn _ _ _ _ Ech) as Hc. destruct (get_conn s c); [|congruence].
    rewrite !N.eqb_refl. cbn. eexists. split; [reflexivity|]. split; reflexivity. }
  destruct Ech0 as (ch0 & Ech0 & Eq0 & Eu0).
  assert (Ecn0 : exists cn0, get_conn s0 c = Some cn0).
  { pose proof (get_chan_conn _ _ _ _ Ech0) as Hc. destruct (get_conn s0 c); [eauto|congruence]. }
  destruct Ecn0 as (cn0 & Ecn0).
  clearbody s0.
  destruct (c_status cm); auto.
  all: destruct (get_queue s0 (c_queue cm)) as [qu|]; auto.
  all: destruct (negb (q_active qu)); auto.
  all: destruct (q_ready qu) as [|u rest]; auto.
  all: destruct (c_noack cm) eqn:Ena.
  (* no-ack: no window, no entry *)
  all: try (cbn [fst];
            match goal with |- context [wake_consumer ?st ?c0 ?h0 ?tag0] => destruct (wake_consumer st c0 h0 tag0) as [s9 b9] eqn:Ew;
              apply fst_pair in Ew; cbn [fst]; subst s9; apply (LPoff_zero c h); apply L_wake; apply LPoff_zero end;
            repeat (first [ assumption | same_conns | match goal with |- allch _ (if ?b then _ else _) => destruct b end
                          | apply allch_upd_chan; [intros; assumption|] ]); fail).
  (* ack mode *)
  all: destruct (window_list_first cfg s0 c h cm ch0 cn0 Ech0 Ecn0) as (w2 & Ewl); rewrite Ewl, Hrb.
  all: destruct (reserve true [ch_qos ch0; w2] (msg_size s0 u mod two32)) as [okr ws] eqn:Er.
  all: assert (Hcc : cc (ch_qos ch0) + 1 < two16)
         by (pose proof (H0 _ _ _ Ech0) as Hl; unfold LP, ledger in Hl; rewrite Hl, Eu0, N.add_0_r; apply (Hsm _ _ _ Ech)).
  all: destruct (reserve2_cc _ _ _ _ _ Er Hcc) as (a & b & -> & Ha).
  all: destruct okr as [l|]; cbn [fst].
  all: try (apply (LPoff_zero c h); apply L_store_windows; auto; intros chx Hx; rewrite Ech0 in Hx; inversion Hx; subst; rewrite Ha; lia).
  all: match goal with |- context [wake_consumer ?st ?c0 ?h0 ?tag0] => destruct (wake_consumer st c0 h0 tag0) as [s9 b9] eqn:Ew;
         apply fst_pair in Ew; cbn [fst]; subst s9; apply (LPoff_zero c h); apply L_wake; apply LPoff_zero end.
  all: repeat same_conns.
  all: apply L_append.
  all: apply allch_upd_chan; [intros; assumption|].
  all: repeat same_conns.
  all: apply L_store_windows; auto; intros chx Hx; rewrite Ech0 in Hx; inversion Hx; subst; rewrite Ha; reflexivity.
Qed.

(* ---- everything else keeps window counts and unsettled lists (or resets both) ---- *)
Ltac lk Ech H := apply allch_set_chan; [exact (H _ _ _ Ech)|].
Ltac lkeep := repeat (first [ assumption | same_conns
                            | match goal with |- allch _ (if ?b then _ else _) => destruct b end
                            | apply allch_upd_chan; [intros; assumption|] ]).

Lemma LI_wake s c h tag : LI s -> LI (fst (wake_consumer s c h tag)).
Proof. intros H. apply (LPoff_zero c h). apply L_wake. apply LPoff_zero. exact H. Qed.
Lemma LI_consumer_stop s c h tag : LI s -> LI (consumer_stop s c h tag).
Proof. intros H. apply (LPoff_zero c h). apply L_consumer_stop. apply LPoff_zero. exact H. Qed.
Lemma LI_wake_consumers cfg s c h : LI s -> LI (wake_consumers cfg s c h).
Proof. intros H. apply (LPoff_zero c h). apply L_wake_consumers. apply LPoff_zero. exact H. Qed.

Lemma LI_channel_close cfg s c h : CI s -> LI s -> LI (channel_close cfg s c h).
Proof.
  intros Hci H. unfold channel_close. destruct (get_chan s c h) as [ch|] eqn:Ech; auto.
  apply allch_upd_chan; [intros; assumption|].
  set (s2 := upd_chan (fold_left (fun s cm => consumer_stop s c h (c_tag cm)) (ch_consumers ch) s) c h (fun ch => ch <| ch_consumers := [] |>)).
  assert (H2 : LI s2).
  { subst s2. apply allch_upd_chan; [intros; assumption|]. apply fold_left_preserves; auto. intros; apply LI_consumer_stop; auto. }
  assert (C2 : CI s2).
  { subst s2. apply allch_upd_chan; [intros ch0 Hc0; eapply chinvp_set; [..|exact Hc0]; reflexivity|].
    apply fold_left_preserves; auto. intros; apply CI_consumer_stop; auto. }
  clearbody s2. destruct (0 <? h); auto. apply L_handle_reject; auto.
Qed.

Lemma LI_cancel_fold l : forall s evs, LI s ->
  LI (fst (fold_left (fun acc x => let '(s, evs) := acc in let '(s', e) := consumer_cancel s x in (s', evs ++ e)) l (s, evs))).
Proof.
  induction l as [|[[c h] tag] t IH]; intros s evs H; simpl; auto. apply IH. apply LI_consumer_stop; auto.
Qed.

Lemma LI_vhost_delete_queue b s qn iu ie : LI s -> LI (fst (fst (vhost_delete_queue b s qn iu ie))).
Proof.
  intros H. unfold vhost_delete_queue. destruct (get_queue s qn) as [qu|] eqn:Eq; auto.
  destruct (_ || _).
  - cbn [fst]. destruct b; [eapply allch_same_conns; [apply conns_set_queue|exact H]|exact H].
  - pose proof (LI_cancel_fold (q_consumers qu) s [] H) as Hf.
    destruct (fold_left _ (q_consumers qu) (s, [])) as [s1 e1]. cbn [fst] in *. lkeep.
Qed.

Lemma LI_add_confirm s c h t : LI s -> LI (add_confirm s c h t).
Proof.
  intros H. unfold add_confirm. destruct (get_chan s c h) as [ch|] eqn:E; auto. destruct (negb _); auto.
  destruct (ch_status ch); auto; destruct t as [[[? ?] ?]|]; auto; (lk E H; auto).
Qed.

Lemma LI_route_and_push fx s c h u : LI s -> LI (fst (route_and_push fx s c h u)).
Proof.
  intros H. unfold route_and_push. destruct (get_msg s u) as [m|]; auto.
  destruct (alookup _ _ _) as [ex|]; cbn [fst]; [|apply LI_add_confirm; auto].
  destruct (matched_queues _ _ _) as [|q1 qs]; cbn [fst]; [apply LI_add_confirm; auto|].
  apply fold_left_preserves.
  - intros s0 qn H0. assert (H1 : LI (queue_push s0 qn u)) by (same_conns; auto).
    unfold push_one. destruct (get_msg (queue_push s0 qn u) u); auto. destruct (_ && _)%bool; auto. apply LI_add_confirm; auto.
  - destruct (_ && _)%bool; [same_conns|]; auto.
Qed.

Lemma LI_finish_publish fx s c h u : LI s -> LI (fst (finish_publish fx s c h u)).
Proof.
  intros H. unfold finish_publish. pose proof (LI_route_and_push fx s c h u H) as H1.
  destruct (route_and_push fx s c h u) as [s1 e1]. cbn [fst] in *. destruct (fx_clear_current fx); auto. apply allch_upd_chan; auto.
Qed.

Lemma LI_queue_loop_turn s qn : LI s -> LI (queue_loop_turn s qn).
Proof.
  intros H. unfold queue_loop_turn. destruct (get_queue s qn) as [qu|]; auto. destruct (negb (q_call qu)); auto.
  destruct (Nat.eqb _ 0); [same_conns; auto|]. same_conns.
  apply fold_left_preserves; [|same_conns; auto]. intros s0 [[c h] tag] H0. apply LI_wake; auto.
Qed.

Theorem LI_handle_method cfg fx s c h m :
  cfg_rollback cfg = true -> CI s -> Small s -> LI s -> LI (fst (fst (handle_method cfg fx s c h m))).
Proof.
  intros Hrb Hci Hsm H. unfold handle_method.
  destruct (get_chan s c h) as [ch|] eqn:Hch; [|exact H].
  destruct m; unfold ok, refuse.
  - (* MChannelOpen *)
    destruct (ch_status ch); cbn [fst]; auto.
    + lk Hch H. auto.
    + lk Hch H. auto.
    + apply allch_set_chan; auto. destruct (fx_reopen_resets fx); [reflexivity|exact (H _ _ _ Hch)].
  - cbn [fst]. apply LI_channel_close; auto.
  - cbn [fst]. destruct (fx_closeok_releases fx); [apply LI_channel_close; auto|lk Hch H; auto].
  - cbn [fst]. destruct (Bool.eqb _ _); auto. destruct a; (lk Hch H; auto).
  - destruct (extype_of type); [|exact H].
    repeat match goal with |- context [if ?b then _ else _] => destruct b end; cbn [fst]; auto.
    all: repeat match goal with |- context [match ?x with _ => _ end] => destruct x end; cbn [fst]; auto.
    all: try (same_conns; auto).
  - destruct (fx_not_impl fx); exact H.
  - destruct (seqb name ""); [exact H|].
    destruct (queue_found s name) as [qu|].
    + repeat match goal with |- context [if ?b then _ else _] => destruct b end; cbn [fst]; auto.
    + destruct passive; [destruct nowait; exact H|]. cbn [fst]. repeat same_conns. auto.
  - destruct (alookup _ _ _); [|exact H]. destruct (seqb ex ""); [exact H|].
    destruct (queue_found s q); [|exact H]. destruct (locked _ _); [exact H|]. destruct (bad_xmatch _); [exact H|]. destruct (extype_eqb _ ExTopic && bad_pattern _)%bool; [exact H|]. cbn [fst]. same_conns. auto.
  - destruct (alookup _ _ _); [|exact H]. destruct (queue_found s q); [|exact H]. destruct (locked _ _); [exact H|]. destruct (bad_xmatch _); [exact H|]. destruct (extype_eqb _ ExTopic && bad_pattern _)%bool; [exact H|]. cbn [fst]. same_conns. auto.
  - destruct (queue_found s q) as [qu|]; [|exact H]. destruct (locked _ _); [exact H|]. cbn [fst]. lkeep.
  - destruct (queue_found s q); [|exact H]. destruct (locked _ _); [exact H|].
    pose proof (LI_vhost_delete_queue (negb (fx_delete_checks_first fx)) s q ifunused ifempty H) as Hd.
    destruct (vhost_delete_queue _ s q ifunused ifempty) as [[s1 e1] r1]. cbn [fst] in *. destruct r1; exact Hd.
  - (* MQos: Update keeps the counts *)
    cbn [fst]. apply LI_wake_consumers. destruct (cfg_rabbit cfg); [destruct glob; (lk Hch H; auto)|].
    destruct glob; [|lk Hch H; auto]. destruct (get_conn s c) eqn:Ec; auto. eapply allch_set_conn_qos; eauto.
  - destruct imm; [exact H|]. destruct (alookup _ _ _); [|exact H].
    destruct (ch_confirm ch); cbn [fst]; (lk Hch H; repeat same_conns; auto).
  - destruct (queue_found s q) as [qu|]; [|exact H].
    destruct (fx_excl_owner fx && locked qu c); [exact H|].
    destruct (find_consumer ch _); [exact H|].
    destruct (_ && _)%bool; cbn [fst].
    + same_conns. auto.
    + lk Hch H. destruct (seqb tag ""%string); repeat same_conns; auto.
  - destruct (find_consumer ch tag); [|exact H]. cbn [fst].
    apply allch_upd_chan; [intros ch0 Hc0; unfold LP, ledger in *; cbn; rewrite map_length; exact Hc0|].
    apply allch_upd_chan; [intros; assumption|]. apply LI_consumer_stop. exact H.
  - (* MGet *)
    destruct (queue_found s q) as [qu|]; [|exact H].
    destruct (fx_excl_owner fx && locked qu c); [exact H|].
    destruct (q_ready qu) as [|u rest]; [exact H|].
    destruct noack.
    + (* no-ack: nothing charged, nothing recorded *)
      cbn [fst]. lkeep.
    + rewrite Hrb.
      destruct (reserve true [ch_qos ch; match get_conn s c with Some cn => cn_qos cn | None => qos0 end] (msg_size s u mod two32)) as [okr ws] eqn:Er.
      assert (Hcc : cc (ch_qos ch) + 1 < two16).
      { pose proof (H _ _ _ Hch) as Hl. unfold LP, ledger in Hl. rewrite Hl, N.add_0_r. apply (Hsm _ _ _ Hch). }
      destruct (reserve2_cc _ _ _ _ _ Er Hcc) as (a & b & -> & Ha).
      set (s1 := let s0 := set_chan s c h (ch <| ch_qos := a |>) in match get_conn s0 c with Some cn => s0 <| conns := aset N.eqb c (cn <| cn_qos := b |>) (conns s0) |> | None => s0 end).
      assert (H1 : allch (LPoff c h (match okr with Some _ => 1 | None => 0 end)) s1).
      { assert (Hs0 : allch (LPoff c h (match okr with Some _ => 1 | None => 0 end)) (set_chan s c h (ch <| ch_qos := a |>))).
        { intros c' h' ch' Hg. rewrite get_chan_set_chan in Hg. pose proof (get_chan_conn _ _ _ _ Hch) as Hc. destruct (get_conn s c); [|congruence].
          unfold LPoff. destruct ((c' =? c) && (h' =? h)) eqn:Eb.
          - inversion Hg; subst. unfold ledger. cbn. pose proof (H _ _ _ Hch) as Hl. unfold LP, ledger in Hl. rewrite Ha. destruct okr; lia.
          - apply (H _ _ _ Hg). }
        subst s1. cbv zeta. destruct (get_conn (set_chan s c h (ch <| ch_qos := a |>)) c) as [cn1|] eqn:Ec; [|exact Hs0].
        exact (allch_set_conn_qos _ _ c cn1 (fun _ => b) Ec Hs0). }
      fold s1. clearbody s1.
      destruct okr; cbn [fst]; [|apply (LPoff_zero c h); exact H1].
      same_conns. same_conns.
      apply L_append. repeat same_conns. apply allch_upd_chan; [intros; assumption|]. same_conns. exact H1.
  - pose proof (L_handle_ack cfg s c h tag mult Hci H) as Ha.
    destruct (handle_ack cfg s c h tag mult) as [s1 e1]. exact Ha.
  - pose proof (L_handle_reject cfg s c h tag mult requeue 60 120 Hci H) as Ha.
    destruct (handle_reject cfg s c h tag mult requeue 60 120) as [s1 e1]. exact Ha.
  - pose proof (L_handle_reject cfg s c h tag false requeue 60 90 Hci H) as Ha.
    destruct (handle_reject cfg s c h tag false requeue 60 90) as [s1 e1]. exact Ha.
  - exact H.
  - cbn [fst]. lk Hch H. auto.
  - destruct (fx_not_impl fx); exact H.
  - exact H.
  - exact H.
  - destruct good; [cbn [fst]; apply allch_set_stage; exact H|exact H].
  - destruct within; [cbn [fst]; apply allch_set_stage; exact H|exact H].
  - destruct vhost_ok; [cbn [fst]; apply allch_set_stage; exact H|exact H].
Qed.

Lemma LI_delete_fold b l : forall s evs, LI s ->
  LI (fst (fold_left (fun acc qn => let '(s, evs) := acc in
                                    let '(s', e, _) := vhost_delete_queue b s qn false false in (s', evs ++ e)) l (s, evs))).
Proof.
  induction l as [|x t IH]; intros s evs H; simpl; auto.
  pose proof (LI_vhost_delete_queue b s x false false H) as Hd.
  destruct (vhost_delete_queue b s x false false) as [[s1 e1] r1]. cbn [fst] in Hd. apply IH. exact Hd.
Qed.

Lemma LI_conn_close cfg fx s c : CI s -> LI s -> LI (fst (conn_close cfg fx s c)).
Proof.
  intros Hci H. unfold conn_close. destruct (get_conn s c) as [cn|]; [|exact H].
  set (s1 := fold_left _ _ s).
  assert (H1 : CI s1 /\ LI s1).
  { subst s1. apply (fold_left_preserves (fun st => CI st /\ LI st)); auto.
    intros st hh [A B]. split; [apply CI_channel_close; auto|apply LI_channel_close; auto]. }
  destruct H1 as [C1 H1]. clearbody s1.
  pose proof (LI_delete_fold (negb (fx_delete_checks_first fx))
                (map fst (filter (fun kv => q_excl (snd kv) && (q_owner (snd kv) =? c)) (queues s1))) s1 [] H1) as Hd.
  destruct (fold_left _ _ (s1, [])) as [s2 e2]. cbn [fst] in *. apply allch_del_conn. exact Hd.
Qed.

Lemma LI_send_error s c h e : LI s -> LI (fst (send_error s c h e)).
Proof. intros H. destruct e; cbn [send_error fst]; auto. apply allch_upd_chan; auto. Qed.

Lemma LI_apply_err s c h r : LI (fst (fst r)) -> LI (fst (apply_err s c h r)).
Proof.
  destruct r as [[s1 e1] [e|]]; cbn [fst]; auto.
  intros H. unfold apply_err. pose proof (LI_send_error s1 c h e H) as Hs.
  destruct (send_error s1 c h e) as [s2 e2]. exact Hs.
Qed.

Lemma LI_ensure_chan s c h : LI s -> LI (ensure_chan s c h).
Proof.
  intros H c' h' ch' Hg. apply get_chan_ensure in Hg. destruct Hg as [Hg|Hg]; [apply H; auto|subst; reflexivity].
Qed.

Lemma Small_ensure_chan s c h : Small s -> Small (ensure_chan s c h).
Proof.
  intros H c' h' ch' Hg. apply get_chan_ensure in Hg. destruct Hg as [Hg|Hg]; [eapply H; eauto|subst; cbn; unfold two16; lia].
Qed.

Lemma LI_apply_err_st cfg fx opened s c h r :
  CI (fst (fst r)) -> LI (fst (fst r)) -> LI (fst (apply_err_st cfg fx opened s c h r)).
Proof.
  intros Hci H. unfold apply_err_st. destruct opened; [apply LI_apply_err; auto|].
  destruct (snd r) as [[| ]|]; try (apply LI_apply_err; auto).
  pose proof (LI_apply_err s c h r H) as H1. pose proof (CI_apply_err s c h r Hci) as C1.
  destruct (apply_err s c h r) as [s1 e1]. cbn [fst] in *.
  pose proof (LI_conn_close cfg fx s1 c C1 H1) as H2. destruct (conn_close cfg fx s1 c) as [s2 e2]. exact H2.
Qed.

(* one step: the ledger of every channel survives, provided no channel is at the edge of the uint16 counter *)
Theorem LI_step cfg fx s l :
  cfg_rollback cfg = true -> CI s -> Small s -> LI s -> LI (fst (step cfg fx s l)).
Proof.
  intros Hrb Hci Hsm H. destruct l; cbn [step].
  - (* LConnect *)
    destruct (get_conn s c) eqn:Ec; cbn [fst]; auto.
    intros c' h' ch' Hg. unfold get_chan, get_conn in Hg. cbn in Hg. rewrite (alookup_aset N.eqb Neqb_spec) in Hg.
    destruct (c' =? c) eqn:E1.
    + cbn in Hg. destruct (h' =? 0); inversion Hg; subst. reflexivity.
    + apply H. unfold get_chan, get_conn. exact Hg.
  - (* LMethod *)
    destruct (get_conn s c) as [cn0|]; [|exact H].
    destruct (negb _ && negb _)%bool; [apply LI_conn_close; auto|].
    assert (H0 : LI (ensure_chan s c h)) by (apply LI_ensure_chan; auto).
    assert (C0 : CI (ensure_chan s c h)) by (apply CI_ensure_chan; auto).
    assert (S0 : Small (ensure_chan s c h)) by (apply Small_ensure_chan; auto).
    destruct m.
    all: try (repeat match goal with |- context [if ?b then _ else _] => destruct b end;
              first [ exact H0
                    | apply LI_apply_err; first [ apply LI_handle_method; auto | exact H0 ]
                    | apply LI_apply_err_st; first [ apply CI_handle_method; auto | exact C0 | apply LI_handle_method; auto | exact H0 ] ]).
    + destruct (fx_stage fx && negb (h =? 0)); [apply LI_apply_err; exact H0|].
      pose proof (LI_conn_close cfg fx _ c C0 H0) as Hc.
      destruct (conn_close cfg fx (ensure_chan s c h) c) as [s1 e1]. exact Hc.
    + destruct (fx_stage fx && negb (h =? 0)); [apply LI_apply_err; exact H0|]. apply LI_conn_close; auto.
  - (* LHeader *)
    destruct (get_conn s c) as [cn0|]; [|exact H].
    destruct (negb _ && negb _)%bool; [apply LI_conn_close; auto|].
    assert (H0 : LI (ensure_chan s c h)) by (apply LI_ensure_chan; auto).
    assert (C0 : CI (ensure_chan s c h)) by (apply CI_ensure_chan; auto).
    destruct (get_chan _ c h) as [ch|]; [|exact H0].
    destruct (_ && _)%bool; [exact H0|].
    destruct (ch_cur ch) as [u|]; [|apply LI_apply_err_st; auto].
    destruct (get_msg _ u) as [m|]; [|exact H0].
    destruct (m_has_header m); [apply LI_apply_err_st; auto|].
    destruct (_ && _)%bool; [apply LI_finish_publish|]; same_conns; auto.
  - (* LBody *)
    destruct (get_conn s c) as [cn0|]; [|exact H].
    destruct (negb _ && negb _)%bool; [apply LI_conn_close; auto|].
    assert (H0 : LI (ensure_chan s c h)) by (apply LI_ensure_chan; auto).
    assert (C0 : CI (ensure_chan s c h)) by (apply CI_ensure_chan; auto).
    destruct (get_chan _ c h) as [ch|]; [|exact H0].
    destruct (_ && _)%bool; [exact H0|].
    destruct (ch_cur ch) as [u|]; [|apply LI_apply_err_st; auto].
    destruct (get_msg _ u) as [m|]; [|exact H0].
    destruct (negb (m_has_header m)); [apply LI_apply_err_st; auto|].
    destruct (_ <? _); [apply LI_apply_err_st; cbn [fst]; apply allch_upd_chan; auto|].
    destruct (_ <? _); [|apply LI_finish_publish]; same_conns; auto.
  - apply L_consumer_turn; auto.
  - cbn [fst]. apply LI_queue_loop_turn; auto.
  - destruct (autodel s) as [|qn rest]; [exact H|].
    assert (H0 : LI (s <| autodel := rest |>)) by (same_conns; auto).
    destruct (get_queue _ qn) as [qu0|]; [|exact H0]. destruct (q_autodel qu0); [|exact H0].
    pose proof (LI_vhost_delete_queue (negb (fx_delete_checks_first fx)) _ qn true false H0) as Hd.
    destruct (vhost_delete_queue _ (s <| autodel := rest |>) qn true false) as [[s1 e1] r1]. exact Hd.
  - cbn [fst]. apply fold_left_preserves.
    + intros s0 k H0. eapply allch_same_conns; [apply conns_store_confirm|exact H0].
    + repeat same_conns. auto.
  - destruct (relay s) as [|u rest]; [exact H|].
    assert (H0 : LI (s <| relay := rest |>)) by (same_conns; auto).
    destruct (get_msg _ u) as [m|]; cbn [fst]; auto.
    destruct (m_conf m) as [[[? ?] ?]|]; cbn [fst]; auto. apply LI_add_confirm; auto.
  - destruct (get_chan s c h) as [ch|] eqn:Ech; [|exact H]. destruct (negb _); [exact H|].
    destruct (ch_status ch); cbn [fst]; (lk Ech H; auto).
  - pose proof (LI_conn_close cfg fx s c Hci H) as Hc.
    destruct (conn_close cfg fx s c) as [s1 e1]. exact Hc.
  - (* LAccept *)
    destruct (get_conn s c) eqn:Ec; cbn [fst]; auto.
    intros c' h' ch' Hg. unfold get_chan, get_conn in Hg. cbn in Hg. rewrite (alookup_aset N.eqb Neqb_spec) in Hg.
    destruct (c' =? c) eqn:E1.
    + cbn in Hg. destruct (h' =? 0); inversion Hg; subst. reflexivity.
    + apply H. unfold get_chan, get_conn. exact Hg.
  - (* LBadMethod *)
    destruct (get_conn s c) as [cn0|]; [|exact H].
    destruct (negb _ && negb _)%bool; [apply LI_conn_close; auto|].
    apply LI_apply_err_st; cbn [fst]; [apply CI_ensure_chan; auto|apply LI_ensure_chan; auto].
  - (* LHeartbeat *)
    destruct (get_conn s c); [|exact H]. destruct (h =? 0); [exact H|apply LI_conn_close; auto].
  - (* LRestart *)
    unfold restart. cbn [fst]. intros c h ch Hg. unfold get_chan, get_conn in Hg. cbn in Hg. discriminate.
Qed.

(* ---- every reachable state ---- *)
Fixpoint small_along (cfg : config) (fx : fixes) (s : state) (ls : list label) : Prop :=
  Small s /\ match ls with [] => True | l :: t => small_along cfg fx (fst (step cfg fx s l)) t end.

Theorem LI_run cfg fx ls : forall s,
  cfg_rollback cfg = true -> CI s -> LI s -> small_along cfg fx s ls -> LI (fst (run cfg fx s ls)).
Proof.
  induction ls as [|l t IH]; intros s Hrb Hci H Hs; cbn [run]; auto.
  destruct Hs as [Hs Ht]. pose proof (LI_step cfg fx s l Hrb Hci Hs H) as H1. pose proof (CI_step cfg fx s l Hci) as C1.
  destruct (step cfg fx s l) as [s1 e1]. cbn [fst] in *. specialize (IH s1 Hrb C1 H1 Ht).
  destruct (run cfg fx s1 t) as [s2 e2]. exact IH.
Qed.

Lemma LI_init cfg : LI (init cfg).
Proof. intros c h ch Hg. unfold get_chan, get_conn in Hg. cbn in Hg. discriminate. Qed.

Theorem ledger_reachable cfg fx ls c h ch :
  cfg_rollback cfg = true -> small_along cfg fx (init cfg) ls ->
  get_chan (fst (run cfg fx (init cfg) ls)) c h = Some ch ->
  cc (ch_qos ch) = N.of_nat (List.length (ch_unacked ch)).
Proof.
  intros Hrb Hs Hg. pose proof (LI_run cfg fx ls (init cfg) Hrb (CI_init cfg) (LI_init cfg) Hs) as H.
  pose proof (H _ _ _ Hg) as Hl. unfold LP, ledger in Hl. rewrite N.add_0_r in Hl. exact Hl.
Qed.

(* the property itself: under a prefetch-count N > 0 a delivery is made only while fewer than N are outstanding *)
Theorem delivery_only_below_limit ch size w' :
  ledger 0 ch -> N.of_nat (List.length (ch_unacked ch)) + 1 < two16 ->
  qos_inc (ch_qos ch) size = Some w' -> pc (ch_qos ch) <> 0 ->
  N.of_nat (List.length (ch_unacked ch)) + 1 <= pc (ch_qos ch) /\ cc w' = N.of_nat (List.length (ch_unacked ch)) + 1.
Proof.
  intros Hl Hsm Hi Hp. unfold ledger in Hl. rewrite N.add_0_r in Hl. unfold qos_inc in Hi.
  destruct (((pc (ch_qos ch) =? 0) || ((cc (ch_qos ch) + 1) mod two16 <=? pc (ch_qos ch))) && _) eqn:E; [|discriminate].
  inversion Hi; subst. cbn. apply andb_prop in E. destruct E as [E _].
  rewrite N.mod_small in * by (rewrite Hl; exact Hsm).
  apply orb_prop in E. destruct E as [E|E]; [apply N.eqb_eq in E; contradiction|]. apply N.leb_le in E. rewrite Hl in *. split; [exact E|reflexivity].
Qed.
