(* C05: publisher confirms - numbering, the single completion observer, store-before-confirm, stale confirmations. *)
From Coq Require Import List String NArith ZArith Bool Lia.
From RecordUpdate Require Import RecordUpdate.
Import ListNotations.
From GMQ Require Import Broker.Model Proofs.BrokerFrames Proofs.BrokerTags Proofs.BrokerChanInv Proofs.BrokerReady Proofs.BrokerWake.
Open Scope N_scope.

Lemma get_chan_set_chan_same s c h ch : get_conn s c <> None -> get_chan (set_chan s c h ch) c h = Some ch.
Proof. intros Hc. rewrite get_chan_set_chan. destruct (get_conn s c); [|congruence]. rewrite !N.eqb_refl. reflexivity. Qed.
Lemma get_msg_set_chan s c h ch u : get_msg (set_chan s c h ch) u = get_msg s u.
Proof. unfold get_msg. rewrite heap_set_chan. reflexivity. Qed.

(* ---- numbering ---- *)
(* an accepted publish on a confirm-mode channel takes the next sequence number of the channel instance; outside
   confirm mode it takes none and the counter stands still *)
Theorem publish_numbers cfg fx s c h ex key mand ch s' evs :
  get_chan s c h = Some ch ->
  handle_method cfg fx s c h (MPublish ex key mand false) = (s', evs, None) ->
  exists m ch', get_msg s' (next_uid s) = Some m /\ get_chan s' c h = Some ch' /\
    ch_cur ch' = Some (next_uid s) /\ m_inst m = ch_inst ch /\ ch_inst ch' = ch_inst ch /\ m_actual m = 0%Z /\
    if ch_confirm ch then m_conf m = Some (c, h, ch_ctag ch + 1) /\ ch_ctag ch' = ch_ctag ch + 1
    else m_conf m = None /\ ch_ctag ch' = ch_ctag ch.
Proof.
  intros Ech H. unfold handle_method in H. rewrite Ech in H. cbn [negb] in H.
  destruct (alookup seqb ex (exchanges s)) as [e|]; [|discriminate].
  pose proof (get_chan_conn _ _ _ _ Ech) as Hc.
  destruct (ch_confirm ch) eqn:Ecf; unfold ok in H; inversion H; subst; clear H.
  - eexists _, _. split; [|split].
    + rewrite get_msg_set_chan. unfold get_msg. cbn. rewrite (alookup_aset N.eqb Neqb_spec), N.eqb_refl. reflexivity.
    + apply get_chan_set_chan_same. exact Hc.
    + cbn. rewrite N.add_1_r. repeat split; reflexivity.
  - eexists _, _. split; [|split].
    + rewrite get_msg_set_chan. unfold get_msg. cbn. rewrite (alookup_aset N.eqb Neqb_spec), N.eqb_refl. reflexivity.
    + apply get_chan_set_chan_same. exact Hc.
    + cbn. repeat split; reflexivity.
Qed.

(* opening a closed channel number again starts a new instance: numbering restarts, confirm mode is off, nothing is
   queued, and the instance count moves on (so a confirmation of the previous instance is recognisably stale) *)
Theorem reopen_restarts_numbering cfg fx s c h ch s' evs :
  fx_reopen_resets fx = true ->
  get_chan s c h = Some ch -> ch_status ch = ChClosed ->
  handle_method cfg fx s c h MChannelOpen = (s', evs, None) ->
  exists ch', get_chan s' c h = Some ch' /\ ch_status ch' = ChOpen /\ ch_ctag ch' = 0 /\ ch_confirm ch' = false /\
              ch_confirmq ch' = [] /\ ch_inst ch' = N.succ (ch_inst ch).
Proof.
  intros Hfx Ech Est H. unfold handle_method in H. rewrite Ech, Est, Hfx in H. unfold ok in H. inversion H; subst; clear H.
  eexists. split; [apply get_chan_set_chan_same; eapply get_chan_conn; eauto|]. cbn. repeat split; reflexivity.
Qed.

(* ---- channel.addConfirm ---- *)
Theorem add_confirm_spec s c h c0 h0 t ch :
  get_chan s c h = Some ch ->
  get_chan (add_confirm s c h (Some (c0, h0, t))) c h =
  Some (if ch_confirm ch && negb (match ch_status ch with ChClosed => true | _ => false end)
        then ch <| ch_confirmq ::= fun l => l ++ [t] |> else ch).
Proof.
  intros Ech. unfold add_confirm. rewrite Ech. pose proof (get_chan_conn _ _ _ _ Ech) as Hc.
  destruct (ch_confirm ch); cbn [negb andb]; auto.
  destruct (ch_status ch); cbn [negb]; auto; apply get_chan_set_chan_same; auto.
Qed.

Lemma add_confirm_none s c h : add_confirm s c h None = s.
Proof. unfold add_confirm. destruct (get_chan s c h) as [ch|]; auto. destruct (negb _); auto. destruct (ch_status ch); auto. Qed.

(* a confirmation whose message belongs to an earlier use of the channel number is dropped *)
Theorem stale_confirmation_dropped s m c h t ch :
  m_conf m = Some (c, h, t) -> get_chan s c h = Some ch -> ch_inst ch <> m_inst m ->
  add_confirm s c h (live_conf s m) = s.
Proof.
  intros Em Ech Hne. unfold live_conf. rewrite Em, Ech.
  destruct (ch_inst ch =? m_inst m) eqn:E; [apply N.eqb_eq in E; contradiction|]. apply add_confirm_none.
Qed.

Theorem live_confirmation_kept s m c h t ch :
  m_conf m = Some (c, h, t) -> get_chan s c h = Some ch -> ch_inst ch = m_inst m -> live_conf s m = Some (c, h, t).
Proof. intros Em Ech He. unfold live_conf. rewrite Em, Ech, He, N.eqb_refl. reflexivity. Qed.

(* ---- the store's confirmation: counts one, relays only when that completed the message ---- *)
Theorem store_confirm_spec s u m :
  get_msg s u = Some m -> m_conf m <> None ->
  get_msg (store_confirm s u) u = Some (m <| m_actual ::= Z.succ |>) /\
  relay (store_confirm s u) = (if (Z.succ (m_actual m) =? m_expected m)%Z then relay s ++ [u] else relay s) /\
  conns (store_confirm s u) = conns s /\ queues (store_confirm s u) = queues s.
Proof.
  intros Em Hc. split; [|split; [|split; [apply conns_store_confirm|apply queues_store_confirm]]].
  - unfold store_confirm. rewrite Em. destruct (m_conf m); [|congruence].
    destruct (_ =? _)%Z; unfold upd_msg; rewrite Em; unfold get_msg; cbn; rewrite (alookup_aset N.eqb Neqb_spec), N.eqb_refl; reflexivity.
  - unfold store_confirm. rewrite Em. destruct (m_conf m); [|congruence].
    destruct (_ =? _)%Z; unfold upd_msg; rewrite Em; reflexivity.
Qed.

Theorem store_confirm_without_meta s u m : get_msg s u = Some m -> m_conf m = None -> store_confirm s u = s.
Proof. intros Em Hc. unfold store_confirm. rewrite Em, Hc. reflexivity. Qed.

(* ---- each push to an active queue contributes exactly one unit: counted at once, or pending in the store ---- *)
Definition pending (s : state) (u : N) : nat := List.length (filter (fun k => fst k =? u) (st_add s)).
Definition counted (s : state) (u : N) : Z := match get_msg s u with Some m => m_actual m | None => 0%Z end.

Theorem queue_push_one_unit s qn u qu m :
  get_queue s qn = Some qu -> q_active qu = true -> get_msg s u = Some m -> m_conf m <> None ->
  (counted (queue_push s qn u) u + Z.of_nat (pending (queue_push s qn u) u) = counted s u + Z.of_nat (pending s u) + 1)%Z /\
  (q_durable qu && m_pers m = true -> In (u, qn) (st_add (queue_push s qn u)) /\ counted (queue_push s qn u) u = counted s u) /\
  (q_durable qu && m_pers m = false -> pending (queue_push s qn u) u = pending s u /\ counted (queue_push s qn u) u = Z.succ (counted s u)).
Proof.
  intros Eq Ea Em Hc. unfold queue_push. rewrite Eq, Em, Ea. cbn [negb].
  unfold counted, pending. rewrite Em.
  destruct (q_durable qu && m_pers m) eqn:Ep.
  - assert (Hg : get_msg (set_queue (s <| srv_total ::= Z.succ |> <| srv_ready ::= Z.succ |> <| st_add ::= fun l => l ++ [(u, qn)] |>) qn
                  (call_consumers (qu <| q_len ::= Z.succ |> <| q_mtotal ::= Z.succ |> <| q_mready ::= Z.succ |> <| q_ready ::= fun l => l ++ [u] |>))) u = Some m) by exact Em.
    rewrite Hg. cbn [st_add set_queue]. split; [|split; [|discriminate]].
    + unfold set_queue. cbn. rewrite filter_app, app_length. cbn. rewrite N.eqb_refl. cbn. lia.
    + intros _. split; auto. unfold set_queue. cbn. apply in_or_app. right. left. reflexivity.
  - destruct (m_conf m) eqn:Ecf; [|congruence].
    assert (Hg : forall quu, get_msg (set_queue (upd_msg (s <| srv_total ::= Z.succ |> <| srv_ready ::= Z.succ |>) u (fun m => m <| m_actual ::= Z.succ |>)) qn quu) u
                 = Some (m <| m_actual ::= Z.succ |>)).
    { intros quu. unfold set_queue, get_msg, upd_msg. unfold get_msg in Em. cbn. rewrite Em. cbn. rewrite (alookup_aset N.eqb Neqb_spec), N.eqb_refl. reflexivity. }
    rewrite Hg. cbn [m_actual].
    assert (Hs : forall quu, st_add (set_queue (upd_msg (s <| srv_total ::= Z.succ |> <| srv_ready ::= Z.succ |>) u (fun m => m <| m_actual ::= Z.succ |>)) qn quu) = st_add s).
    { intros quu. unfold set_queue, upd_msg, get_msg. unfold get_msg in Em. cbn. rewrite Em. reflexivity. }
    rewrite Hs. split; [|split; [discriminate|]].
    + cbn. lia.
    + intros _. split; auto.
Qed.

(* ---- the publish loop acknowledges only on completion ---- *)
(* a push queues the acknowledgement only if it counted itself and that made the count complete; otherwise the
   confirm queue of every channel is what the push left *)
Theorem push_one_confirms_only_when_complete s c h u pers has_meta qn :
  let s1 := queue_push s qn u in
  push_one s c h u pers has_meta qn = s1 \/
  (exists m qu, get_msg s1 u = Some m /\ get_queue s qn = Some qu /\ q_active qu = true /\ q_durable qu && pers = false /\
                m_actual m = m_expected m /\ push_one s c h u pers has_meta qn = add_confirm s1 c h (live_conf s1 m)).
Proof.
  cbv zeta. unfold push_one. destruct (get_msg (queue_push s qn u) u) as [m|] eqn:Em; auto.
  destruct has_meta; cbn [andb]; auto.
  destruct (get_queue s qn) as [qu|] eqn:Eq; cbn [andb]; auto.
  destruct (q_active qu) eqn:Ea; cbn [andb]; auto.
  destruct (q_durable qu && pers) eqn:Ep; cbn [negb andb]; auto.
  destruct (m_actual m =? m_expected m)%Z eqn:Ec; auto.
  right. exists m, qu. apply Z.eqb_eq in Ec. repeat split; auto.
Qed.

(* ---- an unroutable publish is acknowledged at once ---- *)
Theorem unroutable_confirmed fx s c h u m :
  get_msg s u = Some m ->
  (alookup seqb (m_ex m) (exchanges s) = None \/
   exists ex, alookup seqb (m_ex m) (exchanges s) = Some ex /\ matched_queues (negb (fx_direct_all fx)) ex (m_key m) = []) ->
  fst (route_and_push fx s c h u) = add_confirm s c h (live_conf s m).
Proof.
  intros Em [Hn|(ex & He & Hq)]; unfold route_and_push; rewrite Em.
  - rewrite Hn. reflexivity.
  - rewrite He, Hq. reflexivity.
Qed.

(* ---- the store tick: written first, confirmed afterwards ---- *)
Lemma st_db_store_confirm s u : st_db (store_confirm s u) = st_db s /\ st_add (store_confirm s u) = st_add s /\ st_del (store_confirm s u) = st_del s.
Proof.
  unfold store_confirm. destruct (get_msg s u) as [m|] eqn:Em; auto. destruct (m_conf m); auto.
  destruct (_ =? _)%Z; unfold upd_msg; rewrite Em; cbn; auto.
Qed.

Lemma fold_store_confirm_st l : forall s,
  st_db (fold_left (fun s k => store_confirm s (fst k)) l s) = st_db s /\
  st_add (fold_left (fun s (k : N * string) => store_confirm s (fst k)) l s) = st_add s /\
  st_del (fold_left (fun s (k : N * string) => store_confirm s (fst k)) l s) = st_del s.
Proof.
  induction l as [|k t IH]; intros s; cbn [fold_left]; auto.
  destruct (IH (store_confirm s (fst k))) as (A & B & C). destruct (st_db_store_confirm s (fst k)) as (A' & B' & C').
  rewrite A, B, C. auto.
Qed.

Definition same_key (a b : N * string) : bool := (fst a =? fst b) && seqb (snd a) (snd b).

(* after a store tick nothing is pending, and every pending add that no pending delete cancelled is in the db -
   before any confirmation of that tick can be relayed (the relay is a later label) *)
Theorem persist_writes_before_confirming cfg fx s :
  let s' := fst (step cfg fx s LPersistTick) in
  st_add s' = [] /\ st_del s' = [] /\
  (forall k, In k (st_add s) -> existsb (fun d => same_key d k) (st_del s) = false -> In k (st_db s')).
Proof.
  cbv zeta. cbn [step fst].
  match goal with |- context [fold_left ?f ?l ?s0] => destruct (fold_store_confirm_st l s0) as (A & B & C) end.
  rewrite A, B, C. cbn. repeat split; auto.
  intros k Hin Hnd. apply filter_In. split.
  - apply in_or_app.
    destruct (existsb (fun d => (fst d =? fst k) && seqb (snd d) (snd k)) (st_db s)) eqn:Edb.
    + left. apply existsb_exists in Edb. destruct Edb as (d & Hd & Hk). apply andb_true_iff in Hk. destruct Hk as [K1 K2].
      apply N.eqb_eq in K1. apply seqb_spec in K2. destruct d as [d1 d2], k as [k1 k2]. cbn in *. subst. exact Hd.
    + right. apply filter_In. split; [|rewrite Edb; reflexivity].
      apply filter_In. split; auto. unfold same_key in Hnd. rewrite Hnd. reflexivity.
  - apply Bool.negb_true_iff. apply Bool.not_true_is_false. intros Hx. apply existsb_exists in Hx.
    destruct Hx as (d & Hd & Hk). apply filter_In in Hd. destruct Hd as [Hd1 Hd2].
    apply Bool.negb_true_iff in Hd2.
    assert (Hc : existsb (fun k0 => (fst d =? fst k0) && seqb (snd d) (snd k0)) (st_add s) = true).
    { apply existsb_exists. exists k. split; auto. }
    congruence.
Qed.

(* ---- the relay hands a completed message to its channel, or drops it when stale ---- *)
Theorem relay_hands_over cfg fx s u rest m c h t :
  relay s = u :: rest -> get_msg s u = Some m -> m_conf m = Some (c, h, t) ->
  fst (step cfg fx s LRelay) = add_confirm (s <| relay := rest |>) c h (live_conf (s <| relay := rest |>) m) /\
  snd (step cfg fx s LRelay) = [].
Proof.
  intros Er Em Ec. cbn [step]. rewrite Er.
  assert (Hg : get_msg (s <| relay := rest |>) u = Some m) by exact Em.
  rewrite Hg, Ec. auto.
Qed.

(* ---- the confirm ticker writes one basic.ack per queued number, in order, and empties the queue ---- *)
Theorem confirm_tick_acks_queue cfg fx s c h ch :
  get_chan s c h = Some ch -> ch_ticker ch = true -> ch_status ch <> ChClosed ->
  snd (step cfg fx s (LConfirmTick c h)) = map (fun t => (c, h, SAck t false)) (ch_confirmq ch) /\
  exists ch', get_chan (fst (step cfg fx s (LConfirmTick c h))) c h = Some ch' /\ ch_confirmq ch' = [] /\ ch_ctag ch' = ch_ctag ch.
Proof.
  intros Ech Et Hs. cbn [step]. rewrite Ech, Et. cbn [negb].
  pose proof (get_chan_conn _ _ _ _ Ech) as Hc.
  destruct (ch_status ch); try congruence; cbn [fst snd]; (split; [reflexivity|]);
    eexists; (split; [apply get_chan_set_chan_same; auto|]); cbn; auto.
Qed.
