(* The facts about /repo's routing code that the translator reads from the
   source on every run (translator/cmd/routing -> Route/gen/RouteGen.v).  The
   hand-written model takes them as a parameter, so the theorems are re-proved
   about what the code says now.  Definitions only. *)
From Coq Require Import List NArith Bool.
Import ListNotations.
From GMQ Require Import Route.Value.
Open Scope N_scope.

Record route_cfg := {
  (* exchange/exchange.go: const block ExTypeDirect = iota + 1 ... *)
  c_direct : N; c_fanout : N; c_topic : N; c_headers : N;
  (* GetMatchedQueues: does the loop of that case `return` after the first match? (F04) *)
  c_early_direct : bool; c_early_fanout : bool; c_early_topic : bool; c_early_headers : bool;
  (* binding.go literals *)
  c_x_prefix : bytes;          (* the prefix of ignored arguments: x- *)
  c_x_match : bytes;           (* the key looked up in the argument table: x-match *)
  c_all : bytes; c_any : bytes;
  c_default_all : bool;        (* no x-match argument => MatchAll *)
  c_xmatch_bytes : bool;       (* NewBinding converts an x-match of dynamic type []byte to string first (F52/F68) *)
  c_cmp : cmp_mode;            (* MatchHeader: reflect.DeepEqual(value, val) or value == val (F11) *)
  c_topic_wordwise : bool;     (* MatchTopic uses matchTopicWords (F05 repaired), not a regexp *)
  (* server/queueMethods.go: is the default exchange refused? *)
  c_bind_refuses_default : bool;
  c_unbind_refuses_default : bool;
  (* server/vhost.go AppendQueue appends NewBinding(name, "", name, &Table{}, false) to the default exchange *)
  c_default_binding_on_declare : bool
}.

Definition str_x_prefix : bytes := [120; 45].                         (* "x-" *)
Definition str_x_match : bytes := [120; 45; 109; 97; 116; 99; 104].   (* "x-match" *)
Definition str_all : bytes := [97; 108; 108].
Definition str_any : bytes := [97; 110; 121].

Definition n_distinct4 (a b c d : N) : bool :=
  negb (N.eqb a b) && negb (N.eqb a c) && negb (N.eqb a d) &&
  negb (N.eqb b c) && negb (N.eqb b d) && negb (N.eqb c d).

(* what the theorems of C08 need from the code's facts *)
Definition cfg_sane (c : route_cfg) : bool :=
  n_distinct4 (c_direct c) (c_fanout c) (c_topic c) (c_headers c) &&
  negb (c_early_direct c) && negb (c_early_fanout c) && negb (c_early_topic c) && negb (c_early_headers c) &&
  bytes_eqb (c_x_prefix c) str_x_prefix && bytes_eqb (c_x_match c) str_x_match &&
  bytes_eqb (c_all c) str_all && bytes_eqb (c_any c) str_any &&
  c_default_all c &&
  match c_cmp c with CmpDeepEqual => true | CmpIfaceEq => false end &&
  c_topic_wordwise c.

(* variants of a configuration: the code as it was before a repair (used by the refutation witnesses) *)
Definition cfg_set (c : route_cfg) (early_direct : bool) (cmp : cmp_mode) (unbind_refuses : bool) : route_cfg :=
  {| c_direct := c_direct c; c_fanout := c_fanout c; c_topic := c_topic c; c_headers := c_headers c;
     c_early_direct := early_direct; c_early_fanout := c_early_fanout c;
     c_early_topic := c_early_topic c; c_early_headers := c_early_headers c;
     c_x_prefix := c_x_prefix c; c_x_match := c_x_match c; c_all := c_all c; c_any := c_any c;
     c_default_all := c_default_all c; c_xmatch_bytes := c_xmatch_bytes c; c_cmp := cmp; c_topic_wordwise := c_topic_wordwise c;
     c_bind_refuses_default := c_bind_refuses_default c; c_unbind_refuses_default := unbind_refuses;
     c_default_binding_on_declare := c_default_binding_on_declare c |}.

(* exchange.declare names its type by alias: the two alias maps of exchange.go must be inverse
   of each other and give the four standard names to the ids the routing switch uses *)
Definition str_direct : bytes := [100; 105; 114; 101; 99; 116].
Definition str_fanout : bytes := [102; 97; 110; 111; 117; 116].
Definition str_topic : bytes := [116; 111; 112; 105; 99].
Definition str_headers : bytes := [104; 101; 97; 100; 101; 114; 115].

Definition alias_maps_ok (c : route_cfg) (ia : list (N * bytes)) (ai : list (bytes * N)) : bool :=
  forallb (fun p => existsb (fun q => bytes_eqb (snd p) (fst q) && N.eqb (fst p) (snd q)) ai) ia &&
  forallb (fun q => existsb (fun p => bytes_eqb (snd p) (fst q) && N.eqb (fst p) (snd q)) ia) ai &&
  Nat.eqb (length ia) 4 && Nat.eqb (length ai) 4 &&
  existsb (fun p => N.eqb (fst p) (c_direct c) && bytes_eqb (snd p) str_direct) ia &&
  existsb (fun p => N.eqb (fst p) (c_fanout c) && bytes_eqb (snd p) str_fanout) ia &&
  existsb (fun p => N.eqb (fst p) (c_topic c) && bytes_eqb (snd p) str_topic) ia &&
  existsb (fun p => N.eqb (fst p) (c_headers c) && bytes_eqb (snd p) str_headers) ia.
