(* Model of message routing in garagemq (definitions only; no proofs).

   ===================== INTERFACE FOR THE BROKER MODEL =====================
   Types      bytes/name/value/table      (Route.Value)
              route_cfg, gen_cfg          (Route.Cfg, Route.gen.RouteGen: facts read from /repo)
              binding, exchange, message_view, pub_action
   Bindings   new_binding cfg q ex key args topic : option binding      (None = NewBinding error)
              append_binding / remove_binding / remove_queue_bindings   (exchange.go, as coded)
   Routing    matched_queues cfg ex msg : option (list name)
                None   = the Go code panics (only with c_cmp = CmpIfaceEq, i.e. before the F11 repair)
                Some l = the key set of the Go map `matchedQueues`; l has no duplicates
                         (RouteProofs.matched_queues_nodup); its ORDER is the order of first
                         insertion and stands for Go's unspecified map iteration order: use it
                         as a set, or quantify over its permutations.
   Publish    publish_decision cfg find_ex queue_exists msg : option (list pub_action)
                the routing part of server/channel.go handleContentBody, from the point where
                the last body frame has arrived:  PReturn (basic.return sent), PConfirm
                (addConfirm called because nothing was/will be queued), PPush q (qu.Push).
   Topology   topo_step cfg : topo -> topo_op -> topo      (AppendQueue's default binding,
              queueBind, queueUnbind, DeleteQueue's binding removal) for the maintenance
              and default-exchange theorems.
   ==========================================================================

   Go                                         model
   binding.Binding{Queue,Exchange,RoutingKey, binding record; the parsed pattern is recomputed
     Arguments,pattern,topic,MatchType}        from b_key (topic_words) when b_topic is set
   exchange.Exchange{Name,exType,bindings}    exchange record; the other fields do not take
                                              part in routing
   amqp.Message{Exchange,RoutingKey,Mandatory, message_view; Header and PropertyList are assumed
     Header.PropertyList.Headers}              non-nil (handleContentBody refuses a body without
                                              header; ReadContentHeader always sets the list)
   map[string]bool matchedQueues              list name without duplicates *)
From Coq Require Import List NArith Bool.
Import ListNotations.
From GMQ Require Import Route.Value Route.Cfg Route.Topic.
Open Scope N_scope.

Inductive match_type := MatchAll | MatchAny.

Record binding := {
  b_queue : name;
  b_exchange : name;
  b_key : bytes;
  b_args : option table;      (* Arguments *amqp.Table, nil = None *)
  b_topic : bool;
  b_match : match_type
}.

Record exchange := { ex_name : name; ex_type : N; ex_bindings : list binding }.

Record message_view := {
  m_exchange : name;
  m_key : bytes;
  m_headers : option table;   (* Header.PropertyList.Headers, nil = None *)
  m_mandatory : bool
}.

(* ---------------------------------------------------------------- binding.go *)

(* NewBinding *)
Definition new_binding (c : route_cfg) (q ex key : bytes) (args : option table) (topic : bool) : option binding :=
  if topic && negb (pattern_ok key) then None else
  let mk mt := Some {| b_queue := q; b_exchange := ex; b_key := key; b_args := args; b_topic := topic; b_match := mt |} in
  match args with
  | None => mk MatchAll                       (* zero value of MatchType *)
  | Some t =>
      let mode s := if bytes_eqb s (c_all c) then mk MatchAll
                    else if bytes_eqb s (c_any c) then mk MatchAny
                    else None in
      match lookup (c_x_match c) t with
      | Some (VStr s) => mode s
      | Some (VBytes s) => if c_xmatch_bytes c then mode s else None   (* xmatch = string(raw) *)
      | Some _ => None                        (* xmatch == "all" is false for every other dynamic type *)
      | None => mk (if c_default_all c then MatchAll else MatchAny)
      end
  end.

Definition match_direct (b : binding) (ex key : bytes) : bool :=
  bytes_eqb (b_exchange b) ex && bytes_eqb (b_key b) key.

Definition match_fanout (b : binding) (ex : bytes) : bool := bytes_eqb (b_exchange b) ex.

(* a binding made with topic = false has a nil pattern: zero words *)
Definition binding_pattern (b : binding) : list bytes :=
  if b_topic b then topic_words (b_key b) else [].

Definition match_topic (b : binding) (ex key : bytes) : bool :=
  bytes_eqb (b_exchange b) ex && topic_match_bytes (binding_pattern b) (topic_words key).

Definition is_all (mt : match_type) : bool := match mt with MatchAll => true | MatchAny => false end.

(* the `for key, value := range bindingArgTable` loop of MatchHeader with its early returns;
   None = panic of `value == val` *)
Fixpoint header_loop (c : route_cfg) (mt : match_type) (args hdrs : table) (has_non_x : bool) : option bool :=
  match args with
  | [] => Some (is_all mt || (negb has_non_x && negb (is_all mt)))
  | (k, v) :: rest =>
      if has_prefix (c_x_prefix c) k then header_loop c mt rest hdrs has_non_x
      else match lookup k hdrs with
           | None => if is_all mt then Some false else header_loop c mt rest hdrs true
           | Some hv =>
               match v with
               | VNil => if is_all mt then header_loop c mt rest hdrs true else Some true
               | _ => match value_cmp (c_cmp c) v hv with
                      | None => None
                      | Some true => if is_all mt then header_loop c mt rest hdrs true else Some true
                      | Some false => if is_all mt then Some false else header_loop c mt rest hdrs true
                      end
               end
           end
  end.

Definition match_header (c : route_cfg) (b : binding) (ex : bytes) (hdrs : option table) : option bool :=
  if negb (bytes_eqb (b_exchange b) ex) then Some false else
  match b_args b with
  | None => Some true
  | Some args =>
      match hdrs with
      | None => Some false
      | Some h => header_loop c (b_match b) args h false
      end
  end.

(* Equal *)
Definition binding_equal (a b : binding) : bool :=
  bytes_eqb (b_exchange a) (b_exchange b) && bytes_eqb (b_queue a) (b_queue b) &&
  bytes_eqb (b_key a) (b_key b) && opt_table_eqb (b_args a) (b_args b).

(* ---------------------------------------------------------------- exchange.go *)

(* AppendBinding: ignore a binding an existing one is Equal to *)
Definition append_binding (bs : list binding) (nb : binding) : list binding :=
  if existsb (fun b => binding_equal b nb) bs then bs else bs ++ [nb].

(* RemoveBinding: remove the first binding that is Equal to rm *)
Fixpoint remove_binding (bs : list binding) (rm : binding) : list binding :=
  match bs with
  | [] => []
  | b :: t => if binding_equal b rm then t else b :: remove_binding t rm
  end.

(* RemoveQueueBindings *)
Definition remove_queue_bindings (bs : list binding) (q : name) : list binding :=
  filter (fun b => negb (bytes_eqb (b_queue b) q)) bs.

(* the three operations that maintain an exchange's binding list *)
Inductive bl_op :=
| BAppend (b : binding)          (* AppendBinding *)
| BRemove (b : binding)          (* RemoveBinding *)
| BRemoveQueue (q : name).       (* RemoveQueueBindings *)

Definition bl_step (bs : list binding) (op : bl_op) : list binding :=
  match op with
  | BAppend b => append_binding bs b
  | BRemove b => remove_binding bs b
  | BRemoveQueue q => remove_queue_bindings bs q
  end.

Definition bl_run (ops : list bl_op) : list binding := fold_left bl_step ops [].

(* matchedQueues[q] = true *)
Definition mq_insert (q : name) (acc : list name) : list name :=
  if existsb (bytes_eqb q) acc then acc else acc ++ [q].

(* one `for _, bind := range ex.bindings { if bind.MatchX(..) { set; [return] } }` loop *)
Fixpoint mq_loop (early : bool) (m : binding -> option bool) (bs : list binding) (acc : list name)
  : option (list name) :=
  match bs with
  | [] => Some acc
  | b :: t =>
      match m b with
      | None => None
      | Some true => if early then Some (mq_insert (b_queue b) acc)
                     else mq_loop early m t (mq_insert (b_queue b) acc)
      | Some false => mq_loop early m t acc
      end
  end.

(* GetMatchedQueues: switch ex.exType *)
Definition matched_queues (c : route_cfg) (ex : exchange) (m : message_view) : option (list name) :=
  let bs := ex_bindings ex in
  if N.eqb (ex_type ex) (c_direct c) then
    mq_loop (c_early_direct c) (fun b => Some (match_direct b (m_exchange m) (m_key m))) bs []
  else if N.eqb (ex_type ex) (c_fanout c) then
    mq_loop (c_early_fanout c) (fun b => Some (match_fanout b (m_exchange m))) bs []
  else if N.eqb (ex_type ex) (c_topic c) then
    mq_loop (c_early_topic c) (fun b => Some (match_topic b (m_exchange m) (m_key m))) bs []
  else if N.eqb (ex_type ex) (c_headers c) then
    mq_loop (c_early_headers c) (fun b => match_header c b (m_exchange m) (m_headers m)) bs []
  else Some [].

(* ---------------------------------------------------------------- channel.go handleContentBody *)

Inductive pub_action :=
| PReturn               (* basic.return NO_ROUTE + content sent back *)
| PConfirm              (* addConfirm(message.ConfirmMeta): nothing is or will be queued *)
| PPush (q : name).     (* qu.Push(message) *)

Definition unroutable (mandatory : bool) : list pub_action :=
  (if mandatory then [PReturn] else []) ++ [PConfirm].

(* `for queueName := range matchedQueues`: a vanished queue ends the loop *)
Fixpoint push_loop (queue_exists : name -> bool) (mandatory : bool) (qs : list name) : list pub_action :=
  match qs with
  | [] => []
  | q :: t => if queue_exists q then PPush q :: push_loop queue_exists mandatory t
              else unroutable mandatory
  end.

Definition publish_decision (c : route_cfg) (find_ex : name -> option exchange) (queue_exists : name -> bool)
           (m : message_view) : option (list pub_action) :=
  match find_ex (m_exchange m) with
  | None => Some [PReturn; PConfirm]
  | Some ex =>
      match matched_queues c ex m with
      | None => None
      | Some [] => Some (unroutable (m_mandatory m))
      | Some qs => Some (push_loop queue_exists (m_mandatory m) qs)
      end
  end.

(* ---------------------------------------------------------------- bindings of a virtual host *)

Record topo := { t_exchanges : list exchange; t_queues : list name }.

Inductive topo_op :=
| TDeclareExchange (ex : name) (ty : N)                       (* vhost.AppendExchange of a new exchange *)
| TDeclareQueue (q : name)                                    (* vhost.AppendQueue *)
| TBind (q ex key : bytes) (args : option table)              (* channel.queueBind *)
| TUnbind (q ex key : bytes) (args : option table)            (* channel.queueUnbind *)
| TDeleteQueue (q : name).                                    (* vhost.DeleteQueue *)

Definition default_exchange_name : name := [].

Fixpoint find_exchange (exs : list exchange) (n : name) : option exchange :=
  match exs with
  | [] => None
  | e :: t => if bytes_eqb (ex_name e) n then Some e else find_exchange t n
  end.

Fixpoint update_exchange (exs : list exchange) (n : name) (f : list binding -> list binding) : list exchange :=
  match exs with
  | [] => []
  | e :: t => if bytes_eqb (ex_name e) n
              then {| ex_name := ex_name e; ex_type := ex_type e; ex_bindings := f (ex_bindings e) |} :: t
              else e :: update_exchange t n f
  end.

Definition queue_declared (t : topo) (q : name) : bool := existsb (bytes_eqb q) (t_queues t).

Definition topo_step (c : route_cfg) (t : topo) (op : topo_op) : topo :=
  match op with
  | TDeclareExchange n ty =>
      match find_exchange (t_exchanges t) n with
      | Some _ => t
      | None => {| t_exchanges := t_exchanges t ++ [{| ex_name := n; ex_type := ty; ex_bindings := [] |}];
                   t_queues := t_queues t |}
      end
  | TDeclareQueue q =>
      if queue_declared t q then t else
      let exs :=
        if c_default_binding_on_declare c then
          match new_binding c q default_exchange_name q (Some []) false with
          | Some b => update_exchange (t_exchanges t) default_exchange_name (fun bs => append_binding bs b)
          | None => t_exchanges t
          end
        else t_exchanges t in
      {| t_exchanges := exs; t_queues := t_queues t ++ [q] |}
  | TBind q exn key args =>
      match find_exchange (t_exchanges t) exn with
      | None => t                                                        (* 404 *)
      | Some e =>
          if c_bind_refuses_default c && bytes_eqb (ex_name e) default_exchange_name then t   (* 403 *)
          else if negb (queue_declared t q) then t                       (* 404 *)
          else match new_binding c q exn key args (N.eqb (ex_type e) (c_topic c)) with
               | None => t                                               (* 406 *)
               | Some b => {| t_exchanges := update_exchange (t_exchanges t) exn (fun bs => append_binding bs b);
                              t_queues := t_queues t |}
               end
      end
  | TUnbind q exn key args =>
      match find_exchange (t_exchanges t) exn with
      | None => t
      | Some e =>
          if c_unbind_refuses_default c && bytes_eqb (ex_name e) default_exchange_name then t
          else if negb (queue_declared t q) then t
          else match new_binding c q exn key args (N.eqb (ex_type e) (c_topic c)) with
               | None => t
               | Some b => {| t_exchanges := update_exchange (t_exchanges t) exn (fun bs => remove_binding bs b);
                              t_queues := t_queues t |}
               end
      end
  | TDeleteQueue q =>
      if negb (queue_declared t q) then t else
      {| t_exchanges := map (fun e => {| ex_name := ex_name e; ex_type := ex_type e;
                                         ex_bindings := remove_queue_bindings (ex_bindings e) q |}) (t_exchanges t);
         t_queues := filter (fun x => negb (bytes_eqb x q)) (t_queues t) |}
  end.

Definition topo_run (c : route_cfg) (t : topo) (ops : list topo_op) : topo := fold_left (topo_step c) ops t.

(* a fresh virtual host: the default exchange exists (initSystemExchanges) *)
Definition topo_init (c : route_cfg) : topo :=
  {| t_exchanges := [{| ex_name := default_exchange_name; ex_type := c_direct c; ex_bindings := [] |}];
     t_queues := [] |}.
