(* Model of the topic matcher of /repo/binding/binding.go after the F05 repair
   (topicWords, parseTopicPattern, matchTopicWords).  Definitions only.

   The matcher is the row algorithm of matchTopicWords, statement by statement:
     row[j] = "the already handled tail of the pattern matches words[j:]"
     row := [false, .., false, true]                                   (row_init)
     for i := len(pattern)-1 downto 0:
        pattern[i] == "#":  for j downto 0: row[j] = row[j] || row[j+1] (row_hash)
        otherwise:          for j upto len-1: row[j] = row[j+1] && (pattern[i] == "*" || pattern[i] == words[j])
                            row[len] = false                            (row_word)
     return row[0]
   It is generic in the alphabet of words (type A with a boolean equality and
   two distinguished words star and hash); the broker instantiates A := bytes. *)
From Coq Require Import List NArith Bool.
Import ListNotations.
From GMQ Require Import Route.Value.
Open Scope N_scope.

Section Matcher.
  Variable A : Type.
  Variable eqb : A -> A -> bool.
  Variables star hash : A.

  Fixpoint row_init (ws : list A) : list bool :=
    match ws with
    | [] => [true]
    | _ :: t => false :: row_init t
    end.

  Fixpoint row_hash (row : list bool) : list bool :=
    match row with
    | [] => []
    | x :: t => match row_hash t with
                | [] => [x]
                | (y :: _) as t' => (x || y) :: t'
                end
    end.

  Fixpoint row_word (p : A) (ws : list A) (row : list bool) : list bool :=
    match ws, row with
    | w :: ws', _ :: ((y :: _) as t) => (y && (eqb p star || eqb p w)) :: row_word p ws' t
    | _, _ => [false]
    end.

  Definition row_step (ws : list A) (p : A) (row : list bool) : list bool :=
    if eqb p hash then row_hash row else row_word p ws row.

  Definition topic_match (pat ws : list A) : bool :=
    hd false (fold_right (row_step ws) (row_init ws) pat).
End Matcher.

Definition dot : N := 46.
Definition star_b : N := 42.
Definition hash_b : N := 35.

(* strings.Split(s, "."): cut at every dot; [cur] holds the current word reversed *)
Fixpoint split_dots_acc (s : bytes) (cur : bytes) : list bytes :=
  match s with
  | [] => [rev cur]
  | c :: s' => if N.eqb c dot then rev cur :: split_dots_acc s' [] else split_dots_acc s' (c :: cur)
  end.

(* topicWords: the empty key consists of zero words *)
Definition topic_words (s : bytes) : list bytes :=
  match s with
  | [] => []
  | _ => split_dots_acc s []
  end.

(* parseTopicPattern: a wildcard character inside a longer word is an error *)
Definition word_ok (w : bytes) : bool :=
  negb (Nat.ltb 1 (length w) && existsb (fun c => N.eqb c star_b || N.eqb c hash_b) w).

Definition pattern_ok (key : bytes) : bool := forallb word_ok (topic_words key).

(* matchTopicWords on byte words *)
Definition topic_match_bytes (pat ws : list bytes) : bool :=
  topic_match bytes bytes_eqb [star_b] [hash_b] pat ws.
