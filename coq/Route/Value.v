(* Field-table values as the routing code sees them (definitions only).

   Go                                   model
   string                               bytes = list N   (each element < 256; a Go string is a
                                        byte sequence, no encoding is assumed)
   interface{} holding a decoded        value: one constructor per Go dynamic type that
   table value                          amqp/readers_writers.go can produce for a scalar
   *amqp.Table (map[string]interface{}) option table; a table is an association list whose
                                        keys are STRICTLY INCREASING (bytewise): the canonical
                                        form of a Go map.  Lookup is by key; map equality
                                        (reflect.DeepEqual) is then pointwise list equality.
   Go map iteration order               list order (every use in the routing code is
                                        order-independent: RouteProofs.header_loop_spec characterises the
                                        loop by forallb/existsb over the argument list)

   Not covered by [value]: field arrays ([]interface{}) and nested tables; the
   property's spec leaves them unconstrained.  []byte (long string in the 0-9-1
   dialect) IS covered because it is the scalar that made `==` panic (F11). *)
From Coq Require Import List NArith ZArith Bool.
Import ListNotations.
Open Scope N_scope.

Definition bytes := list N.
Definition name := bytes.

Fixpoint bytes_eqb (a b : bytes) : bool :=
  match a, b with
  | [], [] => true
  | x :: a', y :: b' => N.eqb x y && bytes_eqb a' b'
  | _, _ => false
  end.

(* strings.HasPrefix(s, p) *)
Fixpoint has_prefix (p s : bytes) : bool :=
  match p, s with
  | [], _ => true
  | x :: p', y :: s' => N.eqb x y && has_prefix p' s'
  | _ :: _, [] => false
  end.

(* bytewise string order, for the canonical form of tables *)
Fixpoint bytes_ltb (a b : bytes) : bool :=
  match a, b with
  | _, [] => false
  | [], _ :: _ => true
  | x :: a', y :: b' => N.ltb x y || (N.eqb x y && bytes_ltb a' b')
  end.

Inductive ikind := I8 | U8 | I16 | U16 | I32 | U32 | I64 | U64.
Inductive fkind := F32 | F64.

Inductive value :=
| VNil                              (* nil interface: 'V' no-field *)
| VBool (b : bool)
| VInt (k : ikind) (z : Z)          (* int8 .. uint64; the dynamic type is part of the value *)
| VFloat (k : fkind) (bits : N)     (* IEEE-754 bit pattern *)
| VDec (scale : N) (v : Z)          (* amqp.Decimal{Scale uint8; Value int32} *)
| VStr (s : bytes)                  (* string *)
| VBytes (s : bytes)                (* []byte (never nil): NOT comparable with == *)
| VTime (sec : Z).                  (* time.Time built by time.Unix(sec, 0) *)

Definition ikind_eqb (a b : ikind) : bool :=
  match a, b with
  | I8, I8 | U8, U8 | I16, I16 | U16, U16 | I32, I32 | U32, U32 | I64, I64 | U64, U64 => true
  | _, _ => false
  end.

Definition fkind_eqb (a b : fkind) : bool :=
  match a, b with F32, F32 | F64, F64 => true | _, _ => false end.

(* IEEE-754: NaN = exponent all ones and mantissa non-zero; +0 = -0 *)
Definition f_mant_bits (k : fkind) : N := match k with F32 => 23 | F64 => 52 end.
Definition f_exp_mask (k : fkind) : N := match k with F32 => 255 | F64 => 2047 end.
Definition f_is_nan (k : fkind) (bits : N) : bool :=
  N.eqb (N.land (N.shiftr bits (f_mant_bits k)) (f_exp_mask k)) (f_exp_mask k)
  && negb (N.eqb (N.land bits (N.ones (f_mant_bits k))) 0).
Definition f_is_zero (k : fkind) (bits : N) : bool :=
  N.eqb (N.land bits (N.ones (match k with F32 => 31 | F64 => 63 end))) 0.
Definition float_eqb (k : fkind) (a b : N) : bool :=
  negb (f_is_nan k a) && negb (f_is_nan k b) && (N.eqb a b || (f_is_zero k a && f_is_zero k b)).

(* reflect.DeepEqual on two interface values holding the above dynamic types:
   same dynamic type and equal contents; []byte by content; floats by IEEE ==. *)
Definition deep_eqb (a b : value) : bool :=
  match a, b with
  | VNil, VNil => true
  | VBool x, VBool y => Bool.eqb x y
  | VInt k x, VInt k' y => ikind_eqb k k' && Z.eqb x y
  | VFloat k x, VFloat k' y => fkind_eqb k k' && float_eqb k x y
  | VDec s x, VDec s' y => N.eqb s s' && Z.eqb x y
  | VStr x, VStr y => bytes_eqb x y
  | VBytes x, VBytes y => bytes_eqb x y
  | VTime x, VTime y => Z.eqb x y
  | _, _ => false
  end.

(* Go's `==` on two interface values: None = run-time panic
   ("comparing uncomparable type []uint8") when both hold a []byte. *)
Definition iface_eq (a b : value) : option bool :=
  match a, b with
  | VBytes _, VBytes _ => None
  | _, _ => Some (deep_eqb a b)
  end.

(* which comparison MatchHeader uses (read from the source by the translator) *)
Inductive cmp_mode := CmpDeepEqual | CmpIfaceEq.

Definition value_cmp (m : cmp_mode) (a b : value) : option bool :=
  match m with CmpDeepEqual => Some (deep_eqb a b) | CmpIfaceEq => iface_eq a b end.

Definition table := list (bytes * value).

Fixpoint lookup (k : bytes) (t : table) : option value :=
  match t with
  | [] => None
  | (k', v) :: t' => if bytes_eqb k k' then Some v else lookup k t'
  end.

(* reflect.DeepEqual on two non-nil maps in canonical form *)
Fixpoint table_eqb (a b : table) : bool :=
  match a, b with
  | [], [] => true
  | (k, v) :: a', (k', v') :: b' => bytes_eqb k k' && deep_eqb v v' && table_eqb a' b'
  | _, _ => false
  end.

(* reflect.DeepEqual on two *amqp.Table: nil equals only nil *)
Definition opt_table_eqb (a b : option table) : bool :=
  match a, b with
  | None, None => true
  | Some x, Some y => table_eqb x y
  | _, _ => false
  end.

(* canonical form of a Go map: keys strictly increasing *)
Fixpoint keys_increasing (t : table) : bool :=
  match t with
  | [] => true
  | (k, _) :: t' => match t' with
                    | [] => true
                    | (k', _) :: _ => bytes_ltb k k' && keys_increasing t'
                    end
  end.

(* building a canonical table from successive map assignments t[k] = v *)
Fixpoint table_set (k : bytes) (v : value) (t : table) : table :=
  match t with
  | [] => [(k, v)]
  | (k', v') :: t' =>
      if bytes_eqb k k' then (k, v) :: t'
      else if bytes_ltb k k' then (k, v) :: (k', v') :: t'
      else (k', v') :: table_set k v t'
  end.

Definition table_of_assignments (l : list (bytes * value)) : table :=
  fold_left (fun t kv => table_set (fst kv) (snd kv) t) l [].
