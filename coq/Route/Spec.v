(* C08, the SPECIFICATION side: which queues AMQP 0-9-1 says a message goes to.
   Written from the text of the standard (sections 3.1.3.1-3.1.3.4 and the
   exchange class), not from the code.  It shares with the model only the data
   (bytes, value, table, binding, message_view) - none of the model's functions
   except the data-level helpers [lookup] and [has_prefix].

     direct   the binding key equals the routing key
     fanout   every binding
     topic    key and pattern are sequences of words delimited by dots;
              `*` stands for exactly one word, `#` for zero or more words
     headers  x-match = all: every argument (other than those starting "x-") is
              matched by the message's headers table; x-match = any: at least one is.
              An argument is matched when the headers hold that field and the
              argument's value is void or equal to the header's value.
              No x-match means all.
     default exchange: every queue is bound to it with its own name as key.

   The text leaves open what `any` means when there is no argument to match;
   the parameter [any_empty] is that choice. *)
From Coq Require Import List NArith ZArith Bool.
Import ListNotations.
From GMQ Require Import Route.Value Route.Exchange.
Open Scope N_scope.

(* ------------------------------------------------------------------ topic *)
Section TopicSpec.
  Variable A : Type.            (* words, over any alphabet *)
  Variables star hash : A.      (* the two wildcard words *)

  Inductive topic_matches : list A -> list A -> Prop :=
  | TM_nil : topic_matches [] []
  | TM_word : forall w ps ws, w <> star -> w <> hash ->
      topic_matches ps ws -> topic_matches (w :: ps) (w :: ws)
  | TM_star : forall w ps ws,
      topic_matches ps ws -> topic_matches (star :: ps) (w :: ws)
  | TM_hash : forall ps skipped ws,
      topic_matches ps ws -> topic_matches (hash :: ps) (skipped ++ ws).
End TopicSpec.

(* the words of a key: the maximal dot-free pieces; the empty key has no words *)
Fixpoint spec_split (s : bytes) : list bytes :=
  match s with
  | [] => [[]]
  | c :: s' =>
      if N.eqb c 46 then [] :: spec_split s'
      else match spec_split s' with
           | w :: ws => (c :: w) :: ws
           | [] => [[c]]
           end
  end.

Definition spec_words (s : bytes) : list bytes :=
  match s with [] => [] | _ => spec_split s end.

Definition spec_topic (pattern key : bytes) : Prop :=
  topic_matches bytes [42] [35] (spec_words pattern) (spec_words key).

(* ------------------------------------------------------------------ headers *)
(* equality of two field values: same type, same value (floats: IEEE equality) *)
Definition field_equal (a b : value) : Prop :=
  match a, b with
  | VFloat k x, VFloat k' y => k = k' /\ float_eqb k x y = true
  | _, _ => a = b
  end.

Definition reserved_arg (k : bytes) : bool := has_prefix [120; 45] k.     (* starts with "x-" *)

Definition match_args (args : table) : table := filter (fun kv => negb (reserved_arg (fst kv))) args.

Definition arg_matched (hdrs : table) (kv : bytes * value) : Prop :=
  exists hv, lookup (fst kv) hdrs = Some hv /\ (snd kv = VNil \/ field_equal (snd kv) hv).

Inductive xmode := XAll | XAny.

Definition spec_mode (args : table) : xmode :=
  match lookup [120; 45; 109; 97; 116; 99; 104] args with        (* x-match *)
  | Some (VStr s) | Some (VBytes s) =>                                   (* a string, short or long *)
      if bytes_eqb s [97; 110; 121] then XAny else XAll                  (* any *)
  | _ => XAll
  end.

Definition headers_rule (any_empty : bool) (args hdrs : table) : Prop :=
  match spec_mode args with
  | XAll => Forall (arg_matched hdrs) (match_args args)
  | XAny => Exists (arg_matched hdrs) (match_args args) \/ (match_args args = [] /\ any_empty = true)
  end.

(* an absent table is an empty table *)
Definition tbl (o : option table) : table := match o with Some t => t | None => [] end.

(* ------------------------------------------------------------------ routing *)
Inductive ex_kind := KDirect | KFanout | KTopic | KHeaders.

Definition binding_matches (any_empty : bool) (k : ex_kind) (b : binding) (m : message_view) : Prop :=
  match k with
  | KDirect => b_key b = m_key m
  | KFanout => True
  | KTopic => spec_topic (b_key b) (m_key m)
  | KHeaders => headers_rule any_empty (tbl (b_args b)) (tbl (m_headers m))
  end.

(* q receives the message: it has at least one binding on the named exchange that matches *)
Definition route_spec (any_empty : bool) (k : ex_kind) (bindings : list binding) (m : message_view) (q : name) : Prop :=
  exists b, In b bindings /\ b_queue b = q /\ b_exchange b = m_exchange m /\ binding_matches any_empty k b m.

(* the default exchange routes by queue name *)
Definition default_route_spec (queues : list name) (m : message_view) (q : name) : Prop :=
  In q queues /\ q = m_key m.

(* what a publish must do with the set [S] of queues the message routes to:
   one push into each of them and nowhere else; if there is none, the message is
   returned exactly when mandatory (otherwise dropped) and the confirm is owed at once *)
Definition pushes_to (q : name) (acts : list pub_action) : nat :=
  length (filter (fun a => match a with PPush q' => bytes_eqb q' q | _ => false end) acts).

Definition publish_spec (S : name -> Prop) (mandatory : bool) (acts : list pub_action) : Prop :=
  (forall q, S q -> pushes_to q acts = 1%nat) /\
  (forall q, ~ S q -> pushes_to q acts = 0%nat) /\
  ((exists q, S q) -> ~ In PReturn acts) /\
  ((forall q, ~ S q) -> (In PReturn acts <-> mandatory = true) /\ In PConfirm acts).

(* ------------------------------------------------------------------ binding maintenance *)
(* A binding is in effect exactly when the last operation that concerns it is a bind.
   [same] is the identity of bindings (queue, exchange, routing key, arguments);
   the list of operations is given latest first. *)
Fixpoint bound_after (same : binding -> binding -> bool) (latest_first : list bl_op) (b : binding) : bool :=
  match latest_first with
  | [] => false
  | BAppend b' :: earlier => if same b' b then true else bound_after same earlier b
  | BRemove b' :: earlier => if same b' b then false else bound_after same earlier b
  | BRemoveQueue q :: earlier => if bytes_eqb (b_queue b) q then false else bound_after same earlier b
  end.

(* no binding is held twice: no two entries are the same binding *)
Fixpoint no_equal_pair (same : binding -> binding -> bool) (bs : list binding) : Prop :=
  match bs with
  | [] => True
  | b :: t => (forall x, In x t -> same b x = false) /\ no_equal_pair same t
  end.

(* ------------------------------------------------------------------ link to the code's facts *)
From GMQ Require Import Route.Cfg.

(* the exchange kind a type id of the code stands for *)
Definition kind_of (c : route_cfg) (ty : N) : option ex_kind :=
  if N.eqb ty (c_direct c) then Some KDirect
  else if N.eqb ty (c_fanout c) then Some KFanout
  else if N.eqb ty (c_topic c) then Some KTopic
  else if N.eqb ty (c_headers c) then Some KHeaders
  else None.

Definition is_topic_kind (k : ex_kind) : bool := match k with KTopic => true | _ => false end.

(* the bindings of an exchange are results of NewBinding, made as queueBind makes them *)
Definition binding_wf (c : route_cfg) (k : ex_kind) (b : binding) : Prop :=
  new_binding c (b_queue b) (b_exchange b) (b_key b) (b_args b) (is_topic_kind k) = Some b.

(* trigger of finding F50: the message has no headers table at all and the binding has an
   argument table without any argument to match *)
Definition no_f50 (m : message_view) (b : binding) : Prop :=
  m_headers m = None -> forall t, b_args b = Some t -> match_args t <> [].
