(* Bridge for the broker model: decoded field tables of the codec model (Codec.Value.fval,
   bit patterns + Go dynamic type) -> the routing model's canonical tables (Route.Value).
   Definitions only.  Not part of the cone of Props/C08.v.

   None = the table holds a field array or a nested table: outside the routing model
   (the routing spec leaves such values unconstrained; after the F11 repair they cannot panic). *)
From Coq Require Import List NArith ZArith Bool.
Import ListNotations.
From GMQ Require Codec.Desc Codec.Value.
From GMQ Require Import Route.Value.
Open Scope N_scope.

(* two's complement reading of an n-bit pattern *)
Definition signed (bits : N) (n : N) : Z :=
  if N.ltb n (2 ^ (bits - 1)) then Z.of_N n else (Z.of_N n - Z.of_N (2 ^ bits))%Z.

Definition of_fval (v : Codec.Value.fval) : option value :=
  match v with
  | Codec.Value.VNil => Some VNil
  | Codec.Value.VDec s x => Some (VDec s (signed 32 x))
  | Codec.Value.VStr Codec.Desc.TString s => Some (VStr s)
  | Codec.Value.VStr Codec.Desc.TBytes s => Some (VBytes s)
  | Codec.Value.VStr _ _ => None
  | Codec.Value.VNum t n =>
      match t with
      | Codec.Desc.TBool => Some (VBool (negb (N.eqb n 0)))
      | Codec.Desc.TInt8 => Some (VInt I8 (signed 8 n))
      | Codec.Desc.TUint8 => Some (VInt U8 (Z.of_N n))
      | Codec.Desc.TInt16 => Some (VInt I16 (signed 16 n))
      | Codec.Desc.TUint16 => Some (VInt U16 (Z.of_N n))
      | Codec.Desc.TInt32 => Some (VInt I32 (signed 32 n))
      | Codec.Desc.TUint32 => Some (VInt U32 (Z.of_N n))
      | Codec.Desc.TInt64 => Some (VInt I64 (signed 64 n))
      | Codec.Desc.TUint64 => Some (VInt U64 (Z.of_N n))
      | Codec.Desc.TFloat32 => Some (VFloat F32 n)
      | Codec.Desc.TFloat64 => Some (VFloat F64 n)
      | Codec.Desc.TTime => Some (VTime (signed 64 n))      (* time.Unix(int64(seconds), 0) *)
      | _ => None
      end
  | Codec.Value.VArr _ | Codec.Value.VTab _ _ => None
  end.

Fixpoint of_entries (t : list (list N * Codec.Value.fval)) : option (list (bytes * value)) :=
  match t with
  | [] => Some []
  | (k, v) :: r =>
      match of_fval v, of_entries r with
      | Some v', Some r' => Some ((k, v') :: r')
      | _, _ => None
      end
  end.

(* a decoded table (entries in wire order, later duplicates win) as a canonical routing table *)
Definition of_codec_table (t : list (list N * Codec.Value.fval)) : option table :=
  option_map table_of_assignments (of_entries t).
