(* msgstorage: the message store over the engine.  Definitions only.

   ===================== INTERFACE (for the broker and queue models) =====================
   msg                      { m_id : N; m_data : N; m_ctag : option N; m_meta : N; m_expected : N }
                            m_data is an opaque handle of the content (index it into your own
                            table); m_ctag = Some tag iff message.ConfirmMeta != nil (tag =
                            ConfirmMeta.DeliveryTag); m_meta identifies the ConfirmMeta OBJECT (copies of one
                            publish in several queues share it), m_expected = its ExpectedConfirms.  What the engine holds is `strip m`
                            (Marshal stores neither ConfirmMeta nor DeliveryCount).
   msg_key q id             makeKey(id, q)           -- from Store/gen/KeyFmtGen.v
   msg_prefix_* q           the prefix each prefix-scanning method uses
   mstore                   { ms_engine; ms_persistent; ms_confirm; ms_db; ms_add; ms_upd; ms_del; ms_fly }
   ms_init e persistent confirm_mode
   mlabel                   MAdd m q | MUpdate m q | MDel m q | MPurge q                  (API calls; MPurge is
                              disabled while a persist is in flight: flushLock)
                            | MIterFrom q id limit | MLength q | MIterate q limit | MRecover q limit   (queries)
                            | MPersistSwap | MPersistBatch | MPersistConfirm               (persist, split where
                              the code holds no lock: swap under persistLock / ProcessBatch / confirm loop)
                            | MPersistTick  (= the three in a row)
                            | MClose (graceful stop: persist once more, then as MKill)
                            | MKill  (process dies: only ms_db survives; a transient store is wiped)
   mevent                   EvBatch ops | EvRelay key m | EvCancelled key | EvMsgs l n | EvLen n | EvPanic
                            EvRelay k m : storage.confirm(m) whose guard held and whose `ConfirmMeta.Confirm()`
                            returned true (this call completed the message), then `confirmSyncCh <- m`.
                            The ActualConfirms counters the store has advanced are ms_counts (meta -> count);
                            MExtConfirm meta = a Confirm() call made elsewhere (queue.Push's transient branch).
                            EvCancelled k : GHOST event at the snapshot: the add of k was cancelled by a del of k
                            (the message was settled before the flush; persist remembers it in `settled`)
   ms_step : mstore -> mlabel -> mstore * list mevent        total; a disabled label stutters
   ms_run  : mstore -> list mlabel -> mstore * list mevent
   ms_recover st q limit    what Queue.LoadFromMsgStorage reads: (messages in key order, queueLength)
   =======================================================================================

   Order inside Go maps is not modelled: pending maps are key-ordered association lists, so the
   batch lists its Sets and the confirm loop emits its relays in key order (compare as sets). *)
From Coq Require Import String List NArith Bool.
From GMQ Require Import Store.KeyFmt Store.gen.KeyFmtGen Store.gen.OptsGen Store.KV.
Import ListNotations.
Open Scope N_scope.

Record msg := { m_id : N; m_data : N; m_ctag : option N; m_meta : N; m_expected : N }.

Definition strip (m : msg) : msg := {| m_id := m_id m; m_data := m_data m; m_ctag := None; m_meta := 0; m_expected := 0 |}.

(* ---- keys ---- *)
Definition render_kpart (q : bytes) (id : N) (p : kpart) : bytes :=
  match p with
  | KLit s => bytes_of_string s
  | KQueue => q
  | KId => fmt_id msg_id_signed msg_id_base id
  end.

Definition render_kparts (ps : list kpart) (q : bytes) (id : N) : bytes :=
  concat (map (render_kpart q id) ps).

Definition msg_key (q : bytes) (id : N) : key := render_kparts msg_make_key q id.
Definition msg_prefix_iter (q : bytes) : key := render_kparts msg_prefix_iterate q 0.
Definition msg_prefix_from (q : bytes) : key := render_kparts msg_prefix_iterate_from q 0.
Definition msg_prefix_len (q : bytes) : key := render_kparts msg_prefix_length q 0.
Definition msg_prefix_del (q : bytes) : key := render_kparts msg_prefix_purge q 0.
(* from := makeKey(msgID, queue) *)
Definition msg_from_key (q : bytes) (id : N) : key :=
  if msg_from_uses_make_key then msg_key q id else msg_prefix_from q.
(* getQueueFromKey *)
Definition queue_of_key (k : key) : option bytes := split_index queue_from_key k.

(* ---- state ---- *)
Inductive stage := Swapped | Written.
(* the maps persist() took out under the lock, after the del-cancels-add pass *)
(* if_settled: the adds a del of the same key cancelled (`settled`): never written, still confirmed *)
Record inflight := { if_stage : stage; if_add : kv msg; if_upd : kv msg; if_del : kv msg; if_settled : kv msg }.

Record mstore := {
  ms_engine : engine;
  ms_persistent : bool;      (* false: the transient store, whose directory is wiped at start *)
  ms_confirm : bool;         (* ReceiveConfirms() was called *)
  ms_db : kv msg;            (* the engine, after the last completed Set/Del/batch *)
  ms_add : kv msg; ms_upd : kv msg; ms_del : kv msg;
  ms_fly : option inflight;
  ms_counts : list (N * N)   (* ConfirmMeta object -> ActualConfirms (in-memory objects: lost at Kill) *)
}.

Definition ms_init (e : engine) (persistent confirm : bool) : mstore :=
  {| ms_engine := e; ms_persistent := persistent; ms_confirm := confirm; ms_db := [];
     ms_add := []; ms_upd := []; ms_del := []; ms_fly := None; ms_counts := [] |}.

Inductive mevent :=
| EvBatch (ops : list (bop msg))
| EvRelay (k : key) (m : msg)
| EvCancelled (k : key)
| EvMsgs (l : list msg) (n : N)
| EvLen (n : N)
| EvPanic.

Inductive mlabel :=
| MAdd (m : msg) (q : bytes) | MUpdate (m : msg) (q : bytes) | MDel (m : msg) (q : bytes) | MPurge (q : bytes)
| MIterFrom (q : bytes) (id limit : N) | MLength (q : bytes) | MIterate (q : bytes) (limit : N) | MRecover (q : bytes) (limit : N)
| MPersistSwap | MPersistBatch | MPersistConfirm | MPersistTick
| MExtConfirm (meta : N)
| MClose
| MKill.

(* ---- persist ---- *)
(* for delKey := range del { if add has it { delete(add); rmDel }; delete(update) }; del -= rmDel *)
Definition cancel_add (add del : kv msg) : kv msg :=
  if persist_del_cancels_add then filter (fun e => negb (kv_mem del (fst e))) add else add.
(* settled = the adds removed by the pass above *)
Definition settled_of (add del : kv msg) : kv msg :=
  if persist_del_cancels_add && persist_settled_confirmed then filter (fun e => kv_mem del (fst e)) add else [].
Definition cancel_upd (upd del : kv msg) : kv msg :=
  if persist_del_drops_update then filter (fun e => negb (kv_mem del (fst e))) upd else upd.
Definition cancel_del (add del : kv msg) : kv msg :=
  if persist_cancelled_del_removed
  then filter (fun e => negb (kv_mem add (fst e))) del else del.

Definition group_ops (f : inflight) (g : batch_group) : list (bop msg) :=
  match g with
  | GAdd => map (fun e => BSet (fst e) (strip (snd e))) (if_add f)
  | GUpdate => map (fun e => BSet (fst e) (strip (snd e))) (if_upd f)
  | GDel => map (fun e => BDel (fst e)) (if_del f)
  end.
Definition batch_of (f : inflight) : list (bop msg) := flat_map (group_ops f) persist_batch_order.

(* storage.confirm: message.ConfirmMeta != nil && storage.confirmMode && DeliveryTag > 0, then meta.Confirm():
   ActualConfirms++ and true iff that made it equal to ExpectedConfirms *)
Definition wants_relay (confirm : bool) (m : msg) : bool :=
  confirm && match m_ctag m with Some t => 0 <? t | None => false end.

Fixpoint count_of (cs : list (N * N)) (meta : N) : N :=
  match cs with [] => 0 | (i, n) :: t => if N.eqb i meta then n else count_of t meta end.
Fixpoint count_set (cs : list (N * N)) (meta n : N) : list (N * N) :=
  match cs with
  | [] => [(meta, n)]
  | (i, x) :: t => if N.eqb i meta then (i, n) :: t else (i, x) :: count_set t meta n
  end.
(* Confirm(): new counters and whether this call completed the message *)
Definition meta_confirm (cs : list (N * N)) (m : msg) : list (N * N) * bool :=
  let n := count_of cs (m_meta m) + 1 in
  (count_set cs (m_meta m) n, if persist_confirm_counts then N.eqb n (m_expected m) else true).

Fixpoint confirm_all (confirm : bool) (cs : list (N * N)) (l : kv msg) : list (N * N) * list mevent :=
  match l with
  | [] => (cs, [])
  | (k, m) :: t =>
    if wants_relay confirm m then
      let '(cs1, done) := meta_confirm cs m in
      let '(cs2, ev) := confirm_all confirm cs1 t in
      (cs2, if done then EvRelay k m :: ev else ev)
    else confirm_all confirm cs t
  end.
(* `for add { confirm }; for settled { confirm }` *)
Definition relays_of (confirm : bool) (cs : list (N * N)) (f : inflight) : list (N * N) * list mevent :=
  let '(cs1, e1) := confirm_all confirm cs (if_add f) in
  let '(cs2, e2) := confirm_all confirm cs1 (if_settled f) in (cs2, e1 ++ e2).

Definition ms_kill (st : mstore) : mstore :=
  {| ms_engine := ms_engine st; ms_persistent := ms_persistent st; ms_confirm := ms_confirm st;
     ms_db := if ms_persistent st then ms_db st else [];
     ms_add := []; ms_upd := []; ms_del := []; ms_fly := None; ms_counts := [] |}.

Definition set_db (st : mstore) (db : kv msg) (fly : option inflight) (cs : list (N * N)) : mstore :=
  {| ms_engine := ms_engine st; ms_persistent := ms_persistent st; ms_confirm := ms_confirm st; ms_db := db;
     ms_add := ms_add st; ms_upd := ms_upd st; ms_del := ms_del st; ms_fly := fly; ms_counts := cs |}.

Definition ms_swap (st : mstore) : mstore * list mevent :=
  match ms_fly st with
  | Some _ => (st, [])
  | None =>
    let f := {| if_stage := Swapped; if_add := cancel_add (ms_add st) (ms_del st);
                if_upd := cancel_upd (ms_upd st) (ms_del st); if_del := cancel_del (ms_add st) (ms_del st);
                if_settled := settled_of (ms_add st) (ms_del st) |} in
    ({| ms_engine := ms_engine st; ms_persistent := ms_persistent st; ms_confirm := ms_confirm st; ms_db := ms_db st;
        ms_add := []; ms_upd := []; ms_del := []; ms_fly := Some f; ms_counts := ms_counts st |},
     map (fun e => EvCancelled (fst e)) (if_settled f))
  end.

Definition written (f : inflight) : inflight :=
  {| if_stage := Written; if_add := if_add f; if_upd := if_upd f; if_del := if_del f; if_settled := if_settled f |}.

(* the emission order of batch and relays follows the source (persist_confirm_after_batch) *)
Definition ms_batch (st : mstore) : mstore * list mevent :=
  match ms_fly st with
  | Some f =>
    match if_stage f with
    | Swapped =>
      let ops := batch_of f in
      let '(cs, rel) := if persist_confirm_after_batch then (ms_counts st, []) else relays_of (ms_confirm st) (ms_counts st) f in
      match eng_batch (ms_engine st) (ms_db st) ops with
      | Some db' => (set_db st db' (Some (written f)) cs, rel ++ [EvBatch ops])
      | None => (ms_kill st, rel ++ [EvPanic])       (* panic(err): the process dies *)
      end
    | Written => (st, [])
    end
  | None => (st, [])
  end.

Definition ms_confirm_step (st : mstore) : mstore * list mevent :=
  match ms_fly st with
  | Some f =>
    match if_stage f with
    | Written =>
      let '(cs, rel) := if persist_confirm_after_batch then relays_of (ms_confirm st) (ms_counts st) f else (ms_counts st, []) in
      (set_db st (ms_db st) None cs, rel)
    | Swapped => (st, [])
    end
  | None => (st, [])
  end.

(* ---- API ---- *)
Definition with_pending (st : mstore) (a u d : kv msg) : mstore :=
  {| ms_engine := ms_engine st; ms_persistent := ms_persistent st; ms_confirm := ms_confirm st; ms_db := ms_db st;
     ms_add := a; ms_upd := u; ms_del := d; ms_fly := ms_fly st; ms_counts := ms_counts st |}.

Definition ms_add_msg (st : mstore) (m : msg) (q : bytes) : mstore :=
  with_pending st (kv_set (ms_add st) (msg_key q (m_id m)) m) (ms_upd st) (ms_del st).
Definition ms_update_msg (st : mstore) (m : msg) (q : bytes) : mstore :=
  with_pending st (ms_add st) (kv_set (ms_upd st) (msg_key q (m_id m)) m) (ms_del st).
Definition ms_del_msg (st : mstore) (m : msg) (q : bytes) : mstore :=
  with_pending st (ms_add st) (ms_upd st) (kv_set (ms_del st) (msg_key q (m_id m)) m).
(* PurgeQueue: under flushLock (which persist holds for its whole body: a purge never runs between persist's snapshot
   and its batch - here: the label is disabled while a persist is in flight), under persistLock every pending add whose
   key is makeKey(message.ID, queue) is cancelled by a del of the same key (persist will confirm it through `settled`
   without writing it) and every such pending update is dropped; then the engine DeleteByPrefix as before *)
Definition purge_del (add del : kv msg) (q : bytes) : kv msg :=
  if purge_cancels_pending_adds
  then fold_left (fun d e => if keqb (fst e) (msg_key q (m_id (snd e))) then kv_set d (fst e) (snd e) else d) add del
  else del.
Definition purge_upd (upd : kv msg) (q : bytes) : kv msg :=
  if purge_drops_pending_updates
  then filter (fun e => negb (keqb (fst e) (msg_key q (m_id (snd e))))) upd
  else upd.
Definition purge_blocked (st : mstore) : bool :=
  purge_waits_for_persist && match ms_fly st with Some _ => true | None => false end.
Definition ms_purge (st : mstore) (q : bytes) : mstore :=
  if purge_blocked st then st
  else {| ms_engine := ms_engine st; ms_persistent := ms_persistent st; ms_confirm := ms_confirm st;
          ms_db := eng_del_prefix (ms_engine st) (ms_db st) (msg_prefix_del q);
          ms_add := ms_add st; ms_upd := purge_upd (ms_upd st) q; ms_del := purge_del (ms_add st) (ms_del st) q;
          ms_fly := ms_fly st; ms_counts := ms_counts st |}.

Definition ms_iter_from (st : mstore) (q : bytes) (id limit : N) : list msg * N :=
  let '(r, n) := eng_iter_prefix_from (ms_engine st) (ms_db st) (msg_prefix_from q) (msg_from_key q id) limit in
  (map snd r, n).
Definition ms_iter (st : mstore) (q : bytes) (limit : N) : list msg * N :=
  let '(r, n) := eng_iter_prefix (ms_engine st) (ms_db st) (msg_prefix_iter q) limit in (map snd r, n).
Definition ms_length (st : mstore) (q : bytes) : N :=
  eng_count_prefix (ms_engine st) (ms_db st) (msg_prefix_len q).

(* Queue.LoadFromMsgStorage: IterateByQueueFromMsgID(name, 0, maxMessagesInRAM), then
   queueLength = GetQueueLength(name) if iterated >= maxMessagesInRAM else iterated *)
Definition ms_recover (st : mstore) (q : bytes) (limit : N) : list msg * N :=
  let '(l, n) := ms_iter_from st q 0 limit in
  (l, if limit <=? n then ms_length st q else n).

Definition seq_steps (f g : mstore -> mstore * list mevent) (st : mstore) : mstore * list mevent :=
  let '(s1, e1) := f st in let '(s2, e2) := g s1 in (s2, e1 ++ e2).

Definition ms_step (st : mstore) (l : mlabel) : mstore * list mevent :=
  match l with
  | MAdd m q => (ms_add_msg st m q, [])
  | MUpdate m q => (ms_update_msg st m q, [])
  | MDel m q => (ms_del_msg st m q, [])
  | MPurge q => (ms_purge st q, [])
  | MIterFrom q id limit => let '(r, n) := ms_iter_from st q id limit in (st, [EvMsgs r n])
  | MIterate q limit => let '(r, n) := ms_iter st q limit in (st, [EvMsgs r n])
  | MLength q => (st, [EvLen (ms_length st q)])
  | MRecover q limit => let '(r, n) := ms_recover st q limit in (st, [EvMsgs r n])
  | MPersistSwap => ms_swap st
  | MPersistBatch => ms_batch st
  | MPersistConfirm => ms_confirm_step st
  | MPersistTick => seq_steps ms_swap (seq_steps ms_batch ms_confirm_step) st
  | MExtConfirm meta =>
    (set_db st (ms_db st) (ms_fly st) (count_set (ms_counts st) meta (count_of (ms_counts st) meta + 1)), [])
  | MClose =>     (* graceful stop: one more persist (if the source says so), then only the engine survives *)
    if close_persists
    then let '(s1, e1) := seq_steps ms_swap (seq_steps ms_batch ms_confirm_step) st in (ms_kill s1, e1)
    else (ms_kill st, [])
  | MKill => (ms_kill st, [])
  end.

Fixpoint ms_run (st : mstore) (ls : list mlabel) : mstore * list mevent :=
  match ls with
  | [] => (st, [])
  | l :: r => let '(s1, e1) := ms_step st l in let '(s2, e2) := ms_run s1 r in (s2, e1 ++ e2)
  end.
