(* Specification-side definitions for the store theorems (C09, C17 isolation, C04 core,
   C05 not-early): name conditions as boolean predicates, the abstract topology a sequence of
   srvstorage operations denotes, and trace predicates over msgstorage labels.
   Definitions only. *)
From Coq Require Import List NArith Bool.
From GMQ Require Import Store.KeyFmt Store.gen.KeyFmtGen Store.KV Store.SrvStore Store.MsgStore.
Import ListNotations.
Open Scope N_scope.

(* ------------------------------------------------------------ name conditions *)
Definition dotfree (s : bytes) : bool := negb (mem_byte 46 s).       (* no '.' *)
Definition usfree (s : bytes) : bool := negb (mem_byte 95 s).        (* no '_' *)
Definition short (s : bytes) : bool := N.of_nat (length s) <? 256.   (* fits an AMQP shortstr *)

(* The trigger of F21 for queue names, and nothing more: the scan prefix of one name is a
   prefix of the scan prefix of a different name ("a" and "a.b": "msg.a." / "msg.a.b.") *)
Definition nof21_pair (q q' : bytes) : bool :=
  bytes_eqb q q' || negb (is_prefix (msg_prefix_del q) (msg_prefix_del q')).
Definition nof21 (names : list bytes) : bool :=
  forallb (fun q => forallb (nof21_pair q) names) names.

(* ids whose decimal rendering has the same number of digits, and that FormatInt(int64(id))
   does not print as negative *)
Definition same_dec_len (ids : list N) : bool :=
  match ids with
  | [] => true
  | i :: r => forallb (fun j => Nat.eqb (length (fmt_id msg_id_signed msg_id_base j))
                                        (length (fmt_id msg_id_signed msg_id_base i))) r
  end.
Definition id_ok (id : N) : bool := id <? two63.

(* ------------------------------------------------------------ srvstorage: what an op list denotes *)
Inductive ident :=
| IVhost (v : bytes) | IExchange (v n : bytes) | IQueue (v n : bytes) | IBinding (v q e k : bytes).

Definition ident_eqb (a b : ident) : bool :=
  match a, b with
  | IVhost v, IVhost v' => bytes_eqb v v'
  | IExchange v n, IExchange v' n' => bytes_eqb v v' && bytes_eqb n n'
  | IQueue v n, IQueue v' n' => bytes_eqb v v' && bytes_eqb n n'
  | IBinding v q e k, IBinding v' q' e' k' => bytes_eqb v v' && bytes_eqb q q' && bytes_eqb e e' && bytes_eqb k k'
  | _, _ => false
  end.

Inductive entity := EVhost (system : bool) | EExchange (e : exchange) | EQueue (q : queue) | EBinding (b : binding).

Definition binding_ident (v : bytes) (b : binding) : ident := IBinding v (bd_queue b) (bd_exchange b) (bd_key b).

(* Some (id, Some e): declare/overwrite; Some (id, None): delete; None: no effect *)
Definition op_effect (o : sop) : option (ident * option entity) :=
  match o with
  | SAddVhost v s => Some (IVhost v, Some (EVhost s))
  | SAddExchange v e => Some (IExchange v (ex_name e), Some (EExchange e))
  | SDelExchange v e => Some (IExchange v (ex_name e), None)
  | SAddQueue v q => Some (IQueue v (qu_name q), Some (EQueue q))
  | SDelQueue v q => Some (IQueue v (qu_name q), None)
  | SAddBinding v b => Some (binding_ident v b, Some (EBinding b))
  | SDelBinding v b => Some (binding_ident v b, None)
  | SKill => None
  end.

(* the entity last declared and not since deleted, per identity *)
Definition topo := ident -> option entity.
Definition topo_step (t : topo) (o : sop) : topo :=
  match op_effect o with
  | Some (i, e) => fun id => if ident_eqb id i then e else t id
  | None => t
  end.
Definition topo_spec (ops : list sop) : topo := fold_left topo_step ops (fun _ => None).

(* what survives of a declared entity (Marshal then Unmarshal, and loadQueues' NewQueue) *)
Definition restore_exchange (e : exchange) : exchange := unmarshal_exchange (marshal_exchange e).
Definition restore_queue (q : queue) : queue := unmarshal_queue (marshal_queue q).
Definition restore_binding (b : binding) : binding := unmarshal_binding (marshal_binding b).

(* the fields the stored record keeps (F22 is everything else) *)
Definition exchange_fully_stored (e : exchange) : bool :=
  ex_durable e && negb (ex_autodelete e) && negb (ex_internal e) && negb (ex_system e).
Definition queue_fully_stored (q : queue) : bool :=
  qu_durable q && negb (qu_exclusive q) && N.eqb (qu_conn_id q) 0.
Definition binding_fully_stored (b : binding) : bool := negb (bd_match_any b).

(* identities whose keys the format separates (NoF21 for metadata) and whose records fit *)
Definition ident_ok (i : ident) : bool :=
  match i with
  | IVhost v => dotfree v
  | IExchange v n => dotfree v && short n
  | IQueue v n => dotfree v && short n
  | IBinding v q e k => dotfree v && usfree q && usfree e && short q && short e && short k
  end.
Definition entity_ok (e : option entity) : bool :=
  match e with
  | Some (EExchange x) => ex_type x <? 256
  | Some (EBinding b) => N.of_nat (length (bd_args b)) <? 4294967296
  | _ => true
  end.
Definition op_ok (o : sop) : bool :=
  match op_effect o with
  | Some (i, e) => ident_ok i && entity_ok e
  | None => true
  end.
Definition ops_ok (ops : list sop) : bool := forallb op_ok ops.

(* ------------------------------------------------------------ msgstorage: trace predicates *)
(* the queue an API call is addressed to *)
Definition addressed (l : mlabel) : option bytes :=
  match l with
  | MAdd _ q | MUpdate _ q | MDel _ q | MPurge q => Some q
  | MIterFrom q _ _ | MLength q | MIterate q _ | MRecover q _ => Some q
  | _ => None
  end.
Definition addressed_to (q : bytes) (l : mlabel) : bool :=
  match addressed l with Some q' => bytes_eqb q q' | None => false end.

Definition label_names (ls : list mlabel) : list bytes :=
  flat_map (fun l => match addressed l with Some q => [q] | None => [] end) ls.

Definition is_del_of (k : key) (l : mlabel) : bool :=
  match l with MDel m q => keqb (msg_key q (m_id m)) k | _ => false end.
Definition is_purge_of (q : bytes) (l : mlabel) : bool :=
  match l with MPurge q' => bytes_eqb q q' | _ => false end.
Definition is_write_of (k : key) (l : mlabel) : bool :=
  match l with
  | MAdd m q | MUpdate m q => keqb (msg_key q (m_id m)) k
  | _ => false
  end.

Definition relay_in (k : key) (evs : list mevent) : bool :=
  existsb (fun e => match e with EvRelay k' _ => keqb k k' | _ => false end) evs.
Definition batch_sets (k : key) (e : mevent) : bool :=
  match e with
  | EvBatch ops => existsb (fun o => match o with BSet k' _ => keqb k k' | BDel _ => false end) ops
  | _ => false
  end.

Definition cancelled_ev (k : key) (e : mevent) : bool :=
  match e with EvCancelled k' => keqb k k' | _ => false end.
Definition is_add_of (k : key) (l : mlabel) : bool :=
  match l with MAdd m q => keqb (msg_key q (m_id m)) k | _ => false end.

(* what the store holds for queue q: what recover reads, and the pending entries under
   q's scan prefix *)
Definition under (q : bytes) (m : kv msg) : kv msg := kv_filter_prefix m (msg_prefix_del q).
Definition fly_under (q : bytes) (f : option inflight) : option (stage * kv msg * kv msg * kv msg) :=
  match f with
  | Some f => Some (if_stage f, under q (if_add f), under q (if_upd f), under q (if_del f))
  | None => None
  end.
Record qview := { qv_db : kv msg; qv_add : kv msg; qv_upd : kv msg; qv_del : kv msg;
                  qv_fly : option (stage * kv msg * kv msg * kv msg) }.
Definition messages_of (st : mstore) (q : bytes) : qview :=
  {| qv_db := under q (ms_db st); qv_add := under q (ms_add st); qv_upd := under q (ms_upd st);
     qv_del := under q (ms_del st); qv_fly := fly_under q (ms_fly st) |}.

(* the ids Added or Updated for queue q *)
Definition ids_for (q : bytes) (ls : list mlabel) : list N :=
  flat_map (fun l => match l with
                     | MAdd m q' | MUpdate m q' => if bytes_eqb q q' then [m_id m] else []
                     | _ => []
                     end) ls.

Fixpoint sorted_ids (l : list msg) : bool :=
  match l with
  | a :: ((b :: _) as t) => (m_id a <? m_id b) && sorted_ids t
  | _ => true
  end.
