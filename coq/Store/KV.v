(* The key/value engine under srvstorage and msgstorage: an ordered byte-keyed map
   (association list, strictly increasing in lexicographic byte order), with the
   operations of interfaces.DbStorage as badger implements them and as the buntdb
   wrapper actually codes them (three stubs, IterateByPrefix as a pattern match that
   ignores its limit; which of them are stubs comes from Store/gen/OptsGen.v).
   Definitions only.

   What is ASSUMED of the real engines and not modelled: a completed Set/Del/batch is
   durable (given SyncWrites / SyncPolicy Always, see OptsGen.v) and a batch is atomic. *)
From Coq Require Import List NArith Bool.
From GMQ Require Import Store.KeyFmt Store.gen.OptsGen.
Import ListNotations.
Open Scope N_scope.

Definition key := bytes.

Fixpoint kcmp (a b : key) : comparison :=
  match a, b with
  | [], [] => Eq
  | [], _ :: _ => Lt
  | _ :: _, [] => Gt
  | x :: a', y :: b' =>
    match N.compare x y with
    | Eq => kcmp a' b'
    | c => c
    end
  end.

Definition keqb (a b : key) : bool := match kcmp a b with Eq => true | _ => false end.
Definition kltb (a b : key) : bool := match kcmp a b with Lt => true | _ => false end.

Inductive engine := Badger | Bunt.

Section KV.
  Variable V : Type.

  Definition kv := list (key * V).

  Fixpoint kv_get (m : kv) (k : key) : option V :=
    match m with
    | [] => None
    | (k', v) :: t => if keqb k k' then Some v else kv_get t k
    end.

  Definition kv_mem (m : kv) (k : key) : bool :=
    match kv_get m k with Some _ => true | None => false end.

  Fixpoint kv_set (m : kv) (k : key) (v : V) : kv :=
    match m with
    | [] => [(k, v)]
    | (k', v') :: t =>
      match kcmp k k' with
      | Eq => (k, v) :: t
      | Lt => (k, v) :: m
      | Gt => (k', v') :: kv_set t k v
      end
    end.

  Definition kv_del (m : kv) (k : key) : kv :=
    filter (fun e => negb (keqb k (fst e))) m.

  (* full iteration, in key order *)
  Definition kv_iterate (m : kv) : kv := m.

  Definition kv_filter_prefix (m : kv) (p : key) : kv :=
    filter (fun e => is_prefix p (fst e)) m.

  Definition kv_del_prefix (m : kv) (p : key) : kv :=
    filter (fun e => negb (is_prefix p (fst e))) m.

  (* it.Seek(from): skip every key below `from` *)
  Fixpoint kv_seek (m : kv) (from : key) : kv :=
    match m with
    | [] => []
    | (k, v) :: t => if kltb k from then kv_seek t from else m
    end.

  (* it.ValidForPrefix(p): stop at the first key without the prefix *)
  Fixpoint kv_while_prefix (m : kv) (p : key) : kv :=
    match m with
    | [] => []
    | (k, v) :: t => if is_prefix p k then (k, v) :: kv_while_prefix t p else []
    end.

  Fixpoint take_n {A} (n : N) (l : list A) : list A :=
    match l with
    | [] => []
    | x :: t => if n =? 0 then [] else x :: take_n (N.pred n) t
    end.

  (* `(limit > 0 && total < limit) || limit <= 0` : 0 means no limit *)
  Definition apply_limit {A} (limit : N) (l : list A) : list A :=
    if limit =? 0 then l else take_n limit l.

  (* badger: Seek(from); ValidForPrefix(prefix) && limit *)
  Definition kv_iter_prefix_from (m : kv) (p from : key) (limit : N) : kv :=
    apply_limit limit (kv_while_prefix (kv_seek m from) p).

  Definition kv_iter_prefix (m : kv) (p : key) (limit : N) : kv :=
    kv_iter_prefix_from m p p limit.

  Definition kv_count_prefix (m : kv) (p : key) : N :=
    N.of_nat (length (kv_while_prefix (kv_seek m p) p)).

  (* ---- batches ---- *)
  Inductive bop := BSet (k : key) (v : V) | BDel (k : key).

  Definition bop_key (o : bop) : key := match o with BSet k _ => k | BDel k => k end.

  Definition kv_apply (m : kv) (o : bop) : kv :=
    match o with
    | BSet k v => kv_set m k v
    | BDel k => kv_del m k
    end.

  Definition kv_batch (m : kv) (ops : list bop) : kv := fold_left kv_apply ops m.

  (* buntdb: tx.Delete of an absent key returns ErrNotFound, the transaction function
     returns it, Update rolls back: None = error, nothing written *)
  Fixpoint kv_batch_strict (m : kv) (ops : list bop) : option kv :=
    match ops with
    | [] => Some m
    | BSet k v :: r => kv_batch_strict (kv_set m k v) r
    | BDel k :: r => if kv_mem m k then kv_batch_strict (kv_del m k) r else None
    end.

  (* ---- the two wrappers ---- *)
  Definition eng_batch (e : engine) (m : kv) (ops : list bop) : option kv :=
    match e with
    | Badger => Some (kv_batch m ops)
    | Bunt => kv_batch_strict m ops
    end.

  (* result list and returned count *)
  Definition eng_iter_prefix_from (e : engine) (m : kv) (p from : key) (limit : N) : kv * N :=
    match e with
    | Badger =>
      if badger_stub_iterate_by_prefix_from then ([], 0)
      else let r := kv_iter_prefix_from m p from limit in (r, N.of_nat (length r))
    | Bunt =>
      if bunt_stub_iterate_by_prefix_from then ([], 0)
      else let r := kv_iter_prefix_from m p from limit in (r, N.of_nat (length r))
    end.

  (* buntdb IterateByPrefix: AscendKeys(pattern = prefix): for a pattern without the glob
     characters * ? \ only the key equal to it matches; limit ignored; returns 0 *)
  Definition eng_iter_prefix (e : engine) (m : kv) (p : key) (limit : N) : kv * N :=
    match e with
    | Badger =>
      if badger_stub_iterate_by_prefix then ([], 0)
      else let r := kv_iter_prefix m p limit in (r, N.of_nat (length r))
    | Bunt =>
      if bunt_stub_iterate_by_prefix then ([], 0)
      else if bunt_iterate_by_prefix_is_pattern
           then (filter (fun e => keqb p (fst e)) m, 0)
           else let r := kv_iter_prefix m p (if bunt_iterate_by_prefix_ignores_limit then 0 else limit) in
                (r, N.of_nat (length r))
    end.

  Definition eng_del_prefix (e : engine) (m : kv) (p : key) : kv :=
    match e with
    | Badger => if badger_stub_delete_by_prefix then m else kv_del_prefix m p
    | Bunt => if bunt_stub_delete_by_prefix then m else kv_del_prefix m p
    end.

  Definition eng_count_prefix (e : engine) (m : kv) (p : key) : N :=
    match e with
    | Badger => if badger_stub_keys_by_prefix_count then 0 else kv_count_prefix m p
    | Bunt => if bunt_stub_keys_by_prefix_count then 0 else kv_count_prefix m p
    end.
End KV.

Arguments kv_get {V}. Arguments kv_mem {V}. Arguments kv_set {V}. Arguments kv_del {V}.
Arguments kv_iterate {V}. Arguments kv_filter_prefix {V}. Arguments kv_del_prefix {V}.
Arguments kv_seek {V}. Arguments kv_while_prefix {V}. Arguments kv_iter_prefix_from {V}.
Arguments kv_iter_prefix {V}. Arguments kv_count_prefix {V}. Arguments BSet {V}. Arguments BDel {V}.
Arguments bop_key {V}. Arguments kv_apply {V}. Arguments kv_batch {V}. Arguments kv_batch_strict {V}.
Arguments eng_batch {V}. Arguments eng_iter_prefix_from {V}. Arguments eng_iter_prefix {V}.
Arguments eng_del_prefix {V}. Arguments eng_count_prefix {V}.
Arguments take_n {A}. Arguments apply_limit {A}.
