(* Store key formats: the data types the translator emits (Store/gen/KeyFmtGen.v,
   Store/gen/OptsGen.v) and the interpreters that turn them into key functions.
   Definitions only.  Bytes are N (0..255 in every real run; nothing here needs the bound). *)
From Coq Require Import String Ascii List NArith Bool.
Import ListNotations.
Open Scope N_scope.

Definition bytes := list N.

(* ---- generated data ---- *)
Inductive kpart := KLit (s : string) | KQueue | KId.      (* operands of makeKey's concatenation *)
Inductive bpart := BQueue | BExchange | BKey.             (* operands of binding.GetName's Join *)
Inductive batch_group := GAdd | GUpdate | GDel.
Record srv_keyfmt := { kf_format : string; kf_prefix : string }.   (* fmt.Sprintf(kf_format, kf_prefix, vhost[, name]) *)
Record splitter := { sp_sep : string; sp_index : nat }.            (* strings.Split(key, sp_sep)[sp_index] *)

Fixpoint bytes_of_string (s : string) : bytes :=
  match s with
  | EmptyString => []
  | String a t => N_of_ascii a :: bytes_of_string t
  end.

(* ---- byte-string helpers ---- *)
Fixpoint bytes_eqb (a b : bytes) : bool :=
  match a, b with
  | [], [] => true
  | x :: a', y :: b' => N.eqb x y && bytes_eqb a' b'
  | _, _ => false
  end.

Fixpoint is_prefix (p k : bytes) : bool :=
  match p, k with
  | [], _ => true
  | _ :: _, [] => false
  | x :: p', y :: k' => N.eqb x y && is_prefix p' k'
  end.

Fixpoint mem_byte (c : N) (s : bytes) : bool :=
  match s with
  | [] => false
  | x :: t => N.eqb x c || mem_byte c t
  end.

(* ---- fmt.Sprintf restricted to %s ---- *)
Inductive fitem := FArg | FLit (c : N).

Fixpoint parse_fmt (f : bytes) : list fitem :=
  match f with
  | [] => []
  | c :: t =>
    if N.eqb c 37 then
      match t with
      | d :: t' => if N.eqb d 115 then FArg :: parse_fmt t' else FLit c :: parse_fmt t
      | [] => [FLit c]
      end
    else FLit c :: parse_fmt t
  end.

(* Go prints "%!s(MISSING)" for a missing operand *)
Definition fmt_missing : bytes := bytes_of_string "%!s(MISSING)".

Fixpoint render_fmt (items : list fitem) (args : list bytes) : bytes :=
  match items with
  | [] => []
  | FLit c :: r => c :: render_fmt r args
  | FArg :: r =>
    match args with
    | a :: rest => a ++ render_fmt r rest
    | [] => fmt_missing ++ render_fmt r []
    end
  end.

Definition sprintf (format : string) (args : list bytes) : bytes :=
  render_fmt (parse_fmt (bytes_of_string format)) args.

(* ---- strings.Split / strings.Join ---- *)
(* single-byte separator *)
Fixpoint split1 (sep : N) (s : bytes) : list bytes :=
  match s with
  | [] => [[]]
  | c :: t =>
    if N.eqb c sep then [] :: split1 sep t
    else match split1 sep t with
         | h :: r => (c :: h) :: r
         | [] => [[c]]
         end
  end.

(* general separator (non-overlapping, left to right); an empty separator is not modelled *)
Fixpoint split_go (sep s cur : bytes) (skip : nat) : list bytes :=
  match s with
  | [] => [rev cur]
  | c :: t =>
    match skip with
    | S k => split_go sep t cur k
    | O => if is_prefix sep s then rev cur :: split_go sep t [] (length sep - 1)
           else split_go sep t (c :: cur) 0
    end
  end.

Definition split_bytes (sep s : bytes) : list bytes :=
  match sep with
  | [c] => split1 c s
  | _ => split_go sep s [] 0
  end.

(* parts[i]; None = index out of range (a Go panic) *)
Definition split_index (sp : splitter) (s : bytes) : option bytes :=
  nth_error (split_bytes (bytes_of_string (sp_sep sp)) s) (sp_index sp).

Fixpoint join_bytes (sep : bytes) (parts : list bytes) : bytes :=
  match parts with
  | [] => []
  | [a] => a
  | a :: r => a ++ sep ++ join_bytes sep r
  end.

(* ---- strconv.FormatInt(int64(id), base) / FormatUint(id, base) for a uint64 id ---- *)
Definition digit_char (d : N) : N := if d <? 10 then 48 + d else 87 + d.

Fixpoint digits_fuel (fuel : nat) (base n : N) : bytes :=
  match fuel with
  | O => []
  | S f => if n / base =? 0 then [digit_char (n mod base)]
           else digits_fuel f base (n / base) ++ [digit_char (n mod base)]
  end.

Definition digits (base n : N) : bytes := digits_fuel 65 base n.

Definition two63 : N := 9223372036854775808.
Definition two64 : N := 18446744073709551616.

Definition fmt_id (signed : bool) (base id : N) : bytes :=
  let id := id mod two64 in
  if signed && (two63 <=? id) then 45 :: digits base (two64 - id) else digits base id.
