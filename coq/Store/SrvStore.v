(* srvstorage: the metadata store (vhosts, exchanges, queues, bindings) over the engine.
   Every key is built by INTERPRETING the generated formats of Store/gen/KeyFmtGen.v, so a
   changed format string, prefix constant, separator or Split index changes this model.
   Definitions only.

   srvstorage is write-through (every Add*/Del* is one completed engine Set/Del), so the
   model state IS the engine map and a Kill changes nothing (SKill is the identity; it is a
   label so that "a kill between any two operations" is part of `forall ops`). *)
From Coq Require Import String List NArith Bool.
From GMQ Require Import Store.KeyFmt Store.gen.KeyFmtGen Store.KV.
Import ListNotations.
Open Scope N_scope.

(* ---- entities as the broker declares them (all flags), and what Marshal keeps ---- *)
Record exchange := { ex_name : bytes; ex_type : N;
                     ex_durable : bool; ex_autodelete : bool; ex_internal : bool; ex_system : bool }.
Record queue := { qu_name : bytes; qu_conn_id : N;
                  qu_exclusive : bool; qu_autodelete : bool; qu_durable : bool }.
(* bd_args: the encoded argument table body, opaque here (the codec component owns tables);
   bd_match_any: MatchType computed by NewBinding from x-match *)
Record binding := { bd_queue : bytes; bd_exchange : bytes; bd_key : bytes; bd_args : bytes;
                    bd_topic : bool; bd_match_any : bool }.

(* ---- record codecs (amqp.WriteShortstr / WriteOctet / WriteLongstr) ---- *)
Definition w_shortstr (s : bytes) : bytes := (N.of_nat (length s) mod 256) :: s.   (* byte(len) then ALL bytes *)
Definition w_bool (b : bool) : bytes := [if b then 1 else 0].
Definition w_long (n : N) : bytes := [(n / 16777216) mod 256; (n / 65536) mod 256; (n / 256) mod 256; n mod 256].
Definition w_longstr (s : bytes) : bytes := w_long (N.of_nat (length s)) ++ s.

Fixpoint take_exact {A} (n : nat) (l : list A) : option (list A * list A) :=
  match n with
  | O => Some ([], l)
  | S k => match l with
           | [] => None
           | x :: t => match take_exact k t with Some (a, r) => Some (x :: a, r) | None => None end
           end
  end.

Definition r_octet (d : bytes) : option (N * bytes) :=
  match d with [] => None | x :: t => Some (x, t) end.
Definition r_shortstr (d : bytes) : option (bytes * bytes) :=
  match d with [] => None | n :: t => take_exact (N.to_nat n) t end.
Definition r_long (d : bytes) : option (N * bytes) :=
  match d with
  | a :: b :: c :: e :: t => Some (a * 16777216 + b * 65536 + c * 256 + e, t)
  | _ => None
  end.
Definition r_longstr (d : bytes) : option (bytes * bytes) :=
  match r_long d with Some (n, t) => take_exact (N.to_nat n) t | None => None end.

Definition marshal_exchange (e : exchange) : bytes := w_shortstr (ex_name e) ++ [ex_type e].
Definition marshal_queue (q : queue) : bytes := w_shortstr (qu_name q) ++ w_bool (qu_autodelete q).
Definition marshal_binding (b : binding) : bytes :=
  w_shortstr (bd_queue b) ++ w_shortstr (bd_exchange b) ++ w_shortstr (bd_key b)
  ++ w_longstr (bd_args b) ++ w_bool (bd_topic b).

(* Unmarshal into a zero value; the Get* callers ignore the error, so a short record yields
   the fields read so far (durable is set last) *)
Definition unmarshal_exchange (d : bytes) : exchange :=
  match r_shortstr d with
  | None => {| ex_name := []; ex_type := 0; ex_durable := false; ex_autodelete := false; ex_internal := false; ex_system := false |}
  | Some (n, d1) =>
    match r_octet d1 with
    | None => {| ex_name := n; ex_type := 0; ex_durable := false; ex_autodelete := false; ex_internal := false; ex_system := false |}
    | Some (t, _) => {| ex_name := n; ex_type := t; ex_durable := true; ex_autodelete := false; ex_internal := false; ex_system := false |}
    end
  end.

(* Queue.Unmarshal + loadQueues' NewQueue(name, 0, false, autoDelete, durable) *)
Definition unmarshal_queue (d : bytes) : queue :=
  match r_shortstr d with
  | None => {| qu_name := []; qu_conn_id := 0; qu_exclusive := false; qu_autodelete := false; qu_durable := false |}
  | Some (n, d1) =>
    match r_octet d1 with
    | None => {| qu_name := n; qu_conn_id := 0; qu_exclusive := false; qu_autodelete := false; qu_durable := false |}
    | Some (a, _) => {| qu_name := n; qu_conn_id := 0; qu_exclusive := false; qu_autodelete := 0 <? a; qu_durable := true |}
    end
  end.

(* MatchType is NOT recomputed by Unmarshal: it stays MatchAll *)
Definition unmarshal_binding (d : bytes) : binding :=
  let z := {| bd_queue := []; bd_exchange := []; bd_key := []; bd_args := []; bd_topic := false; bd_match_any := false |} in
  match r_shortstr d with
  | None => z
  | Some (q, d1) =>
    match r_shortstr d1 with
    | None => {| bd_queue := q; bd_exchange := []; bd_key := []; bd_args := []; bd_topic := false; bd_match_any := false |}
    | Some (e, d2) =>
      match r_shortstr d2 with
      | None => {| bd_queue := q; bd_exchange := e; bd_key := []; bd_args := []; bd_topic := false; bd_match_any := false |}
      | Some (k, d3) =>
        match r_longstr d3 with
        | None => {| bd_queue := q; bd_exchange := e; bd_key := k; bd_args := []; bd_topic := false; bd_match_any := false |}
        | Some (a, d4) =>
          match r_octet d4 with
          | None => {| bd_queue := q; bd_exchange := e; bd_key := k; bd_args := a; bd_topic := false; bd_match_any := false |}
          | Some (t, _) => {| bd_queue := q; bd_exchange := e; bd_key := k; bd_args := a; bd_topic := N.eqb t 1; bd_match_any := false |}
          end
        end
      end
    end
  end.

(* ---- keys, from the generated formats ---- *)
Definition srv_key2 (f : srv_keyfmt) (vhost : bytes) : key :=
  sprintf (kf_format f) [bytes_of_string (kf_prefix f); vhost].
Definition srv_key3 (f : srv_keyfmt) (vhost name : bytes) : key :=
  sprintf (kf_format f) [bytes_of_string (kf_prefix f); vhost; name].

Definition binding_part (b : binding) (p : bpart) : bytes :=
  match p with BQueue => bd_queue b | BExchange => bd_exchange b | BKey => bd_key b end.
Definition binding_name (b : binding) : bytes :=
  join_bytes (bytes_of_string binding_name_sep) (map (binding_part b) binding_name_parts).

Definition vhost_key (v : bytes) : key := srv_key2 kf_add_vhost v.
Definition queue_key_add (v n : bytes) : key := srv_key3 kf_add_queue v n.
Definition queue_key_del (v n : bytes) : key := srv_key3 kf_del_queue v n.
Definition exchange_key_add (v n : bytes) : key := srv_key3 kf_add_exchange v n.
Definition exchange_key_del (v n : bytes) : key := srv_key3 kf_del_exchange v n.
Definition binding_key_add (v : bytes) (b : binding) : key := srv_key3 kf_add_binding v (binding_name b).
Definition binding_key_del (v : bytes) (b : binding) : key := srv_key3 kf_del_binding v (binding_name b).

(* getVhostFromKey; None = index out of range (panic) *)
Definition vhost_of_key (k : key) : option bytes := split_index vhost_from_key k.

(* ---- operations ---- *)
Definition sdb := kv bytes.

Definition srv_add_vhost (db : sdb) (v : bytes) (system : bool) : sdb :=
  kv_set db (vhost_key v) (if system then [1] else []).
Definition srv_add_exchange (db : sdb) (v : bytes) (e : exchange) : sdb :=
  kv_set db (exchange_key_add v (ex_name e)) (marshal_exchange e).
Definition srv_del_exchange (db : sdb) (v : bytes) (e : exchange) : sdb :=
  kv_del db (exchange_key_del v (ex_name e)).
Definition srv_add_queue (db : sdb) (v : bytes) (q : queue) : sdb :=
  kv_set db (queue_key_add v (qu_name q)) (marshal_queue q).
Definition srv_del_queue (db : sdb) (v : bytes) (q : queue) : sdb :=
  kv_del db (queue_key_del v (qu_name q)).
Definition srv_add_binding (db : sdb) (v : bytes) (b : binding) : sdb :=
  kv_set db (binding_key_add v b) (marshal_binding b).
Definition srv_del_binding (db : sdb) (v : bytes) (b : binding) : sdb :=
  kv_del db (binding_key_del v b).

(* Get*: full iteration, HasPrefix(key, scan prefix) [and vhost of key = vhost]; a key with
   too few parts makes getVhostFromKey panic: the whole call is then None *)
Definition vhost_filter (pfx : string) (vhost : bytes) (k : key) : option bool :=
  if is_prefix (bytes_of_string pfx) k then
    match vhost_of_key k with
    | Some v => Some (bytes_eqb v vhost)
    | None => None
    end
  else Some false.

Fixpoint scan_vhost {A} (pfx : string) (vhost : bytes) (dec : bytes -> A) (l : sdb) : option (list A) :=
  match l with
  | [] => Some []
  | (k, v) :: t =>
    match vhost_filter pfx vhost k with
    | None => None
    | Some true => match scan_vhost pfx vhost dec t with Some r => Some (dec v :: r) | None => None end
    | Some false => scan_vhost pfx vhost dec t
    end
  end.

Definition srv_get_queues (db : sdb) (vhost : bytes) : option (list queue) :=
  scan_vhost scan_prefix_queues vhost unmarshal_queue (kv_iterate db).
Definition srv_get_exchanges (db : sdb) (vhost : bytes) : option (list exchange) :=
  scan_vhost scan_prefix_exchanges vhost unmarshal_exchange (kv_iterate db).
Definition srv_get_bindings (db : sdb) (vhost : bytes) : option (list binding) :=
  scan_vhost scan_prefix_bindings vhost unmarshal_binding (kv_iterate db).

(* GetVhosts: a Go map vhost -> system; here the (vhost, system) pairs in key order, later
   entries overriding earlier ones with the same name *)
Fixpoint srv_get_vhosts_l (l : sdb) : option (list (bytes * bool)) :=
  match l with
  | [] => Some []
  | (k, v) :: t =>
    if is_prefix (bytes_of_string scan_prefix_vhosts) k then
      match vhost_of_key k, srv_get_vhosts_l t with
      | Some vh, Some r => Some ((vh, bytes_eqb v [1]) :: r)
      | _, _ => None
      end
    else srv_get_vhosts_l t
  end.
Definition srv_get_vhosts (db : sdb) : option (list (bytes * bool)) := srv_get_vhosts_l (kv_iterate db).

(* ---- labels ---- *)
Inductive sop :=
| SAddVhost (v : bytes) (system : bool)
| SAddExchange (v : bytes) (e : exchange) | SDelExchange (v : bytes) (e : exchange)
| SAddQueue (v : bytes) (q : queue) | SDelQueue (v : bytes) (q : queue)
| SAddBinding (v : bytes) (b : binding) | SDelBinding (v : bytes) (b : binding)
| SKill.

Definition srv_step (db : sdb) (o : sop) : sdb :=
  match o with
  | SAddVhost v s => srv_add_vhost db v s
  | SAddExchange v e => srv_add_exchange db v e
  | SDelExchange v e => srv_del_exchange db v e
  | SAddQueue v q => srv_add_queue db v q
  | SDelQueue v q => srv_del_queue db v q
  | SAddBinding v b => srv_add_binding db v b
  | SDelBinding v b => srv_del_binding db v b
  | SKill => db
  end.

Definition srv_run (ops : list sop) : sdb := fold_left srv_step ops [].
