(* C14 over whole histories - after a channel is closed or a connection is gone, nothing of it remains anywhere.
   Only statements: each closed by `exact <lemma>` + Print Assumptions; non-vacuity examples by vm_compute.
   Lemmas: Proofs/BrokerRegistry.v (registry link RL_step for every label; no trace of the dead), on top of the
   invariants of Proofs/BrokerQueueInv.v (QI) and Proofs/BrokerConserve.v (Inv). *)
From Coq Require Import List String NArith ZArith Bool.
Import ListNotations.
From GMQ Require Import Broker.Model Run.BrokerRun Proofs.BrokerRegistry Proofs.BrokerAutoDelete.
Open Scope N_scope.

(* The registry link, in EVERY reachable state: an entry (c,h,tag) is in the registry of the queue named qn exactly when
   channel (c,h) exists and holds a consumer record with that tag, consuming from qn, that is not stopped; every consumer
   that is not stopped is in the registry of its queue (which exists); entries are distinct; tags of a channel are distinct.
   So no registry holds an orphan entry of a dead channel / connection, and no running consumer is missing from its queue. *)
Theorem C14_registry_link :
  forall cfg fx ls,
  fx_delete_checks_first fx = true ->
  let s := fst (run cfg fx (init cfg) ls) in
  (forall qn qu c h tag, get_queue s qn = Some qu ->
     (In (c, h, tag) (q_consumers qu) <->
      exists ch cm, get_chan s c h = Some ch /\ In cm (ch_consumers ch) /\ c_tag cm = tag /\ c_queue cm = qn /\ c_status cm <> CStopped)) /\
  (forall c h ch cm, get_chan s c h = Some ch -> In cm (ch_consumers ch) -> c_status cm <> CStopped ->
     exists qu, get_queue s (c_queue cm) = Some qu /\ In (c, h, c_tag cm) (q_consumers qu)) /\
  (forall qn qu, get_queue s qn = Some qu -> NoDup (q_consumers qu)) /\
  (forall c h ch, get_chan s c h = Some ch -> NoDup (map c_tag (ch_consumers ch))).
Proof. exact registry_link_reachable. Qed.
Print Assumptions C14_registry_link.

(* in particular no registry holds an entry of a channel or connection that does not exist *)
Theorem C14_registry_entries_alive :
  forall cfg fx ls,
  fx_delete_checks_first fx = true ->
  let s := fst (run cfg fx (init cfg) ls) in
  forall qn qu c h tag, get_queue s qn = Some qu -> In (c, h, tag) (q_consumers qu) -> get_conn s c <> None /\ get_chan s c h <> None.
Proof. exact registry_entries_alive_reachable. Qed.
Print Assumptions C14_registry_entries_alive.

(* every single label keeps the link (together with the queue invariant it rests on) *)
Theorem C14_registry_link_step :
  forall cfg fx, fx_delete_checks_first fx = true -> forall s l, QR s -> QR (fst (step cfg fx s l)).
Proof. exact QR_step. Qed.
Print Assumptions C14_registry_link_step.

(* the hypothesis is needed *)
Theorem C14_registry_link_needs_delete_checks :
  let cfg := {| cfg_rabbit := true; cfg_rollback := true; cfg_release_first := false |} in
  let s := fst (run cfg fx_no_delete_checks (init cfg)
            [LConnect 1; LConnect 2; LMethod 1 1 MChannelOpen; LMethod 2 1 MChannelOpen;
             LMethod 1 1 (MQDeclare "q" false false false false false); LMethod 1 1 (MConsume "q" "t" false false false);
             LMethod 2 1 (MQDelete "q" true false false); LMethod 1 1 (MQDeclare "q" false false false false false)]) in
  option_map q_consumers (get_queue s "q") = Some [] /\
  option_map (fun ch => map (fun cm => (c_tag cm, c_queue cm, c_status cm)) (ch_consumers ch)) (get_chan s 1 1) = Some [("t", "q", CStarted)]%string.
Proof. exact registry_link_refuted. Qed.
Print Assumptions C14_registry_link_needs_delete_checks.

(* Every reference the state holds is to something that exists, in EVERY reachable state of the repaired broker: the
   entries of every registry, the owner of every exclusive queue (an opened connection), the channel a pending
   confirmation would be sent on; a closed channel, and channel 0, hold no consumer and no unsettled delivery. *)
Theorem C14_no_dangling_reference :
  forall cfg fx,
  fx_stage fx = true -> fx_chan_open fx = true -> fx_closeok_releases fx = true -> fx_delete_checks_first fx = true ->
  forall ls,
  let s := fst (run cfg fx (init cfg) ls) in
  (forall qn qu c h tag, get_queue s qn = Some qu -> In (c, h, tag) (q_consumers qu) -> get_conn s c <> None /\ get_chan s c h <> None) /\
  (forall qn qu, get_queue s qn = Some qu -> q_excl qu = true -> conn_opened s (q_owner qu) = true) /\
  (forall u m c h t, get_msg s u = Some m -> live_conf s m = Some (c, h, t) -> get_conn s c <> None /\ get_chan s c h <> None) /\
  (forall c h ch, get_chan s c h = Some ch -> ch_status ch = ChClosed \/ h = 0 -> ch_consumers ch = [] /\ ch_unacked ch = []).
Proof. exact no_dangling_reference_reachable. Qed.
Print Assumptions C14_no_dangling_reference.

(* hence: whenever a connection id is not in the table - never connected, closed, lost - nothing refers to it *)
Theorem C14_dead_connection_leaves_no_trace :
  forall cfg fx,
  fx_stage fx = true -> fx_chan_open fx = true -> fx_closeok_releases fx = true -> fx_delete_checks_first fx = true ->
  forall ls c,
  let s := fst (run cfg fx (init cfg) ls) in
  get_conn s c = None ->
  (forall h, get_chan s c h = None) /\
  (forall qn qu h tag, get_queue s qn = Some qu -> ~ In (c, h, tag) (q_consumers qu)) /\
  (forall qn qu, get_queue s qn = Some qu -> q_excl qu = true -> q_owner qu <> c) /\
  (forall u m h t, get_msg s u = Some m -> live_conf s m <> Some (c, h, t)).
Proof. exact dead_connection_leaves_no_trace. Qed.
Print Assumptions C14_dead_connection_leaves_no_trace.

(* after ANY history, the loss of the socket (= connection.close, close-ok, a connection error: the same teardown,
   C14_socket_loss_runs_the_teardown) leaves nothing of the connection *)
Theorem C14_connection_end_leaves_no_trace :
  forall cfg fx,
  fx_stage fx = true -> fx_chan_open fx = true -> fx_closeok_releases fx = true -> fx_delete_checks_first fx = true ->
  forall ls c,
  let s' := fst (run cfg fx (init cfg) (ls ++ [LSocketLoss c])) in
  get_conn s' c = None /\
  (forall h, get_chan s' c h = None) /\
  (forall qn qu h tag, get_queue s' qn = Some qu -> ~ In (c, h, tag) (q_consumers qu)) /\
  (forall qn qu, get_queue s' qn = Some qu -> q_excl qu = true -> q_owner qu <> c) /\
  (forall u m h t, get_msg s' u = Some m -> live_conf s' m <> Some (c, h, t)).
Proof. exact connection_end_leaves_no_trace. Qed.
Print Assumptions C14_connection_end_leaves_no_trace.

(* a channel that is closed (or channel 0) holds nothing and is in no registry, in every reachable state *)
Theorem C14_closed_channel_leaves_no_trace :
  forall cfg fx,
  fx_stage fx = true -> fx_chan_open fx = true -> fx_closeok_releases fx = true -> fx_delete_checks_first fx = true ->
  forall ls c h ch,
  let s := fst (run cfg fx (init cfg) ls) in
  get_chan s c h = Some ch -> ch_status ch = ChClosed \/ h = 0 ->
  ch_consumers ch = [] /\ ch_unacked ch = [] /\
  (forall qn qu tag, get_queue s qn = Some qu -> ~ In (c, h, tag) (q_consumers qu)).
Proof. exact closed_channel_leaves_no_trace. Qed.
Print Assumptions C14_closed_channel_leaves_no_trace.

(* Auto-delete: in EVERY reachable state (no repair needed) an auto-delete queue that has had a consumer and has none left is
   on the list the auto-delete turn works off; so whenever that turn is not enabled (empty list) every such queue is gone.
   (The model's turn deletes the queue of that NAME - also one declared anew under it meanwhile, like the code.) *)
Theorem C14_autodelete_scheduled :
  forall cfg fx ls,
  let s := fst (run cfg fx (init cfg) ls) in
  (forall qn qu, get_queue s qn = Some qu -> q_autodel qu = true -> q_wasconsumed qu = true -> q_consumers qu = [] -> In qn (autodel s)) /\
  (autodel s = [] -> forall qn qu, get_queue s qn = Some qu -> q_autodel qu = true -> q_wasconsumed qu = true -> q_consumers qu <> []).
Proof. exact autodelete_scheduled_reachable. Qed.
Print Assumptions C14_autodelete_scheduled.

Theorem C14_autodelete_step : forall cfg fx s l, AD s -> AD (fst (step cfg fx s l)).
Proof. exact AD_step. Qed.
Print Assumptions C14_autodelete_step.

(* Non-vacuity.  Two connections, three channels, consumers of both connections on the shared queue "q", an exclusive
   queue "mine" of connection 1 with an exclusive consumer, an auto-delete queue "ad" whose only consumer is connection 1's,
   deliveries outstanding on both connections; then connection 1's socket is lost. *)
Definition ex_cfg := {| cfg_rabbit := true; cfg_rollback := true; cfg_release_first := false |}.
Definition ex_pub (c h : N) (q : string) (k : N) : list label := [LMethod c h (MPublish "" q false false); LHeader c h k 3 false; LBody c h 3].
Definition ex_before : state :=
  fst (run_step ex_cfg all_fixed (init ex_cfg)
    ([LConnect 1; LConnect 2; LMethod 1 1 MChannelOpen; LMethod 1 2 MChannelOpen; LMethod 2 1 MChannelOpen;
      LMethod 1 1 (MQDeclare "q" false false false false false); LMethod 1 1 (MQDeclare "mine" false true false false false);
      LMethod 1 1 (MQDeclare "ad" false false true false false);
      LMethod 1 1 (MQos 1 0 false); LMethod 1 2 (MQos 1 0 false); LMethod 2 1 (MQos 1 0 false);
      LMethod 1 1 (MConsume "q" "a" false false false); LMethod 1 2 (MConsume "q" "b" false false false);
      LMethod 2 1 (MConsume "q" "a" false false false); LMethod 1 2 (MConsume "mine" "m" false true false);
      LMethod 1 1 (MConsume "ad" "d" false false false)]
     ++ ex_pub 2 1 "q" 1 ++ ex_pub 2 1 "q" 2 ++ ex_pub 2 1 "q" 3 ++ ex_pub 2 1 "q" 4 ++ ex_pub 2 1 "ad" 5)%list).
Definition ex_after : state := fst (run_step ex_cfg all_fixed ex_before [LSocketLoss 1]).
Definition ex_regs (s : state) : list (string * list (N * N * string)) := map (fun kq => (fst kq, q_consumers (snd kq))) (queues s).
Definition ex_unacked (s : state) (c h : N) : list N := match get_chan s c h with Some ch => map u_msg (ch_unacked ch) | None => [] end.

Example C14_history_example_before :
  ex_regs ex_before = [("q", [(1, 1, "a"); (1, 2, "b"); (2, 1, "a")]); ("mine", [(1, 2, "m")]); ("ad", [(1, 1, "d")])]%string /\
  ex_unacked ex_before 1 1 = [1; 5] /\ ex_unacked ex_before 1 2 = [2] /\ ex_unacked ex_before 2 1 = [3] /\
  option_map q_ready (get_queue ex_before "q") = Some [4].
Proof. vm_compute. repeat split; reflexivity. Qed.

Example C14_history_example_after :
  get_conn ex_after 1 = None /\
  (* the registry of the shared queue keeps connection 2's consumer only; the exclusive queue is deleted; the
     auto-delete queue lost its last consumer and is deleted by the auto-delete turn of the drain *)
  ex_regs ex_after = [("q", [(2, 1, "a")])]%string /\
  (* connection 1's deliveries went back to the queue, ahead of what was waiting; connection 2's is untouched *)
  ex_unacked ex_after 2 1 = [3] /\ option_map q_ready (get_queue ex_after "q") = Some [1; 2; 4] /\
  autodel ex_after = [].
Proof. vm_compute. repeat split; reflexivity. Qed.

(* right after the loss, before any internal turn: "ad" has no consumer left and is scheduled; "mine" is already gone *)
Example C14_history_example_scheduled :
  let s := fst (run ex_cfg all_fixed ex_before [LSocketLoss 1]) in
  ex_regs s = [("q", [(2, 1, "a")]); ("ad", [])]%string /\ autodel s = ["ad"%string] /\ option_map q_ready (get_queue s "ad") = Some [5].
Proof. vm_compute. repeat split; reflexivity. Qed.
