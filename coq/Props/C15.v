(* C15 - delivery tags and ack/nack/reject settle exactly what they name.
   Only statements: each closed by `exact <lemma>` + Print Assumptions. *)
From Coq Require Import List String NArith ZArith Bool.
Import ListNotations.
From GMQ Require Import Broker.Model Proofs.BrokerFrames Proofs.BrokerTags Proofs.BrokerChanInv Proofs.BrokerDeliveryTag Proofs.BrokerRefusal.
Open Scope N_scope.

(* U s c h: the unacknowledged deliveries of channel (c,h); Dt s c h: its delivery-tag counter. *)

(* In EVERY reachable state (all label sequences) the outstanding deliveries of every channel carry pairwise distinct
   tags, none above the channel's counter. *)
Theorem C15_tags_distinct_and_bounded :
  forall cfg fx ls c h ch,
    get_chan (fst (run cfg fx (init cfg) ls)) c h = Some ch ->
    NoDup (map u_tag (ch_unacked ch)) /\ (forall u, In u (ch_unacked ch) -> u_tag u <= ch_dtag ch).
Proof. exact tags_invariant_reachable. Qed.
Print Assumptions C15_tags_distinct_and_bounded.

(* Tags grow by one per deliver / get-ok: the delivery emitted by a consumer turn (resp. the get-ok emitted by
   basic.get) on channel (c,h) carries the counter plus one, and the counter then holds that tag - in ANY state.
   (A channel number opened again after a close starts from 0: see the model's MChannelOpen.) *)
Theorem C15_deliver_tag_is_next :
  forall cfg fx s c h tag s' evs ct d r ex k c1 h1,
    consumer_turn cfg fx s c h tag = (s', evs) ->
    In (c1, h1, SDeliver ct d r ex k) evs ->
    c1 = c /\ h1 = h /\ ct = tag /\ d = Dt s c h + 1 /\ Dt s' c h = d.
Proof. exact consumer_turn_tag. Qed.
Print Assumptions C15_deliver_tag_is_next.

Theorem C15_get_ok_tag_is_next :
  forall cfg fx s c h q noack s' evs e d r ex k mc c1 h1,
    handle_method cfg fx s c h (MGet q noack) = (s', evs, e) ->
    In (c1, h1, SGetOk d r ex k mc) evs ->
    c1 = c /\ h1 = h /\ d = Dt s c h + 1 /\ Dt s' c h = d.
Proof. exact get_ok_tag. Qed.
Print Assumptions C15_get_ok_tag_is_next.

(* A single ack / nack / reject that is accepted removes exactly the named delivery from that channel and touches
   the outstanding deliveries of no other channel of any connection. *)
Theorem C15_ack_single_exact :
  forall cfg s c h tag s',
    handle_ack cfg s c h tag false = (s', None) -> get_chan s c h <> None ->
    (exists u, In u (U s c h) /\ u_tag u = tag) /\
    U s' c h = filter (fun u => negb (u_tag u =? tag)) (U s c h) /\
    (forall c' h', (c', h') <> (c, h) -> U s' c' h' = U s c' h').
Proof. exact ack_single_exact. Qed.
Print Assumptions C15_ack_single_exact.

Theorem C15_reject_single_exact :
  forall cfg s c h tag requeue cls mth s',
    handle_reject cfg s c h tag false requeue cls mth = (s', None) -> get_chan s c h <> None ->
    (exists u, In u (U s c h) /\ u_tag u = tag) /\
    U s' c h = filter (fun u => negb (u_tag u =? tag)) (U s c h) /\
    (forall c' h', (c', h') <> (c, h) -> U s' c' h' = U s c' h').
Proof. exact reject_single_exact. Qed.
Print Assumptions C15_reject_single_exact.

(* With `multiple`, exactly the outstanding tags up to the named one (all of them if it is 0) are removed, in every
   reachable state, and again no other channel is touched; a multiple settle is never refused. *)
Theorem C15_ack_multiple_exact :
  forall cfg fx ls c h tag s' e,
    let s := fst (run cfg fx (init cfg) ls) in
    handle_ack cfg s c h tag true = (s', e) ->
    e = None /\
    U s' c h = filter (fun u => negb (covered tag u)) (U s c h) /\
    (forall c' h', (c', h') <> (c, h) -> U s' c' h' = U s c' h').
Proof. exact ack_multiple_reachable. Qed.
Print Assumptions C15_ack_multiple_exact.

Theorem C15_reject_multiple_exact :
  forall cfg fx ls c h tag requeue cls mth s' e,
    let s := fst (run cfg fx (init cfg) ls) in
    handle_reject cfg s c h tag true requeue cls mth = (s', e) ->
    e = None /\
    U s' c h = filter (fun u => negb (covered tag u)) (U s c h) /\
    (forall c' h', (c', h') <> (c, h) -> U s' c' h' = U s c' h').
Proof. exact reject_multiple_reachable. Qed.
Print Assumptions C15_reject_multiple_exact.

(* Settling a single tag that is not outstanding (unknown, already settled, or another channel's) is refused with
   PRECONDITION_FAILED naming basic.ack / basic.nack / basic.reject, and changes nothing. *)
Theorem C15_unknown_tag_refused :
  forall cfg s c h tag ch,
    get_chan s c h = Some ch -> (forall u, In u (ch_unacked ch) -> u_tag u <> tag) ->
    handle_ack cfg s c h tag false = (s, Some (ChanErr PreconditionFailed 60 80)) /\
    (forall requeue cls mth, handle_reject cfg s c h tag false requeue cls mth = (s, Some (ChanErr PreconditionFailed cls mth))).
Proof. exact unknown_tag_refused. Qed.
Print Assumptions C15_unknown_tag_refused.

(* Non-vacuity: two channels with outstanding deliveries; a multiple ack on one of them. *)
Example C15_example :
  let cfg := {| cfg_rabbit := true; cfg_rollback := true; cfg_release_first := false |} in
  let pub k := [LMethod 1 1 (MPublish "" "q" false false); LHeader 1 1 k 3 false; LBody 1 1 3] in
  let s := fst (run cfg all_fixed (init cfg)
             ([LConnect 1; LMethod 1 1 MChannelOpen; LMethod 1 2 MChannelOpen; LMethod 1 1 (MQDeclare "q" false false false false false)]
              ++ pub 1 ++ pub 2 ++ pub 3 ++ pub 4 ++
              [LMethod 1 1 (MGet "q" false); LMethod 1 1 (MGet "q" false); LMethod 1 1 (MGet "q" false); LMethod 1 2 (MGet "q" false)])) in
  map u_tag (U s 1 1) = [1; 2; 3] /\ map u_tag (U s 1 2) = [1] /\
  (let s' := fst (handle_ack cfg s 1 1 2 true) in map u_tag (U s' 1 1) = [3] /\ map u_tag (U s' 1 2) = [1]).
Proof. vm_compute. repeat split; reflexivity. Qed.
