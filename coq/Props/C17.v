(* C17 - exclusive access is enforced and queues never affect one another (broker level; the store's key space -
   names that are prefixes of one another, separators, restarts - is Props/C17_store.v).
   Only statements: each closed by `exact <lemma>` + Print Assumptions. *)
From Coq Require Import List String NArith ZArith Bool.
From RecordUpdate Require Import RecordUpdate.
Import ListNotations.
From GMQ Require Import Broker.Model Proofs.BrokerFrames Proofs.BrokerTags Proofs.BrokerChanInv Proofs.BrokerReady
  Proofs.BrokerRelease Proofs.BrokerExclusive.
Open Scope N_scope.

(* declare (also passive), bind, unbind, consume, purge, delete, get: through a connection that is not the owner every
   one of them is refused, the refusal changes nothing and emits nothing *)
Theorem C17_exclusive_queue_owner_only :
  forall cfg fx s c h m q qu,
    fx_excl_owner fx = true -> get_chan s c h <> None ->
    targets m = Some q -> queue_found s q = Some qu -> locked qu c = true ->
    exists e, handle_method cfg fx s c h m = (s, [], Some e).
Proof. exact locked_never_succeeds. Qed.
Print Assumptions C17_exclusive_queue_owner_only.

(* ... with RESOURCE_LOCKED naming the method whenever the request gets as far as the queue *)
Theorem C17_refused_with_resource_locked :
  forall cfg fx s c h m q qu,
    fx_excl_owner fx = true -> get_chan s c h <> None ->
    targets m = Some q -> queue_found s q = Some qu -> locked qu c = true ->
    seqb q "" = false ->
    (forall q0 ex key args nw, m = MQBind q0 ex key args nw -> alookup seqb ex (exchanges s) <> None /\ seqb ex "" = false) ->
    (forall q0 ex key args, m = MQUnbind q0 ex key args -> alookup seqb ex (exchanges s) <> None) ->
    handle_method cfg fx s c h m = (s, [], Some (ChanErr ResourceLocked (fst (meth_ids m)) (snd (meth_ids m)))).
Proof. exact locked_is_resource_locked. Qed.
Print Assumptions C17_refused_with_resource_locked.

Theorem C17_owner_is_not_locked_out : forall qu c, q_owner qu = c -> locked qu c = false.
Proof. exact owner_not_locked. Qed.
Print Assumptions C17_owner_is_not_locked_out.

(* an exclusive consumer excludes all others; nobody becomes the exclusive consumer of a queue that has consumers *)
Theorem C17_exclusive_consumer_excludes :
  forall cfg fx s c h q tag noack excl nowait ch qu,
    get_chan s c h = Some ch -> queue_found s q = Some qu -> (fx_excl_owner fx && locked qu c) = false ->
    find_consumer ch (eff_tag s tag) = None ->
    q_consumers qu <> [] -> (q_cexcl qu = true \/ excl = true) ->
    handle_method cfg fx s c h (MConsume q tag noack excl nowait) =
    (set_queue s q (qu <| q_wasconsumed := true |>), [], Some (ChanErr AccessRefused 60 20)).
Proof. exact exclusive_consumer_excludes. Qed.
Print Assumptions C17_exclusive_consumer_excludes.

(* an exclusive queue does not outlive its connection: after the teardown no queue is exclusive to it *)
Theorem C17_exclusive_queues_die_with_owner :
  forall cfg fx s c q e o,
    fx_delete_checks_first fx = true ->
    EO (fst (conn_close cfg fx s c)) q = Some (e, o) -> get_conn s c <> None -> ~ (e = true /\ o = c).
Proof. exact conn_close_deletes_exclusive_queues. Qed.
Print Assumptions C17_exclusive_queues_die_with_owner.

(* isolation: declare, bind, unbind, purge, delete, consume, get addressed to q leave the waiting messages of every
   other queue exactly as they were - whatever the two queues are called *)
Theorem C17_addressed_operation_touches_no_other_queue :
  forall cfg fx s c h m q q',
    targets m = Some q -> seqb q' q = false ->
    R (fst (fst (handle_method cfg fx s c h m))) q' = R s q'.
Proof. exact addressed_op_isolated. Qed.
Print Assumptions C17_addressed_operation_touches_no_other_queue.

(* a publish appends the message to the matched queues and to no other; an ack changes no waiting list; a
   reject/nack with requeue returns each message to the queue it was delivered from and to no other *)
Theorem C17_publish_reaches_matched_queues_only :
  forall fx s c h u m ex q,
    get_msg s u = Some m -> alookup seqb (m_ex m) (exchanges s) = Some ex ->
    R (fst (route_and_push fx s c h u)) q =
    match R s q with
    | Some l => Some (if existsb (seqb q) (matched_queues (negb (fx_direct_all fx)) ex (m_key m)) && push_target s q then l ++ [u] else l)
    | None => None
    end.
Proof. exact route_places_once. Qed.
Print Assumptions C17_publish_reaches_matched_queues_only.

Theorem C17_ack_touches_no_waiting_list :
  forall cfg s c h tag mult q, R (fst (handle_ack cfg s c h tag mult)) q = R s q.
Proof. exact ack_keeps_ready. Qed.
Print Assumptions C17_ack_touches_no_waiting_list.

Theorem C17_requeue_returns_to_origin_only :
  forall cfg s c h tag cls mth q,
    R (fst (handle_reject cfg s c h tag true true cls mth)) q =
    match R s q with
    | Some l => Some (map u_msg (filter (goes_to s q) (rev (filter (covered tag) (sort_desc (U s c h))))) ++ l)
    | None => None
    end.
Proof. exact reject_multiple_requeue_returns. Qed.
Print Assumptions C17_requeue_returns_to_origin_only.
