(* C11 - no client input can crash, wedge or balloon the broker: BROKER PART (the decoders - every byte string decodes
   to a value or an error, never a panic, with allocation bounded by the input - are Props/C11_decoders.v).
   Only statements: each closed by `exact <lemma>` + Print Assumptions.
   What a theorem about the model can carry here: `step` is a total function of the broker state and the frame (in
   Coq every function is: the model has no stuck state and no exception), and the frames the property lists as
   'well-formed but unexpected' are refused without touching anything outside the offending connection.
   PARTIAL, by nature: crashes (a Go panic in any goroutine), unresponsiveness and memory are behaviour of the running
   process; they are observed by the hostile sessions of the check (canary round trip, allocation per hostile input,
   process exit), which is testing and is labelled so in the evidence. *)
From Coq Require Import List String NArith ZArith Bool.
Import ListNotations.
From GMQ Require Import Broker.Model Proofs.BrokerFrames Proofs.BrokerTags Proofs.BrokerChanInv Proofs.BrokerRelease
  Proofs.BrokerHandshake Proofs.BrokerHostile.
Open Scope N_scope.

(* a method frame that does not decode (unknown class or method, truncated arguments) on an open connection:
   FRAME_ERROR, and nothing outside the connection's own record changes *)
Theorem C11_undecodable_method_refused :
  forall cfg fx s c h cn,
    get_conn s c = Some cn -> cn_stage cn = StOpen ->
    step cfg fx s (LBadMethod c h) = (ensure_chan s c h, [(c, 0, SConnClose FrameError 0 0)]) /\
    world (ensure_chan s c h) c = world s c.
Proof. exact undecodable_method_refused. Qed.
Print Assumptions C11_undecodable_method_refused.

(* ... and on a connection still in the handshake, it (like every other unexpected frame) drops the connection without
   any effect on the rest of the broker: this is C10_one_frame_before_open with advance = None *)
Theorem C11_unexpected_frame_before_open_drops :
  forall cfg fx s c st h,
    fx_stage fx = true -> in_handshake s c st -> owns_nothing s c ->
    world (fst (step cfg fx s (LBadMethod c h))) c = world s c /\
    get_conn (fst (step cfg fx s (LBadMethod c h))) c = None.
Proof.
  intros cfg fx s c st h Hfx Hh Hown.
  destruct (handshake_step cfg fx s c st (LBadMethod c h) Hfx Hh Hown eq_refl) as [A B].
  split; [exact A|]. cbn in B. apply B.
Qed.
Print Assumptions C11_unexpected_frame_before_open_drops.

(* content without a publish *)
Theorem C11_content_without_publish_refused :
  forall cfg fx s c h cn ch,
    get_conn s c = Some cn -> cn_stage cn = StOpen -> get_chan s c h = Some ch -> ch_cur ch = None ->
    ch_status ch <> ChClosing ->
    (forall mid size pers, step cfg fx s (LHeader c h mid size pers) = (s, [(c, 0, SConnClose FrameError 0 0)])) /\
    (forall len, step cfg fx s (LBody c h len) = (s, [(c, 0, SConnClose FrameError 0 0)])).
Proof. exact content_without_publish_refused. Qed.
Print Assumptions C11_content_without_publish_refused.

(* heartbeats: harmless on channel 0, fatal for the sender's connection (only) on any other channel *)
Theorem C11_heartbeat_channel0_noop : forall cfg fx s c, step cfg fx s (LHeartbeat c 0) = (s, []).
Proof. exact heartbeat_channel0_noop. Qed.
Print Assumptions C11_heartbeat_channel0_noop.

Theorem C11_heartbeat_on_channel_drops_sender :
  forall cfg fx s c h cn,
    get_conn s c = Some cn -> h <> 0 ->
    step cfg fx s (LHeartbeat c h) = conn_close cfg fx s c /\ get_conn (fst (step cfg fx s (LHeartbeat c h))) c = None.
Proof. exact heartbeat_elsewhere_drops. Qed.
Print Assumptions C11_heartbeat_on_channel_drops_sender.
