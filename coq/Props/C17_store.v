(* C17, isolation half at the store: operations addressed to one queue never add, remove or
   reorder what the store holds for another queue - a statement about prefix scans over the
   GENERATED key format.  ONLY property statements + Print Assumptions.
   (The exclusive-access half and the in-memory / broker-level half of C17 are the lead's.) *)
From Coq Require Import String List NArith Bool.
Import ListNotations.
From GMQ Require Import Store.KeyFmt Store.gen.KeyFmtGen Store.KV Store.SrvStore Store.MsgStore Store.StoreSpec
  Proofs.StoreKVProofs Proofs.StoreKeyProofs Proofs.StoreMsgProofs.
Open Scope N_scope.

(* full strength: for ALL pairs of names.  Refuted by F21 ("a" and "a.b"). *)
Theorem C17_isolation_store_refuted : exists st l q q', addressed l = Some q /\ q <> q' /\
  messages_of (fst (ms_step st l)) q' <> messages_of st q'.
Proof.
  exact (ex_intro _ _ (ex_intro _ (MPurge qa) (ex_intro _ qa (ex_intro _ qab
    (conj eq_refl (conj (proj2 msg_prefix_collision) f21_isolation_refuted)))))).
Qed.
Print Assumptions C17_isolation_store_refuted.

(* what holds: every API call (Add, Update, Del, PurgeQueue, the iterations, GetQueueLength, recover) addressed
   to q leaves the engine entries and all pending entries under q' unchanged, for every state, both engines,
   whenever the two names do not trigger F21 (neither scan prefix is a prefix of the other) *)
Theorem C17_isolation_store : forall st l q q', addressed l = Some q -> q <> q' ->
  nof21_pair q q' = true -> nof21_pair q' q = true ->
  messages_of (fst (ms_step st l)) q' = messages_of st q'.
Proof. exact store_isolation_step. Qed.
Print Assumptions C17_isolation_store.

(* trace level (covers persist, ticks, kills and recovery at any point): deleting from ANY label sequence every API
   call addressed to q changes nothing of what the store holds for q' at the end - engine entries (what recover(q')
   reads), the three pending maps and the batch in flight.  Badger; on the buntdb wrapper a Del of an absent key of q
   makes the whole batch fail (persist panics), so there the statement is false: C17_isolation_trace_bunt_refuted *)
Theorem C17_isolation_store_trace : forall p c ls q q', q <> q' -> nof21_pair q q' = true -> nof21_pair q' q = true ->
  messages_of (fst (ms_run (ms_init Badger p c) ls)) q' =
  messages_of (fst (ms_run (ms_init Badger p c) (filter (fun l => negb (addressed_to q l)) ls))) q'.
Proof. exact store_isolation_trace. Qed.
Print Assumptions C17_isolation_store_trace.

Theorem C17_isolation_trace_bunt_refuted : exists ls q q', q <> q' /\ nof21_pair q q' = true /\ nof21_pair q' q = true /\
  messages_of (fst (ms_run (ms_init Bunt true true) ls)) q' <>
  messages_of (fst (ms_run (ms_init Bunt true true) (filter (fun l => negb (addressed_to q l)) ls))) q'.
Proof. exact bunt_trace_isolation_refuted. Qed.
Print Assumptions C17_isolation_trace_bunt_refuted.

(* the name condition is implied by "no '.' in either name" and is strictly weaker *)
Theorem C17_dotfree_names_suffice : forall names, forallb dotfree names = true -> nof21 names = true.
Proof. exact dotfree_nof21. Qed.
Print Assumptions C17_dotfree_names_suffice.

Theorem C17_scan_prefix_captures_only_own : forall q q' id, nof21_pair q q' = true ->
  is_prefix (msg_prefix_del q) (msg_key q' id) = true -> q = q'.
Proof. exact prefix_captures_only_own. Qed.
Print Assumptions C17_scan_prefix_captures_only_own.

(* recovery of q reads only q's own messages (restart between operations) *)
Theorem C17_recover_reads_own : forall e p c ls q limit x,
  nof21 (q :: label_names ls) = true ->
  In x (fst (ms_recover (fst (ms_run (ms_init e p c) ls)) q limit)) ->
  exists m0, x = strip m0 /\ (In (MAdd m0 q) ls \/ In (MUpdate m0 q) ls).
Proof. exact store_no_phantom. Qed.
Print Assumptions C17_recover_reads_own.

(* non-vacuity: names with dots that still satisfy the condition, and an operation that does change its own queue *)
Example C17_isolation_example :
  nof21 [bs "orders.eu"; bs "orders.us"; bs "a/b"; bs ""] = true /\
  (let st := fst (ms_run (ms_init Badger true true) [MAdd (mk 100 1) (bs "orders.eu"); MAdd (mk 101 2) (bs "orders.us"); MPersistTick]) in
   messages_of (fst (ms_step st (MPurge (bs "orders.eu")))) (bs "orders.eu") <> messages_of st (bs "orders.eu") /\
   messages_of (fst (ms_step st (MPurge (bs "orders.eu")))) (bs "orders.us") = messages_of st (bs "orders.us")).
Proof. vm_compute. split; [reflexivity | split; [discriminate | reflexivity]]. Qed.
