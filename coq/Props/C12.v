(* C12 - wire and storage encodings round-trip and match the AMQP grammar.
   ONLY property statements, each closed by `exact <lemma>` and followed by Print Assumptions.
   decode_* / encode_* (Codec/Codec.v) are the generic interpreters instantiated with the tables
   the translator regenerates from /repo on every run (Codec/gen/*.v); the obligations over those
   tables are re-discharged by vm_compute on every run (Proofs/CodecGenProofs.v). *)
From Coq Require Import List String NArith Bool.
Import ListNotations.
From GMQ Require Import Base.Bytes Codec.Desc Codec.Prim Codec.Value Codec.MethodCodec Codec.Header Codec.Frame Codec.Records
     Codec.SpecCheck Codec.Grammar Codec.Codec.
From GMQ Require Import Codec.gen.MethodsGen Codec.gen.TagsGen Codec.gen.ConstGen Codec.gen.SpecGen Codec.gen.RecordsGen.
From GMQ Require Import Proofs.CodecPrimProofs Proofs.CodecValueProofs Proofs.CodecMethodProofs Proofs.CodecRecordProofs Proofs.CodecGenProofs.
Open Scope N_scope.
Open Scope list_scope.

(* ---- primitives ---- *)
Theorem C12_fixed_roundtrip : forall k n rest, n < 2 ^ (8 * N.of_nat k) -> dec_fixed k (be_enc k n ++ rest) = Ok (n, rest).
Proof. exact dec_fixed_enc. Qed.
Print Assumptions C12_fixed_roundtrip.

Theorem C12_shortstr_roundtrip : forall s rest, blen s < 256 -> dec_shortstr (enc_shortstr s ++ rest) = Ok (s, rest).
Proof. exact dec_shortstr_enc. Qed.
Print Assumptions C12_shortstr_roundtrip.

(* without the length hypothesis the law fails (WriteShortstr writes len mod 256 and all bytes: F31) *)
Theorem C12_shortstr_unbounded_refuted : exists s rest, dec_shortstr (enc_shortstr s ++ rest) <> Ok (s, rest).
Proof. exact shortstr_too_long_refuted. Qed.
Print Assumptions C12_shortstr_unbounded_refuted.

Theorem C12_longstr_roundtrip : forall s rest, blen s < 2 ^ 32 -> decode_longstr (enc_longstr s ++ rest) = Ok (s, rest).
Proof. exact (dec_longstr_enc longstr_alloc). Qed.
Print Assumptions C12_longstr_roundtrip.

(* ---- field values, arrays, tables: both dialects, any nesting ---- *)
Theorem C12_value_roundtrip : forall d v b rest,
  wf_value rd_gen wr_gen d v = true -> encode_value d v = Some b -> decode_value d (b ++ rest) = Ok (v, rest).
Proof. exact gen_value_roundtrip. Qed.
Print Assumptions C12_value_roundtrip.

Theorem C12_table_roundtrip : forall d t b rest,
  wf_table rd_gen wr_gen d t = true -> encode_table d t = Some b -> decode_table d (b ++ rest) = Ok (t, rest).
Proof. exact gen_table_roundtrip. Qed.
Print Assumptions C12_table_roundtrip.

(* reader tag table and writer tag table of each dialect are mutually inverse on every type the reader
   can produce (same tag, same wire layout, no inverted err test, nested containers stay in the dialect) *)
Theorem C12_tag_tables_inverse : tags_ok rd_gen wr_gen D091 = true /\ tags_ok rd_gen wr_gen DRabbit = true.
Proof. exact gen_tags_inverse. Qed.
Print Assumptions C12_tag_tables_inverse.

(* tag letters and layouts of both dialects are those of the specifications: every tag the reader accepts and
   every tag the writer emits is a grammar tag with the grammar's layout, and every grammar tag is accepted *)
Theorem C12_tag_tables_match_grammar :
  tags_match_grammar reader_091 writer_091 grammar_091 = true /\
  tags_match_grammar reader_rabbit writer_rabbit grammar_rabbit = true.
Proof. exact gen_tags_match_grammar. Qed.
Print Assumptions C12_tag_tables_match_grammar.

(* ---- methods: generic law + obligation over the generated descriptions ---- *)
Theorem C12_method_roundtrip_generic : forall st rd wr d m vals,
  wf_desc m = true -> wf_vals rd wr d (m_fields m) vals = true ->
  exists b, enc_method wr d m vals = Some b /\ forall rest, dec_method st rd d m (b ++ rest) = Ok (vals, rest).
Proof. exact method_roundtrip. Qed.
Print Assumptions C12_method_roundtrip_generic.

Theorem C12_generated_methods_wf : forallb wf_desc all_methods = true.
Proof. exact gen_all_methods_wf. Qed.
Print Assumptions C12_generated_methods_wf.

Theorem C12_generated_dispatch_bijective : dispatch_ok all_methods read_dispatch = true.
Proof. exact gen_dispatch_ok. Qed.
Print Assumptions C12_generated_dispatch_bijective.

Theorem C12_generated_from_source : forallb (fun m => negb (m_from_spec m)) all_methods = true.
Proof. exact gen_methods_from_source. Qed.
Print Assumptions C12_generated_from_source.

(* ReadMethod (WriteMethod m) = m for every method struct of the code, both dialects *)
Theorem C12_method_roundtrip : forall d m vals,
  In m all_methods -> wf_method_vals d m vals = true ->
  exists b, encode_method_frame d m vals = Some b /\
            forall rest, decode_method_frame d (b ++ rest) = Ok (m_name m, vals, rest).
Proof. exact gen_method_roundtrip. Qed.
Print Assumptions C12_method_roundtrip.

(* ---- content header: every subset of the optional properties, arbitrary field values ---- *)
Theorem C12_generated_properties_wf : wf_props_desc props_fields props_read props_write = true.
Proof. exact gen_props_desc_wf. Qed.
Print Assumptions C12_generated_properties_wf.

Theorem C12_header_roundtrip : forall d h, wf_header_gen d h = true ->
  exists b, encode_header d h = Some b /\ forall rest, decode_header d (b ++ rest) = Ok (h, rest).
Proof. exact gen_header_roundtrip. Qed.
Print Assumptions C12_header_roundtrip.

(* ---- frames: every payload below 2^32 - 1 bytes, whatever the allocation strategy of ReadFrame ---- *)
Theorem C12_frame_roundtrip : forall f rest, wf_frame f = true -> decode_frame (encode_frame f ++ rest) = Ok (f, rest).
Proof. exact gen_frame_roundtrip. Qed.
Print Assumptions C12_frame_roundtrip.

(* ---- storage records ---- *)
(* the stored message comes back with everything that is stored, the delivery count included (F69) *)
Theorem C12_message_record_roundtrip : forall d m, wf_message_gen d m = true ->
  exists b, encode_message d m = Some b /\ forall rest, decode_message d (b ++ rest) = Ok (m, rest).
Proof. exact gen_message_roundtrip. Qed.
Print Assumptions C12_message_record_roundtrip.

(* ... which is about the code that exists only if Marshal writes and Unmarshal reads the trailer *)
Theorem C12_generated_message_trailer : message_trailer_written = true /\ message_trailer_read = true.
Proof. exact gen_message_trailer. Qed.
Print Assumptions C12_generated_message_trailer.

(* backward compatibility: a record written before the trailer existed decodes to the same message with count 0 *)
Theorem C12_message_record_legacy : forall d m, wf_message_legacy d m = true ->
  exists b, encode_message_legacy d m = Some b /\ forall rest, blen rest < 4 -> decode_message d (b ++ rest) = Ok (m, rest).
Proof. exact gen_message_legacy. Qed.
Print Assumptions C12_message_record_legacy.

Theorem C12_queue_record_roundtrip : forall q rest, wf_queue q = true -> dec_queue (enc_queue q ++ rest) = Ok (q, rest).
Proof. exact queue_roundtrip. Qed.
Print Assumptions C12_queue_record_roundtrip.

Theorem C12_exchange_record_roundtrip : forall e rest, wf_exchange e = true -> dec_exchange (enc_exchange e ++ rest) = Ok (e, rest).
Proof. exact exchange_roundtrip. Qed.
Print Assumptions C12_exchange_record_roundtrip.

Theorem C12_binding_record_roundtrip : forall d b, wf_binding_gen d b = true ->
  exists bs, encode_binding d b = Some bs /\ forall rest, decode_binding d (bs ++ rest) = Ok (b, rest).
Proof. exact gen_binding_roundtrip. Qed.
Print Assumptions C12_binding_record_roundtrip.

(* ---- the grammar ---- *)
Theorem C12_grammar_methods : spec_available = true /\ methods_match_spec all_methods spec_methods = true.
Proof. exact gen_methods_match_spec. Qed.
Print Assumptions C12_grammar_methods.

Theorem C12_grammar_properties : props_match_spec props_fields props_read props_write spec_basic_properties = true.
Proof. exact gen_props_match_spec. Qed.
Print Assumptions C12_grammar_properties.

Theorem C12_grammar_constants : consts_match_spec go_constants spec_constants spec_classes spec_methods = true.
Proof. exact gen_consts_match_spec. Qed.
Print Assumptions C12_grammar_constants.

Theorem C12_encode_is_grammar : forall d m vals, In m all_methods ->
  exists s, In s spec_methods /\ sm_go_name s = m_name m /\ encode_method_frame d m vals = grammar_encode d s vals.
Proof. exact gen_encode_is_grammar. Qed.
Print Assumptions C12_encode_is_grammar.

(* ---- non-vacuity ---- *)
Example C12_example_nested_table :
  let t := [([107], VTab TTablePtr [([120], VNum TInt32 1); ([121], VArr [VStr TString [97; 98]; VNil])]); ([122], VNum TBool 1)] in
  wf_table rd_gen wr_gen DRabbit t = true /\ wf_table rd_gen wr_gen D091 t = true /\
  encode_table DRabbit t = Some [0; 0; 0; 33; 1; 107; 70; 0; 0; 0; 22; 1; 120; 73; 0; 0; 0; 1; 1; 121; 65; 0; 0; 0; 8; 83; 0; 0; 0; 2; 97; 98; 86; 1; 122; 116; 1].
Proof. vm_compute. repeat split; reflexivity. Qed.

Example C12_example_header_and_message :
  let h := {| h_class := 60; h_weight := 0; h_body_size := 3;
              h_props := [Some (MStr [116]); None; Some (MTab [([107], VStr TString [118])]); Some (MNum 2);
                          None; None; None; None; None; Some (MNum 1700000000); None; None; None; None] |} in
  let m := {| msg_id := 7; msg_header := h; msg_exchange := [101]; msg_rk := [114; 107];
              msg_body := [{| f_type := 3; f_channel := 1; f_payload := [1; 2] |}; {| f_type := 3; f_channel := 1; f_payload := [3] |}];
              msg_count := 2 |} in
  wf_header_gen DRabbit h = true /\ wf_message_gen DRabbit m = true /\ wf_message_gen D091 m = true /\
  wf_message_legacy DRabbit (with_count m 0) = true.
Proof. vm_compute. repeat split; reflexivity. Qed.

Example C12_example_method :
  exists m, In m all_methods /\ m_name m = "ExchangeDeclare"%string /\
    let vals := [MNum 0; MStr [101; 120]; MStr [116]; MBool false; MBool true; MBool false; MBool false; MBool true; MTab []] in
    wf_method_vals DRabbit m vals = true /\
    encode_method_frame DRabbit m vals = Some [0; 40; 0; 10; 0; 0; 2; 101; 120; 1; 116; 18; 0; 0; 0; 0].
Proof.
  exists (nth 18 all_methods (nth 0 all_methods (Build_method_desc ""%string 0 0 false false [] [] []))).
  vm_compute. repeat split; try reflexivity. do 18 right. left. reflexivity.
Qed.
