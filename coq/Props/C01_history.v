(* C01 (history form) - no accepted message is lost while the broker runs: per queue object (identified by its id),
   placed = released + still held, as multisets of message identities, for EVERY label of the broker LTS and along every
   run from the initial state.
     held s qid           = the messages waiting in the queue object qid ++ those delivered from it and not yet settled
     placed cfg fx s l qid   = what step l puts into qid: a publish that completes (LHeader / LBody) and routes there; what a
                            restart recovers from the store
     released cfg fx s l qid = what legitimately leaves at step l: ack, nack/reject without requeue, no-ack delivery and get,
                            purge, deletion of the queue object (queue.delete, exclusive queues of an ending connection,
                            auto-delete), deliveries returned after their queue object is gone, restart
   Both are explicit functions of the pre-state and the label (Proofs/BrokerConserve.v).
   Only statements: each closed by `exact <lemma>` + Print Assumptions. *)
From Coq Require Import List String NArith ZArith Bool Permutation.
Import ListNotations.
From GMQ Require Import Broker.Model Proofs.BrokerHeld Proofs.BrokerConserve.
Open Scope N_scope.

(* the invariant the proofs run on holds initially and is kept by every label *)
Theorem C01_invariant_initially : forall cfg, Inv (init cfg).
Proof. exact Inv_init. Qed.
Print Assumptions C01_invariant_initially.

Theorem C01_invariant_inductive :
  forall cfg fx s l,
    fx_stage fx = true -> fx_chan_open fx = true -> fx_closeok_releases fx = true -> fx_delete_checks_first fx = true ->
    Inv s -> Inv (fst (step cfg fx s l)).
Proof. exact Inv_step. Qed.
Print Assumptions C01_invariant_inductive.

(* every label, every queue object *)
Theorem C01_step_conserves :
  forall cfg fx s l qid,
    fx_stage fx = true -> fx_chan_open fx = true -> fx_closeok_releases fx = true -> fx_delete_checks_first fx = true ->
    Inv s ->
    Permutation (held (fst (step cfg fx s l)) qid ++ released cfg fx s l qid) (held s qid ++ placed cfg fx s l qid).
Proof. exact step_conserves. Qed.
Print Assumptions C01_step_conserves.

(* every run from the initial state: nothing but the fixes is assumed *)
Theorem C01_run_conserves :
  forall cfg fx ls qid,
    fx_stage fx = true -> fx_chan_open fx = true -> fx_closeok_releases fx = true -> fx_delete_checks_first fx = true ->
    Permutation (held (fst (run cfg fx (init cfg) ls)) qid ++ all_released cfg fx (init cfg) ls qid)
                (all_placed cfg fx (init cfg) ls qid).
Proof. exact run_conserves. Qed.
Print Assumptions C01_run_conserves.

(* a label that is not settling (ack, nack/reject without requeue, no-ack get, purge, consumer turn, restart) releases
   nothing from a queue object that still exists afterwards ... *)
Theorem C01_released_nothing :
  forall cfg fx,
    fx_closeok_releases fx = true -> fx_delete_checks_first fx = true ->
    forall s l qid, Inv s -> settling l = false -> queue_alive (fst (step cfg fx s l)) qid = true -> released cfg fx s l qid = [].
Proof. exact released_nil_alive. Qed.
Print Assumptions C01_released_nothing.

(* ... so reject / nack with requeue, basic.cancel, channel.close, close-ok, connection close, socket loss, errors, queue
   loop, persist tick, relay, confirm tick, flow, qos, ... keep every held message held *)
Theorem C01_nothing_vanishes_in_between :
  forall cfg fx,
    fx_stage fx = true -> fx_chan_open fx = true -> fx_closeok_releases fx = true -> fx_delete_checks_first fx = true ->
    forall s l qid u,
      Inv s -> settling l = false -> In u (held s qid) -> queue_alive (fst (step cfg fx s l)) qid = true ->
      In u (held (fst (step cfg fx s l)) qid).
Proof. exact nothing_vanishes_in_between. Qed.
Print Assumptions C01_nothing_vanishes_in_between.

(* a consumer turn of an ack-mode consumer releases nothing either (the message moves from waiting to unsettled) *)
Theorem C01_ack_mode_turn_releases_nothing :
  forall s c h tag ch cm qid,
    get_chan s c h = Some ch -> find_consumer ch tag = Some cm -> c_noack cm = false ->
    forall cfg fx, released cfg fx s (LConsumerTurn c h tag) qid = [].
Proof. exact turn_released_ack. Qed.
Print Assumptions C01_ack_mode_turn_releases_nothing.

(* Non-vacuity.  Queue "q" is queue object 1.  Three messages published (header + body frames), consumed in ack mode, the
   second acked; the channel closed (the other two go back); a fourth message published with an empty body (routed at
   the header); a no-ack get settles the head; an ack-mode get takes the next one; the socket is lost (it goes back);
   finally the queue is deleted from another connection (the rest is released). *)
Example C01_history_example :
  let cfg := {| cfg_rabbit := true; cfg_rollback := true; cfg_release_first := false |} in
  let pub h k := [LMethod 1 h (MPublish "" "q" false false); LHeader 1 h k 3 false; LBody 1 h 3] in
  let ls1 := [LConnect 1; LMethod 1 1 MChannelOpen; LMethod 1 1 (MQDeclare "q" false false false false false)]
             ++ pub 1 11 ++ pub 1 12 ++ pub 1 13 ++
             [LMethod 1 1 (MConsume "q" "t" false false false); LConsumerTurn 1 1 "t"; LConsumerTurn 1 1 "t"; LConsumerTurn 1 1 "t";
              LMethod 1 1 (MAck 2 false)] in
  let ls2 := ls1 ++ [LMethod 1 1 MChannelClose; LMethod 1 2 MChannelOpen;
                     LMethod 1 2 (MPublish "" "q" false false); LHeader 1 2 14 0 false;
                     LMethod 1 2 (MGet "q" true); LMethod 1 2 (MGet "q" false); LSocketLoss 1] in
  let ls3 := ls2 ++ [LConnect 2; LMethod 2 1 MChannelOpen; LMethod 2 1 (MQDelete "q" false false false)] in
  let s1 := fst (run cfg all_fixed (init cfg) ls1) in
  let s2 := fst (run cfg all_fixed (init cfg) ls2) in
  let s3 := fst (run cfg all_fixed (init cfg) ls3) in
  (all_placed cfg all_fixed (init cfg) ls1 1 = [1; 2; 3] /\ all_released cfg all_fixed (init cfg) ls1 1 = [2] /\
   ready_of s1 1 = [] /\ unacked_of s1 1 = [1; 3]) /\
  (all_placed cfg all_fixed (init cfg) ls2 1 = [1; 2; 3; 4] /\ all_released cfg all_fixed (init cfg) ls2 1 = [2; 1] /\
   ready_of s2 1 = [3; 4] /\ unacked_of s2 1 = [] /\ queue_alive s2 1 = true) /\
  (all_placed cfg all_fixed (init cfg) ls3 1 = [1; 2; 3; 4] /\ all_released cfg all_fixed (init cfg) ls3 1 = [2; 1; 3; 4] /\
   held s3 1 = [] /\ queue_alive s3 1 = false).
Proof. vm_compute. repeat split; reflexivity. Qed.
