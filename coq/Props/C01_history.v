(* C01 (history form) - per queue object: placed = released + still held, as multisets of message identities.
   Only statements: each closed by `exact <lemma>` + Print Assumptions.  PARTIAL: the per-step and per-run theorems
   cover the labels of [covered] (see Proofs/BrokerConserve.v); the names say so. *)
From Coq Require Import List String NArith ZArith Bool Permutation.
Import ListNotations.
From GMQ Require Import Broker.Model Proofs.BrokerHeld Proofs.BrokerConserve.
Open Scope N_scope.

Theorem C01_step_conserves_partial :
  forall cfg fx s l qid,
    fx_stage fx = true -> fx_chan_open fx = true -> fx_closeok_releases fx = true ->
    Inv s -> covered s l ->
    Permutation (held (fst (step cfg fx s l)) qid ++ released cfg fx s l qid) (held s qid ++ placed cfg fx s l qid).
Proof. exact step_conserves_partial. Qed.
Print Assumptions C01_step_conserves_partial.

Theorem C01_invariant_inductive_partial :
  forall cfg fx s l,
    fx_stage fx = true -> fx_chan_open fx = true -> fx_closeok_releases fx = true ->
    Inv s -> covered s l -> Inv (fst (step cfg fx s l)).
Proof. exact Inv_step_partial. Qed.
Print Assumptions C01_invariant_inductive_partial.

Theorem C01_invariant_initially : forall cfg, Inv (init cfg).
Proof. exact Inv_init. Qed.
Print Assumptions C01_invariant_initially.

Theorem C01_run_conserves_partial :
  forall cfg fx ls qid,
    fx_stage fx = true -> fx_chan_open fx = true -> fx_closeok_releases fx = true ->
    all_covered cfg fx (init cfg) ls ->
    Permutation (held (fst (run cfg fx (init cfg) ls)) qid ++ all_released cfg fx (init cfg) ls qid)
                (all_placed cfg fx (init cfg) ls qid).
Proof. exact run_conserves_partial. Qed.
Print Assumptions C01_run_conserves_partial.

Theorem C01_nothing_vanishes_in_between_partial :
  forall cfg fx s l qid u,
    fx_stage fx = true -> fx_chan_open fx = true -> fx_closeok_releases fx = true ->
    Inv s -> covered s l -> released cfg fx s l qid = [] ->
    In u (held s qid) -> In u (held (fst (step cfg fx s l)) qid).
Proof. exact nothing_vanishes_in_between_partial. Qed.
Print Assumptions C01_nothing_vanishes_in_between_partial.

(* the publish step, for any state satisfying the view invariant (not yet lifted to the labels LHeader / LBody) *)
Theorem C01_publish_places :
  forall fx s c h u m qid,
    VI s -> get_msg s u = Some m ->
    Permutation (held (fst (finish_publish fx s c h u)) qid ++ []) (held s qid ++ routed fx s u qid).
Proof. intros fx s c h u m qid V Hm. exact (proj2 (Good_finish_publish fx s c h u m V Hm) qid). Qed.
Print Assumptions C01_publish_places.

(* Non-vacuity: three messages published to queue "q" (object 1), consumed, one acked, the channel closed. *)
Example C01_history_example :
  let cfg := {| cfg_rabbit := true; cfg_rollback := true; cfg_release_first := false |} in
  let pub k := [LMethod 1 1 (MPublish "" "q" false false); LHeader 1 1 k 3 false; LBody 1 1 3] in
  let ls := [LConnect 1; LMethod 1 1 MChannelOpen; LMethod 1 1 (MQDeclare "q" false false false false false)]
            ++ pub 11 ++ pub 12 ++ pub 13 ++
            [LMethod 1 1 (MConsume "q" "t" false false false); LConsumerTurn 1 1 "t"; LConsumerTurn 1 1 "t"; LConsumerTurn 1 1 "t";
             LMethod 1 1 (MAck 2 false)] in
  let s := fst (run cfg all_fixed (init cfg) ls) in
  all_placed cfg all_fixed (init cfg) ls 1 = [1; 2; 3] /\
  all_released cfg all_fixed (init cfg) ls 1 = [2] /\
  ready_of s 1 = [] /\ unacked_of s 1 = [1; 3] /\ held s 1 = [1; 3] /\
  released cfg all_fixed s (LMethod 1 1 MChannelClose) 1 = [] /\
  held (fst (step cfg all_fixed s (LMethod 1 1 MChannelClose))) 1 = [1; 3] /\
  released cfg all_fixed (fst (step cfg all_fixed s (LMethod 1 1 MChannelClose))) (LMethod 1 1 (MQPurge "q" false)) 1 = [].
Proof. vm_compute. repeat split; reflexivity. Qed.
