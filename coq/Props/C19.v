(* C19 - queue behaviour does not depend on depth versus queue.maxMessagesInRam (and the queue-level
   length counter of C20).  Model: Data/QueueSwap.v (queue.Queue over two msgstorage stores, as coded).
   This file holds ONLY statements, each closed by `exact <lemma>`, plus Examples. *)
From Coq Require Import List NArith ZArith Bool.
Import ListNotations.
From GMQ Require Import Data.QueueSwap Proofs.QueueSwapProofs.
Open Scope N_scope.

(* Full strength: any two limits >= 1, any two schedules (loader turns, persist ticks anywhere) of the same
   client operations give the same client-visible outputs and final contents.  REFUTED by the model as the
   code stands, three ways (open findings F24 - two triggers - and F40); every witness is replayed against
   the real queue.Queue by checks/C19.py on every run. *)
Theorem C19_config_independent_refuted_F24 : ~ config_independent_statement.
Proof. exact config_independent_refuted_F24. Qed.
Print Assumptions C19_config_independent_refuted_F24.

Theorem C19_config_independent_refuted_purge_while_swapped : ~ config_independent_statement.
Proof. exact config_independent_refuted_purge. Qed.
Print Assumptions C19_config_independent_refuted_purge_while_swapped.

Theorem C19_config_independent_refuted_F40 : ~ config_independent_statement.
Proof. exact config_independent_refuted_F40. Qed.
Print Assumptions C19_config_independent_refuted_F40.

Theorem C20_queue_length_refuted : exists d m ls, wf_client ls = true /\ 2 <= m /\
  qlen (fst (q_run (mkCfg d m) q_init ls)) <> Z.of_nat (length (q_abs (fst (q_run (mkCfg d m) q_init ls)))).
Proof. exact queue_length_refuted. Qed.
Print Assumptions C20_queue_length_refuted.
