(* C19 - queue behaviour does not depend on depth versus queue.maxMessagesInRam (and the queue-level
   length counter of C20).  Model: Data/QueueSwap.v (queue.Queue over two msgstorage stores, as coded).
   This file holds ONLY statements, each closed by `exact <lemma>`, plus Examples. *)
From Coq Require Import List NArith ZArith Bool.
Import ListNotations.
From GMQ Require Import Data.QueueSwap Data.gen.QueueSwapGen Proofs.QueueSwapProofs.
Open Scope N_scope.

(* Atomicity the model assumes: each label is one step because the Go method runs under a lock.  The translator
   (translator/cmd/queueswap) re-reads that discipline from queue.go and msgstorage.go on every run. *)
Theorem C19_generated_atomicity :
  push_under_actlock = true /\ pop_under_actlock_r = true /\ pop_ring_bracket = true /\
  requeue_under_actlock_r = true /\ ack_under_actlock_r = true /\ purge_under_ringlock = true /\
  store_add_under_persistlock = true /\ store_update_under_persistlock = true /\ store_del_under_persistlock = true /\
  persist_swaps_under_persistlock = true /\
  store_persist_under_flushlock = true /\ store_purgequeue_under_flushlock = true.
Proof. repeat split; reflexivity. Qed.
Print Assumptions C19_generated_atomicity.

(* Full strength: any two limits >= 1, any two schedules (loader turns, persist ticks anywhere) of the same
   client operations give the same client-visible outputs and final contents.  REFUTED by the model as the
   code stands, three ways (open findings F24 - two triggers - and F40); every witness is replayed against
   the real queue.Queue by checks/C19.py on every run. *)
Theorem C19_config_independent_refuted_F24 : ~ config_independent_statement.
Proof. exact config_independent_refuted_F24. Qed.
Print Assumptions C19_config_independent_refuted_F24.

Theorem C19_config_independent_refuted_F24_two_stores : ~ config_independent_statement.
Proof. exact config_independent_refuted_F24_two_stores. Qed.
Print Assumptions C19_config_independent_refuted_F24_two_stores.

Theorem C19_config_independent_refuted_F24_race : ~ config_independent_statement.
Proof. exact config_independent_refuted_F24_race. Qed.
Print Assumptions C19_config_independent_refuted_F24_race.

Theorem C19_config_independent_refuted_F24_iter_race : ~ config_independent_statement.
Proof. exact config_independent_refuted_F24_iter_race. Qed.
Print Assumptions C19_config_independent_refuted_F24_iter_race.

Theorem C19_config_independent_refuted_purge_while_swapped : ~ config_independent_statement.
Proof. exact config_independent_refuted_purge. Qed.
Print Assumptions C19_config_independent_refuted_purge_while_swapped.

Theorem C19_config_independent_refuted_F40 : ~ config_independent_statement.
Proof. exact config_independent_refuted_F40. Qed.
Print Assumptions C19_config_independent_refuted_F40.

Theorem C20_queue_length_refuted : exists d m ls, wf_client ls = true /\ 2 <= m /\
  qlen (fst (q_run (mkCfg d m) q_init ls)) <> Z.of_nat (length (q_abs (fst (q_run (mkCfg d m) q_init ls)))).
Proof. exact queue_length_refuted. Qed.
Print Assumptions C20_queue_length_refuted.

(* What IS proved, with the full conclusion, under hypotheses that describe the findings' triggers and nothing more
   ([no_findings c ls], decidable, evaluated along the run of the model under configuration c):
     - maxMessagesInRAM >= 2 (F40) and < 2^64 (the uint64 of the code);
     - no loader turn PROCEEDS (ring below half the limit, swapped) while a message ahead of lastMemMsgID sits
       unflushed in a store's pending add map (F24);
     - no purge while swapped to disk (F24, second trigger);
     - no push lands inside a loader turn (label LoaderRace: the loader holds no lock; F24, race);
     - the data race on lastIteratedMsgID does not fire (label LoaderIterRace; F24, iteration race): LoaderTurn is the
       schedule in which each iteration goroutine compares its own last id;
     - a pop finds the ring empty only when nothing waits on disk (scheduling: consumers are woken by pushes into the
       ring; a pop on an empty ring is not a delivery attempt a client can see);
   and client well-formedness [wf_client] (ids positive and increasing as amqp.GenerateSeq makes them; only delivered,
   unsettled messages are requeued / acked, with the persistence flag they were published with).

   Refinement: the queue with overflow to disk, driven by ANY such label list (any interleaving of client operations,
   loader turns and persist ticks of both stores), produces exactly the outputs of the unlimited FIFO list, holds
   exactly its contents (ring ++ what is on disk ahead of lastMemMsgID, by id), and counts it right. *)
Theorem C19_refines_unlimited_partial : forall c ls, wf_client ls = true -> no_findings c ls = true ->
  snd (q_run c q_init ls) = snd (spec_run [] ls) /\
  q_abs (fst (q_run c q_init ls)) = fst (spec_run [] ls) /\
  qlen (fst (q_run c q_init ls)) = Z.of_nat (length (fst (spec_run [] ls))).
Proof. exact refines_unlimited. Qed.
Print Assumptions C19_refines_unlimited_partial.

(* Configuration independence: any two limits, any two schedules of the same client operations *)
Theorem C19_config_independent_partial : forall d m1 m2 ls1 ls2,
  wf_client ls1 = true -> wf_client ls2 = true -> client ls1 = client ls2 ->
  no_findings (mkCfg d m1) ls1 = true -> no_findings (mkCfg d m2) ls2 = true ->
  let r1 := q_run (mkCfg d m1) q_init ls1 in
  let r2 := q_run (mkCfg d m2) q_init ls2 in
  client_outs ls1 (snd r1) = client_outs ls2 (snd r2) /\ q_abs (fst r1) = q_abs (fst r2).
Proof. exact config_independent_partial. Qed.
Print Assumptions C19_config_independent_partial.

(* Queue-level C20: at EVERY state of such a run (after every prefix ls1) queueLength = |ring| + |on disk, not yet loaded| *)
Theorem C20_queue_length_partial : forall c ls1 ls2,
  wf_client (ls1 ++ ls2) = true -> no_findings c (ls1 ++ ls2) = true ->
  let s := fst (q_run c q_init ls1) in
  qlen s = Z.of_nat (length (q_abs s)) /\ q_abs s = fst (spec_run [] ls1).
Proof. exact queue_length_partial. Qed.
Print Assumptions C20_queue_length_partial.

(* The same WITHOUT the scheduling hypothesis: erase from the label list the pops that found the ring empty (they deliver
   nothing and change nothing); on what remains the run IS the unlimited FIFO list: every delivery is the list's head
   (order, nothing twice, nothing skipped), purge reports and removes everything, queueLength is the list's length. *)
Theorem C19_order_exactly_once_partial : forall c ls,
  let r := q_run c q_init ls in
  let ls' := effective ls (snd r) in
  wf_client ls' = true -> no_findings_safety c ls = true ->
  effective_outs ls (snd r) = snd (spec_run [] ls') /\
  q_abs (fst r) = fst (spec_run [] ls') /\
  qlen (fst r) = Z.of_nat (length (fst (spec_run [] ls'))).
Proof. exact order_exactly_once_partial. Qed.
Print Assumptions C19_order_exactly_once_partial.

Example C19_order_hypotheses_inhabited :
  (* pops on an empty ring while message 4 waits on disk, then flush, load, deliver *)
  let ls := [Push 1 false; Push 2 false; Push 3 false; Push 4 false; Pop; Pop; Pop; Pop; Pop; PersistTick false; LoaderTurn; Pop; Pop] in
  let r := q_run (mkCfg false 2) q_init ls in
  wf_client (effective ls (snd r)) = true /\ no_findings_safety (mkCfg false 2) ls = true /\
  no_findings (mkCfg false 2) ls = false /\
  effective_outs ls (snd r) = [ONone; ONone; ONone; ONone; OPop (Some 1); OPop (Some 2); OPop (Some 3); ONone; ONone; OPop (Some 4)].
Proof. vm_compute. repeat split; reflexivity. Qed.

(* Non-vacuity: one client workload (persistent and transient messages, a requeue, an ack) under limit 2 (overflows to
   both stores, reloads in two rounds) and under limit 100 (never overflows), with different schedules: the hypotheses
   hold for both, the queue does overflow under limit 2, and the conclusion is computed. *)
Definition C19_example_ls1 : list label :=
  [Push 1 false; Push 2 true; Push 3 false; Push 4 true; Push 5 false; Push 6 false; Pop; Pop; Pop;
   PersistTick true; PersistTick false; LoaderTurn; Pop; Requeue 4 true; Pop; Pop; PersistTick false; LoaderTurn; Pop;
   AckMsg 1 false; Pop].
Definition C19_example_ls2 : list label :=
  [Push 1 false; Push 2 true; LoaderTurn; Push 3 false; Push 4 true; Push 5 false; Push 6 false; Pop; Pop; Pop;
   Pop; Requeue 4 true; PersistTick true; Pop; Pop; Pop; AckMsg 1 false; LoaderTurn; Pop].

Example C19_hypotheses_inhabited :
  wf_client C19_example_ls1 = true /\ wf_client C19_example_ls2 = true /\
  client C19_example_ls1 = client C19_example_ls2 /\
  no_findings (mkCfg true 2) C19_example_ls1 = true /\ no_findings (mkCfg true 100) C19_example_ls2 = true /\
  (* it does overflow: after the sixth push the queue is swapped, three messages are on disk *)
  swapped (fst (q_run (mkCfg true 2) q_init (firstn 6 C19_example_ls1))) = true /\
  abs_disk (fst (q_run (mkCfg true 2) q_init (firstn 6 C19_example_ls1))) = [4; 5; 6] /\
  client_outs C19_example_ls1 (snd (q_run (mkCfg true 2) q_init C19_example_ls1)) =
    [ONone; ONone; ONone; ONone; ONone; ONone; OPop (Some 1); OPop (Some 2); OPop (Some 3); OPop (Some 4); ONone;
     OPop (Some 4); OPop (Some 5); OPop (Some 6); ONone; OPop None].
Proof. vm_compute. repeat split; reflexivity. Qed.

(* ---- label lists WITH restarts (queue-level C04 / C20 across a restart) -------------------------------------
   Restart = graceful stop at quiescence, the queue object is gone, the transient store is wiped, a fresh durable
   queue runs LoadFromMsgStorage over the same persistent store.  Specification: the ghost run [gspec_run] - the
   unlimited list with its delivered-unsettled set; a restart replaces the list by the persistent messages that
   were ready or delivered-unsettled, in id order.  Hypotheses [no_findings_restart]: as before, the queue is
   durable, and a purge happens only when no persistent message is delivered-unsettled (open finding F41-unsettled:
   Purge deletes the store entries of unsettled deliveries too).  What the persistent store holds pending at a purge
   needs no hypothesis any more: the purge cancels it (F41, repaired in /repo 390cc62; the model follows). *)
Theorem C19_refines_unlimited_with_restarts_partial : forall c ls,
  wf_client ls = true -> no_findings_restart c ls = true ->
  snd (q_run c q_init ls) = snd (gspec_run ghost_init ls) /\
  q_abs (fst (q_run c q_init ls)) = g_list (fst (gspec_run ghost_init ls)) /\
  qlen (fst (q_run c q_init ls)) = Z.of_nat (length (g_list (fst (gspec_run ghost_init ls)))).
Proof. exact refines_unlimited_restarts. Qed.
Print Assumptions C19_refines_unlimited_with_restarts_partial.

Theorem C19_config_independent_with_restarts_partial : forall m1 m2 ls1 ls2,
  wf_client ls1 = true -> wf_client ls2 = true -> client ls1 = client ls2 ->
  no_findings_restart (mkCfg true m1) ls1 = true -> no_findings_restart (mkCfg true m2) ls2 = true ->
  let r1 := q_run (mkCfg true m1) q_init ls1 in
  let r2 := q_run (mkCfg true m2) q_init ls2 in
  client_outs ls1 (snd r1) = client_outs ls2 (snd r2) /\ q_abs (fst r1) = q_abs (fst r2).
Proof. exact config_independent_restarts. Qed.
Print Assumptions C19_config_independent_with_restarts_partial.

Theorem C20_queue_length_with_restarts_partial : forall c ls1 ls2,
  wf_client (ls1 ++ ls2) = true -> no_findings_restart c (ls1 ++ ls2) = true ->
  let s := fst (q_run c q_init ls1) in
  qlen s = Z.of_nat (length (q_abs s)) /\ q_abs s = g_list (fst (gspec_run ghost_init ls1)).
Proof. exact queue_length_restarts. Qed.
Print Assumptions C20_queue_length_with_restarts_partial.

(* Non-vacuity: limit 2, five persistent messages and a transient one, one delivered and left unsettled, then a
   restart of a queue DEEPER than the limit: it comes back swapped with 2 messages in the ring and 3 ahead on
   disk, counted 5; the unsettled delivery returns first; the transient message is gone; everything is delivered
   in id order through three more reload rounds (with a limit of 2 a round loads one message).  The same client operations under limit 100 give the same outputs. *)
Definition C19_restart_example : list label :=
  [Push 1 true; Push 2 true; Push 3 true; Push 4 true; Push 5 true; Push 6 false; Pop; Restart;
   Pop; Pop; LoaderTurn; Pop; LoaderTurn; Pop; LoaderTurn; Pop; LoaderTurn; Pop].
Definition C19_restart_example_100 : list label :=
  [Push 1 true; Push 2 true; Push 3 true; Push 4 true; Push 5 true; Push 6 false; Pop; Restart;
   Pop; Pop; Pop; Pop; Pop; Pop].

Example C19_restart_hypotheses_inhabited :
  wf_client C19_restart_example = true /\ no_findings_restart (mkCfg true 2) C19_restart_example = true /\
  no_findings_restart (mkCfg true 100) C19_restart_example_100 = true /\
  client C19_restart_example = client C19_restart_example_100 /\
  (let s := fst (q_run (mkCfg true 2) q_init (firstn 8 C19_restart_example)) in
   mem s = [1; 2] /\ swapped s = true /\ abs_disk s = [3; 4; 5] /\ qlen s = 5%Z) /\
  client_outs C19_restart_example (snd (q_run (mkCfg true 2) q_init C19_restart_example)) =
    [ONone; ONone; ONone; ONone; ONone; ONone; OPop (Some 1); ONone;
     OPop (Some 1); OPop (Some 2); OPop (Some 3); OPop (Some 4); OPop (Some 5); OPop None].
Proof. vm_compute. repeat split; reflexivity. Qed.
