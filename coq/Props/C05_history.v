(* C05 over whole histories - publisher confirms: exactly one per completed publish, correctly numbered, never early.
   Only statements: each closed by `exact <lemma>` + Print Assumptions.  The lemmas are in Proofs/BrokerConfirmHist.v.

   acked_run cfg fx s ls c h : the numbers the run ls acknowledged on channel (c,h) since the current instance of the
     channel began (the list starts afresh when the channel number is opened again or its connection comes or goes).
   where_is s c h : the numbers of the current instance in flight in state s: in the channel's confirm queue, (live) in
     the relay, on a routed message some of whose units are still to come, on the message being assembled.

   Hypotheses that the proofs need (each is necessary: see the `_refuted` examples):
     fx_clear_current    - F37 repaired (the current message is cleared once it is complete);
     fresh_along         - a connection id is not taken again while a message published under its previous use is in the
                           heap (the broker never uses a connection id twice; the model's LConnect c / LAccept c may);
                           it holds whenever the connection labels of the run carry distinct ids
                           (C05_distinct_connection_ids_suffice);
   and for "nothing in flight at rest" also
     fx_discard_closing  - F36 repaired, fx_reopen_resets - F17 repaired, fx_delete_checks_first - F26 repaired
                           (a refused queue.delete used to leave the queue inactive: pushes to it are lost).
   "Exactly the numbers 1 .. ch_ctag" (C05_confirm_exactly_once_at_rest) needs that the run dropped no number of the
   instance: no_drop_run, decidable from the label list (the older C05_confirm_exactly_once_at_rest_partial states the
   same under the semantic hypothesis). *)
From Coq Require Import List String NArith ZArith Bool Permutation.
Import ListNotations.
From GMQ Require Import Broker.Model Run.BrokerRun Proofs.BrokerFrames Proofs.BrokerQueueInv Proofs.BrokerConfirm Proofs.BrokerConfirmHist.
From GMQ Require Proofs.BrokerHeld Proofs.BrokerDurable.
Open Scope string_scope.
Open Scope N_scope.
Open Scope list_scope.

(* AT MOST ONCE, ONLY PUBLISHED: for every label sequence from the initial broker and every channel, the numbers
   acknowledged since the current instance began together with the numbers in flight are pairwise distinct and lie in
   1 .. ch_ctag (the number of publishes the instance accepted in confirm mode) *)
Theorem C05_confirm_at_most_once :
  forall cfg fx ls c h ch,
    fx_clear_current fx = true -> fresh_along cfg fx (init cfg) ls ->
    get_chan (fst (run cfg fx (init cfg) ls)) c h = Some ch ->
    NoDup (acked_run cfg fx (init cfg) ls c h ++ where_is (fst (run cfg fx (init cfg) ls)) c h) /\
    Forall (fun t => 1 <= t <= ch_ctag ch) (acked_run cfg fx (init cfg) ls c h ++ where_is (fst (run cfg fx (init cfg) ls)) c h).
Proof. exact confirm_at_most_once. Qed.
Print Assumptions C05_confirm_at_most_once.

(* ... hence no number is acknowledged twice, none that was not published, none that is still in flight *)
Theorem C05_confirm_no_number_twice :
  forall cfg fx ls c h ch,
    fx_clear_current fx = true -> fresh_along cfg fx (init cfg) ls ->
    get_chan (fst (run cfg fx (init cfg) ls)) c h = Some ch ->
    NoDup (acked_run cfg fx (init cfg) ls c h) /\
    forall t, In t (acked_run cfg fx (init cfg) ls c h) ->
      1 <= t <= ch_ctag ch /\ ~ In t (where_is (fst (run cfg fx (init cfg) ls)) c h).
Proof. exact confirm_no_number_twice. Qed.
Print Assumptions C05_confirm_no_number_twice.

(* NEVER EARLY: a basic.ack is written by the confirm ticker only, for a number of its confirm queue, and the message
   carrying that number (current instance of the channel) has all its units counted and none waiting in the store *)
Theorem C05_confirm_never_early :
  forall cfg fx ls l c h t b,
    fx_clear_current fx = true -> fresh_along cfg fx (init cfg) ls ->
    let s := fst (run cfg fx (init cfg) ls) in
    In (c, h, SAck t b) (snd (step cfg fx s l)) ->
    l = LConfirmTick c h /\
    exists ch u m, get_chan s c h = Some ch /\ In t (ch_confirmq ch) /\ In (u, m) (heap s) /\ m_conf m = Some (c, h, t) /\
                   m_inst m = ch_inst ch /\ m_actual m = m_expected m /\ pending s u = 0%nat.
Proof. exact confirm_never_early. Qed.
Print Assumptions C05_confirm_never_early.

(* ... the same of every number that has been handed to its channel or is on its way there through the relay *)
Theorem C05_confirm_handed_over_only_when_complete :
  forall cfg fx ls c h ch t,
    fx_clear_current fx = true -> fresh_along cfg fx (init cfg) ls ->
    let s := fst (run cfg fx (init cfg) ls) in
    get_chan s c h = Some ch -> In t (ch_confirmq ch ++ relay_part s c h) ->
    exists u m, In (u, m) (heap s) /\ m_conf m = Some (c, h, t) /\ m_inst m = ch_inst ch /\
                m_actual m = m_expected m /\ pending s u = 0%nat.
Proof. exact confirm_handed_over_complete. Qed.
Print Assumptions C05_confirm_handed_over_only_when_complete.

(* ... and units are never over-counted: counted units plus units waiting in the store do not exceed the number of
   queues the message was routed to (m_expected).  With C05_each_push_is_one_unit and
   C05_store_writes_before_confirming (Props/C05.v: a unit is counted by a push that bypasses the store, or by the store
   tick that wrote the key or found it cancelled by a pending delete) m_actual = m_expected says: every push happened
   and every persistent copy went through the store. *)
Theorem C05_confirm_units_never_exceed_routes :
  forall cfg fx ls u m,
    fx_clear_current fx = true -> fresh_along cfg fx (init cfg) ls ->
    let s := fst (run cfg fx (init cfg) ls) in
    In (u, m) (heap s) -> m_conf m <> None ->
    (0 <= m_actual m /\ m_actual m + Z.of_nat (pending s u) <= m_expected m)%Z.
Proof. exact confirm_units_bounded. Qed.
Print Assumptions C05_confirm_units_never_exceed_routes.

(* AT LEAST ONCE AT REST: in a reachable quiescent state nothing is in flight on an open confirm-mode channel that is
   not assembling a message - whatever the mix of delivery modes, queue durabilities and fan-out, the timing of the
   store tick, the channel open/close/reopen history and the other channels did: every number taken by a publish whose
   content was completed has left the heap, the relay and the confirm queue, i.e. has been acknowledged (or dropped
   with its instance) *)
Theorem C05_confirm_all_at_rest :
  forall cfg fx ls c h ch,
    fx_clear_current fx = true -> fx_discard_closing fx = true -> fx_reopen_resets fx = true -> fx_delete_checks_first fx = true ->
    fresh_along cfg fx (init cfg) ls ->
    let s := fst (run cfg fx (init cfg) ls) in
    quiescent s = true -> get_chan s c h = Some ch -> ch_status ch = ChOpen -> ch_confirm ch = true -> ch_cur ch = None ->
    where_is s c h = [].
Proof. exact confirm_all_at_rest. Qed.
Print Assumptions C05_confirm_all_at_rest.

(* every queue a publish can be routed to exists and is active, in every reachable state (used by the previous theorem:
   each matched queue yields one unit) *)
Theorem C05_routes_are_live :
  forall cfg fx ls s, fx_delete_checks_first fx = true -> BIx s -> BrokerFrames.allq BrokerQueueInv.qinv s -> routes_live_along cfg fx s ls.
Proof. exact routes_live_along_all. Qed.
Print Assumptions C05_routes_are_live.

(* EXACTLY ONCE AT REST (partial: assumes that no number was dropped): the acknowledged numbers are exactly 1 .. ch_ctag *)
Theorem C05_confirm_exactly_once_at_rest_partial :
  forall cfg fx ls c h ch,
    fx_clear_current fx = true -> fx_discard_closing fx = true -> fx_reopen_resets fx = true -> fx_delete_checks_first fx = true ->
    fresh_along cfg fx (init cfg) ls ->
    let s := fst (run cfg fx (init cfg) ls) in
    quiescent s = true -> get_chan s c h = Some ch -> ch_status ch = ChOpen -> ch_confirm ch = true -> ch_cur ch = None ->
    (forall t, 1 <= t <= ch_ctag ch -> In t (acked_run cfg fx (init cfg) ls c h ++ where_is s c h)) ->
    Permutation (acked_run cfg fx (init cfg) ls c h) (nums (ch_ctag ch)).
Proof. exact confirm_exactly_once_at_rest_partial. Qed.
Print Assumptions C05_confirm_exactly_once_at_rest_partial.

(* EXACTLY ONCE AT REST: ... exactly the numbers 1 .. ch_ctag, provided the run dropped no number of the instance.
   no_drop_run cfg fx s ls c h is a boolean function of the label list (it threads the state): within an instance of the
   channel, no basic.publish arrives while the previous message is still being assembled (ch_cur <> None), no body frame
   exceeds the announced size (the refusal clears ch_cur), and the channel is not closed after any step; when an instance
   begins (the channel number comes into being, or is opened again) it is not closed and its counter is 0.  The end of an
   instance (close/reopen, connection loss, restart) starts the condition - like acked_run - afresh. *)
Theorem C05_confirm_exactly_once_at_rest :
  forall cfg fx ls c h ch,
    fx_clear_current fx = true -> fx_discard_closing fx = true -> fx_reopen_resets fx = true -> fx_delete_checks_first fx = true ->
    fresh_along cfg fx (init cfg) ls -> no_drop_run cfg fx (init cfg) ls c h = true ->
    let s := fst (run cfg fx (init cfg) ls) in
    quiescent s = true -> get_chan s c h = Some ch -> ch_status ch = ChOpen -> ch_confirm ch = true -> ch_cur ch = None ->
    Permutation (acked_run cfg fx (init cfg) ls c h) (nums (ch_ctag ch)).
Proof. exact confirm_exactly_once_at_rest. Qed.
Print Assumptions C05_confirm_exactly_once_at_rest.

(* ... at every instant of such a run (at rest or not) every number 1 .. ch_ctag is acknowledged or in flight *)
Theorem C05_confirm_nothing_dropped :
  forall cfg fx ls c h ch,
    fx_clear_current fx = true -> fresh_along cfg fx (init cfg) ls -> no_drop_run cfg fx (init cfg) ls c h = true ->
    let s := fst (run cfg fx (init cfg) ls) in
    get_chan s c h = Some ch ->
    forall t, 1 <= t <= ch_ctag ch -> In t (acked_run cfg fx (init cfg) ls c h ++ where_is s c h).
Proof. exact confirm_nothing_dropped. Qed.
Print Assumptions C05_confirm_nothing_dropped.

(* NEVER EARLY, store clause at history level (Proofs/BrokerDurable.v, from C05_confirm_never_early and store
   completeness): when basic.ack t is written, the message carrying t has no add pending, and in every durable queue
   that (still) holds it - i.e. unless it was consumed and settled, or its queue purged or deleted, meanwhile - its key
   is in the flushed store with no delete pending.  (no_purge_while_unsettled: open finding F41-unsettled.) *)
Theorem C05_confirmed_is_stored :
  forall cfg fx ls l c h t b,
    fx_clear_current fx = true -> fresh_along cfg fx (init cfg) ls ->
    BrokerDurable.no_purge_while_unsettled cfg fx (init cfg) ls = true ->
    let s := fst (run cfg fx (init cfg) ls) in
    In (c, h, SAck t b) (snd (step cfg fx s l)) ->
    l = LConfirmTick c h /\
    exists ch u m, get_chan s c h = Some ch /\ get_msg s u = Some m /\ m_conf m = Some (c, h, t) /\ m_inst m = ch_inst ch /\
      (forall qn, ~ In (u, qn) (st_add s)) /\
      forall qn qu, get_queue s qn = Some qu -> q_durable qu = true -> m_pers m = true -> In u (BrokerHeld.held s (q_id qu)) ->
        In (u, qn) (st_db s) /\ ~ In (u, qn) (st_del s).
Proof. exact BrokerDurable.confirmed_is_stored. Qed.
Print Assumptions C05_confirmed_is_stored.

(* fresh_along holds of every run in which no connection id occurs twice in the LConnect / LAccept labels (the broker
   numbers its connections with a counter): with this, the hypothesis of the theorems above is a syntactic condition *)
Theorem C05_distinct_connection_ids_suffice :
  forall cfg fx ls, fx_clear_current fx = true -> NoDup (conn_ids ls) -> fresh_along cfg fx (init cfg) ls.
Proof. exact fresh_along_init. Qed.
Print Assumptions C05_distinct_connection_ids_suffice.

(* the hypotheses are needed *)
Example C05_only_published_refuted_when_a_connection_id_is_reused :
  let ls := ex_setup ++ ex_pub 1 1 "amq.fanout" "" 1 true ++
            [LSocketLoss 1; LConnect 1; LMethod 1 1 MChannelOpen; LMethod 1 1 (MConfirmSelect false); LPersistTick; LRelay; LConfirmTick 1 1] in
  let s := fst (run ex_cfg all_fixed (init ex_cfg) ls) in
  acked_run ex_cfg all_fixed (init ex_cfg) ls 1 1 = [1] /\
  match get_chan s 1 1 with Some ch => ch_ctag ch = 0 | None => False end.
Proof. exact confirm_only_published_refuted_conn_id_reused. Qed.

Example C05_at_most_once_refuted_without_F37_repair :
  let ls := ex_setup ++ ex_pub 1 1 "amq.direct" "nobody" 1 false ++ [LBody 1 1 0; LConfirmTick 1 1] in
  acked_run ex_cfg fixes_without_clear_current (init ex_cfg) ls 1 1 = [1; 1].
Proof. exact confirm_at_most_once_refuted_without_clear_current. Qed.

(* ---- non-vacuity ---- *)
Definition acks (evs : list event) : list event := filter (fun e => match snd e with SAck _ _ => true | _ => false end) evs.

(* a persistent message published in confirm mode to two durable queues and one transient queue (fan-out 3): the
   transient push counts at once, the two durable ones wait in the store; the confirm ticker has nothing to write until
   the store tick has run and the relay has handed the number over; then the number is acknowledged, once *)
Example C05_ack_after_the_store_tick_once :
  let ls0 := ex_setup ++ ex_pub 1 1 "amq.fanout" "" 1 true in
  let s0 := fst (run ex_cfg all_fixed (init ex_cfg) ls0) in
  (* routed: in flight on the message; two units pending *)
  where_is s0 1 1 = [1] /\ st_add s0 = [(1, "d1"); (1, "d2")] /\ acked_run ex_cfg all_fixed (init ex_cfg) ls0 1 1 = [] /\
  (* the ticker before the store tick: nothing *)
  acks (snd (step ex_cfg all_fixed s0 (LConfirmTick 1 1))) = [] /\
  (* store tick: written, then relayed *)
  (let ls1 := ls0 ++ [LConfirmTick 1 1; LPersistTick] in
   let s1 := fst (run ex_cfg all_fixed (init ex_cfg) ls1) in
   st_db s1 = [(1, "d1"); (1, "d2")] /\ relay s1 = [1] /\ where_is s1 1 1 = [1] /\
   acked_run ex_cfg all_fixed (init ex_cfg) ls1 1 1 = []) /\
  (* relay, ticker, ticker: one ack *)
  (let ls2 := ls0 ++ [LConfirmTick 1 1; LPersistTick; LRelay; LConfirmTick 1 1; LConfirmTick 1 1] in
   let r2 := run ex_cfg all_fixed (init ex_cfg) ls2 in
   acks (snd r2) = [(1, 1, SAck 1 false)] /\ acked_run ex_cfg all_fixed (init ex_cfg) ls2 1 1 = [1] /\ where_is (fst r2) 1 1 = []) /\
  (* the canonical drain to quiescence (Run/BrokerRun.v) does the same *)
  (let r := run_step ex_cfg all_fixed (init ex_cfg) ls0 in
   acks (snd r) = [(1, 1, SAck 1 false)] /\ where_is (fst r) 1 1 = [] /\ quiescent (fst r) = true).
Proof. vm_compute. repeat split; reflexivity. Qed.

(* a channel number closed and opened again while its message still waits for the store: numbering restarts at 1, the
   old message's confirmation is dropped when the relay hands it over (stale instance), the new instance's publish is
   acknowledged as 1, once *)
Example C05_reopen_restarts_numbering_and_drops_the_stale_confirmation :
  let ls0 := ex_setup ++ ex_pub 1 1 "amq.fanout" "" 1 true ++
             [LMethod 1 1 MChannelClose; LMethod 1 1 MChannelOpen; LMethod 1 1 (MConfirmSelect false)] ++ ex_pub 1 1 "" "t1" 2 false in
  let s0 := fst (run ex_cfg all_fixed (init ex_cfg) ls0) in
  option_map ch_inst (get_chan s0 1 1) = Some 1 /\ option_map ch_ctag (get_chan s0 1 1) = Some 1 /\
  where_is s0 1 1 = [1] /\ st_add s0 = [(1, "d1"); (1, "d2")] /\ acked_run ex_cfg all_fixed (init ex_cfg) ls0 1 1 = [] /\
  (let ls1 := ls0 ++ [LPersistTick; LRelay; LConfirmTick 1 1] in
   let r1 := run ex_cfg all_fixed (init ex_cfg) ls1 in
   acks (snd r1) = [(1, 1, SAck 1 false)] /\ acked_run ex_cfg all_fixed (init ex_cfg) ls1 1 1 = [1] /\
   where_is (fst r1) 1 1 = [] /\ relay (fst r1) = []).
Proof. vm_compute. repeat split; reflexivity. Qed.

(* the hypotheses of the theorems hold of these runs (decided by evaluation), so the theorems speak about them *)
Example C05_hypotheses_inhabited :
  let ls := ex_setup ++ ex_pub 1 1 "amq.fanout" "" 1 true ++
            [LMethod 1 1 MChannelClose; LMethod 1 1 MChannelOpen; LMethod 1 1 (MConfirmSelect false)] ++ ex_pub 1 1 "" "t1" 2 false ++
            [LPersistTick; LRelay; LConfirmTick 1 1] in
  fresh_along ex_cfg all_fixed (init ex_cfg) ls /\ routes_live_along ex_cfg all_fixed (init ex_cfg) ls.
Proof. split; [apply fresh_alongb_ok|apply routes_live_alongb_ok]; vm_compute; reflexivity. Qed.

(* four publishes of all kinds on one confirm channel - persistent to fan-out 3 (two durable, one transient), transient
   to one transient queue, unroutable persistent, persistent to one durable queue - then the goroutines run to rest:
   every number 1..4 was acknowledged exactly once (out of publish order: 2 and 3 overtake 1, which waits for the store),
   nothing is in flight *)
Example C05_mixed_publishes_all_acknowledged_once_at_rest :
  let ls := ex_setup ++ ex_pub 1 1 "amq.fanout" "" 1 true ++ ex_pub 1 1 "" "t1" 2 false ++
            ex_pub 1 1 "amq.direct" "nobody" 3 true ++ ex_pub 1 1 "" "d1" 4 true ++
            [LQueueLoop "d1"; LQueueLoop "d2"; LQueueLoop "t1"; LPersistTick; LRelay; LRelay; LConfirmTick 1 1] in
  let s := fst (run ex_cfg all_fixed (init ex_cfg) ls) in
  acked_run ex_cfg all_fixed (init ex_cfg) ls 1 1 = [2; 3; 1; 4] /\ where_is s 1 1 = [] /\ quiescent s = true /\
  option_map ch_ctag (get_chan s 1 1) = Some 4 /\ no_drop_run ex_cfg all_fixed (init ex_cfg) ls 1 1 = true /\ NoDup (conn_ids ls).
Proof. vm_compute. repeat split; try reflexivity. repeat constructor; cbn; tauto. Qed.

(* no_drop_run excludes what it must: a basic.publish that arrives while the previous message is still being assembled
   abandons that message with its number - number 1 is never acknowledged *)
Example C05_exactly_once_refuted_when_a_publish_is_abandoned :
  let ls := ex_setup ++ [LMethod 1 1 (MPublish "amq.fanout" "" false false)] ++ ex_pub 1 1 "" "t1" 2 false ++ [LQueueLoop "t1"; LConfirmTick 1 1] in
  let s := fst (run ex_cfg all_fixed (init ex_cfg) ls) in
  no_drop_run ex_cfg all_fixed (init ex_cfg) ls 1 1 = false /\ acked_run ex_cfg all_fixed (init ex_cfg) ls 1 1 = [2] /\
  where_is s 1 1 = [] /\ quiescent s = true /\ option_map ch_ctag (get_chan s 1 1) = Some 2.
Proof. vm_compute. repeat split; reflexivity. Qed.

(* after close and reopen the condition, like the acknowledged list, starts afresh with the new instance *)
Example C05_no_drop_run_restarts_with_the_instance :
  let ls := ex_setup ++ ex_pub 1 1 "amq.fanout" "" 1 true ++
            [LMethod 1 1 MChannelClose; LMethod 1 1 MChannelOpen; LMethod 1 1 (MConfirmSelect false)] ++ ex_pub 1 1 "" "t1" 2 false ++
            [LPersistTick; LRelay; LConfirmTick 1 1] in
  no_drop_run ex_cfg all_fixed (init ex_cfg) ls 1 1 = true /\ acked_run ex_cfg all_fixed (init ex_cfg) ls 1 1 = [1].
Proof. vm_compute. split; reflexivity. Qed.
