(* C08 - messages are routed to exactly the queues AMQP says.
   This file holds ONLY property statements, each closed by `exact <lemma>` and
   followed by Print Assumptions, plus Examples showing the hypotheses are inhabited.
   Model: Route/Exchange.v (+ Topic.v, Value.v), parameterised by the facts the
   translator reads from /repo (Route/gen/RouteGen.v).  Spec: Route/Spec.v. *)
From Coq Require Import List NArith ZArith Bool.
Import ListNotations.
From GMQ Require Import Route.Value Route.Cfg Route.Topic Route.Exchange Route.Spec Route.gen.RouteGen.
From GMQ Require Import Proofs.RouteTopicProofs Proofs.RouteProofs.
Open Scope N_scope.

(* The facts read from the code today satisfy what the theorems below assume. *)
Theorem C08_generated_cfg_sane : cfg_sane gen_cfg = true.
Proof. reflexivity. Qed.
Print Assumptions C08_generated_cfg_sane.

Theorem C08_generated_default_exchange_guards :
  c_bind_refuses_default gen_cfg = true /\ c_unbind_refuses_default gen_cfg = true /\
  c_default_binding_on_declare gen_cfg = true.
Proof. repeat split; reflexivity. Qed.
Print Assumptions C08_generated_default_exchange_guards.

(* NewBinding reads an x-match that arrives as []byte (long string of the 0-9-1 dialect) like a string (F52 = F68, repaired) *)
Theorem C08_generated_xmatch_long_string : c_xmatch_bytes gen_cfg = true.
Proof. reflexivity. Qed.
Print Assumptions C08_generated_xmatch_long_string.

Theorem C08_generated_alias_maps : alias_maps_ok gen_cfg gen_type_id_alias gen_type_alias_id = true.
Proof. reflexivity. Qed.
Print Assumptions C08_generated_alias_maps.

(* The set of queues GetMatchedQueues returns is exactly the set the AMQP rules give, for every
   exchange type, every list of bindings made by NewBinding, every message.
   [no_f50] excludes the trigger of open finding F51 and nothing else (see C08_route_eq_spec_refuted). *)
Theorem C08_route_eq_spec_partial : forall c, cfg_sane c = true ->
  forall ex k m, kind_of c (ex_type ex) = Some k ->
  Forall (binding_wf c k) (ex_bindings ex) ->
  Forall (no_f50 m) (ex_bindings ex) ->
  exists l, matched_queues c ex m = Some l /\ NoDup l /\
            forall q, In q l <-> route_spec true k (ex_bindings ex) m q.
Proof. exact route_eq_spec. Qed.
Print Assumptions C08_route_eq_spec_partial.

(* Full strength (without no_f50) is refuted by the faithful model: F51. *)
Theorem C08_route_eq_spec_refuted : forall c, cfg_sane c = true ->
  exists ex m q, kind_of c (ex_type ex) = Some KHeaders /\ Forall (binding_wf c KHeaders) (ex_bindings ex) /\
    route_spec true KHeaders (ex_bindings ex) m q /\ matched_queues c ex m = Some [].
Proof. exact no_headers_table_refuted. Qed.
Print Assumptions C08_route_eq_spec_refuted.

(* Every binding a client may make is accepted by NewBinding (so that it can route at all): wildcards as
   whole words only; x-match absent or the string all / any, sent as short or long string. *)
Theorem C08_wellformed_binding_accepted : forall c q ex key args topic, cfg_sane c = true -> c_xmatch_bytes c = true ->
  (topic = true -> pattern_ok key = true) -> xmatch_allowed args ->
  exists b, new_binding c q ex key args topic = Some b.
Proof. exact wellformed_binding_accepted. Qed.
Print Assumptions C08_wellformed_binding_accepted.

(* Topic matching: the row algorithm of matchTopicWords decides the word-wise relation
   (`*` exactly one word, `#` zero or more), for words over ANY alphabet. *)
Theorem C08_topic : forall (A : Type) (eqb : A -> A -> bool) (star hash : A),
  (forall x y, eqb x y = true <-> x = y) -> star <> hash ->
  forall pattern words, topic_match A eqb star hash pattern words = true <-> topic_matches A star hash pattern words.
Proof. exact topic_match_correct. Qed.
Print Assumptions C08_topic.

(* ... and on byte strings, including the splitting into words *)
Theorem C08_topic_bytes : forall b ex key, b_topic b = true ->
  match_topic b ex key = true <-> b_exchange b = ex /\ spec_topic (b_key b) key.
Proof. exact match_topic_spec. Qed.
Print Assumptions C08_topic_bytes.

(* A publish pushes exactly once into each queue of the matched set and nowhere else;
   with an empty set the message is returned iff mandatory and the confirm is owed at once. *)
Theorem C08_placed_once : forall c find_ex queue_exists m ex l acts,
  find_ex (m_exchange m) = Some ex ->
  matched_queues c ex m = Some l ->
  (forall q, In q l -> queue_exists q = true) ->
  publish_decision c find_ex queue_exists m = Some acts ->
  publish_spec (fun q => In q l) (m_mandatory m) acts.
Proof. exact placed_once. Qed.
Print Assumptions C08_placed_once.

(* ... and without any assumption on the queues (a matched queue may have vanished meanwhile):
   never twice into a queue, never into a queue outside the matched set *)
Theorem C08_placed_at_most_once : forall c find_ex queue_exists m ex l acts,
  find_ex (m_exchange m) = Some ex ->
  matched_queues c ex m = Some l ->
  publish_decision c find_ex queue_exists m = Some acts ->
  forall q, (pushes_to q acts <= 1)%nat /\ (pushes_to q acts = 1%nat -> In q l).
Proof. exact placed_at_most_once. Qed.
Print Assumptions C08_placed_at_most_once.

Theorem C08_unroutable : forall c find_ex queue_exists m,
  (find_ex (m_exchange m) = None ->
     publish_decision c find_ex queue_exists m = Some [PReturn; PConfirm]) /\
  (forall ex, find_ex (m_exchange m) = Some ex -> matched_queues c ex m = Some [] ->
     publish_decision c find_ex queue_exists m = Some ((if m_mandatory m then [PReturn] else []) ++ [PConfirm])).
Proof. exact unroutable_decision. Qed.
Print Assumptions C08_unroutable.

(* After ANY sequence of AppendBinding / RemoveBinding / RemoveQueueBindings the list holds no
   two Equal bindings, and a binding is held exactly when the last operation concerning it was a bind. *)
Theorem C08_binding_maintenance : forall ops,
  no_equal_pair binding_equal (bl_run ops) /\
  forall b, existsb (fun x => binding_equal x b) (bl_run ops) = bound_after binding_equal (rev ops) b.
Proof. exact binding_maintenance. Qed.
Print Assumptions C08_binding_maintenance.

(* The default exchange routes by queue name, after any sequence of declare / bind / unbind /
   delete operations (AppendQueue's implicit binding; bind and unbind refuse the default exchange). *)
Theorem C08_default_exchange : forall c ops, cfg_sane c = true ->
  c_bind_refuses_default c = true -> c_unbind_refuses_default c = true ->
  c_default_binding_on_declare c = true ->
  let t := topo_run c (topo_init c) ops in
  exists e, find_exchange (t_exchanges t) [] = Some e /\
    forall m, m_exchange m = [] ->
      exists l, matched_queues c e m = Some l /\ forall q, In q l <-> default_route_spec (t_queues t) m q.
Proof. exact default_exchange_routes_by_name_full. Qed.
Print Assumptions C08_default_exchange.

(* ---------------------------------------------------------------- the unrepaired code is refuted *)
(* F04 (repaired in /repo): the early return in the direct loop *)
Theorem C08_direct_early_return_refuted : forall c, cfg_sane c = true ->
  exists ex m q, kind_of c (ex_type ex) = Some KDirect /\ Forall (binding_wf c KDirect) (ex_bindings ex) /\
    route_spec true KDirect (ex_bindings ex) m q /\
    exists l, matched_queues (cfg_set c true (c_cmp c) (c_unbind_refuses_default c)) ex m = Some l /\ ~ In q l.
Proof. exact direct_early_return_refuted. Qed.
Print Assumptions C08_direct_early_return_refuted.

(* F11 (repaired): `==` on interface values panics *)
Theorem C08_iface_eq_panics_refuted : forall c, cfg_sane c = true ->
  exists ex m, kind_of c (ex_type ex) = Some KHeaders /\ Forall (binding_wf c KHeaders) (ex_bindings ex) /\
    matched_queues (cfg_set c (c_early_direct c) CmpIfaceEq (c_unbind_refuses_default c)) ex m = None.
Proof. exact iface_eq_panics. Qed.
Print Assumptions C08_iface_eq_panics_refuted.

(* F50 (repaired): queue.unbind on the default exchange removes the implicit binding *)
Theorem C08_default_exchange_unbind_refuted :
  let c' := cfg_set gen_cfg (c_early_direct gen_cfg) (c_cmp gen_cfg) false in
  exists ops q e, let t := topo_run c' (topo_init c') ops in
    In q (t_queues t) /\ find_exchange (t_exchanges t) [] = Some e /\
    matched_queues c' e {| m_exchange := []; m_key := q; m_headers := None; m_mandatory := true |} = Some [].
Proof. exact unbind_default_refuted. Qed.
Print Assumptions C08_default_exchange_unbind_refuted.

(* ---------------------------------------------------------------- non-vacuity *)
Definition s_a := [97]. Definition s_b := [98]. Definition s_e := [101].
Definition s_q1 := [113; 49]. Definition s_q2 := [113; 50]. Definition s_q3 := [113; 51].
Definition key_a_b := [97; 46; 98].           (* a.b *)
Definition pat_a_star := [97; 46; 42].        (* a.* *)
Definition pat_hash_b := [35; 46; 98].        (* #.b *)
Definition pat_a_hash_b := [97; 46; 35; 46; 98]. (* a.#.b *)

Definition mkb (q key : bytes) (args : option table) (topic : bool) (mt : match_type) : binding :=
  {| b_queue := q; b_exchange := s_e; b_key := key; b_args := args; b_topic := topic; b_match := mt |}.

(* a topic exchange with three well-formed bindings, two of them for the same queue *)
Definition ex_topic : exchange :=
  {| ex_name := s_e; ex_type := 3;
     ex_bindings := [mkb s_q1 pat_a_star None true MatchAll; mkb s_q2 pat_hash_b None true MatchAll;
                     mkb s_q1 pat_a_hash_b None true MatchAll; mkb s_q3 s_b None true MatchAll] |}.
Definition msg_ab : message_view := {| m_exchange := s_e; m_key := key_a_b; m_headers := None; m_mandatory := true |}.

Example C08_route_example_hypotheses :
  kind_of gen_cfg (ex_type ex_topic) = Some KTopic /\
  Forall (binding_wf gen_cfg KTopic) (ex_bindings ex_topic) /\ Forall (no_f50 msg_ab) (ex_bindings ex_topic).
Proof.
  split; [reflexivity|]. split.
  - repeat constructor.
  - repeat constructor; intros _ t E; discriminate.
Qed.

Example C08_route_example : matched_queues gen_cfg ex_topic msg_ab = Some [s_q1; s_q2].
Proof. vm_compute. reflexivity. Qed.

(* a headers exchange: all / any / presence test / ignored x- argument *)
Definition xm (v : bytes) : bytes * value := ([120; 45; 109; 97; 116; 99; 104], VStr v).
Definition ex_headers : exchange :=
  {| ex_name := s_e; ex_type := 4;
     ex_bindings := [mkb s_q1 [] (Some [(s_a, VInt I32 1); (s_b, VNil); xm [97; 108; 108]]) false MatchAll;
                     mkb s_q2 [] (Some [(s_a, VInt I32 2); (s_b, VStr [120]); xm [97; 110; 121]]) false MatchAny;
                     mkb s_q3 [] (Some [(s_a, VInt I16 1); ([120; 45; 122], VBool true)]) false MatchAll] |}.
Definition msg_h : message_view :=
  {| m_exchange := s_e; m_key := []; m_headers := Some [(s_a, VInt I32 1); (s_b, VStr [120])]; m_mandatory := false |}.

Example C08_headers_example_hypotheses :
  kind_of gen_cfg (ex_type ex_headers) = Some KHeaders /\
  Forall (binding_wf gen_cfg KHeaders) (ex_bindings ex_headers) /\ Forall (no_f50 msg_h) (ex_bindings ex_headers).
Proof.
  split; [reflexivity|]. split.
  - repeat constructor.
  - repeat constructor; intros E; discriminate.
Qed.

(* an x-match sent as long string under the 0-9-1 dialect selects the mode as well *)
Example C08_xmatch_long_string_example :
  option_map b_match (new_binding gen_cfg s_q1 s_e [] (Some [(s_a, VInt I32 1); ([120; 45; 109; 97; 116; 99; 104], VBytes [97; 110; 121])]) false)
  = Some MatchAny.
Proof. vm_compute. reflexivity. Qed.

Example C08_headers_example : matched_queues gen_cfg ex_headers msg_h = Some [s_q1; s_q2].
Proof. vm_compute. reflexivity. Qed.

Example C08_topic_example :
  topic_match_bytes (topic_words pat_a_hash_b) (topic_words [97; 46; 120; 46; 121; 46; 98]) = true /\
  topic_match_bytes (topic_words pat_a_hash_b) (topic_words [97; 120; 98]) = false /\
  topic_match_bytes (topic_words pat_a_star) (topic_words [97]) = false /\
  topic_match_bytes (topic_words [35]) (topic_words []) = true.
Proof. vm_compute. repeat split; reflexivity. Qed.

Example C08_placed_once_example :
  publish_decision gen_cfg (fun n => if bytes_eqb n s_e then Some ex_topic else None) (fun _ => true) msg_ab
  = Some [PPush s_q1; PPush s_q2].
Proof. vm_compute. reflexivity. Qed.

Example C08_unroutable_example :
  publish_decision gen_cfg (fun n => if bytes_eqb n s_e then Some ex_topic else None) (fun _ => true)
    {| m_exchange := s_e; m_key := [122]; m_headers := None; m_mandatory := true |} = Some [PReturn; PConfirm] /\
  publish_decision gen_cfg (fun n => if bytes_eqb n s_e then Some ex_topic else None) (fun _ => true)
    {| m_exchange := s_e; m_key := [122]; m_headers := None; m_mandatory := false |} = Some [PConfirm].
Proof. vm_compute. split; reflexivity. Qed.

Example C08_binding_maintenance_example :
  let b1 := mkb s_q1 s_a None false MatchAll in
  let b2 := mkb s_q2 s_a None false MatchAll in
  bl_run [BAppend b1; BAppend b2; BAppend b1; BRemove b1; BAppend b1; BRemoveQueue s_q2] = [b1].
Proof. vm_compute. reflexivity. Qed.

Example C08_default_exchange_example :
  let t := topo_run gen_cfg (topo_init gen_cfg)
             [TDeclareQueue s_q1; TDeclareQueue s_q2; TUnbind s_q1 [] s_q1 (Some []); TDeleteQueue s_q2] in
  t_queues t = [s_q1] /\
  option_map (fun e => matched_queues gen_cfg e {| m_exchange := []; m_key := s_q1; m_headers := None; m_mandatory := false |})
             (find_exchange (t_exchanges t) []) = Some (Some [s_q1]).
Proof. vm_compute. split; reflexivity. Qed.
