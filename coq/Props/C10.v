(* C10 - nothing is reachable without an authenticated, opened connection.
   Only statements: each closed by `exact <lemma>` + Print Assumptions.
   The model carries the handshake stage of every connection (start -> tune -> tune-ok -> open); the outcome of the three
   checks it does not compute (PLAIN + a configured user's password; limits within the server's; an existing virtual
   host) is a bit on the label, computed by the harness from what it really sent and compared with the broker's
   behaviour by the correspondence.  The theorems of this file speak about the frames of the connection itself; that the
   labels of OTHER connections and the internal labels leave this connection alone, and that it is invisible to them
   until it is opened - for all interleavings - is Props/C10_history.v. *)
From Coq Require Import List String NArith ZArith Bool.
Import ListNotations.
From GMQ Require Import Broker.Model Proofs.BrokerFrames Proofs.BrokerTags Proofs.BrokerChanInv Proofs.BrokerRelease
  Proofs.BrokerHandshake.
Open Scope N_scope.

(* an accepted socket starts in the handshake, having been sent connection.start and nothing else *)
Theorem C10_accept_starts_handshake :
  forall cfg fx s c, get_conn s c = None ->
    in_handshake (fst (step cfg fx s (LAccept c))) c StStart /\
    snd (step cfg fx s (LAccept c)) = [(c, 0, SConnStart)] /\
    world (fst (step cfg fx s (LAccept c))) c = world s c.
Proof. exact accept_starts_handshake. Qed.
Print Assumptions C10_accept_starts_handshake.

(* one frame of a connection in the handshake - ANY method of any class on any channel, a content header, a content
   body: the broker outside this connection's own record is untouched, and the connection either advances by exactly
   the step the stage machine allows or is dropped with nothing but close frames *)
Theorem C10_one_frame_before_open :
  forall cfg fx s c st l,
    fx_stage fx = true -> in_handshake s c st -> owns_nothing s c -> client_label c l ->
    world (fst (step cfg fx s l)) c = world s c /\ hs_post c (advance st l) (fst (step cfg fx s l)) (snd (step cfg fx s l)).
Proof. exact handshake_step. Qed.
Print Assumptions C10_one_frame_before_open.

(* any sequence of frames that does not complete the three steps in order: no side effect, no reply other than
   tune / close, and the connection is where the stage machine says, or gone *)
Theorem C10_no_effect_without_handshake :
  forall cfg fx c ls s st,
    fx_stage fx = true -> Forall (client_label c) ls -> in_handshake s c st -> owns_nothing s c ->
    (forall pre l post, ls = pre ++ l :: post -> stage_after (Some st) (pre ++ [l]) <> Some StOpen) ->
    world (fst (run cfg fx s ls)) c = world s c /\
    match stage_after (Some st) ls with
    | Some st' => in_handshake (fst (run cfg fx s ls)) c st'
    | None => get_conn (fst (run cfg fx s ls)) c = None
    end /\
    (forall h f, In (c, h, f) (snd (run cfg fx s ls)) ->
       f = SConnTune \/ f = SConnGone \/ f = SConnCloseOk \/ exists code cls mth, f = SConnClose code cls mth).
Proof. exact handshake_run. Qed.
Print Assumptions C10_no_effect_without_handshake.

(* a connection is open only if its frames contained start-ok (good credentials), tune-ok (within limits) and open
   (existing vhost) in this order with nothing else before them *)
Theorem C10_opened_only_in_order :
  forall cfg fx c ls s st,
    fx_stage fx = true -> Forall (client_label c) ls -> in_handshake s c st -> owns_nothing s c ->
    conn_opened (fst (run cfg fx s ls)) c = true ->
    exists pre l post, ls = pre ++ l :: post /\ stage_after (Some st) (pre ++ [l]) = Some StOpen.
Proof. exact opened_only_in_order. Qed.
Print Assumptions C10_opened_only_in_order.

(* non-vacuity: on the initial broker a fresh socket is in the handshake and owns nothing; the three steps open it;
   bad credentials, a skipped step, a declare on channel 1 drop it *)
Definition cfg0 : config := {| cfg_rabbit := true; cfg_rollback := true; cfg_release_first := false |}.
Definition s1 : state := fst (step cfg0 all_fixed (init cfg0) (LAccept 1)).
Example C10_hypotheses_inhabited : in_handshake s1 1 StStart /\ owns_nothing s1 1.
Proof. split; [apply accept_starts_handshake; reflexivity|reflexivity]. Qed.
Example C10_right_steps_open :
  conn_opened (fst (run cfg0 all_fixed s1 [LMethod 1 0 (MStartOk true); LMethod 1 0 (MTuneOk true); LMethod 1 0 (MConnOpen true)])) 1 = true.
Proof. vm_compute. reflexivity. Qed.
Example C10_wrong_steps_drop :
  get_conn (fst (run cfg0 all_fixed s1 [LMethod 1 0 (MStartOk false)])) 1 = None /\
  get_conn (fst (run cfg0 all_fixed s1 [LMethod 1 0 (MTuneOk true)])) 1 = None /\
  get_conn (fst (run cfg0 all_fixed s1 [LMethod 1 0 (MStartOk true); LMethod 1 0 (MConnOpen true)])) 1 = None /\
  get_conn (fst (run cfg0 all_fixed s1 [LMethod 1 1 (MQDeclare "q" false false false false false)])) 1 = None /\
  queues (fst (run cfg0 all_fixed s1 [LMethod 1 1 (MQDeclare "q" false false false false false)])) = [].
Proof. vm_compute. repeat split. Qed.
