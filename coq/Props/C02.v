(* C02 - no phantom or duplicate deliveries; content is delivered unaltered.
   Only statements: each closed by `exact <lemma>` + Print Assumptions.
   What is proved here is the set of local facts the property rests on, for ANY state; the global clauses that need the
   whole history (a settled copy is never delivered again, also not after a restart; content equality end to end) are
   checked by the monitor on every explored session and stated as partial in DESIGN.md. *)
From Coq Require Import List String NArith ZArith Bool.
Import ListNotations.
From GMQ Require Import Broker.Model Proofs.BrokerFrames Proofs.BrokerTags Proofs.BrokerChanInv Proofs.BrokerDeliveryTag Proofs.BrokerReady.
Open Scope N_scope.

(* each publish yields exactly one copy per destination queue, and none elsewhere *)
Theorem C02_one_copy_per_destination_queue :
  forall fx s c h u m ex q,
    get_msg s u = Some m -> alookup seqb (m_ex m) (exchanges s) = Some ex ->
    R (fst (route_and_push fx s c h u)) q =
    match R s q with
    | Some l => Some (if existsb (seqb q) (matched_queues (negb (fx_direct_all fx)) ex (m_key m)) && push_target s q then l ++ [u] else l)
    | None => None
    end.
Proof. exact route_places_once. Qed.
Print Assumptions C02_one_copy_per_destination_queue.

(* the destination set itself has no duplicates, whatever the bindings (several bindings of one queue match once) *)
Theorem C02_destinations_distinct : forall b ex key, NoDup (matched_queues b ex key).
Proof. exact matched_queues_nodup. Qed.
Print Assumptions C02_destinations_distinct.

(* a delivery takes its message OUT of the queue: it cannot be handed to a second consumer while it is out *)
Theorem C02_delivered_message_leaves_the_queue :
  forall cfg fx s c h tag q,
    let s' := fst (consumer_turn cfg fx s c h tag) in
    R s' q = R s q \/ exists u l, R s q = Some (u :: l) /\ R s' q = Some l.
Proof. exact consumer_turn_pops_head. Qed.
Print Assumptions C02_delivered_message_leaves_the_queue.

(* in every reachable state the outstanding deliveries of a channel are distinct (no delivery is registered twice) *)
Theorem C02_outstanding_deliveries_distinct :
  forall cfg fx ls c h ch,
    get_chan (fst (run cfg fx (init cfg) ls)) c h = Some ch -> NoDup (map u_tag (ch_unacked ch)).
Proof. intros. exact (proj1 (tags_invariant_reachable cfg fx ls c h ch H)). Qed.
Print Assumptions C02_outstanding_deliveries_distinct.

(* the only way back into a queue is a return (reject / nack with requeue, channel or connection end), which raises the
   delivery count - what the redelivered flag of the next delivery reads - and leaves the content fields untouched *)
Theorem C02_return_raises_delivery_count :
  forall s qn u qu m,
    get_queue s qn = Some qu -> q_active qu = true -> get_msg s u = Some m ->
    exists m', get_msg (queue_requeue s qn u) u = Some m' /\ m_dc m' = N.succ (m_dc m) /\
               m_mid m' = m_mid m /\ m_hsize m' = m_hsize m /\ m_body m' = m_body m /\ m_ex m' = m_ex m /\ m_key m' = m_key m /\ m_pers m' = m_pers m.
Proof. exact requeue_raises_delivery_count. Qed.
Print Assumptions C02_return_raises_delivery_count.

Theorem C02_redelivered_flag : forall dc, redelivered_flag true dc = (0 <? dc).
Proof. exact redelivered_flag_reads_count. Qed.
Print Assumptions C02_redelivered_flag.

(* acknowledging never puts anything (back) into a queue *)
Theorem C02_ack_never_requeues :
  forall cfg s c h tag mult q, R (fst (handle_ack cfg s c h tag mult)) q = R s q.
Proof. exact ack_keeps_ready. Qed.
Print Assumptions C02_ack_never_requeues.

(* Non-vacuity: a fan-out to two queues through three bindings, one redelivery with the flag set. *)
Example C02_example :
  let cfg := {| cfg_rabbit := true; cfg_rollback := true; cfg_release_first := false |} in
  let r := run cfg all_fixed (init cfg)
             [LConnect 1; LMethod 1 1 MChannelOpen;
              LMethod 1 1 (MQDeclare "a" false false false false false); LMethod 1 1 (MQDeclare "b" false false false false false);
              LMethod 1 1 (MQBind "a" "amq.fanout" "" [] false); LMethod 1 1 (MQBind "a" "amq.fanout" "k" [] false);
              LMethod 1 1 (MQBind "b" "amq.fanout" "" [] false);
              LMethod 1 1 (MPublish "amq.fanout" "x" false false); LHeader 1 1 9 2 false; LBody 1 1 2;
              LMethod 1 1 (MGet "a" false); LMethod 1 1 (MReject 1 true); LMethod 1 1 (MGet "a" false)] in
  R (fst r) "b" = Some [1] /\ R (fst r) "a" = Some [] /\
  filter (fun e => match snd e with SGetOk _ _ _ _ _ => true | _ => false end) (snd r)
  = [(1, 1, SGetOk 1 false "amq.fanout" "x" 0); (1, 1, SGetOk 2 true "amq.fanout" "x" 0)].
Proof. vm_compute. repeat split; reflexivity. Qed.
