(* C03 - per-queue FIFO order, also for requeued messages.
   This file holds ONLY property statements, each closed by `exact <lemma>` and
   followed by Print Assumptions. *)
From Coq Require Import List Arith NArith.
Import ListNotations.
From GMQ Require Import Data.SafeQueue Data.gen.SafeQueueGen Proofs.SafeQueueProofs.

(* (a) The in-memory sharded list of every queue behaves as a plain FIFO list
   with head re-insertion, for EVERY shard size and EVERY operation sequence:
   same outputs (pop / head / length), and what can still be drained is the
   abstract list in order.  Covers all depths that cross shard boundaries. *)
Theorem C03_ring_refines_list : forall sz ops, 0 < sz ->
  snd (sq_run true sz (sq_new sz) ops) = snd (lq_run [] ops) /\
  (let q := fst (sq_run true sz (sq_new sz) ops) in
   let l := fst (lq_run [] ops) in
   len q = length l /\ sq_drain (length l) sz q = l).
Proof. exact ring_refines_list. Qed.
Print Assumptions C03_ring_refines_list.

(* The theorem above is about the code that exists only if the regenerated
   model parameter says that DirtyPurge resets both positions. *)
Theorem C03_generated_purge_resets : purge_resets_pos = true.
Proof. reflexivity. Qed.
Print Assumptions C03_generated_purge_resets.

(* Non-vacuity: a concrete run that crosses shard boundaries both ways. *)
Example C03_ring_example :
  snd (sq_run true 2 (sq_new 2) [OPush 1; OPush 2; OPush 3; OPop; OPushHead 4; OPushHead 5; OPop; OPop; OPop; OPop; OPop]%N)
  = [RNone; RNone; RNone; RItem (Some 1); RNone; RNone; RItem (Some 5); RItem (Some 4); RItem (Some 2); RItem (Some 3); RItem None]%N.
Proof. vm_compute. reflexivity. Qed.

(* The un-repaired purge (defect F01, fixed in /repo) is refuted by a witness. *)
Theorem C03_ring_without_pos_reset_refuted : exists sz ops, 0 < sz /\
  snd (sq_run false sz (sq_new sz) ops) <> snd (lq_run [] ops).
Proof. exact ring_without_pos_reset_refuted. Qed.
Print Assumptions C03_ring_without_pos_reset_refuted.

(* ------------------------------------------------------------------ *)
(* (b), (c) at broker level (the ready list of the model is the list the ring above refines). *)
From GMQ Require Import Broker.Model Proofs.BrokerFrames Proofs.BrokerTags Proofs.BrokerChanInv Proofs.BrokerReady.
From Coq Require Import Sorted String ZArith Bool.
Open Scope N_scope.

(* (b) publication order: a publish appends at the TAIL of each matched queue and a delivery takes the HEAD, so
   messages of one publisher channel (whose frames are handled in order) leave a queue in publication order.
   The two facts, for any state: *)
Theorem C03_publish_appends_at_tail :
  forall fx s c h u m ex q,
    get_msg s u = Some m -> alookup seqb (m_ex m) (exchanges s) = Some ex ->
    R (fst (route_and_push fx s c h u)) q =
    match R s q with
    | Some l => Some (if existsb (seqb q) (matched_queues (negb (fx_direct_all fx)) ex (m_key m)) && push_target s q then l ++ [u] else l)
    | None => None
    end.
Proof. exact route_places_once. Qed.
Print Assumptions C03_publish_appends_at_tail.

Theorem C03_delivery_takes_the_head :
  forall cfg fx s c h tag q,
    let s' := fst (consumer_turn cfg fx s c h tag) in
    R s' q = R s q \/ exists u l, R s q = Some (u :: l) /\ R s' q = Some l.
Proof. exact consumer_turn_pops_head. Qed.
Print Assumptions C03_delivery_takes_the_head.

(* (c) messages returned together (multiple nack, channel / connection closure) come back AHEAD of the never-delivered
   messages and in the order in which they had been delivered: the returned block is the channel's unsettled deliveries
   in increasing delivery-tag order. *)
Theorem C03_batch_return_order_close :
  forall cfg s c h q,
    0 < h ->
    R (channel_close cfg s c h) q =
    match R s q with
    | Some l => Some (map u_msg (filter (goes_to s q) (rev (sort_desc (U s c h)))) ++ l)
    | None => None
    end.
Proof. exact channel_close_returns. Qed.
Print Assumptions C03_batch_return_order_close.

Theorem C03_batch_return_order_nack :
  forall cfg s c h tag cls mth q,
    R (fst (handle_reject cfg s c h tag true true cls mth)) q =
    match R s q with
    | Some l => Some (map u_msg (filter (goes_to s q) (rev (filter (covered tag) (sort_desc (U s c h))))) ++ l)
    | None => None
    end.
Proof. exact reject_multiple_requeue_returns. Qed.
Print Assumptions C03_batch_return_order_nack.

(* rev (sort_desc l) is in increasing tag order *)
Theorem C03_returned_block_is_tag_ordered :
  forall l, Sorted (fun a b => u_tag b <= u_tag a) (sort_desc l).
Proof. exact sort_desc_sorted. Qed.
Print Assumptions C03_returned_block_is_tag_ordered.
