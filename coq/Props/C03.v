(* C03 - per-queue FIFO order, also for requeued messages.
   This file holds ONLY property statements, each closed by `exact <lemma>` and
   followed by Print Assumptions. *)
From Coq Require Import List Arith NArith.
Import ListNotations.
From GMQ Require Import Data.SafeQueue Data.gen.SafeQueueGen Proofs.SafeQueueProofs.

(* (a) The in-memory sharded list of every queue behaves as a plain FIFO list
   with head re-insertion, for EVERY shard size and EVERY operation sequence:
   same outputs (pop / head / length), and what can still be drained is the
   abstract list in order.  Covers all depths that cross shard boundaries. *)
Theorem C03_ring_refines_list : forall sz ops, 0 < sz ->
  snd (sq_run true sz (sq_new sz) ops) = snd (lq_run [] ops) /\
  (let q := fst (sq_run true sz (sq_new sz) ops) in
   let l := fst (lq_run [] ops) in
   len q = length l /\ sq_drain (length l) sz q = l).
Proof. exact ring_refines_list. Qed.
Print Assumptions C03_ring_refines_list.

(* The theorem above is about the code that exists only if the regenerated
   model parameter says that DirtyPurge resets both positions. *)
Theorem C03_generated_purge_resets : purge_resets_pos = true.
Proof. reflexivity. Qed.
Print Assumptions C03_generated_purge_resets.

(* Non-vacuity: a concrete run that crosses shard boundaries both ways. *)
Example C03_ring_example :
  snd (sq_run true 2 (sq_new 2) [OPush 1; OPush 2; OPush 3; OPop; OPushHead 4; OPushHead 5; OPop; OPop; OPop; OPop; OPop]%N)
  = [RNone; RNone; RNone; RItem (Some 1); RNone; RNone; RItem (Some 5); RItem (Some 4); RItem (Some 2); RItem (Some 3); RItem None]%N.
Proof. vm_compute. reflexivity. Qed.

(* The un-repaired purge (defect F01, fixed in /repo) is refuted by a witness. *)
Theorem C03_ring_without_pos_reset_refuted : exists sz ops, 0 < sz /\
  snd (sq_run false sz (sq_new sz) ops) <> snd (lq_run [] ops).
Proof. exact ring_without_pos_reset_refuted. Qed.
Print Assumptions C03_ring_without_pos_reset_refuted.
