(* C09 at broker level - what a graceful restart keeps (the metadata store itself, with kills between any two writes,
   is Props/C09.v; the message store is Props/C04.v).  Also the restart clauses of C02 (no settled message returns)
   and C04 (stored messages come back in order).
   Only statements: each closed by `exact <lemma>` + Print Assumptions. *)
From Coq Require Import List String NArith ZArith Bool Sorted Permutation.
From RecordUpdate Require Import RecordUpdate.
Import ListNotations.
From GMQ Require Import Broker.Model Proofs.BrokerFrames Proofs.BrokerReady Proofs.BrokerRestart.
Open Scope N_scope.
From GMQ Require Import Broker.gen.BrokerGen.

(* a queue survives iff it is durable; it comes back under its name with its auto-delete flag, holding exactly its
   stored messages, owned by nobody, without consumers *)
Theorem C09_queue_survives_iff_durable :
  forall cfg s qn, NoDup (map fst (queues s)) ->
    get_queue (fst (restart cfg s)) qn =
    match get_queue s qn with
    | Some qu => if q_durable qu
                 then Some (new_queue (q_id qu) 0 true false (q_autodel qu)
                              <| q_ready := stored_of s qn |> <| q_len := Z.of_nat (List.length (stored_of s qn)) |>
                              <| q_mready := Z.of_nat (List.length (stored_of s qn)) |> <| q_mtotal := Z.of_nat (List.length (stored_of s qn)) |>)
                 else None
    | None => None
    end.
Proof. exact restart_queues. Qed.
Print Assumptions C09_queue_survives_iff_durable.

(* an exchange survives iff it is durable (or one of the pre-declared ones), with its name and type - its auto-delete
   and internal flags are NOT kept (open finding F22: the stored form is name + type) -; of its bindings exactly those
   to surviving queues come back *)
Theorem C09_exchange_and_bindings_survive_exactly :
  forall cfg s en e',
    In (en, e') (exchanges (fst (restart cfg s))) <->
    exists e, In (en, e) (exchanges s) /\ (e_system e || e_durable e = true) /\
              e' = (if e_system e then e else e <| e_autodel := false |> <| e_internal := false |>)
                     <| e_bindings ::= filter (fun b => existsb (fun kv => seqb (fst kv) (b_queue b)) (filter (fun kv => q_durable (snd kv)) (queues s))) |>.
Proof. exact restart_exchanges. Qed.
Print Assumptions C09_exchange_and_bindings_survive_exactly.

(* nothing of the sessions survives: no connection, consumer, exclusive owner, unsettled delivery, pending store op *)
Theorem C09_sessions_do_not_survive :
  forall cfg s,
    conns (fst (restart cfg s)) = [] /\ st_add (fst (restart cfg s)) = [] /\ st_del (fst (restart cfg s)) = [] /\
    relay (fst (restart cfg s)) = [] /\ autodel (fst (restart cfg s)) = [] /\ srv_unacked (fst (restart cfg s)) = 0%Z /\
    (forall qn qu, In (qn, qu) (queues (fst (restart cfg s))) -> q_consumers qu = [] /\ q_excl qu = false /\ q_durable qu = true /\ q_active qu = true).
Proof. exact restart_forgets_sessions. Qed.
Print Assumptions C09_sessions_do_not_survive.

(* the messages a surviving queue holds after the restart: its stored keys, each exactly once, in ascending id order
   (C04: original order; C02: a message whose key was deleted - acknowledged, purged - does not return) *)
Theorem C04_stored_messages_return_once_in_order :
  forall s qn,
    Permutation (stored_of s qn) (map fst (filter (fun k => seqb (snd k) qn) (st_db s))) /\
    StronglySorted N.le (stored_of s qn).
Proof. exact restart_messages. Qed.
Print Assumptions C04_stored_messages_return_once_in_order.

(* write-through: the metadata of a durable entity is in the store before the handler replies (no goroutine in the
   write path of AppendQueue / AppendExchange / PersistBinding / DeleteQueue) - read off /repo on every run *)
Theorem C09_generated_metadata_written_before_reply : metadata_written_before_reply = true.
Proof. reflexivity. Qed.
Print Assumptions C09_generated_metadata_written_before_reply.
