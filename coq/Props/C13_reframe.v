(* C13, the frame-max clause: "No frame exceeds the negotiated frame-max ... including publisher and consumer that
   negotiated different limits" - for the body frames of every content block (deliver, get-ok, return), which the broker
   stores as the publisher cut them. Only statements: each closed by `exact <lemma>` + Print Assumptions.
   The model (Data/Reframe.v) is the loop of SendContent over payload lengths; its constants and its shape are read off
   /repo on every run (the obligations named C13_generated_...), and the sizes the real broker sends to a receiver that negotiated
   4096 are compared with `reframe` on every run (checks/C13.py, session corpus/C13/frame-max-receiver.racy).
   PARTIAL: method and header frames are not covered (their size does not depend on the publisher); frame-max values the
   protocol forbids (below 4096) are accepted by the broker and, when <= 8, treated as "no limit". *)
From Coq Require Import List NArith Bool.
Import ListNotations.
From GMQ Require Import Broker.gen.BrokerGen Data.Reframe Proofs.ReframeProofs.
From GMQ Require Import Broker.Model Proofs.BrokerStream Proofs.ReframeBridge.
Local Open Scope N_scope.

(* what the translator read off SendContent *)
Theorem C13_generated_reframe_shape : body_frames_recut = true /\ body_frames_sent_as_copies = true.
Proof. split; reflexivity. Qed.
Print Assumptions C13_generated_reframe_shape.

Theorem C13_generated_reframe_constants : reframe_overhead = 8 /\ reframe_guard = 8.
Proof. split; reflexivity. Qed.
Print Assumptions C13_generated_reframe_constants.

(* every body frame sent to a receiver fits the frame-max it negotiated, whatever frames the publisher sent *)
Theorem C13_body_frames_within_receivers_frame_max :
  forall fmax stored, 8 < fmax -> Forall (fun n => wire_size n <= fmax) (reframe fmax stored).
Proof. exact reframe_within_frame_max_gen. Qed.
Print Assumptions C13_body_frames_within_receivers_frame_max.

(* ... and together they carry exactly the stored bytes: the announced body-size is still met *)
Theorem C13_reframe_keeps_body_size : forall fmax stored, sumN (reframe fmax stored) = sumN stored.
Proof. exact reframe_sum. Qed.
Print Assumptions C13_reframe_keeps_body_size.

(* byte level: the pieces of one stored payload, concatenated, are that payload, and their lengths are the model's *)
Theorem C13_cut_keeps_bytes_in_order :
  forall (fuel maxp : nat) (body : list N),
    concat (cut_bytes fuel maxp body) = body /\
    map (fun p => N.of_nat (length p)) (cut_bytes fuel maxp body) = recut_loop fuel (N.of_nat maxp) (N.of_nat (length body)).
Proof. exact cut_bytes_spec. Qed.
Print Assumptions C13_cut_keeps_bytes_in_order.

(* no empty body frame is made out of non-empty ones *)
Theorem C13_reframe_makes_no_empty_frame :
  forall fmax stored, Forall (fun n => 0 < n) stored -> Forall (fun n => 0 < n) (reframe fmax stored).
Proof. exact reframe_no_empty_frames. Qed.
Print Assumptions C13_reframe_makes_no_empty_frame.

(* what must NOT change: a receiver whose limit the stored frames respect, or without a limit of its own (frame-max 0),
   gets them as stored *)
Theorem C13_reframe_is_identity_when_it_fits :
  forall fmax stored, (fmax <= 8 \/ Forall (fun n => n <= max_payload fmax) stored) -> reframe fmax stored = stored.
Proof. exact reframe_identity. Qed.
Print Assumptions C13_reframe_is_identity_when_it_fits.

(* the fuel of `recut` is never what ends the loop *)
Theorem C13_recut_fuel_is_enough :
  forall maxp len f2, 0 < maxp -> (N.to_nat (len / maxp) <= f2)%nat -> recut_loop f2 maxp len = recut maxp len.
Proof. exact recut_fuel_is_enough. Qed.
Print Assumptions C13_recut_fuel_is_enough.

(* the bridge to the broker model: the body frames of the model's content block are the stored frames of the message
   (C13_block_has_announced_size in Props/C13.v); re-cut for any receiver they still carry the announced body-size, and
   fit that receiver's frame-max *)
Theorem C13_recut_block_keeps_announced_size :
  forall s u m fmax, get_msg s u = Some m -> msg_complete m -> sumN (reframe fmax (m_body m)) = m_hsize m.
Proof. exact recut_block_has_announced_size. Qed.
Print Assumptions C13_recut_block_keeps_announced_size.

Theorem C13_recut_block_within_frame_max :
  forall s u m fmax, get_msg s u = Some m -> 8 < fmax -> Forall (fun n => wire_size n <= fmax) (reframe fmax (m_body m)).
Proof. exact recut_block_within_frame_max. Qed.
Print Assumptions C13_recut_block_within_frame_max.

(* non-vacuity: the session the check replays on the real broker *)
Example C13_reframe_example :
  reframe 4096 [5000] = [4088; 912] /\ reframe 4096 [9000; 100] = [4088; 4088; 824; 100] /\
  reframe 4096 [4089] = [4088; 1] /\ reframe 65536 [60000; 5] = [60000; 5] /\ reframe 0 [70000] = [70000].
Proof. vm_compute. repeat split. Qed.
