(* C06 - the ledgers of the per-consumer window (amqp-rabbit dialect), of the connection-wide window (amqp-0-9-1
   dialect) and the byte ledgers of the channel window, of the per-consumer window and of the connection-wide window,
   over whole histories.  Only statements: each closed by `exact <lemma>` + Print Assumptions; examples by
   vm_compute.  Proofs in Proofs/BrokerLedger2.v.

   Hypotheses every theorem carries, and why:
   - fx_stage, fx_chan_open, fx_closeok_releases (F14/F15/F48, F54, F33 repaired - as in all_fixed): without any one of
     them a channel number can be re-opened over live consumers or unsettled deliveries whose window share is never
     released; the C06_*_refuted examples below give the label lists;
   - small_along / smallc_along: no channel (connection) ever holds 65535 unsettled deliveries - the uint16 counter of
     the window wraps there (finding F32). *)
From Coq Require Import List String NArith ZArith Bool.
Import ListNotations.
From GMQ Require Import Broker.Model Run.BrokerRun Proofs.BrokerFrames Proofs.BrokerTags Proofs.BrokerChanInv Proofs.BrokerHeld
  Proofs.BrokerLedger Proofs.BrokerLedger2.
Open Scope string_scope.
Open Scope N_scope.
Open Scope list_scope.

(* ---- auxiliary invariant: a closed channel, and channel 0, hold no consumer and no unsettled delivery ---- *)
Theorem C06_closed_channels_empty_step :
  forall cfg fx, fx_stage fx = true -> fx_chan_open fx = true -> fx_closeok_releases fx = true ->
  forall s l, CB s -> CB (fst (step cfg fx s l)).
Proof. exact CB_step. Qed.
Print Assumptions C06_closed_channels_empty_step.

(* ---- THE CONSUMER LEDGER (amqp-rabbit dialect) ---- *)
(* one step of the broker - any client frame, any goroutine turn, socket loss, restart - keeps, for every channel:
   consumer tags distinct and not empty, every tagged unsettled delivery names a consumer of the channel, every
   consumer's own window counts exactly its own unsettled deliveries, the template window counts nothing *)
Theorem C06_consumer_ledger_step :
  forall cfg fx, cfg_rabbit cfg = true -> fx_stage fx = true -> fx_chan_open fx = true -> fx_closeok_releases fx = true ->
  forall s l, CB s -> Small s -> allch CLP s -> allch CLP (fst (step cfg fx s l)).
Proof. exact CL_step. Qed.
Print Assumptions C06_consumer_ledger_step.

Theorem C06_consumer_ledger_in_every_reachable_state :
  forall cfg fx ls c h ch cm,
    cfg_rabbit cfg = true -> fx_stage fx = true -> fx_chan_open fx = true -> fx_closeok_releases fx = true ->
    small_along cfg fx (init cfg) ls ->
    get_chan (fst (run cfg fx (init cfg) ls)) c h = Some ch -> In cm (ch_consumers ch) ->
    cc (c_own cm) = N.of_nat (List.length (filter (fun u => seqb (u_ctag u) (c_tag cm)) (ch_unacked ch))).
Proof. exact consumer_ledger_reachable. Qed.
Print Assumptions C06_consumer_ledger_in_every_reachable_state.

Theorem C06_consumer_invariant_in_every_reachable_state :
  forall cfg fx ls c h ch,
    cfg_rabbit cfg = true -> fx_stage fx = true -> fx_chan_open fx = true -> fx_closeok_releases fx = true ->
    small_along cfg fx (init cfg) ls ->
    get_chan (fst (run cfg fx (init cfg) ls)) c h = Some ch ->
    NoDup (map c_tag (ch_consumers ch)) /\ (forall cm, In cm (ch_consumers ch) -> c_tag cm <> "") /\
    (forall u, In u (ch_unacked ch) -> u_ctag u <> "" -> exists cm, In cm (ch_consumers ch) /\ c_tag cm = u_ctag u) /\
    (forall cm, In cm (ch_consumers ch) ->
       cc (c_own cm) = N.of_nat (List.length (filter (fun u => seqb (u_ctag u) (c_tag cm)) (ch_unacked ch)))) /\
    cc (ch_cqos ch) = 0.
Proof. exact consumer_invariant_reachable. Qed.
Print Assumptions C06_consumer_invariant_in_every_reachable_state.

(* with the ledger, admission by the consumer's own window says what the property says *)
Theorem C06_consumer_delivery_only_below_limit :
  forall ch cm size w',
    cinv k0 ch -> In cm (ch_consumers ch) -> N.of_nat (List.length (ch_unacked ch)) + 1 < two16 ->
    qos_inc (c_own cm) size = Some w' -> pc (c_own cm) <> 0 ->
    cnt (ch_unacked ch) (c_tag cm) + 1 <= pc (c_own cm) /\ cc w' = cnt (ch_unacked ch) (c_tag cm) + 1.
Proof. exact consumer_delivery_only_below_limit. Qed.
Print Assumptions C06_consumer_delivery_only_below_limit.

(* ... for the deliveries the broker actually makes: in every reachable state, a consumer turn that emits a
   basic.deliver to a consumer whose prefetch count is N > 0 found fewer than N of that consumer's deliveries unsettled *)
Theorem C06_consumer_delivery_bounded :
  forall cfg fx ls c h tag ch cm d r ex k,
    cfg_rabbit cfg = true -> fx_stage fx = true -> fx_chan_open fx = true -> fx_closeok_releases fx = true ->
    small_along cfg fx (init cfg) ls ->
    let s := fst (run cfg fx (init cfg) ls) in
    get_chan s c h = Some ch -> find_consumer ch tag = Some cm -> c_noack cm = false -> pc (c_own cm) <> 0 ->
    In (c, h, SDeliver tag d r ex k) (snd (consumer_turn cfg fx s c h tag)) ->
    N.of_nat (List.length (filter (fun u => seqb (u_ctag u) (c_tag cm)) (ch_unacked ch))) + 1 <= pc (c_own cm).
Proof. exact consumer_delivery_bounded_reachable. Qed.
Print Assumptions C06_consumer_delivery_bounded.

(* ---- THE CONNECTION LEDGER (amqp-0-9-1 dialect) ---- *)
Theorem C06_connection_ledger_step :
  forall cfg fx, cfg_rabbit cfg = false -> fx_stage fx = true -> fx_chan_open fx = true -> fx_closeok_releases fx = true ->
  forall s l, CB s -> allcn SmallCP s -> allcn NLP s -> allcn NLP (fst (step cfg fx s l)).
Proof. exact NL_step. Qed.
Print Assumptions C06_connection_ledger_step.

Theorem C06_connection_ledger_in_every_reachable_state :
  forall cfg fx ls c cn,
    cfg_rabbit cfg = false -> fx_stage fx = true -> fx_chan_open fx = true -> fx_closeok_releases fx = true ->
    smallc_along cfg fx (init cfg) ls ->
    get_conn (fst (run cfg fx (init cfg) ls)) c = Some cn ->
    cc (cn_qos cn) = N.of_nat (List.length (chan_unacked_all cn)).
Proof. exact conn_ledger_reachable. Qed.
Print Assumptions C06_connection_ledger_in_every_reachable_state.

Theorem C06_connection_delivery_only_below_limit :
  forall cn size w',
    nl 0 cn -> tot cn + 1 < two16 -> qos_inc (cn_qos cn) size = Some w' -> pc (cn_qos cn) <> 0 ->
    tot cn + 1 <= pc (cn_qos cn) /\ cc w' = tot cn + 1.
Proof. exact conn_delivery_only_below_limit. Qed.
Print Assumptions C06_connection_delivery_only_below_limit.

Theorem C06_connection_delivery_bounded :
  forall cfg fx ls c h tag ch cm cn d r ex k,
    cfg_rabbit cfg = false -> fx_stage fx = true -> fx_chan_open fx = true -> fx_closeok_releases fx = true ->
    smallc_along cfg fx (init cfg) ls ->
    let s := fst (run cfg fx (init cfg) ls) in
    get_chan s c h = Some ch -> get_conn s c = Some cn -> find_consumer ch tag = Some cm -> c_noack cm = false -> pc (cn_qos cn) <> 0 ->
    In (c, h, SDeliver tag d r ex k) (snd (consumer_turn cfg fx s c h tag)) ->
    N.of_nat (List.length (chan_unacked_all cn)) + 1 <= pc (cn_qos cn).
Proof. exact conn_delivery_bounded_reachable. Qed.
Print Assumptions C06_connection_delivery_bounded.

(* basic.get (with ack) under a connection-wide limit *)
Theorem C06_connection_get_bounded :
  forall cfg fx ls c h q ch cn dt r ex k mc,
    cfg_rabbit cfg = false -> fx_stage fx = true -> fx_chan_open fx = true -> fx_closeok_releases fx = true ->
    smallc_along cfg fx (init cfg) ls ->
    let s := fst (run cfg fx (init cfg) ls) in
    get_chan s c h = Some ch -> get_conn s c = Some cn -> pc (cn_qos cn) <> 0 ->
    In (c, h, SGetOk dt r ex k mc) (snd (fst (handle_method cfg fx s c h (MGet q false)))) ->
    N.of_nat (List.length (chan_unacked_all cn)) + 1 <= pc (cn_qos cn).
Proof. exact conn_get_bounded_reachable. Qed.
Print Assumptions C06_connection_get_bounded.

(* ---- non-vacuity ---- *)
Definition rab := {| cfg_rabbit := true; cfg_rollback := true; cfg_release_first := false |}.
Definition std := {| cfg_rabbit := false; cfg_rollback := true; cfg_release_first := false |}.
Definition pubq (c h : N) (q : string) (k : N) : list label := [LMethod c h (MPublish "" q false false); LHeader c h k 3 false; LBody c h 3].
(* (message, consumer tag) of the unsettled deliveries; (tag, prefetch count, window count) of the consumers *)
Definition view (s : state) (c h : N) :=
  match get_chan s c h with
  | Some ch => (map (fun u => (u_msg u, u_ctag u)) (ch_unacked ch), map (fun cm => (c_tag cm, pc (c_own cm), cc (c_own cm))) (ch_consumers ch))
  | None => ([], [])
  end.
(* (prefetch count, window count) of the connection; the unsettled messages per channel *)
Definition viewc (s : state) (c : N) :=
  match get_conn s c with
  | Some cn => (pc (cn_qos cn), cc (cn_qos cn), map (fun kh => (fst kh, map u_msg (ch_unacked (snd kh)))) (cn_chans cn))
  | None => (0, 0, [])
  end.

(* two consumers on one channel, prefetch 1 for "a" and 3 for "b", seven messages: a holds 1, b holds 2 3 4.  "a" is
   cancelled and consumed again with prefetch 2: the new "a" receives 5 and 6, message 1 belongs to no consumer any
   more.  Acknowledging 1 gives nobody anything; acknowledging 2 lets 7 through to "b". *)
Definition ex1_script : list label :=
  [LConnect 1; LMethod 1 1 MChannelOpen; LMethod 1 1 (MQDeclare "q" false false false false false);
   LMethod 1 1 (MQos 1 0 false); LMethod 1 1 (MConsume "q" "a" false false false);
   LMethod 1 1 (MQos 3 0 false); LMethod 1 1 (MConsume "q" "b" false false false)]
  ++ pubq 1 1 "q" 1 ++ pubq 1 1 "q" 2 ++ pubq 1 1 "q" 3 ++ pubq 1 1 "q" 4 ++ pubq 1 1 "q" 5 ++ pubq 1 1 "q" 6 ++ pubq 1 1 "q" 7.
Example C06_consumer_ledger_example :
  let s1 := fst (run_step rab all_fixed (init rab) ex1_script) in
  let s2 := fst (run_step rab all_fixed s1 [LMethod 1 1 (MCancel "a" false); LMethod 1 1 (MQos 2 0 false); LMethod 1 1 (MConsume "q" "a" false false false)]) in
  let s3 := fst (run_step rab all_fixed s2 [LMethod 1 1 (MAck 1 false)]) in
  let s4 := fst (run_step rab all_fixed s3 [LMethod 1 1 (MAck 2 false)]) in
  view s1 1 1 = ([(1, "a"); (2, "b"); (3, "b"); (4, "b")], [("a", 1, 1); ("b", 3, 3)]) /\
  view s2 1 1 = ([(1, ""); (2, "b"); (3, "b"); (4, "b"); (5, "a"); (6, "a")], [("b", 3, 3); ("a", 2, 2)]) /\
  view s3 1 1 = ([(2, "b"); (3, "b"); (4, "b"); (5, "a"); (6, "a")], [("b", 3, 3); ("a", 2, 2)]) /\
  view s4 1 1 = ([(3, "b"); (4, "b"); (5, "a"); (6, "a"); (7, "b")], [("b", 3, 3); ("a", 2, 2)]).
Proof. vm_compute. repeat split; reflexivity. Qed.

(* the hypotheses of the reachable-state theorems hold of that run (all 42 labels of its first step: the client's
   frames and the internal turns the drain takes), and the state the theorems speak about is the one shown above *)
Example C06_consumer_ledger_hypotheses_inhabited :
  let ls := step_labels rab all_fixed (init rab) ex1_script in
  small_along rab all_fixed (init rab) ls /\
  fst (run rab all_fixed (init rab) ls) = fst (run_step rab all_fixed (init rab) ex1_script).
Proof.
  split; [apply small_alongb_spec; vm_compute; reflexivity|]. symmetry. apply run_step_labels.
Qed.

(* a connection-wide limit of 3 over two channels (amqp-0-9-1): channel 1 consumes q1, channel 2 consumes q2; of five
   messages three are delivered (1 2 on channel 1, 3 on channel 2); basic.get on q2, which holds 4 and 5, is answered
   get-empty; acknowledging 1 lets 4 through on channel 2; after the consumer of channel 2 is cancelled and 2
   acknowledged a get hands out 5 and the next is refused again; closing channel 2 releases its two shares *)
Definition ex2_script : list label :=
  [LConnect 1; LMethod 1 1 MChannelOpen; LMethod 1 2 MChannelOpen; LMethod 1 1 (MQDeclare "q1" false false false false false);
   LMethod 1 1 (MQDeclare "q2" false false false false false);
   LMethod 1 1 (MQos 3 0 true); LMethod 1 1 (MConsume "q1" "a" false false false); LMethod 1 2 (MConsume "q2" "b" false false false)]
  ++ pubq 1 1 "q1" 1 ++ pubq 1 1 "q1" 2 ++ pubq 1 1 "q2" 3 ++ pubq 1 1 "q2" 4 ++ pubq 1 1 "q2" 5.
Example C06_connection_ledger_example :
  let t1 := fst (run_step std all_fixed (init std) ex2_script) in
  let r2 := run_step std all_fixed t1 [LMethod 1 1 (MGet "q2" false); LMethod 1 1 (MAck 1 false)] in
  let t3 := fst (run_step std all_fixed (fst r2) [LMethod 1 2 (MCancel "b" false); LMethod 1 1 (MAck 2 false)]) in
  let r4 := run_step std all_fixed t3 [LMethod 1 1 (MGet "q2" false); LMethod 1 1 (MGet "q2" false)] in
  let t5 := fst (run_step std all_fixed (fst r4) [LMethod 1 2 MChannelClose]) in
  viewc t1 1 = (3, 3, [(0, []); (1, [1; 2]); (2, [3])]) /\
  filter (fun e => match snd e with SGetEmpty => true | SGetOk _ _ _ _ _ => true | _ => false end) (snd r2) = [(1, 1, SGetEmpty)] /\
  viewc (fst r2) 1 = (3, 3, [(0, []); (1, [2]); (2, [3; 4])]) /\
  viewc t3 1 = (3, 2, [(0, []); (1, []); (2, [3; 4])]) /\
  filter (fun e => match snd e with SGetEmpty => true | SGetOk _ _ _ _ _ => true | _ => false end) (snd r4) = [(1, 1, SGetOk 3 false "" "q2" 0); (1, 1, SGetEmpty)] /\
  viewc (fst r4) 1 = (3, 3, [(0, []); (1, [5]); (2, [3; 4])]) /\
  viewc t5 1 = (3, 1, [(0, []); (1, [5]); (2, [])]).
Proof. vm_compute. repeat split; reflexivity. Qed.

Example C06_connection_ledger_hypotheses_inhabited :
  let ls := step_labels std all_fixed (init std) ex2_script in
  smallc_along std all_fixed (init std) ls /\
  fst (run std all_fixed (init std) ls) = fst (run_step std all_fixed (init std) ex2_script).
Proof.
  split; [apply smallc_alongb_spec; vm_compute; reflexivity|]. symmetry. apply run_step_labels.
Qed.

(* ---- THE BYTE LEDGER of the channel window (both dialects, any setting of the repair switches) ---- *)
(* one step keeps "byte count of the channel window = body bytes (mod 2^32 each) of the channel's unsettled deliveries",
   provided every unsettled delivery names a complete message (UC - an invariant, next theorem) and no delivery would
   wrap the uint32 counter (SmallB) *)
Theorem C06_byte_ledger_step :
  forall cfg fx s l,
    cfg_rollback cfg = true -> allch chinvp s -> UC s -> SmallB s -> BL s -> BL (fst (step cfg fx s l)).
Proof. exact BL_step. Qed.
Print Assumptions C06_byte_ledger_step.

(* what makes the sizes final: every message that an unsettled delivery, a waiting queue entry or the persistent store
   refers to has been allocated and, if the heap holds it, has its header and all the content the header announced *)
Theorem C06_referenced_messages_complete_step :
  forall cfg fx s l, RCI s -> RCI (fst (step cfg fx s l)).
Proof. exact RCI_step. Qed.
Print Assumptions C06_referenced_messages_complete_step.

Theorem C06_referenced_messages_complete :
  forall cfg fx ls, RCI (fst (run cfg fx (init cfg) ls)).
Proof. exact references_complete_reachable. Qed.
Print Assumptions C06_referenced_messages_complete.

Theorem C06_byte_ledger_in_every_reachable_state :
  forall cfg fx ls c h ch,
    cfg_rollback cfg = true ->
    smallb_along cfg fx (init cfg) ls ->
    let s := fst (run cfg fx (init cfg) ls) in
    get_chan s c h = Some ch ->
    cs (ch_qos ch) = fold_right (fun x acc => msg_size s (u_msg x) mod two32 + acc) 0 (ch_unacked ch).
Proof. exact byte_ledger_reachable. Qed.
Print Assumptions C06_byte_ledger_in_every_reachable_state.

Theorem C06_delivery_only_below_size_limit :
  forall f ch size w',
    bl f 0 ch -> bsum f (ch_unacked ch) + size < two32 ->
    qos_inc (ch_qos ch) size = Some w' -> ps (ch_qos ch) <> 0 ->
    bsum f (ch_unacked ch) + size <= ps (ch_qos ch) /\ cs w' = bsum f (ch_unacked ch) + size.
Proof. exact delivery_only_below_size_limit. Qed.
Print Assumptions C06_delivery_only_below_size_limit.

(* a channel-wide prefetch size of 7 bytes, messages of 3 bytes: two are delivered (6 bytes), the third waits; an ack
   lets it through *)
Definition ex3_script : list label :=
  [LConnect 1; LMethod 1 1 MChannelOpen; LMethod 1 1 (MQDeclare "q" false false false false false);
   LMethod 1 1 (MQos 0 7 true); LMethod 1 1 (MConsume "q" "t" false false false)]
  ++ pubq 1 1 "q" 1 ++ pubq 1 1 "q" 2 ++ pubq 1 1 "q" 3.
Example C06_byte_ledger_example :
  let s1 := fst (run_step rab all_fixed (init rab) ex3_script) in
  let s2 := fst (run_step rab all_fixed s1 [LMethod 1 1 (MAck 1 false)]) in
  (map u_msg (U s1 1 1), option_map (fun ch => cs (ch_qos ch)) (get_chan s1 1 1)) = ([1; 2], Some 6) /\
  (map u_msg (U s2 1 1), option_map (fun ch => cs (ch_qos ch)) (get_chan s2 1 1)) = ([2; 3], Some 6).
Proof. vm_compute. repeat split; reflexivity. Qed.
Example C06_byte_ledger_hypotheses_inhabited :
  smallb_along rab all_fixed (init rab) (step_labels rab all_fixed (init rab) ex3_script).
Proof. apply smallb_alongb_spec. vm_compute. reflexivity. Qed.

(* ---- THE BYTE LEDGER of the consumer's own window (amqp-rabbit dialect) ---- *)
(* one step keeps, for every consumer, "byte count of its own window = body bytes of ITS unsettled deliveries" (with the
   same structural facts as the count ledger: tags distinct and not empty, tagged deliveries name a consumer) *)
Theorem C06_consumer_byte_ledger_step :
  forall cfg fx, cfg_rabbit cfg = true -> fx_stage fx = true -> fx_chan_open fx = true -> fx_closeok_releases fx = true ->
  forall s l, CB s -> UC s -> SmallB s -> YB s -> YB (fst (step cfg fx s l)).
Proof. exact YB_step. Qed.
Print Assumptions C06_consumer_byte_ledger_step.

Theorem C06_consumer_byte_ledger_in_every_reachable_state :
  forall cfg fx ls c h ch cm,
    cfg_rabbit cfg = true -> fx_stage fx = true -> fx_chan_open fx = true -> fx_closeok_releases fx = true ->
    smallb_along cfg fx (init cfg) ls ->
    let s := fst (run cfg fx (init cfg) ls) in
    get_chan s c h = Some ch -> In cm (ch_consumers ch) ->
    cs (c_own cm) = fold_right (fun x acc => msg_size s (u_msg x) mod two32 + acc) 0
                      (filter (fun u => seqb (u_ctag u) (c_tag cm)) (ch_unacked ch)).
Proof. exact consumer_byte_ledger_reachable. Qed.
Print Assumptions C06_consumer_byte_ledger_in_every_reachable_state.

Theorem C06_consumer_delivery_only_below_size_limit :
  forall wf ch cm size w',
    ycinv wf yk0 ch -> In cm (ch_consumers ch) -> ycnt wf (ch_unacked ch) (c_tag cm) + size < two32 ->
    qos_inc (c_own cm) size = Some w' -> ps (c_own cm) <> 0 ->
    ycnt wf (ch_unacked ch) (c_tag cm) + size <= ps (c_own cm) /\ cs w' = ycnt wf (ch_unacked ch) (c_tag cm) + size.
Proof. exact consumer_delivery_only_below_size_limit. Qed.
Print Assumptions C06_consumer_delivery_only_below_size_limit.

(* ... for the deliveries the broker actually makes: the delivered message is the head of the consumer's queue, and the
   consumer's unsettled bytes plus that message's stay within its prefetch size *)
Theorem C06_consumer_delivery_size_bounded :
  forall cfg fx ls c h tag ch cm d r ex k,
    cfg_rabbit cfg = true -> fx_stage fx = true -> fx_chan_open fx = true -> fx_closeok_releases fx = true ->
    smallb_along cfg fx (init cfg) ls ->
    let s := fst (run cfg fx (init cfg) ls) in
    get_chan s c h = Some ch -> find_consumer ch tag = Some cm -> c_noack cm = false -> ps (c_own cm) <> 0 ->
    In (c, h, SDeliver tag d r ex k) (snd (consumer_turn cfg fx s c h tag)) ->
    exists qu u rest, get_queue s (c_queue cm) = Some qu /\ q_ready qu = u :: rest /\
      fold_right (fun x acc => msg_size s (u_msg x) mod two32 + acc) 0 (filter (fun u => seqb (u_ctag u) (c_tag cm)) (ch_unacked ch))
      + msg_size s u mod two32 <= ps (c_own cm).
Proof. exact consumer_delivery_size_bounded_reachable. Qed.
Print Assumptions C06_consumer_delivery_size_bounded.

(* per-consumer prefetch sizes 7 ("a") and 4 ("b"), messages of 3 bytes: a holds 1 2 (6 bytes), b holds 3 (3 bytes), 4 and
   5 wait; acknowledging 2 lets 4 through to a; requeueing 1 puts it behind 5, a's window stays at 6 bytes *)
Definition viewb (s : state) (c h : N) :=
  match get_chan s c h with
  | Some ch => (map (fun u => (u_msg u, u_ctag u)) (ch_unacked ch), map (fun cm => (c_tag cm, ps (c_own cm), cs (c_own cm))) (ch_consumers ch))
  | None => ([], [])
  end.
Definition ex4_script : list label :=
  [LConnect 1; LMethod 1 1 MChannelOpen; LMethod 1 1 (MQDeclare "q" false false false false false);
   LMethod 1 1 (MQos 0 7 false); LMethod 1 1 (MConsume "q" "a" false false false);
   LMethod 1 1 (MQos 0 4 false); LMethod 1 1 (MConsume "q" "b" false false false)]
  ++ pubq 1 1 "q" 1 ++ pubq 1 1 "q" 2 ++ pubq 1 1 "q" 3 ++ pubq 1 1 "q" 4 ++ pubq 1 1 "q" 5.
Example C06_consumer_byte_ledger_example :
  let s1 := fst (run_step rab all_fixed (init rab) ex4_script) in
  let s2 := fst (run_step rab all_fixed s1 [LMethod 1 1 (MAck 2 false)]) in
  let s3 := fst (run_step rab all_fixed s2 [LMethod 1 1 (MNack 1 false true)]) in
  viewb s1 1 1 = ([(1, "a"); (2, "a"); (3, "b")], [("a", 7, 6); ("b", 4, 3)]) /\
  viewb s2 1 1 = ([(1, "a"); (3, "b"); (4, "a")], [("a", 7, 6); ("b", 4, 3)]) /\
  viewb s3 1 1 = ([(3, "b"); (4, "a"); (1, "a")], [("a", 7, 6); ("b", 4, 3)]) /\
  smallb_along rab all_fixed (init rab) (step_labels rab all_fixed (init rab) ex4_script).
Proof. split; [|split; [|split]]; [vm_compute; reflexivity..|]. apply smallb_alongb_spec. vm_compute. reflexivity. Qed.

(* ---- THE BYTE LEDGER of the connection-wide window (amqp-0-9-1 dialect) ---- *)
(* the channel numbers of a connection are distinct (any switches): every entry of chan_unacked_all is visible to get_chan *)
Theorem C06_channel_numbers_distinct_step :
  forall cfg fx s l, allcn KD s -> allcn KD (fst (step cfg fx s l)).
Proof. exact KD_step. Qed.
Print Assumptions C06_channel_numbers_distinct_step.

Theorem C06_connection_byte_ledger_step :
  forall cfg fx, cfg_rabbit cfg = false -> fx_stage fx = true -> fx_chan_open fx = true -> fx_closeok_releases fx = true ->
  forall s l, CB s -> UC s -> allcn KD s -> SmallCB s -> ZB s -> ZB (fst (step cfg fx s l)).
Proof. exact ZB_step. Qed.
Print Assumptions C06_connection_byte_ledger_step.

Theorem C06_connection_byte_ledger_in_every_reachable_state :
  forall cfg fx ls c cn,
    cfg_rabbit cfg = false -> fx_stage fx = true -> fx_chan_open fx = true -> fx_closeok_releases fx = true ->
    smallcb_along cfg fx (init cfg) ls ->
    let s := fst (run cfg fx (init cfg) ls) in
    get_conn s c = Some cn ->
    cs (cn_qos cn) = fold_right (fun x acc => msg_size s (u_msg x) mod two32 + acc) 0 (chan_unacked_all cn).
Proof. exact conn_byte_ledger_reachable. Qed.
Print Assumptions C06_connection_byte_ledger_in_every_reachable_state.

Theorem C06_connection_delivery_only_below_size_limit :
  forall wf cn size w',
    znl wf 0 cn -> ztot wf cn + size < two32 -> qos_inc (cn_qos cn) size = Some w' -> ps (cn_qos cn) <> 0 ->
    ztot wf cn + size <= ps (cn_qos cn) /\ cs w' = ztot wf cn + size.
Proof. exact conn_delivery_only_below_size_limit. Qed.
Print Assumptions C06_connection_delivery_only_below_size_limit.

Theorem C06_connection_delivery_size_bounded :
  forall cfg fx ls c h tag ch cm cn d r ex k,
    cfg_rabbit cfg = false -> fx_stage fx = true -> fx_chan_open fx = true -> fx_closeok_releases fx = true ->
    smallcb_along cfg fx (init cfg) ls ->
    let s := fst (run cfg fx (init cfg) ls) in
    get_chan s c h = Some ch -> get_conn s c = Some cn -> find_consumer ch tag = Some cm -> c_noack cm = false -> ps (cn_qos cn) <> 0 ->
    In (c, h, SDeliver tag d r ex k) (snd (consumer_turn cfg fx s c h tag)) ->
    exists qu u rest, get_queue s (c_queue cm) = Some qu /\ q_ready qu = u :: rest /\
      fold_right (fun x acc => msg_size s (u_msg x) mod two32 + acc) 0 (chan_unacked_all cn) + msg_size s u mod two32 <= ps (cn_qos cn).
Proof. exact conn_delivery_size_bounded_reachable. Qed.
Print Assumptions C06_connection_delivery_size_bounded.

Theorem C06_connection_get_size_bounded :
  forall cfg fx ls c h q ch cn dt r ex k mc,
    cfg_rabbit cfg = false -> fx_stage fx = true -> fx_chan_open fx = true -> fx_closeok_releases fx = true ->
    smallcb_along cfg fx (init cfg) ls ->
    let s := fst (run cfg fx (init cfg) ls) in
    get_chan s c h = Some ch -> get_conn s c = Some cn -> ps (cn_qos cn) <> 0 ->
    In (c, h, SGetOk dt r ex k mc) (snd (fst (handle_method cfg fx s c h (MGet q false)))) ->
    exists qu u rest, get_queue s q = Some qu /\ q_ready qu = u :: rest /\
      fold_right (fun x acc => msg_size s (u_msg x) mod two32 + acc) 0 (chan_unacked_all cn) + msg_size s u mod two32 <= ps (cn_qos cn).
Proof. exact conn_get_size_bounded_reachable. Qed.
Print Assumptions C06_connection_get_size_bounded.

(* a connection-wide prefetch size of 7 bytes over two channels (amqp-0-9-1), messages of 3 bytes: two are delivered
   (6 bytes), basic.get on q2 - which holds 2 and 3 - is answered get-empty; acknowledging 1 lets 2 through on channel
   2; closing channel 2 releases its 3 bytes *)
Definition viewcb (s : state) (c : N) :=
  match get_conn s c with
  | Some cn => (ps (cn_qos cn), cs (cn_qos cn), map (fun kh => (fst kh, map u_msg (ch_unacked (snd kh)))) (cn_chans cn))
  | None => (0, 0, [])
  end.
Definition ex5_script : list label :=
  [LConnect 1; LMethod 1 1 MChannelOpen; LMethod 1 2 MChannelOpen; LMethod 1 1 (MQDeclare "q1" false false false false false);
   LMethod 1 1 (MQDeclare "q2" false false false false false);
   LMethod 1 1 (MQos 0 7 true); LMethod 1 1 (MConsume "q1" "a" false false false); LMethod 1 2 (MConsume "q2" "b" false false false)]
  ++ pubq 1 1 "q1" 1 ++ pubq 1 1 "q2" 2 ++ pubq 1 1 "q2" 3 ++ pubq 1 1 "q1" 4.
Example C06_connection_byte_ledger_example :
  let t1 := fst (run_step std all_fixed (init std) ex5_script) in
  let r1 := run_step std all_fixed t1 [LMethod 1 1 (MGet "q2" false)] in
  let t2 := fst (run_step std all_fixed t1 [LMethod 1 1 (MAck 1 false)]) in
  let t3 := fst (run_step std all_fixed t2 [LMethod 1 2 MChannelClose]) in
  viewcb t1 1 = (7, 6, [(0, []); (1, [1; 4]); (2, [])]) /\
  filter (fun e => match snd e with SGetEmpty => true | SGetOk _ _ _ _ _ => true | _ => false end) (snd r1) = [(1, 1, SGetEmpty)] /\
  viewcb t2 1 = (7, 6, [(0, []); (1, [4]); (2, [2])]) /\
  viewcb t3 1 = (7, 3, [(0, []); (1, [4]); (2, [])]) /\
  smallcb_along std all_fixed (init std) (step_labels std all_fixed (init std) ex5_script).
Proof. split; [|split; [|split; [|split]]]; [vm_compute; reflexivity..|]. apply smallcb_alongb_spec. vm_compute. reflexivity. Qed.

(* ---- why the three repairs are hypotheses ---- *)
Definition fixes_but (closeok chan_open stage : bool) : fixes :=
  {| fx_direct_all := true; fx_redelivered := true; fx_delete_checks_first := true; fx_noack_total_once := true;
     fx_get_count := true; fx_closeok_releases := closeok; fx_excl_owner := true; fx_clear_current := true; fx_not_impl := true;
     fx_empty_body := true; fx_discard_closing := true; fx_nowait := true; fx_stage := stage; fx_reopen_resets := true; fx_chan_open := chan_open |}.

(* F33 unrepaired (a close-ok the broker did not ask for marks the channel closed and releases nothing), F17 repaired
   (re-opening resets the channel): consumer "t" survives the re-open with a window that counts a delivery the channel
   no longer knows; the connection window likewise *)
Definition refute_closeok : list (list label) :=
  [[LConnect 1; LMethod 1 1 MChannelOpen; LMethod 1 1 (MQDeclare "q" false false false false false);
    LMethod 1 1 (MConsume "q" "t" false false false)] ++ pubq 1 1 "q" 1; [LMethod 1 1 MChannelCloseOk]; [LMethod 1 1 MChannelOpen]].
Definition run_steps (cfg : config) (fx : fixes) (script : list (list label)) : state :=
  fold_left (fun s ls => fst (run_step cfg fx s ls)) script (init cfg).
Example C06_consumer_ledger_refuted_without_F33_repair :
  view (run_steps rab (fixes_but false true true) refute_closeok) 1 1 = ([], [("t", 0, 1)]).
Proof. vm_compute. reflexivity. Qed.
Example C06_connection_ledger_refuted_without_F33_repair :
  viewc (run_steps std (fixes_but false true true) refute_closeok) 1 = (0, 1, [(0, []); (1, [])]).
Proof. vm_compute. reflexivity. Qed.

(* F54 unrepaired (a closed channel accepts basic.consume): same outcome through consume-on-closed, deliver, re-open *)
Definition refute_chan_open : list (list label) :=
  [[LConnect 1; LMethod 1 1 MChannelOpen; LMethod 1 1 (MQDeclare "q" false false false false false); LMethod 1 1 MChannelClose;
    LMethod 1 1 (MConsume "q" "t" false false false)] ++ pubq 1 1 "q" 1; [LMethod 1 1 MChannelOpen]].
Example C06_consumer_ledger_refuted_without_F54_repair :
  view (run_steps rab (fixes_but true false true) refute_chan_open) 1 1 = ([], [("t", 0, 1)]).
Proof. vm_compute. reflexivity. Qed.
Example C06_connection_ledger_refuted_without_F54_repair :
  viewc (run_steps std (fixes_but true false true) refute_chan_open) 1 = (0, 1, [(0, []); (1, [])]).
Proof. vm_compute. reflexivity. Qed.

(* F14/F15 unrepaired (channel 0 accepts basic-class methods): channel.close on channel 0 requeues nothing, the
   re-open forgets the unsettled delivery, the connection window keeps counting it *)
Definition refute_stage : list (list label) :=
  [[LConnect 1; LMethod 1 0 MChannelOpen; LMethod 1 0 (MQDeclare "q" false false false false false);
    LMethod 1 0 (MConsume "q" "t" false false false)] ++ pubq 1 0 "q" 1; [LMethod 1 0 MChannelClose]; [LMethod 1 0 MChannelOpen]].
Example C06_connection_ledger_refuted_without_F14_repair :
  viewc (run_steps std (fixes_but true true false) refute_stage) 1 = (0, 1, [(0, [])]).
Proof. vm_compute. reflexivity. Qed.
