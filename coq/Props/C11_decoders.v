(* C11 - no client input can crash, wedge or balloon the broker: DECODER PART.
   (The broker-level part - handlers, wedging, other connections - lives with the broker model.)
   ONLY property statements, each closed by `exact <lemma>` and followed by Print Assumptions. *)
From Coq Require Import List String NArith Bool.
Import ListNotations.
From GMQ Require Import Base.Bytes Codec.Desc Codec.Prim Codec.Value Codec.MethodCodec Codec.Header Codec.Frame Codec.Records Codec.Codec.
From GMQ Require Import Codec.gen.MethodsGen Codec.gen.TagsGen Codec.gen.ConstGen.
From GMQ Require Import Proofs.CodecTotalProofs Proofs.CodecGenProofs.
Open Scope N_scope.
Open Scope list_scope.

(* safe c r : r is not Panic, and if r is `Alloc n` (memory committed to a length field whose data never
   arrived) then n <= c.  For EVERY byte list and both dialects, every decoder of the codec - field value,
   table, long string, method frame payload, content header, frame, stored message / queue / exchange /
   binding record, short string - is safe with the constant alloc_bound = 2^20. *)
Theorem C11_decoders_total : forall d bs,
  safe alloc_bound (decode_value d bs) /\ safe alloc_bound (decode_table d bs) /\ safe alloc_bound (decode_longstr bs) /\
  safe alloc_bound (decode_method_frame d bs) /\ safe alloc_bound (decode_header d bs) /\
  safe alloc_bound (decode_frame bs) /\ safe alloc_bound (decode_message d bs) /\
  safe alloc_bound (dec_queue bs) /\ safe alloc_bound (dec_exchange bs) /\ safe alloc_bound (decode_binding d bs) /\
  safe alloc_bound (dec_shortstr bs).
Proof. exact gen_decoders_safe. Qed.
Print Assumptions C11_decoders_total.

(* the theorem is about the code that exists only if the regenerated shapes of ReadLongstr / ReadFrame are
   the chunked ones (defect F12: `make([]byte, <wire length>)`) *)
Theorem C11_generated_alloc_bounded : exists c1 c2, longstr_alloc = AllocChunked c1 /\ frame_alloc = FrameChunked c2 /\
                                                    c1 <= alloc_bound /\ c2 <= alloc_bound.
Proof. exact gen_alloc_shapes. Qed.
Print Assumptions C11_generated_alloc_bounded.

(* the recursion fuel of the model (input length + 1) is always enough: the outcomes are Ok / Err / Panic / Alloc only *)
Theorem C11_model_fuel_sufficient : forall d bs,
  decode_value d bs <> Fuel /\ decode_table d bs <> Fuel /\ decode_method_frame d bs <> Fuel /\ decode_header d bs <> Fuel /\
  decode_frame bs <> Fuel /\ decode_message d bs <> Fuel /\ decode_binding d bs <> Fuel.
Proof. exact gen_decoders_nofuel. Qed.
Print Assumptions C11_model_fuel_sufficient.

(* generic form: any tag tables, any method descriptions *)
Theorem C11_method_decoder_total_generic : forall cap rd d methods dispatch bs,
  safe cap (dec_method_frame (AllocChunked cap) rd d methods dispatch bs).
Proof. exact safe_method_frame. Qed.
Print Assumptions C11_method_decoder_total_generic.

(* the un-repaired shapes (defect F12, fixed in /repo) are refuted by witnesses *)
Theorem C11_frame_wire_alloc_panics_refuted : exists bs, dec_frame FrameWirePlus1Wrap32 206 bs = Panic.
Proof. exact frame_wire_alloc_panics. Qed.
Print Assumptions C11_frame_wire_alloc_panics_refuted.

Theorem C11_frame_wire_alloc_unbounded_refuted : forall c, c < 2 ^ 32 - 8 ->
  exists bs n, dec_frame FrameWirePlus1Wrap32 206 bs = Alloc n /\ blen bs + c < n.
Proof. exact frame_wire_alloc_unbounded. Qed.
Print Assumptions C11_frame_wire_alloc_unbounded_refuted.

Theorem C11_longstr_wire_alloc_unbounded_refuted : forall c, c < 2 ^ 32 - 8 ->
  exists bs n, dec_longstr AllocWire bs = Alloc n /\ blen bs + c < n.
Proof. exact longstr_wire_alloc_unbounded. Qed.
Print Assumptions C11_longstr_wire_alloc_unbounded_refuted.

(* non-vacuity: a forged length does reach the Alloc outcome, within the bound *)
Example C11_example_forged_length :
  decode_frame [1; 0; 0; 255; 255; 255; 255] = Alloc 131072 /\ decode_longstr [255; 255; 255; 255] = Alloc 131072 /\
  decode_table DRabbit [0; 0; 0; 9; 1; 107; 70; 255; 255; 255; 255; 0; 0] = Alloc 131072.
Proof. vm_compute. repeat split; reflexivity. Qed.
