(* Bridge: the broker-level model's own prefetch window, routing (and message store) ARE the component models'
   under the representation maps of Proofs/BrokerBridge.v, so that the component theorems (Props/C06_qos.v,
   Props/C08.v, Props/C04.v ...) speak about the broker LTS of Broker/Model.v.
   This file holds ONLY statements, each closed by `exact <lemma>` and followed by Print Assumptions, plus
   vm_compute Examples (non-vacuity, the necessity of each hypothesis, the two former disagreements of routing - the
   empty routing key and the malformed topic pattern, on which the broker model and the code AGREE now - and the one
   disagreement left, D3 of the message store). *)
From Coq Require Import String List NArith ZArith Bool.
Import ListNotations.
From GMQ Require Broker.Model Data.gen.QosGen Data.Qos.
From GMQ Require Route.Value Route.Cfg Route.Topic Route.Exchange Route.Spec Route.gen.RouteGen.
From GMQ Require Store.KeyFmt Store.KV Store.MsgStore Store.StoreSpec.
From GMQ Require Import Proofs.BrokerBridge.
Open Scope N_scope.
Open Scope string_scope.

(* ====================================================================================== *)
(* 1. The prefetch window: Model.qosw is the generated record, field by field             *)
(* ====================================================================================== *)
Theorem Bridge_qos_representation :
  (forall w, of_gen (to_gen w) = w) /\ (forall q, to_gen (of_gen q) = q).
Proof. exact (conj of_to_gen to_of_gen). Qed.
Print Assumptions Bridge_qos_representation.

(* Inc(1, size): for ALL windows and sizes, no range hypothesis *)
Theorem Bridge_qos_inc : forall w size,
  Model.qos_inc w size =
  (if fst (QosGen.qos_inc (to_gen w) 1 size) then Some (of_gen (snd (QosGen.qos_inc (to_gen w) 1 size))) else None).
Proof. exact bridge_qos_inc. Qed.
Print Assumptions Bridge_qos_inc.

(* Dec(1, size): for current values within their field widths *)
Theorem Bridge_qos_dec : forall w size, cur_ok w ->
  Model.qos_dec w size = of_gen (QosGen.qos_dec (to_gen w) 1 size).
Proof. exact bridge_qos_dec. Qed.
Print Assumptions Bridge_qos_dec.

(* the hypothesis is needed: the broker model subtracts in N, the code in uint32 *)
Example Bridge_qos_dec_needs_range :
  let w := Model.Build_qosw 0 0 0 4294967296 in
  Model.qos_dec w 0 <> of_gen (QosGen.qos_dec (to_gen w) 1 0).
Proof. vm_compute. discriminate. Qed.

Theorem Bridge_qos_update : forall w c s, Model.qos_update w c s = of_gen (QosGen.qos_update (to_gen w) c s).
Proof. exact bridge_qos_update. Qed.
Print Assumptions Bridge_qos_update.

Theorem Bridge_qos_active : forall w, Model.qos_active w = QosGen.qos_is_active (to_gen w).
Proof. exact bridge_qos_active. Qed.
Print Assumptions Bridge_qos_active.

(* the range of the current values is an invariant of the window's operations, from the initial window on *)
Theorem Bridge_qos_range_invariant :
  cur_ok Model.qos0 /\
  (forall w size w', Model.qos_inc w size = Some w' -> cur_ok w') /\
  (forall w size, cur_ok w -> cur_ok (Model.qos_dec w size)) /\
  (forall w c s, cur_ok w -> cur_ok (Model.qos_update w c s)).
Proof. exact (conj cur_ok_qos0 (conj cur_ok_inc (conj cur_ok_dec cur_ok_update))). Qed.
Print Assumptions Bridge_qos_range_invariant.

Theorem Bridge_qos_range_reserve : forall rb ws size, Forall cur_ok ws -> Forall cur_ok (snd (Model.reserve rb ws size)).
Proof. exact cur_ok_reserve. Qed.
Print Assumptions Bridge_qos_range_reserve.

(* the window loop of PopQos: the broker model's [reserve] is Data/Qos.v's, for every list of windows
   (no range hypothesis: the loop only releases windows it has just charged) *)
Theorem Bridge_reserve : forall rb ws size,
  Qos.reserve rb (map to_gen ws) size =
  (okb (fst (Model.reserve rb ws (size mod Model.two32))), map to_gen (snd (Model.reserve rb ws (size mod Model.two32)))).
Proof. exact bridge_reserve. Qed.
Print Assumptions Bridge_reserve.

(* Props/C06_qos.v on the broker model.  C06_inc_admission: *)
Theorem Bridge_C06_inc_admission : forall w size,
  Qos.qos_no_wrap (to_gen w) 1 size = true -> okb (Model.qos_inc w size) = Qos.qos_admits (to_gen w) 1 size.
Proof. exact model_inc_admission. Qed.
Print Assumptions Bridge_C06_inc_admission.

(* C06_inc_charges_exactly: *)
Theorem Bridge_C06_inc_charges_exactly : forall w size w',
  Qos.qos_no_wrap (to_gen w) 1 size = true -> Model.qos_inc w size = Some w' ->
  w' = of_gen (Qos.qos_charged (to_gen w) 1 size).
Proof. exact model_inc_charges_exactly. Qed.
Print Assumptions Bridge_C06_inc_charges_exactly.

(* C06_dec_undoes_inc and C06_dec_exact: *)
Theorem Bridge_C06_dec_undoes_inc : forall w size w',
  Qos.qos_wf (to_gen w) -> Qos.qos_no_wrap (to_gen w) 1 size = true -> Model.qos_inc w size = Some w' ->
  Model.qos_dec w' size = w.
Proof. exact model_dec_undoes_inc. Qed.
Print Assumptions Bridge_C06_dec_undoes_inc.

Theorem Bridge_C06_dec_exact : forall w size,
  Qos.qos_wf (to_gen w) -> 1 <= Model.cc w -> size <= Model.cs w ->
  Model.qos_dec w size = of_gen (Qos.qos_released (to_gen w) 1 size).
Proof. exact model_dec_exact. Qed.
Print Assumptions Bridge_C06_dec_exact.

(* C06_reserve_all_or_nothing: *)
Theorem Bridge_C06_reserve_all_or_nothing : forall ws size,
  Forall (fun w => Qos.qos_wf (to_gen w)) ws ->
  Forall (fun w => Qos.qos_no_wrap (to_gen w) 1 (size mod Model.two32) = true) ws ->
  let r := Model.reserve true ws (size mod Model.two32) in
  (forall l, fst r = Some l ->
     l = snd r /\ snd r = map (fun w => of_gen (Qos.qos_charged (to_gen w) 1 (size mod Model.two32))) ws /\
     Forall (fun w => Qos.qos_admits (to_gen w) 1 (size mod Model.two32) = true) ws) /\
  (fst r = None -> snd r = ws /\ Exists (fun w => Qos.qos_admits (to_gen w) 1 (size mod Model.two32) = false) ws).
Proof. exact model_reserve_all_or_nothing. Qed.
Print Assumptions Bridge_C06_reserve_all_or_nothing.

(* F32 (open) is in the broker model too: the no-wrap hypothesis cannot be dropped *)
Theorem Bridge_C06_inc_admission_without_nowrap_refuted :
  exists w size, Qos.qos_wf (to_gen w) /\ size < 4294967296 /\
                 Model.qos_inc w size <> None /\ Qos.qos_admits (to_gen w) 1 size = false.
Proof. exact model_inc_admission_without_nowrap_refuted. Qed.
Print Assumptions Bridge_C06_inc_admission_without_nowrap_refuted.

Example Bridge_qos_example :
  let w := Model.Build_qosw 2 100 1 7 in
  Model.qos_inc w 5 = Some (Model.Build_qosw 2 100 2 12) /\
  Model.qos_inc (Model.Build_qosw 2 100 2 12) 1 = None /\
  Qos.qos_no_wrap (to_gen w) 1 5 = true /\ Qos.qos_admits (to_gen w) 1 5 = true /\
  Model.reserve true [w; Model.Build_qosw 1 0 1 0] 5 = (None, [w; Model.Build_qosw 1 0 1 0]).
Proof. vm_compute. repeat split; reflexivity. Qed.

(* ====================================================================================== *)
(* 2. Routing                                                                             *)
(* ====================================================================================== *)
(* strings are byte strings *)
Theorem Bridge_bytes_of_injective : forall s t, bytes_of s = bytes_of t -> s = t.
Proof. exact bytes_of_inj. Qed.
Print Assumptions Bridge_bytes_of_injective.

Theorem Bridge_string_eqb : forall s t, Model.seqb s t = Value.bytes_eqb (bytes_of s) (bytes_of t).
Proof. exact seqb_bytes. Qed.
Print Assumptions Bridge_string_eqb.

(* splitting at dots: the broker model's [words] is strings.Split on every string (Route/Topic.v: split_dots_acc,
   the implementation's splitter) ... *)
Theorem Bridge_words_split : forall s, map bytes_of (Model.words s) = Topic.split_dots_acc (bytes_of s) [].
Proof. exact bridge_words_split. Qed.
Print Assumptions Bridge_words_split.

(* ... hence topicWords (implementation) and spec_words (specification) on every string but the empty one *)
Theorem Bridge_words : forall s, s <> "" ->
  map bytes_of (Model.words s) = Topic.topic_words (bytes_of s) /\
  map bytes_of (Model.words s) = Spec.spec_words (bytes_of s).
Proof. exact (fun s H => conj (bridge_words s H) (bridge_words_spec s H)). Qed.
Print Assumptions Bridge_words.

(* the broker model's [topic_words] (the empty string has no words) is topicWords and spec_words on EVERY string *)
Theorem Bridge_topic_words : forall s,
  map bytes_of (Model.topic_words s) = Topic.topic_words (bytes_of s) /\
  map bytes_of (Model.topic_words s) = Spec.spec_words (bytes_of s).
Proof. exact (fun s => conj (bridge_topic_words s) (bridge_topic_words_spec s)). Qed.
Print Assumptions Bridge_topic_words.

(* the fuel of the broker model's backtracking matcher suffices (any fuel above |p| + |k| does) *)
Theorem Bridge_topic_fuel : forall f p k, (List.length p + List.length k < f)%nat ->
  Model.topic_match f p k = RouteTopicProofs.tm string Model.seqb "*" "#" p k.
Proof. exact model_topic_match_fuel. Qed.
Print Assumptions Bridge_topic_fuel.

(* on ALL word lists the broker model's fuelled matcher is matchTopicWords (the row algorithm) *)
Theorem Bridge_topic_match_words : forall p k,
  Model.topic_match (S (List.length p + List.length k) * 2) p k = Topic.topic_match_bytes (map bytes_of p) (map bytes_of k).
Proof. exact bridge_topic_match_words. Qed.
Print Assumptions Bridge_topic_match_words.

(* and the broker model's topic test is MatchTopic's test, for ALL patterns and routing keys *)
Theorem Bridge_topic_matches : forall pat key,
  Model.topic_matches pat key = Topic.topic_match_bytes (Topic.topic_words (bytes_of pat)) (Topic.topic_words (bytes_of key)).
Proof. exact bridge_topic_matches. Qed.
Print Assumptions Bridge_topic_matches.

(* Props/C08.v (C08_topic_bytes) on the broker model: the AMQP word rule, for ALL patterns and routing keys *)
Theorem Bridge_C08_topic : forall pat key,
  Model.topic_matches pat key = true <-> Spec.spec_topic (bytes_of pat) (bytes_of key).
Proof. exact model_topic_spec. Qed.
Print Assumptions Bridge_C08_topic.

(* Former disagreement D1, closed.  The empty routing key: topicWords("") is ZERO words in the code (binding.go;
   Route.topic_words is the code's side, confirmed against the running broker) and was ONE empty word in the broker
   model, so that a pattern with exactly one `*` (or one empty word) besides `#`s matched the empty key in the broker
   model and not in the code.  The broker model's [topic_words] has no word for the empty string now: the two AGREE. *)
Example bridge_agree_empty_key_words :
  Model.words "" = [""] /\ Model.topic_words "" = [] /\ Topic.topic_words (bytes_of "") = [].
Proof. vm_compute. repeat split; reflexivity. Qed.

Example bridge_agree_empty_key :
  Model.topic_matches "*" "" = false /\
  Topic.topic_match_bytes (Topic.topic_words (bytes_of "*")) (Topic.topic_words (bytes_of "")) = false /\
  Model.topic_matches "#." "" = false /\
  Topic.topic_match_bytes (Topic.topic_words (bytes_of "#.")) (Topic.topic_words (bytes_of "")) = false /\
  Model.topic_matches "#" "" = true /\
  Topic.topic_match_bytes (Topic.topic_words (bytes_of "#")) (Topic.topic_words (bytes_of "")) = true /\
  Model.topic_matches "" "" = true /\
  Topic.topic_match_bytes (Topic.topic_words (bytes_of "")) (Topic.topic_words (bytes_of "")) = true.
Proof. vm_compute. repeat split; reflexivity. Qed.

Definition ex_star : Model.exchange :=
  {| Model.e_type := Model.ExTopic; Model.e_durable := false; Model.e_autodel := false; Model.e_internal := false;
     Model.e_system := false; Model.e_bindings := [{| Model.b_queue := "q"; Model.b_key := "*"; Model.b_args := [] |}] |}.

Example bridge_agree_empty_key_exchange :
  Model.matched_queues false ex_star "" = [] /\
  Exchange.matched_queues RouteGen.gen_cfg (to_rexchange RouteGen.gen_cfg (bytes_of "t") ex_star)
    {| Exchange.m_exchange := bytes_of "t"; Exchange.m_key := bytes_of ""; Exchange.m_headers := None; Exchange.m_mandatory := false |}
  = Some [] /\
  (* and on a non-empty key, as before *)
  Model.matched_queues false ex_star "x" = ["q"] /\
  Exchange.matched_queues RouteGen.gen_cfg (to_rexchange RouteGen.gen_cfg (bytes_of "t") ex_star)
    {| Exchange.m_exchange := bytes_of "t"; Exchange.m_key := bytes_of "x"; Exchange.m_headers := None; Exchange.m_mandatory := false |}
  = Some [bytes_of "q"].
Proof. vm_compute. repeat split; reflexivity. Qed.

(* The same facts for the definitions they were first proved for, kept under their primed names.
   (i) with topicWords as the code has it ([topic_words']: the empty string is zero words) the broker model's
   matcher is MatchTopic's test, and the AMQP word rule, for ALL patterns and keys - and [topic_words'] /
   [topic_matches'] ARE the broker model's [topic_words] / [topic_matches], for all inputs *)
Theorem Bridge_topic_words' : forall s,
  map bytes_of (topic_words' s) = Topic.topic_words (bytes_of s) /\
  map bytes_of (topic_words' s) = Spec.spec_words (bytes_of s).
Proof. exact (fun s => conj (bridge_topic_words' s) (bridge_topic_words'_spec s)). Qed.
Print Assumptions Bridge_topic_words'.

Theorem Bridge_topic_matches' : forall pat key,
  topic_matches' pat key = Topic.topic_match_bytes (Topic.topic_words (bytes_of pat)) (Topic.topic_words (bytes_of key)).
Proof. exact bridge_topic_matches'. Qed.
Print Assumptions Bridge_topic_matches'.

Theorem Bridge_C08_topic' : forall pat key,
  topic_matches' pat key = true <-> Spec.spec_topic (bytes_of pat) (bytes_of key).
Proof. exact model_topic_spec'. Qed.
Print Assumptions Bridge_C08_topic'.

Theorem Bridge_topic_matches'_conservative : forall pat key,
  topic_matches' pat key = Model.topic_matches pat key.
Proof. exact topic_matches'_eq. Qed.
Print Assumptions Bridge_topic_matches'_conservative.

Theorem Bridge_topic_words'_conservative : forall s, topic_words' s = Model.topic_words s.
Proof. exact topic_words'_eq. Qed.
Print Assumptions Bridge_topic_words'_conservative.

Example Bridge_topic_matches'_example :
  topic_matches' "*" "" = false /\ topic_matches' "#" "" = true /\ topic_matches' "" "" = true /\
  topic_matches' "a.#.b" "a.x.y.b" = true /\ topic_matches' "a.*" "a" = false.
Proof. vm_compute. repeat split; reflexivity. Qed.

(* (ii) parseTopicPattern is the negation of the broker model's [bad_pattern] ([wf_pattern key] is
   [negb (Model.bad_pattern key)]), and exactly when NewBinding fails for an argument-free binding: on a topic exchange,
   for a malformed pattern *)
Theorem Bridge_pattern_ok : forall key, Topic.pattern_ok (bytes_of key) = wf_pattern key.
Proof. exact pattern_ok_bytes_of. Qed.
Print Assumptions Bridge_pattern_ok.

Theorem Bridge_new_binding_fails_iff : forall c q ex key args topic, Cfg.cfg_sane c = true ->
  (args = None \/ exists t, args = Some t /\ Value.lookup (Cfg.c_x_match c) t = None) ->
  (Exchange.new_binding c q ex (bytes_of key) args topic = None <-> topic = true /\ Model.bad_pattern key = true).
Proof. exact (fun c q ex key args topic H => new_binding_none_iff c q ex key args topic (RouteProofs.cfg_sane_sane c H)). Qed.
Print Assumptions Bridge_new_binding_fails_iff.

Example Bridge_bad_pattern_example :
  Model.bad_pattern "a*" = true /\ Model.bad_pattern "a.#b.c" = true /\ Model.bad_pattern "a.*.#.b" = false /\
  Model.bad_pattern "" = false /\ Model.bad_pattern "*" = false /\ Model.bad_pattern "**" = true.
Proof. vm_compute. repeat split; reflexivity. Qed.

(* the exchange level.  [exchange_rep c exn e rex]: rex has e's type and, binding by binding in the same order, e's
   queue names and routing keys (arguments free).  The two matched lists are EQUAL (same order: both visit the
   bindings in list order and keep a queue at its first match), for direct, fanout and topic exchanges and EVERY
   routing key. *)
Theorem Bridge_matched_queues : forall c, Cfg.cfg_sane c = true ->
  forall exn e rex key m,
  exchange_rep c exn e rex -> Exchange.m_exchange m = exn -> Exchange.m_key m = bytes_of key ->
  Model.e_type e <> Model.ExHeaders ->
  Exchange.matched_queues c rex m = Some (map bytes_of (Model.matched_queues false e key)).
Proof. exact bridge_matched_queues. Qed.
Print Assumptions Bridge_matched_queues.

(* ... and with the primed topic test, which is the broker model's *)
Theorem Bridge_matched_queues' : forall c, Cfg.cfg_sane c = true ->
  forall exn e rex key m,
  exchange_rep c exn e rex -> Exchange.m_exchange m = exn -> Exchange.m_key m = bytes_of key ->
  Model.e_type e <> Model.ExHeaders ->
  Exchange.matched_queues c rex m = Some (map bytes_of (matched_queues' e key)).
Proof. exact bridge_matched_queues'. Qed.
Print Assumptions Bridge_matched_queues'.

Theorem Bridge_matched_queues'_conservative : forall e key,
  matched_queues' e key = Model.matched_queues false e key.
Proof. exact matched_queues'_eq. Qed.
Print Assumptions Bridge_matched_queues'_conservative.

(* the representation hypothesis is inhabited by the canonical image of every broker-model exchange, whose bindings
   are what NewBinding returns for an empty argument table whenever the code accepts the pattern *)
Theorem Bridge_exchange_rep_inhabited : forall c exn e, exchange_rep c exn e (to_rexchange c exn e).
Proof. exact to_rexchange_rep. Qed.
Print Assumptions Bridge_exchange_rep_inhabited.

Theorem Bridge_binding_is_new_binding : forall c exn t b, Cfg.cfg_sane c = true ->
  (t = Model.ExTopic -> Topic.pattern_ok (bytes_of (Model.b_key b)) = true) ->
  Exchange.new_binding c (bytes_of (Model.b_queue b)) exn (bytes_of (Model.b_key b)) (Some []) (is_topic t)
  = Some (to_rbinding exn t b).
Proof. exact (fun c exn t b H => to_rbinding_new_binding c exn t b (RouteProofs.cfg_sane_sane c H)). Qed.
Print Assumptions Bridge_binding_is_new_binding.

(* Props/C08.v (C08_route_eq_spec_partial) on the broker model *)
Theorem Bridge_C08_route_eq_spec : forall c, Cfg.cfg_sane c = true ->
  forall exn e rex key m,
  exchange_rep c exn e rex -> Exchange.m_exchange m = exn -> Exchange.m_key m = bytes_of key ->
  Model.e_type e <> Model.ExHeaders ->
  Forall (Spec.binding_wf c (kind_of_type (Model.e_type e))) (Exchange.ex_bindings rex) ->
  NoDup (Model.matched_queues false e key) /\
  forall q, In q (Model.matched_queues false e key) <->
            Spec.route_spec true (kind_of_type (Model.e_type e)) (Exchange.ex_bindings rex) m (bytes_of q).
Proof. exact model_route_eq_spec. Qed.
Print Assumptions Bridge_C08_route_eq_spec.

(* headers exchanges.  Bridged: the broker model's messages have no headers table and its answer is []; that is
   GetMatchedQueues' answer for such a message when every binding carries an argument table (empty or not), as
   every binding made by queue.bind does.  (That the AMQP rule would match a binding with nothing to match is the
   open finding F51: Props/C08.v, C08_route_eq_spec_refuted - the broker model sides with the code.)
   Not bridged: messages WITH a headers table (the broker model has none), and bindings whose Arguments pointer is
   nil, which do match a message without headers in the code. *)
Theorem Bridge_matched_queues_headers : forall c, Cfg.cfg_sane c = true ->
  forall e rex key m,
  Exchange.ex_type rex = type_id c (Model.e_type e) -> Model.e_type e = Model.ExHeaders ->
  Exchange.m_headers m = None ->
  Forall (fun rb => Exchange.b_args rb <> None) (Exchange.ex_bindings rex) ->
  Exchange.matched_queues c rex m = Some (map bytes_of (Model.matched_queues false e key)).
Proof. exact bridge_matched_queues_headers. Qed.
Print Assumptions Bridge_matched_queues_headers.

Theorem Bridge_headers_nil_arguments_not_bridged : forall c, Cfg.cfg_sane c = true ->
  forall exn q key mt mand,
  Exchange.matched_queues c
    {| Exchange.ex_name := exn; Exchange.ex_type := Cfg.c_headers c;
       Exchange.ex_bindings := [{| Exchange.b_queue := q; Exchange.b_exchange := exn; Exchange.b_key := key;
                                   Exchange.b_args := None; Exchange.b_topic := false; Exchange.b_match := mt |}] |}
    {| Exchange.m_exchange := exn; Exchange.m_key := key; Exchange.m_headers := None; Exchange.m_mandatory := mand |}
  = Some [q].
Proof. exact route_headers_nil_args_match. Qed.
Print Assumptions Bridge_headers_nil_arguments_not_bridged.

(* Former disagreement D2, closed.  queue.bind on a topic exchange with a wildcard inside a word: NewBinding refuses
   the pattern (channel error 406, server/queueMethods.go; Route.new_binding = None is the code's side, confirmed
   against the running broker).  The broker model answered bind-ok and kept the binding; it refuses now, exactly when
   NewBinding fails.  Past the checks that come first (the exchange exists and is not the default one, the queue
   exists and is not locked), for a bind without arguments: *)
Theorem Bridge_bind_refused_iff : forall c, Cfg.cfg_sane c = true ->
  forall cfg fx s cn h ch q exn key nowait e qu,
  Model.get_chan s cn h = Some ch ->
  Model.alookup Model.seqb exn (Model.exchanges s) = Some e -> exn <> "" ->
  Model.queue_found s q = Some qu -> Model.locked qu cn = false ->
  (snd (Model.handle_method cfg fx s cn h (Model.MQBind q exn key [] nowait)) = Some (Model.ChanErr Model.PreconditionFailed 50 20)
   <-> Exchange.new_binding c (bytes_of q) (bytes_of exn) (bytes_of key) (Some []) (is_topic (Model.e_type e)) = None) /\
  (snd (Model.handle_method cfg fx s cn h (Model.MQBind q exn key [] nowait)) = None
   <-> Exchange.new_binding c (bytes_of q) (bytes_of exn) (bytes_of key) (Some []) (is_topic (Model.e_type e)) <> None).
Proof. exact (fun c H => model_bind_refused_iff c (RouteProofs.cfg_sane_sane c H)). Qed.
Print Assumptions Bridge_bind_refused_iff.

(* the error of the broker model's queue.bind / queue.unbind, in closed form *)
Theorem Bridge_bind_result : forall cfg fx s cn h ch q exn key nowait e qu,
  Model.get_chan s cn h = Some ch ->
  Model.alookup Model.seqb exn (Model.exchanges s) = Some e -> exn <> "" ->
  Model.queue_found s q = Some qu -> Model.locked qu cn = false ->
  snd (Model.handle_method cfg fx s cn h (Model.MQBind q exn key [] nowait)) =
  if is_topic (Model.e_type e) && Model.bad_pattern key then Some (Model.ChanErr Model.PreconditionFailed 50 20) else None.
Proof. exact model_bind_result. Qed.
Print Assumptions Bridge_bind_result.

Theorem Bridge_unbind_result : forall cfg fx s cn h ch q exn key e qu,
  Model.get_chan s cn h = Some ch ->
  Model.alookup Model.seqb exn (Model.exchanges s) = Some e ->
  Model.queue_found s q = Some qu -> Model.locked qu cn = false ->
  snd (Model.handle_method cfg fx s cn h (Model.MQUnbind q exn key [])) =
  if is_topic (Model.e_type e) && Model.bad_pattern key then Some (Model.ChanErr Model.PreconditionFailed 50 50) else None.
Proof. exact model_unbind_result. Qed.
Print Assumptions Bridge_unbind_result.

Definition cfg_r : Model.config := {| Model.cfg_rabbit := true; Model.cfg_rollback := true; Model.cfg_release_first := true |}.
Definition bind_bad_pattern : list Model.label :=
  [Model.LConnect 1; Model.LMethod 1 1 Model.MChannelOpen;
   Model.LMethod 1 1 (Model.MExDeclare "t" "topic" false false false false false);
   Model.LMethod 1 1 (Model.MQDeclare "q" false false false false false);
   Model.LMethod 1 1 (Model.MQBind "q" "t" "a*" [] false)].

Definition unbind_bad_pattern : list Model.label :=
  [Model.LConnect 1; Model.LMethod 1 1 Model.MChannelOpen;
   Model.LMethod 1 1 (Model.MExDeclare "t" "topic" false false false false false);
   Model.LMethod 1 1 (Model.MQDeclare "q" false false false false false);
   Model.LMethod 1 1 (Model.MQBind "q" "t" "a.*" [] false);
   Model.LMethod 1 1 (Model.MQUnbind "q" "t" "a*" [])].

Example bridge_agree_malformed_pattern :
  (* bind: the channel is closed with 406 (class 50, method 20) and no binding is made - NewBinding fails *)
  snd (Model.run cfg_r Model.all_fixed (Model.init cfg_r) bind_bad_pattern)
  = [(1, 1, Model.SChannelOpenOk); (1, 1, Model.SExDeclareOk); (1, 1, Model.SQDeclareOk "q" 0 0); (1, 1, Model.SChannelClose 406 50 20)] /\
  option_map Model.e_bindings (Model.alookup Model.seqb "t" (Model.exchanges (fst (Model.run cfg_r Model.all_fixed (Model.init cfg_r) bind_bad_pattern))))
  = Some [] /\
  Exchange.new_binding RouteGen.gen_cfg (bytes_of "q") (bytes_of "t") (bytes_of "a*") (Some []) true = None /\
  Topic.pattern_ok (bytes_of "a*") = false /\ Model.bad_pattern "a*" = true /\
  (* a well-formed pattern is bound on both sides; unbind of the malformed one: 406 (class 50, method 50), binding kept *)
  snd (Model.run cfg_r Model.all_fixed (Model.init cfg_r) unbind_bad_pattern)
  = [(1, 1, Model.SChannelOpenOk); (1, 1, Model.SExDeclareOk); (1, 1, Model.SQDeclareOk "q" 0 0); (1, 1, Model.SQBindOk);
     (1, 1, Model.SChannelClose 406 50 50)] /\
  option_map Model.e_bindings (Model.alookup Model.seqb "t" (Model.exchanges (fst (Model.run cfg_r Model.all_fixed (Model.init cfg_r) unbind_bad_pattern))))
  = Some [{| Model.b_queue := "q"; Model.b_key := "a.*"; Model.b_args := [] |}] /\
  Exchange.new_binding RouteGen.gen_cfg (bytes_of "q") (bytes_of "t") (bytes_of "a.*") (Some []) true <> None.
Proof. vm_compute. repeat split; try reflexivity. discriminate. Qed.

(* non-vacuity of the exchange-level theorems: a topic exchange with two bindings for one queue *)
Definition ex_demo : Model.exchange :=
  {| Model.e_type := Model.ExTopic; Model.e_durable := false; Model.e_autodel := false; Model.e_internal := false;
     Model.e_system := false;
     Model.e_bindings := [{| Model.b_queue := "q1"; Model.b_key := "a.*"; Model.b_args := [] |};
                          {| Model.b_queue := "q2"; Model.b_key := "#.b"; Model.b_args := [] |};
                          {| Model.b_queue := "q1"; Model.b_key := "a.#.b"; Model.b_args := [] |};
                          {| Model.b_queue := "q3"; Model.b_key := "b"; Model.b_args := [] |}] |}.

Example Bridge_matched_queues_example :
  Model.matched_queues false ex_demo "a.b" = ["q1"; "q2"] /\
  Exchange.matched_queues RouteGen.gen_cfg (to_rexchange RouteGen.gen_cfg (bytes_of "e") ex_demo)
    {| Exchange.m_exchange := bytes_of "e"; Exchange.m_key := bytes_of "a.b"; Exchange.m_headers := None; Exchange.m_mandatory := true |}
  = Some [bytes_of "q1"; bytes_of "q2"] /\
  forallb (fun b => Topic.pattern_ok (bytes_of (Model.b_key b))) (Model.e_bindings ex_demo) = true.
Proof. vm_compute. repeat split; reflexivity. Qed.

(* ====================================================================================== *)
(* 3. The message store (a simulation, event by event)                                    *)
(* ====================================================================================== *)
(* [store_rel sa sdb sd st]: the broker model's three key lists (pending adds, flushed keys, pending deletes) and the
   store model's state [st] (Badger engine, no persist in flight, maps key-sorted, pending entries under their own
   keys) agree POINTWISE on every representable key skey (uid, queue) = makeKey(uid, queue) with uid < 2^64 and a
   queue name without '.':
       pending adds = ms_add     pending deletes = ms_del
       flushed keys = ms_db + the pending updates no pending add carries
   Each broker-model store event is matched by the MsgStore label(s) below and the relation is kept. *)
Theorem Bridge_store_init : forall c, store_rel [] [] [] (MsgStore.ms_init KV.Badger true c).
Proof. exact rel_init. Qed.
Print Assumptions Bridge_store_init.

(* push of a persistent message into a durable queue = Add (the key is new: a uid enters a queue once) *)
Theorem Bridge_store_add : forall sa sdb sd st m qn, store_rel sa sdb sd st -> pvalid (MsgStore.m_id m, qn) ->
  mmem sa (MsgStore.m_id m, qn) = false -> mmem sdb (MsgStore.m_id m, qn) = false ->
  store_rel (sa ++ [(MsgStore.m_id m, qn)])%list sdb sd (fst (MsgStore.ms_step st (MsgStore.MAdd m (bytes_of qn)))).
Proof. exact rel_add. Qed.
Print Assumptions Bridge_store_add.

(* settle = Del *)
Theorem Bridge_store_del : forall sa sdb sd st m qn, store_rel sa sdb sd st -> pvalid (MsgStore.m_id m, qn) ->
  store_rel sa sdb (sd ++ [(MsgStore.m_id m, qn)])%list (fst (MsgStore.ms_step st (MsgStore.MDel m (bytes_of qn)))).
Proof. exact rel_del. Qed.
Print Assumptions Bridge_store_del.

(* requeue write-back = Update *)
Theorem Bridge_store_update : forall sa sdb sd st m qn, store_rel sa sdb sd st -> pvalid (MsgStore.m_id m, qn) ->
  store_rel sa (writeback sa sdb (MsgStore.m_id m, qn)) sd (fst (MsgStore.ms_step st (MsgStore.MUpdate m (bytes_of qn)))).
Proof. exact rel_update. Qed.
Print Assumptions Bridge_store_update.

(* store_purge = Purge (queue names without '.': the purge prefix of "a" covers the keys of "a.b", finding F21) *)
Theorem Bridge_store_purge : forall sa sdb sd st qn, store_rel sa sdb sd st -> StoreSpec.dotfree (bytes_of qn) = true ->
  store_rel sa (purge_db sdb qn) (purge_del sa sd qn) (fst (MsgStore.ms_step st (MsgStore.MPurge (bytes_of qn)))).
Proof. exact rel_purge. Qed.
Print Assumptions Bridge_store_purge.

(* LPersistTick = the three persist phases run together *)
Theorem Bridge_store_tick : forall sa sdb sd st, store_rel sa sdb sd st ->
  store_rel [] (tick_db sa sdb sd) [] (fst (MsgStore.ms_step st MsgStore.MPersistTick)).
Proof. exact rel_tick. Qed.
Print Assumptions Bridge_store_tick.

(* graceful stop = Close *)
Theorem Bridge_store_close : forall sa sdb sd st, store_rel sa sdb sd st -> MsgStore.ms_persistent st = true ->
  store_rel [] (tick_db sa sdb sd) [] (fst (MsgStore.ms_step st MsgStore.MClose)).
Proof. exact rel_close. Qed.
Print Assumptions Bridge_store_close.

(* Kill, when no write-back is parked in the update map (see bridge_gap_kill_after_writeback) *)
Theorem Bridge_store_kill : forall sa sdb sd st, store_rel sa sdb sd st -> MsgStore.ms_persistent st = true ->
  no_pending_writeback st ->
  store_rel [] sdb [] (fst (MsgStore.ms_step st MsgStore.MKill)).
Proof. exact rel_kill. Qed.
Print Assumptions Bridge_store_kill.

(* the [sa sdb sd] transformers above ARE what the broker model's functions do to st_add / st_db / st_del *)
Theorem Bridge_model_store_events :
  (forall s qn u qu m, Model.get_queue s qn = Some qu -> Model.get_msg s u = Some m -> Model.q_active qu = true ->
     Model.st_add (Model.queue_push s qn u) = (if Model.q_durable qu && Model.m_pers m then Model.st_add s ++ [(u, qn)] else Model.st_add s)%list /\
     Model.st_db (Model.queue_push s qn u) = Model.st_db s /\ Model.st_del (Model.queue_push s qn u) = Model.st_del s) /\
  (forall s qn u qu m, Model.get_queue s qn = Some qu -> Model.get_msg s u = Some m -> Model.q_active qu = true ->
     Model.st_del (Model.queue_ackmsg s qn u) = (if Model.q_durable qu && Model.m_pers m then Model.st_del s ++ [(u, qn)] else Model.st_del s)%list /\
     Model.st_db (Model.queue_ackmsg s qn u) = Model.st_db s /\ Model.st_add (Model.queue_ackmsg s qn u) = Model.st_add s) /\
  (forall s qn u dur,
     let pers := match Model.get_msg s u with Some m => Model.m_pers m | None => false end in
     Model.st_add (Model.store_writeback s qn u dur) = Model.st_add s /\
     Model.st_del (Model.store_writeback s qn u dur) = Model.st_del s /\
     Model.st_db (Model.store_writeback s qn u dur) =
       (if dur && pers then writeback (Model.st_add s) (Model.st_db s) (u, qn) else Model.st_db s)) /\
  (forall s qn,
     Model.st_add (Model.store_purge s qn) = Model.st_add s /\
     Model.st_db (Model.store_purge s qn) = purge_db (Model.st_db s) qn /\
     Model.st_del (Model.store_purge s qn) = purge_del (Model.st_add s) (Model.st_del s) qn) /\
  (forall cfg fx s,
     let s' := fst (Model.step cfg fx s Model.LPersistTick) in
     Model.st_add s' = [] /\ Model.st_del s' = [] /\
     Model.st_db s' = tick_db (Model.st_add s) (Model.st_db s) (Model.st_del s)).
Proof.
  exact (conj model_queue_push_keys (conj model_queue_ackmsg_keys (conj model_store_writeback (conj model_store_purge model_persist_tick)))).
Qed.
Print Assumptions Bridge_model_store_events.

(* LRestart = Kill + reload; [LPersistTick; LRestart] = Close + reload (the graceful restart) *)
Theorem Bridge_store_restart_kill : forall cfg s st, store_rel (Model.st_add s) (Model.st_db s) (Model.st_del s) st ->
  MsgStore.ms_persistent st = true -> no_pending_writeback st ->
  (forall p, In p (Model.st_db s) ->
     existsb (fun kv => Model.seqb (fst kv) (snd p)) (filter (fun kv => Model.q_durable (snd kv)) (Model.queues s)) = true) ->
  let s' := fst (Model.step cfg Model.all_fixed s Model.LRestart) in
  store_rel (Model.st_add s') (Model.st_db s') (Model.st_del s') (fst (MsgStore.ms_step st MsgStore.MKill)).
Proof. exact rel_restart_kill. Qed.
Print Assumptions Bridge_store_restart_kill.

Theorem Bridge_store_restart_graceful : forall cfg fx s st, store_rel (Model.st_add s) (Model.st_db s) (Model.st_del s) st ->
  MsgStore.ms_persistent st = true ->
  let s1 := fst (Model.step cfg fx s Model.LPersistTick) in
  (forall p, In p (Model.st_db s1) ->
     existsb (fun kv => Model.seqb (fst kv) (snd p)) (filter (fun kv => Model.q_durable (snd kv)) (Model.queues s1)) = true) ->
  let s' := fst (Model.step cfg fx s1 Model.LRestart) in
  store_rel (Model.st_add s') (Model.st_db s') (Model.st_del s') (fst (MsgStore.ms_step st MsgStore.MClose)).
Proof. exact rel_restart_graceful. Qed.
Print Assumptions Bridge_store_restart_graceful.

(* DISAGREEMENT D3 (bridge_gap_kill_after_writeback).  The broker model writes a requeue back into its flushed keys
   at once; the code (msgstorage.Update; Store/MsgStore.v is the code's side) parks it in the update map until the
   next persist tick.  Message flushed, fetched, its queue purged while it is out, rejected with requeue, and the
   process KILLED before the next tick: the broker model brings the message back after LRestart, the store has lost
   it (a graceful stop keeps it on both sides). *)
Definition writeback_then_kill : list Model.label :=
  [Model.LConnect 1; Model.LMethod 1 1 Model.MChannelOpen;
   Model.LMethod 1 1 (Model.MQDeclare "q" true false false false false);
   Model.LMethod 1 1 (Model.MPublish "" "q" false false); Model.LHeader 1 1 7 1 true; Model.LBody 1 1 1;
   Model.LPersistTick;
   Model.LMethod 1 1 (Model.MGet "q" false);
   Model.LMethod 1 1 (Model.MQPurge "q" false);
   Model.LMethod 1 1 (Model.MReject 1 true)].
Definition msg1 : MsgStore.msg :=
  {| MsgStore.m_id := 1; MsgStore.m_data := 0; MsgStore.m_ctag := None; MsgStore.m_meta := 0; MsgStore.m_expected := 0 |}.
Definition store_writeback_then : list MsgStore.mlabel :=
  [MsgStore.MAdd msg1 (bytes_of "q"); MsgStore.MPersistTick; MsgStore.MPurge (bytes_of "q"); MsgStore.MUpdate msg1 (bytes_of "q")].

Example bridge_gap_kill_after_writeback :
  let R l := fst (Model.run cfg_r Model.all_fixed (Model.init cfg_r) l) in
  let S l := fst (MsgStore.ms_run (MsgStore.ms_init KV.Badger true false) l) in
  Model.st_db (R writeback_then_kill) = [(1, "q")] /\ Model.st_add (R writeback_then_kill) = [] /\
  option_map Model.q_ready (Model.get_queue (R (writeback_then_kill ++ [Model.LRestart])%list) "q") = Some [1] /\
  MsgStore.ms_db (S (store_writeback_then ++ [MsgStore.MKill])%list) = [] /\
  map fst (MsgStore.ms_db (S (store_writeback_then ++ [MsgStore.MClose])%list)) = [skey (1, "q")].
Proof. vm_compute. repeat split; reflexivity. Qed.

(* non-vacuity of the simulation: publish, flush, settle, flush *)
Example Bridge_store_example :
  let S l := fst (MsgStore.ms_run (MsgStore.ms_init KV.Badger true false) l) in
  tick_db [(1, "q")] [] [] = [(1, "q")] /\
  map fst (MsgStore.ms_db (S [MsgStore.MAdd msg1 (bytes_of "q"); MsgStore.MPersistTick])) = [skey (1, "q")] /\
  tick_db [] [(1, "q")] [(1, "q")] = [] /\
  MsgStore.ms_db (S [MsgStore.MAdd msg1 (bytes_of "q"); MsgStore.MPersistTick; MsgStore.MDel msg1 (bytes_of "q"); MsgStore.MPersistTick]) = [] /\
  tick_db [(1, "q")] [] [(1, "q")] = [] /\
  MsgStore.ms_db (S [MsgStore.MAdd msg1 (bytes_of "q"); MsgStore.MDel msg1 (bytes_of "q"); MsgStore.MPersistTick]) = [].
Proof. vm_compute. repeat split; reflexivity. Qed.
