(* C06 (core) - the prefetch window arithmetic and the window loop of PopQos.
   The statements are about the functions TRANSLATED from /repo/qos/qos.go
   (Data/gen/QosGen.v, regenerated on every run); Data/Qos.v is the hand model the
   broker-level development imports, pinned to them by the first theorem.
   This file holds ONLY statements, each closed by `exact <lemma>`. *)
From Coq Require Import String List NArith Bool.
Import ListNotations.
From GMQ Require Import Data.gen.QosGen Data.Qos Proofs.QosProofs.
Open Scope N_scope.

(* The hand model is the source: every translated function equals the hand-written one,
   and the struct has the four counters with the widths the wrap constants assume. *)
Theorem C06_qos_generated_is_model :
  (forall pc ps, QosGen.qos_new pc ps = Qos.qos_new pc ps) /\
  (forall q pc ps, QosGen.qos_update q pc ps = Qos.qos_update q pc ps) /\
  (forall q, QosGen.qos_is_active q = Qos.qos_is_active q) /\
  (forall q c s, QosGen.qos_inc q c s = Qos.qos_inc q c s) /\
  (forall q c s, QosGen.qos_dec q c s = Qos.qos_dec q c s) /\
  (forall q, QosGen.qos_release q = Qos.qos_release q) /\
  (forall q, QosGen.qos_copy q = Qos.qos_copy q) /\
  qos_struct_gen = [("prefetchCount", 16); ("currentCount", 16); ("prefetchSize", 32); ("currentSize", 32)]%string.
Proof. exact generated_is_model. Qed.
Print Assumptions C06_qos_generated_is_model.

(* Atomicity the model assumes (one step per call): the translator reads from qos.go that Inc, Dec, Release and
   Copy run their whole body under ONE acquisition of the window's lock (Lock(); defer Unlock() first, no other
   lock traffic inside).  A body that tests under the lock, releases it and charges under a second acquisition is
   a different function (two consumers can both take the last slot). *)
Theorem C06_generated_qos_atomic :
  qos_inc_locked = true /\ qos_dec_locked = true /\ qos_release_locked = true /\ qos_copy_locked = true.
Proof. repeat split; reflexivity. Qed.
Print Assumptions C06_generated_qos_atomic.

(* Inc succeeds iff the limits admit the charge (limit 0 = none; otherwise current + charge <= limit),
   provided the charge does not wrap the counters ... *)
Theorem C06_inc_admission : forall q c s,
  qos_no_wrap q c s = true -> fst (QosGen.qos_inc q c s) = qos_admits q c s.
Proof. exact inc_admission. Qed.
Print Assumptions C06_inc_admission.

(* ... and then it adds exactly (c, s) and nothing else changes; *)
Theorem C06_inc_charges_exactly : forall q c s,
  qos_no_wrap q c s = true -> fst (QosGen.qos_inc q c s) = true -> snd (QosGen.qos_inc q c s) = qos_charged q c s.
Proof. exact inc_charges_exactly. Qed.
Print Assumptions C06_inc_charges_exactly.

(* a refused Inc leaves the window as it was (no hypothesis). *)
Theorem C06_inc_refusal_unchanged : forall q c s,
  fst (QosGen.qos_inc q c s) = false -> snd (QosGen.qos_inc q c s) = q.
Proof. exact inc_refusal_unchanged. Qed.
Print Assumptions C06_inc_refusal_unchanged.

(* Dec subtracts exactly its share when the share was charged, *)
Theorem C06_dec_exact : forall q c s,
  qos_wf q -> c <= currentCount q -> s <= currentSize q -> QosGen.qos_dec q c s = qos_released q c s.
Proof. exact dec_exact. Qed.
Print Assumptions C06_dec_exact.

Theorem C06_dec_undoes_inc : forall q c s,
  qos_wf q -> qos_no_wrap q c s = true -> fst (QosGen.qos_inc q c s) = true ->
  QosGen.qos_dec (snd (QosGen.qos_inc q c s)) c s = q.
Proof. exact dec_undoes_inc. Qed.
Print Assumptions C06_dec_undoes_inc.

(* saturates at 0 otherwise, and never touches the limits. *)
Theorem C06_dec_saturates : forall q c s,
  (currentCount q < c -> currentCount (QosGen.qos_dec q c s) = 0) /\
  (currentSize q < s -> currentSize (QosGen.qos_dec q c s) = 0) /\
  prefetchCount (QosGen.qos_dec q c s) = prefetchCount q /\ prefetchSize (QosGen.qos_dec q c s) = prefetchSize q.
Proof. exact dec_saturates. Qed.
Print Assumptions C06_dec_saturates.

(* Update (basic.qos) replaces the limits and keeps the current values. *)
Theorem C06_update_keeps_current : forall q pc ps,
  currentCount (QosGen.qos_update q pc ps) = currentCount q /\ currentSize (QosGen.qos_update q pc ps) = currentSize q /\
  prefetchCount (QosGen.qos_update q pc ps) = pc /\ prefetchSize (QosGen.qos_update q pc ps) = ps.
Proof. exact update_keeps_current. Qed.
Print Assumptions C06_update_keeps_current.

Theorem C06_release_copy_new_active : forall q,
  QosGen.qos_release q = mkQos (prefetchCount q) 0 (prefetchSize q) 0 /\ QosGen.qos_copy q = q /\
  (forall pc ps, QosGen.qos_new pc ps = mkQos pc 0 ps 0) /\
  (QosGen.qos_is_active q = false <-> prefetchCount q = 0 /\ prefetchSize q = 0).
Proof. exact release_copy_new_active. Qed.
Print Assumptions C06_release_copy_new_active.

(* The ledger.  For EVERY sequence of delivery attempts, settlements of outstanding charges
   and basic.qos updates, at every instant (after every prefix ops1) the window's count is the
   number of outstanding charges and its size the sum of their sizes ... *)
Theorem C06_ledger_exact : forall pc ps ops1 ops2,
  pc < 65536 -> ps < 4294967296 ->
  led_nowrap QosGen.qos_inc QosGen.qos_dec QosGen.qos_update (QosGen.qos_new pc ps, []) (ops1 ++ ops2) = true ->
  let st := led_run QosGen.qos_inc QosGen.qos_dec QosGen.qos_update (QosGen.qos_new pc ps, []) ops1 in
  currentCount (fst st) = N.of_nat (length (snd st)) /\ currentSize (fst st) = sumN (snd st).
Proof. exact ledger_exact. Qed.
Print Assumptions C06_ledger_exact.

(* ... hence, while count limits within 1..n are in force (initially and at every update), the
   outstanding deliveries never number more than n; *)
Theorem C06_ledger_count_bound : forall n pc ps ops1 ops2,
  pc < 65536 -> ps < 4294967296 ->
  led_nowrap QosGen.qos_inc QosGen.qos_dec QosGen.qos_update (QosGen.qos_new pc ps, []) (ops1 ++ ops2) = true ->
  count_limits_within n pc (ops1 ++ ops2) = true ->
  N.of_nat (length (snd (led_run QosGen.qos_inc QosGen.qos_dec QosGen.qos_update (QosGen.qos_new pc ps, []) ops1))) <= n.
Proof. exact ledger_count_bound. Qed.
Print Assumptions C06_ledger_count_bound.

(* and likewise the outstanding body bytes under size limits within 1..n. *)
Theorem C06_ledger_size_bound : forall n pc ps ops1 ops2,
  pc < 65536 -> ps < 4294967296 ->
  led_nowrap QosGen.qos_inc QosGen.qos_dec QosGen.qos_update (QosGen.qos_new pc ps, []) (ops1 ++ ops2) = true ->
  size_limits_within n ps (ops1 ++ ops2) = true ->
  sumN (snd (led_run QosGen.qos_inc QosGen.qos_dec QosGen.qos_update (QosGen.qos_new pc ps, []) ops1)) <= n.
Proof. exact ledger_size_bound. Qed.
Print Assumptions C06_ledger_size_bound.

(* Non-vacuity: a run that fills a window of 2, is refused, settles out of order, is updated. *)
Example C06_ledger_example :
  let ops := [LDeliver 5; LDeliver 7; LDeliver 1; LSettle 0; LDeliver 9; LUpdate 3 0; LDeliver 2; LSettle 1; LSettle 7] in
  led_nowrap QosGen.qos_inc QosGen.qos_dec QosGen.qos_update (QosGen.qos_new 2 100, []) ops = true /\
  count_limits_within 3 2 ops = true /\
  led_run QosGen.qos_inc QosGen.qos_dec QosGen.qos_update (QosGen.qos_new 2 100, []) ops = (mkQos 3 2 0 9, [7; 2]).
Proof. vm_compute. auto. Qed.

(* F32 (open finding): without the no-wrap hypothesis the admission statement is false: the
   uint32 size counter wraps (a body of 2^32-1 bytes passes a 10-byte limit that is already used up),
   and so does the uint16 count counter (65535 outstanding under a limit of 65535). *)
Theorem C06_inc_admission_without_nowrap_refuted :
  exists q c s, qos_wf q /\ c < 65536 /\ s < 4294967296 /\
                fst (QosGen.qos_inc q c s) = true /\ qos_admits q c s = false.
Proof. exact inc_admission_without_nowrap_refuted. Qed.
Print Assumptions C06_inc_admission_without_nowrap_refuted.

Theorem C06_inc_count_wrap_refuted :
  exists q, qos_wf q /\ fst (QosGen.qos_inc q 1 0) = true /\ qos_admits q 1 0 = false.
Proof. exact inc_count_wrap_refuted. Qed.
Print Assumptions C06_inc_count_wrap_refuted.

Theorem C06_ledger_without_nowrap_refuted : exists pc ps ops,
  pc < 65536 /\ ps < 4294967296 /\ size_limits_within ps ps ops = true /\
  ps < sumN (snd (led_run QosGen.qos_inc QosGen.qos_dec QosGen.qos_update (QosGen.qos_new pc ps, []) ops)).
Proof. exact ledger_without_nowrap_refuted. Qed.
Print Assumptions C06_ledger_without_nowrap_refuted.

(* The window loop of PopQos.  The translator reads from queue.go whether the refusal branch undoes the
   charges already made and whether windows without limits are skipped; the theorems below are about the
   code that exists only if it rolls back and charges every window. *)
Theorem C06_generated_popqos_shape : popqos_rolls_back = true /\ popqos_skips_inactive = false.
Proof. split; reflexivity. Qed.
Print Assumptions C06_generated_popqos_shape.

(* All or nothing: the pop is allowed iff every window admits (1, size) (a window without limits always does);
   then EVERY window is charged exactly (1, size); otherwise NO window is changed. *)
Theorem C06_reserve_all_or_nothing : forall ws size,
  Forall qos_wf ws -> Forall (fun q => qos_no_wrap q 1 (body_size32 size) = true) ws ->
  let r := reserve true ws size in
  (fst r = true -> snd r = map (fun q => qos_charged q 1 (body_size32 size)) ws /\
                   Forall (fun q => qos_admits q 1 (body_size32 size) = true) ws) /\
  (fst r = false -> snd r = ws /\ Exists (fun q => qos_admits q 1 (body_size32 size) = false) ws).
Proof. exact reserve_all_or_nothing_h. Qed.
Print Assumptions C06_reserve_all_or_nothing.

(* settling a delivery (Dec(1, size) on every window of its list) gives every window back exactly its share *)
Theorem C06_release_all_after_reserve : forall ws size,
  Forall qos_wf ws -> Forall (fun q => qos_no_wrap q 1 (body_size32 size) = true) ws ->
  fst (reserve true ws size) = true -> release_all (snd (reserve true ws size)) size = ws.
Proof. exact release_all_after_reserve_h. Qed.
Print Assumptions C06_release_all_after_reserve.

Example C06_reserve_example :
  reserve true [mkQos 3 0 0 0; mkQos 0 0 0 0; mkQos 1 1 0 0] 5 = (false, [mkQos 3 0 0 0; mkQos 0 0 0 0; mkQos 1 1 0 0]) /\
  reserve true [mkQos 3 0 0 0; mkQos 0 0 0 0; mkQos 2 1 9 2] 5 = (true, [mkQos 3 1 0 5; mkQos 0 1 0 5; mkQos 2 2 9 7]).
Proof. vm_compute. auto. Qed.

(* F02 (fixed in /repo eb7a732): the loop without the undo leaks the earlier windows' charge on every refusal. *)
Theorem C06_reserve_without_rollback_refuted : exists ws size,
  Forall qos_wf ws /\ Forall (fun q => qos_no_wrap q 1 (body_size32 size) = true) ws /\
  fst (reserve false ws size) = false /\ snd (reserve false ws size) <> ws.
Proof. exact reserve_without_rollback_leaks_h. Qed.
Print Assumptions C06_reserve_without_rollback_refuted.

(* F49 (fixed in /repo 9fdcd31): the loop that skipped windows without limits broke "settling frees exactly its own share". *)
Theorem C06_reserve_skipping_inactive_refuted : exists ws size,
  Forall qos_wf ws /\ Forall (fun q => qos_no_wrap q 1 (body_size32 size) = true) ws /\
  fst (reserve_gen true true ws size) = true /\ release_all (snd (reserve_gen true true ws size)) size <> ws.
Proof. exact reserve_skipping_breaks_release_h. Qed.
Print Assumptions C06_reserve_skipping_inactive_refuted.
