(* C07 - delivery never stalls while work and capacity exist: the composition over ALL label sequences.
   Only statements: each closed by `exact <lemma>` + Print Assumptions; the Examples are evaluated.

   [needs_wake cfg s qn c h tag]: queue qn is active and shows a head; (c,h,tag) is one of its consumers; the consumer
   record of channel (c,h) under that tag is started and consumes from qn; it is no-ack or every one of its prefetch
   windows accepts the head.  [deliverable] adds: the head is a message of the heap, the channel is open, flow is on.
   [pending]: the consumer holds its wake-up token or the queue's call token is raised.
   [wake_inv]: every needs_wake pair is pending.  [live_inv] = wake_inv + a closed channel holds no consumer + the
   publish ordinal is fresh.  [size_nowrap]: charging a waiting message to a window of a consumer would not overflow the
   32-bit byte counter; [nowrap_run]: so in every state the run passes through (necessary: size_wrap_refuted). *)
From Coq Require Import List String NArith ZArith Bool.
Import ListNotations.
From GMQ Require Import Broker.Model Proofs.BrokerWake Proofs.BrokerLive.
Open Scope N_scope.

(* the invariant is kept by EVERY label of the step function *)
Theorem C07_wake_step :
  forall cfg fx s l,
    fx_closeok_releases fx = true -> fx_chan_open fx = true ->
    size_nowrap cfg s -> size_nowrap cfg (fst (step cfg fx s l)) ->
    live_inv cfg s -> live_inv cfg (fst (step cfg fx s l)).
Proof. exact wake_step. Qed.
Print Assumptions C07_wake_step.

Theorem C07_wake_init : forall cfg, live_inv cfg (init cfg).
Proof. exact wake_init. Qed.
Print Assumptions C07_wake_init.

Theorem C07_wake_reachable :
  forall cfg fx ls,
    fx_closeok_releases fx = true -> fx_chan_open fx = true -> nowrap_run cfg fx ls ->
    live_inv cfg (fst (run cfg fx (init cfg) ls)).
Proof. exact wake_reachable. Qed.
Print Assumptions C07_wake_reachable.

(* no interleaving of publish, acknowledge, reject, flow, cancel, consume, get, qos, close ... and internal turns
   leaves the broker idle with a pair that could deliver *)
Theorem C07_no_idle_with_work :
  forall cfg fx ls,
    fx_closeok_releases fx = true -> fx_chan_open fx = true -> nowrap_run cfg fx ls ->
    let s := fst (run cfg fx (init cfg) ls) in
    quiescent s = true -> forall qn c h tag, ~ deliverable cfg s qn c h tag.
Proof. exact no_idle_with_work. Qed.
Print Assumptions C07_no_idle_with_work.

(* the same for the weaker condition (whatever the state of the channel, whether or not the head is in the heap) *)
Theorem C07_no_idle_with_waiting_work :
  forall cfg fx ls,
    fx_closeok_releases fx = true -> fx_chan_open fx = true -> nowrap_run cfg fx ls ->
    let s := fst (run cfg fx (init cfg) ls) in
    quiescent s = true -> forall qn c h tag, ~ needs_wake cfg s qn c h tag.
Proof. exact no_idle_with_waiting_work. Qed.
Print Assumptions C07_no_idle_with_waiting_work.

(* a deliverable pair whose consumer holds its token: its turn delivers the head *)
Theorem C07_deliverable_armed_turn_delivers :
  forall cfg fx s qn c h tag cm,
    deliverable cfg s qn c h tag -> consumer_at s c h tag = Some cm -> c_token cm = true ->
    exists d r ex k, In (c, h, SDeliver tag d r ex k) (snd (consumer_turn cfg fx s c h tag)).
Proof. exact deliverable_armed_turn_delivers. Qed.
Print Assumptions C07_deliverable_armed_turn_delivers.

(* progress without any external event: the turn the invariant points to is enabled and delivers - the consumer's own
   turn, or the queue loop's turn followed by the consumer's turn *)
Theorem C07_deliverable_progress :
  forall cfg fx ls qn c h tag,
    fx_closeok_releases fx = true -> fx_chan_open fx = true -> nowrap_run cfg fx ls ->
    let s := fst (run cfg fx (init cfg) ls) in
    deliverable cfg s qn c h tag ->
    (In (LConsumerTurn c h tag) (enabled_internal s) /\
     exists d r ex k, In (c, h, SDeliver tag d r ex k) (snd (step cfg fx s (LConsumerTurn c h tag)))) \/
    (In (LQueueLoop qn) (enabled_internal s) /\
     let s1 := fst (step cfg fx s (LQueueLoop qn)) in
     In (LConsumerTurn c h tag) (enabled_internal s1) /\
     exists d r ex k, In (c, h, SDeliver tag d r ex k) (snd (step cfg fx s1 (LConsumerTurn c h tag)))).
Proof. exact deliverable_progress_reachable. Qed.
Print Assumptions C07_deliverable_progress.

(* the boolean renderings used below mean what they say *)
Theorem C07_deliverableb_spec : forall cfg s qn c h tag, deliverableb cfg s qn c h tag = true <-> deliverable cfg s qn c h tag.
Proof. exact deliverableb_spec. Qed.
Print Assumptions C07_deliverableb_spec.
Theorem C07_nowrap_runb_spec : forall cfg fx ls, nowrap_runb cfg fx ls = true -> nowrap_run cfg fx ls.
Proof. exact nowrap_runb_spec. Qed.
Print Assumptions C07_nowrap_runb_spec.

(* ------------------------------------------------------------------ *)
(* non-vacuity and necessity of the hypotheses, evaluated *)
Open Scope string_scope.
Definition cfgR := {| cfg_rabbit := true; cfg_rollback := true; cfg_release_first := true |}.
Definition M := LMethod 1 1.
Definition pubn (q : string) (n : N) : list label := [M (MPublish "" q false false); LHeader 1 1 0 n false; LBody 1 1 n].
Definition setup : list label := [LConnect 1; M MChannelOpen; M (MQDeclare "q" false false false false false)].

(* a reachable state with a deliverable pair; its wake-up is pending, and the consumer's turn delivers *)
Definition run_armed : list label := setup ++ pubn "q" 1 ++ [M (MConsume "q" "a" false false false)].
Example C07_deliverable_pair_armed :
  let s := fst (run cfgR all_fixed (init cfgR) run_armed) in
  (nowrap_runb cfgR all_fixed run_armed, deliverableb cfgR s "q" 1 1 "a", pendingb s "q" 1 1 "a", quiescent s,
   snd (step cfgR all_fixed s (LConsumerTurn 1 1 "a")))
  = (true, true, true, false, [(1, 1, SDeliver "a" 1 false "" "q"); (1, 1, SHeader 0 1 false); (1, 1, SBody 0 1)]).
Proof. vm_compute. reflexivity. Qed.

(* a reachable idle state with a waiting message and a consumer: its prefetch window (1 message) is full, so the pair is
   not deliverable *)
Definition run_full : list label :=
  setup ++ pubn "q" 1 ++ pubn "q" 1 ++
  [M (MQos 1 0 true); M (MConsume "q" "a" false false false);
   LConsumerTurn 1 1 "a"; LConsumerTurn 1 1 "a"; LQueueLoop "q"; LConsumerTurn 1 1 "a"].
Example C07_idle_with_full_window :
  let s := fst (run cfgR all_fixed (init cfgR) run_full) in
  (nowrap_runb cfgR all_fixed run_full, quiescent s, needs_wakeb cfgR s "q" 1 1 "a", wake_invb cfgR s,
   match get_queue s "q" with Some qu => (q_ready qu, q_consumers qu) | None => ([], []) end)
  = (true, true, false, true, ([2], [(1, 1, "a")])).
Proof. vm_compute. reflexivity. Qed.

(* REFUTED without the no-wrap hypothesis (all repairs on): the channel window allows 10 bytes and holds 5; the head of
   q (6 bytes) is refused and consumer a gives up its token; then consumer b takes a message of 2^32-5 bytes from r: the
   32-bit byte counter wraps to 0, a's window has room again, nobody signals a - the broker is idle with a deliverable
   pair *)
Definition big : N := 4294967291.
Definition run_wrap : list label :=
  [LConnect 1; M MChannelOpen; M (MQDeclare "q" false false false false false); M (MQDeclare "r" false false false false false)]
  ++ pubn "q" 5 ++ pubn "q" 6 ++ pubn "r" big ++
  [M (MQos 0 10 true); M (MConsume "q" "a" false false false); M (MConsume "r" "b" false false false);
   LConsumerTurn 1 1 "a"; LConsumerTurn 1 1 "a"; LQueueLoop "q"; LQueueLoop "r"; LConsumerTurn 1 1 "a";
   LConsumerTurn 1 1 "b"; LConsumerTurn 1 1 "b"].
Example size_wrap_refuted :
  let s := fst (run cfgR all_fixed (init cfgR) run_wrap) in
  (quiescent s, deliverableb cfgR s "q" 1 1 "a", pendingb s "q" 1 1 "a", wake_invb cfgR s, nowrap_runb cfgR all_fixed run_wrap)
  = (true, true, false, false, false).
Proof. vm_compute. reflexivity. Qed.

(* REFUTED without fx_closeok_releases (F33 as found: close-ok after a server-initiated close leaves the consumers
   attached): the consumer's window is full and its token spent; the channel is closed by an error, close-ok, reopened
   (F17 repaired: the windows start from zero) - room again, nobody signals *)
Definition fx_no_closeok_release : fixes :=
  {| fx_direct_all := true; fx_redelivered := true; fx_delete_checks_first := true; fx_noack_total_once := true;
     fx_get_count := true; fx_closeok_releases := false; fx_excl_owner := true; fx_clear_current := true; fx_not_impl := true;
     fx_empty_body := true; fx_discard_closing := true; fx_nowait := true; fx_stage := true; fx_reopen_resets := true; fx_chan_open := true |}.
Definition run_closeok : list label :=
  run_full ++ [M (MQDeclare "nosuch" false false false true false); M MChannelCloseOk; M MChannelOpen].
Example closeok_unreleased_refuted :
  let s := fst (run cfgR fx_no_closeok_release (init cfgR) run_closeok) in
  (quiescent s, deliverableb cfgR s "q" 1 1 "a", pendingb s "q" 1 1 "a", wake_invb cfgR s, nowrap_runb cfgR fx_no_closeok_release run_closeok)
  = (true, true, false, false, true).
Proof. vm_compute. reflexivity. Qed.

(* REFUTED without fx_chan_open (F54 as found: a closed channel number still accepts basic.consume): a consumer started
   on the closed channel fills its window; channel.open then resets the windows - room again, nobody signals *)
Definition fx_no_chan_gate : fixes :=
  {| fx_direct_all := true; fx_redelivered := true; fx_delete_checks_first := true; fx_noack_total_once := true;
     fx_get_count := true; fx_closeok_releases := true; fx_excl_owner := true; fx_clear_current := true; fx_not_impl := true;
     fx_empty_body := true; fx_discard_closing := true; fx_nowait := true; fx_stage := true; fx_reopen_resets := true; fx_chan_open := false |}.
Definition run_nogate : list label :=
  setup ++ pubn "q" 1 ++ pubn "q" 1 ++
  [M MChannelClose; M (MQos 1 0 true); M (MConsume "q" "a" false false false);
   LConsumerTurn 1 1 "a"; LConsumerTurn 1 1 "a"; LQueueLoop "q"; LConsumerTurn 1 1 "a"; M MChannelOpen].
Example closed_channel_consume_refuted :
  let s := fst (run cfgR fx_no_chan_gate (init cfgR) run_nogate) in
  (quiescent s, deliverableb cfgR s "q" 1 1 "a", pendingb s "q" 1 1 "a", wake_invb cfgR s, nowrap_runb cfgR fx_no_chan_gate run_nogate)
  = (true, true, false, false, true).
Proof. vm_compute. reflexivity. Qed.

(* the refutations, at the level of the propositions *)
Example size_wrap_stalls :
  let s := fst (run cfgR all_fixed (init cfgR) run_wrap) in
  quiescent s = true /\ deliverable cfgR s "q" 1 1 "a" /\ ~ pending s "q" 1 1 "a".
Proof.
  split; [vm_compute; reflexivity|]. split; [apply deliverableb_spec; vm_compute; reflexivity|].
  intros H. apply pendingb_spec in H. vm_compute in H. discriminate.
Qed.
Example closeok_unreleased_stalls :
  let s := fst (run cfgR fx_no_closeok_release (init cfgR) run_closeok) in
  quiescent s = true /\ deliverable cfgR s "q" 1 1 "a" /\ ~ pending s "q" 1 1 "a".
Proof.
  split; [vm_compute; reflexivity|]. split; [apply deliverableb_spec; vm_compute; reflexivity|].
  intros H. apply pendingb_spec in H. vm_compute in H. discriminate.
Qed.
Example closed_channel_consume_stalls :
  let s := fst (run cfgR fx_no_chan_gate (init cfgR) run_nogate) in
  quiescent s = true /\ deliverable cfgR s "q" 1 1 "a" /\ ~ pending s "q" 1 1 "a".
Proof.
  split; [vm_compute; reflexivity|]. split; [apply deliverableb_spec; vm_compute; reflexivity|].
  intros H. apply pendingb_spec in H. vm_compute in H. discriminate.
Qed.
Print Assumptions size_wrap_stalls.
