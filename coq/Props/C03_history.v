(* C03 over whole histories - per-queue FIFO order of first deliveries; returned messages go back to the head.
   Only statements: each closed by `exact <lemma>` + Print Assumptions, and evaluated examples.

   Ghost state (Proofs/BrokerFifo.v: gstep / grun, computed along the run, the model is not changed):
     D g qid u     - message u has been delivered from queue object qid since the last restart of the broker;
     done_at g u   - the value of next_uid when the last content frame of u was handled, i.e. when its publish completed;
                     message ids are allocated when basic.publish arrives, so  done_at g u1 = Some m /\ m <= u2  reads
                     "the publish of u1 was complete before the publish of u2 began" (on one channel: u1 published before u2).
   Hypothesis fx_clear_current = true: defect F37 repaired (without it one message can be routed twice, see
   BrokerHolder.clear_current_needed). *)
From Coq Require Import List String NArith ZArith Bool.
Import ListNotations.
From GMQ Require Import Broker.Model Proofs.BrokerFrames Proofs.BrokerTags Proofs.BrokerChanInv Proofs.BrokerReady
  Proofs.BrokerHeld Proofs.BrokerHolder Proofs.BrokerFifo.
Open Scope N_scope.

(* (1) in every reachable state the waiting list of every queue object is  returned ++ fresh :  every message of [returned]
   has been delivered from this queue object before, none of [fresh] has, and [fresh] is in completion order (a ahead of b
   implies a was allocated before the publish of b completed).  Every label, restarts included. *)
Theorem C03_waiting_list_is_returned_then_fresh :
  forall cfg fx ls, fx_clear_current fx = true ->
    let s := fst (grun cfg fx (init cfg) ghost0 ls) in
    let g := snd (grun cfg fx (init cfg) ghost0 ls) in
    forall qn qu, get_queue s qn = Some qu ->
      exists ret fresh, q_ready qu = ret ++ fresh /\
        (forall x, In x ret -> D g (q_id qu) x) /\ (forall x, In x fresh -> ~ D g (q_id qu) x) /\
        ForallOrdPairs (fun a b => forall n, done_at g b = Some n -> a < n) fresh.
Proof. exact fifo_invariant_reachable. Qed.
Print Assumptions C03_waiting_list_is_returned_then_fresh.

(* the instrumented run is the run *)
Theorem C03_ghost_run_is_the_run : forall cfg fx ls s g, fst (grun cfg fx s g ls) = fst (run cfg fx s ls).
Proof. intros. apply grun_run. Qed.
Print Assumptions C03_ghost_run_is_the_run.

(* the invariant is inductive: one step, any label, from any state that satisfies it (with the holder / tag invariants) *)
Theorem C03_invariant_step :
  forall cfg fx s l g, fx_clear_current fx = true -> CI s -> HI s -> FI g s ->
    FI (gstep s l (fst (step cfg fx s l)) (snd (step cfg fx s l)) g) (fst (step cfg fx s l)).
Proof. exact FI_step. Qed.
Print Assumptions C03_invariant_step.

(* (2) first deliveries in publication order: from no reachable state does any step deliver u2 from a queue object for the
   first time while u1 - whose publish was complete before the publish of u2 began - waits there, never delivered from it *)
Theorem C03_first_deliveries_in_publication_order :
  forall cfg fx ls l qn qu u1 u2 m, fx_clear_current fx = true ->
    let s := fst (grun cfg fx (init cfg) ghost0 ls) in
    let g := snd (grun cfg fx (init cfg) ghost0 ls) in
    get_queue s qn = Some qu -> In u1 (q_ready qu) -> ~ D g (q_id qu) u1 ->
    done_at g u1 = Some m -> m <= u2 ->
    ~ D g (q_id qu) u2 ->
    ~ D (gstep s l (fst (step cfg fx s l)) (snd (step cfg fx s l)) g) (q_id qu) u2.
Proof. exact first_deliveries_in_publication_order. Qed.
Print Assumptions C03_first_deliveries_in_publication_order.

(* what a step records as a delivery is the head of a queue *)
Theorem C03_recorded_delivery_is_head :
  forall s l s' evs g qid u, D (gstep s l s' evs g) qid u -> ~ D g qid u ->
    exists q qu rest, get_queue s q = Some qu /\ q_id qu = qid /\ q_ready qu = u :: rest.
Proof. exact recorded_delivery_is_head. Qed.
Print Assumptions C03_recorded_delivery_is_head.

(* the ghost is sound: completion points lie between allocation and now; recorded deliveries concern complete messages *)
Theorem C03_ghost_facts :
  forall cfg fx ls, fx_clear_current fx = true ->
    let s := fst (grun cfg fx (init cfg) ghost0 ls) in let g := snd (grun cfg fx (init cfg) ghost0 ls) in
    (forall b m, done_at g b = Some m -> b < m /\ m <= next_uid s) /\
    (forall qid u, D g qid u -> u < next_uid s /\ ~ In u (all_cur s)).
Proof. exact ghost_facts_reachable. Qed.
Print Assumptions C03_ghost_facts.

(* (2') the same for ONE PUBLISHER CHANNEL: u1 and u2 were allocated by basic.publish frames of the same channel p, u1 before u2.
   No step from a reachable state delivers u2 from a queue object for the first time while u1 still waits there, never
   delivered from it. *)
Theorem C03_first_deliveries_same_channel :
  forall cfg fx ls l qn qu u1 u2 p, fx_clear_current fx = true ->
    let s := fst (grun cfg fx (init cfg) ghost0 ls) in
    let g := snd (grun cfg fx (init cfg) ghost0 ls) in
    pub_of g u1 = Some p -> pub_of g u2 = Some p -> u1 < u2 ->
    get_queue s qn = Some qu -> In u1 (q_ready qu) -> ~ D g (q_id qu) u1 ->
    ~ D g (q_id qu) u2 ->
    ~ D (gstep s l (fst (step cfg fx s l)) (snd (step cfg fx s l)) g) (q_id qu) u2.
Proof. exact first_deliveries_same_channel. Qed.
Print Assumptions C03_first_deliveries_same_channel.

(* what it rests on.  (i) a channel's current message is set only by a basic.publish frame on that very channel, to the id the
   frame allocates, and the id counter moves only then, by one - every label *)
Theorem C03_current_message_set_only_by_publish :
  forall cfg fx s l,
    (next_uid (fst (step cfg fx s l)) = next_uid s \/
     (next_uid (fst (step cfg fx s l)) = next_uid s + 1 /\ exists c h ex k md im, l = LMethod c h (MPublish ex k md im))) /\
    forall c h w, cur_of (fst (step cfg fx s l)) c h = Some w ->
      cur_of s c h = Some w \/ (w = next_uid s /\ exists ex k md im, l = LMethod c h (MPublish ex k md im)).
Proof. exact cur_step. Qed.
Print Assumptions C03_current_message_set_only_by_publish.

(* (ii) of two messages of one channel the earlier one is complete (if ever) before the later one begins *)
Theorem C03_same_channel_sequential :
  forall cfg fx ls u1 u2 p m, fx_clear_current fx = true ->
    let g := snd (grun cfg fx (init cfg) ghost0 ls) in
    pub_of g u1 = Some p -> pub_of g u2 = Some p -> u1 < u2 -> done_at g u2 <> None ->
    done_at g u1 = Some m -> m <= u2.
Proof. exact same_channel_sequential. Qed.
Print Assumptions C03_same_channel_sequential.

(* (iii) a waiting message has a completion point; so have the unsettled deliveries (which are recorded deliveries) and the keys
   of the message store *)
Theorem C03_waiting_has_done_at :
  forall cfg fx ls qn qu x, fx_clear_current fx = true ->
    let s := fst (grun cfg fx (init cfg) ghost0 ls) in
    let g := snd (grun cfg fx (init cfg) ghost0 ls) in
    get_queue s qn = Some qu -> In x (q_ready qu) -> done_at g x <> None.
Proof. exact waiting_has_done_at. Qed.
Print Assumptions C03_waiting_has_done_at.

Theorem C03_unsettled_and_stored_have_done_at :
  forall cfg fx ls, fx_clear_current fx = true ->
    let s := fst (grun cfg fx (init cfg) ghost0 ls) in
    let g := snd (grun cfg fx (init cfg) ghost0 ls) in
    (forall c h ch e, get_chan s c h = Some ch -> In e (ch_unacked ch) -> D g (u_qid e) (u_msg e) /\ done_at g (u_msg e) <> None) /\ (forall k, In k (st_add s ++ st_db s) -> done_at g (fst k) <> None).
Proof. exact unsettled_and_stored_have_done_at. Qed.
Print Assumptions C03_unsettled_and_stored_have_done_at.

(* the names of the first version (with the then unproved premise) still hold *)
Theorem C03_first_deliveries_same_channel_partial :
  forall cfg fx ls l qn qu u1 u2 p, cur_only_by_publish -> fx_clear_current fx = true ->
    let s := fst (grun cfg fx (init cfg) ghost0 ls) in
    let g := snd (grun cfg fx (init cfg) ghost0 ls) in
    pub_of g u1 = Some p -> pub_of g u2 = Some p -> u1 < u2 -> done_at g u1 <> None -> done_at g u2 <> None ->
    get_queue s qn = Some qu -> In u1 (q_ready qu) -> ~ D g (q_id qu) u1 ->
    ~ D g (q_id qu) u2 ->
    ~ D (gstep s l (fst (step cfg fx s l)) (snd (step cfg fx s l)) g) (q_id qu) u2.
Proof. exact first_deliveries_same_channel_partial. Qed.
Print Assumptions C03_first_deliveries_same_channel_partial.
Theorem C03_cur_only_by_publish : cur_only_by_publish.
Proof. exact cur_only_by_publish_proved. Qed.
Print Assumptions C03_cur_only_by_publish.

(* (3) returns, per label (the frame arrives on an open channel h <> 0 of an open connection).
   basic.nack multiple + requeue: the covered deliveries go back ahead of the waiting messages, in delivery-tag order *)
Theorem C03_nack_multiple_returns_to_head :
  forall cfg fx s c h tag cn ch q,
    get_conn s c = Some cn -> cn_stage cn = StOpen -> get_chan s c h = Some ch -> ch_status ch = ChOpen -> h <> 0 ->
    R (fst (step cfg fx s (LMethod c h (MNack tag true true)))) q =
    match R s q with
    | Some l => Some (map u_msg (filter (goes_to s q) (rev (filter (covered tag) (sort_desc (U s c h))))) ++ l)
    | None => None
    end.
Proof. exact nack_multiple_returns_to_head. Qed.
Print Assumptions C03_nack_multiple_returns_to_head.

Theorem C03_nack_single_returns_to_head :
  forall cfg fx s c h tag cn ch e q,
    get_conn s c = Some cn -> cn_stage cn = StOpen -> get_chan s c h = Some ch -> ch_status ch = ChOpen -> h <> 0 ->
    find (fun u => u_tag u =? tag) (U s c h) = Some e ->
    R (fst (step cfg fx s (LMethod c h (MNack tag false true)))) q =
    match R s q with Some l => Some (if goes_to s q e then u_msg e :: l else l) | None => None end.
Proof. exact nack_single_returns_to_head. Qed.
Print Assumptions C03_nack_single_returns_to_head.

Theorem C03_reject_returns_to_head :
  forall cfg fx s c h tag cn ch e q,
    get_conn s c = Some cn -> cn_stage cn = StOpen -> get_chan s c h = Some ch -> ch_status ch = ChOpen -> h <> 0 ->
    find (fun u => u_tag u =? tag) (U s c h) = Some e ->
    R (fst (step cfg fx s (LMethod c h (MReject tag true)))) q =
    match R s q with Some l => Some (if goes_to s q e then u_msg e :: l else l) | None => None end.
Proof. exact reject_returns_to_head. Qed.
Print Assumptions C03_reject_returns_to_head.

(* channel.close: all unsettled deliveries of the channel go back, ahead of the waiting messages, in delivery-tag order *)
Theorem C03_channel_close_returns_to_head :
  forall cfg fx s c h cn ch q,
    get_conn s c = Some cn -> cn_stage cn = StOpen -> get_chan s c h = Some ch -> ch_status ch = ChOpen -> h <> 0 ->
    R (fst (step cfg fx s (LMethod c h MChannelClose))) q =
    match R s q with
    | Some l => Some (map u_msg (filter (goes_to s q) (rev (sort_desc (U s c h)))) ++ l)
    | None => None
    end.
Proof. exact channel_close_returns_to_head. Qed.
Print Assumptions C03_channel_close_returns_to_head.

(* connection loss / connection close (connection.close, errors): a queue that survives keeps its waiting list, unchanged, behind
   what is returned; by (1) what is put in front has been delivered from the queue before *)
Theorem C03_socket_loss_keeps_waiting_list_behind :
  forall cfg fx s c q l, R s q = Some l ->
    R (fst (step cfg fx s (LSocketLoss c))) q = None \/ exists blk, R (fst (step cfg fx s (LSocketLoss c))) q = Some (blk ++ l).
Proof. exact socket_loss_keeps_suffix. Qed.
Print Assumptions C03_socket_loss_keeps_waiting_list_behind.

(* ... exactly: the connection's channels are closed in descending channel-number order; each channel's unsettled deliveries
   go back in delivery-tag order (close_block: the same block as for channel.close, read off when that channel is closed);
   the block of a channel closed later ends up further in front; channel 0 has none *)
Theorem C03_conn_close_returns_blocks :
  forall cfg fx s c cn q l, get_conn s c = Some cn -> R s q = Some l ->
    R (fst (conn_close cfg fx s c)) q = None \/ R (fst (conn_close cfg fx s c)) q = Some (close_blocks cfg s c (sort_desc_N (map fst (cn_chans cn))) q ++ l).
Proof. exact conn_close_returns_blocks. Qed.
Print Assumptions C03_conn_close_returns_blocks.

Theorem C03_socket_loss_returns_blocks :
  forall cfg fx s c cn q l, get_conn s c = Some cn -> R s q = Some l ->
    R (fst (step cfg fx s (LSocketLoss c))) q = None \/ R (fst (step cfg fx s (LSocketLoss c))) q = Some (close_blocks cfg s c (sort_desc_N (map fst (cn_chans cn))) q ++ l).
Proof. exact socket_loss_returns_blocks. Qed.
Print Assumptions C03_socket_loss_returns_blocks.

(* ... and every block read off the state BEFORE the teardown, when the connection's channel numbers are distinct *)
Theorem C03_conn_close_returns_blocks_of_state :
  forall cfg fx s c cn q l, get_conn s c = Some cn -> NoDup (map fst (cn_chans cn)) -> R s q = Some l ->
    R (fst (conn_close cfg fx s c)) q = None \/ R (fst (conn_close cfg fx s c)) q = Some (blocks_from s c (sort_desc_N (map fst (cn_chans cn))) q ++ l).
Proof. exact conn_close_returns_blocks_of_state. Qed.
Print Assumptions C03_conn_close_returns_blocks_of_state.

Theorem C03_conn_close_keeps_waiting_list_behind :
  forall cfg fx s c q l, R s q = Some l ->
    R (fst (conn_close cfg fx s c)) q = None \/ exists blk, R (fst (conn_close cfg fx s c)) q = Some (blk ++ l).
Proof. exact conn_close_keeps_suffix. Qed.
Print Assumptions C03_conn_close_keeps_waiting_list_behind.

(* ------------------------------------------------------------------ *)
(* non-vacuity: two publishers interleave their content frames into one durable queue, a consumer with prefetch 2,
   a nack-multiple with requeue, further deliveries, a graceful restart *)
Open Scope string_scope.
Definition xcfg : config := {| cfg_rabbit := true; cfg_rollback := true; cfg_release_first := false |}.
Definition pub3 (c h : N) : list label := [LMethod c h (MPublish "" "a" false false); LHeader c h 7 2 true; LBody c h 2].
(* ids 1 (channel 1.1) and 2 (channel 2.1) start in this order and complete in the other; then 3 (1.1) and 4 (2.1) *)
Definition x_publish : list label :=
  [LConnect 1; LMethod 1 1 MChannelOpen; LMethod 1 1 (MQDeclare "a" true false false false false); LConnect 2; LMethod 2 1 MChannelOpen;
   LMethod 1 1 (MPublish "" "a" false false); LMethod 2 1 (MPublish "" "a" false false);
   LHeader 2 1 7 2 true; LBody 2 1 2; LHeader 1 1 7 2 true; LBody 1 1 2] ++ pub3 1 1 ++ pub3 2 1.
Definition x_consume : list label :=
  [LConnect 3; LMethod 3 1 MChannelOpen; LMethod 3 1 (MQos 2 0 false); LMethod 3 1 (MConsume "a" "t" false false false);
   LQueueLoop "a"; LConsumerTurn 3 1 "t"; LConsumerTurn 3 1 "t"; LConsumerTurn 3 1 "t"].
Definition x_nack : list label := [LMethod 3 1 (MNack 0 true true)].
Definition x_more : list label :=
  [LConsumerTurn 3 1 "t"; LConsumerTurn 3 1 "t"; LConsumerTurn 3 1 "t"; LMethod 3 1 (MAck 0 true);
   LConsumerTurn 3 1 "t"; LConsumerTurn 3 1 "t"; LConsumerTurn 3 1 "t"].
Definition x_show (ls : list label) :=
  let '(s, g) := grun xcfg all_fixed (init xcfg) ghost0 ls in
  (ready_list s "a", g_dlv g, FQb_along xcfg all_fixed (init xcfg) ghost0 ls).
Definition x_deliveries (ls : list label) : list event := filter is_delivery (snd (run xcfg all_fixed (init xcfg) ls)).

(* completion order 2, 1, 3, 4; completion points: 2 and 1 complete before 3 is allocated, 3 before 4 *)
Example C03_x_published :
  x_show x_publish = ([2; 1; 3; 4], [], true) /\
  (let g := snd (grun xcfg all_fixed (init xcfg) ghost0 x_publish) in
   (done_at g 1, done_at g 2, done_at g 3, done_at g 4) = (Some 3, Some 3, Some 4, Some 5) /\
   (pub_of g 1, pub_of g 2, pub_of g 3, pub_of g 4) = (Some (1, 1), Some (2, 1), Some (1, 1), Some (2, 1))).
Proof. vm_compute. repeat split; reflexivity. Qed.

(* the hypotheses of C03_first_deliveries_in_publication_order hold here for u1 = 1, u2 = 3 (both of channel 1.1) *)
Example C03_x_hypotheses_hold :
  let s := fst (grun xcfg all_fixed (init xcfg) ghost0 x_publish) in
  let g := snd (grun xcfg all_fixed (init xcfg) ghost0 x_publish) in
  exists qu, get_queue s "a" = Some qu /\ In 1 (q_ready qu) /\ Db g (q_id qu) 1 = false /\ done_at g 1 = Some 3 /\
             3 <= 3 /\ Db g (q_id qu) 3 = false /\ pub_of g 1 = Some (1, 1) /\ pub_of g 3 = Some (1, 1).
Proof. vm_compute. eexists. repeat split; try reflexivity; try (intros E; discriminate E). right. left. reflexivity. Qed.

(* two first deliveries (ids 2, 1: the most recent record first), the third turn is refused by the prefetch window *)
Example C03_x_delivered :
  x_show (x_publish ++ x_consume) = ([3; 4], [(1, 1); (1, 2)], true) /\
  x_deliveries (x_publish ++ x_consume) = [(3, 1, SDeliver "t" 1 false "" "a"); (3, 1, SDeliver "t" 2 false "" "a")].
Proof. vm_compute. split; reflexivity. Qed.

(* nack multiple + requeue: both go back to the head in delivery order, ahead of the waiting 3, 4 *)
Example C03_x_nacked :
  x_show (x_publish ++ x_consume ++ x_nack) = ([2; 1; 3; 4], [(1, 1); (1, 2)], true).
Proof. vm_compute. reflexivity. Qed.

(* they are redelivered (flag set) in that order, then - after the ack - 3 and 4 are delivered for the first time, in order *)
Example C03_x_redelivered_then_fresh :
  x_show (x_publish ++ x_consume ++ x_nack ++ x_more) = ([], [(1, 4); (1, 3); (1, 1); (1, 2); (1, 1); (1, 2)], true) /\
  x_deliveries (x_publish ++ x_consume ++ x_nack ++ x_more) =
    [(3, 1, SDeliver "t" 1 false "" "a"); (3, 1, SDeliver "t" 2 false "" "a");
     (3, 1, SDeliver "t" 3 true "" "a"); (3, 1, SDeliver "t" 4 true "" "a");
     (3, 1, SDeliver "t" 5 false "" "a"); (3, 1, SDeliver "t" 6 false "" "a")].
Proof. vm_compute. split; reflexivity. Qed.

(* a graceful restart after the nack: the list comes back in ascending id order (1 and 2 change places: different channels),
   the record of deliveries is forgotten, the invariant holds throughout *)
Example C03_x_restart :
  x_show (x_publish ++ x_consume ++ x_nack ++ [LPersistTick; LRestart]) = ([1; 2; 3; 4], [], true).
Proof. vm_compute. reflexivity. Qed.

(* the delivery count is shared by the queues a message was routed to: after a fanout to "a" and "b", message 1 is returned to "a"
   and to "b"; its count is 2 although each queue object delivered it once - m_dc cannot stand for "delivered from this queue" *)
Example C03_x_shared_delivery_count :
  let ls := [LConnect 1; LMethod 1 1 MChannelOpen; LMethod 1 1 (MQDeclare "a" false false false false false);
             LMethod 1 1 (MQDeclare "b" false false false false false);
             LMethod 1 1 (MQBind "a" "amq.fanout" "" [] false); LMethod 1 1 (MQBind "b" "amq.fanout" "" [] false);
             LMethod 1 1 (MPublish "amq.fanout" "" false false); LHeader 1 1 7 2 false; LBody 1 1 2;
             LMethod 1 1 (MGet "a" false); LMethod 1 1 (MReject 1 true)] in
  let s := fst (grun xcfg all_fixed (init xcfg) ghost0 ls) in
  let g := snd (grun xcfg all_fixed (init xcfg) ghost0 ls) in
  (ready_list s "a", ready_list s "b", g_dlv g, map (fun kv => (fst kv, m_dc (snd kv))) (heap s)) = ([1], [1], [(1, 1)], [(1, 1)]).
Proof. vm_compute. reflexivity. Qed.

(* (2')(i) evaluated at every step of the example run *)
Example C03_x_cur_only_by_publish :
  co_along xcfg all_fixed (init xcfg) (x_publish ++ x_consume ++ x_nack ++ x_more ++ [LSocketLoss 1; LPersistTick; LRestart]) = true.
Proof. vm_compute. reflexivity. Qed.

(* connection loss with deliveries outstanding on two channels of one connection: channel 2 is closed first, then channel 1,
   so channel 1's block (id 1) ends up in front of channel 2's (id 2), both ahead of the waiting 3 *)
Example C03_x_socket_loss_blocks :
  let ls := ([LConnect 1; LMethod 1 1 MChannelOpen; LMethod 1 2 MChannelOpen; LMethod 1 1 (MQDeclare "a" false false false false false)]
            ++ pub3 1 1 ++ pub3 1 1 ++ pub3 1 1 ++ [LMethod 1 1 (MGet "a" false); LMethod 1 2 (MGet "a" false)])%list in
  let s := fst (run xcfg all_fixed (init xcfg) ls) in
  (ready_list s "a", ready_list (fst (step xcfg all_fixed s (LSocketLoss 1))) "a",
   match get_conn s 1 with
   | Some cn => (close_blocks xcfg s 1 (sort_desc_N (map fst (cn_chans cn))) "a", blocks_from s 1 (sort_desc_N (map fst (cn_chans cn))) "a")
   | None => ([], [])
   end) = ([3], [1; 2; 3], ([1; 2], [1; 2])).
Proof. vm_compute. reflexivity. Qed.
