(* C20 over whole histories - the message counts, consumer counts and server totals the broker reports are the truth in
   EVERY reachable state of the repaired broker.
   Only statements: each closed by `exact <lemma>` + Print Assumptions; non-vacuity examples by vm_compute.
   Lemmas: Proofs/BrokerCountsInv.v (CN, kept by every label: KK_step) and Proofs/BrokerRegistry.v (registry link). *)
From Coq Require Import List String NArith ZArith Bool Permutation.
Import ListNotations.
From GMQ Require Import Broker.Model Run.BrokerRun Proofs.BrokerHeld Proofs.BrokerConserve Proofs.BrokerRegistry Proofs.BrokerCountsInv.
Open Scope N_scope.

(* For every queue in the table: the length counter (message-count of queue.declare-ok / basic.get-ok / purge-ok /
   delete-ok) and the `ready` figure are the number of waiting messages; the `unacked` figure is the number of unsettled
   deliveries - of all channels of all connections - that came from this queue object, counted the way channel.ackMsg finds
   the queue (name and id) and, equivalently, by the id alone; total = ready + unacked.
   For the server: `unacked` is the number of all unsettled deliveries (those whose queue was deleted included: like the
   code, the model takes them out of the server figures when they are settled, basic.ack / reject / channel close),
   `ready` is the sum over the queues in the table, total = ready + unacked.  Queue names are distinct. *)
Theorem C20_counts_exact :
  forall cfg fx ls,
  fx_stage fx = true -> fx_chan_open fx = true -> fx_closeok_releases fx = true -> fx_delete_checks_first fx = true ->
  fx_noack_total_once fx = true ->
  let s := fst (run cfg fx (init cfg) ls) in
  (forall qn qu, get_queue s qn = Some qu ->
     q_len qu = Z.of_nat (List.length (q_ready qu)) /\ q_mready qu = Z.of_nat (List.length (q_ready qu)) /\
     q_munacked qu = Z.of_nat (List.length (filter (from_queue qn (q_id qu)) (all_unacked s))) /\
     q_munacked qu = Z.of_nat (List.length (filter (fun u => u_qid u =? q_id qu) (all_unacked s))) /\
     q_mtotal qu = (q_mready qu + q_munacked qu)%Z) /\
  srv_unacked s = Z.of_nat (List.length (all_unacked s)) /\
  srv_ready s = ready_sum (queues s) /\
  srv_total s = (srv_ready s + srv_unacked s)%Z /\
  NoDup (map fst (queues s)).
Proof. exact counts_exact_reachable. Qed.
Print Assumptions C20_counts_exact.

(* every single label keeps the count invariant (with the auxiliary invariants it rests on) *)
Theorem C20_counts_step :
  forall cfg fx,
  fx_stage fx = true -> fx_chan_open fx = true -> fx_closeok_releases fx = true -> fx_delete_checks_first fx = true ->
  fx_noack_total_once fx = true ->
  forall s l, Inv s -> KK s -> KK (fst (step cfg fx s l)).
Proof. exact KK_step. Qed.
Print Assumptions C20_counts_step.

(* The consumer count (queue.declare-ok, and the auto-delete / exclusive-consumer decisions) is the length of the queue's
   registry; the registry is, up to order, the list of the consumer records of all channels that consume from the queue and
   are not stopped, so the count is the number of live consumers. *)
Theorem C20_consumer_count_exact :
  forall cfg fx ls,
  fx_stage fx = true -> fx_chan_open fx = true -> fx_closeok_releases fx = true -> fx_delete_checks_first fx = true ->
  let s := fst (run cfg fx (init cfg) ls) in
  forall qn qu, get_queue s qn = Some qu ->
    Permutation (q_consumers qu) (live_entries s qn) /\ List.length (q_consumers qu) = List.length (live_records s qn).
Proof. exact consumer_count_exact_reachable. Qed.
Print Assumptions C20_consumer_count_exact.

(* Each repair is needed: with one of them off, a reachable state reports (queue figure and server figure) an unsettled
   delivery that does not exist, or a negative count. *)
Theorem C20_counts_need_delete_checks :
  figures (fst (run rcfg (fx_off 1) (init rcfg)
    (rpre ++ [LMethod 1 1 (MConsume "q" "t" false false false); LQueueLoop "q"; LConsumerTurn 1 1 "t";
              LMethod 2 1 (MQDelete "q" true false false); LMethod 1 1 (MAck 1 false)])))
  = ([("q"%string, (0, 0, 1, 1)%Z, O)], (0, 1, 1)%Z, O).
Proof. exact counts_refuted_delete_checks. Qed.
Theorem C20_counts_need_noack_total_once :
  figures (fst (run rcfg (fx_off 2) (init rcfg)
    (rpre ++ [LMethod 1 1 (MConsume "q" "t" true false false); LQueueLoop "q"; LConsumerTurn 1 1 "t"])))
  = ([("q"%string, (0, 0, -1, -1)%Z, O)], (0, -1, -1)%Z, O).
Proof. exact counts_refuted_noack_total_once. Qed.
Theorem C20_counts_need_closeok_releases :
  figures (fst (run rcfg (fx_off 3) (init rcfg)
    (rpre ++ [LMethod 2 1 (MGet "q" false); LMethod 2 1 MChannelCloseOk; LMethod 2 1 MChannelOpen])))
  = ([("q"%string, (0, 0, 1, 1)%Z, O)], (0, 1, 1)%Z, O).
Proof. exact counts_refuted_closeok_releases. Qed.
Theorem C20_counts_need_stage :
  figures (fst (run rcfg (fx_off 4) (init rcfg)
    (rpre ++ [LMethod 2 0 MChannelOpen; LMethod 2 0 (MGet "q" false); LSocketLoss 2])))
  = ([("q"%string, (0, 0, 1, 1)%Z, O)], (0, 1, 1)%Z, O).
Proof. exact counts_refuted_stage. Qed.
Theorem C20_counts_need_chan_open :
  figures (fst (run rcfg (fx_off 5) (init rcfg)
    (rpre ++ [LMethod 2 1 MChannelClose; LMethod 2 1 (MGet "q" false); LMethod 2 1 MChannelOpen])))
  = ([("q"%string, (0, 0, 1, 1)%Z, O)], (0, 1, 1)%Z, O).
Proof. exact counts_refuted_chan_open. Qed.
Print Assumptions C20_counts_need_chan_open.

(* Non-vacuity: two connections, three channels, consumers of both on the shared queue "q", an exclusive queue "mine",
   an auto-delete queue "ad" with an unsettled delivery on connection 1; then connection 1's socket is lost (the state of
   Props/C14_history.v): figures per queue (len, ready, unacked, total), server (ready, unacked, total). *)
Definition ex_cfg := {| cfg_rabbit := true; cfg_rollback := true; cfg_release_first := false |}.
Definition ex_pub (c h : N) (q : string) (k : N) : list label := [LMethod c h (MPublish "" q false false); LHeader c h k 3 false; LBody c h 3].
Definition ex_before : state :=
  fst (run_step ex_cfg all_fixed (init ex_cfg)
    ([LConnect 1; LConnect 2; LMethod 1 1 MChannelOpen; LMethod 1 2 MChannelOpen; LMethod 2 1 MChannelOpen;
      LMethod 1 1 (MQDeclare "q" false false false false false); LMethod 1 1 (MQDeclare "mine" false true false false false);
      LMethod 1 1 (MQDeclare "ad" false false true false false);
      LMethod 1 1 (MQos 1 0 false); LMethod 1 2 (MQos 1 0 false); LMethod 2 1 (MQos 1 0 false);
      LMethod 1 1 (MConsume "q" "a" false false false); LMethod 1 2 (MConsume "q" "b" false false false);
      LMethod 2 1 (MConsume "q" "a" false false false); LMethod 1 2 (MConsume "mine" "m" false true false);
      LMethod 1 1 (MConsume "ad" "d" false false false)]
     ++ ex_pub 2 1 "q" 1 ++ ex_pub 2 1 "q" 2 ++ ex_pub 2 1 "q" 3 ++ ex_pub 2 1 "q" 4 ++ ex_pub 2 1 "ad" 5)%list).
Definition ex_after : state := fst (run_step ex_cfg all_fixed ex_before [LSocketLoss 1]).
Definition ex_counts (s : state) :=
  (map (fun kq => (fst kq, (q_len (snd kq), q_mready (snd kq), q_munacked (snd kq), q_mtotal (snd kq)), List.length (q_consumers (snd kq)))) (queues s),
   (srv_ready s, srv_unacked s, srv_total s), List.length (all_unacked s)).

Example C20_history_example_before :
  ex_counts ex_before =
  ([("q", (1, 1, 3, 4)%Z, 3%nat); ("mine", (0, 0, 0, 0)%Z, 1%nat); ("ad", (0, 0, 1, 1)%Z, 1%nat)]%string, (1, 4, 5)%Z, 4%nat).
Proof. vm_compute. reflexivity. Qed.
(* after the loss: connection 1's two deliveries from "q" are back in the queue, the one from "ad" went back and was
   deleted with the queue, "mine" is deleted; connection 2's delivery is still out *)
Example C20_history_example_after :
  ex_counts ex_after = ([("q", (3, 3, 1, 4)%Z, 1%nat)]%string, (3, 1, 4)%Z, 1%nat).
Proof. vm_compute. reflexivity. Qed.
(* what a passive declare answers then: 3 messages, 1 consumer *)
Example C20_history_example_reply :
  snd (fst (handle_method ex_cfg all_fixed ex_after 2 1 (MQDeclare "q" false false false true false))) = [(2, 1, SQDeclareOk "q" 3 1)].
Proof. vm_compute. reflexivity. Qed.
