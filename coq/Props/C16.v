(* C16 - refused operations carry the right error and change nothing.
   Only statements: each closed by `exact <lemma>` + Print Assumptions. *)
From Coq Require Import List String NArith ZArith Bool.
Import ListNotations.
From RecordUpdate Require Import RecordUpdate.
From GMQ Require Import Broker.Model Proofs.BrokerFrames Proofs.BrokerQueueInv Proofs.BrokerRefusal.
Open Scope N_scope.

(* In EVERY reachable state (any label sequence from the initial state: any client programs on any number of
   connections and channels, any interleaving of internal turns), for EVERY method on EVERY channel: if the handler
   refuses the method, the state it returns is exactly the state it was given - every exchange, queue, binding,
   message, consumer, counter - and nothing was sent before the error. *)
Theorem C16_refusal_changes_nothing :
  forall cfg fx ls c h m s' evs e,
    fx_delete_checks_first fx = true ->
    let s := fst (run cfg fx (init cfg) ls) in
    handle_method cfg fx s c h m = (s', evs, Some e) ->
    s' = s /\ evs = [].
Proof. exact C16_refusal_reachable. Qed.
Print Assumptions C16_refusal_changes_nothing.

(* The error then only marks the offending channel as closing (channel error) or changes nothing at all
   (connection error), and emits exactly one close frame carrying the error's code, class and method. *)
Theorem C16_error_scope :
  forall s c h e,
    let '(s', evs) := send_error s c h e in
    match e with
    | ChanErr code cls mth =>
        evs = [(c, h, SChannelClose code cls mth)] /\
        s' = upd_chan s c h (fun ch => set ch_status (fun _ => ChClosing) ch)
    | ConnErr code cls mth => evs = [(c, 0, SConnClose code cls mth)] /\ s' = s
    end.
Proof. exact send_error_scope. Qed.
Print Assumptions C16_error_scope.

(* A refused method names itself: the class and method id of the error are the method's own. *)
Theorem C16_error_names_method :
  forall cfg fx s c h m s' evs code cls mth,
    handle_method cfg fx s c h m = (s', evs, Some (ChanErr code cls mth)) ->
    (cls, mth) = meth_ids m.
Proof. exact chan_error_names_method. Qed.
Print Assumptions C16_error_names_method.

(* Non-vacuity: a reachable state with a queue, a consumer and a message in which five different refusals occur. *)
Example C16_example :
  let cfg := {| cfg_rabbit := true; cfg_rollback := true; cfg_release_first := false |} in
  let fx := all_fixed in
  let s := fst (run cfg fx (init cfg)
             [LConnect 1; LMethod 1 1 MChannelOpen; LMethod 1 1 (MQDeclare "q" false false false false false);
              LMethod 1 1 (MConsume "q" "t" false false false);
              LMethod 1 1 (MPublish "" "q" false false); LHeader 1 1 7 3 false; LBody 1 1 3]) in
  map (fun m => snd (handle_method cfg fx s 1 1 m))
      [MQDeclare "q" true false false false false; MQDelete "q" true false false; MGet "nope" false;
       MAck 9 false; MConsume "q" "t2" false true false]
  = [Some (ChanErr PreconditionFailed 50 10); Some (ChanErr PreconditionFailed 50 40); Some (ChanErr NotFound 60 70);
     Some (ChanErr PreconditionFailed 60 80); Some (ChanErr AccessRefused 60 20)].
Proof. vm_compute. reflexivity. Qed.
