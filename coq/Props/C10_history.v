(* C10 - nothing is reachable without an authenticated, opened connection - over whole histories: ANY label list from
   the initial state, the frames of all connections and the broker's internal turns interleaved arbitrarily.
   Only statements: each closed by `exact <lemma>` + Print Assumptions; examples by vm_compute.
   Proofs in Proofs/BrokerHandshakeAll.v and Proofs/BrokerHandshakeBlind.v.

   Vocabulary (Proofs/BrokerHandshakeAll.v):
     frame_of c l      l is a frame sent by connection c (method, header, body, undecodable method, heartbeat)
     touches c l       l names c as the peer (its frames, LAccept c, LConnect c, LSocketLoss c) or is LRestart
     quiet s c         c is absent, or its only channel is channel 0 in the state of `channel0` (no consumer, no unsettled
                       delivery, no message being published, not in confirm mode, ...)
     hs_at s c st      c is there, quiet, at handshake stage st
     noreg c s         no consumer registry of any queue has an entry of c
     owns_nothing s c  no exclusive queue is owned by c (Proofs/BrokerHandshake.v)
     erase c s         the state without c's record (the other records in their order): world s c is a projection of it
     unopened_inv s    every c with conn_opened s c = false is quiet, owns nothing and is in no registry
     UI s              the invariant of every reachable state: the conservation invariant Inv (it contains "the owner of
                       an exclusive queue is an opened connection"), "every unopened connection is quiet" (HQ), the
                       registry invariant RI (every registry entry is a live consumer of a channel of that connection)
                       and DI (no confirm meta names channel 0)
     adv st l          the handshake stage machine (advance of Proofs/BrokerHandshake.v plus: a heartbeat on channel 0
                       keeps the stage, elsewhere it is fatal)
     proj c ls         the frames of c in ls, heartbeats on channel 0 left out;  three c = the three good steps
     nf c ls           ls without the frames of c;  drop_to c evs = evs without the events addressed to c

   Hypotheses, and why:
   - fx_stage = true (F14/F15/F48 repaired): NECESSARY - without the class/channel and handshake-order checks a
     connection that has sent nothing but the protocol header opens channel 0 and declares a queue
     (C10_fx_stage_necessary below);
   - fx_chan_open, fx_closeok_releases, fx_delete_checks_first = true: inherited from the conservation invariant
     (Inv_step of Proofs/BrokerConserve.v), from which "an exclusive queue's owner is an opened connection" is taken;
     not shown necessary for C10 itself;
   - never_open_from (theorem (b)): the connection is not opened in any state of the run (it may be accepted, dropped
     and accepted again any number of times).
   What is NOT true as literally asked: "no message carries a confirm meta that points at an unopened connection" -
   connection ids can be reused, and a message published in confirm mode by an earlier connection of the same id keeps
   its meta (C10_stale_meta_exists).  Such a meta is dead: C10_stale_meta_is_dead. *)
From Coq Require Import List String NArith ZArith Bool.
Import ListNotations.
From GMQ Require Import Broker.Model Proofs.BrokerFrames Proofs.BrokerHandshake Proofs.BrokerConserve
  Proofs.BrokerHandshakeAll Proofs.BrokerHandshakeBlind.
Open Scope string_scope.
Open Scope N_scope.
Open Scope list_scope.

(* ---- the invariant: every label of step keeps it, the initial state has it, every reachable state has it ---- *)
Theorem C10_invariant_step :
  forall cfg fx, fx_stage fx = true -> fx_chan_open fx = true -> fx_closeok_releases fx = true -> fx_delete_checks_first fx = true ->
  forall s l, UI s -> UI (fst (step cfg fx s l)).
Proof. exact UI_step. Qed.
Print Assumptions C10_invariant_step.

Theorem C10_invariant_init : forall cfg, UI (init cfg).
Proof. exact UI_init. Qed.
Print Assumptions C10_invariant_init.

Theorem C10_invariant_gives_unopened_inv : forall s, UI s -> unopened_inv s.
Proof. exact unopened_inv_UI. Qed.
Print Assumptions C10_invariant_gives_unopened_inv.

(* a connection that is not opened: exactly the untouched channel 0, no exclusive queue, no registry entry - after
   every label (any frame of any connection, any internal turn, socket loss, restart) and in every reachable state *)
Theorem C10_unopened_inv_step :
  forall cfg fx, fx_stage fx = true -> fx_chan_open fx = true -> fx_closeok_releases fx = true -> fx_delete_checks_first fx = true ->
  forall s l, UI s -> unopened_inv (fst (step cfg fx s l)).
Proof. exact unopened_inv_step. Qed.
Print Assumptions C10_unopened_inv_step.

Theorem C10_unopened_inv_reachable :
  forall cfg fx, fx_stage fx = true -> fx_chan_open fx = true -> fx_closeok_releases fx = true -> fx_delete_checks_first fx = true ->
  forall ls, unopened_inv (fst (run cfg fx (init cfg) ls)).
Proof. exact unopened_inv_reachable. Qed.
Print Assumptions C10_unopened_inv_reachable.

(* the parts, each for every label: quietness of unopened connections, the registry invariant, the confirm metas *)
Theorem C10_quiet_step :
  forall cfg fx s l, fx_stage fx = true -> VI s -> HQ s -> HQ (fst (step cfg fx s l)).
Proof. exact HQ_step. Qed.
Print Assumptions C10_quiet_step.
Theorem C10_registry_step : forall cfg fx s l, RI s -> RI (fst (step cfg fx s l)).
Proof. exact RI_step. Qed.
Print Assumptions C10_registry_step.
Theorem C10_meta_step :
  forall cfg fx s l, fx_stage fx = true -> fx_chan_open fx = true -> DI s -> DI (fst (step cfg fx s l)).
Proof. exact DI_step. Qed.
Print Assumptions C10_meta_step.
(* whatever confirm meta names a quiet connection: nothing can be confirmed to it *)
Theorem C10_stale_meta_is_dead : forall s c h t, quiet s c -> add_confirm s c h t = s.
Proof. exact dead_meta. Qed.
Print Assumptions C10_stale_meta_is_dead.

(* ---- others cannot touch: a label that does not name c (not its frame, not LAccept / LConnect / LSocketLoss c, not
   LRestart) leaves a connection in the handshake exactly where it is - the record is not written at all - and emits
   no event addressed to it ---- *)
Theorem C10_others_cannot_touch :
  forall cfg fx s l c st,
    fx_stage fx = true -> noreg c s -> touches c l = false -> hs_at s c st ->
    get_conn (fst (step cfg fx s l)) c = get_conn s c /\ hs_at (fst (step cfg fx s l)) c st /\ not_to c (snd (step cfg fx s l)).
Proof. exact others_cannot_touch. Qed.
Print Assumptions C10_others_cannot_touch.

Theorem C10_others_cannot_touch_in_reachable_states :
  forall cfg fx, fx_stage fx = true ->
  forall s l c st, UI s -> touches c l = false -> hs_at s c st -> st <> StOpen ->
    get_conn (fst (step cfg fx s l)) c = get_conn s c /\ hs_at (fst (step cfg fx s l)) c st /\ not_to c (snd (step cfg fx s l)).
Proof. exact others_cannot_touch_UI. Qed.
Print Assumptions C10_others_cannot_touch_in_reachable_states.

(* the same for every connection, opened or not: presence and stage are moved by the labels naming it only *)
Theorem C10_stage_moved_by_own_labels_only :
  forall c cfg fx s l, touches c l = false -> stage_of (fst (step cfg fx s l)) c = stage_of s c.
Proof. exact SK_step. Qed.
Print Assumptions C10_stage_moved_by_own_labels_only.

(* ---- an unopened connection cannot touch: any frame of it, in any state with the invariant, changes nothing but its
   own record (erase: not even the order of the others), emits only events addressed to itself, each of them tune /
   open-ok / close / close-ok / the socket close, and its record follows the stage machine ---- *)
Theorem C10_unopened_cannot_touch :
  forall cfg fx, fx_stage fx = true ->
  forall s l c, UI s -> conn_opened s c = false -> frame_of c l = true ->
    erase c (fst (step cfg fx s l)) = erase c s /\ hs_events c (snd (step cfg fx s l)) /\
    match get_conn s c with
    | None => get_conn (fst (step cfg fx s l)) c = None
    | Some cn => match adv (cn_stage cn) l with
                 | None => get_conn (fst (step cfg fx s l)) c = None
                 | Some st' => hs_at (fst (step cfg fx s l)) c st'
                 end
    end.
Proof. exact unopened_cannot_touch_UI. Qed.
Print Assumptions C10_unopened_cannot_touch.

Theorem C10_unopened_cannot_touch_world :
  forall cfg fx s l c, fx_stage fx = true -> VI s -> HQ s -> conn_opened s c = false -> frame_of c l = true ->
    world (fst (step cfg fx s l)) c = world s c.
Proof. exact unopened_cannot_touch_world. Qed.
Print Assumptions C10_unopened_cannot_touch_world.

(* ---- (a) opened only by the three steps in order, whatever is interleaved.  history cfg fx c ls StOpen says: either
   ls = pre ++ LAccept c :: post with c absent after pre, present in every state from the accept on, and the frames of
   c in post (heartbeats on channel 0 aside) begin with exactly start-ok (good), tune-ok (within), open (vhost);
   or ls = pre ++ LConnect c :: post with c absent after pre and present ever since (the harness shortcut) ---- *)
Theorem C10_opened_only_in_order_interleaved :
  forall cfg fx, fx_stage fx = true -> fx_chan_open fx = true -> fx_closeok_releases fx = true -> fx_delete_checks_first fx = true ->
  forall c ls, conn_opened (fst (run cfg fx (init cfg) ls)) c = true -> history cfg fx c ls StOpen.
Proof. exact opened_only_in_order_interleaved. Qed.
Print Assumptions C10_opened_only_in_order_interleaved.

(* and every connection found at stage st has the history the stage machine prescribes *)
Theorem C10_stage_has_history :
  forall cfg fx, fx_stage fx = true -> fx_chan_open fx = true -> fx_closeok_releases fx = true -> fx_delete_checks_first fx = true ->
  forall c ls cn, get_conn (fst (run cfg fx (init cfg) ls)) c = Some cn -> history cfg fx c ls (cn_stage cn).
Proof. exact history_reach. Qed.
Print Assumptions C10_stage_has_history.

(* ---- (b) invisible: drop all frames of a connection that is never opened along the run - the final states agree
   outside its record, the events not addressed to it are the same ---- *)
Theorem C10_blind_step :
  forall cfg fx c, fx_stage fx = true -> blind_step cfg fx c.
Proof. exact blind_step_holds. Qed.
Print Assumptions C10_blind_step.

Theorem C10_no_effect_before_open_interleaved :
  forall cfg fx c ls,
    fx_stage fx = true -> fx_chan_open fx = true -> fx_closeok_releases fx = true -> fx_delete_checks_first fx = true ->
    never_open_from cfg fx c (init cfg) ls ->
    erase c (fst (run cfg fx (init cfg) ls)) = erase c (fst (run cfg fx (init cfg) (nf c ls))) /\
    world (fst (run cfg fx (init cfg) ls)) c = world (fst (run cfg fx (init cfg) (nf c ls))) c /\
    drop_to c (snd (run cfg fx (init cfg) ls)) = drop_to c (snd (run cfg fx (init cfg) (nf c ls))).
Proof. exact no_effect_before_open_interleaved. Qed.
Print Assumptions C10_no_effect_before_open_interleaved.

(* ------------------------------------------------------------------ *)
(* non-vacuity, by evaluation *)
Definition cfg0 : config := {| cfg_rabbit := true; cfg_rollback := true; cfg_release_first := false |}.

(* connection 1 authenticates, declares, consumes, publishes, is delivered to and acknowledges; connection 2 is
   accepted four times and sends wrong credentials / a publish before open / a queue.declare on channel 0 after
   start-ok / start-ok and tune-ok - interleaved with the frames of 1 and the broker's turns *)
Definition ex_full : list label :=
  [LAccept 1] ++ three 1 ++
  [LMethod 1 1 MChannelOpen; LMethod 1 1 (MQDeclare "q" false false false false false);
   LAccept 2;
   LMethod 1 1 (MConsume "q" "t" false false false);
   LMethod 2 0 (MStartOk false);
   LMethod 1 1 (MPublish "" "q" false false);
   LAccept 2;
   LMethod 2 1 (MPublish "" "q" false false);
   LHeader 1 1 7 3 false;
   LAccept 2; LMethod 2 0 (MStartOk true); LHeartbeat 2 0;
   LBody 1 1 3;
   LMethod 2 0 (MQDeclare "evil" false false false false false);
   LQueueLoop "q"; LConsumerTurn 1 1 "t";
   LAccept 2; LMethod 2 0 (MStartOk true); LMethod 2 0 (MTuneOk true);
   LMethod 1 1 (MAck 1 false)].

(* the hypothesis of (b) holds of this run: connection 2 is not opened in any of its states *)
Example C10_example_never_open :
  forallb (fun k => negb (conn_opened (fst (run cfg0 all_fixed (init cfg0) (firstn k ex_full))) 2)) (seq 0 (S (List.length ex_full))) = true.
Proof. vm_compute. reflexivity. Qed.
(* ... and the conclusion, evaluated: the world and the events of connection 1 are those of the run without connection 2's frames *)
Example C10_example_invisible :
  world (fst (run cfg0 all_fixed (init cfg0) ex_full)) 2 = world (fst (run cfg0 all_fixed (init cfg0) (nf 2 ex_full))) 2 /\
  drop_to 2 (snd (run cfg0 all_fixed (init cfg0) ex_full)) = drop_to 2 (snd (run cfg0 all_fixed (init cfg0) (nf 2 ex_full))) /\
  drop_to 2 (snd (run cfg0 all_fixed (init cfg0) ex_full)) =
    [(1, 0, SConnStart); (1, 0, SConnTune); (1, 0, SConnOpenOk); (1, 1, SChannelOpenOk); (1, 1, SQDeclareOk "q" 0 0);
     (1, 1, SConsumeOk "t"); (1, 1, SDeliver "t" 1 false "" "q"); (1, 1, SHeader 7 3 false); (1, 1, SBody 7 3)] /\
  queues (fst (run cfg0 all_fixed (init cfg0) ex_full)) <> [] /\
  get_queue (fst (run cfg0 all_fixed (init cfg0) ex_full)) "evil" = None.
Proof. vm_compute. repeat split; discriminate. Qed.
(* what connection 2 got: start (4 times), tune, close + socket close - nothing else *)
Example C10_example_replies_to_unauthenticated :
  map snd (filter (to_conn 2) (snd (run cfg0 all_fixed (init cfg0) ex_full))) =
    [SConnStart; SConnClose 530 10 11; SConnGone; SConnStart; SConnGone; SConnStart; SConnTune; SConnClose 503 50 10; SConnGone;
     SConnStart; SConnTune].
Proof. vm_compute. reflexivity. Qed.
(* at the end connection 2 is in the handshake at stage tune-ok, with the record of a connection that has done nothing else *)
Example C10_example_stage :
  get_conn (fst (run cfg0 all_fixed (init cfg0) ex_full)) 2 = Some (rawrec StTuneOk) /\
  proj 2 [LMethod 2 0 (MStartOk true); LMethod 1 1 (MAck 1 false); LHeartbeat 2 0; LMethod 2 0 (MTuneOk true)] =
    [LMethod 2 0 (MStartOk true); LMethod 2 0 (MTuneOk true)].
Proof. vm_compute. split; reflexivity. Qed.

(* the right three steps, interleaved: connection 2 is opened (so (b) does not speak about this run), and still nothing
   else has changed and connection 1 has seen nothing of it *)
Definition ex_open : list label :=
  [LAccept 1] ++ three 1 ++
  [LMethod 1 1 MChannelOpen; LAccept 2; LMethod 1 1 (MQDeclare "q" false false false false false);
   LMethod 2 0 (MStartOk true); LMethod 1 1 (MConsume "q" "t" false false false); LMethod 2 0 (MTuneOk true);
   LQueueLoop "q"; LMethod 2 0 (MConnOpen true)].
Example C10_example_three_steps :
  conn_opened (fst (run cfg0 all_fixed (init cfg0) ex_open)) 2 = true /\
  proj 2 ex_open = three 2 /\
  world (fst (run cfg0 all_fixed (init cfg0) ex_open)) 2 = world (fst (run cfg0 all_fixed (init cfg0) (nf 2 ex_open))) 2 /\
  drop_to 2 (snd (run cfg0 all_fixed (init cfg0) ex_open)) = drop_to 2 (snd (run cfg0 all_fixed (init cfg0) (nf 2 ex_open))) /\
  map snd (filter (to_conn 2) (snd (run cfg0 all_fixed (init cfg0) ex_open))) = [SConnStart; SConnTune; SConnOpenOk].
Proof. vm_compute. repeat split. Qed.

(* the stage machine and the heartbeat: legal on channel 0, fatal elsewhere (LHeartbeat is not a client_label of
   Proofs/BrokerHandshake.v; frame_of covers it) *)
Example C10_heartbeat :
  get_conn (fst (run cfg0 all_fixed (init cfg0) [LAccept 2; LHeartbeat 2 0])) 2 = Some (rawrec StStart) /\
  get_conn (fst (run cfg0 all_fixed (init cfg0) [LAccept 2; LHeartbeat 2 1])) 2 = None.
Proof. vm_compute. split; reflexivity. Qed.

(* fx_stage is necessary: with the class/channel and stage checks off (the unrepaired broker) a connection that has
   sent nothing but the protocol header opens channel 0 and declares a queue *)
Definition no_stage_check : fixes :=
  {| fx_direct_all := true; fx_redelivered := true; fx_delete_checks_first := true; fx_noack_total_once := true;
     fx_get_count := true; fx_closeok_releases := true; fx_excl_owner := true; fx_clear_current := true; fx_not_impl := true;
     fx_empty_body := true; fx_discard_closing := true; fx_nowait := true; fx_stage := false; fx_reopen_resets := true; fx_chan_open := true |}.
Example C10_fx_stage_necessary :
  let s := fst (run cfg0 no_stage_check (init cfg0) [LAccept 2; LMethod 2 0 MChannelOpen; LMethod 2 0 (MQDeclare "evil" false false false false false)]) in
  conn_opened s 2 = false /\ get_queue s "evil" <> None.
Proof. vm_compute. split; [reflexivity|discriminate]. Qed.

(* connection ids are reused, so a confirm meta can name a connection that is now in the handshake: connection 1
   publishes in confirm mode and goes away; a new socket gets the id 1; the message still carries (1, 1, 1) *)
Example C10_stale_meta_exists :
  let s := fst (run cfg0 all_fixed (init cfg0)
                  [LConnect 1; LMethod 1 1 MChannelOpen; LMethod 1 1 (MConfirmSelect false); LMethod 1 1 (MPublish "" "q" false false);
                   LSocketLoss 1; LAccept 1]) in
  conn_opened s 1 = false /\ existsb (fun kv => match m_conf (snd kv) with Some (1, _, _) => true | _ => false end) (heap s) = true.
Proof. vm_compute. split; reflexivity. Qed.
