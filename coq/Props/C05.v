(* C05 - publisher confirms: exactly one, correctly numbered, never early.
   Only statements: each closed by `exact <lemma>` + Print Assumptions.
   The accounting of a message, event by event: numbering at publish; each push to an active queue contributes exactly
   one unit - counted at once or pending in the store; the store writes before it confirms and relays a message only
   with the unit that completes it; the publish loop acknowledges only with the unit that completes; a confirmation of
   a previous use of the channel number is dropped; the ticker writes one ack per queued number.
   PARTIAL: the composition over whole histories (every number of an instance acknowledged exactly once, none beyond
   the counter, nothing owed at quiescence) is evaluated by the monitor on every explored session; the store clause
   of "never early" is proved at store level in Props/C05_store.v. *)
From Coq Require Import List String NArith ZArith Bool.
From RecordUpdate Require Import RecordUpdate.
Import ListNotations.
From GMQ Require Import Broker.Model Proofs.BrokerFrames Proofs.BrokerTags Proofs.BrokerChanInv Proofs.BrokerReady
  Proofs.BrokerConfirm.
Open Scope N_scope.
From GMQ Require Import Broker.gen.BrokerGen.

Theorem C05_publish_takes_next_number :
  forall cfg fx s c h ex key mand ch s' evs,
    get_chan s c h = Some ch ->
    handle_method cfg fx s c h (MPublish ex key mand false) = (s', evs, None) ->
    exists m ch', get_msg s' (next_uid s) = Some m /\ get_chan s' c h = Some ch' /\
      ch_cur ch' = Some (next_uid s) /\ m_inst m = ch_inst ch /\ ch_inst ch' = ch_inst ch /\ m_actual m = 0%Z /\
      if ch_confirm ch then m_conf m = Some (c, h, ch_ctag ch + 1) /\ ch_ctag ch' = ch_ctag ch + 1
      else m_conf m = None /\ ch_ctag ch' = ch_ctag ch.
Proof. exact publish_numbers. Qed.
Print Assumptions C05_publish_takes_next_number.

Theorem C05_reopen_restarts_numbering :
  forall cfg fx s c h ch s' evs,
    fx_reopen_resets fx = true ->
    get_chan s c h = Some ch -> ch_status ch = ChClosed ->
    handle_method cfg fx s c h MChannelOpen = (s', evs, None) ->
    exists ch', get_chan s' c h = Some ch' /\ ch_status ch' = ChOpen /\ ch_ctag ch' = 0 /\ ch_confirm ch' = false /\
                ch_confirmq ch' = [] /\ ch_inst ch' = N.succ (ch_inst ch).
Proof. exact reopen_restarts_numbering. Qed.
Print Assumptions C05_reopen_restarts_numbering.

(* every push to an active queue contributes exactly one confirmation unit: pending in the store when the message
   is persistent and the queue durable, counted at once otherwise *)
Theorem C05_each_push_is_one_unit :
  forall s qn u qu m,
    get_queue s qn = Some qu -> q_active qu = true -> get_msg s u = Some m -> m_conf m <> None ->
    (counted (queue_push s qn u) u + Z.of_nat (pending (queue_push s qn u) u) = counted s u + Z.of_nat (pending s u) + 1)%Z /\
    (q_durable qu && m_pers m = true -> In (u, qn) (st_add (queue_push s qn u)) /\ counted (queue_push s qn u) u = counted s u) /\
    (q_durable qu && m_pers m = false -> pending (queue_push s qn u) u = pending s u /\ counted (queue_push s qn u) u = Z.succ (counted s u)).
Proof. exact queue_push_one_unit. Qed.
Print Assumptions C05_each_push_is_one_unit.

(* never early, queue clause: the publish loop queues the acknowledgement only with a push that counted itself and
   made the count complete *)
Theorem C05_push_acknowledges_only_on_completion :
  forall s c h u pers has_meta qn,
    let s1 := queue_push s qn u in
    push_one s c h u pers has_meta qn = s1 \/
    (exists m qu, get_msg s1 u = Some m /\ get_queue s qn = Some qu /\ q_active qu = true /\ q_durable qu && pers = false /\
                  m_actual m = m_expected m /\ push_one s c h u pers has_meta qn = add_confirm s1 c h (live_conf s1 m)).
Proof. exact push_one_confirms_only_when_complete. Qed.
Print Assumptions C05_push_acknowledges_only_on_completion.

(* never early, store clause: a store tick writes every pending add that was not cancelled before any confirmation
   of that tick can be relayed (the relay is a later label), and leaves nothing pending *)
Theorem C05_store_writes_before_confirming :
  forall cfg fx s,
    let s' := fst (step cfg fx s LPersistTick) in
    st_add s' = [] /\ st_del s' = [] /\
    (forall k, In k (st_add s) -> existsb (fun d => same_key d k) (st_del s) = false -> In k (st_db s')).
Proof. exact persist_writes_before_confirming. Qed.
Print Assumptions C05_store_writes_before_confirming.

(* the store's confirmation counts one unit and relays the message only when that unit completed it *)
Theorem C05_store_relays_only_on_completion :
  forall s u m,
    get_msg s u = Some m -> m_conf m <> None ->
    get_msg (store_confirm s u) u = Some (m <| m_actual ::= Z.succ |>) /\
    relay (store_confirm s u) = (if (Z.succ (m_actual m) =? m_expected m)%Z then relay s ++ [u] else relay s) /\
    conns (store_confirm s u) = conns s /\ queues (store_confirm s u) = queues s.
Proof. exact store_confirm_spec. Qed.
Print Assumptions C05_store_relays_only_on_completion.

Theorem C05_relay_hands_message_to_its_channel :
  forall cfg fx s u rest m c h t,
    relay s = u :: rest -> get_msg s u = Some m -> m_conf m = Some (c, h, t) ->
    fst (step cfg fx s LRelay) = add_confirm (s <| relay := rest |>) c h (live_conf (s <| relay := rest |>) m) /\
    snd (step cfg fx s LRelay) = [].
Proof. exact relay_hands_over. Qed.
Print Assumptions C05_relay_hands_message_to_its_channel.

(* unroutable messages are confirmed too, at once *)
Theorem C05_unroutable_confirmed :
  forall fx s c h u m,
    get_msg s u = Some m ->
    (alookup seqb (m_ex m) (exchanges s) = None \/
     exists ex, alookup seqb (m_ex m) (exchanges s) = Some ex /\ matched_queues (negb (fx_direct_all fx)) ex (m_key m) = []) ->
    fst (route_and_push fx s c h u) = add_confirm s c h (live_conf s m).
Proof. exact unroutable_confirmed. Qed.
Print Assumptions C05_unroutable_confirmed.

(* channel.addConfirm queues exactly the number, on an open confirm-mode channel; a number of a previous use of the
   channel number is never queued *)
Theorem C05_add_confirm_queues_the_number :
  forall s c h c0 h0 t ch,
    get_chan s c h = Some ch ->
    get_chan (add_confirm s c h (Some (c0, h0, t))) c h =
    Some (if ch_confirm ch && negb (match ch_status ch with ChClosed => true | _ => false end)
          then ch <| ch_confirmq ::= fun l => l ++ [t] |> else ch).
Proof. exact add_confirm_spec. Qed.
Print Assumptions C05_add_confirm_queues_the_number.

Theorem C05_stale_confirmation_dropped :
  forall s m c h t ch,
    m_conf m = Some (c, h, t) -> get_chan s c h = Some ch -> ch_inst ch <> m_inst m ->
    add_confirm s c h (live_conf s m) = s.
Proof. exact stale_confirmation_dropped. Qed.
Print Assumptions C05_stale_confirmation_dropped.

(* the ticker writes one basic.ack per queued number, in order, and empties the queue *)
Theorem C05_ticker_acks_each_queued_number_once :
  forall cfg fx s c h ch,
    get_chan s c h = Some ch -> ch_ticker ch = true -> ch_status ch <> ChClosed ->
    snd (step cfg fx s (LConfirmTick c h)) = map (fun t => (c, h, SAck t false)) (ch_confirmq ch) /\
    exists ch', get_chan (fst (step cfg fx s (LConfirmTick c h))) c h = Some ch' /\ ch_confirmq ch' = [] /\ ch_ctag ch' = ch_ctag ch.
Proof. exact confirm_tick_acks_queue. Qed.
Print Assumptions C05_ticker_acks_each_queued_number_once.

(* disciplines of the source that the model's atomic accounting stands on (translator/cmd/broker, every run): the count
   of confirmations is one critical section, addConfirm and the ticker's swap are under the confirm lock and the ticker
   leaves a fresh slice behind, a push is one critical section of the queue *)
Theorem C05_generated_confirm_discipline :
  confirm_count_is_critical_section = true /\ add_confirm_locked = true /\ confirm_ticker_takes_fresh_slice = true /\
  push_is_critical_section = true.
Proof. repeat split; reflexivity. Qed.
Print Assumptions C05_generated_confirm_discipline.
