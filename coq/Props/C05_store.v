(* C05, "never early", store clause: the storage confirm (relay) of a message is emitted only
   after a batch containing the Set of its key completed.  ONLY property statements.
   (Numbering, exactly-once and the queue-push clauses of C05 are the lead's.) *)
From Coq Require Import String List NArith Bool.
Import ListNotations.
From GMQ Require Import Store.KeyFmt Store.gen.OptsGen Store.KV Store.MsgStore Store.StoreSpec
  Proofs.StoreKVProofs Proofs.StoreKeyProofs Proofs.StoreMsgProofs.
Open Scope N_scope.

Theorem C05_generated_confirm_after_batch : persist_confirm_after_batch = true.
Proof. reflexivity. Qed.

(* every engine, persistent or transient store, confirm mode or not, every label sequence
   (persist split into swap / batch / confirm emission, ticks, kills, API calls in between) *)
Theorem C05_store_not_early : forall e p c ls evs1 k m evs2,
  snd (ms_run (ms_init e p c) ls) = evs1 ++ EvRelay k m :: evs2 ->
  existsb (batch_sets k) evs1 = true.
Proof. exact store_not_early. Qed.
Print Assumptions C05_store_not_early.

(* non-vacuity: a run that does emit a relay, with other work between batch and emission *)
Example C05_store_not_early_example :
  snd (ms_run (ms_init Badger true true) [MAdd (mk 100 1) qa; MPersistSwap; MPersistBatch; MAdd (mk 101 2) qa; MPersistConfirm]) =
  [EvBatch [BSet (msg_key qa 100) (strip (mk 100 1))]; EvRelay (msg_key qa 100) (mk 100 1)].
Proof. vm_compute. reflexivity. Qed.
