(* C05, "never early", store clause.  ONLY property statements.
   Refined clause (msgstorage.persist confirms, after ProcessBatch, every add it wrote AND every add that a del of
   the same key cancelled in the same flush window - `settled`; a relay is sent by the storage.confirm call whose
   ConfirmMeta.Confirm() completes the message):
     the storage confirm (relay) of key k is preceded, in the event sequence, by a completed batch that Sets k,
     OR by the snapshot of a persist in which the add of k was cancelled by a del of k - and such a snapshot only
     happens when k was Added and then either Del-requested or its queue purged by labels of the run (PurgeQueue
     cancels pending adds by a del of the same key): the message was already settled, nothing needs to be durable.
   (Numbering, exactly-once and the queue-push clauses of C05 are the lead's.) *)
From Coq Require Import String List NArith Bool.
Import ListNotations.
From GMQ Require Import Store.KeyFmt Store.gen.OptsGen Store.KV Store.MsgStore Store.StoreSpec
  Proofs.StoreKVProofs Proofs.StoreKeyProofs Proofs.StoreMsgProofs.
Open Scope N_scope.

Theorem C05_generated_confirm_shape :
  persist_confirm_after_batch = true /\ persist_confirm_guarded = true /\ persist_settled_confirmed = true /\ persist_confirm_counts = true.
Proof. repeat split; reflexivity. Qed.

(* every engine, persistent or transient store, confirm mode or not, every label sequence
   (persist split into swap / batch / confirm emission, ticks, kills, API calls in between) *)
Theorem C05_store_not_early : forall e p c ls evs1 k m evs2,
  snd (ms_run (ms_init e p c) ls) = evs1 ++ EvRelay k m :: evs2 ->
  existsb (batch_sets k) evs1 = true \/ existsb (cancelled_ev k) evs1 = true.
Proof. exact store_not_early. Qed.
Print Assumptions C05_store_not_early.

(* EvCancelled is a ghost event of the snapshot; it means what it says *)
Theorem C05_cancelled_means_added_and_deleted : forall e p c ls k,
  existsb (cancelled_ev k) (snd (ms_run (ms_init e p c) ls)) = true ->
  existsb (is_add_of k) ls = true /\ existsb (del_or_purge k) ls = true.
Proof. exact cancelled_means_settled. Qed.
Print Assumptions C05_cancelled_means_added_and_deleted.

(* a key that was never Del-requested and whose queue was never purged is relayed only after a completed batch Set it *)
Theorem C05_store_not_early_undeleted : forall e p c ls evs1 k m evs2,
  existsb (del_or_purge k) ls = false ->
  snd (ms_run (ms_init e p c) ls) = evs1 ++ EvRelay k m :: evs2 ->
  existsb (batch_sets k) evs1 = true.
Proof. exact store_not_early_undeleted. Qed.
Print Assumptions C05_store_not_early_undeleted.

(* non-vacuity: a relay after its batch (with other work between batch and emission), and a relay of a settled message *)
Example C05_store_not_early_example :
  snd (ms_run (ms_init Badger true true) [MAdd (mk 100 1) qa; MPersistSwap; MPersistBatch; MAdd (mk 101 2) qa; MPersistConfirm]) =
  [EvBatch [BSet (msg_key qa 100) (strip (mk 100 1))]; EvRelay (msg_key qa 100) (mk 100 1)].
Proof. vm_compute. reflexivity. Qed.

Example C05_store_settled_example :
  snd (ms_run (ms_init Badger true true) [MAdd (mk 100 1) qa; MDel (mk 100 1) qa; MPersistTick]) =
  [EvCancelled (msg_key qa 100); EvBatch []; EvRelay (msg_key qa 100) (mk 100 1)].
Proof. vm_compute. reflexivity. Qed.

(* ConfirmMeta.Confirm(): of two copies of one publish (one meta object, ExpectedConfirms = 2) written in one batch,
   exactly one is relayed *)
Example C05_store_one_relay_per_message :
  let m1 := {| m_id := 100; m_data := 1; m_ctag := Some 1; m_meta := 7; m_expected := 2 |} in
  length (filter (fun e => match e with EvRelay _ _ => true | _ => false end)
                 (snd (ms_run (ms_init Badger true true) [MAdd m1 qa; MAdd m1 (bs "b"); MPersistTick]))) = 1%nat.
Proof. vm_compute. reflexivity. Qed.
