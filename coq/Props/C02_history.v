(* C02 over whole histories - no phantom or duplicate deliveries: "a queue gives each message it holds to at most one
   consumer at a time and delivers it again only after that delivery was returned; a message that was acknowledged,
   rejected without requeue, purged or delivered in no-ack mode is never delivered again".
   Only statements: each closed by `exact <lemma>` + Print Assumptions.  The proofs are in Proofs/BrokerHolder.v.

   Queue OBJECTS are identified by their id (Proofs/BrokerHeld.v): held s qid = ready_of s qid ++ unacked_of s qid.
   [HI] is the inductive invariant (single holder + freshness of message ids and queue ids + the store holds no key twice).
   The only repair the proofs need is fx_clear_current (F37: the current message of a channel is cleared once it is routed);
   without it the invariant is false (Proofs/BrokerHolder.v: clear_current_needed). *)
From Coq Require Import List String NArith ZArith Bool.
Import ListNotations.
From GMQ Require Import Broker.Model Proofs.BrokerFrames Proofs.BrokerTags Proofs.BrokerChanInv Proofs.BrokerHeld Proofs.BrokerHolder.
Open Scope N_scope.

(* ---- the invariant: every label of the step function, restart included ---- *)
Theorem C02_holder_step :
  forall cfg fx s l, fx_clear_current fx = true -> CI s -> HI s -> HI (fst (step cfg fx s l)).
Proof. exact holder_step. Qed.
Print Assumptions C02_holder_step.

Theorem C02_holder_init : forall cfg, single_holder (init cfg).
Proof. exact holder_init. Qed.
Print Assumptions C02_holder_init.

(* in every reachable state, per queue object: every message id waits once or is out with exactly one consumer *)
Theorem C02_holder_reachable :
  forall cfg fx ls qid, fx_clear_current fx = true -> NoDup (held (fst (run cfg fx (init cfg) ls)) qid).
Proof. exact holder_reachable. Qed.
Print Assumptions C02_holder_reachable.

(* ... together with: ids of held messages below next_uid, messages mid-publish in no queue, queue ids distinct and below
   next_qid, no held message attributed to a queue id not yet allocated, the store's keys distinct and below next_uid *)
Theorem C02_invariant_reachable :
  forall cfg fx ls, fx_clear_current fx = true -> HI (fst (run cfg fx (init cfg) ls)).
Proof. exact HI_reachable. Qed.
Print Assumptions C02_invariant_reachable.

(* ---- deliveries ---- *)
(* a consumer turn that sends a delivery hands over a message that was waiting and that nobody held; afterwards it waits no
   more and (ack mode) exactly the delivery just made holds it *)
Theorem C02_delivery_takes_from_waiting :
  forall cfg fx s c h tag e,
    single_holder s -> In e (snd (step cfg fx s (LConsumerTurn c h tag))) -> is_delivery e = true ->
    let s' := fst (step cfg fx s (LConsumerTurn c h tag)) in
    exists qid u dtag noack fl ex key,
      e = (c, h, SDeliver tag dtag fl ex key) /\ delivered s s' c h qid u dtag noack /\
      In u (ready_of s qid) /\ ~ In u (unacked_of s qid) /\ ~ In u (ready_of s' qid) /\
      cnt u (unacked_of s' qid) = (if noack then 0 else 1)%nat /\
      (noack = false -> exists en, In en (U s' c h) /\ u_tag en = dtag /\ u_msg en = u /\ u_qid en = qid).
Proof. exact delivery_takes_from_waiting. Qed.
Print Assumptions C02_delivery_takes_from_waiting.

Theorem C02_delivery_takes_from_waiting_get :
  forall cfg fx s c h q noack e,
    single_holder s -> In e (snd (fst (handle_method cfg fx s c h (MGet q noack)))) -> is_delivery e = true ->
    let s' := fst (fst (handle_method cfg fx s c h (MGet q noack))) in
    exists qid u dtag fl ex key n,
      e = (c, h, SGetOk dtag fl ex key n) /\ delivered s s' c h qid u dtag noack /\
      In u (ready_of s qid) /\ ~ In u (unacked_of s qid) /\ ~ In u (ready_of s' qid) /\
      cnt u (unacked_of s' qid) = (if noack then 0 else 1)%nat /\
      (noack = false -> exists en, In en (U s' c h) /\ u_tag en = dtag /\ u_msg en = u /\ u_qid en = qid).
Proof. exact delivery_takes_from_waiting_get. Qed.
Print Assumptions C02_delivery_takes_from_waiting_get.

(* no other label sends a delivery frame *)
Theorem C02_only_turns_and_gets_deliver :
  forall cfg fx s l, delivering l = false -> forall e, In e (snd (step cfg fx s l)) -> is_delivery e = false.
Proof. exact only_turns_and_gets_deliver. Qed.
Print Assumptions C02_only_turns_and_gets_deliver.

(* every delivery frame of every step: the same facts *)
Theorem C02_step_delivery :
  forall cfg fx s l e,
    single_holder s -> In e (snd (step cfg fx s l)) -> is_delivery e = true ->
    let s' := fst (step cfg fx s l) in
    exists c h qid u dtag noack,
      fst e = (c, h) /\
      ((exists tg fl ex key, snd e = SDeliver tg dtag fl ex key) \/ (exists fl ex key n, snd e = SGetOk dtag fl ex key n)) /\
      delivered s s' c h qid u dtag noack /\
      In u (ready_of s qid) /\ ~ In u (unacked_of s qid) /\ ~ In u (ready_of s' qid) /\
      cnt u (unacked_of s' qid) = (if noack then 0 else 1)%nat /\
      (noack = false -> exists en, In en (U s' c h) /\ u_tag en = dtag /\ u_msg en = u /\ u_qid en = qid).
Proof. exact step_delivery. Qed.
Print Assumptions C02_step_delivery.

(* in a reachable state: a step that hands u of queue object qid to a consumer starts where u waits and nobody holds it -
   while a delivery of u from qid is outstanding there is no second one *)
Theorem C02_no_second_holder :
  forall cfg fx ls s' c h qid u dtag noack,
    fx_clear_current fx = true ->
    let s := fst (run cfg fx (init cfg) ls) in
    delivered s s' c h qid u dtag noack -> In u (ready_of s qid) /\ ~ In u (unacked_of s qid).
Proof. exact no_second_holder. Qed.
Print Assumptions C02_no_second_holder.

(* ---- settled messages ---- *)
(* the ways out of a queue object *)
Theorem C02_ack_settles :
  forall s c h e, single_holder s -> In e (U s c h) ->
    ~ In (u_msg e) (held (chan_ackmsg (upd_chan s c h (fun ch => del_unacked ch (u_tag e))) e) (u_qid e)).
Proof. exact ack_settles. Qed.
Print Assumptions C02_ack_settles.

Theorem C02_reject_without_requeue_settles :
  forall s c h e, single_holder s -> In e (U s c h) ->
    ~ In (u_msg e) (held (chan_rejectmsg (upd_chan s c h (fun ch => del_unacked ch (u_tag e))) e false) (u_qid e)).
Proof. exact reject_drop_settles. Qed.
Print Assumptions C02_reject_without_requeue_settles.

Theorem C02_noack_delivery_settles :
  forall s s' c h qid u dtag, single_holder s -> delivered s s' c h qid u dtag true -> ~ In u (held s' qid).
Proof. exact noack_delivery_settles. Qed.
Print Assumptions C02_noack_delivery_settles.

Theorem C02_purge_settles :
  forall cfg fx s c h q nowait qu u,
    single_holder s -> get_chan s c h <> None -> queue_found s q = Some qu -> locked qu c = false ->
    In u (q_ready qu) -> ~ In u (held (fst (fst (handle_method cfg fx s c h (MQPurge q nowait)))) (q_id qu)).
Proof. exact purge_settles. Qed.
Print Assumptions C02_purge_settles.

(* once out, never in again (whatever follows, short of a restart): a queue object takes a message in only at its publish *)
Theorem C02_settled_never_again :
  forall cfg fx ls0 ls1 ls2 qid u,
    fx_clear_current fx = true -> no_restart ls1 = true -> no_restart ls2 = true ->
    let s0 := fst (run cfg fx (init cfg) ls0) in
    let s1 := fst (run cfg fx s0 ls1) in
    let s2 := fst (run cfg fx s1 ls2) in
    In u (held s0 qid) -> ~ In u (held s1 qid) -> ~ In u (held s2 qid).
Proof. exact settled_never_again. Qed.
Print Assumptions C02_settled_never_again.

(* ---- restart ---- *)
(* exactly the flushed keys of the durable queues come back *)
Theorem C02_restart_held :
  forall cfg s qid u,
    In u (held (fst (restart cfg s)) qid) <->
    exists qn qu, In (qn, qu) (queues s) /\ q_durable qu = true /\ q_id qu = qid /\ In (u, qn) (st_db s).
Proof. exact restart_held. Qed.
Print Assumptions C02_restart_held.

(* partial: under the hypothesis that the flushed store is in step with the queues (not an invariant of the model: see
   restart_resurrects_acked and restart_ghost_in_redeclared_queue in Proofs/BrokerHolder.v) *)
Theorem C02_settled_never_again_restart_partial :
  forall cfg s qid u, store_in_step s -> ~ In u (held s qid) -> ~ In u (held (fst (restart cfg s)) qid).
Proof. exact settled_never_again_restart_partial. Qed.
Print Assumptions C02_settled_never_again_restart_partial.

(* Non-vacuity: two consumers on one queue, one message.  The first turn hands it to c1; c2's turn finds nothing (the message
   is out: held = [] ++ [1]); after nack-requeue it is handed to c2, flagged redelivered; after the ack nobody gets it again. *)
Example C02_history_example :
  let cfg := {| cfg_rabbit := true; cfg_rollback := true; cfg_release_first := false |} in
  let r1 := run cfg all_fixed (init cfg)
              [LConnect 1; LMethod 1 1 MChannelOpen; LMethod 1 1 (MQDeclare "a" false false false false false);
               LMethod 1 1 (MPublish "" "a" false false); LHeader 1 1 9 2 false; LBody 1 1 2;
               LMethod 1 1 (MConsume "a" "c1" false false false); LMethod 1 1 (MConsume "a" "c2" false false false);
               LConsumerTurn 1 1 "c1"; LConsumerTurn 1 1 "c2"] in
  let r2 := run cfg all_fixed (fst r1) [LMethod 1 1 (MNack 1 false true); LQueueLoop "a"; LConsumerTurn 1 1 "c2"] in
  let r3 := run cfg all_fixed (fst r2) [LMethod 1 1 (MAck 2 false); LQueueLoop "a"; LConsumerTurn 1 1 "c1"; LConsumerTurn 1 1 "c2"] in
  filter is_delivery (snd r1) = [(1, 1, SDeliver "c1" 1 false "" "a")] /\ ready_of (fst r1) 1 = [] /\ unacked_of (fst r1) 1 = [1] /\
  filter is_delivery (snd r2) = [(1, 1, SDeliver "c2" 2 true "" "a")] /\ ready_of (fst r2) 1 = [] /\ unacked_of (fst r2) 1 = [1] /\
  filter is_delivery (snd r3) = [] /\ held (fst r3) 1 = [].
Proof. vm_compute. repeat split; reflexivity. Qed.

(* a message enters a waiting list only at its publish or by the return of its outstanding delivery *)
Theorem C02_back_only_by_return :
  forall cfg fx s l qid x,
    is_restart l = false -> CI s -> HI s ->
    In x (ready_of (fst (step cfg fx s l)) qid) -> ~ In x (ready_of s qid) ->
    In x (unacked_of s qid) \/ In x (all_cur s) \/ next_uid s <= x.
Proof. exact back_only_by_return. Qed.
Print Assumptions C02_back_only_by_return.

Theorem C02_unacked_qid_allocated :
  forall s e, HI s -> In e (all_unacked s) -> u_qid e < next_qid s /\ u_msg e < next_uid s.
Proof. exact unacked_qid_allocated. Qed.
Print Assumptions C02_unacked_qid_allocated.
