(* C02 over whole histories - no phantom or duplicate deliveries: "a queue gives each message it holds to at most one
   consumer at a time and delivers it again only after that delivery was returned; a message that was acknowledged,
   rejected without requeue, purged or delivered in no-ack mode is never delivered again".
   Only statements: each closed by `exact <lemma>` + Print Assumptions.  The proofs are in Proofs/BrokerHolder.v.

   Queue OBJECTS are identified by their id (Proofs/BrokerHeld.v): held s qid = ready_of s qid ++ unacked_of s qid.
   [HI] is the inductive invariant (single holder + freshness of message ids and queue ids + the store holds no key twice, no key
   both written and pending + one queue object per name).
   The only repair the proofs need is fx_clear_current (F37: the current message of a channel is cleared once it is routed);
   without it the invariant is false (Proofs/BrokerHolder.v: clear_current_needed). *)
From Coq Require Import List String NArith ZArith Bool.
Import ListNotations.
From GMQ Require Import Broker.Model Proofs.BrokerFrames Proofs.BrokerTags Proofs.BrokerChanInv Proofs.BrokerHeld Proofs.BrokerHolder
  Proofs.BrokerDurable Proofs.BrokerSettled.
Open Scope N_scope.

(* ---- the invariant: every label of the step function, restart included ---- *)
Theorem C02_holder_step :
  forall cfg fx s l, fx_clear_current fx = true -> CI s -> HI s -> HI (fst (step cfg fx s l)).
Proof. exact holder_step. Qed.
Print Assumptions C02_holder_step.

Theorem C02_holder_init : forall cfg, single_holder (init cfg).
Proof. exact holder_init. Qed.
Print Assumptions C02_holder_init.

(* in every reachable state, per queue object: every message id waits once or is out with exactly one consumer *)
Theorem C02_holder_reachable :
  forall cfg fx ls qid, fx_clear_current fx = true -> NoDup (held (fst (run cfg fx (init cfg) ls)) qid).
Proof. exact holder_reachable. Qed.
Print Assumptions C02_holder_reachable.

(* ... together with: ids of held messages below next_uid, messages mid-publish in no queue, queue ids distinct and below
   next_qid, no held message attributed to a queue id not yet allocated, the store's keys distinct and below next_uid *)
Theorem C02_invariant_reachable :
  forall cfg fx ls, fx_clear_current fx = true -> HI (fst (run cfg fx (init cfg) ls)).
Proof. exact HI_reachable. Qed.
Print Assumptions C02_invariant_reachable.

(* ---- deliveries ---- *)
(* a consumer turn that sends a delivery hands over a message that was waiting and that nobody held; afterwards it waits no
   more and (ack mode) exactly the delivery just made holds it *)
Theorem C02_delivery_takes_from_waiting :
  forall cfg fx s c h tag e,
    single_holder s -> In e (snd (step cfg fx s (LConsumerTurn c h tag))) -> is_delivery e = true ->
    let s' := fst (step cfg fx s (LConsumerTurn c h tag)) in
    exists qid u dtag noack fl ex key,
      e = (c, h, SDeliver tag dtag fl ex key) /\ delivered s s' c h qid u dtag noack /\
      In u (ready_of s qid) /\ ~ In u (unacked_of s qid) /\ ~ In u (ready_of s' qid) /\
      cnt u (unacked_of s' qid) = (if noack then 0 else 1)%nat /\
      (noack = false -> exists en, In en (U s' c h) /\ u_tag en = dtag /\ u_msg en = u /\ u_qid en = qid).
Proof. exact delivery_takes_from_waiting. Qed.
Print Assumptions C02_delivery_takes_from_waiting.

Theorem C02_delivery_takes_from_waiting_get :
  forall cfg fx s c h q noack e,
    single_holder s -> In e (snd (fst (handle_method cfg fx s c h (MGet q noack)))) -> is_delivery e = true ->
    let s' := fst (fst (handle_method cfg fx s c h (MGet q noack))) in
    exists qid u dtag fl ex key n,
      e = (c, h, SGetOk dtag fl ex key n) /\ delivered s s' c h qid u dtag noack /\
      In u (ready_of s qid) /\ ~ In u (unacked_of s qid) /\ ~ In u (ready_of s' qid) /\
      cnt u (unacked_of s' qid) = (if noack then 0 else 1)%nat /\
      (noack = false -> exists en, In en (U s' c h) /\ u_tag en = dtag /\ u_msg en = u /\ u_qid en = qid).
Proof. exact delivery_takes_from_waiting_get. Qed.
Print Assumptions C02_delivery_takes_from_waiting_get.

(* no other label sends a delivery frame *)
Theorem C02_only_turns_and_gets_deliver :
  forall cfg fx s l, delivering l = false -> forall e, In e (snd (step cfg fx s l)) -> is_delivery e = false.
Proof. exact only_turns_and_gets_deliver. Qed.
Print Assumptions C02_only_turns_and_gets_deliver.

(* every delivery frame of every step: the same facts *)
Theorem C02_step_delivery :
  forall cfg fx s l e,
    single_holder s -> In e (snd (step cfg fx s l)) -> is_delivery e = true ->
    let s' := fst (step cfg fx s l) in
    exists c h qid u dtag noack,
      fst e = (c, h) /\
      ((exists tg fl ex key, snd e = SDeliver tg dtag fl ex key) \/ (exists fl ex key n, snd e = SGetOk dtag fl ex key n)) /\
      delivered s s' c h qid u dtag noack /\
      In u (ready_of s qid) /\ ~ In u (unacked_of s qid) /\ ~ In u (ready_of s' qid) /\
      cnt u (unacked_of s' qid) = (if noack then 0 else 1)%nat /\
      (noack = false -> exists en, In en (U s' c h) /\ u_tag en = dtag /\ u_msg en = u /\ u_qid en = qid).
Proof. exact step_delivery. Qed.
Print Assumptions C02_step_delivery.

(* in a reachable state: a step that hands u of queue object qid to a consumer starts where u waits and nobody holds it -
   while a delivery of u from qid is outstanding there is no second one *)
Theorem C02_no_second_holder :
  forall cfg fx ls s' c h qid u dtag noack,
    fx_clear_current fx = true ->
    let s := fst (run cfg fx (init cfg) ls) in
    delivered s s' c h qid u dtag noack -> In u (ready_of s qid) /\ ~ In u (unacked_of s qid).
Proof. exact no_second_holder. Qed.
Print Assumptions C02_no_second_holder.

(* ---- settled messages ---- *)
(* the ways out of a queue object *)
Theorem C02_ack_settles :
  forall s c h e, single_holder s -> In e (U s c h) ->
    ~ In (u_msg e) (held (chan_ackmsg (upd_chan s c h (fun ch => del_unacked ch (u_tag e))) e) (u_qid e)).
Proof. exact ack_settles. Qed.
Print Assumptions C02_ack_settles.

Theorem C02_reject_without_requeue_settles :
  forall s c h e, single_holder s -> In e (U s c h) ->
    ~ In (u_msg e) (held (chan_rejectmsg (upd_chan s c h (fun ch => del_unacked ch (u_tag e))) e false) (u_qid e)).
Proof. exact reject_drop_settles. Qed.
Print Assumptions C02_reject_without_requeue_settles.

Theorem C02_noack_delivery_settles :
  forall s s' c h qid u dtag, single_holder s -> delivered s s' c h qid u dtag true -> ~ In u (held s' qid).
Proof. exact noack_delivery_settles. Qed.
Print Assumptions C02_noack_delivery_settles.

Theorem C02_purge_settles :
  forall cfg fx s c h q nowait qu u,
    single_holder s -> get_chan s c h <> None -> queue_found s q = Some qu -> locked qu c = false ->
    In u (q_ready qu) -> ~ In u (held (fst (fst (handle_method cfg fx s c h (MQPurge q nowait)))) (q_id qu)).
Proof. exact purge_settles. Qed.
Print Assumptions C02_purge_settles.

(* once out, never in again (whatever follows, short of a restart): a queue object takes a message in only at its publish *)
Theorem C02_settled_never_again :
  forall cfg fx ls0 ls1 ls2 qid u,
    fx_clear_current fx = true -> no_restart ls1 = true -> no_restart ls2 = true ->
    let s0 := fst (run cfg fx (init cfg) ls0) in
    let s1 := fst (run cfg fx s0 ls1) in
    let s2 := fst (run cfg fx s1 ls2) in
    In u (held s0 qid) -> ~ In u (held s1 qid) -> ~ In u (held s2 qid).
Proof. exact settled_never_again. Qed.
Print Assumptions C02_settled_never_again.

(* ---- restart ---- *)
(* exactly the flushed keys of the durable queues come back *)
Theorem C02_restart_held :
  forall cfg s qid u,
    In u (held (fst (restart cfg s)) qid) <->
    exists qn qu, In (qn, qu) (queues s) /\ q_durable qu = true /\ q_id qu = qid /\ In (u, qn) (st_db s).
Proof. exact restart_held. Qed.
Print Assumptions C02_restart_held.

(* partial: a restart at ANY point (a kill included), under the hypothesis that the flushed store is in step with the queues
   - not an invariant: a kill with a delete pending brings an acknowledged message back (Proofs/BrokerHolder.v:
   kill_resurrects_acked).  For graceful restarts see below. *)
Theorem C02_settled_never_again_restart_partial :
  forall cfg s qid u, store_in_step s -> ~ In u (held s qid) -> ~ In u (held (fst (restart cfg s)) qid).
Proof. exact settled_never_again_restart_partial. Qed.
Print Assumptions C02_settled_never_again_restart_partial.

(* ---- graceful restarts ([LPersistTick; LRestart]: a graceful stop writes out what is pending) ---- *)
(* what the persist tick writes is the effective store *)
Theorem C02_tick_writes_effective_store :
  forall cfg fx s k, In k (st_db (fst (step cfg fx s LPersistTick))) -> eff s k.
Proof. exact tick_db_eff. Qed.
Print Assumptions C02_tick_writes_effective_store.

(* gone for good = published, allocated queue object does not hold it, its key is not in the effective store under the
   object's name; preserved by every label of a graceful run *)
Theorem C02_gone_for_good_run :
  forall cfg fx u qid ls prev s,
    fx_clear_current fx = true -> graceful_from prev ls = true -> (prev = true -> st_add s = [] /\ st_del s = []) ->
    CI s -> HI s -> gone_for_good u qid s -> gone_for_good u qid (fst (run cfg fx s ls)).
Proof. exact gone_for_good_run. Qed.
Print Assumptions C02_gone_for_good_run.

Theorem C02_settled_never_again_graceful :
  forall cfg fx ls0 ls2 qid u,
    fx_clear_current fx = true -> graceful ls2 = true ->
    let s1 := fst (run cfg fx (init cfg) ls0) in
    gone_for_good u qid s1 -> ~ In u (held (fst (run cfg fx s1 ls2)) qid).
Proof. exact settled_never_again_graceful. Qed.
Print Assumptions C02_settled_never_again_graceful.

(* how a settled message becomes gone for good *)
Theorem C02_gone_for_good_intro :
  forall u qid s0 s1,
    HI s0 -> In u (held s0 qid) -> GR s0 s1 -> ~ In u (held s1 qid) -> key_gone u qid s1 -> gone_for_good u qid s1.
Proof. exact gone_for_good_intro. Qed.
Print Assumptions C02_gone_for_good_intro.

(* Queue.AckMsg (ack, reject without requeue, no-ack delivery) of a persistent message of a durable queue (no key is at once
   written and pending: HI.hi_db_add) *)
Theorem C02_ackmsg_key_gone :
  forall s qn u qu m,
    HI s -> get_queue s qn = Some qu -> get_msg s u = Some m -> q_active qu = true -> q_durable qu && m_pers m = true ->
    key_gone u (q_id qu) (queue_ackmsg s qn u).
Proof. exact ackmsg_key_gone. Qed.
Print Assumptions C02_ackmsg_key_gone.

Theorem C02_ack_gone_for_good :
  forall s c h e qu m,
    HI s -> In e (U s c h) -> origin_queue s e = Some qu -> q_active qu = true -> get_msg s (u_msg e) = Some m ->
    q_durable qu && m_pers m = true ->
    gone_for_good (u_msg e) (u_qid e) (chan_ackmsg (upd_chan s c h (fun ch => del_unacked ch (u_tag e))) e).
Proof. exact ack_gone_for_good. Qed.
Print Assumptions C02_ack_gone_for_good.

(* queue.purge / queue deletion: every key of the queue leaves the effective store *)
Theorem C02_purge_key_gone :
  forall s qn qid u, HI s -> In (qn, qid) (nmv s) -> key_gone u qid (store_purge s qn).
Proof. exact purge_key_gone. Qed.
Print Assumptions C02_purge_key_gone.

(* the store invariant behind it: no key is at once written and pending, in every reachable state *)
Theorem C02_db_add_disjoint :
  forall cfg fx ls k, fx_clear_current fx = true ->
    In k (st_db (fst (run cfg fx (init cfg) ls))) -> ~ In k (st_add (fst (run cfg fx (init cfg) ls))).
Proof. intros cfg fx ls k Hfx. exact (hi_db_add _ (HI_reachable cfg fx ls Hfx) k). Qed.
Print Assumptions C02_db_add_disjoint.

(* ---- end to end, per label (persistent message of a durable queue; the frame arrives on an open channel of an open
   connection); every continuation in which each restart is preceded by the persist tick ---- *)
(* any label: u left the object in this step and its key is out of the effective store *)
Theorem C02_settled_by_step_never_again :
  forall cfg fx ls0 l ls2 qid u,
    fx_clear_current fx = true -> is_restart l = false -> graceful ls2 = true ->
    let s := fst (run cfg fx (init cfg) ls0) in
    let s' := fst (step cfg fx s l) in
    In u (held s qid) -> ~ In u (held s' qid) -> key_gone u qid s' -> ~ In u (held (fst (run cfg fx s' ls2)) qid).
Proof. exact settled_by_step_never_again. Qed.
Print Assumptions C02_settled_by_step_never_again.

Theorem C02_ack_never_again_graceful :
  forall cfg fx ls0 ls2 c h tag cn ch e qu m,
    fx_clear_current fx = true -> graceful ls2 = true ->
    let s := fst (run cfg fx (init cfg) ls0) in
    get_conn s c = Some cn -> cn_stage cn = StOpen -> get_chan s c h = Some ch -> ch_status ch = ChOpen -> h <> 0 ->
    find (fun u => u_tag u =? tag) (ch_unacked ch) = Some e -> origin_queue s e = Some qu -> q_active qu = true ->
    get_msg s (u_msg e) = Some m -> q_durable qu && m_pers m = true ->
    ~ In (u_msg e) (held (fst (run cfg fx (fst (step cfg fx s (LMethod c h (MAck tag false)))) ls2)) (u_qid e)).
Proof. exact ack_never_again_graceful. Qed.
Print Assumptions C02_ack_never_again_graceful.

Theorem C02_reject_never_again_graceful :
  forall cfg fx ls0 ls2 c h tag cn ch e qu m,
    fx_clear_current fx = true -> graceful ls2 = true ->
    let s := fst (run cfg fx (init cfg) ls0) in
    get_conn s c = Some cn -> cn_stage cn = StOpen -> get_chan s c h = Some ch -> ch_status ch = ChOpen -> h <> 0 ->
    find (fun u => u_tag u =? tag) (ch_unacked ch) = Some e -> origin_queue s e = Some qu -> q_active qu = true ->
    get_msg s (u_msg e) = Some m -> q_durable qu && m_pers m = true ->
    ~ In (u_msg e) (held (fst (run cfg fx (fst (step cfg fx s (LMethod c h (MReject tag false)))) ls2)) (u_qid e)) /\
    ~ In (u_msg e) (held (fst (run cfg fx (fst (step cfg fx s (LMethod c h (MNack tag false false)))) ls2)) (u_qid e)).
Proof. exact reject_never_again_graceful. Qed.
Print Assumptions C02_reject_never_again_graceful.

Theorem C02_purge_never_again_graceful :
  forall cfg fx ls0 ls2 c h q nowait cn ch qu u,
    fx_clear_current fx = true -> graceful ls2 = true ->
    let s := fst (run cfg fx (init cfg) ls0) in
    let s' := fst (step cfg fx s (LMethod c h (MQPurge q nowait))) in
    get_conn s c = Some cn -> cn_stage cn = StOpen -> get_chan s c h = Some ch -> ch_status ch = ChOpen -> h <> 0 ->
    queue_found s q = Some qu -> locked qu c = false -> q_durable qu = true ->
    In u (held s (q_id qu)) -> ~ In u (held s' (q_id qu)) ->
    ~ In u (held (fst (run cfg fx s' ls2)) (q_id qu)).
Proof. exact purge_never_again_graceful. Qed.
Print Assumptions C02_purge_never_again_graceful.

Theorem C02_delete_never_again_graceful :
  forall cfg fx ls0 ls2 c h q iu ie nowait cn ch qu n u,
    fx_clear_current fx = true -> graceful ls2 = true ->
    let s := fst (run cfg fx (init cfg) ls0) in
    let s' := fst (step cfg fx s (LMethod c h (MQDelete q iu ie nowait))) in
    get_conn s c = Some cn -> cn_stage cn = StOpen -> get_chan s c h = Some ch -> ch_status ch = ChOpen -> h <> 0 ->
    queue_found s q = Some qu -> locked qu c = false ->
    snd (vhost_delete_queue (negb (fx_delete_checks_first fx)) s q iu ie) = Some n ->
    In u (held s (q_id qu)) -> ~ In u (held s' (q_id qu)) ->
    ~ In u (held (fst (run cfg fx s' ls2)) (q_id qu)).
Proof. exact delete_never_again_graceful. Qed.
Print Assumptions C02_delete_never_again_graceful.

Theorem C02_noack_turn_never_again_graceful :
  forall cfg fx ls0 ls2 c h tag ch cm qu u rest m,
    fx_clear_current fx = true -> graceful ls2 = true ->
    let s := fst (run cfg fx (init cfg) ls0) in
    let s' := fst (step cfg fx s (LConsumerTurn c h tag)) in
    get_chan s c h = Some ch -> find_consumer ch tag = Some cm -> c_token cm = true -> c_status cm <> CStopped ->
    get_queue s (c_queue cm) = Some qu -> q_active qu = true -> q_ready qu = u :: rest -> c_noack cm = true ->
    get_msg s u = Some m -> q_durable qu && m_pers m = true ->
    In u (held s (q_id qu)) -> ~ In u (held s' (q_id qu)) ->
    ~ In u (held (fst (run cfg fx s' ls2)) (q_id qu)).
Proof. exact noack_turn_never_again_graceful. Qed.
Print Assumptions C02_noack_turn_never_again_graceful.

Theorem C02_noack_get_never_again_graceful :
  forall cfg fx ls0 ls2 c h q cn ch qu u rest m,
    fx_clear_current fx = true -> fx_noack_total_once fx = true -> graceful ls2 = true ->
    let s := fst (run cfg fx (init cfg) ls0) in
    let s' := fst (step cfg fx s (LMethod c h (MGet q true))) in
    get_conn s c = Some cn -> cn_stage cn = StOpen -> get_chan s c h = Some ch -> ch_status ch = ChOpen -> h <> 0 ->
    queue_found s q = Some qu -> fx_excl_owner fx && locked qu c = false -> q_ready qu = u :: rest ->
    get_msg s u = Some m -> q_durable qu && m_pers m = true ->
    In u (held s (q_id qu)) -> ~ In u (held s' (q_id qu)) ->
    ~ In u (held (fst (run cfg fx s' ls2)) (q_id qu)).
Proof. exact noack_get_never_again_graceful. Qed.
Print Assumptions C02_noack_get_never_again_graceful.

(* ---- THE END-TO-END THEOREM (Proofs/BrokerSettled.v): all messages, all ways of settling ---- *)
(* the invariant behind it, the converse of store completeness: in every state reached by a graceful run every key of the
   effective store belongs to a live durable queue, names a persistent message, and that queue object holds the message *)
Theorem C02_store_sound_reachable :
  forall cfg fx ls, Fixed fx -> graceful ls = true ->
    forall u qn, eff (fst (run cfg fx (init cfg) ls)) (u, qn) ->
      exists qid, In (qn, qid) (nmv (fst (run cfg fx (init cfg) ls))) /\ durb (fst (run cfg fx (init cfg) ls)) qn = true /\
                  persb (fst (run cfg fx (init cfg) ls)) u = true /\ In u (held (fst (run cfg fx (init cfg) ls)) qid).
Proof. exact store_sound_reachable. Qed.
Print Assumptions C02_store_sound_reachable.

(* in a state reached by a graceful run: a published message (id allocated, not being assembled) that the queue object qid (an id
   that was allocated: an existing or a past object) does not hold is never held by it in any graceful continuation *)
Theorem C02_settled_is_never_held_again :
  forall cfg fx ls1 ls2 qid u,
    Fixed fx -> graceful (ls1 ++ ls2) = true ->
    let s1 := fst (run cfg fx (init cfg) ls1) in
    u < next_uid s1 -> ~ In u (all_cur s1) -> qid < next_qid s1 ->
    ~ In u (held s1 qid) -> ~ In u (held (fst (run cfg fx s1 ls2)) qid).
Proof. exact settled_is_never_held_again. Qed.
Print Assumptions C02_settled_is_never_held_again.

(* ... in the form of C02_settled_never_again: held once, held no more, never held again - now across graceful restarts *)
Theorem C02_settled_never_again_graceful_all :
  forall cfg fx ls0 ls1 ls2 qid u,
    Fixed fx -> graceful (ls0 ++ ls1 ++ ls2) = true ->
    let s0 := fst (run cfg fx (init cfg) ls0) in
    let s1 := fst (run cfg fx s0 ls1) in
    In u (held s0 qid) -> ~ In u (held s1 qid) -> ~ In u (held (fst (run cfg fx s1 ls2)) qid).
Proof. exact settled_never_again_graceful_all. Qed.
Print Assumptions C02_settled_never_again_graceful_all.

Theorem C02_all_fixed_is_fixed : Fixed all_fixed.
Proof. exact Fixed_all_fixed. Qed.
Print Assumptions C02_all_fixed_is_fixed.

(* Non-vacuity: two consumers on one queue, one message.  The first turn hands it to c1; c2's turn finds nothing (the message
   is out: held = [] ++ [1]); after nack-requeue it is handed to c2, flagged redelivered; after the ack nobody gets it again. *)
Example C02_history_example :
  let cfg := {| cfg_rabbit := true; cfg_rollback := true; cfg_release_first := false |} in
  let r1 := run cfg all_fixed (init cfg)
              [LConnect 1; LMethod 1 1 MChannelOpen; LMethod 1 1 (MQDeclare "a" false false false false false);
               LMethod 1 1 (MPublish "" "a" false false); LHeader 1 1 9 2 false; LBody 1 1 2;
               LMethod 1 1 (MConsume "a" "c1" false false false); LMethod 1 1 (MConsume "a" "c2" false false false);
               LConsumerTurn 1 1 "c1"; LConsumerTurn 1 1 "c2"] in
  let r2 := run cfg all_fixed (fst r1) [LMethod 1 1 (MNack 1 false true); LQueueLoop "a"; LConsumerTurn 1 1 "c2"] in
  let r3 := run cfg all_fixed (fst r2) [LMethod 1 1 (MAck 2 false); LQueueLoop "a"; LConsumerTurn 1 1 "c1"; LConsumerTurn 1 1 "c2"] in
  filter is_delivery (snd r1) = [(1, 1, SDeliver "c1" 1 false "" "a")] /\ ready_of (fst r1) 1 = [] /\ unacked_of (fst r1) 1 = [1] /\
  filter is_delivery (snd r2) = [(1, 1, SDeliver "c2" 2 true "" "a")] /\ ready_of (fst r2) 1 = [] /\ unacked_of (fst r2) 1 = [1] /\
  filter is_delivery (snd r3) = [] /\ held (fst r3) 1 = [].
Proof. vm_compute. repeat split; reflexivity. Qed.

(* a message enters a waiting list only at its publish or by the return of its outstanding delivery *)
Theorem C02_back_only_by_return :
  forall cfg fx s l qid x,
    is_restart l = false -> CI s -> HI s ->
    In x (ready_of (fst (step cfg fx s l)) qid) -> ~ In x (ready_of s qid) ->
    In x (unacked_of s qid) \/ In x (all_cur s) \/ next_uid s <= x.
Proof. exact back_only_by_return. Qed.
Print Assumptions C02_back_only_by_return.

Theorem C02_unacked_qid_allocated :
  forall s e, HI s -> In e (all_unacked s) -> u_qid e < next_qid s /\ u_msg e < next_uid s.
Proof. exact unacked_qid_allocated. Qed.
Print Assumptions C02_unacked_qid_allocated.
