(* C18 - every synchronous request gets exactly one correct reply.
   Only statements: each closed by `exact <lemma>` + Print Assumptions. *)
From Coq Require Import List String NArith ZArith Bool.
Import ListNotations.
From RecordUpdate Require Import RecordUpdate.
From GMQ Require Import Broker.Model Proofs.BrokerFrames Proofs.BrokerRefusal Proofs.BrokerReplies.
Open Scope N_scope.

(* For EVERY method of the catalogue, in ANY state: if the handler accepts it, the reply frames it emits are exactly
   one frame of the method's -ok kind on the request's own channel (basic.get: get-ok or get-empty) - or none when the
   request is flagged no-wait or has no reply (publish, ack, nack, reject, close-ok); deliveries, content frames and the
   basic.cancel sent to other consumers are not replies.  If it refuses it, it emits nothing ... *)
Theorem C18_exactly_one_reply :
  forall cfg fx s c h m s' evs e,
    fx_nowait fx = true -> get_chan s c h <> None ->
    handle_method cfg fx s c h m = (s', evs, e) ->
    match e with
    | Some _ => evs = []
    | None => replies evs = map (fun k => (c, h, k)) (expected m) \/
              (exists q noack, m = MGet q noack /\ replies evs = [(c, h, KGetEmpty)])
    end.
Proof. exact one_reply. Qed.
Print Assumptions C18_exactly_one_reply.

(* ... and the error path then emits exactly one close frame naming the failing class and method
   (channel.close on that channel, or connection.close on channel 0). *)
Theorem C18_refusal_is_one_close :
  forall s c h e,
    let '(s', evs) := send_error s c h e in
    match e with
    | ChanErr code cls mth =>
        evs = [(c, h, SChannelClose code cls mth)] /\
        s' = upd_chan s c h (fun ch => set ch_status (fun _ => ChClosing) ch)
    | ConnErr code cls mth => evs = [(c, 0, SConnClose code cls mth)] /\ s' = s
    end.
Proof. exact send_error_scope. Qed.
Print Assumptions C18_refusal_is_one_close.

Theorem C18_close_names_the_method :
  forall cfg fx s c h m s' evs code cls mth,
    handle_method cfg fx s c h m = (s', evs, Some (ChanErr code cls mth)) -> (cls, mth) = meth_ids m.
Proof. exact chan_error_names_method. Qed.
Print Assumptions C18_close_names_the_method.

(* methods the broker does not support are refused with NOT_IMPLEMENTED, not ignored *)
Theorem C18_unsupported_methods_refused :
  forall cfg fx s c h,
    fx_not_impl fx = true -> get_chan s c h <> None ->
    handle_method cfg fx s c h MTxSelect = (s, [], Some (ConnErr NotImplemented 90 10)) /\
    (forall r, handle_method cfg fx s c h (MRecover r) = (s, [], Some (ConnErr NotImplemented 60 110))) /\
    (forall n iu nw, handle_method cfg fx s c h (MExDelete n iu nw) = (s, [], Some (ChanErr NotImplemented 40 20))).
Proof. exact unsupported_refused. Qed.
Print Assumptions C18_unsupported_methods_refused.

(* replies come in request order: the replies of a whole run are the replies of its steps, in step order *)
Theorem C18_replies_in_request_order :
  forall cfg fx ls s,
    replies (snd (run cfg fx s ls)) =
    flat_map (fun x => x) ((fix go s ls := match ls with [] => [] | l :: t => replies (snd (step cfg fx s l)) :: go (fst (step cfg fx s l)) t end) s ls).
Proof. exact replies_in_request_order. Qed.
Print Assumptions C18_replies_in_request_order.

(* Non-vacuity: a pipelined script; one reply per synchronous request, none for no-wait / publish / ack. *)
Example C18_example :
  let cfg := {| cfg_rabbit := true; cfg_rollback := true; cfg_release_first := false |} in
  replies (snd (run cfg all_fixed (init cfg)
     [LConnect 1; LMethod 1 1 MChannelOpen; LMethod 1 1 (MQDeclare "q" false false false false false);
      LMethod 1 1 (MQDeclare "q2" false false false false true);
      LMethod 1 1 (MPublish "" "q" false false); LHeader 1 1 5 0 false;
      LMethod 1 1 (MGet "q" false); LMethod 1 1 (MAck 1 false); LMethod 1 1 (MGet "q" true); LMethod 1 1 (MQPurge "q" false);
      LMethod 1 1 (MQDelete "q2" false false false); LMethod 1 1 MTxSelect]))
  = [(1, 1, KChannelOpenOk); (1, 1, KQDeclareOk); (1, 1, KGetOk); (1, 1, KGetEmpty); (1, 1, KPurgeOk); (1, 1, KDeleteOk)].
Proof. vm_compute. reflexivity. Qed.
