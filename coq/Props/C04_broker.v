(* C04 at broker level - a persistent message on a durable queue that the broker has confirmed survives a kill of the
   broker at any later instant, until it is acknowledged, rejected without requeue, delivered in no-ack mode, purged or
   its queue deleted.  (The message store itself - key format, batches, kills between any two writes of a flush - is
   Props/C04.v; what a restart reads back is Props/C09_broker.v.)
   Only statements: each closed by `exact <lemma>` + Print Assumptions.  The lemmas are in Proofs/BrokerDurable.v.

   held s qid                the messages the queue object qid holds: waiting ++ delivered and unsettled (Proofs/BrokerHeld.v)
   store_complete s          every persistent message held by a durable queue object has its key (id, queue name) in the
                             store - flushed (st_db) or pending (st_add) - and no delete of the key is pending (st_del)
   DF s                      pending deletes name published messages only (auxiliary)
   HI, CI                    the single-holder invariant (C02, Proofs/BrokerHolder.v), the channel invariant (C15)

   Hypotheses (each is necessary: see the examples at the end):
     fx_clear_current        F37 repaired (otherwise an empty body frame routes the message a second time);
     fresh_along             connection ids are not used twice (needed by C05_confirm_never_early only);
     no_purge_while_unsettled / purge_ok
                             no queue.purge hits a durable queue while a persistent delivery of that queue is unsettled:
                             OPEN FINDING F41-unsettled - PurgeQueue deletes the keys of the unsettled deliveries too
                             (the C04_F41_unsettled examples). *)
From Coq Require Import List String NArith ZArith Bool Sorted.
Import ListNotations.
From GMQ Require Import Broker.Model Proofs.BrokerChanInv Proofs.BrokerHeld Proofs.BrokerHolder Proofs.BrokerDurable.
From GMQ Require Proofs.BrokerConfirmHist.
Open Scope string_scope.
Open Scope N_scope.
Open Scope list_scope.

(* STORE COMPLETENESS is an invariant: true initially, ... *)
Theorem C04_store_complete_initially : forall cfg, store_complete (init cfg).
Proof. exact store_complete_init. Qed.
Print Assumptions C04_store_complete_initially.

(* ... kept by EVERY label - client frames, goroutine turns, the store tick in any interleaving with publishes,
   deliveries and settles, socket losses, and LRestart (graceful or a kill) - except the excluded purge, ... *)
Theorem C04_store_complete_every_label :
  forall cfg fx s l,
    fx_clear_current fx = true -> CI s -> HI s -> DF s -> store_complete s -> purge_ok s l = true ->
    store_complete (fst (step cfg fx s l)) /\ DF (fst (step cfg fx s l)).
Proof. exact store_complete_step. Qed.
Print Assumptions C04_store_complete_every_label.

(* ... re-established by a restart from ANY state with one holder per message (after a restart a queue holds exactly its
   flushed keys, nothing is pending), ... *)
Theorem C04_store_complete_after_restart : forall cfg s, HI s -> store_complete (fst (restart cfg s)).
Proof. exact store_complete_restart. Qed.
Print Assumptions C04_store_complete_after_restart.

(* ... hence true of every reachable state *)
Theorem C04_store_complete_in_every_reachable_state :
  forall cfg fx ls,
    fx_clear_current fx = true -> no_purge_while_unsettled cfg fx (init cfg) ls = true ->
    store_complete (fst (run cfg fx (init cfg) ls)).
Proof. exact store_complete_reachable. Qed.
Print Assumptions C04_store_complete_in_every_reachable_state.

(* the executable form of the invariant used by the examples is sound *)
Theorem C04_store_complete_check_sound : forall s, store_completeb s = true -> store_complete s.
Proof. exact store_completeb_ok. Qed.
Print Assumptions C04_store_complete_check_sound.

(* CONFIRMED MEANS STORED: when the broker writes basic.ack t on channel (c,h), the message carrying that number has no
   add pending under any queue name, and in every durable queue object that still holds it (it is persistent) its key is
   in the FLUSHED store, with no delete pending *)
Theorem C04_confirmed_is_stored :
  forall cfg fx ls l c h t b,
    fx_clear_current fx = true -> BrokerConfirmHist.fresh_along cfg fx (init cfg) ls ->
    no_purge_while_unsettled cfg fx (init cfg) ls = true ->
    let s := fst (run cfg fx (init cfg) ls) in
    In (c, h, SAck t b) (snd (step cfg fx s l)) ->
    l = LConfirmTick c h /\
    exists ch u m, get_chan s c h = Some ch /\ get_msg s u = Some m /\ m_conf m = Some (c, h, t) /\ m_inst m = ch_inst ch /\
      (forall qn, ~ In (u, qn) (st_add s)) /\
      forall qn qu, get_queue s qn = Some qu -> q_durable qu = true -> m_pers m = true -> In u (held s (q_id qu)) ->
        In (u, qn) (st_db s) /\ ~ In (u, qn) (st_del s).
Proof. exact confirmed_is_stored. Qed.
Print Assumptions C04_confirmed_is_stored.

(* A FLUSHED KEY STAYS until the message is settled or purged: any label (other than the excluded purge; LRestart
   included) after which the durable queue object of that name still holds the message leaves the key flushed, with no
   add and no delete pending.  (A settle removes the message from `held` in the step that records the delete; the tick
   deletes only keys with a pending delete.) *)
Theorem C04_stored_key_stays :
  forall cfg fx s l qn qu u m,
    fx_clear_current fx = true -> CI s -> J None s -> purge_ok s l = true ->
    get_queue s qn = Some qu -> get_msg s u = Some m -> m_pers m = true ->
    In (u, qn) (st_db s) -> In u (held s (q_id qu)) ->
    let s' := fst (step cfg fx s l) in
    forall qu', get_queue s' qn = Some qu' -> q_durable qu' = true -> In u (held s' (q_id qu')) ->
      In (u, qn) (st_db s') /\ ~ In (u, qn) (st_add s') /\ ~ In (u, qn) (st_del s').
Proof. exact stored_stays. Qed.
Print Assumptions C04_stored_key_stays.

(* (J None s is HI s /\ SC s /\ DF s; it holds in every reachable state) *)
Theorem C04_invariant_in_every_reachable_state :
  forall cfg fx ls,
    fx_clear_current fx = true -> no_purge_while_unsettled cfg fx (init cfg) ls = true -> J None (fst (run cfg fx (init cfg) ls)).
Proof. exact J_reachable. Qed.
Print Assumptions C04_invariant_in_every_reachable_state.

(* SURVIVES A KILL AT ANY LATER INSTANT.  s1: any reachable state in which persistent message u is held by some queue
   object and has no add pending under queue name qn.  Whatever happens next - ls2: ANY labels in any interleaving, kills
   and restarts included - if the durable queue object named qn holds u at the end (u was not acknowledged, rejected
   without requeue, delivered in no-ack mode, purged, its queue not deleted - any of these takes it out of `held` for
   good: C02), then its key is flushed, and a kill at that instant (LRestart with no tick first) brings it back: in the
   queue of that name and id, exactly once, the queue in ascending id order *)
Theorem C04_flushed_survives_kill :
  forall cfg fx ls1 ls2 u qid0 qn,
    fx_clear_current fx = true ->
    no_purge_while_unsettled cfg fx (init cfg) (ls1 ++ ls2) = true ->
    let s1 := fst (run cfg fx (init cfg) ls1) in
    In u (held s1 qid0) -> ~ In (u, qn) (st_add s1) -> persb s1 u = true ->
    let s2 := fst (run cfg fx s1 ls2) in
    forall qu, get_queue s2 qn = Some qu -> q_durable qu = true -> In u (held s2 (q_id qu)) ->
      (In (u, qn) (st_db s2) /\ ~ In (u, qn) (st_add s2) /\ ~ In (u, qn) (st_del s2)) /\
      let s3 := fst (step cfg fx s2 LRestart) in
      exists qu', get_queue s3 qn = Some qu' /\ q_id qu' = q_id qu /\ q_durable qu' = true /\
        In u (q_ready qu') /\ NoDup (q_ready qu') /\ StronglySorted N.le (q_ready qu') /\
        In u (held s3 (q_id qu)) /\ NoDup (held s3 (q_id qu)) /\ In (u, qn) (st_db s3) /\ st_add s3 = [] /\ st_del s3 = [].
Proof. exact flushed_survives_kill. Qed.
Print Assumptions C04_flushed_survives_kill.

(* ... in particular from the instant its basic.ack is written: for the message carrying the acknowledged number, for
   every durable destination queue that holds it at the kill point *)
Theorem C04_confirmed_survives_kill :
  forall cfg fx ls1 ls2 l c h t b,
    fx_clear_current fx = true -> BrokerConfirmHist.fresh_along cfg fx (init cfg) ls1 ->
    no_purge_while_unsettled cfg fx (init cfg) (ls1 ++ l :: ls2) = true ->
    let s1 := fst (run cfg fx (init cfg) ls1) in
    In (c, h, SAck t b) (snd (step cfg fx s1 l)) ->
    l = LConfirmTick c h /\
    exists ch u m, get_chan s1 c h = Some ch /\ get_msg s1 u = Some m /\ m_conf m = Some (c, h, t) /\ m_inst m = ch_inst ch /\
      forall qid0, In u (held s1 qid0) -> m_pers m = true ->
      let s2 := fst (run cfg fx s1 (l :: ls2)) in
      forall qn qu, get_queue s2 qn = Some qu -> q_durable qu = true -> In u (held s2 (q_id qu)) ->
        (In (u, qn) (st_db s2) /\ ~ In (u, qn) (st_add s2) /\ ~ In (u, qn) (st_del s2)) /\
        let s3 := fst (step cfg fx s2 LRestart) in
        exists qu', get_queue s3 qn = Some qu' /\ q_id qu' = q_id qu /\ q_durable qu' = true /\
          In u (q_ready qu') /\ NoDup (q_ready qu') /\ StronglySorted N.le (q_ready qu') /\
          In u (held s3 (q_id qu)) /\ NoDup (held s3 (q_id qu)) /\ In (u, qn) (st_db s3) /\ st_add s3 = [] /\ st_del s3 = [].
Proof. exact confirmed_survives_kill. Qed.
Print Assumptions C04_confirmed_survives_kill.

(* ------------------------------------------------------------------ *)
(* examples (vm_compute).  ex_setup: connection 1, channel 1 in confirm mode; durable queues d1 d2 and transient queue t1
   bound to amq.fanout.  ex_flush: store tick, relay, confirm tick. *)
Definition R (ls : list label) : state := fst (run ex_cfg all_fixed (init ex_cfg) ls).
Definition hyps (ls : list label) : bool * bool * bool :=
  (BrokerConfirmHist.fresh_alongb ex_cfg all_fixed (init ex_cfg) ls, no_purge_while_unsettled ex_cfg all_fixed (init ex_cfg) ls,
   store_complete_alongb ex_cfg all_fixed (init ex_cfg) ls).

(* non-vacuity: a persistent message, fanned out to d1 d2 t1, flushed and confirmed, then delivered from d1 (unsettled);
   the broker is killed: the message is back in d1 and d2 (not in the transient queue, which is gone); every hypothesis
   of the theorems holds along the run *)
Example C04_confirmed_delivered_killed_comes_back :
  let ls := ex_setup ++ ex_pub 1 1 "amq.fanout" "" 1 true ++ ex_flush ++ [LMethod 1 1 (MGet "d1" false)] in
  hyps (ls ++ [LRestart]) = (true, true, true) /\ ex_acks ls = [(1, 1, SAck 1 false)] /\
  unacked_of (R ls) 1 = [1] /\ ex_ready (R ls) "d1" = [] /\
  ex_ready (R (ls ++ [LRestart])) "d1" = [1] /\ ex_ready (R (ls ++ [LRestart])) "d2" = [1] /\ get_queue (R (ls ++ [LRestart])) "t1" = None.
Proof. vm_compute. repeat split; reflexivity. Qed.

(* the same with the kill BEFORE the store tick: no basic.ack was written, and the message is lost - legitimately *)
Example C04_killed_before_the_tick_not_confirmed_lost :
  let ls := ex_setup ++ ex_pub 1 1 "amq.fanout" "" 1 true ++ [LMethod 1 1 (MGet "d1" false)] in
  hyps (ls ++ [LRestart]) = (true, true, true) /\ ex_acks ls = [] /\ st_add (R ls) = [(1, "d1"); (1, "d2")] /\
  ex_ready (R (ls ++ [LRestart])) "d1" = [] /\ ex_ready (R (ls ++ [LRestart])) "d2" = [].
Proof. vm_compute. repeat split; reflexivity. Qed.

(* all interleavings are covered; some of them: requeue before the tick; acknowledged before the tick (gone for good);
   a purge with nothing unsettled, then another publish; queue deleted and declared again under the same name while a
   delivery of the old object is out; channel closed with unsettled deliveries, reopened, socket lost; graceful restart,
   then more traffic, a kill, a graceful restart; a no-ack consumer *)
Example C04_more_interleavings :
  forallb (fun ls => let '(a, b, c) := hyps ls in a && b && c)
    [ ex_setup ++ ex_pub 1 1 "amq.fanout" "" 1 true ++ [LMethod 1 1 (MGet "d1" false); LMethod 1 1 (MReject 1 true)] ++ ex_flush ++ [LRestart];
      ex_setup ++ ex_pub 1 1 "amq.fanout" "" 1 true ++ [LMethod 1 1 (MGet "d1" false); LMethod 1 1 (MAck 1 false)] ++ ex_flush ++ [LRestart];
      ex_setup ++ ex_pub 1 1 "amq.fanout" "" 1 true ++ [LMethod 1 1 (MQPurge "d1" false)] ++ ex_pub 1 1 "amq.fanout" "" 2 true ++ ex_flush ++ ex_flush ++ [LRestart];
      ex_setup ++ ex_pub 1 1 "amq.fanout" "" 1 true ++
        [LMethod 1 1 (MGet "d1" false); LMethod 1 1 (MQDelete "d1" false false false); LMethod 1 1 (MQDeclare "d1" true false false false false);
         LMethod 1 1 (MQBind "d1" "amq.fanout" "" [] false)] ++ ex_pub 1 1 "amq.fanout" "" 2 true ++ [LMethod 1 1 (MReject 1 true)] ++ ex_flush ++ ex_flush ++ [LRestart];
      ex_setup ++ ex_pub 1 1 "amq.fanout" "" 1 true ++
        [LMethod 1 1 (MGet "d1" false); LMethod 1 1 (MGet "d2" false); LMethod 1 1 MChannelClose; LMethod 1 1 MChannelOpen; LMethod 1 1 (MGet "d1" false); LSocketLoss 1] ++ ex_flush ++ [LRestart];
      ex_setup ++ ex_pub 1 1 "amq.fanout" "" 1 true ++
        [LPersistTick; LRestart; LConnect 2; LMethod 2 1 MChannelOpen; LMethod 2 1 (MGet "d1" false); LMethod 2 1 (MAck 1 false); LRestart; LPersistTick; LRestart];
      ex_setup ++ ex_pub 1 1 "amq.fanout" "" 1 true ++ [LMethod 1 1 (MConsume "d1" "c" true false false); LConsumerTurn 1 1 "c"] ++ ex_flush ++ [LRestart] ] = true.
Proof. vm_compute. reflexivity. Qed.

(* OPEN FINDING F41-unsettled: the hypothesis no_purge_while_unsettled cannot be dropped.  Confirmed, delivered from d1
   (unsettled), queue.purge d1 (which deletes the key of the unsettled delivery), kill: the confirmed message, never
   settled, is not in d1 after the restart *)
Example C04_F41_unsettled_get_purge_kill_loses_a_confirmed_message :
  let ls := ex_setup ++ ex_pub 1 1 "amq.fanout" "" 1 true ++ ex_flush ++ [LMethod 1 1 (MGet "d1" false); LMethod 1 1 (MQPurge "d1" false)] in
  hyps ls = (true, false, false) /\ ex_acks ls = [(1, 1, SAck 1 false)] /\
  unacked_of (R ls) 1 = [1] /\ st_db (R ls) = [(1, "d2")] /\
  ex_ready (R (ls ++ [LRestart])) "d1" = [] /\ ex_ready (R (ls ++ [LRestart])) "d2" = [1].
Proof. vm_compute. repeat split; reflexivity. Qed.

(* ... a variant that leaves the message WAITING in the queue, confirmed, and never stored: delivered before the tick,
   purged (the pending add is cancelled), rejected with requeue (Requeue finds the add still pending and writes nothing),
   then the tick confirms the cancelled add: basic.ack goes out, the message sits in d1, no key will ever be written *)
Example C04_F41_unsettled_requeued_confirmed_never_stored :
  let ls := ex_setup ++ ex_pub 1 1 "amq.fanout" "" 1 true ++
            [LMethod 1 1 (MGet "d1" false); LMethod 1 1 (MQPurge "d1" false); LMethod 1 1 (MReject 1 true)] ++ ex_flush in
  hyps ls = (true, false, false) /\ ex_acks ls = [(1, 1, SAck 1 false)] /\
  ex_ready (R ls) "d1" = [1] /\ st_db (R ls) = [(1, "d2")] /\ st_add (R ls) = [] /\
  ex_ready (R (ls ++ [LRestart])) "d1" = [].
Proof. vm_compute. repeat split; reflexivity. Qed.

(* ... whereas a requeue AFTER the tick writes the key back (store completeness is restored, the message survives) *)
Example C04_F41_unsettled_requeue_after_the_tick_writes_back :
  let ls := ex_setup ++ ex_pub 1 1 "amq.fanout" "" 1 true ++ ex_flush ++
            [LMethod 1 1 (MGet "d1" false); LMethod 1 1 (MQPurge "d1" false); LMethod 1 1 (MReject 1 true)] in
  store_completeb (R ls) = true /\ st_db (R ls) = [(1, "d2"); (1, "d1")] /\ ex_ready (R (ls ++ [LRestart])) "d1" = [1].
Proof. vm_compute. repeat split; reflexivity. Qed.
