(* C13 - the outbound byte stream is always a valid, uninterleaved frame sequence.
   Only statements: each closed by `exact <lemma>` + Print Assumptions.
   PARTIAL (see DESIGN.md): the model serialises the senders of one channel (one label = one sender's whole block), so
   the theorems below say that every sender emits a well-formed block; that concurrent senders of one channel do not
   interleave frame by frame, the negotiated frame-max / channel-max and "nothing after close-ok" are judged on the
   real byte stream by the monitor (every explored session), not proved. *)
From Coq Require Import List String NArith ZArith Bool.
Import ListNotations.
From GMQ Require Import Broker.Model Proofs.BrokerFrames Proofs.BrokerStream.
Open Scope N_scope.
From GMQ Require Import Broker.gen.BrokerGen.

Theorem C13_delivery_is_one_block :
  forall cfg fx s c h tag,
    let evs := snd (consumer_turn cfg fx s c h tag) in
    evs = [] \/ exists d r ex k rest, evs = (c, h, SDeliver tag d r ex k) :: rest /\ content_block c h rest.
Proof. exact consumer_turn_emits_one_block. Qed.
Print Assumptions C13_delivery_is_one_block.

Theorem C13_get_ok_is_one_block :
  forall cfg fx s c h q noack,
    let evs := snd (fst (handle_method cfg fx s c h (MGet q noack))) in
    evs = [] \/ evs = [(c, h, SGetEmpty)] \/
    exists d r ex k mc rest, evs = (c, h, SGetOk d r ex k mc) :: rest /\ content_block c h rest.
Proof. exact get_emits_one_block. Qed.
Print Assumptions C13_get_ok_is_one_block.

Theorem C13_return_is_one_block :
  forall fx s c h u,
    let evs := snd (route_and_push fx s c h u) in
    evs = [] \/ exists code ex k rest, evs = (c, h, SReturn code ex k) :: rest /\ content_block c h rest.
Proof. exact publish_emits_at_most_one_return. Qed.
Print Assumptions C13_return_is_one_block.

(* the block of a complete message carries exactly the announced number of body bytes *)
Theorem C13_block_has_announced_size :
  forall s c h u m,
    get_msg s u = Some m -> msg_complete m ->
    content_frames s c h u = (c, h, SHeader (m_mid m) (m_hsize m) (m_pers m)) :: map (fun l => (c, h, SBody (m_mid m) l)) (m_body m) /\
    m_hsize m = fold_left N.add (m_body m) 0.
Proof. exact content_frames_sizes. Qed.
Print Assumptions C13_block_has_announced_size.

Theorem C13_confirm_tick_emits_only_acks :
  forall cfg fx s c h, Forall (fun e => exists t, e = (c, h, SAck t false)) (snd (step cfg fx s (LConfirmTick c h))).
Proof. exact confirm_tick_emits_acks. Qed.
Print Assumptions C13_confirm_tick_emits_only_acks.

Theorem C13_teardown_ends_with_socket_close :
  forall cfg fx s c cn, get_conn s c = Some cn -> exists evs, snd (conn_close cfg fx s c) = evs ++ [(c, 0, SConnGone)].
Proof. exact teardown_ends_with_socket_close. Qed.
Print Assumptions C13_teardown_ends_with_socket_close.

Example C13_example :
  let cfg := {| cfg_rabbit := true; cfg_rollback := true; cfg_release_first := false |} in
  snd (run cfg all_fixed (init cfg)
     [LConnect 1; LMethod 1 1 MChannelOpen; LMethod 1 1 (MQDeclare "q" false false false false false);
      LMethod 1 1 (MPublish "" "q" false false); LHeader 1 1 5 7 true; LBody 1 1 4; LBody 1 1 3;
      LMethod 1 1 (MGet "q" true)])
  = [(1, 1, SChannelOpenOk); (1, 1, SQDeclareOk "q" 0 0);
     (1, 1, SGetOk 1 false "" "q" 0); (1, 1, SHeader 5 7 true); (1, 1, SBody 5 4); (1, 1, SBody 5 3)].
Proof. vm_compute. reflexivity. Qed.

(* the discipline of the source that the model's "one sender at a time per channel" stands on, read off /repo on every
   run by translator/cmd/broker: every method / content frame of a channel is written while its send lock is held *)
Theorem C13_generated_send_discipline : send_under_channel_lock = true /\ send_method_and_content_locked = true.
Proof. split; reflexivity. Qed.
Print Assumptions C13_generated_send_discipline.
