(* C01 - no accepted message is lost while the broker runs.
   Only statements: each closed by `exact <lemma>` + Print Assumptions.
   R s q   = the messages waiting in queue q, oldest first (None: no such queue)
   U s c h = the unsettled deliveries of channel (c,h)
   goes_to s q u = delivery u came from the queue object that is q now, and q is active. *)
From Coq Require Import List String NArith ZArith Bool.
Import ListNotations.
From GMQ Require Import Broker.Model Proofs.BrokerFrames Proofs.BrokerTags Proofs.BrokerChanInv Proofs.BrokerQueueInv Proofs.BrokerReady.
From GMQ Require Import Broker.gen.BrokerGen.
Open Scope N_scope.

(* (1) A published message that routes is appended - once - to every matched queue and changes no other queue:
   in ANY state, for ANY exchange and binding set. *)
Theorem C01_publish_places_in_every_matched_queue :
  forall fx s c h u m ex q,
    get_msg s u = Some m -> alookup seqb (m_ex m) (exchanges s) = Some ex ->
    R (fst (route_and_push fx s c h u)) q =
    match R s q with
    | Some l => Some (if existsb (seqb q) (matched_queues (negb (fx_direct_all fx)) ex (m_key m)) && push_target s q then l ++ [u] else l)
    | None => None
    end.
Proof. exact route_places_once. Qed.
Print Assumptions C01_publish_places_in_every_matched_queue.

(* (2) A consumer turn removes at most the head of one queue (the message it delivers); nothing is inserted,
   reordered or dropped from any queue. *)
Theorem C01_delivery_takes_only_the_head :
  forall cfg fx s c h tag q,
    let s' := fst (consumer_turn cfg fx s c h tag) in
    R s' q = R s q \/ exists u l, R s q = Some (u :: l) /\ R s' q = Some l.
Proof. exact consumer_turn_pops_head. Qed.
Print Assumptions C01_delivery_takes_only_the_head.

(* (3) Acknowledging (single or multiple) never touches a waiting message of any queue. *)
Theorem C01_ack_keeps_waiting_messages :
  forall cfg s c h tag mult q, R (fst (handle_ack cfg s c h tag mult)) q = R s q.
Proof. exact ack_keeps_ready. Qed.
Print Assumptions C01_ack_keeps_waiting_messages.

(* (4) reject / nack with requeue of one delivery puts its message back at the head of its queue. *)
Theorem C01_requeue_puts_back :
  forall cfg s c h tag cls mth s' u q,
    handle_reject cfg s c h tag false true cls mth = (s', None) ->
    find (fun u => u_tag u =? tag) (U s c h) = Some u ->
    R s' q = match R s q with Some l => Some (if goes_to s q u then u_msg u :: l else l) | None => None end.
Proof. exact reject_single_requeue_head. Qed.
Print Assumptions C01_requeue_puts_back.

(* (5) nack-multiple with requeue puts every covered delivery back, ahead of the waiting messages. *)
Theorem C01_nack_multiple_puts_all_back :
  forall cfg s c h tag cls mth q,
    R (fst (handle_reject cfg s c h tag true true cls mth)) q =
    match R s q with
    | Some l => Some (map u_msg (filter (goes_to s q) (rev (filter (covered tag) (sort_desc (U s c h))))) ++ l)
    | None => None
    end.
Proof. exact reject_multiple_requeue_returns. Qed.
Print Assumptions C01_nack_multiple_puts_all_back.

(* (6) Closing a channel (client close, close-ok after a broker close, connection teardown - all run channel_close)
   puts EVERY unsettled delivery of the channel back into its queue, ahead of the waiting messages. *)
Theorem C01_channel_close_puts_all_back :
  forall cfg s c h q,
    0 < h ->
    R (channel_close cfg s c h) q =
    match R s q with
    | Some l => Some (map u_msg (filter (goes_to s q) (rev (sort_desc (U s c h)))) ++ l)
    | None => None
    end.
Proof. exact channel_close_returns. Qed.
Print Assumptions C01_channel_close_puts_all_back.

(* (7) basic.cancel loses nothing: no waiting message changes, and the unsettled deliveries of every channel stay as
   they are - same delivery tags, messages and origin queues, in the same order; the only change is that the cancelled
   consumer's deliveries no longer name its tag (`orphan`), which a later consumer may use again. *)
Theorem C01_cancel_keeps_messages :
  forall cfg fx s c h tag nowait,
    let s' := fst (fst (handle_method cfg fx s c h (MCancel tag nowait))) in
    (forall q, R s' q = R s q) /\
    (forall c' h', U s' c' h' = U s c' h' \/ U s' c' h' = map (orphan tag) (U s c' h')) /\
    (forall c' h', map u_tag (U s' c' h') = map u_tag (U s c' h') /\ map u_msg (U s' c' h') = map u_msg (U s c' h') /\
                   map u_qid (U s' c' h') = map u_qid (U s c' h') /\ map u_queue (U s' c' h') = map u_queue (U s c' h')).
Proof. exact cancel_keeps_messages. Qed.
Print Assumptions C01_cancel_keeps_messages.

(* the order inside Channel.close that the atomic channel_close of the model stands on: consumers are stopped before the
   unsettled deliveries go back (otherwise a consumer of the closing channel takes them again and they are lost with
   the channel); read off the source on every run (translator/cmd/broker) *)
Theorem C01_generated_close_order : close_stops_consumers_before_requeue = true.
Proof. reflexivity. Qed.
Print Assumptions C01_generated_close_order.

(* the auto-delete turn of the model deletes a queue only if it is still an auto-delete queue, and if unused; so does
   the code (read off the source on every run): defect F74 of the unchanged tree, repaired *)
Theorem C01_generated_autodelete_guard : autodelete_turn_checks_the_queue = true.
Proof. reflexivity. Qed.
Print Assumptions C01_generated_autodelete_guard.

(* Non-vacuity: three messages delivered to a consumer, one acked, channel closed: the other two are back, in order,
   ahead of a message published meanwhile. *)
Example C01_example :
  let cfg := {| cfg_rabbit := true; cfg_rollback := true; cfg_release_first := false |} in
  let pub k := [LMethod 1 1 (MPublish "" "q" false false); LHeader 1 1 k 3 false; LBody 1 1 3] in
  let s := fst (run cfg all_fixed (init cfg)
             ([LConnect 1; LMethod 1 1 MChannelOpen; LMethod 1 2 MChannelOpen; LMethod 1 1 (MQDeclare "q" false false false false false)]
              ++ pub 11 ++ pub 12 ++ pub 13 ++
              [LMethod 1 2 (MGet "q" false); LMethod 1 2 (MGet "q" false); LMethod 1 2 (MGet "q" false); LMethod 1 2 (MAck 2 false)] ++ pub 14)) in
  R s "q" = Some [4] /\ map u_msg (U s 1 2) = [1; 3] /\ R (channel_close cfg s 1 2) "q" = Some [1; 3; 4].
Proof. vm_compute. repeat split; reflexivity. Qed.
