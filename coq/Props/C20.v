(* C20 - counts reported to clients and the admin API are accurate.
   Only statements: each closed by `exact <lemma>` + Print Assumptions. *)
From Coq Require Import List String NArith ZArith Bool.
Import ListNotations.
From GMQ Require Import Broker.Model Proofs.BrokerFrames Proofs.BrokerQueueInv Proofs.BrokerCounts.
Open Scope N_scope.
From GMQ Require Import Broker.gen.BrokerGen.

(* In EVERY reachable state, for every queue: the length counter (the number the broker reports as message-count)
   and the `ready` figure of the admin API both equal the true number of messages waiting in the queue. *)
Theorem C20_length_counter_exact :
  forall cfg fx ls qn qu,
    fx_delete_checks_first fx = true ->
    get_queue (fst (run cfg fx (init cfg) ls)) qn = Some qu ->
    q_len qu = Z.of_nat (List.length (q_ready qu)) /\ q_mready qu = Z.of_nat (List.length (q_ready qu)).
Proof. exact length_counter_exact. Qed.
Print Assumptions C20_length_counter_exact.

(* What the replies carry: in every reachable state, a passive queue.declare that succeeds answers the true number of
   ready messages and consumers; queue.purge answers the number of messages it removed and leaves the queue empty;
   basic.get answers get-empty exactly when no message is ready (no prefetch window being in the way). *)
Theorem C20_declare_ok_counts :
  forall cfg fx ls c h name s' evs,
    fx_delete_checks_first fx = true ->
    let s := fst (run cfg fx (init cfg) ls) in
    get_chan s c h <> None ->
    handle_method cfg fx s c h (MQDeclare name false false false true false) = (s', evs, None) ->
    exists qu, get_queue s name = Some qu /\
      evs = [(c, h, SQDeclareOk name (N.of_nat (List.length (q_ready qu)) mod two32) (N.of_nat (List.length (q_consumers qu))))].
Proof. exact declare_ok_counts. Qed.
Print Assumptions C20_declare_ok_counts.

Theorem C20_purge_ok_count :
  forall cfg fx ls c h name s' evs,
    fx_delete_checks_first fx = true ->
    let s := fst (run cfg fx (init cfg) ls) in
    get_chan s c h <> None ->
    handle_method cfg fx s c h (MQPurge name false) = (s', evs, None) ->
    exists qu qu', get_queue s name = Some qu /\ get_queue s' name = Some qu' /\ q_ready qu' = [] /\
      evs = [(c, h, SQPurgeOk (N.of_nat (List.length (q_ready qu)) mod two32))].
Proof. exact purge_ok_count. Qed.
Print Assumptions C20_purge_ok_count.

Theorem C20_get_empty_iff :
  forall cfg fx ls c h name s' evs,
    fx_delete_checks_first fx = true ->
    let s := fst (run cfg fx (init cfg) ls) in
    get_chan s c h <> None ->
    handle_method cfg fx s c h (MGet name true) = (s', evs, None) ->
    exists qu, get_queue s name = Some qu /\ (evs = [(c, h, SGetEmpty)] <-> q_ready qu = []).
Proof. exact get_empty_iff. Qed.
Print Assumptions C20_get_empty_iff.

(* Non-vacuity *)
Example C20_example :
  let cfg := {| cfg_rabbit := true; cfg_rollback := true; cfg_release_first := false |} in
  let s := fst (run cfg all_fixed (init cfg)
             [LConnect 1; LMethod 1 1 MChannelOpen; LMethod 1 1 (MQDeclare "q" false false false false false);
              LMethod 1 1 (MPublish "" "q" false false); LHeader 1 1 7 3 false; LBody 1 1 3;
              LMethod 1 1 (MPublish "" "q" false false); LHeader 1 1 8 0 false]) in
  snd (fst (handle_method cfg all_fixed s 1 1 (MQDeclare "q" false false false true false))) = [(1, 1, SQDeclareOk "q" 2 0)].
Proof. vm_compute. reflexivity. Qed.

(* the queue length every count is read from is changed through sync/atomic only - read off /repo on every run *)
Theorem C20_generated_queue_length_atomic : queue_length_atomic = true.
Proof. reflexivity. Qed.
Print Assumptions C20_generated_queue_length_atomic.
