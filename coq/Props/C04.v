(* C04 - confirmed persistent messages survive a kill at any instant: the STORE CORE
   (msgstorage over the engine).  ONLY property statements, each closed by `exact <lemma>`
   and followed by Print Assumptions.  `forall ls` ranges over every interleaving of API calls,
   persist phases (swap / batch / confirm emission), ticks and Kills the model distinguishes.
   Assumed, not modelled: a completed engine batch is durable and atomic (the generated
   obligations below are what that assumption rests on in the source).  The broker-level
   clauses (confirm put on the socket, ack processing, order of delivery) are the broker model's. *)
From Coq Require Import String List NArith Bool.
Import ListNotations.
From GMQ Require Import Store.KeyFmt Store.gen.KeyFmtGen Store.gen.OptsGen Store.KV Store.SrvStore Store.MsgStore Store.StoreSpec
  Proofs.StoreKVProofs Proofs.StoreKeyProofs Proofs.StoreMsgProofs.
Open Scope N_scope.

(* ---- generated obligations: engine options and statement order of persist ---- *)
Theorem C04_generated_badger_sync_writes : badger_sync_writes = true.
Proof. reflexivity. Qed.
Theorem C04_generated_bunt_sync_always : bunt_sync_always = true.
Proof. reflexivity. Qed.
Theorem C04_generated_persist_shape :
  persist_swap_under_lock = true /\ persist_del_cancels_add = true /\ persist_del_drops_update = true /\
  persist_cancelled_del_removed = true /\ persist_batch_order = [GAdd; GUpdate; GDel] /\
  persist_confirm_after_batch = true /\ persist_confirm_guarded = true /\ persist_settled_confirmed = true /\ persist_confirm_counts = true.
Proof. repeat split; reflexivity. Qed.
Theorem C04_generated_badger_not_stubs : badger_stub_iterate_by_prefix_from = false /\ badger_stub_delete_by_prefix = false /\
  badger_stub_keys_by_prefix_count = false /\ badger_stub_iterate_by_prefix = false.
Proof. exact gen_badger_not_stub. Qed.

(* ---- (a) makeKey from the generated format: injective for ALL queue names; scan prefix exact for separator-free names ---- *)
Theorem C04_msg_key_injective : forall q id q' id', id < two64 -> id' < two64 ->
  msg_key q id = msg_key q' id' -> q = q' /\ id = id'.
Proof. exact msg_key_inj. Qed.
Print Assumptions C04_msg_key_injective.

Theorem C04_scan_prefix_exact : forall q q' id, dotfree q = true -> dotfree q' = true ->
  (is_prefix (msg_prefix_del q) (msg_key q' id) = true <-> q = q').
Proof. exact prefix_iff_same_queue. Qed.
Print Assumptions C04_scan_prefix_exact.

Theorem C04_scan_prefix_exact_refuted : exists q q' id, is_prefix (msg_prefix_del q) (msg_key q' id) = true /\ q <> q'.
Proof. exact (ex_intro _ _ (ex_intro _ _ (ex_intro _ _ msg_prefix_collision))). Qed.
Print Assumptions C04_scan_prefix_exact_refuted.

(* ---- (d) durability of storage-confirmed keys over Kill at any point (badger) ---- *)
Theorem C04_store_durable_partial : forall c ls q m,
  nof21 (q :: label_names ls) = true ->
  no_del_of q (m_id m) ls = true -> no_purge_of q ls = true ->
  relay_in (msg_key q (m_id m)) (snd (ms_run (ms_init Badger true c) ls)) = true ->
  let st := ms_kill (fst (ms_run (ms_init Badger true c) ls)) in
  kv_mem (ms_db st) (msg_key q (m_id m)) = true.
Proof. exact store_durable. Qed.
Print Assumptions C04_store_durable_partial.

(* key-level form: the only purges that matter are those whose scan prefix covers the key *)
Theorem C04_store_durable_key : forall c ls k,
  forallb (label_safe k) ls = true ->
  relay_in k (snd (ms_run (ms_init Badger true c) ls)) = true ->
  kv_mem (ms_db (fst (ms_run (ms_init Badger true c) ls))) k = true /\
  kv_mem (ms_db (ms_kill (fst (ms_run (ms_init Badger true c) ls)))) k = true.
Proof. exact store_durable_key. Qed.
Print Assumptions C04_store_durable_key.

(* "not purged SINCE": ls0 = what happened before anything wrote or Del-requested the key (purges of its queue
   included: they are harmless there), ls1 = everything after, with no Del of the key and no purge covering it *)
Theorem C04_store_durable_since : forall c ls0 ls1 k,
  forallb (untouched k) ls0 = true -> forallb (label_safe k) ls1 = true ->
  relay_in k (snd (ms_run (ms_init Badger true c) (ls0 ++ ls1))) = true ->
  kv_mem (ms_db (ms_kill (fst (ms_run (ms_init Badger true c) (ls0 ++ ls1))))) k = true.
Proof. exact store_durable_since. Qed.
Print Assumptions C04_store_durable_since.

Example C04_store_durable_since_example :
  let ls0 := [MAdd (mk 90 1) qa; MPersistTick; MPurge qa; MKill] in
  let ls1 := [MAdd (mk 100 2) qa; MPersistTick; MKill; MDel (mk 90 1) qa; MPersistTick] in
  forallb (untouched (msg_key qa 100)) ls0 = true /\ forallb (label_safe (msg_key qa 100)) ls1 = true /\
  relay_in (msg_key qa 100) (snd (ms_run (ms_init Badger true true) (ls0 ++ ls1))) = true.
Proof. vm_compute. repeat split; reflexivity. Qed.

(* nothing recover(q) returns was never Added (or Updated) for q - both engines *)
Theorem C04_store_no_phantom_partial : forall e p c ls q limit x,
  nof21 (q :: label_names ls) = true ->
  In x (fst (ms_recover (fst (ms_run (ms_init e p c) ls)) q limit)) ->
  exists m0, x = strip m0 /\ (In (MAdd m0 q) ls \/ In (MUpdate m0 q) ls).
Proof. exact store_no_phantom. Qed.
Print Assumptions C04_store_no_phantom_partial.

(* recover(q) lists the survivors in increasing id (= publication) order, under the EXPLICIT hypothesis that q's ids
   have one decimal length and are below 2^63 (keys sort as strings; true for ids counted from UnixNano between
   2001 and 2262) - see C04_recover_order_refuted for what happens otherwise *)
Theorem C04_recover_order_partial : forall c ls q limit,
  nof21 (q :: label_names ls) = true ->
  same_dec_len (ids_for q ls) = true -> forallb id_ok (ids_for q ls) = true ->
  sorted_ids (fst (ms_recover (fst (ms_run (ms_init Badger true c) ls)) q limit)) = true.
Proof. exact store_recover_order. Qed.
Print Assumptions C04_recover_order_partial.

Example C04_recover_order_example :
  let ls := [MAdd (mk 1700000000000000003 1) qa; MAdd (mk 1700000000000000001 2) qa; MAdd (mk 1700000000000000002 3) (bs "b"); MPersistTick; MKill] in
  nof21 (qa :: label_names ls) = true /\ same_dec_len (ids_for qa ls) = true /\ forallb id_ok (ids_for qa ls) = true /\
  map m_id (fst (ms_recover (fst (ms_run (ms_init Badger true true) ls)) qa 0)) = [1700000000000000001; 1700000000000000003].
Proof. vm_compute. repeat split; reflexivity. Qed.

(* ---- what the faithful model refutes ---- *)
(* F21: without the name condition a purge of "a" removes the confirmed message of "a.b" *)
Theorem C04_store_durable_refuted_F21 : exists ls q id,
  no_del_of q id ls = true /\ no_purge_of q ls = true /\
  relay_in (msg_key q id) (snd (ms_run (ms_init Badger true true) ls)) = true /\
  kv_mem (ms_db (fst (ms_run (ms_init Badger true true) ls))) (msg_key q id) = false.
Proof.
  exact (ex_intro _ _ (ex_intro _ qab (ex_intro _ 100
    (conj (proj1 (proj2 f21_purge_crosses)) (conj (proj1 (proj2 (proj2 f21_purge_crosses)))
      (conj (proj1 f21_purge_crosses) (proj2 (proj2 (proj2 f21_purge_crosses))))))))).
Qed.
Print Assumptions C04_store_durable_refuted_F21.

(* F23: on the buntdb wrapper as coded, a confirmed message is in the engine but never recovered *)
Theorem C04_store_durable_bunt_refuted : exists ls q id,
  relay_in (msg_key q id) (snd (ms_run (ms_init Bunt true true) ls)) = true /\
  no_del_of q id ls = true /\ no_purge_of q ls = true /\
  kv_mem (ms_db (fst (ms_run (ms_init Bunt true true) ls))) (msg_key q id) = true /\
  ms_recover (fst (ms_run (ms_init Bunt true true) ls)) q 0 = ([], 0).
Proof. exact (ex_intro _ _ (ex_intro _ qa (ex_intro _ 100 bunt_not_recovered))). Qed.
Print Assumptions C04_store_durable_bunt_refuted.

(* ids of different decimal length are recovered out of id order (keys sort as strings) *)
Theorem C04_recover_order_refuted : exists ls q,
  map m_id (fst (ms_recover (fst (ms_run (ms_init Badger true true) ls)) q 0)) = [10; 9] /\ same_dec_len [9; 10] = false.
Proof. exact (ex_intro _ _ (ex_intro _ qa order_refuted)). Qed.
Print Assumptions C04_recover_order_refuted.

(* ---- PurgeQueue is effective (F41 repaired in /repo 390cc62: no hypothesis about the flush window is needed) ----
   After a purge of q (one that is not waiting for a running persist: persist holds flushLock), a key of q is out of the
   engine, and stays out - over ticks, kills, graceful stops, other queues' calls - for as long as nothing writes it
   again, whatever was pending for it when the purge ran. *)
Theorem C04_purge_effective : forall c ls0 ls1 q id,
  ms_fly (fst (ms_run (ms_init Badger true c) ls0)) = None ->
  forallb (fun l => negb (is_write_of (msg_key q id) l)) ls1 = true ->
  kv_mem (ms_db (fst (ms_run (ms_init Badger true c) (ls0 ++ MPurge q :: ls1)))) (msg_key q id) = false /\
  kv_mem (ms_db (ms_kill (fst (ms_run (ms_init Badger true c) (ls0 ++ MPurge q :: ls1))))) (msg_key q id) = false.
Proof. exact store_purge_effective. Qed.
Print Assumptions C04_purge_effective.

(* the repaired behaviour on the old F41 witness: nothing comes back and the publisher IS confirmed *)
Example C04_purge_in_flush_window_repaired :
  let ls := [MAdd (mk 100 1) qa; MPurge qa; MPersistTick; MKill] in
  let r := ms_run (ms_init Badger true true) ls in
  fst (ms_recover (fst r) qa 0) = [] /\ ms_db (fst r) = [] /\ relay_in (msg_key qa 100) (snd r) = true.
Proof. exact purge_in_window_repaired. Qed.

(* F72 repaired (/repo 6288047): a graceful stop writes out what is pending, a kill loses it *)
Theorem C04_generated_purge_and_close :
  purge_waits_for_persist = true /\ purge_cancels_pending_adds = true /\ purge_drops_pending_updates = true /\ close_persists = true.
Proof. exact gen_purge. Qed.
Example C04_close_persists_kill_loses :
  map m_id (fst (ms_recover (fst (ms_run (ms_init Badger true true) [MAdd (mk 100 1) qa; MClose])) qa 0)) = [100] /\
  fst (ms_recover (fst (ms_run (ms_init Badger true true) [MAdd (mk 100 1) qa; MKill])) qa 0) = [].
Proof. exact close_persists_kill_loses. Qed.

(* ---- non-vacuity ---- *)
Example C04_store_durable_example :
  let ls := [MAdd (mk 100 1) qa; MAdd (mk 101 2) (bs "b"); MPersistSwap; MAdd (mk 102 3) qa; MPersistBatch; MPurge (bs "b");
             MPersistConfirm; MKill; MAdd (mk 103 4) qa; MKill; MPersistTick] in
  nof21 (qa :: label_names ls) = true /\ no_del_of qa 100 ls = true /\ no_purge_of qa ls = true /\
  relay_in (msg_key qa 100) (snd (ms_run (ms_init Badger true true) ls)) = true /\
  map m_id (fst (ms_recover (ms_kill (fst (ms_run (ms_init Badger true true) ls))) qa 0)) = [100].
Proof. exact durable_example. Qed.
