(* C09 - durable exchanges, queues and bindings survive restart exactly: the metadata store.
   ONLY property statements, each closed by `exact <lemma>` and followed by Print Assumptions.
   The broker-level clauses (write-through before the reply, recovery order of NewVhost) are
   the broker model's.  Engine durability of a completed Set/Del is assumed, not modelled. *)
From Coq Require Import String List NArith Bool.
Import ListNotations.
From GMQ Require Import Store.KeyFmt Store.gen.KeyFmtGen Store.KV Store.SrvStore Store.MsgStore Store.StoreSpec
  Proofs.StoreKVProofs Proofs.StoreKeyProofs Proofs.StoreSrvProofs.
Open Scope N_scope.

(* ---- (a) the key functions built from the GENERATED formats: shape, injectivity ---- *)
Theorem C09_queue_key_injective : forall v n v' n', dotfree v = true -> dotfree v' = true ->
  queue_key_add v n = queue_key_add v' n' -> v = v' /\ n = n'.
Proof. exact queue_key_inj. Qed.
Print Assumptions C09_queue_key_injective.

Theorem C09_exchange_key_injective : forall v n v' n', dotfree v = true -> dotfree v' = true ->
  exchange_key_add v n = exchange_key_add v' n' -> v = v' /\ n = n'.
Proof. exact exchange_key_inj. Qed.
Print Assumptions C09_exchange_key_injective.

Theorem C09_binding_key_injective : forall v b v' b', dotfree v = true -> dotfree v' = true ->
  usfree (bd_queue b) = true -> usfree (bd_exchange b) = true ->
  usfree (bd_queue b') = true -> usfree (bd_exchange b') = true ->
  binding_key_add v b = binding_key_add v' b' ->
  v = v' /\ bd_queue b = bd_queue b' /\ bd_exchange b = bd_exchange b' /\ bd_key b = bd_key b'.
Proof. exact binding_key_inj. Qed.
Print Assumptions C09_binding_key_injective.

(* getVhostFromKey recovers the vhost of every kind of key (Split separator and index) *)
Theorem C09_vhost_of_key : forall v, dotfree v = true ->
  (forall n, vhost_of_key (queue_key_add v n) = Some v) /\
  (forall n, vhost_of_key (exchange_key_add v n) = Some v) /\
  (forall b, vhost_of_key (binding_key_add v b) = Some v) /\
  vhost_of_key (vhost_key v) = Some v.
Proof.
  exact (fun v H => conj (fun n => vhost_of_queue_key v n H) (conj (fun n => vhost_of_exchange_key v n H)
         (conj (fun b => vhost_of_binding_key v b H) (vhost_of_vhost_key v H)))).
Qed.
Print Assumptions C09_vhost_of_key.

(* Del* addresses the key Add* wrote; keys of different kinds never meet under a scan prefix *)
Theorem C09_del_addresses_add : (forall v n, queue_key_del v n = queue_key_add v n) /\
  (forall v n, exchange_key_del v n = exchange_key_add v n) /\ (forall v b, binding_key_del v b = binding_key_add v b).
Proof. exact (conj queue_key_del_add (conj exchange_key_del_add binding_key_del_add)). Qed.
Print Assumptions C09_del_addresses_add.

(* ---- F21 witnesses: names containing the separators ---- *)
Theorem C09_binding_key_injective_refuted : exists v b b', binding_key_add v b = binding_key_add v b' /\ bd_queue b <> bd_queue b'.
Proof. exact (ex_intro _ _ (ex_intro _ _ (ex_intro _ _ binding_key_collision))). Qed.
Print Assumptions C09_binding_key_injective_refuted.

Theorem C09_vhost_with_dot_refuted : exists v n v' n', queue_key_add v n = queue_key_add v' n' /\ v <> v' /\
  vhost_of_key (queue_key_add v n) <> Some v.
Proof.
  exact (ex_intro _ _ (ex_intro _ _ (ex_intro _ _ (ex_intro _ _
    (conj (proj1 vhost_key_collision) (conj vhost_collision_neq vhost_collision_wrong)))))).
Qed.
Print Assumptions C09_vhost_with_dot_refuted.

(* ---- (c) the round trip: after ANY sequence of AddVhost/AddExchange/DelExchange/AddQueue/DelQueue/AddBinding/
   DelBinding operations, with a Kill (SKill) between any two of them, the Get* functions return exactly the
   entities added and not deleted (topo_spec: last declaration per identity, unless deleted since), each with
   exactly the fields the stored record keeps (restore_* = Unmarshal after Marshal).  ops_ok is the name
   condition as a boolean predicate: vhosts without '.', binding queue/exchange without '_', names that fit a
   shortstr.  (Binding identity is (vhost, queue, exchange, key): see C09_binding_arguments_refuted.) ---- *)
Theorem C09_topology_roundtrip_partial : forall ops v, ops_ok ops = true ->
  (exists l, srv_get_queues (srv_run ops) v = Some l /\
     forall r, In r l <-> exists n q, topo_spec ops (IQueue v n) = Some (EQueue q) /\ r = restore_queue q) /\
  (exists l, srv_get_exchanges (srv_run ops) v = Some l /\
     forall r, In r l <-> exists n x, topo_spec ops (IExchange v n) = Some (EExchange x) /\ r = restore_exchange x) /\
  (exists l, srv_get_bindings (srv_run ops) v = Some l /\
     forall r, In r l <-> exists q e k b, topo_spec ops (IBinding v q e k) = Some (EBinding b) /\ r = restore_binding b).
Proof. exact topology_roundtrip. Qed.
Print Assumptions C09_topology_roundtrip_partial.

(* entities whose unstored flags are at their defaults come back exactly *)
Theorem C09_stored_fields_exact :
  (forall q, short (qu_name q) = true -> queue_fully_stored q = true -> restore_queue q = q) /\
  (forall e, short (ex_name e) = true -> exchange_fully_stored e = true -> restore_exchange e = e).
Proof. exact (conj restore_queue_id restore_exchange_id). Qed.
Print Assumptions C09_stored_fields_exact.

(* F22: what is not stored *)
Theorem C09_exchange_flags_refuted : exists e, short (ex_name e) = true /\ restore_exchange e <> e.
Proof. exact restore_exchange_refuted. Qed.
Theorem C09_queue_owner_refuted : exists q, short (qu_name q) = true /\ restore_queue q <> q.
Proof. exact restore_queue_refuted. Qed.
Theorem C09_binding_match_any_refuted : exists b, bd_match_any b = true /\ bd_match_any (restore_binding b) = false.
Proof. exact restore_binding_refuted. Qed.
Print Assumptions C09_binding_match_any_refuted.

(* F21: the binding key ignores the arguments - of two headers bindings that differ only there, one survives *)
Theorem C09_binding_arguments_refuted : exists v b1 b2, bd_args b1 <> bd_args b2 /\
  srv_get_bindings (srv_run [SAddBinding v b1; SAddBinding v b2]) v = Some [b2].
Proof.
  exact (ex_intro _ _ (ex_intro _ _ (ex_intro _ _ (conj binding_args_differ binding_args_overwrite)))).
Qed.
Print Assumptions C09_binding_arguments_refuted.

(* non-vacuity of the round trip *)
Example C09_roundtrip_example :
  let q1 := {| qu_name := bs "orders.eu"; qu_conn_id := 0; qu_exclusive := false; qu_autodelete := false; qu_durable := true |} in
  let q2 := {| qu_name := bs "tmp"; qu_conn_id := 0; qu_exclusive := false; qu_autodelete := true; qu_durable := true |} in
  let x := {| ex_name := bs "logs"; ex_type := 2; ex_durable := true; ex_autodelete := false; ex_internal := false; ex_system := false |} in
  let b := {| bd_queue := bs "orders.eu"; bd_exchange := bs "logs"; bd_key := bs "eu.#"; bd_args := []; bd_topic := true; bd_match_any := false |} in
  let ops := [SAddVhost (bs "/") true; SAddExchange (bs "/") x; SAddQueue (bs "/") q1; SKill; SAddQueue (bs "/") q2;
              SAddBinding (bs "/") b; SAddQueue (bs "other") q2; SKill; SDelQueue (bs "/") q2; SKill] in
  ops_ok ops = true /\ srv_get_queues (srv_run ops) (bs "/") = Some [q1] /\ srv_get_exchanges (srv_run ops) (bs "/") = Some [x] /\
  srv_get_bindings (srv_run ops) (bs "/") = Some [b] /\ srv_get_queues (srv_run ops) (bs "other") = Some [q2].
Proof. exact roundtrip_example. Qed.

(* Non-vacuity of the name conditions *)
Example C09_names_example : dotfree (bytes_of_string "/") = true /\ usfree (bytes_of_string "orders.eu") = true /\
  queue_key_add (bytes_of_string "/") (bytes_of_string "orders.eu") = bytes_of_string "vhost.queue./.orders.eu".
Proof. vm_compute. repeat split; reflexivity. Qed.
