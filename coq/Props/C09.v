(* C09 - durable exchanges, queues and bindings survive restart exactly: the metadata store.
   ONLY property statements, each closed by `exact <lemma>` and followed by Print Assumptions.
   The broker-level clauses (write-through before the reply, recovery order of NewVhost) are
   the broker model's.  Engine durability of a completed Set/Del is assumed, not modelled. *)
From Coq Require Import String List NArith Bool.
Import ListNotations.
From GMQ Require Import Store.KeyFmt Store.gen.KeyFmtGen Store.KV Store.SrvStore Store.MsgStore Store.StoreSpec
  Proofs.StoreKVProofs Proofs.StoreKeyProofs.
Open Scope N_scope.

(* ---- (a) the key functions built from the GENERATED formats: shape, injectivity ---- *)
Theorem C09_queue_key_injective : forall v n v' n', dotfree v = true -> dotfree v' = true ->
  queue_key_add v n = queue_key_add v' n' -> v = v' /\ n = n'.
Proof. exact queue_key_inj. Qed.
Print Assumptions C09_queue_key_injective.

Theorem C09_exchange_key_injective : forall v n v' n', dotfree v = true -> dotfree v' = true ->
  exchange_key_add v n = exchange_key_add v' n' -> v = v' /\ n = n'.
Proof. exact exchange_key_inj. Qed.
Print Assumptions C09_exchange_key_injective.

Theorem C09_binding_key_injective : forall v b v' b', dotfree v = true -> dotfree v' = true ->
  usfree (bd_queue b) = true -> usfree (bd_exchange b) = true ->
  usfree (bd_queue b') = true -> usfree (bd_exchange b') = true ->
  binding_key_add v b = binding_key_add v' b' ->
  v = v' /\ bd_queue b = bd_queue b' /\ bd_exchange b = bd_exchange b' /\ bd_key b = bd_key b'.
Proof. exact binding_key_inj. Qed.
Print Assumptions C09_binding_key_injective.

(* getVhostFromKey recovers the vhost of every kind of key (Split separator and index) *)
Theorem C09_vhost_of_key : forall v, dotfree v = true ->
  (forall n, vhost_of_key (queue_key_add v n) = Some v) /\
  (forall n, vhost_of_key (exchange_key_add v n) = Some v) /\
  (forall b, vhost_of_key (binding_key_add v b) = Some v) /\
  vhost_of_key (vhost_key v) = Some v.
Proof.
  exact (fun v H => conj (fun n => vhost_of_queue_key v n H) (conj (fun n => vhost_of_exchange_key v n H)
         (conj (fun b => vhost_of_binding_key v b H) (vhost_of_vhost_key v H)))).
Qed.
Print Assumptions C09_vhost_of_key.

(* Del* addresses the key Add* wrote; keys of different kinds never meet under a scan prefix *)
Theorem C09_del_addresses_add : (forall v n, queue_key_del v n = queue_key_add v n) /\
  (forall v n, exchange_key_del v n = exchange_key_add v n) /\ (forall v b, binding_key_del v b = binding_key_add v b).
Proof. exact (conj queue_key_del_add (conj exchange_key_del_add binding_key_del_add)). Qed.
Print Assumptions C09_del_addresses_add.

(* ---- F21 witnesses: names containing the separators ---- *)
Theorem C09_binding_key_injective_refuted : exists v b b', binding_key_add v b = binding_key_add v b' /\ bd_queue b <> bd_queue b'.
Proof. exact (ex_intro _ _ (ex_intro _ _ (ex_intro _ _ binding_key_collision))). Qed.
Print Assumptions C09_binding_key_injective_refuted.

Theorem C09_vhost_with_dot_refuted : exists v n v' n', queue_key_add v n = queue_key_add v' n' /\ v <> v' /\
  vhost_of_key (queue_key_add v n) <> Some v.
Proof.
  exact (ex_intro _ _ (ex_intro _ _ (ex_intro _ _ (ex_intro _ _
    (conj (proj1 vhost_key_collision) (conj vhost_collision_neq vhost_collision_wrong)))))).
Qed.
Print Assumptions C09_vhost_with_dot_refuted.

(* Non-vacuity of the name conditions *)
Example C09_names_example : dotfree (bytes_of_string "/") = true /\ usfree (bytes_of_string "orders.eu") = true /\
  queue_key_add (bytes_of_string "/") (bytes_of_string "orders.eu") = bytes_of_string "vhost.queue./.orders.eu".
Proof. vm_compute. repeat split; reflexivity. Qed.
