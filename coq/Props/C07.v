(* C07 - delivery never stalls while work and capacity exist.
   Only statements: each closed by `exact <lemma>` + Print Assumptions.
   The wake-up discipline, event by event: every event that can make a (queue, consumer) pair deliverable hands the
   consumer a token (directly, or through the queue's call token, whose loop turn signals every consumer of the queue);
   an armed consumer facing an admitted head delivers it and is armed again; the broker is idle only when no token is
   pending.  PARTIAL: the composition "no reachable idle state has a deliverable pair" is evaluated by the monitor on
   every quiescent snapshot of every explored session (exact and racy), not proved - see DESIGN.md, C07. *)
From Coq Require Import List String NArith ZArith Bool.
Import ListNotations.
From GMQ Require Import Broker.Model Proofs.BrokerFrames Proofs.BrokerTags Proofs.BrokerChanInv Proofs.BrokerWake.
Open Scope N_scope.
From GMQ Require Import Broker.gen.BrokerGen.

(* wake on push and on requeue: the queue's call token is raised *)
Theorem C07_push_raises_call :
  forall s qn u qu m, get_queue s qn = Some qu -> q_active qu = true -> get_msg s u = Some m ->
    exists qu', get_queue (queue_push s qn u) qn = Some qu' /\ q_call qu' = true.
Proof. exact push_raises_call. Qed.
Print Assumptions C07_push_raises_call.

Theorem C07_requeue_raises_call :
  forall s qn u qu, get_queue s qn = Some qu -> q_active qu = true ->
    exists qu', get_queue (queue_requeue s qn u) qn = Some qu' /\ q_call qu' = true.
Proof. exact requeue_raises_call. Qed.
Print Assumptions C07_requeue_raises_call.

(* the queue loop, once called, signals EVERY consumer of the queue (not just the one under the round-robin pointer) *)
Theorem C07_queue_loop_wakes_every_consumer :
  forall s qn qu c h tag,
    get_queue s qn = Some qu -> q_call qu = true -> In (c, h, tag) (q_consumers qu) ->
    armed (queue_loop_turn s qn) c h tag.
Proof. exact queue_loop_wakes_all. Qed.
Print Assumptions C07_queue_loop_wakes_every_consumer.

(* wake on settle: after the windows are released, every consumer of the channel is armed *)
Theorem C07_settle_wakes_channel :
  forall cfg s c h u tag, get_chan s c h <> None -> armed (dec_qos_and_consume_next cfg s c h u) c h tag.
Proof. exact settle_arms_channel. Qed.
Print Assumptions C07_settle_wakes_channel.

(* a new consumer starts armed (under the tag it asked for, or the one the server made up for an empty tag) *)
Theorem C07_new_consumer_armed :
  forall cfg fx s c h q tag noack excl nowait s' evs,
    handle_method cfg fx s c h (MConsume q tag noack excl nowait) = (s', evs, None) ->
    get_chan s c h <> None -> armed s' c h (eff_tag s tag).
Proof. exact consume_arms. Qed.
Print Assumptions C07_new_consumer_armed.

(* flow on: every consumer that is not stopped is started and armed *)
Theorem C07_flow_on_arms :
  forall cfg fx s c h s' evs ch tag,
    get_chan s c h = Some ch -> ch_flow ch = false ->
    handle_method cfg fx s c h (MChannelFlow true) = (s', evs, None) ->
    match consumer_at s' c h tag with
    | Some cm => c_status cm <> CStopped -> c_status cm = CStarted /\ c_token cm = true
    | None => True
    end.
Proof. exact flow_on_arms. Qed.
Print Assumptions C07_flow_on_arms.

(* progress: an armed, started consumer whose queue shows a head that its windows admit delivers that message *)
Theorem C07_armed_turn_delivers :
  forall cfg fx s c h tag ch cm qu u rest m,
    get_chan s c h = Some ch -> find_consumer ch tag = Some cm ->
    c_token cm = true -> c_status cm = CStarted ->
    get_queue s (c_queue cm) = Some qu -> q_active qu = true -> q_ready qu = u :: rest ->
    get_msg s u = Some m ->
    (c_noack cm = true \/ exists ws, fst (reserve (cfg_rollback cfg) (window_list cfg s c h cm) (msg_size s u mod two32)) = Some ws) ->
    exists d r, In (c, h, SDeliver tag d r (m_ex m) (m_key m)) (snd (consumer_turn cfg fx s c h tag)).
Proof. exact armed_turn_delivers. Qed.
Print Assumptions C07_armed_turn_delivers.

(* self re-arm: a consumer that delivered is armed again *)
Theorem C07_delivery_rearms :
  forall cfg fx s c h tag s' evs, consumer_turn cfg fx s c h tag = (s', evs) -> evs <> [] -> armed s' c h tag.
Proof. exact delivery_rearms. Qed.
Print Assumptions C07_delivery_rearms.

(* idle means no token pending: a raised call token or an armed consumer keeps the broker working *)
Theorem C07_idle_means_no_pending_wake :
  forall s, quiescent s = true ->
    (forall qn qu, In (qn, qu) (queues s) -> q_call qu = false) /\
    (forall c cn h ch cm, In (c, cn) (conns s) -> In (h, ch) (cn_chans cn) -> In cm (ch_consumers ch) -> c_token cm = false).
Proof. exact quiescent_no_pending_wake. Qed.
Print Assumptions C07_idle_means_no_pending_wake.

(* the order of signal and state change in the source, read off /repo on every run (translator/cmd/broker): a settle
   releases before it wakes, flow-on un-pauses before it signals, push / requeue / pop-with-new-head / add-consumer call
   the consumers, a consumer re-arms itself after a delivery *)
Theorem C07_generated_wake_order :
  settle_releases_before_wake = true /\ flow_unpauses_before_signal = true /\ queue_calls_consumers = true /\
  consumer_rearms_after_delivery = true.
Proof. repeat split; reflexivity. Qed.
Print Assumptions C07_generated_wake_order.
