(* C14 - closing a channel or losing a connection releases everything it held.
   Only statements: each closed by `exact <lemma>` + Print Assumptions. *)
From Coq Require Import List String NArith ZArith Bool.
Import ListNotations.
From GMQ Require Import Broker.Model Proofs.BrokerFrames Proofs.BrokerTags Proofs.BrokerChanInv Proofs.BrokerReady Proofs.BrokerRelease Proofs.BrokerDeliveryTag.
Open Scope N_scope.
From GMQ Require Import Broker.gen.BrokerGen.

(* Every way a connection ends - connection.close, close-ok after a broker error, the socket vanishing after ANY prefix
   of the session - is the same teardown: *)
Theorem C14_socket_loss_runs_the_teardown :
  forall cfg fx s c, step cfg fx s (LSocketLoss c) = conn_close cfg fx s c.
Proof. exact socket_loss_is_conn_close. Qed.
Print Assumptions C14_socket_loss_runs_the_teardown.

(* the teardown closes every channel of the connection (conn_close folds channel_close over them), and closing a
   channel leaves it closed, without consumers and - in every reachable state - without unsettled deliveries ... *)
Theorem C14_channel_close_releases :
  forall cfg fx ls c h ch',
    let s := fst (run cfg fx (init cfg) ls) in
    get_chan (channel_close cfg s c h) c h = Some ch' ->
    ch_status ch' = ChClosed /\ ch_consumers ch' = [] /\ (0 < h -> ch_unacked ch' = []).
Proof. exact channel_close_releases_reachable. Qed.
Print Assumptions C14_channel_close_releases.

(* ... all of which went back to their queues, ahead of the waiting messages *)
Theorem C14_unsettled_deliveries_return :
  forall cfg s c h q,
    0 < h ->
    R (channel_close cfg s c h) q =
    match R s q with
    | Some l => Some (map u_msg (filter (goes_to s q) (rev (sort_desc (U s c h)))) ++ l)
    | None => None
    end.
Proof. exact channel_close_returns. Qed.
Print Assumptions C14_unsettled_deliveries_return.

(* exclusive queues owned by the connection are deleted *)
Theorem C14_exclusive_queues_deleted :
  forall cfg fx s c q e o,
    fx_delete_checks_first fx = true ->
    EO (fst (conn_close cfg fx s c)) q = Some (e, o) -> get_conn s c <> None -> ~ (e = true /\ o = c).
Proof. exact conn_close_deletes_exclusive_queues. Qed.
Print Assumptions C14_exclusive_queues_deleted.

(* the broker retains no record of the connection or its channels, and the socket is closed *)
Theorem C14_connection_forgotten :
  forall cfg fx s c, get_conn (fst (conn_close cfg fx s c)) c = None /\ (forall h, get_chan (fst (conn_close cfg fx s c)) c h = None).
Proof. intros. split; [apply conn_close_forgets|intros; apply conn_close_forgets_channels]. Qed.
Print Assumptions C14_connection_forgotten.

Theorem C14_socket_closed :
  forall cfg fx s c cn, get_conn s c = Some cn -> In (c, 0, SConnGone) (snd (conn_close cfg fx s c)).
Proof. exact conn_close_emits_gone. Qed.
Print Assumptions C14_socket_closed.

(* Non-vacuity: a connection with a consumer, two unsettled deliveries and an exclusive queue is dropped mid-session. *)
Example C14_example :
  let cfg := {| cfg_rabbit := true; cfg_rollback := true; cfg_release_first := false |} in
  let pub k := [LMethod 2 1 (MPublish "" "q" false false); LHeader 2 1 k 3 false; LBody 2 1 3] in
  let s := fst (run cfg all_fixed (init cfg)
             ([LConnect 1; LConnect 2; LMethod 1 1 MChannelOpen; LMethod 2 1 MChannelOpen;
               LMethod 2 1 (MQDeclare "q" false false false false false); LMethod 1 1 (MQDeclare "mine" false true false false false);
               LMethod 1 1 (MConsume "q" "t" false false false)] ++ pub 1 ++ pub 2 ++
              [LQueueLoop "q"; LConsumerTurn 1 1 "t"; LConsumerTurn 1 1 "t"])) in
  map u_msg (U s 1 1) = [1; 2] /\ R s "q" = Some [] /\ R s "mine" = Some [] /\
  (let s' := fst (step cfg all_fixed s (LSocketLoss 1)) in
   R s' "q" = Some [1; 2] /\ R s' "mine" = None /\ get_conn s' 1 = None /\
   match get_queue s' "q" with Some qu => q_consumers qu = [] | None => False end).
Proof. vm_compute. repeat split; reflexivity. Qed.

(* a connection also ends by heartbeat timeout: in the model that is the socket-loss label; that the code arms the
   timeout whenever a heartbeat was negotiated and renews the read deadline in its reader is read off /repo on every run *)
(* the order inside Channel.close that the model's atomic channel_close stands on (translator/cmd/broker, every run) *)
Theorem C14_generated_close_order : close_stops_consumers_before_requeue = true.
Proof. reflexivity. Qed.
Print Assumptions C14_generated_close_order.

(* the auto-delete turn of the model deletes a queue only if it is still an auto-delete queue, and if unused; so does
   the code (read off the source on every run): defect F74 of the unchanged tree, repaired *)
Theorem C14_generated_autodelete_guard : autodelete_turn_checks_the_queue = true.
Proof. reflexivity. Qed.
Print Assumptions C14_generated_autodelete_guard.

(* a delivery does not take the queue table lock while it holds its consumer's status lock (a queue.delete takes them in
   the other order): the lock order that deadlocked the virtual host in F76, read off the source on every run *)
Theorem C14_generated_no_table_lock_in_delivery : delivery_takes_no_table_lock = true.
Proof. reflexivity. Qed.
Print Assumptions C14_generated_no_table_lock_in_delivery.

Theorem C14_generated_dead_peer_detection : heartbeat_always_arms_timeout = true /\ reader_sets_read_deadline = true.
Proof. split; reflexivity. Qed.
Print Assumptions C14_generated_dead_peer_detection.
